---------------------------- MODULE ShowTable ----------------------------
(* C09.  "A show accepted by the type checker never fails for its static type."

   Part 1 (reference) states the property as a relation between observations of the real code for
   one grid cell (context c, type class T, value variant):  B  = the template builds when v has the
   static type T,  R  = running it ends with a 'cannot show' error,  B', R' = the same with the same
   value held in a variable of an interface type (any, fmt.Stringer, error, ...).

   Part 2 (implementation-shaped model) transcribes the two tables the property relates:
   compiler.checkShow / checkShowJS / checkShowJSON  (internal/compiler/checker_statements.go) and
   runtime.toString / showIn*  (internal/runtime/renderer.go), branch by branch, over *type
   descriptors* (reflect kind, exact-type identity, implemented interfaces, element/key/field types).
   TLC model-checks part 2 against the relation of part 1 (MC_ShowTable); the real code is compared
   with part 2 only as a diagnostic (model_drift).                                              *)
EXTENDS Integers, Sequences, FiniteSets, TLC

CONSTANTS FixUintptr,   \* TRUE: model toString WITH a reflect.Uintptr case (FALSE = as in the code today)
          FixMapKey,    \* TRUE: model checkShowJS/JSON testing Stringer on the map KEY type (FALSE = on the map type, as today)
          FixMdURL      \* TRUE: model showInURL accepting Markdown stringers (FALSE = plain showInHTML, as today)
\* a model variant m is a record of these three choices; every operator of part 2 takes it as first argument
AsIs == [uintptr |-> FixUintptr, mapkey |-> FixMapKey, mdurl |-> FixMdURL]      \* as chosen by the configuration
Intended == [uintptr |-> TRUE, mapkey |-> TRUE, mdurl |-> TRUE]                 \* the tables that satisfy the property

(* ======================= Part 1: reference - what the property demands ======================= *)
\* an observation o of one (cell, box):  o.box, o.builds \in {"ok","builderror",...}, o.runerr \in {"none","cannotshow",...}
Built(o)      == o.builds = "ok"
ShowFailed(o) == o.runerr = "cannotshow"      \* the run ended with the renderer's 'cannot show' error class
StaticObs(r)  == {i \in 1..Len(r.o) : r.o[i].box = "static"}
BoxedObs(r)   == {i \in 1..Len(r.o) : r.o[i].box # "static" /\ r.o[i].builds # "unbindable"}

\* The relation is defined for a record when the type class and context were known to the driver,
\* the control (same template, v a string) builds and runs - so that a failure is due to the type,
\* not to the template of the context - and the statically typed observation exists.
Defined(r) == r.known /\ r.ctl = "ok" /\ StaticObs(r) # {}

\* Clause 1:  B => ~R.   "If a template builds, showing any value whose static type is not an
\* interface never fails at run time with a 'cannot show' error in the context where the show appears."
\* (every type class of the grid is a non-interface type)
AcceptedNeverFails(r) == \A i \in StaticObs(r) : Built(r.o[i]) => ~ShowFailed(r.o[i])

\* Clause 2:  R' => ~B.  "values of interface type fail only when their dynamic type would itself
\* have been rejected statically."  Reading chosen: "rejected statically" = the template with the
\* dynamic type as static type does not build (for whatever reason the compiler gives).
BoxedFailsOnlyIfRejected(r) ==
  \A j \in BoxedObs(r) : ShowFailed(r.o[j]) => \A i \in StaticObs(r) : ~Built(r.o[i])

PropertyHolds(r) == AcceptedNeverFails(r) /\ BoxedFailsOnlyIfRejected(r)

(* ======================= Part 2: implementation-shaped model ======================= *)
\* reflect.Kind order, as the checker's range tests (reflect.Bool <= kind && kind <= reflect.Complex128) use it
KindSeq == <<"invalid", "bool", "int", "int8", "int16", "int32", "int64", "uint", "uint8", "uint16", "uint32",
             "uint64", "uintptr", "float32", "float64", "complex64", "complex128", "array", "chan", "func",
             "iface", "map", "ptr", "slice", "string", "struct", "unsafeptr">>
Ord(k) == CHOOSE i \in 1..Len(KindSeq) : KindSeq[i] = k
Between(k, lo, hi) == Ord(lo) <= Ord(k) /\ Ord(k) <= Ord(hi)

ImplNames == {"Stringer", "EnvStringer", "error", "HTMLStringer", "HTMLEnvStringer", "CSSStringer", "CSSEnvStringer",
              "JSStringer", "JSEnvStringer", "JSONStringer", "JSONEnvStringer", "MarkdownStringer", "MarkdownEnvStringer"}

\* ---- type descriptors
\* kind: reflect kind; id: exact-type identity used by `t == byteSliceType`, `t == timeType`, `case native.HTML:` ...;
\* impl: interfaces the type implements; elem/key: names of element / key types; fields: exported struct fields;
\* dyn: for an interface-typed element, the dynamic type of the value the driver stores in it.
D(k) == [kind |-> k, id |-> "", impl |-> {}, elem |-> "", key |-> "", fields |-> <<>>, dyn |-> ""]
DI(k, impl) == [D(k) EXCEPT !.impl = impl]
DId(k, id) == [D(k) EXCEPT !.id = id]
DE(k, e) == [D(k) EXCEPT !.elem = e]
DM(key, e) == [D("map") EXCEPT !.key = key, !.elem = e]
DS(fs) == [D("struct") EXCEPT !.fields = fs]
DDyn(t) == [D("iface") EXCEPT !.dyn = t]

BasicKinds == {"bool", "int", "int8", "int16", "int32", "int64", "uint", "uint8", "uint16", "uint32", "uint64", "uintptr",
               "float32", "float64", "complex64", "complex128", "string"}

\* (a CASE rather than a function built with @@: TLC re-evaluates such a function on every use)
Desc(t) ==
  CASE t \in BasicKinds -> D(t)
    \* named variants (a named type keeps the kind; it is not the identical type)
    [] t = "N.bool" -> D("bool")
    [] t = "N.int" -> D("int")
    [] t = "N.uint8" -> D("uint8")
    [] t = "N.uintptr" -> D("uintptr")
    [] t = "N.float64" -> D("float64")
    [] t = "N.complex128" -> D("complex128")
    [] t = "N.string" -> D("string")
    [] t = "NN.uintptr" -> D("uintptr")
    [] t = "NN.int" -> D("int")
    \* byte slices
    [] t = "[]byte" -> [D("slice") EXCEPT !.id = "bytes", !.elem = "uint8"]
    [] t = "N.bytes" -> DE("slice", "uint8")
    \* Stringer / EnvStringer / error implementations of various kinds
    [] t = "T.Stringer.string" -> DI("string", {"Stringer"})
    [] t = "T.Stringer.int" -> DI("int", {"Stringer"})
    [] t = "T.Stringer.uintptr" -> DI("uintptr", {"Stringer"})
    [] t = "T.Stringer.struct" -> [DS(<<"int">>) EXCEPT !.impl = {"Stringer"}]
    [] t = "T.Stringer.ptr" -> [DE("ptr", "S.unexported") EXCEPT !.impl = {"Stringer"}]
    [] t = "T.Stringer.chan" -> DI("chan", {"Stringer"})
    [] t = "T.Stringer.func" -> DI("func", {"Stringer"})
    [] t = "T.EnvStringer" -> DI("struct", {"EnvStringer"})
    [] t = "T.error.struct" -> DI("struct", {"error"})
    [] t = "T.error.ptr" -> [DE("ptr", "S.unexported") EXCEPT !.impl = {"error"}]
    [] t = "*T.Stringer.struct" -> [DE("ptr", "T.Stringer.struct") EXCEPT !.impl = {"Stringer"}]
    [] t = "S.unexported" -> D("struct")
    \* trusted format types and their stringer interfaces
    [] t = "HTML" -> DId("string", "HTML")
    [] t = "CSS" -> DId("string", "CSS")
    [] t = "JS" -> DId("string", "JS")
    [] t = "JSON" -> DId("string", "JSON")
    [] t = "Markdown" -> DId("string", "Markdown")
    [] t = "T.HTMLStringer" -> DI("struct", {"HTMLStringer"})
    [] t = "T.HTMLEnvStringer" -> DI("struct", {"HTMLEnvStringer"})
    [] t = "T.CSSStringer" -> DI("struct", {"CSSStringer"})
    [] t = "T.CSSEnvStringer" -> DI("struct", {"CSSEnvStringer"})
    [] t = "T.JSStringer" -> DI("struct", {"JSStringer"})
    [] t = "T.JSEnvStringer" -> DI("struct", {"JSEnvStringer"})
    [] t = "T.JSONStringer" -> DI("struct", {"JSONStringer"})
    [] t = "T.JSONEnvStringer" -> DI("struct", {"JSONEnvStringer"})
    [] t = "T.MarkdownStringer" -> DI("struct", {"MarkdownStringer"})
    [] t = "T.MarkdownEnvStringer" -> DI("struct", {"MarkdownEnvStringer"})
    \* slices and arrays
    [] t = "[]int" -> DE("slice", "int")
    [] t = "[]string" -> DE("slice", "string")
    [] t = "[]chan" -> DE("slice", "chan")
    [] t = "[]func" -> DE("slice", "func")
    [] t = "[]uintptr" -> DE("slice", "uintptr")
    [] t = "[]any.int" -> DE("slice", "any.int")
    [] t = "[]any.chan" -> DE("slice", "any.chan")
    [] t = "[2]int" -> DE("array", "int")
    [] t = "[1]chan" -> DE("array", "chan")
    [] t = "[][]int" -> DE("slice", "[]int")
    [] t = "[]*int" -> DE("slice", "*int")
    [] t = "[]T.Stringer.struct" -> DE("slice", "T.Stringer.struct")
    [] t = "any.int" -> DDyn("int")
    [] t = "any.chan" -> DDyn("chan")
    \* maps
    [] t = "map[string]int" -> DM("string", "int")
    [] t = "map[int]string" -> DM("int", "string")
    [] t = "map[bool]int" -> DM("bool", "int")
    [] t = "map[float64]int" -> DM("float64", "int")
    [] t = "map[complex128]int" -> DM("complex128", "int")
    [] t = "map[uintptr]int" -> DM("uintptr", "int")
    [] t = "map[N.uintptr]int" -> DM("N.uintptr", "int")
    [] t = "map[string]chan" -> DM("string", "chan")
    [] t = "map[[2]int]int" -> DM("[2]int", "int")
    [] t = "map[T.Stringer.struct]int" -> DM("T.Stringer.struct", "int")
    [] t = "map[T.Stringer.int]int" -> DM("T.Stringer.int", "int")
    [] t = "M.Stringer.badkey" -> [DM("[2]int", "int") EXCEPT !.impl = {"Stringer"}]
    [] t = "N.map" -> DM("string", "int")
    [] t = "map[string]any.int" -> DM("string", "any.int")
    [] t = "map[any.int]int" -> DM("any.int", "int")
    [] t = "map[string][]chan" -> DM("string", "[]chan")
    [] t = "[]map[uintptr]int" -> DE("slice", "map[uintptr]int")
    [] t = "*map[uintptr]int" -> DE("ptr", "map[uintptr]int")
    \* structs and pointers
    [] t = "S.ok" -> DS(<<"int", "string">>)
    [] t = "S.chan" -> DS(<<"chan">>)
    [] t = "S.unexpchan" -> DS(<<"int">>)
    [] t = "S.uintptr" -> DS(<<"uintptr">>)
    [] t = "S.mapuintptr" -> DS(<<"map[uintptr]int">>)
    [] t = "*int" -> DE("ptr", "int")
    [] t = "*S.ok" -> DE("ptr", "S.ok")
    [] t = "*chan" -> DE("ptr", "chan")
    [] t = "**int" -> DE("ptr", "*int")
    [] t = "*uintptr" -> DE("ptr", "uintptr")
    [] t = "Rec" -> DS(<<"int", "*Rec">>)
    [] t = "*Rec" -> DE("ptr", "Rec")
    \* time, func, chan
    [] t = "time.Time" -> [D("struct") EXCEPT !.id = "time", !.impl = {"Stringer"}]
    [] t = "*time.Time" -> [DE("ptr", "time.Time") EXCEPT !.impl = {"Stringer"}]
    [] t = "func" -> D("func")
    [] t = "chan" -> D("chan")
    \* the interface types a value is boxed in (static type of v for the boxed observations)
    [] t = "iface.any" -> DId("iface", "any")
    [] t \in {"iface." \o i : i \in ImplNames} -> DI("iface", {CHOOSE i \in ImplNames : "iface." \o i = t})

NamedTypes == {"N.bool", "N.int", "N.uint8", "N.uintptr", "N.float64", "N.complex128", "N.string", "NN.uintptr",
              "NN.int", "[]byte", "N.bytes", "T.Stringer.string", "T.Stringer.int", "T.Stringer.uintptr",
              "T.Stringer.struct", "T.Stringer.ptr", "T.Stringer.chan", "T.Stringer.func", "T.EnvStringer",
              "T.error.struct", "T.error.ptr", "*T.Stringer.struct", "S.unexported", "HTML", "CSS", "JS", "JSON",
              "Markdown", "T.HTMLStringer", "T.HTMLEnvStringer", "T.CSSStringer", "T.CSSEnvStringer", "T.JSStringer",
              "T.JSEnvStringer", "T.JSONStringer", "T.JSONEnvStringer", "T.MarkdownStringer", "T.MarkdownEnvStringer",
              "[]int", "[]string", "[]chan", "[]func", "[]uintptr", "[]any.int", "[]any.chan", "[2]int", "[1]chan",
              "[][]int", "[]*int", "[]T.Stringer.struct", "any.int", "any.chan", "map[string]int", "map[int]string",
              "map[bool]int", "map[float64]int", "map[complex128]int", "map[uintptr]int", "map[N.uintptr]int",
              "map[string]chan", "map[[2]int]int", "map[T.Stringer.struct]int", "map[T.Stringer.int]int",
              "M.Stringer.badkey", "N.map", "map[string]any.int", "map[any.int]int", "map[string][]chan",
              "[]map[uintptr]int", "*map[uintptr]int", "S.ok", "S.chan", "S.unexpchan", "S.uintptr", "S.mapuintptr",
              "*int", "*S.ok", "*chan", "**int", "*uintptr", "Rec", "*Rec", "time.Time", "*time.Time", "func", "chan",
              "iface.any"}
TypeNames == BasicKinds \cup NamedTypes \cup {"iface." \o i : i \in ImplNames}

\* name of the interface type a box stands for
BoxType(box) == "iface." \o box

\* the type classes that form the grid (the other names are element types / box types)
AuxTypes == {"S.unexported", "any.int", "any.chan", "*Rec", "iface.any"} \cup {"iface." \o i : i \in ImplNames}
TypeClasses == TypeNames \ AuxTypes

Has(d, i) == i \in d.impl
InSeq(x, s) == \E i \in 1..Len(s) : s[i] = x

\* ---- contexts: registered context name -> ast context (spelled as ast.Context.String()) and URL flag
CtxOf(c) ==
  CASE c = "text" -> <<"text", FALSE>>
    [] c = "html" -> <<"HTML", FALSE>>
    [] c = "tag" -> <<"tag", FALSE>>
    [] c = "qattr" -> <<"quoted attribute", FALSE>>
    [] c = "uattr" -> <<"unquoted attribute", FALSE>>
    [] c = "css" -> <<"CSS", FALSE>>
    [] c = "cssstr" -> <<"CSS string", FALSE>>
    [] c = "js" -> <<"JavaScript", FALSE>>
    [] c = "jsstr" -> <<"JavaScript string", FALSE>>
    [] c = "json" -> <<"JSON", FALSE>>
    [] c = "jsonstr" -> <<"JSON string", FALSE>>
    [] c = "md" -> <<"Markdown", FALSE>>
    [] c = "tabcode" -> <<"tab code block", FALSE>>
    [] c = "spacescode" -> <<"spaces code block", FALSE>>
    [] c = "urlq" -> <<"quoted attribute", TRUE>>
    [] c = "urlu" -> <<"unquoted attribute", TRUE>>
    [] c = "urlquery" -> <<"quoted attribute", TRUE>>
    [] c = "urlset" -> <<"quoted attribute", TRUE>>
    [] c = "mdurl" -> <<"Markdown", TRUE>>
    [] c = "html.css" -> <<"CSS", FALSE>>
    [] c = "html.cssstr" -> <<"CSS string", FALSE>>
    [] c = "html.js" -> <<"JavaScript", FALSE>>
    [] c = "html.jsstr" -> <<"JavaScript string", FALSE>>
    [] c = "html.json" -> <<"JSON", FALSE>>
    [] c = "html.jsonstr" -> <<"JSON string", FALSE>>
    [] c = "md.tag" -> <<"tag", FALSE>>
    [] c = "md.qattr" -> <<"quoted attribute", FALSE>>
    [] c = "md.js" -> <<"JavaScript", FALSE>>
    [] c = "stmt.html" -> <<"HTML", FALSE>>
    [] c = "stmt2.html" -> <<"HTML", FALSE>>
    [] c = "if.js" -> <<"JavaScript", FALSE>>
    [] c = "for.text" -> <<"text", FALSE>>
    [] c = "macro.html" -> <<"HTML", FALSE>>
    [] c = "macro.json" -> <<"JSON", FALSE>>
    [] c = "macro.css" -> <<"CSS", FALSE>>
    [] c = "import.html" -> <<"quoted attribute", FALSE>>
    [] c = "import.js" -> <<"JavaScript", FALSE>>
    [] c = "extends.md" -> <<"Markdown", FALSE>>
    [] c = "render.text" -> <<"text", FALSE>>
AllCtxs == {"text", "html", "tag", "qattr", "uattr", "css", "cssstr", "js", "jsstr", "json", "jsonstr", "md",
           "tabcode", "spacescode", "urlq", "urlu", "urlquery", "urlset", "mdurl", "html.css", "html.cssstr",
           "html.js", "html.jsstr", "html.json", "html.jsonstr", "md.tag", "md.qattr", "md.js", "stmt.html",
           "stmt2.html", "if.js", "for.text", "macro.html", "macro.json", "macro.css", "import.html", "import.js",
           "extends.md", "render.text"}
BaseCtxs == {"text", "html", "tag", "qattr", "uattr", "css", "cssstr", "js", "jsstr", "json", "jsonstr", "md",
             "tabcode", "spacescode", "urlq", "urlu", "urlquery", "urlset", "mdurl"}

\* the three groups of contexts by the way a value is shown; used only to keep signatures specific
CtxClass(a) == IF a = "JavaScript" THEN "js" ELSE IF a = "JSON" THEN "json" ELSE "scalar"

\* ---- the static table: checkShow(t, ctx)
StringCtxs == {"text", "tag", "quoted attribute", "unquoted attribute", "CSS string", "JavaScript string",
               "JSON string", "tab code block", "spaces code block"}

RECURSIVE ChkJSLike(_, _, _, _)
\* checkShowJS (lang = "JS") and checkShowJSON (lang = "JSON"); vis is the `types` argument
ChkJSLike(m, lang, t, vis) ==
  LET d == Desc(t) IN
  IF InSeq(t, vis) THEN TRUE                                              \* slices.Contains(types, t)
  ELSE IF \/ Between(d.kind, "bool", "float64") \/ d.kind = "string" \/ d.id = "time"
          \/ Has(d, lang \o "Stringer") \/ Has(d, lang \o "EnvStringer") \/ Has(d, "error")
       THEN TRUE
  ELSE LET vis2 == Append(vis, t) IN
       CASE d.kind = "array" -> ChkJSLike(m, lang, d.elem, vis2)
         [] d.kind = "iface" -> TRUE
         [] d.kind = "map" ->
              LET kd == Desc(d.key)
                  sd == IF m.mapkey THEN kd ELSE d       \* the code tests t.Implements(...) on the map type
              IN /\ \/ kd.kind = "string"
                    \/ Between(kd.kind, "bool", "complex128")
                    \/ Has(sd, "Stringer")
                    \/ Has(sd, "EnvStringer")
                 /\ ChkJSLike(m, lang, d.elem, vis2)
         [] d.kind = "ptr" -> ChkJSLike(m, lang, d.elem, vis2)
         [] d.kind = "slice" -> ChkJSLike(m, lang, d.elem, vis2)
         [] d.kind = "struct" -> \A i \in 1..Len(d.fields) : ChkJSLike(m, lang, d.fields[i], vis2)
         [] OTHER -> FALSE

CheckShow(m, a, t) ==
  LET d == Desc(t) IN
  IF d.id = "any" THEN TRUE                                               \* t == emptyInterfaceType
  ELSE CASE a \in StringCtxs ->
              \/ d.kind = "string"
              \/ Between(d.kind, "bool", "complex128")
              \/ (a = "CSS string" /\ d.id = "bytes")
              \/ Has(d, "Stringer") \/ Has(d, "EnvStringer") \/ Has(d, "error")
         [] a = "HTML" ->
              \/ d.kind = "string"
              \/ Between(d.kind, "bool", "complex128")
              \/ d.id = "bytes"
              \/ Has(d, "Stringer") \/ Has(d, "EnvStringer")
              \/ Has(d, "HTMLStringer") \/ Has(d, "HTMLEnvStringer") \/ Has(d, "error")
         [] a = "CSS" ->
              \/ d.kind = "string"
              \/ Between(d.kind, "int", "float64")
              \/ d.id = "bytes"
              \/ Has(d, "Stringer") \/ Has(d, "EnvStringer")
              \/ Has(d, "CSSStringer") \/ Has(d, "CSSEnvStringer") \/ Has(d, "error")
         [] a = "JavaScript" -> ChkJSLike(m, "JS", t, <<>>)
         [] a = "JSON" -> ChkJSLike(m, "JSON", t, <<>>)
         [] a = "Markdown" ->
              \/ d.kind = "string"
              \/ Between(d.kind, "bool", "complex128")
              \/ Has(d, "Stringer") \/ Has(d, "EnvStringer")
              \/ Has(d, "MarkdownStringer") \/ Has(d, "MarkdownEnvStringer")
              \/ Has(d, "HTMLStringer") \/ Has(d, "HTMLEnvStringer") \/ Has(d, "error")

\* ---- the dynamic table: toString and showIn*; result "ok" or "cannotshow"
ToStringKinds(m) == {"invalid", "bool", "int", "int8", "int16", "int32", "int64", "uint", "uint8", "uint16", "uint32", "uint64",
                  "float32", "float64", "string", "complex64", "complex128"}
                 \cup (IF m.uintptr THEN {"uintptr"} ELSE {})
ToStr(m, d) == IF d.kind \in ToStringKinds(m) THEN "ok" ELSE "cannotshow"

AnyStringer(d) == Has(d, "Stringer") \/ Has(d, "EnvStringer") \/ Has(d, "error")
ShowInText(m, d) == IF AnyStringer(d) THEN "ok" ELSE ToStr(m, d)             \* also showInTag, showInJSString, code blocks
ShowInHTML(m, d) ==
  IF \/ d.id = "HTML" \/ Has(d, "HTMLStringer") \/ Has(d, "HTMLEnvStringer")
     \/ Has(d, "Stringer") \/ Has(d, "EnvStringer") \/ d.id = "bytes" \/ Has(d, "error")
  THEN "ok" ELSE ToStr(m, d)                                              \* native.Markdown without converter: toString
ShowInAttribute(m, d) ==
  IF AnyStringer(d) \/ d.id = "HTML" \/ Has(d, "HTMLStringer") \/ Has(d, "HTMLEnvStringer") THEN "ok" ELSE ToStr(m, d)
ShowInCSS(m, d) ==
  IF \/ d.id = "CSS" \/ Has(d, "CSSStringer") \/ Has(d, "CSSEnvStringer")
     \/ AnyStringer(d) \/ d.id = "bytes" \/ d.kind = "string"
  THEN "ok" ELSE ToStr(m, d)
ShowInCSSString(m, d) == IF AnyStringer(d) \/ d.id = "bytes" THEN "ok" ELSE ToStr(m, d)
ShowInMarkdown(m, d) ==
  IF \/ d.id = "Markdown" \/ Has(d, "MarkdownStringer") \/ Has(d, "MarkdownEnvStringer")
     \/ d.id = "HTML" \/ Has(d, "HTMLStringer") \/ Has(d, "HTMLEnvStringer") \/ AnyStringer(d)
  THEN "ok" ELSE ToStr(m, d)
ShowInURL(m, a, d) ==
  IF m.mdurl /\ a = "Markdown" /\ (Has(d, "MarkdownStringer") \/ Has(d, "MarkdownEnvStringer")) THEN "ok"
  ELSE ShowInHTML(m, d)

AllOk(S) == IF \A x \in S : x = "ok" THEN "ok" ELSE "cannotshow"

RECURSIVE ShowInJSLike(_, _, _, _, _)
\* showInJS / showInJSON.  z = the value is the zero value of its type (nil slice/map/pointer/interface);
\* otherwise the driver's value is non-nil with one element.  vis guards the recursive type Rec, whose
\* value ends in a nil pointer.
ShowInJSLike(m, lang, t, z, vis) ==
  LET d == Desc(t) IN
  IF d.kind = "iface" THEN (IF z \/ d.dyn = "" THEN "ok" ELSE ShowInJSLike(m, lang, d.dyn, FALSE, vis))   \* case nil: "null"
  ELSE IF \/ d.id = lang \/ Has(d, lang \o "Stringer") \/ Has(d, lang \o "EnvStringer")
          \/ d.id = "time" \/ Has(d, "error")
       THEN "ok"
  ELSE IF InSeq(t, vis) THEN "ok"
  ELSE LET vis2 == Append(vis, t) IN
       CASE Between(d.kind, "bool", "float64") \/ d.kind = "string" -> "ok"
         [] d.kind = "slice" ->
              IF d.id = "bytes" \/ z THEN "ok" ELSE ShowInJSLike(m, lang, d.elem, FALSE, vis2)
         [] d.kind = "array" -> ShowInJSLike(m, lang, d.elem, z, vis2)
         [] d.kind = "ptr" -> IF z THEN "ok" ELSE ShowInJSLike(m, lang, d.elem, FALSE, vis2)
         [] d.kind = "struct" ->
              AllOk({ShowInJSLike(m, lang, d.fields[i], z, vis2) : i \in 1..Len(d.fields)})
         [] d.kind = "map" ->
              IF z THEN "ok"
              ELSE LET k0 == Desc(d.key)
                       kd == IF k0.kind = "iface" THEN Desc(k0.dyn) ELSE k0      \* key.Interface().(type)
                       ks == IF Has(kd, "Stringer") \/ Has(kd, "EnvStringer") THEN "ok" ELSE ToStr(m, kd)
                   IN AllOk({ks, ShowInJSLike(m, lang, d.elem, FALSE, vis2)})
         [] OTHER -> "ok"          \* JS: "undefined/* scriggo: cannot represent ... */", JSON: "null" - no error

Render(m, a, url, t, z) ==
  LET d == Desc(t) IN
  IF url THEN ShowInURL(m, a, d)
  ELSE CASE a \in {"text", "tag", "JavaScript string", "JSON string", "tab code block", "spaces code block"} -> ShowInText(m, d)
         [] a = "HTML" -> ShowInHTML(m, d)
         [] a \in {"quoted attribute", "unquoted attribute"} -> ShowInAttribute(m, d)
         [] a = "CSS" -> ShowInCSS(m, d)
         [] a = "CSS string" -> ShowInCSSString(m, d)
         [] a = "JavaScript" -> ShowInJSLike(m, "JS", t, z, <<>>)
         [] a = "JSON" -> ShowInJSLike(m, "JSON", t, z, <<>>)
         [] a = "Markdown" -> ShowInMarkdown(m, d)

\* ---- the property on the model, for one cell
ModelB(m, c, t) == CheckShow(m, CtxOf(c)[1], t)
ModelR(m, c, t, z) == Render(m, CtxOf(c)[1], CtxOf(c)[2], t, z) = "cannotshow"
ModelBoxB(m, c, box) == CheckShow(m, CtxOf(c)[1], BoxType(box))
=============================================================================

--------------------------- MODULE MC_ShowTable ---------------------------
(* Model check of the modelled checker table against the modelled renderer table over the whole
   grid contexts x type classes x value variants x boxes, as the life cycle of one show:
   declared -> (accepted | rejected) -> (shown | failed).  The invariants are the two clauses of the
   property on the model.  Also exports the grid as cases.ndjson (one case per cell, with its boxes),
   the cells where the model violates the property (model_bad.ndjson) and model statistics. *)
EXTENDS ShowTable, Json, SequencesExt
CONSTANTS Tier          \* "quick": the base contexts; "thorough": all registered contexts

Ctxs == IF Tier = "quick" THEN BaseCtxs ELSE AllCtxs
Vals == {"full", "zero"}
Boxes(t) == <<"static", "any">> \o SetToSeq(Desc(t).impl)
BoxSet(t) == {Boxes(t)[i] : i \in 1..Len(Boxes(t))}

VARIABLES c, t, v, b, ph
vars == <<c, t, v, b, ph>>
StaticType == IF b = "static" THEN t ELSE BoxType(b)      \* static type of the global v

Init == c \in Ctxs /\ t \in TypeClasses /\ v \in Vals /\ b \in BoxSet(t) /\ ph = "declared"
Accept  == ph = "declared" /\ CheckShow(AsIs, CtxOf(c)[1], StaticType)  /\ ph' = "accepted" /\ UNCHANGED <<c, t, v, b>>
Reject  == ph = "declared" /\ ~CheckShow(AsIs, CtxOf(c)[1], StaticType) /\ ph' = "rejected" /\ UNCHANGED <<c, t, v, b>>
ShowOk   == ph = "accepted" /\ ~ModelR(AsIs, c, t, v = "zero") /\ ph' = "shown"  /\ UNCHANGED <<c, t, v, b>>
ShowFail == ph = "accepted" /\ ModelR(AsIs, c, t, v = "zero")  /\ ph' = "failed" /\ UNCHANGED <<c, t, v, b>>
Next == Accept \/ Reject \/ ShowOk \/ ShowFail

\* B => ~R on the model
ModelAcceptedNeverFails == ~(b = "static" /\ ph = "failed")
\* R' => ~B on the model
ModelBoxedFailsOnlyIfRejected == (b # "static" /\ ph = "failed") => ~ModelB(AsIs, c, t)
\* a variable of type any always builds
ModelAnyBuilds == b = "any" => ph # "rejected"

\* ---- exports (constant level; the LETs make TLC evaluate each sequence once)
CellSet == Ctxs \X TypeClasses \X Vals
BadCell(x) == ModelB(AsIs, x[1], x[2]) /\ ModelR(AsIs, x[1], x[2], x[3] = "zero")
ASSUME LET S == SetToSeq(CellSet) IN
       ndJsonSerialize("cases.ndjson",
         [i \in 1..Len(S) |-> [id |-> i, ctx |-> S[i][1], type |-> S[i][2], val |-> S[i][3], boxes |-> Boxes(S[i][2])]])
ASSUME LET S == SetToSeq({x \in CellSet : BadCell(x)}) IN
       ndJsonSerialize("model_bad.ndjson", [i \in 1..Len(S) |-> [ctx |-> S[i][1], type |-> S[i][2], val |-> S[i][3]]])
ASSUME ndJsonSerialize("model_stats.ndjson",
         <<[cells |-> Cardinality(CellSet),
            contexts |-> Cardinality(Ctxs), type_classes |-> Cardinality(TypeClasses),
            accepted |-> Cardinality({x \in CellSet : ModelB(AsIs, x[1], x[2])}),
            render_fails |-> Cardinality({x \in CellSet : ModelR(AsIs, x[1], x[2], x[3] = "zero")}),
            accepted_and_fails |-> Cardinality({x \in CellSet : BadCell(x)})]>>)
=============================================================================

--------------------------- MODULE MC_ShowTable ---------------------------
(* Model check of the modelled checker table against the modelled renderer table over the whole
   grid contexts x type classes x value variants x boxes, as the life cycle of one show:
   declared -> (accepted | rejected) -> (shown | failed), for the intended tables and for the tables
   as they are in the code.  The invariants are the two clauses of the property on the intended
   tables; the failures of the as-is tables are exported as design-level counterexamples.  Also exports the grid as cases.ndjson (one case per cell, with its boxes),
   the cells where the model violates the property (model_bad.ndjson) and model statistics. *)
EXTENDS ShowTable, Json, SequencesExt
CONSTANTS Tier          \* "quick": the base contexts; "thorough": all registered contexts

Ctxs == IF Tier = "quick" THEN BaseCtxs ELSE AllCtxs
Vals == IF Tier = "quick" THEN {"full"} ELSE {"full", "zero"}
Boxes(t) == <<"static", "any">> \o SetToSeq(Desc(t).impl)
BoxSet(t) == {Boxes(t)[i] : i \in 1..Len(Boxes(t))}

\* m: which tables are explored - "intended" (must satisfy the property) or "asis" (the tables as the
\* configuration says the code has them today; its failures are the design-level counterexamples,
\* exported below and replayed into the real code - they are not asserted, so that TLC explores all of them)
VARIABLES m, c, t, v, b, ph
vars == <<m, c, t, v, b, ph>>
Variants == IF AsIs = Intended THEN {"intended"} ELSE {"intended", "asis"}
M == IF m = "asis" THEN AsIs ELSE Intended
StaticType == IF b = "static" THEN t ELSE BoxType(b)      \* static type of the global v

Init == m \in Variants /\ c \in Ctxs /\ t \in TypeClasses /\ v \in Vals /\ b \in BoxSet(t) /\ ph = "declared"
Accept  == ph = "declared" /\ CheckShow(M, CtxOf(c)[1], StaticType)  /\ ph' = "accepted" /\ UNCHANGED <<m, c, t, v, b>>
Reject  == ph = "declared" /\ ~CheckShow(M, CtxOf(c)[1], StaticType) /\ ph' = "rejected" /\ UNCHANGED <<m, c, t, v, b>>
ShowOk   == ph = "accepted" /\ ~ModelR(M, c, t, v = "zero") /\ ph' = "shown"  /\ UNCHANGED <<m, c, t, v, b>>
ShowFail == ph = "accepted" /\ ModelR(M, c, t, v = "zero")  /\ ph' = "failed" /\ UNCHANGED <<m, c, t, v, b>>
Next == Accept \/ Reject \/ ShowOk \/ ShowFail

\* B => ~R on the intended tables
ModelAcceptedNeverFails == m = "intended" => ~(b = "static" /\ ph = "failed")
\* R' => ~B on the intended tables
ModelBoxedFailsOnlyIfRejected == (m = "intended" /\ b # "static" /\ ph = "failed") => ~ModelB(Intended, c, t)
\* a variable of type any always builds (both variants)
ModelAnyBuilds == b = "any" => ph # "rejected"

CellSet == Ctxs \X TypeClasses \X Vals
BadCell(x) == ModelB(AsIs, x[1], x[2]) /\ ModelR(AsIs, x[1], x[2], x[3] = "zero")
\* every failure of a statically typed show explored on the as-is tables is one of the exported counterexample cells
AsIsFailureIsExported == (m = "asis" /\ b = "static" /\ ph = "failed") => BadCell(<<c, t, v>>)

\* ---- exports (constant level; the LETs make TLC evaluate each sequence once)
ASSUME LET S == SetToSeq(CellSet) IN
       ndJsonSerialize("cases.ndjson",
         [i \in 1..Len(S) |-> [id |-> i, ctx |-> S[i][1], type |-> S[i][2], val |-> S[i][3], boxes |-> Boxes(S[i][2])]])
ASSUME LET S == SetToSeq({x \in CellSet : BadCell(x)}) IN
       ndJsonSerialize("model_bad.ndjson", [i \in 1..Len(S) |-> [ctx |-> S[i][1], type |-> S[i][2], val |-> S[i][3]]])
ASSUME ndJsonSerialize("model_stats.ndjson",
         <<[cells |-> Cardinality(CellSet),
            contexts |-> Cardinality(Ctxs), type_classes |-> Cardinality(TypeClasses), vals |-> Cardinality(Vals),
            intended_accepted |-> Cardinality({x \in CellSet : ModelB(Intended, x[1], x[2])}),
            intended_render_fails |-> Cardinality({x \in CellSet : ModelR(Intended, x[1], x[2], x[3] = "zero")}),
            intended_accepted_and_fails |-> Cardinality({x \in CellSet : ModelB(Intended, x[1], x[2]) /\ ModelR(Intended, x[1], x[2], x[3] = "zero")}),
            asis_accepted |-> Cardinality({x \in CellSet : ModelB(AsIs, x[1], x[2])}),
            asis_render_fails |-> Cardinality({x \in CellSet : ModelR(AsIs, x[1], x[2], x[3] = "zero")}),
            asis_accepted_and_fails |-> Cardinality({x \in CellSet : BadCell(x)})]>>)
=============================================================================

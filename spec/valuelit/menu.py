#!/usr/bin/env python3
"""Regenerates ValueLitMenu.tla (byte-sequence constants: TLA+ has no string->bytes conversion).
Run:  python3 spec/valuelit/menu.py > spec/valuelit/ValueLitMenu.tla"""
def b(s):
    if isinstance(s, str):
        s = s.encode()
    return "<<" + ",".join(str(x) for x in s) + ">>"

TEXTS = {
    # number texts (decimal text of ints; shortest round-trip text of floats)
    "n0": "0", "nm1": "-1", "n7": "7", "nI64max": "9223372036854775807", "nI64min": "-9223372036854775808",
    "nU64max": "18446744073709551615", "nU63": "9223372036854775808", "nI8min": "-128", "nU8max": "255",
    "f15": "1.5", "f1e21": "1e+21", "fDen": "5e-324", "f01": "0.1", "fNeg0": "-0", "f1em7": "1e-07",
    "fMax": "1.7976931348623157e+308", "fF32max": "3.4028235e+38", "fBig": "123456789.125", "fSmallNeg": "-2.5e-10",
    # strings
    "sQ": "\"<\u2028\U0001F600", "sMix": "\\'&\n\x00\u00e9</script>", "sA": "a", "sSp": " \t\r\u2029\u00a0x\x7f",
    # map keys
    "kb": "b", "ka": "a", "kB": "B", "kE": "\u00e9", "kQ": "\"'", "kLt": "a<", "kScr": "</script>",
    "k10": "10", "k2": "2", "km1": "-1", "kTrue": "true", "kFalse": "false",
    # struct field names and tags
    "fA": "A", "fB": "B", "fC": "C", "fD": "D", "fE": "E", "fF": "F", "fG": "G", "fH": "H", "fL": "L", "fX": "X", "fY": "Y",
    "fP": "P", "fQ": "Q", "fR": "R", "fZ": "Z", "fT": "T", "fN": "N", "fK": "K", "fU": "U", "fc": "c",
    "fSkip": "Skip", "fDash": "Dash", "fInner": "Inner", "fHidden": "hidden",
    "tb": "b", "taO": "a,omitempty", "tO": ",omitempty", "tcO": "c,omitempty", "tdO": "d,omitempty", "teO": "e,omitempty",
    "tfO": "f,omitempty", "tgO": "g,omitempty", "thO": "h,omitempty", "tlO": "l,omitempty", "tnO": "n,omitempty",
    "tDash": "-", "tDashC": "-,", "tSp": "a b", "tq": "q", "tu": "u",
}

# parser corpus: (language, text, want) with want in ok | invalid | unbound | undef
CORPUS = [
    ("json", "null", "ok"), ("json", " \t\r\n[ 1 , 2 ]\n", "ok"), ("json", "", "invalid"), ("json", "nul", "invalid"),
    ("json", "NaN", "invalid"), ("json", "+Inf", "invalid"), ("json", "-Inf", "invalid"), ("json", "Infinity", "invalid"),
    ("json", "{\"a\":NaN}", "invalid"), ("json", "01", "invalid"), ("json", "1.", "invalid"), ("json", ".5", "invalid"),
    ("json", "+1", "invalid"), ("json", "-", "invalid"), ("json", "1e", "invalid"), ("json", "1e+", "invalid"), ("json", "- 1", "invalid"),
    ("json", "-0", "ok"), ("json", "0.000", "ok"), ("json", "1E+2", "ok"), ("json", "1e-2", "ok"), ("json", "[1,]", "invalid"),
    ("json", "[,1]", "invalid"), ("json", "[1 2]", "invalid"), ("json", "{\"a\":1,}", "invalid"), ("json", "{a:1}", "invalid"),
    ("json", "{'a':1}", "invalid"), ("json", "'a'", "invalid"), ("json", "\"a", "invalid"), ("json", "\"\\x41\"", "invalid"),
    ("json", "\"\\v\"", "invalid"), ("json", "\"\\'\"", "invalid"), ("json", "\"\t\"", "invalid"), ("json", "\"\\/\\b\\f\\n\\r\\t\\\\\\\"\"", "ok"),
    ("json", "\"\\u00e9\\ud83d\\ude00\"", "ok"), ("json", "\"\\ud83d\"", "undef"), ("json", "\"\\u12\"", "invalid"),
    ("json", "\"\xff\"", "invalid"), ("json", "1 2", "invalid"), ("json", "1,2", "invalid"), ("json", "[1]]", "invalid"),
    ("json", "{\"a\":{\"b\":[true,false,null,\"x\",-1.5e3]}}", "ok"), ("json", "{\"a\" 1}", "invalid"), ("json", "{\"a\":}", "invalid"),
    ("json", "new Date(\"2006-01-02T15:04:05.000Z\")", "invalid"), ("json", "undefined", "invalid"), ("json", "/* c */1", "invalid"),
    ("json", "\"\u2028\"", "ok"), ("json", "[", "invalid"), ("json", "{", "invalid"), ("json", "1e99999999", "undef"),
    ("js", "null", "ok"), ("js", "NaN", "ok"), ("js", "Infinity", "ok"), ("js", "-Infinity", "ok"), ("js", "- Infinity", "ok"),
    ("js", "+Inf", "unbound"), ("js", "-Inf", "unbound"), ("js", "Inf", "unbound"), ("js", "{\"a\":-Inf}", "unbound"), ("js", "nil", "unbound"),
    ("js", "undefined", "ok"), ("js", "1.", "ok"), ("js", ".5", "ok"), ("js", "+1", "ok"), ("js", "- 1", "ok"), ("js", "01", "undef"),
    ("js", "0x1F", "undef"), ("js", "5n", "undef"), ("js", "1_000", "undef"), ("js", "1e", "invalid"), ("js", "1.5x", "invalid"), ("js", "3in", "invalid"),
    ("js", "[1,]", "ok"), ("js", "[,1]", "undef"), ("js", "[1,,2]", "undef"), ("js", "[1 2]", "invalid"), ("js", "{\"a\":1,}", "ok"),
    ("js", "{a:1,'b':2,\"c\":3}", "ok"), ("js", "{1:1}", "undef"), ("js", "{a}", "undef"), ("js", "{\"__proto__\":1}", "undef"),
    ("js", "'a\\'b'", "ok"), ("js", "\"a'b\"", "ok"), ("js", "\"\\x41\\v\\0\\u{1F600}\\u0041\\q\"", "ok"), ("js", "\"\\x4\"", "invalid"),
    ("js", "\"\\01\"", "undef"), ("js", "\"a\nb\"", "invalid"), ("js", "\"a\\\nb\"", "ok"), ("js", "\"a\tb\"", "ok"), ("js", "\"\u2028\"", "ok"),
    ("js", "\"a", "invalid"), ("js", "1 2", "invalid"), ("js", "1;", "invalid"), ("js", "1,2", "undef"), ("js", "1+1", "undef"), ("js", "(1)", "undef"),
    ("js", "/* c */ 1 // d", "ok"), ("js", "/* c 1", "invalid"), ("js", "undefined/* scriggo: cannot represent a chan int value */", "ok"),
    ("js", "new Date(\"2006-01-02T15:04:05.000Z\")", "ok"), ("js", "new Date(\"2006-01-02T15:04:05.123-03:30\")", "ok"),
    ("js", "new Date(\"+012345-01-02T15:04:05.000Z\")", "ok"), ("js", "new Date(\"-000001-01-02T15:04Z\")", "ok"),
    ("js", "new Date(\"2006-13-02T15:04:05.000Z\")", "invalid"), ("js", "new Date(\"2006-02-30T15:04:05.000Z\")", "invalid"),
    ("js", "new Date(\"-000000-01-02T15:04:05.000Z\")", "invalid"), ("js", "new Date(\"2006-01-02\")", "undef"),
    ("js", "new Date(\"2006-01-02T15:04:05\")", "undef"), ("js", "new Date(\"Mon Jan 2 2006\")", "undef"), ("js", "new Date(1136214245000)", "ok"),
    ("js", "new Date(-1)", "ok"), ("js", "new Date()", "undef"), ("js", "new Date(2006, 0, 2)", "undef"), ("js", "new Date", "undef"),
    ("js", "new Foo()", "undef"), ("js", "new Date(\"2006-01-02T15:04:05.000Z\"", "invalid"), ("js", "Number.MAX_VALUE", "undef"),
    ("js", "new Date(\"2021-03-14T01:59:26.535-03:-30\")", "invalid"), ("js", "new Date(\"2021-03-14T01:59:26.535+5:30\")", "invalid"),
    ("js", "new Date(\"2021-03-14T01:59:26.535+0530\")", "invalid"), ("js", "new Date(\"2021-03-14T01:59:26.535+05:30x\")", "invalid"),
    ("js", "new Date(\"2021-03-14T01:59:26.535 +05:30\")", "invalid"), ("js", "new Date(\"2021-03-14T01:59:26.535+24:00\")", "invalid"),
    ("js", "new Date(\"2021-03-14T01:59:26.5Z\")", "undef"), ("js", "new Date(\"2021-03-14T01:59:26.535\")", "undef"),
    ("js", "[", "invalid"), ("js", "{\"a\":}", "invalid"), ("js", "{\"a\" 1}", "invalid"), ("js", "\"\xff\"", "invalid"),
]
# texts that must denote the same value / different values
EQUAL = [
    ("json", "1e+21", "1000000000000000000000"), ("json", "1E21", "1000000000000000000000"), ("json", "1.50", "15e-1"),
    ("json", "0.000000000000000000001", "1e-21"), ("json", "-0", "0"), ("json", "0e5", "0.0"), ("json", "100", "1e2"),
    ("json", "\"\\u0041\\u003c\"", "\"A<\""), ("json", "\"\\ud83d\\ude00\"", "\"\U0001F600\""), ("json", "{\"a\":1,\"b\":[ ]}", " { \"a\" : 1 , \"b\" : [] } "),
    ("js", "'a\"b'", "\"a\\\"b\""), ("js", "\"\\x41\\u{42}\"", "\"AB\""), ("js", ".5", "0.5"), ("js", "5.", "5"), ("js", "{a:1}", "{\"a\":1}"),
    ("js", "new Date(\"2006-01-02T15:04:05.000Z\")", "new Date(1136214245000)"), ("js", "new Date(\"2006-01-02T15:04:05.000Z\")", "new Date(\"2006-01-02T12:04:05.000-03:00\")"),
    ("js", "new Date(\"1969-12-31T23:59:59.999Z\")", "new Date(-1)"), ("js", "new Date(\"1970-01-01T00:00:00.000Z\")", "new Date(0)"),
    ("js", "new Date(\"2006-01-02T24:00:00.000Z\")", "new Date(\"2006-01-03T00:00:00.000Z\")"), ("js", "new Date(\"2000-02-29T00:00Z\")", "new Date(951782400000)"),
    ("js", "new Date(\"0001-01-01T00:00:00.000Z\")", "new Date(-62135596800000)"),
    ("js", "new Date(\"2000-01-01T00:00:30.000+00:01\")", "new Date(\"1999-12-31T23:59:30.000Z\")"),
    ("js", "new Date(\"1999-12-31T12:00:00.000-12:00\")", "new Date(\"2000-01-01T00:00:00.000Z\")"),
    ("js", "new Date(\"2021-03-14T01:59:26.535+14:00\")", "new Date(\"2021-03-13T11:59:26.535Z\")"),
    ("js", "new Date(\"2021-03-14T01:59:26.535-09:30\")", "new Date(\"2021-03-14T11:29:26.535Z\")"), ("js", "-Infinity", "- Infinity"), ("js", "[1,2,]", "[1,2]"),
]
DIFFER = [
    ("json", "1", "1.0000000000000000000000001"), ("json", "1e21", "1e22"), ("json", "-1", "1"), ("json", "\"a\"", "\"A\""),
    ("json", "[1,2]", "[2,1]"), ("json", "{\"a\":1}", "{\"a\":2}"), ("json", "null", "0"), ("json", "\"1\"", "1"), ("json", "[]", "{}"),
    ("js", "new Date(\"2006-01-02T15:04:05.000Z\")", "new Date(\"2006-01-02T15:04:05.001Z\")"), ("js", "new Date(\"2006-01-02T15:04:05.000+00:30\")", "new Date(\"2006-01-02T15:04:05.000-00:30\")"),
    ("js", "new Date(\"2021-03-14T01:59:26.535-03:30\")", "new Date(\"2021-03-14T01:59:26.535-02:30\")"),
    ("js", "new Date(\"2021-03-14T01:59:26.535-03:30\")", "new Date(\"2021-03-14T01:59:26.535+03:30\")"),
    ("js", "NaN", "Infinity"), ("js", "Infinity", "-Infinity"), ("js", "null", "undefined"),
]

def enc(t):
    return t.encode("latin-1") if any(ord(c) == 0xff for c in t) and len(t) <= 4 else t.encode()

print("---------------------------- MODULE ValueLitMenu ----------------------------")
print("(* GENERATED by spec/valuelit/menu.py - byte sequences of the menu texts and of the parser corpus. *)")
for k, v in TEXTS.items():
    print(f"{k} == {b(v)}    \\* {v!r}")
print("Corpus == <<")
print(",\n".join(f'  [L |-> "{l}", t |-> {b(enc(t))}, want |-> "{w}"]    \\* {t!r}' .replace("]    \\*", "]", 1) if False else f'  [L |-> "{l}", t |-> {b(enc(t))}, want |-> "{w}"]' for l, t, w in CORPUS))
print(">>")
print("EqualPairs == <<")
print(",\n".join(f'  [L |-> "{l}", a |-> {b(x)}, b |-> {b(y)}]' for l, x, y in EQUAL))
print(">>")
print("DifferPairs == <<")
print(",\n".join(f'  [L |-> "{l}", a |-> {b(x)}, b |-> {b(y)}]' for l, x, y in DIFFER))
print(">>")
print("=============================================================================")

---------------------------- MODULE MC_ValueLit ----------------------------
(* C08.  Bounded enumeration of value DESCRIPTORS (depth <= Depth, fan-out <= 2 over a leaf menu
   and a fixed menu of Go container types), exported as cases.ndjson, and the model check:
     - the reference parsers are validated (corpus of texts with known status; equal / different
       denotations; Parse(ReferencePrint(v)) = v for two printing styles per language);
     - the implementation-shaped transcription of showInJS / showInJSON satisfies the property
       on every descriptor EXCEPT for the causes found in the tree (each named), and the
       transcription with the proposed non-finite fix has no "non-finite-float" failure left. *)
EXTENDS ValueLit, ValueLitMenu, TLC, Json
CONSTANTS Depth,          \* 2 or 3
          Full            \* TRUE: three pairings of the leaves instead of one (thorough)

(* ---------- descriptor constructors ---------- *)
DNil == [k |-> "nil"]
DBool(b) == [k |-> "bool", b |-> b]
DInt(ty, txt) == [k |-> "int", ty |-> ty, txt |-> txt]
DFloat(ty, txt) == [k |-> "float", ty |-> ty, txt |-> txt]
DStr(s) == [k |-> "str", s |-> s]
DBytes(nl, s) == [k |-> "bytes", nil |-> nl, s |-> s]
DTime(y, mo, d, h, mi, sec, ns, off, utc) ==
  [k |-> "time", y |-> y, mo |-> mo, d |-> d, h |-> h, mi |-> mi, sec |-> sec, ns |-> ns, off |-> off, utc |-> utc]
DPtr(v) == [k |-> "ptr", nil |-> 0, v |-> v]
DNilPtr == [k |-> "ptr", nil |-> 1, v |-> DNil]                 \* (*int64)(nil)
DSlice(typed, kids) == [k |-> "slice", typed |-> typed, nil |-> 0, kids |-> kids]
DNilSlice(typed) == [k |-> "slice", typed |-> typed, nil |-> 1, kids |-> <<>>]   \* []any(nil) / []int64(nil)
DArray(typed, kids) == [k |-> "array", typed |-> typed, nil |-> 0, kids |-> kids]
DMap(kk, ents) == [k |-> "map", kk |-> kk, nil |-> 0, ents |-> ents]
DNilMap(kk) == [k |-> "map", kk |-> kk, nil |-> 1, ents |-> <<>>]
E(key, v) == [key |-> key, v |-> v]
Fd(name, hastag, tag, exp, emb, iface, v) == [name |-> name, hastag |-> hastag, tag |-> tag, exp |-> exp, emb |-> emb, iface |-> iface, v |-> v]
DStruct(ty, fields) == [k |-> "struct", ty |-> ty, fields |-> fields]

(* ---------- leaf menu ---------- *)
I64(txt) == DInt("int64", txt)
F64(txt) == DFloat("float64", txt)
TimeUTC   == DTime(2006, 1, 2, 15, 4, 5, 0, 0, 1)
TimeHalf  == DTime(2006, 1, 2, 15, 4, 5, 500000000, 0, 1)            \* sub-second part
TimeZone  == DTime(2006, 1, 2, 15, 4, 5, 123456789, -210, 0)         \* -03:30
TimeEast  == DTime(1969, 12, 31, 23, 59, 59, 999000000, 330, 0)      \* +05:30, before the epoch
TimeZero  == DTime(1, 1, 1, 0, 0, 0, 0, 0, 1)                        \* time.Time{}
TimeWest0 == DTime(1960, 2, 29, 0, 10, 0, 0, -30, 0)                 \* -00:30 (offsets between -00:59 and -00:01 exist in tzdata history)
TimeGMT   == DTime(2024, 2, 29, 23, 59, 59, 1000000, 0, 0)           \* offset 0 in a location that is not time.UTC
TimeKiri  == DTime(2021, 3, 14, 1, 59, 26, 535000000, 840, 0)        \* +14:00
TimeMarq  == DTime(2021, 3, 14, 1, 59, 26, 535000000, -570, 0)       \* -09:30
TimeBaker == DTime(1999, 12, 31, 12, 0, 0, 0, -720, 0)               \* -12:00: the same instant as 2000-01-01T00:00Z
TimeMin1  == DTime(2000, 1, 1, 0, 0, 30, 0, 1, 0)                    \* +00:01: crosses midnight (and the year) in UTC
Leaves == <<
  DNil, DBool(1), DBool(0),
  I64(n0), I64(nm1), I64(nI64max), I64(nI64min), DInt("uint64", nU64max), DInt("uint64", nU63), DInt("int8", nI8min),
  DInt("uint8", nU8max), DInt("int", n7), DInt("uintptr", n7),
  F64(f15), F64(f1e21), F64(fDen), F64(txtNaN), F64(txtPInf), F64(txtNInf), DFloat("float32", f01), F64(fNeg0), F64(f1em7),
  F64(fMax), DFloat("float32", fF32max), F64(fBig), F64(fSmallNeg),
  DStr(<<>>), DStr(sQ), DStr(sMix), DStr(sSp),
  TimeUTC, TimeHalf, TimeZone, TimeEast, TimeZero, TimeWest0, TimeGMT, TimeKiri, TimeMarq, TimeBaker, TimeMin1,
  DPtr(I64(nm1)), DNilPtr, DPtr(DStr(sQ)),
  DBytes(0, <<0, 1, 2, 3, 4, 5>>), DBytes(0, <<>>), DBytes(1, <<>>), DBytes(0, <<255>>), DBytes(0, <<250, 251>>)
>>

(* ---------- container menu ---------- *)
Singles(S) == [x \in 1..Len(S) |-> <<S[x]>>]
StridePairs(S, k) == [x \in 1..Len(S) |-> <<S[x], S[((x + k - 1) % Len(S)) + 1]>>]      \* (S[x], S[x + k]) cyclically
KidLists(S, full) == Singles(S) \o StridePairs(S, 1) \o (IF full THEN StridePairs(S, 7) \o StridePairs(S, 19) ELSE <<>>)
StrKeys == <<kb, ka, kB, kE, kQ, kLt, <<>>, kScr>>
StrKey(x) == StrKeys[((x - 1) % Len(StrKeys)) + 1]
\* a map[string]any whose entries are listed in NON-sorted order for most x
MapOf(kl, x) == DMap("string", Tup([y \in 1..Len(kl) |-> E(StrKey(x + 3 * (y - 1)), kl[y])]))
ContainersOver(S, full) ==
  LET KL == KidLists(S, full) IN
     [x \in 1..Len(KL) |-> DSlice(0, KL[x])] \o [x \in 1..Len(KL) |-> DArray(0, KL[x])] \o [x \in 1..Len(KL) |-> MapOf(KL[x], x)]

\* struct registry (mirrored by the Go types of harness/cmd/c08/main.go; the driver cross-checks names and tags by reflection)
S1(a, bb, c) == DStruct("S1", <<Fd(fA, 0, <<>>, 1, 0, 0, a), Fd(fB, 1, tb, 1, 0, 0, bb), Fd(fc, 0, <<>>, 0, 0, 0, c)>>)
S2(a, bb, c, d, e, f, g, h, l) == DStruct("S2", <<
   Fd(fA, 1, taO, 1, 0, 0, a), Fd(fB, 1, tO, 1, 0, 0, bb), Fd(fC, 1, tcO, 1, 0, 1, c), Fd(fD, 1, tdO, 1, 0, 0, d),
   Fd(fE, 1, teO, 1, 0, 0, e), Fd(fF, 1, tfO, 1, 0, 0, f), Fd(fG, 1, tgO, 1, 0, 0, g), Fd(fH, 1, thO, 1, 0, 0, h), Fd(fL, 1, tlO, 1, 0, 0, l)>>)
S3(skip, dash, x, y) == DStruct("S3", <<Fd(fSkip, 1, tDash, 1, 0, 0, skip), Fd(fDash, 1, tDashC, 1, 0, 0, dash),
                                         Fd(fX, 0, <<>>, 1, 0, 1, x), Fd(fY, 1, tSp, 1, 0, 1, y)>>)
Inner(p, q) == DStruct("Inner", <<Fd(fP, 0, <<>>, 1, 0, 0, p), Fd(fQ, 1, tq, 1, 0, 0, q)>>)
Hidden == DStruct("hidden", <<Fd(fR, 0, <<>>, 1, 0, 0, I64(n0))>>)       \* always the zero value (cannot be set by reflection)
S4(p, q, z) == DStruct("S4", <<Fd(fInner, 0, <<>>, 1, 1, 0, Inner(p, q)), Fd(fHidden, 0, <<>>, 0, 1, 0, Hidden), Fd(fZ, 0, <<>>, 1, 0, 0, z)>>)
S5(t, n, e1, e2, u) == DStruct("S5", <<Fd(fT, 0, <<>>, 1, 0, 0, t), Fd(fN, 1, tnO, 1, 0, 0, n),
                                         Fd(fK, 0, <<>>, 1, 0, 0, DArray(0, <<e1, e2>>)), Fd(fU, 1, tu, 1, 0, 0, u)>>)
S1a == S1(I64(nm1), DStr(sQ), DBool(0))
S2Empty == S2(I64(n0), DStr(<<>>), DNil, DNilPtr, DNilSlice(0), F64(n0), DNilMap("string"), DBool(0), DBytes(1, <<>>))
S2EmptyNonNil == S2(I64(n0), DStr(<<>>), DNil, DNilPtr, DSlice(0, <<>>), F64(n0), DMap("string", <<>>), DBool(0), DBytes(0, <<>>))
S2Full == S2(I64(n7), DStr(sA), DStr(sA), DPtr(I64(nm1)), DSlice(0, <<DNil>>), F64(f15), DMap("string", <<E(ka, DBool(1))>>), DBool(1), DBytes(0, <<1>>))
S2ZeroInIface == S2(I64(n0), DStr(<<>>), I64(n0), DPtr(I64(n0)), DSlice(0, <<>>), F64(fSmallNeg), DNilMap("string"), DBool(0), DBytes(1, <<>>))
S2NaN == S2(I64(nm1), DStr(sA), DStr(<<>>), DNilPtr, DNilSlice(0), F64(txtNaN), DNilMap("string"), DBool(1), DBytes(1, <<>>))
Structs == <<
  S1a, S1(I64(n0), DStr(<<>>), DBool(0)),
  S2Empty, S2EmptyNonNil, S2Full, S2ZeroInIface, S2NaN,
  S3(I64(n7), I64(n7), DNil, DStr(sA)), S3(I64(n0), I64(n0), I64(nI64min), DNil), S3(I64(n7), I64(nm1), S1a, DSlice(0, <<S1a>>)),
  S4(I64(n7), DStr(sA), I64(nm1)), S4(I64(n0), DStr(<<>>), I64(n0)),
  S5(TimeUTC, DNilPtr, DNil, I64(n7), DInt("uint64", nU64max)), S5(TimeHalf, DPtr(S1a), F64(f15), DStr(sQ), DInt("uint64", n0)),
  DPtr(S1a), DStruct("S0", <<>>)
>>
Typed == <<
  DSlice(1, <<I64(n0), I64(nm1), I64(nI64max)>>), DSlice(1, <<>>), DNilSlice(1), DSlice(1, <<F64(f15), F64(txtNaN), F64(txtNInf)>>),
  DSlice(1, <<DStr(sQ), DStr(<<>>)>>), DSlice(1, <<DBool(1), DBool(0)>>), DSlice(1, <<DPtr(I64(nm1)), DNilPtr>>),
  DArray(1, <<I64(n0), I64(nm1)>>), DArray(1, <<>>), DArray(0, <<>>), DSlice(0, <<>>), DNilSlice(0),
  DSlice(1, <<TimeUTC, TimeZone>>), DSlice(1, <<DBytes(0, <<1>>), DBytes(1, <<>>)>>), DSlice(1, <<S1a, S1a>>),
  DArray(1, <<DInt("uint8", nU8max), DInt("uint8", n7)>>)
>>
Maps == <<
  DMap("string", <<>>), DNilMap("string"), DNilMap("int"),
  DMap("int", <<E(k10, DStr(sA)), E(k2, DNil), E(km1, I64(n7))>>), DMap("int", <<E(k2, F64(txtPInf))>>),
  DMap("bool", <<E(kTrue, I64(n7)), E(kFalse, DNil)>>),
  DMap("string", <<E(kb, I64(n7)), E(ka, DNil), E(kB, DBool(1)), E(kE, DStr(sA))>>),
  DMap("string", <<E(kScr, DStr(kScr)), E(kQ, DStr(kQ)), E(<<>>, DStr(<<>>)), E(kLt, DNil)>>),
  DMap("string", <<E(ka, F64(txtNaN))>>),
  \* depth 3, several entries at every level, multi-entry maps in non-last positions (listed unsorted)
  DMap("string", <<E(kb, DMap("string", <<E(kLt, I64(n7)), E(kE, I64(nm1)), E(kB, DNil)>>)),
                   E(ka, DMap("string", <<E(kb, DMap("int", <<E(k10, DBool(1)), E(k2, DBool(0)), E(km1, DNil)>>)), E(ka, DSlice(0, <<DMap("string", <<E(kb, I64(n0)), E(ka, I64(n7))>>), I64(n7)>>))>>)),
                   E(kB, I64(n7))>>),
  DSlice(0, <<DMap("string", <<E(kb, I64(n7)), E(ka, DMap("string", <<E(kb, I64(n0)), E(ka, I64(n7))>>)), E(kB, I64(n0))>>),
              DMap("string", <<E(kb, I64(nm1)), E(ka, I64(n0))>>), DMap("bool", <<E(kTrue, I64(n7)), E(kFalse, DNil)>>)>>)
>>
Depth1 == ContainersOver(Leaves, Full) \o Structs \o Typed \o Maps

\* composites used as children at the next level
Pick(S, step) == Tup([x \in 1..(Len(S) \div step) |-> S[x * step]])
Kids2 == <<DNilSlice(0), DSlice(0, <<>>), DSlice(0, <<DNil, F64(f15)>>), DSlice(1, <<I64(n0), I64(nm1)>>), DSlice(0, <<F64(txtNaN)>>),
           DMap("string", <<>>), DNilMap("string"), DMap("string", <<E(kb, I64(n7)), E(ka, DNil)>>),
           DMap("int", <<E(k10, DStr(sA)), E(k2, DNil)>>), DMap("bool", <<E(kTrue, I64(n7))>>),
           S1a, S2Empty, S2Full, S3(I64(n7), I64(n7), DNil, DStr(sA)), S4(I64(n7), DStr(sA), I64(nm1)),
           S5(TimeHalf, DPtr(S1a), F64(f15), DStr(sQ), DInt("uint64", n0)), DPtr(DSlice(0, <<DStr(sQ)>>)), DArray(0, <<TimeZone, DBytes(1, <<>>)>>),
           DStr(sQ), I64(nI64min)>>
Wrap(S) == [x \in 1..Len(S) |-> DPtr(S[x])]
         \o [x \in 1..Len(S) |-> S3(I64(n0), I64(n7), S[x], S[(x % Len(S)) + 1])]
         \o [x \in 1..Len(S) |-> S2(I64(n0), DStr(<<>>), S[x], DNilPtr, DSlice(0, <<S[x]>>), F64(n0), DMap("string", <<E(kb, S[x])>>), DBool(0), DBytes(1, <<>>))]
Depth2 == ContainersOver(Kids2, Full) \o Wrap(Kids2)
Kids3 == Pick(Depth2, IF Full THEN 5 ELSE 7)
Depth3 == ContainersOver(Kids3, FALSE) \o Wrap(Kids3)

Descs == Leaves \o Depth1 \o (IF Depth >= 2 THEN Depth2 ELSE <<>>) \o (IF Depth >= 3 THEN Depth3 ELSE <<>>)
Cases == [x \in 1..Len(Descs) |-> [id |-> x, desc |-> Descs[x]]]
ASSUME ndJsonSerialize("cases.ndjson", Cases)

(* ---------- validation of the reference parsers ---------- *)
StatusOf(v) == IF IsBad(v) THEN v.t ELSE "ok"
CorpusOk == \A x \in 1..Len(Corpus) : StatusOf(ParseWhole(Corpus[x].t, Corpus[x].L)) = Corpus[x].want
EqualOk  == \A x \in 1..Len(EqualPairs) : LET a == ParseWhole(EqualPairs[x].a, EqualPairs[x].L)  b == ParseWhole(EqualPairs[x].b, EqualPairs[x].L) IN
                                          ~IsBad(a) /\ Canon(a) = Canon(b)
DifferOk == \A x \in 1..Len(DifferPairs) : LET a == ParseWhole(DifferPairs[x].a, DifferPairs[x].L)  b == ParseWhole(DifferPairs[x].b, DifferPairs[x].L) IN
                                          ~IsBad(a) /\ ~IsBad(b) /\ Canon(a) # Canon(b)
CorpusBad == {x \in 1..Len(Corpus) : StatusOf(ParseWhole(Corpus[x].t, Corpus[x].L)) # Corpus[x].want}
ASSUME PrintT(<<"corpus mismatches", CorpusBad>>)
ASSUME CorpusOk /\ EqualOk /\ DifferOk

\* two reference PRINTERS of abstract values (independent of the implementation's spellings):
\* style 1: compact, plain digits; style 2: spaces, scientific notation d.ddde+X, every string byte as an escape
RECURSIVE PrintV(_, _, _), PJoin(_, _, _)
PJoin(parts, i, sep) == IF i > Len(parts) THEN <<>> ELSE (IF i > 1 THEN sep ELSE <<>>) \o parts[i] \o PJoin(parts, i + 1, sep)
PDigits(ds) == Tup([x \in 1..Len(ds) |-> 48 + ds[x]])
PNum(v, style) ==
  LET sign == IF v.n = 1 THEN <<45>> ELSE <<>>  n == Len(v.s) IN
  IF n = 0 THEN <<48>>
  ELSE IF style = 1 /\ v.e >= 0 /\ v.e < 400 THEN sign \o PDigits(v.s) \o Zeros(v.e)
  ELSE IF style = 1 /\ v.e < 0 /\ n + v.e > 0 THEN sign \o PDigits(SubSeq(v.s, 1, n + v.e)) \o <<46>> \o PDigits(SubSeq(v.s, n + v.e + 1, n))
  ELSE IF style = 1 THEN sign \o <<48, 46>> \o Zeros(0 - (n + v.e)) \o PDigits(v.s)
  ELSE LET x == v.e + n - 1 IN             \* d.ddd E x
       sign \o <<48 + v.s[1]>> \o (IF n > 1 THEN <<46>> \o PDigits(SubSeq(v.s, 2, n)) ELSE <<>>)
       \o <<69>> \o (IF x < 0 THEN <<45>> \o DecText(0 - x) ELSE <<43>> \o DecText(x))
\* strings: style 1 escapes only what the grammar requires; style 2 writes every code point as \uXXXX (pairs for non-BMP)
RECURSIVE PStr1(_, _, _), PStr2(_, _)
PStr1(s, i, L) == IF i > Len(s) THEN <<>>
                  ELSE LET c == s[i] IN (IF c = 34 \/ c = 92 THEN <<92, c>> ELSE IF c < 32 THEN U4(c) ELSE <<c>>) \o PStr1(s, i + 1, L)
PStr2(s, i) == IF i > Len(s) THEN <<>>
               ELSE LET d == DecodeRune(s, i)  r == d[1] IN
                    (IF r < 65536 THEN U4(r) ELSE U4(55296 + (r - 65536) \div 1024) \o U4(56320 + ((r - 65536) % 1024))) \o PStr2(s, i + d[2])
PDate(v, style) ==
  IF style = 1 /\ v.s[1] >= 0 /\ v.s[1] < 20000 THEN <<110,101,119,32,68,97,116,101,40>> \o
       (LET ms == v.s[2]  days == v.s[1] IN      \* days * 86400000 + ms as decimal text: days*864 followed by 5 digits, schoolbook
        LET hi == days * 864 + ms \div 100000  lo == ms % 100000 IN (IF hi = 0 THEN DecText(lo) ELSE DecText(hi) \o Pad(lo, 5))) \o <<41>>
  ELSE BadI.s  \* not printed (the caller skips dates it cannot print)
PrintV(v, L, style) ==
  CASE v.t = "null" -> wNull
    [] v.t = "bool" -> IF v.n = 1 THEN wTrue ELSE wFalse
    [] v.t = "num" -> PNum(v, style)
    [] v.t = "str" -> IF style = 1 THEN <<34>> \o PStr1(v.s, 1, L) \o <<34>>
                      ELSE IF L = "js" THEN <<39>> \o PStr2(v.s, 1) \o <<39>> ELSE <<34>> \o PStr2(v.s, 1) \o <<34>>
    [] v.t = "arr" -> <<91>> \o (IF style = 2 THEN <<32>> ELSE <<>>) \o PJoin(Tup([x \in 1..Len(v.k) |-> PrintV(v.k[x], L, style)]), 1, IF style = 2 THEN <<32, 44, 10>> ELSE <<44>>) \o <<93>>
    [] v.t = "obj" -> <<123>> \o PJoin(Tup([x \in 1..(Len(v.k) \div 2) |-> PrintV(v.k[2 * x - 1], L, style) \o (IF style = 2 THEN <<32, 58, 9>> ELSE <<58>>) \o PrintV(v.k[2 * x], L, style)]), 1, <<44>>)
                      \o (IF style = 2 THEN <<13, 10>> ELSE <<>>) \o <<125>>
    [] v.t = "nonfinite" -> IF v.e = 0 THEN wNaN ELSE IF v.e = 1 THEN wInfinity ELSE <<45>> \o wInfinity
    [] v.t = "date" -> PDate(v, style)
RECURSIVE HasUnprintable(_, _)
HasUnprintable(v, style) == (v.t = "date" /\ ~(style = 1 /\ v.s[1] >= 0 /\ v.s[1] < 20000)) \/ \E x \in 1..Len(v.k) : HasUnprintable(v.k[x], style)

(* ---------- the walk: one state per descriptor (a two-level fan, so that TLC's workers share it).
   vd = the verdicts on the transcription's output for the descriptor reached. ---------- *)
VARIABLES ci,                   \* 0: root; -b: block b; x > 0: descriptor x
          vd                    \* verdicts on the transcription's output for descriptor ci
NB == 32
ModelRec(d, L, fix) == [id |-> 0, ctx |-> IF L = "js" THEN "js_script" ELSE "json_file", desc |-> d, st |-> "ok", out |-> Model(d, L, fix)]
PrintParseOf(a, L, style) ==
  IsBad(a) \/ (L = "json" /\ HasNonFinite(a)) \/ HasUnprintable(a, style) \/ ParseWhole(PrintV(a, L, style), L) = a
PrintParseBoth(d) == LET aj == Abs(d, "json", Strict)  as == Abs(d, "js", Strict) IN
                     PrintParseOf(aj, "json", 1) /\ PrintParseOf(aj, "json", 2) /\ PrintParseOf(as, "js", 1) /\ PrintParseOf(as, "js", 2)
VerdictsOf(d) ==
  LET vjs == Verdict(ModelRec(d, "js", FALSE))  vjson == Verdict(ModelRec(d, "json", FALSE)) IN
     [js |-> vjs, json |-> vjson,
      jsfix |-> IF Model(d, "js", TRUE) = Model(d, "js", FALSE) THEN vjs ELSE Verdict(ModelRec(d, "js", TRUE)),
      jsonfix |-> IF Model(d, "json", TRUE) = Model(d, "json", FALSE) THEN vjson ELSE Verdict(ModelRec(d, "json", TRUE)),
      pp |-> PrintParseBoth(d)]
NoVerdicts == [js |-> "ok", json |-> "ok", jsfix |-> "ok", jsonfix |-> "ok", pp |-> TRUE]
\* evaluated once, as a constant (TLC caches LET-bound values in constants, not inside actions: see Trace_ValueLit)
AllVerdicts == Tup([x \in 1..Len(Descs) |-> VerdictsOf(Descs[x])])
Init == ci = 0 /\ vd = NoVerdicts
Next == \/ ci = 0 /\ ci' \in {0 - b : b \in 1..NB} /\ vd' = vd
        \/ ci < 0 /\ ci' \in {x \in 1..Len(Descs) : x % NB = (0 - ci) - 1} /\ vd' = AllVerdicts[ci']

\* the reference parsers invert two independent reference printers on every Abs value of the space
PrintParse == vd.pp
AsFoundCauses == {"non-finite-float", "embedded-struct-not-flattened", "nil-byte-slice-as-empty-string", "time-subsecond-dropped",
                  "js-date-negative-subhour-offset"}
\* the transcription satisfies the property except for the named as-found causes ...
ModelMeetsRefExceptAsFound == \A v \in {vd.js, vd.json} : v = "ok" \/ IsSkip(v) \/ v \in AsFoundCauses
\* ... and with the non-finite fix that cause is gone (the other three fixes remove their causes too: next invariant)
FixRemovesNonFinite == vd.jsfix # "non-finite-float" /\ vd.jsonfix # "non-finite-float"
\* the transcription of the tree after the four fixes satisfies the property except for embedded structs
FixedTreeOnlyEmbedded == \A v \in {vd.jsfix, vd.jsonfix} : v = "ok" \/ IsSkip(v) \/ v = "embedded-struct-not-flattened"
\* the transcription's output is always a sentence of the language unless a non-finite float is involved
ModelAlwaysParses == \A v \in {vd.js, vd.json, vd.jsfix, vd.jsonfix} : v \notin {"not-a-literal", "unbound-identifier", "skip_out_undefined"}
\* non-vacuity: every as-found cause, "ok" and a skip verdict occur somewhere in the space
Occurring == {AllVerdicts[x].js : x \in 1..Len(Descs)} \cup {AllVerdicts[x].json : x \in 1..Len(Descs)}
ASSUME PrintT(<<"verdicts occurring", Occurring>>)
ASSUME AsFoundCauses \subseteq Occurring /\ "ok" \in Occurring /\ "skip_ref_undefined" \in Occurring
=============================================================================

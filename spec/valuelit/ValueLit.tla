------------------------------ MODULE ValueLit ------------------------------
(* C08.  "Values shown as JavaScript or JSON are valid literals for the same data."

   Part 1 (reference): abstract data values; two reference PARSERS over byte sequences written
   from the grammars (RFC 8259 for JSON; the literal subset of ECMAScript: null, booleans,
   numbers, string literals, array and object literals, NaN/Infinity, new Date(...)), each
   giving validity AND the denoted abstract value; Abs(descriptor) = the data that encoding/json
   semantics assign to the Go value a DESCRIPTOR describes; the property-level verdict.
   Part 2 (implementation-shaped): showInJS / showInJSON of internal/runtime/renderer.go
   transcribed branch by branch over descriptors (Model).  Decides nothing about the code.

   Text is a sequence of bytes.  Numbers are compared through an exact decimal normal form
   (sign, significant digits, power of ten): no floating point, no big integers. *)
EXTENDS Integers, Sequences, Text, Utf8

(* ========\* does the descriptor contain a NaN or an infinity?
RECURSIVE DescNonFinite(_)
DescNonFinite(d) ==
  CASE d.k = "float" -> d.txt \in {txtNaN, txtPInf, txtNInf}
    [] d.k = "ptr" -> d.nil = 0 /\ DescNonFinite(d.v)
    [] d.k \in {"slice", "array"} -> \E x \in 1..Len(d.kids) : DescNonFinite(d.kids[x])
    [] d.k = "map" -> \E x \in 1..Len(d.ents) : DescNonFinite(d.ents[x].v)
    [] d.k = "struct" -> \E x \in 1..Len(d.fields) : DescNonFinite(d.fields[x].v)
    [] OTHER -> FALSE
=============================================================================
   Abstract values.  Every value is a record with the SAME five fields, so TLC's equality
   never compares values of different shapes:
     t : tag     n : sign / boolean     s : byte or digit sequence     e : exponent / code
     k : children (for "obj": <<VStr(key1), val1, VStr(key2), val2, ...>> in source order)
   ===================================================================================== *)
V(t, n, s, e, k) == [t |-> t, n |-> n, s |-> s, e |-> e, k |-> k]
\* TLC evaluates [x \in 1..n |-> e] lazily and re-evaluates e at every application: nested, that is
\* exponential.  Tup forces it once into an explicit tuple.
Tup(f) == f \o <<>>
VNull         == V("null", 0, <<>>, 0, <<>>)
VBool(b)      == V("bool", b, <<>>, 0, <<>>)                 \* b in {0, 1}
VNum(neg, ds, e10) == V("num", neg, ds, e10, <<>>)           \* (-1)^neg * ds * 10^e10; ds has no leading/trailing 0; zero = <<>>,0,0
VStr(s)       == V("str", 0, s, 0, <<>>)                     \* UTF-8 bytes of the code points
VArr(k)       == V("arr", 0, <<>>, 0, k)
VObj(k)       == V("obj", 0, <<>>, 0, k)
VDate(d, ms)  == V("date", 0, <<d, ms>>, 0, <<>>)            \* instant: days since 1970-01-01 (UTC), ms of that day
VNonFinite(w) == V("nonfinite", 0, <<>>, w, <<>>)            \* w: 0 NaN, 1 +Infinity, -1 -Infinity (JavaScript only)
VUndefined    == V("undefined", 0, <<>>, 0, <<>>)            \* JavaScript undefined: never "the corresponding data"
\* parse failures: "invalid" = not a sentence of the language (or does not evaluate, e.g. Invalid Date),
\* "unbound" = a free identifier that no standard environment binds (evaluation throws ReferenceError),
\* "undef" = outside the subset this reference understands (never a verdict: skipped and counted)
VBad(t)       == V(t, 0, <<>>, 0, <<>>)
BadI == VBad("invalid")   BadU == VBad("undef")   BadR == VBad("unbound")
IsBad(v) == v.t \in {"invalid", "unbound", "undef"}

(* ---------- decimal normal form ---------- *)
RECURSIVE VLFirstNZ(_, _), VLLastNZ(_, _), VLNat(_, _, _, _), VLDigitsEnd(_, _)
VLFirstNZ(D, i) == IF i > Len(D) THEN i ELSE IF D[i] # 0 THEN i ELSE VLFirstNZ(D, i + 1)
VLLastNZ(D, i)  == IF i < 1 THEN 0 ELSE IF D[i] # 0 THEN i ELSE VLLastNZ(D, i - 1)
\* ip, fp: digit values of the integer and fraction parts; ex: the exponent.  -0 is normalised to 0
\* (reading: "the same data" is about numbers, and -0 = 0).
NumNF(neg, ip, fp, ex) ==
  LET D == ip \o fp  a == VLFirstNZ(D, 1) IN
  IF a > Len(D) THEN VNum(0, <<>>, 0)
  ELSE LET b == VLLastNZ(D, Len(D)) IN VNum(neg, SubSeq(D, a, b), ex - Len(fp) + (Len(D) - b))
VLNat(t, i, j, acc) == IF i > j THEN acc ELSE VLNat(t, i + 1, j, acc * 10 + (t[i] - 48))   \* caller bounds j - i
VLDigitsEnd(t, i) == IF i <= Len(t) /\ IsDigit(t[i]) THEN VLDigitsEnd(t, i + 1) ELSE i      \* first non-digit index
DigitVals(t, a, b) == Tup([x \in 1..(b - a + 1) |-> t[a + x - 1] - 48])
IsIdStart(c) == IsAlpha(c) \/ c = 95 \/ c = 36 \/ c >= 128
IsIdPart(c) == IsIdStart(c) \/ IsDigit(c)

\* A number token at t[i] ('-' only for JSON, a digit, or '.' only for JS): <<value, next index>>.
\* JSON: -? (0 | [1-9][0-9]*) (. [0-9]+)? ([eE] [+-]? [0-9]+)?          (RFC 8259 section 6)
\* JS DecimalLiteral: also "1." and ".5"; hex/octal/binary/BigInt/separators/legacy octal -> undef
ParseNum(t, i, L) ==
  LET neg == IF t[i] = 45 THEN 1 ELSE 0
      a == i + neg
      ie == VLDigitsEnd(t, a)
      hasdot == ie <= Len(t) /\ t[ie] = 46
      fe == IF hasdot THEN VLDigitsEnd(t, ie + 1) ELSE ie
      hasexp == fe <= Len(t) /\ t[fe] \in {101, 69} /\ (ie > a \/ fe > ie + 1)
      esg == hasexp /\ fe + 1 <= Len(t) /\ t[fe + 1] \in {43, 45}
      es == IF esg THEN fe + 2 ELSE fe + 1
      ee == IF hasexp THEN VLDigitsEnd(t, es) ELSE fe
  IN
  IF ie = a /\ ~(L = "js" /\ hasdot /\ fe > ie + 1) THEN <<BadI, i>>
  ELSE IF ie > a + 1 /\ t[a] = 48 THEN <<IF L = "js" THEN BadU ELSE BadI, i>>
  ELSE IF hasdot /\ fe = ie + 1 /\ L = "json" THEN <<BadI, i>>
  ELSE IF hasexp /\ ee = es THEN <<BadI, i>>
  ELSE IF hasexp /\ ee - es > 7 THEN <<BadU, i>>
  ELSE IF L = "js" /\ ee <= Len(t) /\ IsIdPart(t[ee]) /\ t[ee] < 128
       THEN <<IF t[ee] \in {110, 95, 120, 88, 111, 79, 98, 66} /\ ~hasdot /\ ~hasexp THEN BadU ELSE BadI, i>>
  ELSE <<NumNF(neg, DigitVals(t, a, ie - 1), IF hasdot THEN DigitVals(t, ie + 1, fe - 1) ELSE <<>>,
               IF hasexp THEN (IF esg /\ t[fe + 1] = 45 THEN -1 ELSE 1) * VLNat(t, es, ee - 1, 0) ELSE 0), ee>>

\* the whole text as one JSON number (used for descriptor number texts)
NumOfText(txt) == IF Len(txt) = 0 \/ ~(txt[1] = 45 \/ IsDigit(txt[1])) THEN BadU
                  ELSE LET r == ParseNum(txt, 1, "json") IN
                       IF IsBad(r[1]) \/ r[2] # Len(txt) + 1 THEN BadU ELSE r[1]

(* ---------- white space (and JavaScript comments) ---------- *)
RECURSIVE VLLineEnd(_, _), SkipWs(_, _, _)
VLLineEnd(t, i) == IF i > Len(t) \/ t[i] \in {10, 13} \/ HasPrefixAt(t, <<226, 128, 168>>, i) \/ HasPrefixAt(t, <<226, 128, 169>>, i)
                   THEN i ELSE VLLineEnd(t, i + 1)
SkipWs(t, i, L) ==
  IF i > Len(t) THEN i
  ELSE LET c == t[i] IN
    IF c \in {32, 9, 10, 13} THEN SkipWs(t, i + 1, L)                      \* JSON ws
    ELSE IF L = "json" THEN i
    ELSE IF c \in {11, 12} THEN SkipWs(t, i + 1, L)
    ELSE IF HasPrefixAt(t, <<194, 160>>, i) THEN SkipWs(t, i + 2, L)       \* NBSP
    ELSE IF HasPrefixAt(t, <<226, 128, 168>>, i) \/ HasPrefixAt(t, <<226, 128, 169>>, i) \/ HasPrefixAt(t, <<239, 187, 191>>, i)
         THEN SkipWs(t, i + 3, L)                                          \* LS, PS, BOM
    ELSE IF HasPrefixAt(t, <<47, 42>>, i)
         THEN LET j == FindFrom(t, <<42, 47>>, i + 2) IN IF j = 0 THEN i ELSE SkipWs(t, j + 2, L)
    ELSE IF HasPrefixAt(t, <<47, 47>>, i) THEN SkipWs(t, VLLineEnd(t, i), L)
    ELSE i

(* ---------- string literals ---------- *)
Hex4At(t, i) == i + 3 <= Len(t) /\ \A x \in 0..3 : IsHex(t[i + x])
Hex4Val(t, i) == HexVal(t[i]) * 4096 + HexVal(t[i + 1]) * 256 + HexVal(t[i + 2]) * 16 + HexVal(t[i + 3])
IsHiSur(v) == v >= 55296 /\ v <= 56319
IsLoSur(v) == v >= 56320 /\ v <= 57343
RECURSIVE VLHexRun(_, _, _, _)
VLHexRun(t, i, n, acc) == IF i <= Len(t) /\ IsHex(t[i]) /\ n < 7 THEN VLHexRun(t, i + 1, n + 1, acc * 16 + HexVal(t[i])) ELSE <<acc, i, n>>
SimpleEsc(e, L) == CASE e = 98 -> 8 [] e = 116 -> 9 [] e = 110 -> 10 [] e = 102 -> 12 [] e = 114 -> 13
                     [] e = 118 /\ L = "js" -> 11 [] OTHER -> -1
\* i: first byte after the opening quote q.  <<VStr(decoded bytes) | bad, index after the closing quote>>
RECURSIVE StrBody(_, _, _, _, _)
StrBody(t, i, q, L, acc) ==
  IF i > Len(t) THEN <<BadI, i>>                                           \* unterminated
  ELSE LET c == t[i] IN
  IF c = q THEN <<VStr(acc), i + 1>>
  ELSE IF c # 92 THEN
       IF c < 32 /\ (L = "json" \/ c \in {10, 13}) THEN <<BadI, i>>        \* RFC 8259: unescaped = %x20-21 / %x23-5B / %x5D-10FFFF
       ELSE IF c < 128 THEN StrBody(t, i + 1, q, L, Append(acc, c))        \* (JS: only LineTerminators CR LF are excluded)
       ELSE LET d == DecodeRune(t, i) IN
            IF d[2] = 1 THEN <<BadI, i>>                                   \* not UTF-8: no code point
            ELSE StrBody(t, i + d[2], q, L, acc \o SubSeq(t, i, i + d[2] - 1))
  ELSE IF i = Len(t) THEN <<BadI, i>>
  ELSE LET e == t[i + 1] IN
    IF e = 117 /\ L = "js" /\ i + 2 <= Len(t) /\ t[i + 2] = 123                \* \u{H+}
    THEN LET r == VLHexRun(t, i + 3, 0, 0) IN
         IF r[3] >= 1 /\ r[3] <= 6 /\ r[2] <= Len(t) /\ t[r[2]] = 125 /\ r[1] <= 1114111
         THEN IF IsHiSur(r[1]) \/ IsLoSur(r[1]) THEN <<BadU, i>> ELSE StrBody(t, r[2] + 1, q, L, acc \o EncodeRune(r[1]))
         ELSE <<BadI, i>>
    ELSE IF e = 117
    THEN IF ~Hex4At(t, i + 2) THEN <<BadI, i>>
         ELSE LET v == Hex4Val(t, i + 2) IN
              IF IsHiSur(v)
              THEN IF i + 11 <= Len(t) /\ t[i + 6] = 92 /\ t[i + 7] = 117 /\ Hex4At(t, i + 8) /\ IsLoSur(Hex4Val(t, i + 8))
                   THEN StrBody(t, i + 12, q, L, acc \o EncodeRune(65536 + (v - 55296) * 1024 + (Hex4Val(t, i + 8) - 56320)))
                   ELSE <<BadU, i>>                                        \* lone surrogate: grammatical, but no UTF-8 denotation
              ELSE IF IsLoSur(v) THEN <<BadU, i>>
              ELSE StrBody(t, i + 6, q, L, acc \o EncodeRune(v))
    ELSE IF SimpleEsc(e, L) >= 0 THEN StrBody(t, i + 2, q, L, Append(acc, SimpleEsc(e, L)))
    ELSE IF L = "json" THEN IF e \in {34, 92, 47} THEN StrBody(t, i + 2, q, L, Append(acc, e)) ELSE <<BadI, i>>
    ELSE \* JavaScript EscapeSequence / LineContinuation / NonEscapeCharacter
      IF e = 120 THEN IF i + 3 <= Len(t) /\ IsHex(t[i + 2]) /\ IsHex(t[i + 3])
                      THEN StrBody(t, i + 4, q, L, acc \o EncodeRune(HexVal(t[i + 2]) * 16 + HexVal(t[i + 3])))
                      ELSE <<BadI, i>>
      ELSE IF e = 48 /\ ~(i + 2 <= Len(t) /\ IsDigit(t[i + 2])) THEN StrBody(t, i + 2, q, L, Append(acc, 0))
      ELSE IF IsDigit(e) THEN <<BadU, i>>                                  \* legacy octal / \8 \9: sloppy mode only
      ELSE IF e = 10 THEN StrBody(t, i + 2, q, L, acc)
      ELSE IF e = 13 THEN StrBody(t, IF i + 2 <= Len(t) /\ t[i + 2] = 10 THEN i + 3 ELSE i + 2, q, L, acc)
      ELSE IF HasPrefixAt(t, <<226, 128, 168>>, i + 1) \/ HasPrefixAt(t, <<226, 128, 169>>, i + 1) THEN StrBody(t, i + 4, q, L, acc)
      ELSE IF e < 128 THEN StrBody(t, i + 2, q, L, Append(acc, e))
      ELSE LET d == DecodeRune(t, i + 1) IN
           IF d[2] = 1 THEN <<BadI, i>> ELSE StrBody(t, i + 1 + d[2], q, L, acc \o SubSeq(t, i + 1, i + d[2]))

(* ---------- dates ---------- *)
\* days since 1970-01-01 of a proleptic Gregorian civil date (\div is floor division, % is non-negative)
DaysFromCivil(y0, m, d) ==
  LET y == IF m <= 2 THEN y0 - 1 ELSE y0
      era == y \div 400
      yoe == y - era * 400
      mp == (m + 9) % 12
      doy == (153 * mp + 2) \div 5 + d - 1
      doe == yoe * 365 + yoe \div 4 - yoe \div 100 + doy
  IN era * 146097 + doe - 719468
IsLeap(y) == (y % 4 = 0 /\ y % 100 # 0) \/ y % 400 = 0
DaysIn(y, m) == IF m = 2 THEN (IF IsLeap(y) THEN 29 ELSE 28) ELSE IF m \in {4, 6, 9, 11} THEN 30 ELSE 31
DAYMS == 86400000
Instant(days, ms) == VDate(days + ms \div DAYMS, ms % DAYMS)
AllDigits(s, i, n) == i + n - 1 <= Len(s) /\ \A x \in 0..(n - 1) : IsDigit(s[i + x])
D2(s, i) == (s[i] - 48) * 10 + (s[i + 1] - 48)
\* the civil fields + offset (minutes east of UTC) -> instant, or BadI when a field is out of range (Invalid Date)
CivilInstant(y, mo, d, h, mi, sec, ms, off) ==
  IF mo < 1 \/ mo > 12 \/ d < 1 \/ d > DaysIn(y, mo) \/ mi > 59 \/ sec > 59
     \/ h > 24 \/ (h = 24 /\ (mi # 0 \/ sec # 0 \/ ms # 0)) THEN BadI
  ELSE Instant(DaysFromCivil(y, mo, d), ((h * 60 + mi) * 60 + sec) * 1000 + ms - off * 60000)
\* ECMAScript "Date Time String Format" (ECMA-262 21.4.1.32), date-time forms WITH an explicit offset:
\*   YYYY-MM-DDTHH:mm[:ss[.sss]](Z|+HH:mm|-HH:mm)   with YYYY also as +YYYYYY / -YYYYYY
\* A string that does not START like a date-time of that format (date-only forms, other formats: implementation-
\* specific fallbacks) or that ends after the time (local time) or has a fraction that is not three digits -> undef.
\* A string that starts like one and then does NOT continue as Z or as sign, two digits, ':', two digits (e.g.
\* "-03:-30", "+5:30", "+0530") is no sentence of the only format every implementation must read: invalid.
DateOfString(s) ==
  LET n == Len(s)
      signed == n >= 1 /\ s[1] \in {43, 45}
      yl == IF signed THEN 7 ELSE 4
      p == yl + 1
  IN
  IF ~(n >= yl + 13 /\ AllDigits(s, IF signed THEN 2 ELSE 1, IF signed THEN 6 ELSE 4)) THEN BadU
  ELSE IF ~(s[p] = 45 /\ AllDigits(s, p + 1, 2) /\ s[p + 3] = 45 /\ AllDigits(s, p + 4, 2) /\ s[p + 6] = 84
            /\ AllDigits(s, p + 7, 2) /\ s[p + 9] = 58 /\ AllDigits(s, p + 10, 2)) THEN BadU
  ELSE
   LET ya == VLNat(s, IF signed THEN 2 ELSE 1, yl, 0)
       y == IF signed /\ s[1] = 45 THEN 0 - ya ELSE ya
       q == p + 12
       hasSec == q + 2 <= n /\ s[q] = 58 /\ AllDigits(s, q + 1, 2)
       q2 == IF hasSec THEN q + 3 ELSE q
       hasMs == hasSec /\ q2 + 3 <= n /\ s[q2] = 46 /\ AllDigits(s, q2 + 1, 3)
       q3 == IF hasMs THEN q2 + 4 ELSE q2
       sec == IF hasSec THEN D2(s, q + 1) ELSE 0
       ms == IF hasMs THEN VLNat(s, q2 + 1, q2 + 3, 0) ELSE 0
   IN
   IF signed /\ s[1] = 45 /\ ya = 0 THEN BadI                                \* -000000 is not a valid year
   ELSE IF q3 = n /\ s[q3] = 90
        THEN CivilInstant(y, D2(s, p + 1), D2(s, p + 4), D2(s, p + 7), D2(s, p + 10), sec, ms, 0)
   ELSE IF q3 + 5 = n /\ s[q3] \in {43, 45} /\ AllDigits(s, q3 + 1, 2) /\ s[q3 + 3] = 58 /\ AllDigits(s, q3 + 4, 2)
        THEN IF D2(s, q3 + 1) > 23 \/ D2(s, q3 + 4) > 59 THEN BadI
             ELSE CivilInstant(y, D2(s, p + 1), D2(s, p + 4), D2(s, p + 7), D2(s, p + 10), sec, ms,
                               (IF s[q3] = 45 THEN -1 ELSE 1) * (D2(s, q3 + 1) * 60 + D2(s, q3 + 4)))
   ELSE IF q3 > n THEN BadU                                                  \* no offset: local time
   ELSE IF s[q3] = 46 /\ q3 + 1 <= n /\ IsDigit(s[q3 + 1]) THEN BadU          \* a fraction of 1, 2 or more than 3 digits
   ELSE BadI
\* new Date(<integer milliseconds since the epoch>): long division of the digit string by 86 400 000
RECURSIVE VLDivDay(_, _, _, _)
VLDivDay(ds, i, q, r) == IF i > Len(ds) THEN <<q, r>>
                         ELSE LET x == r * 10 + ds[i] IN VLDivDay(ds, i + 1, q * 10 + x \div DAYMS, x % DAYMS)
DateOfMillis(neg, ds) ==                     \* ds: digit values, at most 15 of them (|t| <= 8.64e15 in ECMAScript)
  IF Len(ds) > 15 THEN BadU
  ELSE LET qr == VLDivDay(ds, 1, 0, 0) IN
       IF neg = 0 THEN VDate(qr[1], qr[2])
       ELSE IF qr[2] = 0 THEN VDate(0 - qr[1], 0) ELSE VDate(0 - qr[1] - 1, DAYMS - qr[2])

(* ---------- values ---------- *)
\* words, as byte sequences
wNull == <<110,117,108,108>>  wTrue == <<116,114,117,101>>  wFalse == <<102,97,108,115,101>>
wNaN == <<78,97,78>>  wInfinity == <<73,110,102,105,110,105,116,121>>  wUndefined == <<117,110,100,101,102,105,110,101,100>>
wNew == <<110,101,119>>  wDate == <<68,97,116,101>>  wProto == <<95,95,112,114,111,116,111,95,95>>
wIn == <<105,110>>  wInstanceof == <<105,110,115,116,97,110,99,101,111,102>>
\* standard globals through which an expression outside the literal subset could still denote data
StdGlobals == {<<78,117,109,98,101,114>>, <<77,97,116,104>>, <<74,83,79,78>>, wDate, <<79,98,106,101,99,116>>,
               <<65,114,114,97,121>>, <<83,116,114,105,110,103>>, <<66,105,103,73,110,116>>, <<83,121,109,98,111,108>>,
               <<103,108,111,98,97,108,84,104,105,115>>, <<119,105,110,100,111,119>>, <<66,111,111,108,101,97,110>>,
               <<112,97,114,115,101,70,108,111,97,116>>, <<112,97,114,115,101,73,110,116>>, <<97,116,111,98>>}
JsOperatorStart == {43, 45, 42, 47, 37, 44, 63, 60, 62, 61, 38, 124, 94, 46, 40, 91, 96, 33}
RECURSIVE VLIdentEnd(_, _)
VLIdentEnd(t, i) == IF i <= Len(t) /\ IsIdPart(t[i]) THEN VLIdentEnd(t, i + 1) ELSE i
\* what follows a complete value where no delimiter of the enclosing construct is found
AfterValue(t, j, L) ==
  IF L = "js" /\ t[j] \in JsOperatorStart THEN BadU                          \* a larger expression: outside the literal subset
  ELSE IF L = "js" /\ IsIdStart(t[j]) /\ SubSeq(t, j, VLIdentEnd(t, j) - 1) \in {wIn, wInstanceof} THEN BadU
  ELSE BadI
NegOf(r) == LET v == r[1] IN
            IF IsBad(v) THEN r
            ELSE IF v.t = "num" THEN <<IF Len(v.s) = 0 THEN v ELSE VNum(1 - v.n, v.s, v.e), r[2]>>
            ELSE IF v.t = "nonfinite" THEN <<VNonFinite(0 - v.e), r[2]>>
            ELSE <<BadU, r[2]>>                                               \* -null, -"1": coercions
PosOf(r) == IF IsBad(r[1]) \/ r[1].t \in {"num", "nonfinite"} THEN r ELSE <<BadU, r[2]>>

\* new Date(...) with i just after the word "new"
ParseNew(t, i) ==
  LET a == SkipWs(t, i, "js") IN
  IF ~(HasPrefixAt(t, wDate, a) /\ VLIdentEnd(t, a) = a + 4) THEN <<IF a <= Len(t) /\ IsIdStart(t[a]) THEN BadU ELSE BadI, a>>
  ELSE LET b == SkipWs(t, a + 4, "js") IN
  IF b > Len(t) \/ t[b] # 40 THEN <<BadU, b>>                                \* "new Date" = now
  ELSE LET c == SkipWs(t, b + 1, "js") IN
  IF c > Len(t) THEN <<BadI, c>>
  ELSE IF t[c] \in {34, 39}
       THEN LET r == StrBody(t, c + 1, t[c], "js", <<>>) IN
            IF IsBad(r[1]) THEN r
            ELSE LET z == SkipWs(t, r[2], "js") IN
                 IF z <= Len(t) /\ t[z] = 41 THEN <<DateOfString(r[1].s), z + 1>>
                 ELSE <<IF z <= Len(t) /\ t[z] = 44 THEN BadU ELSE BadI, z>>
  ELSE IF IsDigit(t[c]) \/ (t[c] = 45 /\ c + 1 <= Len(t) /\ IsDigit(t[c + 1]))
       THEN LET neg == IF t[c] = 45 THEN 1 ELSE 0
                ie == VLDigitsEnd(t, c + neg)
                z == SkipWs(t, ie, "js") IN
            IF z <= Len(t) /\ t[z] = 41 /\ ~(ie > c + neg + 1 /\ t[c + neg] = 48)
            THEN <<DateOfMillis(neg, DigitVals(t, c + neg, ie - 1)), z + 1>>
            ELSE <<BadU, z>>                                                  \* fractions, exponents, several arguments
  ELSE <<BadU, c>>

ParseIdent(t, i) ==
  LET j == VLIdentEnd(t, i)  w == SubSeq(t, i, j - 1) IN
  IF w = wNull THEN <<VNull, j>> ELSE IF w = wTrue THEN <<VBool(1), j>> ELSE IF w = wFalse THEN <<VBool(0), j>>
  ELSE IF w = wNaN THEN <<VNonFinite(0), j>> ELSE IF w = wInfinity THEN <<VNonFinite(1), j>>
  ELSE IF w = wUndefined THEN <<VUndefined, j>>
  ELSE IF w = wNew THEN ParseNew(t, j)
  ELSE IF w \in StdGlobals THEN <<BadU, j>>
  ELSE <<BadR, i>>
ParseJSONWord(t, i) ==
  IF HasPrefixAt(t, wNull, i) THEN <<VNull, i + 4>> ELSE IF HasPrefixAt(t, wTrue, i) THEN <<VBool(1), i + 4>>
  ELSE IF HasPrefixAt(t, wFalse, i) THEN <<VBool(0), i + 5>> ELSE <<BadI, i>>

\* one value starting at t[i] (white space already skipped): <<value | bad, next index>>
RECURSIVE ParseValue(_, _, _), ParseElems(_, _, _, _), ParseMembers(_, _, _, _)
ParseValue(t, i, L) ==
  IF i > Len(t) THEN <<BadI, i>>
  ELSE LET c == t[i] IN
  IF c = 34 THEN StrBody(t, i + 1, 34, L, <<>>)
  ELSE IF c = 39 THEN IF L = "js" THEN StrBody(t, i + 1, 39, L, <<>>) ELSE <<BadI, i>>
  ELSE IF c = 91 THEN
       LET j == SkipWs(t, i + 1, L) IN
       IF j <= Len(t) /\ t[j] = 93 THEN <<VArr(<<>>), j + 1>>
       ELSE IF L = "js" /\ j <= Len(t) /\ (t[j] = 44 \/ HasPrefixAt(t, <<46, 46, 46>>, j)) THEN <<BadU, j>>   \* elision, spread
       ELSE ParseElems(t, j, L, <<>>)
  ELSE IF c = 123 THEN
       LET j == SkipWs(t, i + 1, L) IN
       IF j <= Len(t) /\ t[j] = 125 THEN <<VObj(<<>>), j + 1>> ELSE ParseMembers(t, j, L, <<>>)
  ELSE IF c = 45 /\ L = "json" THEN ParseNum(t, i, L)                        \* '-' belongs to the JSON number token
  ELSE IF c \in {45, 43} /\ L = "js" THEN                                    \* unary minus / plus applied to a literal
       LET j == SkipWs(t, i + 1, L) IN
       IF j > Len(t) THEN <<BadI, j>>
       ELSE LET r == IF IsDigit(t[j]) \/ t[j] = 46 THEN ParseNum(t, j, L)
                     ELSE IF IsIdStart(t[j]) THEN ParseIdent(t, j)
                     ELSE IF t[j] \in {45, 43, 40, 34, 39, 91, 123, 33, 126} THEN <<BadU, j>>
                     ELSE <<BadI, j>>
            IN IF c = 45 THEN NegOf(r) ELSE PosOf(r)
  ELSE IF IsDigit(c) \/ (c = 46 /\ L = "js") THEN ParseNum(t, i, L)
  ELSE IF IsIdStart(c) THEN IF L = "json" THEN ParseJSONWord(t, i) ELSE ParseIdent(t, i)
  ELSE IF L = "js" /\ c \in {40, 96, 33, 126} THEN <<BadU, i>>
  ELSE IF L = "js" /\ c = 47 THEN <<IF HasPrefixAt(t, <<47, 42>>, i) THEN BadI ELSE BadU, i>>   \* unterminated comment / regex
  ELSE <<BadI, i>>
\* array elements; i: where an element is expected
ParseElems(t, i, L, acc) ==
  LET r == ParseValue(t, i, L) IN
  IF IsBad(r[1]) THEN r
  ELSE LET j == SkipWs(t, r[2], L) IN
       IF j > Len(t) THEN <<BadI, j>>
       ELSE IF t[j] = 93 THEN <<VArr(Append(acc, r[1])), j + 1>>
       ELSE IF t[j] = 44 THEN
            LET j2 == SkipWs(t, j + 1, L) IN
            IF L = "js" /\ j2 <= Len(t) /\ t[j2] = 93 THEN <<VArr(Append(acc, r[1])), j2 + 1>>   \* trailing comma (JS only)
            ELSE IF L = "js" /\ j2 <= Len(t) /\ (t[j2] = 44 \/ HasPrefixAt(t, <<46, 46, 46>>, j2)) THEN <<BadU, j2>>
            ELSE ParseElems(t, j2, L, Append(acc, r[1]))
       ELSE <<AfterValue(t, j, L), j>>
\* object members; i: where a key is expected
ParseMembers(t, i, L, acc) ==
  IF i > Len(t) THEN <<BadI, i>>
  ELSE
  LET key == IF t[i] = 34 \/ (t[i] = 39 /\ L = "js") THEN StrBody(t, i + 1, t[i], L, <<>>)
             ELSE IF L = "js" /\ IsIdStart(t[i]) /\ t[i] < 128 THEN <<VStr(SubSeq(t, i, VLIdentEnd(t, i) - 1)), VLIdentEnd(t, i)>>
             ELSE IF L = "js" /\ (IsDigit(t[i]) \/ t[i] \in {91, 46}) THEN <<BadU, i>>   \* numeric / computed keys, spread
             ELSE <<BadI, i>>
  IN
  IF IsBad(key[1]) THEN key
  ELSE IF L = "js" /\ key[1].s = wProto THEN <<BadU, i>>                      \* sets the prototype, not a property
  ELSE LET c == SkipWs(t, key[2], L) IN
  IF c > Len(t) THEN <<BadI, c>>
  ELSE IF t[c] # 58 THEN <<IF L = "js" /\ t[i] \notin {34, 39} /\ t[c] \in {44, 125, 40} THEN BadU ELSE BadI, c>>   \* shorthand, method
  ELSE LET r == ParseValue(t, SkipWs(t, c + 1, L), L) IN
  IF IsBad(r[1]) THEN r
  ELSE LET j == SkipWs(t, r[2], L)  acc2 == acc \o <<key[1], r[1]>> IN
       IF j > Len(t) THEN <<BadI, j>>
       ELSE IF t[j] = 125 THEN <<VObj(acc2), j + 1>>
       ELSE IF t[j] = 44 THEN
            LET j2 == SkipWs(t, j + 1, L) IN
            IF L = "js" /\ j2 <= Len(t) /\ t[j2] = 125 THEN <<VObj(acc2), j2 + 1>>
            ELSE ParseMembers(t, j2, L, acc2)
       ELSE <<AfterValue(t, j, L), j>>

\* THE reference parsers: the whole text is exactly one value (surrounded by white space only)
ParseWhole(t, L) ==
  LET i == SkipWs(t, 1, L) IN
  IF i > Len(t) THEN BadI
  ELSE LET r == ParseValue(t, i, L) IN
       IF IsBad(r[1]) THEN r[1]
       ELSE LET j == SkipWs(t, r[2], L) IN IF j > Len(t) THEN r[1] ELSE AfterValue(t, j, L)
JSONParse(t)  == ParseWhole(t, "json")
JSLitParse(t) == ParseWhole(t, "js")

(* ---------- data equality: objects are compared as sets of members ---------- *)
RECURSIVE LessFrom(_, _, _), InsertP(_, _, _), SortFrom(_, _, _), Canon(_), HasNonFinite(_), PairsOf(_, _), UnPairs(_, _)
LessFrom(a, b, i) == IF i > Len(b) THEN FALSE ELSE IF i > Len(a) THEN TRUE
                     ELSE IF a[i] < b[i] THEN TRUE ELSE IF a[i] > b[i] THEN FALSE ELSE LessFrom(a, b, i + 1)
Less(a, b) == LessFrom(a, b, 1)                                             \* byte-wise order of Go strings
\* pairs are <<key bytes, value>>
InsertP(sorted, p, i) == IF i > Len(sorted) THEN Append(sorted, p)
                         ELSE IF Less(p[1], sorted[i][1]) THEN SubSeq(sorted, 1, i - 1) \o <<p>> \o SubSeq(sorted, i, Len(sorted))
                         ELSE InsertP(sorted, p, i + 1)
SortFrom(ps, i, acc) == IF i > Len(ps) THEN acc ELSE SortFrom(ps, i + 1, InsertP(acc, ps[i], 1))
SortPairs(ps) == SortFrom(ps, 1, <<>>)
PairsOf(k, i) == IF i > Len(k) THEN <<>> ELSE <<<<k[i].s, k[i + 1]>>>> \o PairsOf(k, i + 2)
UnPairs(ps, i) == IF i > Len(ps) THEN <<>> ELSE <<VStr(ps[i][1]), ps[i][2]>> \o UnPairs(ps, i + 1)
Canon(v) == IF v.t = "arr" THEN VArr(Tup([x \in 1..Len(v.k) |-> Canon(v.k[x])]))
            ELSE IF v.t = "obj" THEN VObj(UnPairs(SortPairs(PairsOf(Tup([x \in 1..Len(v.k) |-> IF x % 2 = 1 THEN v.k[x] ELSE Canon(v.k[x])]), 1)), 1))
            ELSE v
HasNonFinite(v) == v.t = "nonfinite" \/ \E x \in 1..Len(v.k) : HasNonFinite(v.k[x])
HasDupKey(k) == \E x, y \in 1..(Len(k) \div 2) : x < y /\ k[2 * x - 1].s = k[2 * y - 1].s
RECURSIVE DeepDup(_)
DeepDup(v) == (v.t = "obj" /\ HasDupKey(v.k)) \/ \E x \in 1..Len(v.k) : DeepDup(v.k[x])
KeysAscending(k) == \A x \in 1..(Len(k) \div 2 - 1) : Less(k[2 * x - 1].s, k[2 * x + 1].s)

(* ========\* does the descriptor contain a NaN or an infinity?
RECURSIVE DescNonFinite(_)
DescNonFinite(d) ==
  CASE d.k = "float" -> d.txt \in {txtNaN, txtPInf, txtNInf}
    [] d.k = "ptr" -> d.nil = 0 /\ DescNonFinite(d.v)
    [] d.k \in {"slice", "array"} -> \E x \in 1..Len(d.kids) : DescNonFinite(d.kids[x])
    [] d.k = "map" -> \E x \in 1..Len(d.ents) : DescNonFinite(d.ents[x].v)
    [] d.k = "struct" -> \E x \in 1..Len(d.fields) : DescNonFinite(d.fields[x].v)
    [] OTHER -> FALSE
=============================================================================
   Descriptors (what the driver builds by reflection) and Abs: the data encoding/json assigns.
     [k |-> "nil"]                                   untyped nil (nil interface)
     [k |-> "bool", b |-> 0|1]
     [k |-> "int", ty |-> "int64"|..., txt |-> decimal text]
     [k |-> "float", ty |-> "float64"|"float32", txt |-> shortest round-trip decimal text | "NaN" | "+Inf" | "-Inf"]
     [k |-> "str", s |-> bytes]
     [k |-> "bytes", nil |-> 0|1, s |-> bytes]       []byte
     [k |-> "time", y, mo, d, h, mi, sec, ns, off (minutes east), utc |-> 0|1 (location is time.UTC)]
     [k |-> "ptr", nil |-> 0|1, v |-> descriptor]
     [k |-> "slice"|"array", typed |-> 0|1, nil |-> 0|1, kids |-> <<descriptor>>]
     [k |-> "map", kk |-> "string"|"int"|"bool", nil |-> 0|1, ents |-> <<[key |-> text, v |-> descriptor]>>]
     [k |-> "struct", ty |-> registry name, fields |-> <<[name, hastag, tag, exp, emb, iface, v]>>]   every Go field, in order
   Options o = [nb, emb, tm] select the reading of three points where the tree as found differs
   from encoding/json; Strict is encoding/json; the others are used ONLY to name the cause of a
   mismatch in the signature (and, in JavaScript context, where the property does not say
   "encoding/json", both readings are accepted: see Verdict).
   ===================================================================================== *)
Opt(nb, emb, tm, tz) == [nb |-> nb, emb |-> emb, tm |-> tm, tz |-> tz]
Strict == Opt("null", "flat", "nano", "exact")
txtNaN == <<78,97,78>>  txtPInf == <<43,73,110,102>>  txtNInf == <<45,73,110,102>>
oOmitEmpty == <<111,109,105,116,101,109,112,116,121>>  oString == <<115,116,114,105,110,103>>  oOmitZero == <<111,109,105,116,122,101,114,111>>

(* base64.StdEncoding (RFC 4648 section 4, with padding) *)
B64Char(n) == IF n < 26 THEN 65 + n ELSE IF n < 52 THEN 71 + n ELSE IF n < 62 THEN n - 4 ELSE IF n = 62 THEN 43 ELSE 47
RECURSIVE B64From(_, _)
B64From(s, i) ==
  LET n == Len(s) - i + 1 IN
  IF n <= 0 THEN <<>>
  ELSE IF n = 1 THEN <<B64Char(s[i] \div 4), B64Char((s[i] % 4) * 16), 61, 61>>
  ELSE IF n = 2 THEN <<B64Char(s[i] \div 4), B64Char((s[i] % 4) * 16 + s[i + 1] \div 16), B64Char((s[i + 1] % 16) * 4), 61>>
  ELSE <<B64Char(s[i] \div 4), B64Char((s[i] % 4) * 16 + s[i + 1] \div 16),
         B64Char((s[i + 1] % 16) * 4 + s[i + 2] \div 64), B64Char(s[i + 2] % 64)>> \o B64From(s, i + 3)
Base64(s) == B64From(s, 1)

RECURSIVE PadLeft(_, _)
PadLeft(ds, n) == IF Len(ds) >= n THEN ds ELSE PadLeft(<<48>> \o ds, n)
RECURSIVE DecText(_)
DecText(n) == IF n < 10 THEN <<48 + n>> ELSE DecText(n \div 10) \o <<48 + (n % 10)>>      \* n >= 0
Pad(n, w) == PadLeft(DecText(n), w)
RECURSIVE StripZeros(_)
StripZeros(ds) == IF Len(ds) > 0 /\ ds[Len(ds)] = 48 THEN StripZeros(SubSeq(ds, 1, Len(ds) - 1)) ELSE ds
\* time.Time.MarshalJSON: RFC 3339 with nanoseconds ("2006-01-02T15:04:05.999999999Z07:00"); year must be in 0..9999
ZoneText(off) == IF off = 0 THEN <<90>>
                 ELSE LET a == IF off < 0 THEN 0 - off ELSE off IN
                      <<IF off < 0 THEN 45 ELSE 43>> \o Pad(a \div 60, 2) \o <<58>> \o Pad(a % 60, 2)
RFC3339Text(d, nano) ==
  Pad(d.y, 4) \o <<45>> \o Pad(d.mo, 2) \o <<45>> \o Pad(d.d, 2) \o <<84>> \o Pad(d.h, 2) \o <<58>> \o Pad(d.mi, 2) \o <<58>> \o Pad(d.sec, 2)
  \o (IF nano /\ d.ns # 0 THEN <<46>> \o StripZeros(Pad(d.ns, 9)) ELSE <<>>) \o ZoneText(d.off)

\* split at commas: <<part1, part2, ...>>
RECURSIVE SplitComma(_, _, _)
SplitComma(s, i, cur) == IF i > Len(s) THEN <<cur>>
                         ELSE IF s[i] = 44 THEN <<cur>> \o SplitComma(s, i + 1, <<>>) ELSE SplitComma(s, i + 1, Append(cur, s[i]))
TagParts(tag) == SplitComma(tag, 1, <<>>)
HasOpt(parts, o) == \E x \in 2..Len(parts) : parts[x] = o
\* encoding/json isValidTag: letters, digits and !#$%&()*+-./:;<=>?@[]^_{|}~ and space (non-ASCII letters: not decided here)
TagNameOK(nm) == Len(nm) > 0 /\ \A x \in 1..Len(nm) : (IsAlpha(nm[x]) \/ IsDigit(nm[x]) \/
                    nm[x] \in {33,35,36,37,38,40,41,42,43,45,46,47,58,59,60,61,62,63,64,91,93,94,95,123,124,125,126,32})
\* encoding/json isEmptyValue on the FIELD (f.iface = 1: the field's static type is an interface)
IsEmptyField(f) ==
  LET d == f.v IN
  IF f.iface = 1 THEN d.k = "nil"
  ELSE CASE d.k = "bool" -> d.b = 0
         [] d.k \in {"int", "float"} -> (d.txt \notin {txtNaN, txtPInf, txtNInf} /\ Len(NumOfText(d.txt).s) = 0)
         [] d.k = "str" -> Len(d.s) = 0
         [] d.k = "bytes" -> Len(d.s) = 0
         [] d.k = "ptr" -> d.nil = 1
         [] d.k \in {"slice", "array"} -> Len(d.kids) = 0
         [] d.k = "map" -> Len(d.ents) = 0
         [] OTHER -> FALSE

RECURSIVE Abs(_, _, _), AbsMembers(_, _, _, _)
AnyBad(vs) == \E x \in 1..Len(vs) : IsBad(vs[x])
IntKeyOK(txt) == LET v == NumOfText(txt) IN ~IsBad(v) /\ v.e >= 0       \* canonical decimal integer text
\* members <<VStr(name), value, ...>> contributed by the fields fs[i..] of a struct (encoding/json typeFields, without
\* name conflicts: a descriptor with duplicate names is outside the reference)
AbsMembers(fs, i, L, o) ==
  IF i > Len(fs) THEN <<>>
  ELSE LET f == fs[i]
           parts == IF f.hastag = 1 THEN TagParts(f.tag) ELSE <<<<>>>>
           rest == AbsMembers(fs, i + 1, L, o)
       IN
       IF f.hastag = 1 /\ f.tag = <<45>> THEN rest                                         \* json:"-"
       ELSE IF f.emb = 1 /\ (f.hastag = 0 \/ parts[1] = <<>>) /\ o.emb = "flat" /\ f.v.k = "struct"
            THEN AbsMembers(f.v.fields, 1, L, o) \o rest                                    \* embedded struct: fields promoted
       ELSE IF f.emb = 1 /\ (f.hastag = 0 \/ parts[1] = <<>>) /\ o.emb = "flat" /\ f.v.k = "ptr"
            THEN (IF f.v.nil = 1 THEN <<>> ELSE IF f.v.v.k = "struct" THEN AbsMembers(f.v.v.fields, 1, L, o) ELSE <<BadU>>) \o rest
       ELSE IF f.exp = 0 THEN rest                                                         \* unexported
       ELSE IF HasOpt(parts, oString) \/ HasOpt(parts, oOmitZero) THEN <<BadU>>             \* not decided by this reference
       ELSE IF HasOpt(parts, oOmitEmpty) /\ IsEmptyField(f) THEN rest
       ELSE <<VStr(IF TagNameOK(parts[1]) THEN parts[1] ELSE f.name), Abs(f.v, L, o)>> \o rest
Abs(d, L, o) ==
  CASE d.k = "nil" -> VNull
    [] d.k = "bool" -> VBool(d.b)
    [] d.k = "int" -> NumOfText(d.txt)
    [] d.k = "float" -> IF d.txt = txtNaN THEN VNonFinite(0) ELSE IF d.txt = txtPInf THEN VNonFinite(1)
                        ELSE IF d.txt = txtNInf THEN VNonFinite(-1) ELSE NumOfText(d.txt)
    [] d.k = "str" -> IF Valid(d.s) THEN VStr(d.s) ELSE BadU           \* invalid UTF-8 is not text: outside the reference
    [] d.k = "bytes" -> IF d.nil = 1 THEN (IF o.nb = "null" THEN VNull ELSE VStr(<<>>)) ELSE VStr(Base64(d.s))
    [] d.k = "time" ->
         IF L = "js" THEN CivilInstant(d.y, d.mo, d.d, d.h, d.mi, d.sec, d.ns \div 1000000,   \* Date has millisecond resolution
                                       IF o.tz = "signlost" /\ d.off < 0 /\ d.off > -60 THEN 0 - d.off ELSE d.off)
         ELSE IF d.y < 0 \/ d.y > 9999 THEN BadU                        \* MarshalJSON fails
         ELSE VStr(RFC3339Text(d, o.tm = "nano"))
    [] d.k = "ptr" -> IF d.nil = 1 THEN VNull ELSE Abs(d.v, L, o)
    [] d.k \in {"slice", "array"} ->
         IF d.k = "slice" /\ d.nil = 1 THEN VNull
         ELSE LET ks == Tup([x \in 1..Len(d.kids) |-> Abs(d.kids[x], L, o)]) IN IF AnyBad(ks) THEN BadU ELSE VArr(ks)
    [] d.k = "map" ->
         IF d.nil = 1 THEN VNull
         ELSE IF d.kk = "bool" /\ L = "json" THEN BadU                  \* encoding/json: unsupported type
         ELSE IF d.kk = "int" /\ \E x \in 1..Len(d.ents) : ~IntKeyOK(d.ents[x].key) THEN BadU
         ELSE LET ps == SortPairs(Tup([x \in 1..Len(d.ents) |-> <<d.ents[x].key, Abs(d.ents[x].v, L, o)>>]))
                  ks == UnPairs(ps, 1) IN
              IF AnyBad(ks) \/ HasDupKey(ks) \/ \E x \in 1..Len(d.ents) : ~Valid(d.ents[x].key) THEN BadU ELSE VObj(ks)
    [] d.k = "struct" -> LET ks == AbsMembers(d.fields, 1, L, o) IN
                         IF AnyBad(ks) \/ HasDupKey(ks) THEN BadU ELSE VObj(ks)

\* "key-sorted objects" (JavaScript clause): wherever the descriptor has a map, the object printed for it lists
\* its keys in ascending order.  p is the parsed output, already known to be Canon-equal to Abs(d).
RECURSIVE MapOrderOk(_, _, _), Lookup(_, _, _)
Lookup(k, key, i) == IF i > Len(k) THEN VNull ELSE IF k[i].s = key THEN k[i + 1] ELSE Lookup(k, key, i + 2)
MapOrderOk(d, p, o) ==
  IF p.t \notin {"arr", "obj"} THEN TRUE
  ELSE CASE d.k = "ptr" -> d.nil = 1 \/ MapOrderOk(d.v, p, o)
    [] d.k \in {"slice", "array"} -> p.t = "arr" /\ Len(p.k) = Len(d.kids) /\ \A x \in 1..Len(d.kids) : MapOrderOk(d.kids[x], p.k[x], o)
    [] d.k = "map" -> p.t = "obj" /\ KeysAscending(p.k) /\ \A x \in 1..Len(d.ents) : MapOrderOk(d.ents[x].v, Lookup(p.k, d.ents[x].key, 1), o)
    [] d.k = "struct" -> p.t = "obj" /\ \A x \in 1..Len(d.fields) :
           LET f == d.fields[x]  parts == IF f.hastag = 1 THEN TagParts(f.tag) ELSE <<<<>>>> IN
           IF f.exp = 0 \/ (f.hastag = 1 /\ f.tag = <<45>>) THEN TRUE
           ELSE IF f.emb = 1 /\ (f.hastag = 0 \/ parts[1] = <<>>) /\ o.emb = "flat" THEN MapOrderOk(f.v, p, o)
           ELSE MapOrderOk(f.v, Lookup(p.k, IF TagNameOK(parts[1]) THEN parts[1] ELSE f.name, 1), o)
    [] OTHER -> TRUE

(* ========\* does the descriptor contain a NaN or an infinity?
RECURSIVE DescNonFinite(_)
DescNonFinite(d) ==
  CASE d.k = "float" -> d.txt \in {txtNaN, txtPInf, txtNInf}
    [] d.k = "ptr" -> d.nil = 0 /\ DescNonFinite(d.v)
    [] d.k \in {"slice", "array"} -> \E x \in 1..Len(d.kids) : DescNonFinite(d.kids[x])
    [] d.k = "map" -> \E x \in 1..Len(d.ents) : DescNonFinite(d.ents[x].v)
    [] d.k = "struct" -> \E x \in 1..Len(d.fields) : DescNonFinite(d.fields[x].v)
    [] OTHER -> FALSE
=============================================================================
   The property-level verdict on one observation
     r = [id, ctx, desc, st \in {"ok", "builderr", "runerr", "hostpanic"}, out]
   "ok" and the "skip_*" verdicts are not failures; everything else is a cause of violation.
   ===================================================================================== *)
Lang(ctx) == IF ctx \in {"js_script", "js_file"} THEN "js" ELSE "json"
\* JSON: the readings of the tree as found, tried in this order to NAME the cause of a mismatch
Relaxations == <<Opt("empty", "flat", "nano", "exact"), Opt("null", "nest", "nano", "exact"), Opt("null", "flat", "sec", "exact"),
                 Opt("empty", "nest", "nano", "exact"), Opt("empty", "flat", "sec", "exact"), Opt("null", "nest", "sec", "exact"),
                 Opt("empty", "nest", "sec", "exact")>>
RelaxName(o) == IF o.emb = "nest" THEN "embedded-struct-not-flattened"
                ELSE IF o.nb = "empty" THEN "nil-byte-slice-as-empty-string" ELSE "time-subsecond-dropped"
\* JavaScript: the statement does not name encoding/json; for a nil []byte and for embedded structs "the
\* corresponding data" is read either way (null or "", promoted or nested): all four readings are ACCEPTED.
JsReadings == <<Strict, Opt("empty", "flat", "nano", "exact"), Opt("null", "nest", "nano", "exact"), Opt("empty", "nest", "nano", "exact")>>
\* showTimeInJS as found prints the offsets -00:59..-00:01 with a '+' sign: only to name that cause
JsSignLost == <<Opt("null", "flat", "nano", "signlost"), Opt("empty", "flat", "nano", "signlost"),
                Opt("null", "nest", "nano", "signlost"), Opt("empty", "nest", "nano", "signlost")>>
\* data equality; exact equality first (the common case), objects as member sets otherwise
Same(a, P) == a = P \/ Canon(a) = Canon(P)
Matches(d, L, o, P) == LET a == Abs(d, L, o) IN ~IsBad(a) /\ Same(a, P)
RECURSIVE FirstHit(_, _, _, _, _)
FirstHit(os, x, d, L, P) == IF x > Len(os) THEN 0 ELSE IF Matches(d, L, os[x], P) THEN x ELSE FirstHit(os, x + 1, d, L, P)
Verdict(r) ==
  LET L == Lang(r.ctx)  d == r.desc  A == Abs(d, L, Strict) IN
  IF r.st = "builderr" THEN "skip_not_accepted"                 \* the type is not accepted for the context: outside the property
  ELSE IF IsBad(A) THEN "skip_ref_undefined"
  ELSE IF r.st = "hostpanic" THEN "host-panic"
  ELSE IF r.st = "runerr" THEN (IF L = "json" /\ HasNonFinite(A) THEN "ok" ELSE "run-error")
  ELSE
  LET P == ParseWhole(r.out, L) IN
  IF P.t = "undef" THEN "skip_out_undefined"
  ELSE IF IsBad(P) THEN (IF HasNonFinite(A) THEN "non-finite-float"
                         ELSE IF P.t = "unbound" THEN "unbound-identifier" ELSE "not-a-literal")
  ELSE IF DeepDup(P) THEN "duplicate-object-key"                \* RFC 8259 section 4: what such an object decodes to is unpredictable
  ELSE IF L = "json" /\ HasNonFinite(A) THEN "ok"               \* no JSON value exists for it: any valid JSON is accepted
  ELSE IF L = "json" THEN
       IF Same(A, P) THEN "ok"
       ELSE LET h == FirstHit(Relaxations, 1, d, L, P) IN
            IF h > 0 THEN RelaxName(Relaxations[h]) ELSE "different-data"
  ELSE LET h == IF Same(A, P) THEN 1 ELSE FirstHit(JsReadings, 2, d, L, P) IN
       IF h = 0
       THEN (IF FirstHit(JsSignLost, 1, d, L, P) > 0 THEN "js-date-negative-subhour-offset"
             ELSE IF HasNonFinite(A) THEN "non-finite-float"
             ELSE "different-data")
       ELSE IF MapOrderOk(d, P, JsReadings[h]) THEN "ok" ELSE "map-keys-not-sorted"
IsSkip(v) == v \in {"skip_not_accepted", "skip_ref_undefined", "skip_out_undefined"}

(* ========\* does the descriptor contain a NaN or an infinity?
RECURSIVE DescNonFinite(_)
DescNonFinite(d) ==
  CASE d.k = "float" -> d.txt \in {txtNaN, txtPInf, txtNInf}
    [] d.k = "ptr" -> d.nil = 0 /\ DescNonFinite(d.v)
    [] d.k \in {"slice", "array"} -> \E x \in 1..Len(d.kids) : DescNonFinite(d.kids[x])
    [] d.k = "map" -> \E x \in 1..Len(d.ents) : DescNonFinite(d.ents[x].v)
    [] d.k = "struct" -> \E x \in 1..Len(d.fields) : DescNonFinite(d.fields[x].v)
    [] OTHER -> FALSE
=============================================================================
   Part 2.  Implementation-shaped model: showInJS / showInJSON (renderer.go), jsStringEscape
   (escapers.go), showTimeInJS, parseTagValue, isEmptyValue - transcribed branch by branch,
   AS FOUND at 55cee7b for fix = FALSE; fix = TRUE transcribes the tree after the four fixes this family
   led to: 2f130f5 non-finite floats (JavaScript: NaN, Infinity, -Infinity; JSON: null), a089625 nil []byte ->
   null in JSON, cad68cd RFC3339Nano in JSON, afb952f sign of the zone offset in the Date literal.
   ===================================================================================== *)
HexChar(n) == IF n < 10 THEN 48 + n ELSE 87 + n
U4(c) == <<92, 117>> \o <<HexChar(c \div 4096), HexChar((c \div 256) % 16), HexChar((c \div 16) % 16), HexChar(c % 16)>>
\* jsStringEscapes[c] for c < 93, "" = <<>>
JsEscTab(c) == CASE c = 8 -> <<92, 98>> [] c = 9 -> <<92, 116>> [] c = 10 -> <<92, 110>> [] c = 12 -> <<92, 102>> [] c = 13 -> <<92, 114>>
                 [] c = 34 -> <<92, 34>> [] c = 92 -> <<92, 92>>
                 [] c < 32 \/ c \in {38, 39, 60, 62} -> U4(c)
                 [] OTHER -> <<>>
\* for i, c := range s { ... }: runes; an escape replaces the rune, everything else is copied
RECURSIVE MJsEsc(_, _)
MJsEsc(s, i) ==
  IF i > Len(s) THEN <<>>
  ELSE LET d == DecodeRune(s, i)
           esc == IF d[1] < 93 THEN JsEscTab(d[1]) ELSE IF d[1] \in {8232, 8233} /\ d[2] = 3 THEN U4(d[1]) ELSE <<>>
       IN (IF esc = <<>> THEN SubSeq(s, i, i + d[2] - 1) ELSE esc) \o MJsEsc(s, i + d[2])
MQuoted(s) == <<34>> \o MJsEsc(s, 1) \o <<34>>
RECURSIVE Zeros(_)
Zeros(n) == IF n <= 0 THEN <<>> ELSE <<48>> \o Zeros(n - 1)
\* strconv.FormatFloat(f, 'f', -1, bits) given the shortest digits (the descriptor's text)
MFormatFloat(txt) ==
  IF txt \in {txtNaN, txtPInf, txtNInf} THEN txt
  ELSE LET v == NumOfText(txt)  n == Len(v.s)  ds == Tup([x \in 1..n |-> 48 + v.s[x]])  p == n + v.e
           sign == IF txt[1] = 45 THEN <<45>> ELSE <<>> IN
       IF n = 0 THEN sign \o <<48>>
       ELSE IF v.e >= 0 THEN sign \o ds \o Zeros(v.e)
       ELSE IF p > 0 THEN sign \o SubSeq(ds, 1, p) \o <<46>> \o SubSeq(ds, p + 1, n)
       ELSE sign \o <<48, 46>> \o Zeros(0 - p) \o ds
\* showTimeInJS
MTimeJS(d, fix) ==
  LET ms == d.ns \div 1000000
      ytxt == IF d.y < 0 \/ d.y > 9999 THEN <<IF d.y < 0 THEN 45 ELSE 43>> \o Pad(IF d.y < 0 THEN 0 - d.y ELSE d.y, 6) ELSE Pad(d.y, 4)
      core == ytxt \o <<45>> \o Pad(d.mo, 2) \o <<45>> \o Pad(d.d, 2) \o <<84>> \o Pad(d.h, 2) \o <<58>> \o Pad(d.mi, 2)
              \o <<58>> \o Pad(d.sec, 2) \o <<46>> \o Pad(ms, 3)
      a == IF d.off < 0 THEN 0 - d.off ELSE d.off
      \* as found: zone := offset / 60; h, m := zone/60, zone%60 (Go: truncated); if m < 0 { m = -m }; "%+0.2d:%0.2d"
      h == IF d.off < 0 THEN 0 - (a \div 60) ELSE a \div 60
      \* (afb952f): sign := '+'; if zone < 0 { sign, zone = '-', -zone }; h, m := zone/60, zone%60; "%c%0.2d:%0.2d"
      neg == IF fix THEN d.off < 0 ELSE h < 0
      ztxt == IF d.utc = 1 THEN <<90>> ELSE <<IF neg THEN 45 ELSE 43>> \o Pad(a \div 60, 2) \o <<58>> \o Pad(a % 60, 2)
  IN <<110,101,119,32,68,97,116,101,40,34>> \o core \o ztxt \o <<34, 41>>
\* parseTagValue
MParseTag(tag) == LET parts == TagParts(tag) IN [name |-> parts[1], omitempty |-> HasOpt(parts, oOmitEmpty)]
\* isEmptyValue (on the field's reflect.Value)
MIsEmpty(f) == IsEmptyField(f)                  \* the two functions have the same cases for the kinds of the menu
RECURSIVE Model(_, _, _), MJoin(_, _, _), MFields(_, _, _, _, _)
MJoin(parts, i, sep) == IF i > Len(parts) THEN <<>> ELSE (IF i > 1 THEN sep ELSE <<>>) \o parts[i] \o MJoin(parts, i + 1, sep)
MFields(fs, i, L, fix, first) ==
  IF i > Len(fs) THEN <<>>
  ELSE LET f == fs[i] IN
       IF f.exp = 0 THEN MFields(fs, i + 1, L, fix, first)                               \* field.PkgPath != ""
       ELSE IF f.hastag = 1 /\ f.tag # <<>> /\ f.tag = <<45>> THEN MFields(fs, i + 1, L, fix, first)
       ELSE IF f.hastag = 1 /\ f.tag # <<>> /\ MParseTag(f.tag).omitempty /\ MIsEmpty(f) THEN MFields(fs, i + 1, L, fix, first)
       ELSE LET name == IF f.hastag = 1 /\ f.tag # <<>> /\ MParseTag(f.tag).name # <<>> THEN MParseTag(f.tag).name ELSE f.name IN
            (IF first THEN <<34>> ELSE <<44, 34>>) \o MJsEsc(name, 1) \o <<34, 58>> \o Model(f.v, L, fix)
            \o MFields(fs, i + 1, L, fix, FALSE)
Model(d, L, fix) ==
  CASE d.k = "nil" -> wNull
    [] d.k = "bool" -> IF d.b = 1 THEN wTrue ELSE wFalse
    [] d.k = "int" -> d.txt                                                               \* FormatInt / FormatUint
    [] d.k = "float" -> IF fix /\ d.txt \in {txtNaN, txtPInf, txtNInf}
                        THEN (IF L = "json" THEN wNull ELSE IF d.txt = txtNaN THEN wNaN ELSE IF d.txt = txtPInf THEN wInfinity ELSE <<45>> \o wInfinity)
                        ELSE MFormatFloat(d.txt)
    [] d.k = "str" -> MQuoted(d.s)
    [] d.k = "bytes" -> IF fix /\ L = "json" /\ d.nil = 1 THEN wNull                      \* (a089625) if b == nil { s = "null" }
                        ELSE <<34>> \o Base64(d.s) \o <<34>>                              \* escapeBytes, as found also for a nil []byte
    [] d.k = "time" -> IF L = "js" THEN MTimeJS(d, fix) ELSE <<34>> \o RFC3339Text(d, fix) \o <<34>>   \* v.Format(time.RFC3339), (cad68cd) RFC3339Nano
    [] d.k = "ptr" -> IF d.nil = 1 THEN wNull ELSE Model(d.v, L, fix)
    [] d.k \in {"slice", "array"} ->
         IF d.k = "slice" /\ d.nil = 1 THEN wNull
         ELSE IF Len(d.kids) = 0 THEN <<91, 93>>
         ELSE <<91>> \o MJoin(Tup([x \in 1..Len(d.kids) |-> Model(d.kids[x], L, fix)]), 1, <<44>>) \o <<93>>
    [] d.k = "map" ->
         IF d.nil = 1 THEN wNull
         ELSE LET ps == SortPairs(Tup([x \in 1..Len(d.ents) |-> <<d.ents[x].key, d.ents[x].v>>])) IN           \* sort.Slice by key string
              <<123>> \o MJoin(Tup([x \in 1..Len(ps) |-> MQuoted(ps[x][1]) \o <<58>> \o Model(ps[x][2], L, fix)]), 1, <<44>>) \o <<125>>
    [] d.k = "struct" -> <<123>> \o MFields(d.fields, 1, L, fix, TRUE) \o <<125>>
\* does the descriptor contain a NaN or an infinity?
RECURSIVE DescNonFinite(_)
DescNonFinite(d) ==
  CASE d.k = "float" -> d.txt \in {txtNaN, txtPInf, txtNInf}
    [] d.k = "ptr" -> d.nil = 0 /\ DescNonFinite(d.v)
    [] d.k \in {"slice", "array"} -> \E x \in 1..Len(d.kids) : DescNonFinite(d.kids[x])
    [] d.k = "map" -> \E x \in 1..Len(d.ents) : DescNonFinite(d.ents[x].v)
    [] d.k = "struct" -> \E x \in 1..Len(d.fields) : DescNonFinite(d.fields[x].v)
    [] OTHER -> FALSE
=============================================================================

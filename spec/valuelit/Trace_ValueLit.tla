--------------------------- MODULE Trace_ValueLit ---------------------------
(* C08.  Judges the observations of the real Template.Run, one record per line of obs.ndjson:
     [id, ctx \in {"js_script", "js_file", "json_file", "json_script"}, desc, st, out, err]
   The verdict is ValueLit!Verdict: the whole output parses as exactly one value of the context's
   language (reference parser) and the denoted value is the data Abs(desc) - see ValueLit.tla. *)
EXTENDS ValueLit, TLC, Json

RecOk(r) == LET v == Verdict(r) IN v = "ok" \/ IsSkip(v)
\* the cause names the clause that failed and, for the deviations found in the tree, the reading under
\* which the output WOULD be right (so each root cause has its own signature); kind = the top-level Go kind
SigOf(r, v) == [fam |-> "valuelit", lang |-> Lang(r.ctx), cause |-> v, kind |-> r.desc.k]
Sig(r) == SigOf(r, Verdict(r))

\* diagnostic only (never a verdict): does the real output equal the transcription's output?
Drift(r, fix) == r.st = "ok" /\ r.out # Model(r.desc, Lang(r.ctx), fix)

(* ---- record walk (after the skeleton of spec/lib2/Trace_HTMLEscape.tla, in the variant of
        spec/escapers/Trace_Escapers.tla: one representative index per distinct signature, at most 400;
        counters go to diag.ndjson).  Each record is judged exactly once - in the constant Judged, because
        TLC caches LET-bound values while it evaluates a constant but re-evaluates them at every use inside
        an action, which makes the recursive-descent parsers several times slower there. ---- *)
VARIABLES l, nbad, reps, seen, tally, nda, ndf
Obs == ndJsonDeserialize("obs.ndjson")
JudgeRec(r) == [v |-> Verdict(r), da |-> Drift(r, FALSE), df |-> Drift(r, TRUE)]     \* fix = FALSE: tree at 55cee7b; TRUE: after the four fixes
Judged == Tup([x \in 1..Len(Obs) |-> JudgeRec(Obs[x])])
Init == l = 1 /\ nbad = 0 /\ reps = <<>> /\ seen = {} /\ tally = <<>> /\ nda = 0 /\ ndf = 0
Bump(tl, v) == IF \E x \in 1..Len(tl) : tl[x][1] = v
               THEN Tup([x \in 1..Len(tl) |-> IF tl[x][1] = v THEN <<v, tl[x][2] + 1>> ELSE tl[x]])
               ELSE Append(tl, <<v, 1>>)
Next == /\ l <= Len(Obs) /\ l' = l + 1
        /\ \E j \in {Judged[l]} :
           \E bad \in {~(j.v = "ok" \/ IsSkip(j.v))} :
           \E new \in {bad /\ Len(reps) < 400 /\ SigOf(Obs[l], j.v) \notin seen} :
              /\ nbad' = nbad + (IF bad THEN 1 ELSE 0)
              /\ tally' = Bump(tally, j.v)
              /\ reps' = IF new THEN Append(reps, <<l, j.v>>) ELSE reps
              /\ seen' = IF new THEN seen \cup {SigOf(Obs[l], j.v)} ELSE seen
              /\ nda' = nda + (IF j.da THEN 1 ELSE 0)
              /\ ndf' = ndf + (IF j.df THEN 1 ELSE 0)
Done == l = Len(Obs) + 1 =>
          /\ ndJsonSerialize("diag.ndjson", <<[records |-> Len(Obs), nbad |-> nbad, drift_asfound |-> nda, drift_fixed |-> ndf,
                                               tally |-> [x \in 1..Len(tally) |-> [verdict |-> tally[x][1], n |-> tally[x][2]]]]>>)
          /\ ndJsonSerialize("bad.ndjson",
               IF Len(reps) = 0 THEN <<>> ELSE
               [j \in 1..Len(reps) |-> [k |-> reps[j][1], id |-> Obs[reps[j][1]].id, sig |-> SigOf(Obs[reps[j][1]], reps[j][2]), nbad |-> nbad]])
Consumed == TLCGet("stats").diameter - 1 = Len(Obs)
=============================================================================

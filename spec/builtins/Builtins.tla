------------------------------ MODULE Builtins ------------------------------
(* C25.  "Each builtin function returns what its documentation states for every input."

   PART I   REFERENCE: one definition per builtin whose documented contract is structural, written over byte
            sequences (Text) and Go's rune decoding (Utf8); 64-bit integers are BigInt values read from their
            decimal text.  THE DOC COMMENT OF THE FUNCTION IS THE CONTRACT: each definition cites it.
   PART II  the outcome policy derived from the doc comments ("documented to return an error => never panics",
            "documented to panic on X => panics on X and only there", otherwise total) and Judge, the
            property-level predicate applied to an observation {fn, args, k, v}  (k = "ok" | "err" | "hostpanic").
   PART III implementation-shaped models (transcriptions of builtin.go, one step per loop iteration) of
            QueryEscape, Abbreviate, ToKebab, onlyJSONWhitespace and trimJSONSpace; MC_Builtins checks them
            against PART I.  They decide nothing about the real code.

   Text encodings shared with the driver:  string = sequence of bytes, []string = sequence of those,
   small int / bool = themselves, 64-bit int = its decimal text ("dec") as bytes. *)
EXTENDS Integers, Sequences, FiniteSets, Text, Utf8
BI == INSTANCE BigInt

(* ------------------------------------------------------------------------------------------ helpers *)
Dots == <<46, 46, 46>>
WS == {9, 10, 13, 32}                               \* JSON white space
MinOf(S) == CHOOSE x \in S : \A y \in S : x <= y
MaxOf(S) == CHOOSE x \in S : \A y \in S : y <= x
AllIn(s, set) == \A i \in 1..Len(s) : s[i] \in set
IsAscii(s) == \A i \in 1..Len(s) : s[i] < 128
IsLowerC(c) == c >= 97 /\ c <= 122
IsUpperC(c) == c >= 65 /\ c <= 90
UpC(c) == IF IsLowerC(c) THEN c - 32 ELSE c
AlnumC(c) == IsAlpha(c) \/ IsDigit(c)
RECURSIVE RTrimIdx(_, _, _)
RTrimIdx(s, set, j) == IF j >= 1 /\ s[j] \in set THEN RTrimIdx(s, set, j - 1) ELSE j
RECURSIVE LTrimIdx(_, _, _)
LTrimIdx(s, set, i) == IF i <= Len(s) /\ s[i] \in set THEN LTrimIdx(s, set, i + 1) ELSE i
RTrimBytes(s, set) == Sub(s, 1, RTrimIdx(s, set, Len(s)))
TrimBytes(s, set) == Sub(s, LTrimIdx(s, set, 1), RTrimIdx(s, set, Len(s)))
RECURSIVE PickFrom(_, _, _)
PickFrom(t, keep, i) == IF i > Len(t) THEN <<>> ELSE (IF keep[i] THEN <<t[i]>> ELSE <<>>) \o PickFrom(t, keep, i + 1)
RECURSIVE RepeatSeq(_, _)
RepeatSeq(x, n) == IF n <= 0 THEN <<>> ELSE x \o RepeatSeq(x, n - 1)
RECURSIVE LexLeFrom(_, _, _)
LexLeFrom(a, b, i) == IF i > Len(a) THEN TRUE ELSE IF i > Len(b) THEN FALSE
                      ELSE IF a[i] < b[i] THEN TRUE ELSE IF a[i] > b[i] THEN FALSE ELSE LexLeFrom(a, b, i + 1)
LexLe(a, b) == LexLeFrom(a, b, 1)
CountOf(x, l) == Cardinality({i \in 1..Len(l) : l[i] = x})
IsPerm(a, b) == Len(a) = Len(b) /\ \A i \in 1..Len(a) : CountOf(a[i], a) = CountOf(a[i], b)
ReverseOf(l) == [i \in 1..Len(l) |-> l[Len(l) + 1 - i]]

\* 64-bit integers from decimal text
IsDec(t) == LET b == IF Len(t) > 0 /\ t[1] = 45 THEN 2 ELSE 1 IN Len(t) >= b /\ \A i \in b..Len(t) : IsDigit(t[i])
DecToBig(t) == IF t[1] = 45 THEN BI!FromDigits(-1, [i \in 1..(Len(t) - 1) |-> t[i + 1] - 48])
               ELSE BI!FromDigits(1, [i \in 1..Len(t) |-> t[i] - 48])
MaxI64 == BI!Sub(BI!Pow2(63), BI!One)
MinI64 == BI!Neg(BI!Pow2(63))
InI64(x) == BI!Le(MinI64, x) /\ BI!Le(x, MaxI64)

(* ================================================================================ PART I  REFERENCE *)

(* ---- QueryEscape: "escapes the string, so it can be safely placed inside a URL query"; property statement:
        "output percent-decodes to its input using only unreserved characters and escapes".
        Unreserved = RFC 3986 2.3 (ALPHA DIGIT - . _ ~).  Which unreserved characters are escaped anyway
        (today '~') and the case of the hex digits are spellings, not clauses. ---- *)
Unreserved(c) == IsAlpha(c) \/ IsDigit(c) \/ c \in {45, 46, 95, 126}
RECURSIVE PctWellFormedFrom(_, _)
PctWellFormedFrom(t, i) ==
  IF i > Len(t) THEN TRUE
  ELSE IF t[i] = 37 THEN i + 2 <= Len(t) /\ IsHex(t[i + 1]) /\ IsHex(t[i + 2]) /\ PctWellFormedFrom(t, i + 3)
  ELSE Unreserved(t[i]) /\ PctWellFormedFrom(t, i + 1)
RECURSIVE PctDecodeFrom(_, _)
PctDecodeFrom(t, i) ==                                  \* on well-formed text
  IF i > Len(t) THEN <<>>
  ELSE IF t[i] = 37 THEN <<16 * HexVal(t[i + 1]) + HexVal(t[i + 2])>> \o PctDecodeFrom(t, i + 3)
  ELSE <<t[i]>> \o PctDecodeFrom(t, i + 1)
PercentDecode(t) == PctDecodeFrom(t, 1)
OkQueryEscape(s, out) == PctWellFormedFrom(out, 1) /\ PercentDecode(out) = s
\* a canonical escaper (used by MC_Builtins for the round-trip check of PercentDecode itself)
HexCh(v) == IF v < 10 THEN 48 + v ELSE 87 + v
RECURSIVE RefEscapeFrom(_, _)
RefEscapeFrom(s, i) == IF i > Len(s) THEN <<>>
                       ELSE (IF Unreserved(s[i]) THEN <<s[i]>> ELSE <<37, HexCh(s[i] \div 16), HexCh(s[i] % 16)>>) \o RefEscapeFrom(s, i + 1)
RefEscape(s) == RefEscapeFrom(s, 1)

(* ---- Abbreviate: "abbreviates s to almost n runes. If s is longer than n runes, the abbreviated string
        terminates with "..."".  Reading: "almost" = at most (property statement: "never exceeds the requested
        length"); the result is s without trailing white space, or a prefix of it followed by "...".  "s is
        longer than n" is read after trailing ASCII white space is dropped (the implementation's and the tests'
        reading: Abbreviate("a   ", 2) = "a").  For n < 3 the two sentences conflict (no room for "..."): the
        length bound wins and the empty string is what remains.  Where the prefix is cut (word boundary,
        dropped '.' or ',') is not documented and not judged. ---- *)
AbbrSpaces == {32, 10, 13, 9, 12}
OkAbbreviate(s, n, out) ==
  LET t == RTrimBytes(s, AbbrSpaces) IN
  /\ RuneCount(out) <= (IF n > 0 THEN n ELSE 0)
  /\ \/ out = t
     \/ n < 3 /\ out = <<>>
     \/ HasSuffix(out, Dots) /\ HasPrefix(t, Sub(out, 1, Len(out) - 3))
  /\ (RuneCount(t) > n /\ n >= 3) => HasSuffix(out, Dots)
\* Not stated by the doc comment, hence only a diagnostic (counted, never a verdict): a string that already fits
\* in n runes is returned unabbreviated (builtin_test.go expects this for n = len(s)).
AbbrFitsUnchanged(s, n, out) == LET t == RTrimBytes(s, AbbrSpaces) IN RuneCount(t) <= n => out = t

(* ---- JSON white space: MarshalJSONIndent "prefix and indent can only contain whitespace: ' ', '\t', '\n' and
        '\r'" - for every one of the 256 byte values. ---- *)
RefOnlyWS(s) == AllIn(s, WS)
\* TRUE for the bytes inside a string literal (quotes included)
RECURSIVE InStrFrom(_, _, _)
InStrFrom(t, i, st) ==                                  \* st: 0 outside, 1 inside, 2 inside after a backslash
  IF i > Len(t) THEN <<>>
  ELSE IF st = 0 THEN <<t[i] = 34>> \o InStrFrom(t, i + 1, IF t[i] = 34 THEN 1 ELSE 0)
  ELSE IF st = 2 THEN <<TRUE>> \o InStrFrom(t, i + 1, 1)
  ELSE <<TRUE>> \o InStrFrom(t, i + 1, IF t[i] = 92 THEN 2 ELSE IF t[i] = 34 THEN 0 ELSE 1)
\* the JSON text without insignificant white space
Compact(t) == LET f == InStrFrom(t, 1, 0) IN PickFrom(t, [i \in 1..Len(t) |-> f[i] \/ t[i] \notin WS], 1)
\* "Each JSON element in the output will begin on a new line beginning with prefix followed by one or more
\* copies of indent according to the indentation nesting": stated for prefix/indent of spaces and tabs (with a
\* line break inside prefix or indent "line" is ambiguous; then only Compact is compared).
Openers == {91, 123}
Closers == {93, 125}
RECURSIVE LineStructFrom(_, _, _, _, _, _)
LineStructFrom(t, f, prefix, indent, i, depth) ==       \* i: next byte; depth: open brackets so far
  IF i > Len(t) THEN TRUE
  ELSE IF f[i] THEN LineStructFrom(t, f, prefix, indent, i + 1, depth)
  ELSE IF t[i] = 10
       THEN \* start of a line: prefix, depth copies of indent (one fewer before a closing bracket), then a token
            LET j == LTrimIdx(t, {32, 9}, i + 1)
                d == IF j <= Len(t) /\ t[j] \in Closers THEN depth - 1 ELSE depth
                lead == prefix \o RepeatSeq(indent, d) IN
            /\ j <= Len(t)
            /\ Sub(t, i + 1, j - 1) = lead
            /\ LineStructFrom(t, f, prefix, indent, j, depth)
  ELSE IF t[i] \in Openers
       THEN /\ i < Len(t) /\ (t[i + 1] = 10 \/ t[i + 1] \in Closers)        \* first element on a new line
            /\ LineStructFrom(t, f, prefix, indent, i + 1, depth + 1)
  ELSE IF t[i] \in Closers THEN LineStructFrom(t, f, prefix, indent, i + 1, depth - 1)
  ELSE IF t[i] = 44 THEN i < Len(t) /\ t[i + 1] = 10 /\ LineStructFrom(t, f, prefix, indent, i + 1, depth)
  ELSE LineStructFrom(t, f, prefix, indent, i + 1, depth)
OkIndented(doc, prefix, indent, out) ==
  /\ Compact(out) = Compact(doc)
  /\ (AllIn(prefix, {32, 9}) /\ AllIn(indent, {32, 9})) => LineStructFrom(out, InStrFrom(out, 1, 0), prefix, indent, 1, 0)
\* the documents the reference knows to be valid / invalid JSON (anything else: undefined)
S2(a, b) == <<a, b>>
ValidDocs == { <<49>>, <<91, 49, 93>>, <<123, 34, 97, 34, 58, 91, 49, 44, 50, 93, 125>>, <<34, 97, 32, 98, 34>>,
               <<91, 93>>, <<123, 125>>, <<110, 117, 108, 108>>,
               <<91, 91, 49, 93, 44, 123, 34, 98, 34, 58, 34, 99, 34, 125, 93>> }
     \* 1  [1]  {"a":[1,2]}  "a b"  []  {}  null  [[1],{"b":"c"}]
InvalidDocs == { <<>>, <<91>>, <<49, 32, 50>>, <<123>>, <<110, 117, 108>>, <<255>>, <<91, 49, 44, 93>>, <<34, 97>>, <<93>>, <<123, 49, 125>> }
     \* (empty)  [  1 2  {  nul  \xff  [1,]  "a  ]  {1}
Unmarshalable == { <<99, 104, 97, 110>>, <<102, 117, 110, 99>> }         \* the driver's "chan" and "func" values

(* ---- Abs "returns the absolute value of x. As a special case, if x is the smallest negative integer, Abs
        returns x";  Max "the larger of x or y";  Min "the smaller of x or y" ---- *)
RefAbs(x) == IF x = MinI64 THEN x ELSE BI!Abs(x)
RefMax(x, y) == IF BI!Lt(x, y) THEN y ELSE x
RefMin(x, y) == IF BI!Lt(y, x) THEN y ELSE x

(* ---- search helpers over bytes: HasPrefix "s begins with prefix", HasSuffix "s ends with suffix", Index /
        LastIndex "index of the first / last instance of substr in s, or -1 ... refers to the bytes" ---- *)
RefIndex(s, p) == Find(s, p) - 1
RECURSIVE LastFindFrom(_, _, _)
LastFindFrom(s, p, i) == IF i < 1 THEN 0 ELSE IF HasPrefixAt(s, p, i) THEN i ELSE LastFindFrom(s, p, i - 1)
RefLastIndex(s, p) == LastFindFrom(s, p, Len(s) - Len(p) + 1) - 1
RefTrimPrefix(s, p) == IF HasPrefix(s, p) THEN From(s, Len(p) + 1) ELSE s
RefTrimSuffix(s, p) == IF HasSuffix(s, p) THEN Sub(s, 1, Len(s) - Len(p)) ELSE s

(* ---- helpers over "Unicode code points" (IndexAny, Trim, TrimLeft, TrimRight): a string is read as Go reads
        it, an invalid or short encoding being one code point U+FFFD of width 1 byte (RuneCount's doc comment
        says so explicitly) ---- *)
RuneSetOf(chars) == LET rs == Runes(chars) IN {rs[k] : k \in 1..Len(rs)}
RECURSIVE IndexAnyFrom(_, _, _)
IndexAnyFrom(s, set, i) == IF i > Len(s) THEN -1
                           ELSE LET d == DecodeRune(s, i) IN IF d[1] \in set THEN i - 1 ELSE IndexAnyFrom(s, set, i + d[2])
RefIndexAny(s, chars) == IndexAnyFrom(s, RuneSetOf(chars), 1)
RECURSIVE LTrimRunes(_, _, _)
LTrimRunes(s, set, i) == IF i > Len(s) THEN i
                         ELSE LET d == DecodeRune(s, i) IN IF d[1] \in set THEN LTrimRunes(s, set, i + d[2]) ELSE i
RECURSIVE BoundsFrom(_, _)                              \* <<rune, start, width>> of every code point
BoundsFrom(s, i) == IF i > Len(s) THEN <<>> ELSE LET d == DecodeRune(s, i) IN <<<<d[1], i, d[2]>>>> \o BoundsFrom(s, i + d[2])
RECURSIVE LastKept(_, _, _)
LastKept(bs, set, k) == IF k >= 1 /\ bs[k][1] \in set THEN LastKept(bs, set, k - 1) ELSE k
RTrimRunesEnd(s, set) == LET bs == BoundsFrom(s, 1) k == LastKept(bs, set, Len(bs)) IN IF k = 0 THEN 0 ELSE bs[k][2] + bs[k][3] - 1
RefTrimLeft(s, cutset) == From(s, LTrimRunes(s, RuneSetOf(cutset), 1))
RefTrimRight(s, cutset) == Sub(s, 1, RTrimRunesEnd(s, RuneSetOf(cutset)))
RefTrim(s, cutset) == RefTrimRight(RefTrimLeft(s, cutset), cutset)

(* ---- Replace "first n non-overlapping instances of old replaced by new. If n < 0, there is no limit";
        ReplaceAll.  An empty old (strings.Replace, which the builtin wraps: "matches at the beginning of the
        string and after each UTF-8 sequence") ---- *)
RECURSIVE ReplFrom(_, _, _, _, _)
ReplFrom(s, old, new, n, i) ==
  IF i > Len(s) THEN <<>>
  ELSE IF n # 0 /\ HasPrefixAt(s, old, i) THEN new \o ReplFrom(s, old, new, n - 1, i + Len(old))
  ELSE <<s[i]>> \o ReplFrom(s, old, new, n, i + 1)
RECURSIVE ReplEmptyFrom(_, _, _, _)
ReplEmptyFrom(s, new, n, i) ==
  IF n = 0 THEN From(s, i)
  ELSE IF i > Len(s) THEN new
  ELSE LET w == DecodeRune(s, i)[2] IN new \o Sub(s, i, i + w - 1) \o ReplEmptyFrom(s, new, n - 1, i + w)
RefReplace(s, old, new, n) == IF old = <<>> THEN ReplEmptyFrom(s, new, n, 1) ELSE ReplFrom(s, old, new, n, 1)

(* ---- Split / SplitN / SplitAfter / SplitAfterN: "substrings separated by sep"; "If sep is empty, Split splits
        after each UTF-8 sequence. If both s and sep are empty, Split returns an empty slice"; n > 0 "at most n
        substrings; the last substring will be the unsplit remainder", n == 0 "zero substrings", n < 0 all ---- *)
RECURSIVE SplitFrom(_, _, _, _, _)
SplitFrom(s, sep, save, n, i) ==
  LET j == FindFrom(s, sep, i) IN
  IF n = 1 \/ j = 0 THEN <<From(s, i)>>
  ELSE <<Sub(s, i, j - 1 + save)>> \o SplitFrom(s, sep, save, n - 1, j + Len(sep))
RECURSIVE ExplodeFrom(_, _, _)
ExplodeFrom(s, n, i) == IF i > Len(s) THEN <<>> ELSE IF n = 1 THEN <<From(s, i)>>
                        ELSE LET w == DecodeRune(s, i)[2] IN <<Sub(s, i, i + w - 1)>> \o ExplodeFrom(s, n - 1, i + w)
RefSplitGen(s, sep, after, n) == IF n = 0 THEN <<>> ELSE IF sep = <<>> THEN ExplodeFrom(s, n, 1)
                                 ELSE SplitFrom(s, sep, IF after THEN Len(sep) ELSE 0, n, 1)

(* ---- Join "The separator string sep is placed between elements" ---- *)
RECURSIVE JoinFrom(_, _, _)
JoinFrom(el, sep, i) == IF i > Len(el) THEN <<>> ELSE IF i = Len(el) THEN el[i] ELSE el[i] \o sep \o JoinFrom(el, sep, i + 1)
RefJoin(el, sep) == JoinFrom(el, sep, 1)

(* ---- Base64 "the base64 encoding of s" (RFC 4648 section 4, padded); Hex "the hexadecimal encoding of s"
        (the case of the digits is a spelling) ---- *)
B64Ch(v) == IF v < 26 THEN 65 + v ELSE IF v < 52 THEN 71 + v ELSE IF v < 62 THEN v - 4 ELSE IF v = 62 THEN 43 ELSE 47
RECURSIVE B64From(_, _)
B64From(s, i) ==
  LET r == Len(s) - i + 1 IN
  IF r <= 0 THEN <<>>
  ELSE IF r = 1 THEN <<B64Ch(s[i] \div 4), B64Ch((s[i] % 4) * 16), 61, 61>>
  ELSE IF r = 2 THEN <<B64Ch(s[i] \div 4), B64Ch((s[i] % 4) * 16 + s[i + 1] \div 16), B64Ch((s[i + 1] % 16) * 4), 61>>
  ELSE <<B64Ch(s[i] \div 4), B64Ch((s[i] % 4) * 16 + s[i + 1] \div 16),
         B64Ch((s[i + 1] % 16) * 4 + s[i + 2] \div 64), B64Ch(s[i + 2] % 64)>> \o B64From(s, i + 3)
RefBase64(s) == B64From(s, 1)
OkHex(s, out) == /\ Len(out) = 2 * Len(s)
                 /\ \A i \in 1..Len(s) : IsHex(out[2 * i - 1]) /\ IsHex(out[2 * i]) /\ 16 * HexVal(out[2 * i - 1]) + HexVal(out[2 * i]) = s[i]
\* checksums: only the documented form ("as a hexadecimal encoded string" / "as a base64 encoded string") - the
\* digest value itself is NOT covered
IsB64Ch(c) == AlnumC(c) \/ c \in {43, 47}
OkHexDigest(out, nbytes) == Len(out) = 2 * nbytes /\ AllIn(out, {c \in 0..255 : IsHex(c)})
OkB64Digest(out, nbytes) == LET n == 4 * ((nbytes + 2) \div 3) pad == (3 - (nbytes % 3)) % 3 IN
                            /\ Len(out) = n
                            /\ \A i \in 1..n : IF i > n - pad THEN out[i] = 61 ELSE IsB64Ch(out[i])

(* ---- case helpers on ASCII input (the Unicode tables are not modelled: non-ASCII input is undefined here).
        A separator is what is not a letter, digit or underscore (isSeparator, taken from strings.Title).
        Capitalize "the first non-separator in upper case"; CapitalizeAll "the first letter of each word in upper
        case" - a word is read as a maximal run of non-separators and its first character is mapped (so "_a" is
        unchanged, as the implementation intends); ToLower / ToUpper "all letters mapped". ---- *)
WordC(c) == AlnumC(c) \/ c = 95
RefToLower(s) == [i \in 1..Len(s) |-> ToLower(s[i])]
RefToUpper(s) == [i \in 1..Len(s) |-> UpC(s[i])]
RefCapitalize(s) == LET W == {i \in 1..Len(s) : WordC(s[i])} IN
                    IF W = {} THEN s ELSE [i \in 1..Len(s) |-> IF i = MinOf(W) THEN UpC(s[i]) ELSE s[i]]
\* Capitalize on any input, whatever the Unicode tables say: "a copy of the string s with the first non-separator in
\* upper case" changes at most one code point of s (read as Go reads it) and leaves every other byte in place.
CapitalizeShape(s, out) ==
  \/ out = s
  \/ LET bs == BoundsFrom(s, 1) IN
     \E k \in 1..Len(bs) :
        LET st == bs[k][2] w == bs[k][3] tail == Len(s) - (st + w - 1) IN
        /\ Len(out) > (st - 1) + tail
        /\ Sub(out, 1, st - 1) = Sub(s, 1, st - 1)
        /\ Sub(out, Len(out) - tail + 1, Len(out)) = From(s, st + w)
        /\ RuneCount(Sub(out, st, Len(out) - tail)) = 1
RefCapitalizeAll(s) == [i \in 1..Len(s) |-> IF i = 1 \/ ~WordC(s[i - 1]) THEN UpC(s[i]) ELSE s[i]]
(* ToKebab "a copy of the string s in kebab case form": lower-case words joined by single '-'.  Clauses:
   only lower-case letters, digits and '-'; no leading, trailing or doubled '-'; the letters and digits of s, in
   order, lower-cased; a '-' wherever s has other characters between two of them and at a lower-case to
   upper-case step ("aB" -> "a-b"); none inside a run of lower-case letters / digits.  Where else a run of
   capitals is cut ("AAbb" -> "a-abb") is the implementation's choice and not judged. *)
OkToKebab(s, out) ==
  LET A == SelectSeq([i \in 1..Len(s) |-> i], LAMBDA i : AlnumC(s[i]))        \* positions of letters/digits in s
      O == SelectSeq([i \in 1..Len(out) |-> i], LAMBDA i : out[i] # 45)       \* positions of non-dashes in out
  IN /\ \A i \in 1..Len(out) : IsLowerC(out[i]) \/ IsDigit(out[i]) \/ out[i] = 45
     /\ out # <<>> => out[1] # 45 /\ out[Len(out)] # 45
     /\ \A i \in 1..(Len(out) - 1) : ~(out[i] = 45 /\ out[i + 1] = 45)
     /\ Len(O) = Len(A)
     /\ \A k \in 1..Len(A) : out[O[k]] = ToLower(s[A[k]])
     /\ \A k \in 1..(Len(A) - 1) :
          LET dash == O[k + 1] - O[k] = 2
              adj == A[k + 1] = A[k] + 1
              x == s[A[k]] y == s[A[k + 1]] IN
          /\ (~adj \/ (IsLowerC(x) /\ IsUpperC(y))) => dash
          /\ (adj /\ (IsLowerC(x) \/ IsDigit(x)) /\ (IsLowerC(y) \/ IsDigit(y))) => ~dash

(* ---- ParseInt "interprets a string s in the given base, for 2 <= base <= 36 ... returns 0 and an error if s is
        empty, contains invalid digits or the value corresponding to s cannot be represented by an int value".
        int is 64 bits on the platform of the run (recorded as an assumption).  A leading sign is part of the
        syntax of the wrapped strconv.ParseInt. ---- *)
DigitVal(c) == IF IsDigit(c) THEN c - 48 ELSE IF IsLowerC(c) THEN c - 87 ELSE IF IsUpperC(c) THEN c - 55 ELSE 99
RECURSIVE BigOfDigitsFrom(_, _, _, _)
BigOfDigitsFrom(ds, base, i, acc) == IF i > Len(ds) THEN acc
                                     ELSE BigOfDigitsFrom(ds, base, i + 1, BI!Add(BI!MulSmall(acc, base), BI!FromInt(DigitVal(ds[i]))))
ParseIntBody(s) == IF Len(s) > 0 /\ s[1] \in {43, 45} THEN From(s, 2) ELSE s
ParseIntValid(s, base) == LET b == ParseIntBody(s) IN b # <<>> /\ \A i \in 1..Len(b) : DigitVal(b[i]) < base
ParseIntValue(s, base) == LET m == BigOfDigitsFrom(ParseIntBody(s), base, 1, BI!Zero) IN IF s[1] = 45 THEN BI!Neg(m) ELSE m

(* ---- FormatInt "the string representation of i in the given base, for 2 <= base <= 36. The result uses the
        lower-case letters 'a' to 'z' for digit values >= 10. It panics if base is not in the range." ---- *)
RECURSIVE BaseDigits(_, _)
BaseDigits(n, b) == IF n < b THEN <<HexCh(n)>> ELSE BaseDigits(n \div b, b) \o <<HexCh(n % b)>>     \* HexCh continues to 'z'
RefFormatInt(n, b) == IF n < 0 THEN <<45>> \o BaseDigits(-n, b) ELSE BaseDigits(n, b)

(* ---- ParseDuration "a possibly signed sequence of decimal numbers, each with optional fraction and a unit
        suffix ... Valid time units are ns, us (or micro-s), ms, s, m, h": decided for <digits><unit>; a string
        without any decimal digit is not a duration. ---- *)
BigE9 == BI!FromInt(1000000000)
UnitNs(u) == CASE u = <<110, 115>> -> BI!One
               [] u = <<117, 115>> -> BI!FromInt(1000)
               [] u = <<109, 115>> -> BI!FromInt(1000000)
               [] u = <<115>> -> BigE9
               [] u = <<109>> -> BI!MulSmall(BigE9, 60)
               [] u = <<104>> -> BI!MulSmall(BigE9, 3600)
Units == {<<110, 115>>, <<117, 115>>, <<109, 115>>, <<115>>, <<109>>, <<104>>}
DurDigitsEnd(s) == LTrimIdx(s, 48..57, 1) - 1                \* number of leading digits
SimpleDuration(s) == LET d == DurDigitsEnd(s) IN d >= 1 /\ d <= 6 /\ From(s, d + 1) \in Units
SimpleDurationValue(s) == LET d == DurDigitsEnd(s) IN BI!Mul(DecToBig(Sub(s, 1, d)), UnitNs(From(s, d + 1)))
HasDigit(s) == \E i \in 1..Len(s) : IsDigit(s[i])

(* ---- Date: "For UTC use "" or "UTC" as location"; in-range fields print as themselves ---- *)
Pad(n, w) == LET ds == BaseDigits(n, 10) IN RepeatSeq(<<48>>, w - Len(ds)) \o ds
PlainDate(f) == f[1] >= 1000 /\ f[1] <= 9999 /\ f[2] >= 1 /\ f[2] <= 12 /\ f[3] >= 1 /\ f[3] <= 28
                /\ f[4] >= 0 /\ f[4] <= 23 /\ f[5] >= 0 /\ f[5] <= 59 /\ f[6] >= 0 /\ f[6] <= 59 /\ f[7] = 0
Rfc3339(f) == Pad(f[1], 4) \o <<45>> \o Pad(f[2], 2) \o <<45>> \o Pad(f[3], 2) \o <<84>> \o Pad(f[4], 2) \o <<58>>
              \o Pad(f[5], 2) \o <<58>> \o Pad(f[6], 2) \o <<90>>

(* =================================================================== PART II  OUTCOME POLICY AND JUDGE *)
\* Documented to return an error: a panic is never an acceptable way to report a problem.
ErrFns == {"Date", "MarshalJSON", "MarshalJSONIndent", "MarshalYAML", "ParseDuration", "ParseFloat", "ParseInt",
           "ParseTime", "UnmarshalJSON", "UnmarshalYAML"}
\* Documented to panic on invalid input (FormatFloat "If the format or the precision is not valid, FormatFloat
\* panics"; FormatInt "It panics if base is not in the range"; IndentJSON "It panics if data is not valid JSON or
\* if prefix or indent contain characters other than ' ' or '\t'"; RegExp "It panics if the expression cannot be
\* parsed"; Reverse / Sort "If slice is not a slice, it panics"): a panic is exempt where the reference cannot
\* decide validity, demanded where the input is invalid, a violation where the input is valid.
DocPanicFns == {"FormatFloat", "FormatInt", "IndentJSON", "RegExp", "Regexp.Match", "Regexp.Find", "Regexp.Split", "Reverse", "Sort"}
\* Everything else has no error result and documents no panic: it is total.
KnownFns == ErrFns \cup DocPanicFns \cup
  {"Abbreviate", "Abs", "Max", "Min", "Base64", "Hex", "Md5", "Sha1", "Sha256", "HmacSHA1", "HmacSHA256", "Capitalize",
   "CapitalizeAll", "ToLower", "ToUpper", "ToKebab", "QueryEscape", "FormValueOfEscaped", "HasPrefix", "HasSuffix", "Index",
   "IndexAny", "LastIndex", "RuneCount", "Join", "Replace", "ReplaceAll", "Split", "SplitAfter", "SplitN", "SplitAfterN",
   "Trim", "TrimLeft", "TrimRight", "TrimPrefix", "TrimSuffix", "Sprintf", "Sprint"}

\* causes ("" = accepted)
Val(k, ok) == IF k = "hostpanic" THEN "hostpanic" ELSE IF k # "ok" THEN "unexpected-error" ELSE IF ok THEN "" ELSE "wrong-result"
MustErr(k) == IF k = "hostpanic" THEN "hostpanic" ELSE IF k = "err" THEN "" ELSE "error-not-reported"
MustPanic(k) == IF k = "hostpanic" THEN "" ELSE "documented-panic-missing"
NoPanic(k) == IF k = "hostpanic" THEN "hostpanic" ELSE ""
IsLiteralRe(e) == e # <<>> /\ \A i \in 1..Len(e) : AlnumC(e[i])
Targets == {"any", "int", "ints", "map", "nil", "nonptr", "nilptr"}
Nums(a, lo, hi) == [i \in lo..hi |-> BI!ToInt(DecToBig(a[i]))]
FitsAll(a, lo, hi) == \A i \in lo..hi : IsDec(a[i]) /\ BI!FitsNative(DecToBig(a[i]))

PartlyDecided == {"ToLower", "ToUpper", "CapitalizeAll", "ToKebab", "ParseInt", "ParseFloat", "ParseDuration",
                  "ParseTime", "Date", "MarshalJSON", "MarshalYAML", "MarshalJSONIndent", "IndentJSON", "UnmarshalJSON",
                  "UnmarshalYAML", "FormatInt", "FormatFloat", "RegExp", "Regexp.Match", "Regexp.Find", "Regexp.Split",
                  "Reverse", "Sort", "Sprintf"}
\* Does the reference decide the result (class and value) of this call?  If not, only the panic policy applies
\* and the record is counted as ref_undefined for its value.
Decided(fn, a) ==
  CASE fn \in {"ToLower", "ToUpper", "CapitalizeAll", "ToKebab"} -> IsAscii(a[1])
    [] fn = "ParseInt" -> a[2] >= 2 /\ a[2] <= 36
    [] fn = "ParseFloat" -> a[1] = <<>> \/ (Len(a[1]) <= 9 /\ AllIn(a[1], 48..57))
    [] fn = "ParseDuration" -> SimpleDuration(a[1]) \/ ~HasDigit(a[1])
    [] fn = "ParseTime" -> FALSE
    [] fn = "Date" -> a[8] \in {<<>>, <<85, 84, 67>>, <<76, 111, 99, 97, 108>>}
    [] fn = "MarshalJSON" -> a[1] \in ValidDocs \cup Unmarshalable
    [] fn = "MarshalYAML" -> FALSE
    [] fn = "MarshalJSONIndent" -> a[1] \in ValidDocs \cup Unmarshalable
    [] fn = "IndentJSON" -> \/ ~RefOnlyWS(a[2] \o a[3])
                            \/ TrimBytes(a[1], WS) \in InvalidDocs
                            \/ TrimBytes(a[1], WS) \in ValidDocs
    [] fn = "UnmarshalJSON" -> \/ a[2] \in {"nil", "nonptr"}
                               \/ (a[2] \in {"any", "nilptr"} /\ TrimBytes(a[1], WS) \in ValidDocs \cup InvalidDocs)
                               \/ (a[2] \in Targets /\ TrimBytes(a[1], WS) \in InvalidDocs)
    [] fn = "UnmarshalYAML" -> a[2] \in {"nil", "nonptr"}
    [] fn = "FormatInt" -> a[2] < 2 \/ a[2] > 36 \/ (IsDec(a[1]) /\ BI!FitsNative(DecToBig(a[1])))
    [] fn = "FormatFloat" -> TRUE
    [] fn = "RegExp" -> IsLiteralRe(a[1])
    [] fn \in {"Regexp.Match", "Regexp.Find", "Regexp.Split"} -> IsLiteralRe(a[1])
    [] fn \in {"Reverse", "Sort"} -> a[1] \in {"ints", "strs", "nil", "nonslice", "nonslice-str"}
    [] fn = "Sprintf" -> 37 \notin {a[1][i] : i \in 1..Len(a[1])} /\ a[2] = <<>>
    [] fn \in KnownFns \ PartlyDecided -> TRUE      \* (the checksums: form only)
    [] OTHER -> FALSE

JudgeDecided(fn, a, k, v) ==
  CASE fn = "QueryEscape" -> Val(k, OkQueryEscape(a[1], v))
    [] fn = "FormValueOfEscaped" -> Val(k, v = a[1])           \* "safely placed inside a URL query": read back unchanged
    [] fn = "Abbreviate" -> Val(k, OkAbbreviate(a[1], a[2], v))
    [] fn = "Abs" -> Val(k, IsDec(v) /\ DecToBig(v) = RefAbs(DecToBig(a[1])))
    [] fn = "Max" -> Val(k, IsDec(v) /\ DecToBig(v) = RefMax(DecToBig(a[1]), DecToBig(a[2])))
    [] fn = "Min" -> Val(k, IsDec(v) /\ DecToBig(v) = RefMin(DecToBig(a[1]), DecToBig(a[2])))
    [] fn = "Base64" -> Val(k, v = RefBase64(a[1]))
    [] fn = "Hex" -> Val(k, OkHex(a[1], v))
    [] fn = "Md5" -> Val(k, OkHexDigest(v, 16))
    [] fn = "Sha1" -> Val(k, OkHexDigest(v, 20))
    [] fn = "Sha256" -> Val(k, OkHexDigest(v, 32))
    [] fn = "HmacSHA1" -> Val(k, OkB64Digest(v, 20))
    [] fn = "HmacSHA256" -> Val(k, OkB64Digest(v, 32))
    [] fn = "Capitalize" -> Val(k, IF IsAscii(a[1]) THEN v = RefCapitalize(a[1]) ELSE CapitalizeShape(a[1], v))
    [] fn = "CapitalizeAll" -> Val(k, v = RefCapitalizeAll(a[1]))
    [] fn = "ToLower" -> Val(k, v = RefToLower(a[1]))
    [] fn = "ToUpper" -> Val(k, v = RefToUpper(a[1]))
    [] fn = "ToKebab" -> Val(k, OkToKebab(a[1], v))
    [] fn = "HasPrefix" -> Val(k, v = HasPrefix(a[1], a[2]))
    [] fn = "HasSuffix" -> Val(k, v = HasSuffix(a[1], a[2]))
    [] fn = "Index" -> Val(k, v = RefIndex(a[1], a[2]))
    [] fn = "LastIndex" -> Val(k, v = RefLastIndex(a[1], a[2]))
    [] fn = "IndexAny" -> Val(k, v = RefIndexAny(a[1], a[2]))
    [] fn = "RuneCount" -> Val(k, v = RuneCount(a[1]))
    [] fn = "Join" -> Val(k, v = RefJoin(a[1], a[2]))
    [] fn = "Replace" -> Val(k, v = RefReplace(a[1], a[2], a[3], a[4]))
    [] fn = "ReplaceAll" -> Val(k, v = RefReplace(a[1], a[2], a[3], -1))
    [] fn = "Split" -> Val(k, v = RefSplitGen(a[1], a[2], FALSE, -1))
    [] fn = "SplitAfter" -> Val(k, v = RefSplitGen(a[1], a[2], TRUE, -1))
    [] fn = "SplitN" -> Val(k, v = RefSplitGen(a[1], a[2], FALSE, a[3]))
    [] fn = "SplitAfterN" -> Val(k, v = RefSplitGen(a[1], a[2], TRUE, a[3]))
    [] fn = "Trim" -> Val(k, v = RefTrim(a[1], a[2]))
    [] fn = "TrimLeft" -> Val(k, v = RefTrimLeft(a[1], a[2]))
    [] fn = "TrimRight" -> Val(k, v = RefTrimRight(a[1], a[2]))
    [] fn = "TrimPrefix" -> Val(k, v = RefTrimPrefix(a[1], a[2]))
    [] fn = "TrimSuffix" -> Val(k, v = RefTrimSuffix(a[1], a[2]))
    [] fn = "Sprintf" -> Val(k, v = a[1])
    [] fn = "Sprint" -> Val(k, v = Flatten(a[1]))              \* "Spaces are added between operands when neither is a string"
    [] fn = "ParseInt" -> IF ParseIntValid(a[1], a[2]) /\ InI64(ParseIntValue(a[1], a[2]))
                          THEN Val(k, IsDec(v) /\ DecToBig(v) = ParseIntValue(a[1], a[2]))
                          ELSE MustErr(k)
    [] fn = "ParseFloat" -> IF a[1] = <<>> THEN MustErr(k) ELSE Val(k, IsDec(v) /\ DecToBig(v) = DecToBig(a[1]))
    [] fn = "ParseDuration" -> IF SimpleDuration(a[1]) THEN Val(k, IsDec(v) /\ DecToBig(v) = SimpleDurationValue(a[1]))
                               ELSE MustErr(k)
    [] fn = "Date" -> IF FitsAll(a, 1, 7) /\ PlainDate(Nums(a, 1, 7)) /\ a[8] # <<76, 111, 99, 97, 108>>
                      THEN Val(k, v = Rfc3339(Nums(a, 1, 7))) ELSE Val(k, TRUE)
    [] fn = "MarshalJSON" -> IF a[1] \in Unmarshalable THEN MustErr(k) ELSE Val(k, Compact(v) = a[1])
    [] fn = "MarshalJSONIndent" ->
         IF a[1] \in Unmarshalable \/ ~RefOnlyWS(a[2]) \/ ~RefOnlyWS(a[3]) THEN MustErr(k)
         ELSE Val(k, OkIndented(a[1], a[2], a[3], v))
    [] fn = "IndentJSON" ->
         IF ~RefOnlyWS(a[2] \o a[3]) \/ TrimBytes(a[1], WS) \in InvalidDocs THEN MustPanic(k)
         ELSE IF AllIn(a[2] \o a[3], {32, 9}) THEN Val(k, OkIndented(a[1], a[2], a[3], v))
         \* '\n' / '\r' in prefix or indent: IndentJSON's comment says it panics, MarshalJSONIndent's allows them
         \* and both share the check - either outcome is accepted
         ELSE IF k = "hostpanic" THEN "" ELSE Val(k, OkIndented(a[1], a[2], a[3], v))
    [] fn = "UnmarshalJSON" ->
         IF a[2] \in {"nil", "nonptr"} THEN MustErr(k)             \* "If v is nil or not a pointer, UnmarshalJSON returns an error"
         ELSE IF TrimBytes(a[1], WS) \in InvalidDocs THEN MustErr(k)
         ELSE IF a[2] = "nilptr" THEN NoPanic(k)
         ELSE Val(k, Compact(v) = Compact(a[1]))
    [] fn = "UnmarshalYAML" -> MustErr(k)
    [] fn = "FormatInt" -> IF a[2] < 2 \/ a[2] > 36 THEN MustPanic(k)
                           ELSE Val(k, v = RefFormatInt(BI!ToInt(DecToBig(a[1])), a[2]))
    [] fn = "FormatFloat" -> IF a[2] \notin {<<101>>, <<102>>, <<103>>} \/ a[3] < -1 \/ a[3] > 1000 THEN MustPanic(k)
                             ELSE Val(k, (a[2] = <<102>> /\ a[3] = 0) => v = RefFormatInt(a[1], 10))
    [] fn = "RegExp" -> Val(k, TRUE)
    \* Split: "When called on an expression that contains no metacharacters, it is equivalent to SplitN"
    [] fn = "Regexp.Match" -> Val(k, v = Contains(a[2], a[1]))
    [] fn = "Regexp.Find" -> Val(k, v = IF Contains(a[2], a[1]) THEN a[1] ELSE <<>>)
    [] fn = "Regexp.Split" -> Val(k, v = RefSplitGen(a[2], a[1], FALSE, a[3]))
    [] fn = "Reverse" -> IF a[1] \in {"nonslice", "nonslice-str"} THEN MustPanic(k)
                         ELSE IF a[1] = "nil" THEN Val(k, TRUE) ELSE Val(k, v = ReverseOf(a[2]))
    [] fn = "Sort" -> IF a[1] \in {"nonslice", "nonslice-str"} THEN MustPanic(k)
                      ELSE IF a[1] = "nil" THEN Val(k, TRUE)
                      ELSE Val(k, /\ IsPerm(v, a[2])
                                  \* "The less function reports whether slice[i] should be ordered before slice[j]";
                                  \* without one the order is "natural" and "can differ between versions": not judged
                                  /\ a[3] = "less" => \A i \in 1..(Len(v) - 1) :
                                                        IF a[1] = "ints" THEN v[i] <= v[i + 1] ELSE LexLe(v[i], v[i + 1]))

Judge(fn, a, k, v) ==
  IF k \notin {"ok", "err", "hostpanic"} THEN "driver-error"
  ELSE IF Decided(fn, a) THEN JudgeDecided(fn, a, k, v)
  ELSE IF fn \in DocPanicFns THEN ""
  ELSE IF fn \in KnownFns THEN NoPanic(k)
  ELSE ""

(* ====================================================== PART III  IMPLEMENTATION-SHAPED MODELS (builtin.go) *)
\* QueryEscape: first loop finds `last` (index after the last escaped byte) and numHex; second loop fills b up to
\* last; the tail is copied.
QSafe(c) == IsDigit(c) \/ IsAlpha(c) \/ c \in {45, 46, 95}
RECURSIVE QEFill(_, _, _, _)
QEFill(s, i, last, b) ==                               \* i 0-based as in the code
  IF i >= last THEN b
  ELSE LET c == s[i + 1] IN
       QEFill(s, i + 1, last, IF QSafe(c) THEN Append(b, c) ELSE b \o <<37, HexCh(c \div 16), HexCh(c % 16)>>)
QEImpl(s) ==
  LET esc == {i \in 1..Len(s) : ~QSafe(s[i])}
      numHex == Cardinality(esc)
      last == IF esc = {} THEN 0 ELSE MaxOf(esc)
  IN IF numHex = 0 THEN s
     ELSE LET b == QEFill(s, 0, last, <<>>) total == Len(s) + 2 * numHex IN
          IF Len(b) # total THEN b \o Sub(s, last + 1, last + (total - Len(b))) ELSE b     \* copy(b[j:], s[last:])

\* Abbreviate, statement by statement.  `for i := range s` visits the start offsets of the code points; the
\* `break` inside the switch leaves the switch only, so p ends as the number of code points.
RECURSIVE LastIdxIn(_, _, _)
LastIdxIn(s, set, j) == IF j < 1 THEN -1 ELSE IF s[j] \in set THEN j - 1 ELSE LastIdxIn(s, set, j - 1)     \* 0-based, -1 if none
AbbrImpl(s0, n) ==
  LET s == RTrimBytes(s0, AbbrSpaces) IN
  IF Len(s) <= n THEN s
  ELSE IF n < 3 THEN <<>>
  ELSE LET bs == BoundsFrom(s, 1)
           p == Len(bs)
           n2 == IF p > n - 2 THEN bs[n - 2 + 1][2] - 1 ELSE 0            \* offset of code point number n-2
       IN IF p < n THEN s
          ELSE LET q == LastIdxIn(s, AbbrSpaces, n2)                       \* strings.LastIndexAny(s[:n2], spaces)
                   t == IF q > 0 THEN RTrimBytes(Sub(s, 1, q), AbbrSpaces) ELSE <<>>
                   u == IF Len(t) >= 1 /\ t[Len(t)] \in {46, 44} THEN Sub(t, 1, Len(t) - 1) ELSE t
               IN u \o Dots

\* ToKebab on ASCII (one step per rune)
RECURSIVE KebabFrom(_, _, _, _)
KebabFrom(r, i, b, noDash) ==                           \* i 1-based
  IF i > Len(r) THEN b
  ELSE LET c == r[i] n == Len(r) IN
       IF IsLowerC(c) \/ IsDigit(c) THEN KebabFrom(r, i + 1, Append(b, c), TRUE)
       ELSE IF IsUpperC(c)
            THEN LET d == noDash /\ (IsLowerC(r[i - 1]) \/ (i + 1 <= n /\ IsLowerC(r[i + 1]))) IN
                 KebabFrom(r, i + 1, (IF d THEN Append(b, 45) ELSE b) \o <<ToLower(c)>>, TRUE)
       ELSE IF noDash /\ i + 1 <= n THEN KebabFrom(r, i + 1, Append(b, 45), FALSE)
       ELSE KebabFrom(r, i + 1, b, noDash)
KebabImpl(s) == LET b == KebabFrom(s, 1, <<>>, FALSE) IN IF Len(b) > 0 /\ b[Len(b)] = 45 THEN Sub(b, 1, Len(b) - 1) ELSE b

\* lookupJSONSpace [TableSize]uint8 and its two users.  An index outside the table is a run-time panic.
TableAt(size, b) == IF b >= size THEN "panic" ELSE IF b \in WS THEN "1" ELSE "0"
RECURSIVE OnlyWSImplFrom(_, _, _)
OnlyWSImplFrom(s, size, i) == IF i > Len(s) THEN "true"
                              ELSE LET x == TableAt(size, s[i]) IN
                                   IF x = "panic" THEN "panic" ELSE IF x = "0" THEN "false" ELSE OnlyWSImplFrom(s, size, i + 1)
OnlyWSImpl(s, size) == OnlyWSImplFrom(s, size, 1)
RECURSIVE TrimUp(_, _, _)                               \* 0 = panic (index out of the table or data[len(data)])
TrimUp(d, size, i) == IF i > Len(d) THEN 0
                      ELSE LET x == TableAt(size, d[i]) IN IF x = "panic" THEN 0 ELSE IF x = "1" THEN TrimUp(d, size, i + 1) ELSE i
RECURSIVE TrimDown(_, _, _)
TrimDown(d, size, j) == IF j < 1 THEN 0
                        ELSE LET x == TableAt(size, d[j]) IN IF x = "panic" THEN 0 ELSE IF x = "1" THEN TrimDown(d, size, j - 1) ELSE j
TrimJSONSpaceImpl(d, size) ==                           \* [panic, out]
  IF d = <<>> THEN [panic |-> FALSE, out |-> d]
  ELSE LET i == TrimUp(d, size, 1) IN
       IF i = 0 THEN [panic |-> TRUE, out |-> <<>>]
       ELSE LET j == TrimDown(d, size, Len(d)) IN
            IF j = 0 THEN [panic |-> TRUE, out |-> <<>>] ELSE [panic |-> FALSE, out |-> Sub(d, i, j)]
=============================================================================

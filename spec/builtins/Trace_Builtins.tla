--------------------------- MODULE Trace_Builtins ---------------------------
(* Judges observations of the real builtin functions: one record {id, fn, args, k, v, msg} per line of
   obs.ndjson (k = "ok" with the rendered result v, "err", or "hostpanic").  Judge (Builtins.tla, PART II) is the
   only source of verdicts.  A record whose value the reference does not decide is judged for the panic policy
   only and counted (ref_undefined). *)
EXTENDS Builtins, TLC, Json
CONSTANTS KeepPerSig

RecCause(r) == Judge(r.fn, r.args, r.k, r.v)
Undef(r) == ~Decided(r.fn, r.args)
\* not a clause of the doc comment: counted, never a verdict
Diag(r) == r.fn = "Abbreviate" /\ r.k = "ok" /\ ~AbbrFitsUnchanged(r.args[1], r.args[2], r.v)
\* diagnostic (model_drift): the real result differs from what the transcription of the algorithm computes
Drift(r) == r.k = "ok" /\ CASE r.fn = "QueryEscape" -> r.v # QEImpl(r.args[1])
                             [] r.fn = "Abbreviate" -> r.v # AbbrImpl(r.args[1], r.args[2])
                             [] r.fn = "ToKebab" -> IsAscii(r.args[1]) /\ r.v # KebabImpl(r.args[1])
                             [] OTHER -> FALSE
\* root cause: which function, which clause; for the shared white-space table the byte that indexes outside it
Detail(r, c) == IF c = "hostpanic" /\ r.fn = "MarshalJSONIndent" /\ (\E i \in 1..Len(r.args[2] \o r.args[3]) : (r.args[2] \o r.args[3])[i] = 255)
                THEN "byte-255-in-prefix-or-indent"
                ELSE IF r.fn = "Capitalize" /\ c \in {"hostpanic", "wrong-result"}
                THEN (IF ~Valid(r.args[1]) THEN "invalid-utf8-input" ELSE IF ~IsAscii(r.args[1]) THEN "non-ascii-input" ELSE "-")
                ELSE "-"
Sig(r, c) == [fam |-> "builtins", fn |-> r.fn, cause |-> c, detail |-> Detail(r, c)]

(* ---- record walk: the skeleton of spec/lib2/Trace_HTMLEscape.tla, keeping the first KeepPerSig records of EVERY
        distinct signature (bounded, so not quadratic), as spec/filesfs/Trace_FilesFS.tla does ---- *)
VARIABLES l, nbad, nskip, ndiag, ndrift, bad, cnt
Obs == ndJsonDeserialize("obs.ndjson")
Init == l = 1 /\ nbad = 0 /\ nskip = 0 /\ ndiag = 0 /\ ndrift = 0 /\ bad = <<>> /\ cnt = <<>>
Walk(r, c, sg, have) ==
  /\ nskip' = nskip + (IF Undef(r) THEN 1 ELSE 0)
  /\ ndiag' = ndiag + (IF Diag(r) THEN 1 ELSE 0)
  /\ ndrift' = ndrift + (IF Drift(r) THEN 1 ELSE 0)
  /\ nbad' = nbad + (IF c = "" THEN 0 ELSE 1)
  /\ cnt' = IF c = "" THEN cnt
            ELSE IF have = {} THEN Append(cnt, [sig |-> sg, count |-> 1])
            ELSE [j \in DOMAIN cnt |-> IF j \in have THEN [sig |-> sg, count |-> cnt[j].count + 1] ELSE cnt[j]]
  /\ bad' = IF c # "" /\ (have = {} \/ \A j \in have : cnt[j].count < KeepPerSig)
            THEN Append(bad, [k |-> l, id |-> r.id, sig |-> sg]) ELSE bad
WalkS(r, c, sg) == Walk(r, c, sg, {j \in DOMAIN cnt : cnt[j].sig = sg})
WalkC(r, c) == WalkS(r, c, Sig(r, c))
Next == l <= Len(Obs) /\ l' = l + 1 /\ WalkC(Obs[l], RecCause(Obs[l]))
Done == l = Len(Obs) + 1 =>
          /\ ndJsonSerialize("stats.ndjson", <<[n |-> Len(Obs), nbad |-> nbad, ref_undefined |-> nskip,
                                               abbreviate_fits_but_abbreviated |-> ndiag, model_drift |-> ndrift, sigs |-> cnt]>>)
          /\ ndJsonSerialize("bad.ndjson", bad)
Consumed == TLCGet("stats").diameter - 1 = Len(Obs)
=============================================================================

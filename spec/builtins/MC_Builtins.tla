---------------------------- MODULE MC_Builtins ----------------------------
(* Per-function input spaces over small alphabets (exhaustive to the stated lengths), exported as cases
   {id, fn, args} (Part = "export"); and the model check:  Part = "main"  the implementation-shaped models meet the reference on
   every case and the reference definitions are consistent with each other;  Part = "table"  the model of
   lookupJSONSpace [TableSize] and its two users against the white-space reference for every byte string of
   length <= TableLen over all 256 byte values (diagnostic). *)
EXTENDS Builtins, TLC, Json, SequencesExt
CONSTANTS Deep, Part, TableSize, TableLen

SQ(S) == SetToSeq(S)
\* (every space is empty unless this is the export run: TLC evaluates constant definitions eagerly in every run)
Ex == Part = "export"
Bytes(S, n) == IF Ex THEN SeqsUpTo(S, n) ELSE {}
Fn(k, S) == IF Ex THEN [1..k -> S] ELSE {}
Mk(fn, argsSeq) == [i \in 1..Len(argsSeq) |-> [fn |-> fn, args |-> argsSeq[i]]]
One(S) == SQ({<<s>> : s \in S})
Two(S, P) == SQ({<<s, p>> : s \in S, p \in P})
AllBytes1 == IF Ex THEN {<<b>> : b \in 0..255} ELSE {}
DecTextOf(x) == LET ds == BI!ToDigits(x) IN (IF x.s < 0 THEN <<45>> ELSE <<>>) \o [i \in 1..Len(ds) |-> 48 + ds[i]]

(* ---- QueryEscape ---- *)
QEAlpha == {97, 90, 48, 45, 46, 95, 126, 43, 32, 37, 38, 61, 0, 127, 128, 255, 47}
QEStrings == AllBytes1 \cup (IF Deep THEN Bytes(QEAlpha, 3) \cup Fn(2, 0..255) ELSE Bytes(QEAlpha, 2) \cup Fn(3, {97, 126, 43, 32, 37, 255}))
FVStrings == AllBytes1 \cup Bytes(QEAlpha, IF Deep THEN 3 ELSE 1)

(* ---- Abbreviate ---- *)
AbTok == {<<97>>, <<32>>, <<46>>, <<44>>, <<195, 169>>, <<226, 130, 172>>, <<255>>, <<10>>}
AbTok3 == {<<97>>, <<32>>, <<195, 169>>}
Flat(Q) == {Flatten(q) : q \in Q}
AbTok6 == {<<97>>, <<32>>, <<46>>, <<195, 169>>, <<226, 130, 172>>, <<255>>}
AbShort == Flat(Bytes(AbTok, 3)) \cup (IF Deep THEN Flat(Fn(4, AbTok6)) ELSE {})
AbLong == Flat(UNION {Fn(k, AbTok3) : k \in 4..(IF Deep THEN 6 ELSE 5)})
AbCases == SQ({<<s, n>> : s \in AbShort, n \in (IF Deep THEN {-1, 0, 2, 3, 4, 5, 7} ELSE {-1, 0, 2, 3, 4, 5, 6})})
           \o SQ({<<s, n>> : s \in AbLong, n \in 3..(IF Deep THEN 9 ELSE 6)})

(* ---- JSON white space ---- *)
D1 == <<49>>
DL == <<91, 49, 93>>
DM == <<123, 34, 97, 34, 58, 91, 49, 44, 50, 93, 125>>
Chan == <<99, 104, 97, 110>>
IB == {<<>>} \cup {<<b>> : b \in {9, 10, 13, 32, 0, 31, 33, 127, 128, 254, 255, 97}}
IB2 == {<<x, y>> : x, y \in {9, 10, 13, 32, 0, 31, 33, 127, 128, 254, 255, 97}}
WS2 == Bytes({32, 9}, 2)
MJICases ==
     SQ({<<d, p, <<>> >> : d \in (IF Deep THEN {D1, DL, DM} ELSE {DL}), p \in AllBytes1})
  \o SQ({<<d, <<>>, p>> : d \in (IF Deep THEN {D1, DL, DM} ELSE {DL}), p \in AllBytes1})
  \o SQ({<<d, p, q>> : d \in (IF Deep THEN {D1, DL, DM} ELSE {D1, DM}), p \in IB, q \in IB})
  \o SQ({<<DL, p, q>> : p \in IB2, q \in {<<>>, <<32>>}})
  \o SQ({<<DL, q, p>> : p \in IB2, q \in {<<>>, <<32>>}})
  \o SQ({<<d, p, q>> : d \in ValidDocs, p \in WS2, q \in WS2})
  \o SQ({<<d, p, q>> : d \in Unmarshalable, p \in {<<>>, <<32>>, <<255>>}, q \in {<<>>, <<9>>, <<97>>}})
  \o (IF Deep THEN SQ({<<D1, p, <<>> >> : p \in Fn(2, 0..255)}) ELSE <<>>)
Pads == {<<>>, <<32>>, <<10, 9>>}
PadPairs == IF Deep THEN Pads \X Pads ELSE {<<<<>>, <<>>>>, <<<<32>>, <<10, 9>>>>}
PIs == { <<<<>>, <<>>>>, <<<<32>>, <<9>>>>, <<<<9, 9>>, <<32, 32>>>>, <<<<10>>, <<>>>>, <<<<>>, <<13>>>>,
         <<<<97>>, <<>>>>, <<<<>>, <<255>>>>, <<<<0>>, <<>>>> }
IJCases ==
     SQ({<<w[1] \o d \o w[2], pi[1], pi[2]>> : d \in ValidDocs \cup InvalidDocs, w \in PadPairs, pi \in PIs})
  \o SQ({<<DL, p, <<>> >> : p \in AllBytes1}) \o SQ({<<DM, <<>>, p>> : p \in AllBytes1})
MJCases == One(ValidDocs \cup Unmarshalable)
JPunct == {91, 93, 123, 125, 34, 58, 44, 49, 45, 46, 101, 110, 116, 102, 32, 92, 0, 255}
YPunct == {45, 32, 58, 10, 91, 123, 38, 42, 33, 124, 62, 39, 34, 35, 37, 64, 96, 97, 9, 0, 255}
Padded == {w[1] \o d \o w[2] : d \in ValidDocs \cup InvalidDocs, w \in PadPairs}
UJData == AllBytes1 \cup Fn(2, JPunct) \cup Padded
UJCases == SQ({<<d, t>> : d \in (IF Deep THEN UJData ELSE Padded), t \in Targets})
           \o (IF Deep THEN SQ({<<d, "any">> : d \in Fn(3, JPunct)}) ELSE SQ({<<d, "any">> : d \in UJData}))
UYData == AllBytes1 \cup Fn(2, YPunct) \cup Padded
UYCases == SQ({<<d, t>> : d \in (IF Deep THEN UYData ELSE Padded), t \in {"any", "ints", "map", "nil", "nonptr"}})
           \o (IF Deep THEN SQ({<<d, "any">> : d \in Fn(3, {45, 32, 58, 10, 91, 123, 38, 42, 33, 124, 39, 255})}) ELSE SQ({<<d, "any">> : d \in UYData}))

(* ---- integers ---- *)
Ints == {BI!Zero, BI!One, BI!FromInt(-1), BI!FromInt(2), BI!FromInt(-2), BI!FromInt(22), MaxI64, BI!Sub(MaxI64, BI!One),
         MinI64, BI!Add(MinI64, BI!One), BI!Pow2(31), BI!Neg(BI!Pow2(31)), BI!Pow2(32)}
IntTexts == {DecTextOf(x) : x \in Ints}

(* ---- search helpers (bytes) and code-point helpers ---- *)
AB == {97, 98, 255}
SearchCases == Two(Bytes(AB, IF Deep THEN 4 ELSE 3), Bytes(AB, IF Deep THEN 3 ELSE 2))
RB == {97, 195, 169, 255}
RuneCases == IF Deep THEN Two(Bytes(RB, 4), Bytes(RB, 2)) ELSE Two(Bytes(RB, 3), Bytes(RB, 1)) \o Two(Bytes(RB, 2), Fn(2, RB))
Odd == {<<195, 169>>, <<97, 195, 169>>, <<255, 97>>, <<195>>}
ReplS == Bytes({97, 98}, IF Deep THEN 4 ELSE 3) \cup Odd
ReplCases == SQ({<<s, o, nw, n>> : s \in ReplS, o \in Bytes({97, 98}, 2), nw \in {<<>>, <<99>>, <<97, 98>>}, n \in {-1, 0, 1, 2, 3}})
ReplAllCases == SQ({<<s, o, nw>> : s \in ReplS, o \in Bytes({97, 98}, 2), nw \in {<<>>, <<99>>, <<97, 98>>}})
SplS == Bytes({97, 44}, IF Deep THEN 6 ELSE 4) \cup Odd
Seps == {<<>>, <<44>>, <<97, 44>>, <<44, 44>>}
SplCases == Two(SplS, Seps)
SplNCases == SQ({<<s, p, n>> : s \in SplS, p \in Seps, n \in {-1, 0, 1, 2, 3}})
Elems == {<<>>, <<97>>, <<98, 99>>}
JoinCases == Two(Bytes(Elems, 3), {<<>>, <<44>>, <<45, 45>>})
RC == {97, 195, 169, 226, 130, 172, 255, 240, 159, 152, 128}
RuneCountCases == One(Bytes(RC, 3) \cup (IF Deep THEN Fn(4, {97, 195, 169, 226, 130, 255}) ELSE {}))
IntLists == Bytes({1, 2, 3}, 4)
StrLists == Bytes(Elems, 3)
RevCases == SQ({<<"ints", l>> : l \in IntLists}) \o SQ({<<"strs", l>> : l \in StrLists})
            \o << <<"nil", <<>>>>, <<"nonslice", <<>>>>, <<"nonslice-str", <<>>>> >>
SortCases == SQ({<<"ints", l, m>> : l \in IntLists, m \in {"less", "nil"}}) \o SQ({<<"strs", l, m>> : l \in StrLists, m \in {"less", "nil"}})
             \o << <<"nil", <<>>, "nil">>, <<"nonslice", <<>>, "nil">>, <<"nonslice-str", <<>>, "less">> >>
EncCases == One(Bytes({0, 97, 255, 250}, IF Deep THEN 5 ELSE 4) \cup AllBytes1)

(* ---- case helpers (ASCII, boundaries of the letter ranges) ---- *)
CA == {97, 122, 65, 90, 53, 95, 32, 45, 64, 91, 96, 123}
CA8 == {97, 122, 65, 90, 53, 95, 32, 64}
CaseStrings == IF Deep THEN Bytes(CA, 3) \cup Bytes(CA8, 4) ELSE Bytes(CA8, 3) \cup Bytes(CA, 2)
CapTok == {<<196, 177>>, <<201, 144>>, <<195, 169>>, <<255>>, <<32>>, <<97>>}      \* dotless i, turned a, e-acute, an invalid byte
CapStrings == CaseStrings \cup Flat(Bytes(CapTok, 3))
KebabStrings == (IF Deep THEN Bytes(CA \ {96, 123}, 4) \cup Bytes(CA, 3) ELSE Bytes(CA, 3)) \cup UNION {Fn(k, {97, 66, 53, 45}) : k \in 4..(IF Deep THEN 6 ELSE 4)}

(* ---- parsers ---- *)
PI == {45, 43, 48, 49, 57, 97, 122, 95, 32}
Bases == {-1, 0, 1, 2, 10, 16, 36, 37}
Hex16(first) == <<first>> \o [i \in 1..15 |-> IF first = 55 THEN 102 ELSE 48]      \* 7fff... / 8000...
BigLits == { <<DecTextOf(MaxI64), 10>>, <<DecTextOf(BI!Add(MaxI64, BI!One)), 10>>, <<DecTextOf(MinI64), 10>>,
             <<DecTextOf(BI!Sub(MinI64, BI!One)), 10>>, <<Hex16(55), 16>>, <<Hex16(56), 16>>, <<<<45>> \o Hex16(56), 16>>,
             <<<<45>> \o Hex16(56), 17>>, <<[i \in 1..40 |-> 57], 10>>, <<[i \in 1..64 |-> 49], 2>>, <<[i \in 1..63 |-> 49], 2>> }
PICases == (IF Deep THEN Two(Bytes(PI, 3), Bases) ELSE Two(Bytes(PI, 2), Bases) \o Two(Fn(3, PI), {10, 16})) \o SQ(BigLits)
PFCases == One((IF Deep THEN Bytes({48, 49, 46, 101, 45, 120, 43, 95}, 4) ELSE {}) \cup Bytes({48, 49, 46, 101, 45, 120, 43, 78, 73, 95}, 3) \cup AllBytes1)
PDCases == One(Bytes({49, 48, 104, 109, 115, 110, 117, 46, 45}, IF Deep THEN 4 ELSE 3) \cup AllBytes1
               \cup {<<51, 48, 48, 109, 115>>, <<50, 104>>, <<57, 57, 57, 57, 57, 57, 104>>, <<49, 194, 181, 115>>})
Layouts == {<<>>, <<50, 48, 48, 54, 45, 48, 49, 45, 48, 50>>, <<255>>, <<77, 111, 110>>, <<50, 48, 48, 54>>}
PTCases == Two(Layouts, AllBytes1 \cup {<<>>, <<50, 48, 50, 49, 45, 48, 51, 45, 50, 55>>, <<50, 48, 50, 49>>})
Locs == {<<>>, <<85, 84, 67>>, <<76, 111, 99, 97, 108>>, <<255>>, <<46, 46, 47, 120>>, <<0>>,
         <<69, 117, 114, 111, 112, 101, 47, 82, 111, 109, 101>>, <<78, 111, 47, 88>>}
BaseDate == <<2021, 3, 27, 11, 21, 14, 0>>
OddVals == {BI!Zero, BI!FromInt(-1), BI!FromInt(13), MaxI64, MinI64, BI!FromInt(1000000)}
DateOf(f, loc) == [i \in 1..8 |-> IF i = 8 THEN loc ELSE f[i]]
DateFields == {[i \in 1..7 |-> DecTextOf(BI!FromInt(BaseDate[i]))]}
              \cup {[i \in 1..7 |-> IF i = k THEN DecTextOf(x) ELSE DecTextOf(BI!FromInt(BaseDate[i]))] : k \in 1..7, x \in OddVals}
              \cup {[i \in 1..7 |-> DecTextOf(BI!FromInt(<<y, m, d, 23, 59, 0, 0>>[i]))] : y \in {1000, 2021, 9999}, m \in {1, 12}, d \in {1, 28}}
DateCases == SQ({DateOf(f, loc) : f \in DateFields, loc \in Locs})
FICases == SQ({<<DecTextOf(x), b>> : x \in Ints \cup {BI!FromInt(35), BI!FromInt(36), BI!FromInt(255), BI!FromInt(-255)}, b \in Bases})
FFCases == SQ({<<f, fm, p>> : f \in {0, 1, -5, 100}, fm \in {<<101>>, <<102>>, <<103>>, <<>>, <<120>>, <<101, 102>>, <<69>>},
                              p \in {-2, -1, 0, 3, 1000, 1001}})
RePunct == {40, 41, 91, 93, 42, 43, 63, 92, 123, 125, 124, 94, 36, 46, 97, 255}
ReCases == One({<<97>>, <<97, 98>>} \cup AllBytes1 \cup Fn(2, RePunct))
Lits == {<<97>>, <<97, 98>>, <<98>>}
ReSCases == Two(Lits, Bytes(AB, IF Deep THEN 4 ELSE 3))
ReSplitCases == SQ({<<e, s, n>> : e \in Lits, s \in Bytes(AB, IF Deep THEN 4 ELSE 3), n \in {-1, 0, 1, 2}})
SpfCases == SQ({<<f, a>> : f \in AllBytes1 \cup {<<37, b>> : b \in 0..255} \cup Bytes({97, 32}, 2), a \in {<<>>, << <<120>> >>}})
SprintCases == One(StrLists)
HashIn == {<<>>, <<97>>, <<255, 0>>}

Arg1 == One(QEStrings)
Arg2 == One(FVStrings)
Arg3 == One(IntTexts)
Arg4 == Two(IntTexts, IntTexts)
Arg5 == Two(IntTexts, IntTexts)
Arg6 == One(CapStrings)
Arg7 == One(CaseStrings)
Arg8 == One(CaseStrings)
Arg9 == One(CaseStrings)
Arg10 == One(KebabStrings)
Arg11 == One(HashIn)
Arg12 == One(HashIn)
Arg13 == One(HashIn)
Arg14 == Two(HashIn, HashIn)
Arg15 == Two(HashIn, HashIn)
All ==
     Mk("QueryEscape", Arg1) \o Mk("FormValueOfEscaped", Arg2) \o Mk("Abbreviate", AbCases)
  \o Mk("MarshalJSONIndent", MJICases) \o Mk("IndentJSON", IJCases) \o Mk("MarshalJSON", MJCases) \o Mk("MarshalYAML", MJCases)
  \o Mk("UnmarshalJSON", UJCases) \o Mk("UnmarshalYAML", UYCases)
  \o Mk("Abs", Arg3) \o Mk("Max", Arg4) \o Mk("Min", Arg5)
  \o Mk("HasPrefix", SearchCases) \o Mk("HasSuffix", SearchCases) \o Mk("Index", SearchCases) \o Mk("LastIndex", SearchCases)
  \o Mk("TrimPrefix", SearchCases) \o Mk("TrimSuffix", SearchCases)
  \o Mk("IndexAny", RuneCases) \o Mk("Trim", RuneCases) \o Mk("TrimLeft", RuneCases) \o Mk("TrimRight", RuneCases)
  \o Mk("Replace", ReplCases) \o Mk("ReplaceAll", ReplAllCases)
  \o Mk("Split", SplCases) \o Mk("SplitAfter", SplCases) \o Mk("SplitN", SplNCases) \o Mk("SplitAfterN", SplNCases)
  \o Mk("Join", JoinCases) \o Mk("RuneCount", RuneCountCases) \o Mk("Reverse", RevCases) \o Mk("Sort", SortCases)
  \o Mk("Base64", EncCases) \o Mk("Hex", EncCases)
  \o Mk("Capitalize", Arg6) \o Mk("CapitalizeAll", Arg7) \o Mk("ToLower", Arg8)
  \o Mk("ToUpper", Arg9) \o Mk("ToKebab", Arg10)
  \o Mk("ParseInt", PICases) \o Mk("ParseFloat", PFCases) \o Mk("ParseDuration", PDCases) \o Mk("ParseTime", PTCases)
  \o Mk("Date", DateCases) \o Mk("FormatInt", FICases) \o Mk("FormatFloat", FFCases)
  \o Mk("RegExp", ReCases) \o Mk("Regexp.Match", ReSCases) \o Mk("Regexp.Find", ReSCases) \o Mk("Regexp.Split", ReSplitCases)
  \o Mk("Sprintf", SpfCases) \o Mk("Sprint", SprintCases)
  \o Mk("Md5", Arg11) \o Mk("Sha1", Arg12) \o Mk("Sha256", Arg13)
  \o Mk("HmacSHA1", Arg14) \o Mk("HmacSHA256", Arg15)
Cases == LET A == All IN [i \in 1..Len(A) |-> [id |-> i, fn |-> A[i].fn, args |-> A[i].args]]
\* Two TLC runs: Part = "export" writes the cases; Part = "main" reads them back.  (TLC caches a zero-argument
\* constant definition only if it does not depend on a RECURSIVE operator - Cases does, CasesIn does not - and an
\* uncached Cases would be rebuilt for every state.)
ASSUME Part = "export" => ndJsonSerialize("cases.ndjson", Cases)
CasesIn == ndJsonDeserialize("cases.ndjson")

TableStrings == SQ(SeqsUpTo(0..255, TableLen) \X {TableSize, 256})          \* the table as written and the proposed [256]
Items == IF Part = "main" THEN CasesIn
         ELSE IF Part = "table" THEN [i \in 1..Len(TableStrings) |-> [id |-> i, fn |-> "table", args |-> TableStrings[i]]]
         ELSE <<>>
N == Len(Items)

(* ---- the walk: a root, NB blocks, the items of each block (so that all workers are used) ---- *)
NB == 64
VARIABLES b, c
Init == b = 0 /\ c = 0
\* (only the cases of functions for which ImplMeetsRef / RefConsistent say something become states)
McFns == {"table", "QueryEscape", "Abbreviate", "ToKebab", "Split", "SplitN", "Replace", "Trim", "Index", "IndexAny", "Base64",
          "Max", "Abs", "FormatInt", "ToLower", "Capitalize"}
Next == \/ b = 0 /\ c = 0 /\ b' \in 1..NB /\ c' = 0
        \/ b > 0 /\ c = 0 /\ b' = b /\ b <= N /\ c' \in {i \in {b + NB * j : j \in 0..((N - b) \div NB)} : Items[i].fn \in McFns}

(* ---- Part = "main" ---- *)
ImplMeetsRef == (c > 0 /\ Part = "main") =>
  LET r == Items[c] a == r.args IN
  CASE r.fn = "QueryEscape" -> OkQueryEscape(a[1], QEImpl(a[1]))
    [] r.fn = "Abbreviate" -> OkAbbreviate(a[1], a[2], AbbrImpl(a[1], a[2]))
    [] r.fn = "ToKebab" -> OkToKebab(a[1], KebabImpl(a[1]))
    [] OTHER -> TRUE
RefConsistent == (c > 0 /\ Part = "main") =>
  LET r == Items[c] a == r.args IN
  CASE r.fn = "QueryEscape" -> PercentDecode(RefEscape(a[1])) = a[1] /\ OkQueryEscape(a[1], RefEscape(a[1]))
    [] r.fn = "Split" -> /\ a[2] # <<>> => RefJoin(RefSplitGen(a[1], a[2], FALSE, -1), a[2]) = a[1]
                         /\ Flatten(RefSplitGen(a[1], a[2], TRUE, -1)) = a[1]
    [] r.fn = "SplitN" -> LET x == RefSplitGen(a[1], a[2], FALSE, a[3]) y == RefSplitGen(a[1], a[2], TRUE, a[3]) IN
                          /\ a[3] > 0 => Len(x) <= a[3] /\ Len(y) <= a[3]
                          /\ Len(x) = Len(y)
                          /\ (a[3] # 0 /\ a[2] # <<>>) => RefJoin(x, a[2]) = a[1]
                          /\ a[3] # 0 => Flatten(y) = a[1]
    [] r.fn = "Replace" -> /\ RefReplace(a[1], a[2], a[2], a[4]) = a[1]
                           /\ RefReplace(a[1], a[2], a[3], 0) = a[1]
                           /\ (a[2] # <<>> /\ a[4] < 0) => RefReplace(a[1], a[2], a[3], a[4]) = RefJoin(RefSplitGen(a[1], a[2], FALSE, -1), a[3])
    [] r.fn = "Trim" -> RefTrim(a[1], a[2]) = RefTrimLeft(RefTrimRight(a[1], a[2]), a[2])
    [] r.fn = "Index" -> /\ (RefIndex(a[1], a[2]) = -1) = (RefLastIndex(a[1], a[2]) = -1)
                         /\ RefIndex(a[1], a[2]) <= RefLastIndex(a[1], a[2])
                         /\ HasPrefix(a[1], a[2]) = (RefIndex(a[1], a[2]) = 0)
                         /\ HasSuffix(a[1], a[2]) = (Len(a[2]) <= Len(a[1]) /\ RefLastIndex(a[1], a[2]) = Len(a[1]) - Len(a[2]))
    [] r.fn = "IndexAny" -> (RefIndexAny(a[1], a[2]) = 0) = (a[1] # <<>> /\ RefTrimLeft(a[1], a[2]) # a[1])
    [] r.fn = "Base64" -> OkB64Digest(RefBase64(a[1]), Len(a[1]))
    [] r.fn = "Max" -> LET x == DecToBig(a[1]) y == DecToBig(a[2]) IN
                       /\ RefMax(x, y) \in {x, y} /\ RefMin(x, y) \in {x, y}
                       /\ BI!Add(RefMax(x, y), RefMin(x, y)) = BI!Add(x, y)
                       /\ BI!Le(RefMin(x, y), RefMax(x, y))
    [] r.fn = "Abs" -> LET x == DecToBig(a[1]) IN RefAbs(x) = x \/ RefAbs(x) = BI!Neg(x)
    [] r.fn = "FormatInt" -> (a[2] >= 2 /\ a[2] <= 36 /\ BI!FitsNative(DecToBig(a[1]))) =>
                               LET t == RefFormatInt(BI!ToInt(DecToBig(a[1])), a[2]) IN
                               ParseIntValid(t, a[2]) /\ ParseIntValue(t, a[2]) = DecToBig(a[1])
    [] r.fn = "ToLower" -> RefToUpper(RefToLower(a[1])) = RefToUpper(a[1]) /\ RefToLower(RefCapitalizeAll(a[1])) = RefToLower(a[1])
    [] r.fn = "Capitalize" -> RefCapitalize(RefCapitalize(a[1])) = RefCapitalize(a[1])
    [] OTHER -> TRUE

(* ---- Part = "table" (diagnostic) ---- *)
TableOnlyWS == (c > 0 /\ Part = "table") =>
  LET s == Items[c].args[1] size == Items[c].args[2] IN
  \/ OnlyWSImpl(s, size) = (IF RefOnlyWS(s) THEN "true" ELSE "false")
  \/ (PrintT(<<"onlyJSONWhitespace model", size, s, OnlyWSImpl(s, size)>>) /\ FALSE)
\* trimJSONSpace is called on the data of IndentJSON before validation: it must return the trimmed text
TableTrim == (c > 0 /\ Part = "table") =>
  LET s == Items[c].args[1] size == Items[c].args[2] r == TrimJSONSpaceImpl(s, size) IN
  \/ (~r.panic /\ r.out = TrimBytes(s, WS))
  \/ (PrintT(<<"trimJSONSpace model", size, s, r>>) /\ FALSE)
=============================================================================

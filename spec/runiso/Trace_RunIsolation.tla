-------------------------- MODULE Trace_RunIsolation --------------------------
(* Validates logs of real concurrent / repeated runs of ONE compiled artefact against
   RunIsolation.tla.  obs.ndjson, one event per line, traces separated by "reset":
     reset  {t, kind, runs, calls}        kind "sched": gate events forced in a TLC-exported order;
                                          "free": unconstrained concurrent runs; "hist": sequential runs
     gate   {t, run, g, ptr, go}          g = "native-call" (go = 1: started with a go statement) | "args-get" | "args-put"; ptr = small id of the
                                          argument slice (by address, numbered in order of first appearance)
     host   {t, run, seen, async}         the host function executed (async = 1: in the goroutine of a go call) for run `run` (from its context) and
                                          saw arguments belonging to run `seen`
     result {t, run, same, outcome}       the run's output+error+prints equal (same) those of a single run
                                          of a FRESHLY BUILT copy with the same inputs; outcome ok|hostpanic|gate-timeout
     ptrvar {t, ok}                       caller-visible effect on pointer vs value variables as documented
   Gate events are logged inside the hold interval of the slice (args-get after Pool.Get returned,
   args-put before Pool.Put), so overlapping holds in the log are overlapping holds in reality. *)
EXTENDS RunIsolation, Json
Trace == ndJsonDeserialize("obs.ndjson")
VARIABLES l, bad, cur, rejected, isgo      \* isgo[r]: the native call r has entered was started with `go`
Ev == Trace[l]
IsEvent(e) == l <= Len(Trace) /\ Ev.ev = e /\ l' = l + 1
TInit == /\ l = 1 /\ bad = <<>> /\ cur = [t |-> 0, kind |-> "", runs |-> 0] /\ rejected = FALSE
         /\ pc = <<>> /\ ncall = <<>> /\ held = <<>> /\ free = {} /\ nslices = 0 /\ content = <<>> /\ out = <<>> /\ hist = <<>>
         /\ detached = {} /\ isgo = <<>>
TReset == /\ IsEvent("reset") /\ cur' = [t |-> Ev.t, kind |-> Ev.kind, runs |-> Ev.runs] /\ rejected' = FALSE
          /\ pc' = [r \in 1..Ev.runs |-> "enter"] /\ ncall' = [r \in 1..Ev.runs |-> 0] /\ held' = [r \in 1..Ev.runs |-> 0]
          /\ free' = {} /\ nslices' = 0 /\ content' = <<>> /\ out' = [r \in 1..Ev.runs |-> <<>>] /\ hist' = <<>>
          /\ detached' = {} /\ isgo' = [r \in 1..Ev.runs |-> FALSE]
          /\ UNCHANGED bad
\* spec actions with the logged fields bound; Calls is not bounded in a trace (guard on ncall dropped)
TEnter == /\ IsEvent("gate") /\ Ev.g = "native-call" /\ pc[Ev.run] = "enter"
          /\ pc' = [pc EXCEPT ![Ev.run] = "get"] /\ hist' = Append(hist, Ev.run)
          /\ isgo' = [isgo EXCEPT ![Ev.run] = (Ev.go = 1)]
          /\ UNCHANGED <<ncall, held, free, nslices, content, out, detached, bad, cur, rejected>>
\* functions without parameters take no slice: a call may also complete without get/put
TEnterNoArgs == /\ IsEvent("gate") /\ Ev.g = "native-call" /\ pc[Ev.run] = "get"
                /\ hist' = Append(hist, Ev.run) /\ UNCHANGED <<pc, ncall, held, free, nslices, content, out, detached, isgo, bad, cur, rejected>>
TGet == /\ IsEvent("gate") /\ Ev.g = "args-get" /\ ~isgo[Ev.run] /\ GetFill(Ev.run, Ev.ptr) /\ UNCHANGED <<isgo, bad, cur, rejected>>
\* a call started with `go`: the two spec actions GetFill and GoCall composed (the VM goes on at once)
TGetGo == /\ IsEvent("gate") /\ Ev.g = "args-get" /\ isgo[Ev.run] /\ pc[Ev.run] = "get"
          /\ \/ Ev.ptr \in free /\ free' = free \ {Ev.ptr} /\ UNCHANGED nslices /\ content' = [content EXCEPT ![Ev.ptr] = Ev.run]
             \/ Ev.ptr = nslices + 1 /\ nslices' = Ev.ptr /\ UNCHANGED free /\ content' = Append(content, Ev.run)
          /\ detached' = detached \cup {Ev.ptr}
          /\ pc' = [pc EXCEPT ![Ev.run] = "enter"] /\ ncall' = [ncall EXCEPT ![Ev.run] = @ + 1]
          /\ hist' = Append(hist, Ev.run) /\ UNCHANGED <<held, out, isgo, bad, cur, rejected>>
\* sync.Pool may drop a slice (GC) - then a later Get returns a fresh one; it may never hand out a slice that is held
TPut == /\ IsEvent("gate") /\ Ev.g = "args-put" /\ held[Ev.run] = Ev.ptr /\ pc[Ev.run] \in {"call", "put"}
        /\ free' = free \cup {Ev.ptr}
        /\ pc' = [pc EXCEPT ![Ev.run] = "enter"] /\ ncall' = [ncall EXCEPT ![Ev.run] = @ + 1] /\ held' = [held EXCEPT ![Ev.run] = 0]
        /\ hist' = Append(hist, Ev.run) /\ UNCHANGED <<nslices, content, out, detached, isgo, bad, cur, rejected>>
\* the host function ran for Ev.run: it must have seen that run's own arguments (Isolation)
\* (every host function of the replayed artefacts takes arguments, so it runs while its run holds a slice)
THost == /\ IsEvent("host") /\ Ev.async = 0 /\ Ev.seen = Ev.run /\ pc[Ev.run] = "call" /\ held[Ev.run] # 0
         /\ pc' = [pc EXCEPT ![Ev.run] = "put"]
         /\ out' = [out EXCEPT ![Ev.run] = Append(@, Ev.seen)]
         /\ UNCHANGED <<ncall, held, free, nslices, content, detached, hist, isgo, bad, cur, rejected>>
\* the host function of a `go` call ran: it saw the arguments of the run that started it (HostAsync)
THostAsync == /\ IsEvent("host") /\ Ev.async = 1 /\ Ev.seen = Ev.run
              /\ \E s \in detached : content[s] = Ev.run /\ HostAsync(s)
              /\ UNCHANGED <<isgo, bad, cur, rejected>>
TResult == /\ IsEvent("result") /\ Ev.same /\ Ev.outcome = "ok"
           /\ UNCHANGED <<vars, isgo, bad, cur, rejected>>
TSkipped == /\ IsEvent("result") /\ Ev.outcome = "gate-timeout"        \* machinery could not force the schedule: not judged
            /\ UNCHANGED <<vars, isgo, bad, cur, rejected>>
TPtrVar == /\ IsEvent("ptrvar") /\ Ev.ok /\ UNCHANGED <<vars, isgo, bad, cur, rejected>>
Explained == ENABLED TReset \/ ENABLED TEnter \/ ENABLED TEnterNoArgs \/ ENABLED TGet \/ ENABLED TGetGo \/ ENABLED TPut \/ ENABLED THost \/ ENABLED THostAsync
             \/ ENABLED TResult \/ ENABLED TSkipped \/ ENABLED TPtrVar
Skip == /\ l <= Len(Trace) /\ ~Explained /\ l' = l + 1
        /\ bad' = IF rejected \/ Len(bad) >= 300 THEN bad
                  ELSE Append(bad, [k |-> l, id |-> cur.t,
                                    sig |-> [fam |-> "runiso", kind |-> cur.kind, at |-> Ev.ev,
                                             what |-> IF Ev.ev = "gate" THEN Ev.g ELSE IF Ev.ev = "result" THEN Ev.outcome ELSE "-"]])
        /\ rejected' = TRUE /\ UNCHANGED <<vars, isgo, cur>>
TNext == TReset \/ TEnter \/ TEnterNoArgs \/ TGet \/ TGetGo \/ TPut \/ THost \/ THostAsync \/ TResult \/ TSkipped \/ TPtrVar \/ Skip
Done == l = Len(Trace) + 1 => ndJsonSerialize("bad.ndjson", bad)
Consumed == TLCGet("stats").diameter - 1 = Len(Trace)
TraceInv == Exclusive /\ NoHeldInPool /\ Isolation /\ DetachedNotPooled
=============================================================================

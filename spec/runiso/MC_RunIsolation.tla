--------------------------- MODULE MC_RunIsolation ---------------------------
EXTENDS RunIsolation, Json, SequencesExt
\* schedules for replay: every interleaving of the runs' gate events (3 per native call: enter,
\* get, put), as the order of run ids
PerRun == 3 * Calls
Count(s, r) == Cardinality({k \in DOMAIN s : s[k] = r})
Schedules == {s \in [1..(Runs * PerRun) -> R] : \A r \in R : Count(s, r) = PerRun}
Cases == LET S == SetToSeq(Schedules) IN [k \in 1..Len(S) |-> [id |-> k, runs |-> Runs, calls |-> Calls, sched |-> S[k]]]
ASSUME ndJsonSerialize("cases.ndjson", Cases)
\* the schedule the model took is one of the exported ones
\* (a call started with `go` has no put event: its schedule is a prefix-compatible sub-sequence; checked for runs without go)
HistIsSchedule == (AllDone /\ Len(hist) = Runs * PerRun) => hist \in Schedules
=============================================================================

---------------------------- MODULE RunIsolation ----------------------------
(* C10.  One compiled artefact (constants, functions, the native functions' argument pools) is
   shared by several runs, each with its own VM and its own inputs.  For every native call a run
   (1) enters callNative, (2) takes an argument slice from the function's sync.Pool and fills it
   with ITS arguments, (3) calls the host function, which reads the slice, (4) returns the slice
   to the pool.  sync.Pool.Get may return any slice previously Put, or a fresh one.
   TLC explores all interleavings of Runs runs making Calls calls each.
   PutBeforeCall = TRUE is the sensitivity variant (slice returned to the pool before the host
   function has read it): NoSharedArgs and Isolation must fail. *)
EXTENDS Integers, Sequences, FiniteSets, TLC
CONSTANTS Runs, Calls, PutBeforeCall,
          PutAfterGo     \* sensitivity variant: the slice of a call started with `go` is returned to the pool at once
VARIABLES pc,        \* per run: "enter" | "get" | "call" | "put" | "done"
          ncall,     \* per run: calls completed
          held,      \* per run: slice id it holds (0: none)
          free,      \* slices in the pool
          nslices,   \* slices ever created
          content,   \* per slice: run whose arguments it currently contains (0: none)
          out,       \* per run: sequence of values the host function computed for it (the run id it saw)
          detached,  \* slices handed to a host function started with `go` (never returned to the pool)
          hist       \* order of the gate events (run ids): the schedule, exported for replay
vars == <<pc, ncall, held, free, nslices, content, out, detached, hist>>
R == 1..Runs
Init == /\ pc = [r \in R |-> "enter"] /\ ncall = [r \in R |-> 0] /\ held = [r \in R |-> 0]
        /\ free = {} /\ nslices = 0 /\ content = <<>> /\ out = [r \in R |-> <<>>] /\ detached = {} /\ hist = <<>>
Enter(r) == /\ pc[r] = "enter" /\ ncall[r] < Calls
            /\ pc' = [pc EXCEPT ![r] = "get"] /\ hist' = Append(hist, r)
            /\ UNCHANGED <<ncall, held, free, nslices, content, out, detached>>
\* args = fn.argsPool.Get(); fill with the run's own arguments
GetFill(r, s) == /\ pc[r] = "get"
                 /\ \/ s \in free /\ free' = free \ {s} /\ UNCHANGED nslices /\ content' = [content EXCEPT ![s] = r]
                    \/ s = nslices + 1 /\ nslices' = s /\ UNCHANGED free /\ content' = Append(content, r)
                 /\ held' = [held EXCEPT ![r] = s]
                 /\ pc' = [pc EXCEPT ![r] = IF PutBeforeCall THEN "put" ELSE "call"]
                 /\ hist' = Append(hist, r) /\ UNCHANGED <<ncall, out, detached>>
\* the host function reads the slice
Call(r) == /\ pc[r] = "call"
           /\ out' = [out EXCEPT ![r] = Append(@, content[held[r]])]
           /\ pc' = [pc EXCEPT ![r] = IF PutBeforeCall THEN "enter" ELSE "put"]
           /\ ncall' = IF PutBeforeCall THEN [ncall EXCEPT ![r] = @ + 1] ELSE ncall
           /\ held' = IF PutBeforeCall THEN [held EXCEPT ![r] = 0] ELSE held
           /\ UNCHANGED <<free, nslices, content, detached, hist>>
\* `go f(args)`: the host function runs in its own goroutine and reads the slice LATER; the VM goes on at
\* once and never returns the slice to the pool
GoCall(r) == /\ pc[r] = "call" /\ ~PutBeforeCall
             /\ detached' = detached \cup {held[r]}
             /\ free' = IF PutAfterGo THEN free \cup {held[r]} ELSE free
             /\ pc' = [pc EXCEPT ![r] = "enter"] /\ ncall' = [ncall EXCEPT ![r] = @ + 1] /\ held' = [held EXCEPT ![r] = 0]
             /\ UNCHANGED <<nslices, content, out, hist>>
\* the goroutine's host function reads its arguments: it must find those of the run that started it
HostAsync(s) == /\ s \in detached /\ detached' = detached \ {s}
                /\ out' = [out EXCEPT ![content[s]] = Append(@, content[s])]
                /\ UNCHANGED <<pc, ncall, held, free, nslices, content, hist>>
Put(r) == /\ pc[r] = "put"
          /\ free' = free \cup {held[r]}
          /\ IF PutBeforeCall THEN pc' = [pc EXCEPT ![r] = "call"] /\ UNCHANGED <<ncall, held>>
             ELSE pc' = [pc EXCEPT ![r] = "enter"] /\ ncall' = [ncall EXCEPT ![r] = @ + 1] /\ held' = [held EXCEPT ![r] = 0]
          /\ hist' = Append(hist, r) /\ UNCHANGED <<nslices, content, out, detached>>
Finish(r) == /\ pc[r] = "enter" /\ ncall[r] = Calls /\ pc' = [pc EXCEPT ![r] = "done"]
             /\ UNCHANGED <<ncall, held, free, nslices, content, out, detached, hist>>
Next == \/ \E r \in R : Enter(r) \/ (\E s \in 1..(nslices + 1) : GetFill(r, s)) \/ Call(r) \/ GoCall(r) \/ Put(r) \/ Finish(r)
        \/ \E s \in 1..nslices : HostAsync(s)
Spec == Init /\ [][Next]_vars
AllDone == \A r \in R : pc[r] = "done"

\* a pooled slice is held by at most one in-flight call
NoHeldInPool == PutBeforeCall \/ \A a \in R : held[a] # 0 => held[a] \notin free
\* a slice a goroutine still has to read is neither in the pool nor held by a run
DetachedNotPooled == detached \cap free = {} /\ \A a \in R : held[a] # 0 => held[a] \notin detached
Exclusive == \A a, b \in R : (a # b /\ held[a] # 0 /\ held[b] # 0) => held[a] # held[b]
\* every host call of run r saw r's own arguments
Isolation == \A r \in R : \A k \in DOMAIN out[r] : out[r][k] = r
=============================================================================

----------------------------- MODULE Determinism -----------------------------
(* C30.  Building is a function of (sources, options).  A HISTORY is a sequence of build events
   [key, proc, asm, used, out]: key identifies the sources+options, proc the operating-system
   process that built them, asm/used/out are digests of the disassembly, of UsedVars and of the
   behaviour (run output or build error text).  The property is the invariant below on every
   prefix of every history: two builds of the same key agree, whatever process made them.
   The source of nondeterminism in the implementation is Go's randomised map iteration (per
   range loop) - exercised by repetition within a process and across processes, not enumerated.
   Sources come from a space TLC enumerates: declaration graphs (package-level variables whose
   initialisers refer to each other and to functions, functions referring to variables), which is
   where emission order depends on map iteration (checker_dependencies.go, emitter.go). *)
EXTENDS Integers, Sequences, FiniteSets, TLC
VARIABLES hist, first      \* first[key] = digests of the first build of key
Agree(a, b) == a.asm = b.asm /\ a.used = b.used /\ a.out = b.out
Init == hist = <<>> /\ first = <<>>
\* a build event e is appended; it must agree with the first build of the same key
Build(e) == /\ hist' = Append(hist, e)
            /\ first' = IF \E i \in DOMAIN first : first[i].key = e.key THEN first ELSE Append(first, e)
FirstOf(k) == first[CHOOSE i \in DOMAIN first : first[i].key = k]
Deterministic == \A i \in DOMAIN hist : Agree(hist[i], FirstOf(hist[i].key))
=============================================================================

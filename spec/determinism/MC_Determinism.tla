---------------------------- MODULE MC_Determinism ----------------------------
(* Case space: all declaration graphs over NV package-level variables and one function.
   refs[v] \subseteq (other variables \cup {"f"}), frefs \subseteq variables.  Cyclic graphs are kept:
   their build ERROR must be deterministic too. *)
EXTENDS Determinism, Json, SequencesExt
CONSTANTS NV, RMax          \* RMax: most references per initialiser / function body
V == 1..NV
Targets(v) == (V \ {v}) \cup {0}                 \* 0 stands for the function f
Graphs == [refs : [V -> UNION {{S \in SUBSET Targets(v) : Cardinality(S) <= RMax} : v \in V}], frefs : {S \in SUBSET V : Cardinality(S) <= RMax}]
WellFormed(g) == \A v \in V : g.refs[v] \subseteq Targets(v)
\* dependency relation over V \cup {0}: v -> t if v's initialiser names t; 0 (the function) -> its variables
Succ(g, x) == IF x = 0 THEN g.frefs ELSE g.refs[x]
RECURSIVE Reach(_, _, _)
Reach(g, frontier, seen) == IF frontier \subseteq seen THEN seen
                            ELSE Reach(g, UNION {Succ(g, x) : x \in frontier}, seen \cup frontier)
Cyclic(g) == \E v \in V : v \in Reach(g, Succ(g, v), {})
Cases == LET S == SetToSeq({g \in Graphs : WellFormed(g)}) IN
  [i \in 1..Len(S) |-> [id |-> i, nv |-> NV, cyclic |-> Cyclic(S[i]), refs |-> [v \in V |-> SetToSeq(S[i].refs[v])], frefs |-> SetToSeq(S[i].frefs)]]
ASSUME ndJsonSerialize("cases.ndjson", Cases)
(* Second case space: FEATURE PROGRAMS.  A source is a set of at most MaxFeat language features out of
   Feats; the driver owns the text of each feature (a few declarations and statements, as a program and as
   a template) and composes the chosen ones in a fixed order.  The features are the constructs whose
   emission goes through maps, caches or package-level state in the compiler: multi-value package
   variables, constants converted to named types, closures capturing several parameters, complex
   arithmetic helpers, same-line functions, imported files with same-line macros, native packages ... *)
CONSTANTS MaxFeat, Leaky
Feats == {"multival", "namedbool", "ifacetrue", "namedconst", "closure2", "closure3", "complexmul", "complexsub",
          "sameline", "maplit", "switchgoto", "deferrecover", "natives", "twofiles", "methodsval", "structs"}
FeatCases == LET S == SetToSeq({F \in SUBSET Feats : Cardinality(F) <= MaxFeat})
             IN [i \in 1..Len(S) |-> [id |-> 1000000 + i, feats |-> SetToSeq(S[i])]]
ASSUME ndJsonSerialize("cases_feats.ndjson", FeatCases)

(* Tiny model of the property itself, implementation-shaped: a process keeps state between builds
   (package-level tables, pools, caches: `shared`).  With a builder whose output is a function of the key
   only, every history of two processes building two keys in any order satisfies the invariant; with a
   LEAKY builder - the digest of key 2 depends on whether the same process has built key 1 before - some
   history violates it.  The check requires both outcomes (non-vacuity), and the driver accordingly
   builds the cases in a different order in each process. *)
VARIABLE shared
Digest(k, p) == [key |-> k, proc |-> p, asm |-> IF Leaky /\ k = 2 /\ 1 \in shared[p] THEN 99 ELSE k * 7, used |-> k, out |-> k + 1]
MCInit == Init /\ shared = [p \in 1..2 |-> {}]
MCNext == /\ Len(hist) < 4
          /\ \E k \in 1..2, p \in 1..2 : Build(Digest(k, p)) /\ shared' = [shared EXCEPT ![p] = @ \cup {k}]
=============================================================================

---------------------------- MODULE MC_Determinism ----------------------------
(* Case space: all declaration graphs over NV package-level variables and one function.
   refs[v] \subseteq (other variables \cup {"f"}), frefs \subseteq variables.  Cyclic graphs are kept:
   their build ERROR must be deterministic too. *)
EXTENDS Determinism, Json, SequencesExt
CONSTANTS NV
V == 1..NV
Targets(v) == (V \ {v}) \cup {0}                 \* 0 stands for the function f
Graphs == [refs : [V -> UNION {{S \in SUBSET Targets(v) : Cardinality(S) <= 2} : v \in V}], frefs : {S \in SUBSET V : Cardinality(S) <= 2}]
WellFormed(g) == \A v \in V : g.refs[v] \subseteq Targets(v)
\* dependency relation over V \cup {0}: v -> t if v's initialiser names t; 0 (the function) -> its variables
Succ(g, x) == IF x = 0 THEN g.frefs ELSE g.refs[x]
RECURSIVE Reach(_, _, _)
Reach(g, frontier, seen) == IF frontier \subseteq seen THEN seen
                            ELSE Reach(g, UNION {Succ(g, x) : x \in frontier}, seen \cup frontier)
Cyclic(g) == \E v \in V : v \in Reach(g, Succ(g, v), {})
Cases == LET S == SetToSeq({g \in Graphs : WellFormed(g)}) IN
  [i \in 1..Len(S) |-> [id |-> i, nv |-> NV, cyclic |-> Cyclic(S[i]), refs |-> [v \in V |-> SetToSeq(S[i].refs[v])], frefs |-> SetToSeq(S[i].frefs)]]
ASSUME ndJsonSerialize("cases.ndjson", Cases)
\* tiny model of the property itself: two processes building two keys in any order with a
\* deterministic builder satisfy the invariant (sanity of the history machine)
Digest(k) == [key |-> k, proc |-> 0, asm |-> k * 7, used |-> k, out |-> k + 1]
MCNext == Len(hist) < 4 /\ \E k \in 1..2, p \in 1..2 : Build([Digest(k) EXCEPT !.proc = p])
=============================================================================

--------------------------- MODULE Trace_Determinism ---------------------------
(* Validates the real build history against Determinism.tla: obs.ndjson has one build event per
   line {id (= key), proc, rep, form, asm, used, out}; events of one key are contiguous, so `first`
   is reset when the key changes (keeps states small). *)
EXTENDS Determinism, Json
Trace == ndJsonDeserialize("obs.ndjson")
VARIABLES l, bad
Ev == Trace[l]
E(e) == [key |-> e.id, proc |-> e.proc, asm |-> e.asm, used |-> e.used, out |-> e.out]
TInit == l = 1 /\ bad = <<>> /\ hist = <<>> /\ first = <<>>
NewKey == first = <<>> \/ first[1].key # Ev.id
TBuild == /\ l <= Len(Trace) /\ l' = l + 1
          /\ IF NewKey THEN hist' = <<E(Ev)>> /\ first' = <<E(Ev)>> ELSE Build(E(Ev))
          /\ bad' = IF ~NewKey /\ ~Agree(E(Ev), first[1]) /\ Len(bad) < 300
                    THEN Append(bad, [k |-> l, id |-> Ev.id,
                                      sig |-> [fam |-> "determinism", form |-> Ev.form,
                                               differs |-> IF Ev.asm # first[1].asm THEN "disassembly" ELSE IF Ev.used # first[1].used THEN "usedvars" ELSE "behaviour",
                                               across |-> IF Ev.proc = first[1].proc THEN "same-process" ELSE "processes"]])
                    ELSE bad
TNext == TBuild
Done == l = Len(Trace) + 1 => ndJsonSerialize("bad.ndjson", bad)
Consumed == TLCGet("stats").diameter - 1 = Len(Trace)
=============================================================================

------------------------------- MODULE Confine -------------------------------
(* C19.  What interpreted code can reach.  A CONFIGURATION is what the embedder supplies: the set
   of packages its importer returns (each with its declared functions), the template globals, and
   AllowGoStmt.  A PROGRAM is a list of reference sites (kind, pkg, fn): a call of pkg.fn made
   directly, through a function value, inside a closure, deferred or in a go statement (pkg "" =
   a template global); its imports are exactly the packages it references.
   Build: resolves each import through the importer, each name through the package/globals, and
   rejects go statements unless allowed.  Run: executes the sites; the only host functions invoked
   are supplied ones. *)
EXTENDS Integers, Sequences, FiniteSets, TLC
CONSTANTS MaxBuilds,   \* builds in a history
          Pkgs,        \* universe of package paths that programs may name
          Fns,         \* universe of function names
          Decl         \* Decl[pkg] = functions the embedder's package pkg declares (when supplied)
VARIABLES cfg,         \* [importer: SUBSET Pkgs, globals: SUBSET Fns, allowgo: BOOLEAN]
          prog,        \* sequence of [kind, pkg, fn]
          phase,       \* "build" | "run" | "builderror" | "done"
          i,           \* next site to resolve / execute
          called,      \* set of <<pkg, fn>> host functions invoked
          nbuilds      \* builds made so far with (mutations of) the same embedder objects
vars == <<cfg, prog, phase, i, called, nbuilds>>
Kinds == {"direct", "value", "closure", "defer", "go"}
\* pkg "" = a template global; pkg "#" = a builtin of the universe block (println, close ...): always resolvable,
\* never a host function, cannot be used as a value - but `go println()` is still a go statement
Sites == [kind : Kinds, pkg : Pkgs \cup {""}, fn : Fns] \cup [kind : Kinds \ {"value"}, pkg : {"#"}, fn : {"println"}]
Supplied(c) == {x \in Pkgs \X Fns : x[1] \in c.importer /\ x[2] \in Decl[x[1]]}
               \cup {<<"", f>> : f \in c.globals}
Resolves(c, s) == (s.pkg = "#" \/ <<s.pkg, s.fn>> \in Supplied(c)) /\ (s.kind = "go" => c.allowgo)
\* reference verdicts (what the property demands)
BuildOk(c, pr) == \A k \in DOMAIN pr : Resolves(c, pr[k])
MayCall(c) == Supplied(c)

Init == /\ cfg \in [importer : SUBSET Pkgs, globals : SUBSET Fns, allowgo : BOOLEAN]
        /\ prog \in UNION {[1..n -> Sites] : n \in 1..2}
        /\ phase = "build" /\ i = 1 /\ called = {} /\ nbuilds = 1
\* the checker meets site i: import through the importer, look the name up, go statement allowed?
CheckSite == /\ phase = "build" /\ i <= Len(prog)
             /\ IF Resolves(cfg, prog[i]) THEN i' = i + 1 /\ UNCHANGED phase
                ELSE phase' = "builderror" /\ UNCHANGED i
             /\ UNCHANGED <<cfg, prog, called, nbuilds>>
BuildDone == /\ phase = "build" /\ i > Len(prog) /\ phase' = "run" /\ i' = 1 /\ UNCHANGED <<cfg, prog, called, nbuilds>>
\* callNative: the VM invokes the function value the importer / globals supplied for that name
ExecSite == /\ phase = "run" /\ i <= Len(prog)
            /\ called' = (IF prog[i].pkg = "#" THEN called ELSE called \cup {<<prog[i].pkg, prog[i].fn>>}) /\ i' = i + 1
            /\ UNCHANGED <<cfg, prog, phase, nbuilds>>
RunDone == /\ phase = "run" /\ i > Len(prog) /\ phase' = "done" /\ UNCHANGED <<cfg, prog, i, called, nbuilds>>
\* the embedder changes what it supplies (possibly by mutating the same declaration maps in place) and builds again:
\* every build is judged against what is supplied WHEN IT IS MADE
Rebuild == /\ phase \in {"done", "builderror"} /\ nbuilds < MaxBuilds
           /\ cfg' \in [importer : SUBSET Pkgs, globals : SUBSET Fns, allowgo : BOOLEAN]
           /\ prog' \in UNION {[1..n -> Sites] : n \in 1..1}
           /\ phase' = "build" /\ i' = 1 /\ called' = {} /\ nbuilds' = nbuilds + 1
Next == CheckSite \/ BuildDone \/ ExecSite \/ RunDone \/ Rebuild \/ (phase \in {"done", "builderror"} /\ UNCHANGED vars)
Spec == Init /\ [][Next]_vars

OnlySupplied == called \subseteq MayCall(cfg)
ErrorIffUnresolved == (phase = "builderror") => ~BuildOk(cfg, prog)
RunsOnlyIfResolved == (phase \in {"run", "done"}) => BuildOk(cfg, prog)
=============================================================================

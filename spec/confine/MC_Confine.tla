----------------------------- MODULE MC_Confine -----------------------------
EXTENDS Confine, Json, SequencesExt
MCPkgs == {"p1", "p2", "zz/q"}
MCFns == {"A", "B", "Z"}
MCDecl == [p \in MCPkgs |-> IF p = "p1" THEN {"A", "B"} ELSE IF p = "p2" THEN {"A"} ELSE {}]
\* case export: configurations x programs (globals are used by the template form only)
Cfgs == [importer : SUBSET {"p1", "p2"}, globals : {{}, {"A"}}, allowgo : BOOLEAN]
Progs1 == {<<s>> : s \in Sites}
Progs2 == {<<s, t>> : s \in [kind : {"direct", "go"}, pkg : {"p1", ""}, fn : {"A"}], t \in [kind : {"value", "defer", "closure"}, pkg : {"p1", "p2", "zz/q"}, fn : {"A", "B"}]}
CaseSet == {[cfg |-> c, prog |-> pr] : c \in Cfgs, pr \in Progs1 \cup Progs2}
Cases == LET S == SetToSeq(CaseSet) IN
  [k \in 1..Len(S) |-> [id |-> k, importer |-> SetToSeq(S[k].cfg.importer), globals |-> SetToSeq(S[k].cfg.globals),
                        allowgo |-> S[k].cfg.allowgo, prog |-> S[k].prog]]
ASSUME ndJsonSerialize("cases.ndjson", Cases)
=============================================================================

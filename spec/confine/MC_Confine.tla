----------------------------- MODULE MC_Confine -----------------------------
EXTENDS Confine, Json, SequencesExt
MCPkgs == {"p1", "p2", "zz/q"}
MCFns == {"A", "B", "C", "Z"}
MCDeclHist == [p \in {"p1"} |-> {"A", "B"}]
MCDecl == [p \in MCPkgs |-> IF p = "p1" THEN {"A", "B"} ELSE IF p = "p2" THEN {"A"} ELSE {}]
\* case export: configurations x programs (globals are used by the template form only)
Cfgs == [importer : SUBSET {"p1", "p2"}, globals : {{}, {"A"}}, allowgo : BOOLEAN]
Progs1 == {<<s>> : s \in Sites}
\* histories: a second build after the embedder mutated ITS OWN declaration maps in place (same length):
\* p1 loses B and gains C, the global A is replaced by another function with the same name
Hist == {[cfg |-> c, prog |-> <<s>>, hist |-> TRUE] : c \in [importer : {{"p1"}, {"p1", "p2"}}, globals : {{"A"}}, allowgo : {FALSE}],
                                                   s \in [kind : {"direct", "value", "closure"}, pkg : {"p1", ""}, fn : {"A", "B", "C"}]}
Progs2 == {<<s, t>> : s \in [kind : {"direct", "go"}, pkg : {"p1", ""}, fn : {"A"}], t \in [kind : {"value", "defer", "closure"}, pkg : {"p1", "p2", "zz/q"}, fn : {"A", "B"}]}
CaseSet == {[cfg |-> c, prog |-> pr, hist |-> FALSE] : c \in Cfgs, pr \in Progs1 \cup Progs2} \cup Hist
Cases == LET S == SetToSeq(CaseSet) IN
  [k \in 1..Len(S) |-> [id |-> k, importer |-> SetToSeq(S[k].cfg.importer), globals |-> SetToSeq(S[k].cfg.globals),
                        allowgo |-> S[k].cfg.allowgo, prog |-> S[k].prog, hist |-> S[k].hist]]
ASSUME ndJsonSerialize("cases.ndjson", Cases)
=============================================================================

---------------------------- MODULE Trace_Confine ----------------------------
(* Judges real builds/runs: {id, form, importer, globals, allowgo, prog, build, calls, unknown}
   build \in {"ok","builderror","othererror","hostpanic"}; calls = the <<pkg, fn>> pairs of the host
   functions the VM invoked (from the callNative hook, mapped by code pointer to the supplied
   functions); unknown = number of invoked host functions that are NOT supplied ones. *)
EXTENDS Integers, Sequences, FiniteSets, TLC, Json
(* decl = what the embedder's objects declare AT THE TIME OF THIS BUILD: [[pkg, [fn, ...]], ...] (pkg "" = globals);
   supplied = identities of the host functions behind those declarations; callids = identities of the host
   functions the VM invoked. *)
ToSet(s) == {s[k] : k \in DOMAIN s}
Supplied(r) == UNION {{<<r.decl[k][1], f>> : f \in ToSet(r.decl[k][2])} : k \in DOMAIN r.decl}
Resolves(r, s) == (s.pkg = "#" \/ <<s.pkg, s.fn>> \in Supplied(r)) /\ (s.kind = "go" => r.allowgo)
BuildOk(r) == \A k \in DOMAIN r.prog : Resolves(r, r.prog[k])
RecOk(r) == /\ r.build \in {"ok", "builderror"}
            /\ (r.build = "ok") = BuildOk(r)                     \* anything unresolvable fails at build time
            /\ r.unknown = 0                                       \* no host function that was not supplied
            /\ ToSet(r.calls) \subseteq Supplied(r)
            /\ ToSet(r.callids) \subseteq ToSet(r.supplied)           \* by identity: a function no longer supplied is not invoked
            /\ r.wrapcalls = r.hookcalls                           \* every invocation seen by the hook reached a supplied wrapper
Sig(r) == [fam |-> "confine", form |-> r.form, step |-> r.step, build |-> r.build, expected |-> BuildOk(r), unknown |-> r.unknown > 0, stale |-> ~(ToSet(r.callids) \subseteq ToSet(r.supplied))]

VARIABLES l, nbad
Obs == ndJsonDeserialize("obs.ndjson")
Init == l = 1 /\ nbad = 0
Next == l <= Len(Obs) /\ l' = l + 1 /\ nbad' = nbad + (IF RecOk(Obs[l]) THEN 0 ELSE 1)
\* (operators with a parameter: a zero-argument definition would be evaluated eagerly at start-up, judging every
\*  record twice; an operator argument is evaluated once)
BadIdx(n) == SelectSeq([i \in 1..n |-> i], LAMBDA i : ~RecOk(Obs[i]))
WriteBad(B) == ndJsonSerialize("bad.ndjson",
                 [j \in 1..(IF Len(B) < 400 THEN Len(B) ELSE 400) |->
                     [k |-> B[j], id |-> Obs[B[j]].id, sig |-> Sig(Obs[B[j]]), nbad |-> nbad]])
Done == l = Len(Obs) + 1 => WriteBad(IF nbad = 0 THEN <<>> ELSE BadIdx(Len(Obs)))
Consumed == TLCGet("stats").diameter - 1 = Len(Obs)
=============================================================================

----------------------------- MODULE Trace_Lookup -----------------------------
(* Validates event logs of the real native.Package / CombinedPackage / CombinedImporter against
   Lookup.tla.  obs.ndjson: one event per line, traces separated by "reset" events:
     reset  {t, kind, pkgs, at, res}         start of a LookupFunc trace for a configuration
     call   {t, name, decl:[i,name], res}    the callback was invoked (res: what it answered)
     ret    {t, val}                         LookupFunc returned
     lookup {t, name, decl}                  Lookup(name) returned decl
     import {t, chain, ret:[kind, idx]}      CombinedImporter.Import over a chain of scripted importers
   The iteration order of Go's map is not logged: Call is enabled for any eligible name, so TLC
   explains the log with whatever order occurred, or rejects the trace (Skip). *)
EXTENDS Lookup, Json
Trace == ndJsonDeserialize("obs.ndjson")
VARIABLES l, bad, tid
tvars == <<vars, l, bad, tid>>
Ev == Trace[l]
ToSet(s) == {s[i] : i \in DOMAIN s}
TInit == /\ l = 1 /\ bad = <<>> /\ tid = 0
         /\ cfg = [kind |-> "pkg", pkgs |-> <<>>, at |-> 0, res |-> "stop"]
         /\ seen = {} /\ ncalls = 0 /\ stopped = FALSE /\ result = "nil" /\ phase = "returned" /\ ret = "none"
IsEvent(e) == l <= Len(Trace) /\ Ev.ev = e /\ l' = l + 1
TReset == /\ IsEvent("reset")
          /\ cfg' = [kind |-> Ev.kind, pkgs |-> [i \in DOMAIN Ev.pkgs |-> ToSet(Ev.pkgs[i])], at |-> Ev.at, res |-> Ev.res]
          /\ seen' = {} /\ ncalls' = 0 /\ stopped' = FALSE /\ result' = "nil" /\ phase' = "run" /\ ret' = "none"
          /\ tid' = Ev.t /\ UNCHANGED bad
TCall == /\ IsEvent("call") /\ Call(Ev.name, Ev.decl)
         /\ Ev.res = ScriptRes(cfg, ncalls + 1)             \* the driver's callback followed its script
         /\ UNCHANGED <<bad, tid>>
TRet == /\ IsEvent("ret") /\ Return(Ev.val) /\ UNCHANGED <<bad, tid>>
\* pure contracts logged as single events (do not touch the LookupFunc machine)
TLookup == /\ IsEvent("lookup") /\ Ev.decl = LookupRef(cfg, Ev.name) /\ UNCHANGED <<vars, bad, tid>>
TImport == /\ IsEvent("import") /\ Ev.ret = ImportRef(Ev.chain) /\ UNCHANGED <<vars, bad, tid>>
Explained == ENABLED TReset \/ ENABLED TCall \/ ENABLED TRet \/ ENABLED TLookup \/ ENABLED TImport
\* a line no action explains: reject its trace (signature = configuration + event kind) and resume
Skip == /\ l <= Len(Trace) /\ ~Explained /\ l' = l + 1
        /\ bad' = IF Len(bad) < 300 THEN Append(bad, [k |-> l, id |-> Ev.t,
                      sig |-> [fam |-> "lookup", ev |-> Ev.ev,
                               kind |-> IF Ev.ev = "import" THEN "importer" ELSE cfg.kind,
                               script |-> IF Ev.ev = "import" THEN "-" ELSE cfg.res]]) ELSE bad
        /\ UNCHANGED <<vars, tid>>
TNext == TReset \/ TCall \/ TRet \/ TLookup \/ TImport \/ Skip

Done == l = Len(Trace) + 1 => ndJsonSerialize("bad.ndjson", bad)
Consumed == TLCGet("stats").diameter - 1 = Len(Trace)
\* every invariant of the specification is evaluated at every step of every real trace
TraceInv == OncePerName
=============================================================================

------------------------------- MODULE Lookup -------------------------------
(* C22.  The documented contracts of native.Package / native.CombinedPackage / native.CombinedImporter
   (native/packages.go) as a state machine.  A configuration is a sequence of packages (each a set
   of names; the declaration of name n in package i is the pair <<i, n>>) and a callback script
   (the callback fails with an error, or asks to stop, at its at-th invocation; at = 0: never).
   LookupFunc's iteration order over a Go map is unspecified, so Call is enabled for ANY eligible
   name: TLC explores all orders in the model check and infers the order in trace validation. *)
EXTENDS Integers, Sequences, FiniteSets, TLC

CONSTANTS Names, MaxPkgs, MaxAt
VARIABLES cfg,      \* [kind, pkgs, at, res]   kind \in {"pkg","comb"}
          seen,     \* names the callback has been called with
          ncalls, stopped, result, phase, ret
vars == <<cfg, seen, ncalls, stopped, result, phase, ret>>

PkgSeqs == UNION {[1..k -> SUBSET Names] : k \in 0..MaxPkgs}
Configs == {[kind |-> "pkg", pkgs |-> <<S>>, at |-> a, res |-> r] : S \in SUBSET Names, a \in 0..MaxAt, r \in {"err", "stop"}}
     \cup  {[kind |-> "comb", pkgs |-> ps, at |-> a, res |-> r] : ps \in PkgSeqs, a \in 0..MaxAt, r \in {"err", "stop"}}

AllNames(c) == UNION {c.pkgs[i] : i \in DOMAIN c.pkgs}
FirstPkg(c, n) == IF n \in AllNames(c) THEN CHOOSE i \in DOMAIN c.pkgs : n \in c.pkgs[i] /\ \A j \in 1..(i - 1) : n \notin c.pkgs[j] ELSE 0
\* contract of Lookup: declaration of the first package that has the name, <<0,"">> (nil) when none has it
LookupRef(c, n) == IF FirstPkg(c, n) = 0 THEN <<0, "">> ELSE <<FirstPkg(c, n), n>>
\* what the callback script answers at its k-th invocation
ScriptRes(c, k) == IF c.at # 0 /\ k = c.at THEN c.res ELSE "nil"

Init == /\ cfg \in Configs /\ seen = {} /\ ncalls = 0 /\ stopped = FALSE /\ result = "nil"
        /\ phase = "run" /\ ret = "none"

\* LookupFunc invokes the callback with (n, decl): once per distinct name, with the FIRST occurrence's
\* declaration, never after the callback returned a non-nil error.
Call(n, decl) ==
  /\ phase = "run" /\ ~stopped
  /\ n \in AllNames(cfg) \ seen
  /\ decl = LookupRef(cfg, n)
  /\ seen' = seen \cup {n} /\ ncalls' = ncalls + 1
  /\ LET r == ScriptRes(cfg, ncalls + 1) IN stopped' = (r # "nil") /\ result' = r
  /\ UNCHANGED <<cfg, phase, ret>>

\* It returns only after a stop/error or when every distinct name has been offered; the value is the
\* callback's error, or nil when that error is StopLookup (or none).
Return(v) ==
  /\ phase = "run" /\ (stopped \/ seen = AllNames(cfg))
  /\ v = (IF result = "err" THEN "err" ELSE "nil")
  /\ ret' = v /\ phase' = "returned"
  /\ UNCHANGED <<cfg, seen, ncalls, stopped, result>>

Next == (\E n \in Names, d \in (0..MaxPkgs) \X (Names \cup {""}) : Call(n, d)) \/ (\E v \in {"err", "nil"} : Return(v))
Spec == Init /\ [][Next]_vars /\ WF_vars(Next)

(* design-level properties, checked exhaustively over all configurations and iteration orders *)
OncePerName == ncalls = Cardinality(seen)
StopsAtFirstError == stopped => (cfg.at # 0 /\ ncalls = cfg.at)
ReturnContract == phase = "returned" =>
     ret = (IF cfg.at # 0 /\ cfg.at <= Cardinality(AllNames(cfg)) /\ cfg.res = "err" THEN "err" ELSE "nil")
NoCallAfterStop == [][stopped => UNCHANGED <<seen, ncalls>>]_vars
Terminates == <>(phase = "returned")

(* contract of CombinedImporter.Import: the first (package or error) produced, in order; nil if none *)
RECURSIVE FirstHit(_, _)
FirstHit(rs, i) == IF i > Len(rs) THEN <<"nil", 0>> ELSE IF rs[i] # "nil" THEN <<rs[i], i>> ELSE FirstHit(rs, i + 1)
ImportRef(rs) == FirstHit(rs, 1)
=============================================================================

------------------------------ MODULE MC_Lookup ------------------------------
EXTENDS Lookup, Json, SequencesExt
\* case export: every configuration (sets as sorted sequences of strings) + importer chains
CfgCases == LET C == SetToSeq(Configs) IN
  [i \in 1..Len(C) |-> [id |-> i, fam |-> "lookupfunc", kind |-> C[i].kind,
                        pkgs |-> [j \in DOMAIN C[i].pkgs |-> SetToSeq(C[i].pkgs[j])], at |-> C[i].at, res |-> C[i].res]]
Chains == UNION {[1..k -> {"nil", "pkg", "err"}] : k \in 0..3}
ImpCases == LET C == SetToSeq(Chains) IN
  [i \in 1..Len(C) |-> [id |-> 100000 + i, fam |-> "import", chain |-> C[i]]]
ASSUME ndJsonSerialize("cases.ndjson", CfgCases \o ImpCases)
=============================================================================

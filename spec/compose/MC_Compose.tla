----------------------------- MODULE MC_Compose -----------------------------
(* Model check of the implementation-shaped show/call/renderer model against the documented
   expansion semantics over every case of the bounded space, and export of that space (with the
   source text of every variant of every case) as cases.ndjson.

   The space (d = [kind, hf, pl, pf, lay, body, imp, clash]):
     render : host format hf x placement pl (content / attribute value / <script>; the last two in
              HTML and Markdown hosts) x partial format pf x every body of <= MaxLen items over
              ItemsAll; directory layouts 1..3 with the bodies of one R/V item
     call   : hf x pl x explicit result type pf of a local macro ("" = none) x bodies over ItemsNoK
     import : hf x pl x format pf of the imported file x bodies over ItemsNoK; the import forms
              `import x "m"` and `import "m" for K` and the layout with m in a sub-directory for
              bodies of <= 1 item
     extends: (extending format hf, layout format pf) in the pairs the parser accepts x pl x bodies
              over ItemsNoK; sub-directory layouts for bodies of <= 1 item; a layout that
              redeclares the macro (clash: both forms must fail to build)
     calib  : one text file per text atom (checks the atom table of Compose.tla)
   plus NSample seeded bodies of MaxLen + 1 items (render kind). *)
EXTENDS Compose, Json, FiniteSets
CONSTANTS MaxLen, NSample, Seed, Mode

Dim(kind, hf, pl, pf, lay, imp, clash) ==
  [kind |-> kind, hf |-> hf, pl |-> pl, pf |-> pf, lay |-> lay, body |-> <<>>, imp |-> imp, clash |-> clash]
ExtPairs == {<<"html", "html">>, <<"md", "html">>, <<"md", "md">>, <<"js", "js">>, <<"txt", "txt">>}
Base ==
  {Dim("render", hf, pl, pf, lay, "", FALSE) : hf \in Fmts, pl \in {"text", "attr", "script"}, pf \in Fmts, lay \in 0..3}
  \cup {Dim("call", hf, pl, t, 0, "", FALSE) : hf \in Fmts, pl \in {"text", "attr", "script"}, t \in MTypes}
  \cup {Dim("import", hf, pl, pf, lay, imp, FALSE) : hf \in Fmts, pl \in {"text", "attr", "script"}, pf \in Fmts, lay \in 0..1,
                                                      imp \in {"plain", "ns", "for"}}
  \cup {Dim("extends", pr[1], pl, pr[2], lay, "", cl) : pr \in ExtPairs, pl \in {"text", "attr", "script"}, lay \in 0..2, cl \in BOOLEAN}
PlOk(d) == d.pl \in Placements(IF d.kind = "extends" THEN d.pf ELSE d.hf)
\* the secondary dimensions are explored with short bodies
Secondary(d) == d.lay # 0 \/ d.imp \in {"ns", "for"}
Ok(d) == /\ PlOk(d)
         /\ (d.kind = "import" /\ d.lay # 0) => d.imp = "plain"
         /\ d.clash => d.lay = 0
MaxLenOf(d) == IF d.clash THEN 0 ELSE IF Secondary(d) THEN 1 ELSE MaxLen
ItemsOf(d) == IF d.kind = "render" THEN (IF d.lay # 0 THEN ItemsRV ELSE ItemsAll) ELSE ItemsNoK
\* a layout other than the flat one is only interesting when the body refers to another file
Exportable(d) == (d.kind = "render" /\ d.lay # 0) => Len(d.body) = 1

VARIABLE c
Init == c \in {d \in Base : Ok(d)}
Next == /\ Len(c.body) < MaxLenOf(c)
        /\ \E it \in ItemsOf(c) : c' = [c EXCEPT !.body = Append(@, it)]

(* ---- design-level results ---- *)
Vs(d) == Variants(d)
AllV(d, Pred(_)) == \A i \in 1..Len(Vs(d)) : Pred(Vs(d)[i])
RefOf(d, name) == RefOut(VariantOf(d, name))
ImplOf(d, name, V) == ImplOut(VariantOf(d, name), V)
\* (T1) the reference semantics satisfies the property's relations: the expansions are sound
RefRelations == ModelDefined(c) => HoldsOn(c, LAMBDA nm : RefOf(c, nm))
\* (T2) with the format test in the render fast path and the macro context kept after a tag, the
\*      mechanism computes the reference output for every variant of every case
FixedMeetsRef == ModelDefined(c) => AllV(c, LAMBDA v : ImplOut(v, Fixed) = RefOut(v))
\* (T3) the mechanism as written leaves the reference only for the two named causes
AsWrittenDeviatesOnlyIf ==
  ModelDefined(c) => AllV(c, LAMBDA v : ImplOut(v, AsWritten) # RefOut(v) => (MismatchedRender(v.fs) \/ ForeignTagMacro(v.fs)))
\* (T4) each fix removes its own cause
RenderFixLeavesOnlyTag ==
  ModelDefined(c) => AllV(c, LAMBDA v : ImplOut(v, OnlyRenderFixed) # RefOut(v) => ForeignTagMacro(v.fs))
\* (T5) every byte the reference produces is covered by the escaper transcription
RefDefined == ModelDefined(c) => AllV(c, LAMBDA v : Defined(RefOut(v)))
Theorems == RefRelations /\ FixedMeetsRef /\ AsWrittenDeviatesOnlyIf /\ RenderFixLeavesOnlyTag /\ RefDefined
\* (diagnostic, expected to FAIL: the counterexample is the model-level exhibit of the divergence)
AsWrittenRelations == ModelDefined(c) => HoldsOn(c, LAMBDA nm : ImplOf(c, nm, AsWritten))
AsWrittenRenderRelations == (ModelDefined(c) /\ c.kind = "render") => HoldsOn(c, LAMBDA nm : ImplOf(c, nm, AsWritten))
AsWrittenOtherRelations == (ModelDefined(c) /\ c.kind # "render") => HoldsOn(c, LAMBDA nm : ImplOf(c, nm, AsWritten))

(* ---- case export ---- *)
Bodies(d) == {s \in SeqsUpTo(ItemsOf(d), MaxLenOf(d)) : TRUE}
Space == {e \in UNION {{[d EXCEPT !.body = s] : s \in Bodies(d)} : d \in {d \in Base : Ok(d)}} : Exportable(e)}
Calib == {Dim("calib", "txt", "text", a, 0, "", FALSE) : a \in TextAtoms}
\* seeded sample of longer bodies: a multiplicative walk over (base case, item tuple) indexes
RBase == SetToSeq({d \in Base : Ok(d) /\ d.kind = "render" /\ d.lay = 0})
ItemSeq == SetToSeq(ItemsAll)
Pick(seq, n) == seq[(n % Len(seq)) + 1]
SampleCase(j) ==
  LET x == (Seed * 7919 + j * 104729) % 1000003
      d == Pick(RBase, x)
      b == [k \in 1..(MaxLen + 1) |-> Pick(ItemSeq, (x \div (17 * k)) + 31 * k * j)]
  IN [d EXCEPT !.body = b]
Sample == {SampleCase(j) : j \in 1..NSample}

Export(d, id) ==
  LET vs == Variants(d) IN
  [id |-> id, d |-> d,
   variants |-> [i \in 1..Len(vs) |->
                   [name |-> vs[i].name, main |-> PathStr(vs[i].main),
                    files |-> [k \in 1..Len(vs[i].fs) |-> SrcFile(vs[i].fs[k])]]]]
Cases == LET S == SetToSeq(Space \cup Calib \cup Sample) IN [i \in 1..Len(S) |-> Export(S[i], i)]
ASSUME Mode = "noexport" \/ ndJsonSerialize("cases.ndjson", Cases)
=============================================================================

----------------------------- MODULE MC_Compose -----------------------------
(* Model check of the implementation-shaped show/call/renderer model against the documented
   expansion semantics over every case of the bounded space, and export of that space (with the
   source text of every variant of every case) as cases.ndjson.

   The space (d = [kind, hf, pl, pf, lay, body, imp, clash]):
     render : host format hf x placement pl (content / attribute value / <script>; the last two in
              HTML and Markdown hosts) x partial format pf x every body of <= MaxLen items over
              ItemsAll; directory layouts 1..3 with the bodies of one R/V item (content placement)
     call   : hf x pl x explicit result type pf of a local macro ("" = none) x bodies over ItemsNoK
     import : hf x pl x format pf of the imported file x bodies over ItemsNoK; the import forms
              `import x "m"` and `import "m" for K` and the layout with m in a sub-directory for
              bodies of <= 1 item (content placement)
     extends: (extending format hf, layout format pf) in the pairs the parser accepts x pl x bodies
              over ItemsNoK; sub-directory layouts for bodies of <= 1 item (content placement); a layout that
              redeclares the macro (clash: both forms must fail to build)
     every kind: bodies with one N item (render of a file that renders a third file: nesting depth 3 below the
              main file, formats alternating) or one Y / Z item (a partial in another directory shared by two files /
              referenced twice by one file, followed by a relative reference), alone or after a text item
     calib  : one text file per text atom (checks the atom table of Compose.tla)
   plus NSample seeded bodies of MaxLen + 1 items (render kind). *)
EXTENDS Compose, Json, FiniteSets
CONSTANTS MaxLen, NSample, Seed, Mode, Full

Dim(kind, hf, pl, pf, lay, imp, clash) ==
  [kind |-> kind, hf |-> hf, pl |-> pl, pf |-> pf, lay |-> lay, body |-> <<>>, imp |-> imp, clash |-> clash]
ExtPairs == {<<"html", "html">>, <<"md", "html">>, <<"md", "md">>, <<"js", "js">>, <<"txt", "txt">>}
Base ==
  {Dim("render", hf, pl, pf, lay, "", FALSE) : hf \in Fmts, pl \in {"text", "attr", "script"}, pf \in Fmts, lay \in 0..3}
  \cup {Dim("call", hf, pl, t, 0, "", FALSE) : hf \in Fmts, pl \in {"text", "attr", "script"}, t \in MTypes}
  \cup {Dim("import", hf, pl, pf, lay, imp, FALSE) : hf \in Fmts, pl \in {"text", "attr", "script"}, pf \in Fmts, lay \in 0..1,
                                                      imp \in {"plain", "ns", "for"}}
  \cup {Dim("extends", pr[1], pl, pr[2], lay, "", cl) : pr \in ExtPairs, pl \in {"text", "attr", "script"}, lay \in 0..2, cl \in BOOLEAN}
PlOk(d) == d.pl \in Placements(IF d.kind = "extends" THEN d.pf ELSE d.hf)
\* the secondary dimensions are explored with short bodies
Secondary(d) == d.lay # 0 \/ d.imp \in {"ns", "for"}
Ok(d) == /\ PlOk(d)
         /\ (d.kind = "import" /\ d.lay # 0) => d.imp = "plain"
         /\ d.clash => d.lay = 0
         /\ Secondary(d) => d.pl = "text"        \* paths and import forms do not depend on the placement
MaxLenOf(d) == IF d.clash THEN 0 ELSE IF Secondary(d) THEN 1 ELSE MaxLen
\* Full (thorough tier): every nested pair N(f, g) and every shared-partial item in every case; otherwise a sample of
\* the two dimensions: the alternating HTML/Markdown nestings in the render and call kinds, the shared partial in
\* two formats with the content placement (paths do not depend on the placement)
NItems(d) == IF d.lay # 0 THEN {}
             ELSE IF Full THEN {it \in ItemsN(Fmts, Fmts) : it.f # it.g}
             ELSE IF d.kind \in {"render", "call"} THEN {It("N", "html", "md"), It("N", "md", "html")} ELSE {}
YZItems(d) == IF Full THEN ItemsYZ(Fmts) ELSE IF d.pl = "text" THEN ItemsYZ({"txt", "html"}) ELSE {}
ItemsOf(d) == (IF d.kind = "render" THEN (IF d.lay # 0 THEN ItemsRV ELSE ItemsAll) ELSE ItemsNoK) \cup NItems(d) \cup YZItems(d)
\* at most one N / Y / Z item in a body: the last one, with only text before it (what has been rendered so far)
BodyOk(b) == LET sp == {i \in 1..Len(b) : Special(b[i])} IN
             sp = {} \/ (sp = {Len(b)} /\ \A i \in 1..(Len(b) - 1) : b[i] = It("T", "", ""))
\* a layout other than the flat one is only interesting when the body refers to another file
Exportable(d) == (d.kind = "render" /\ d.lay # 0) => Len(d.body) = 1

\* Mode "diag": the HTML hosts only (a small space in which the diagnostic counterexamples are found quickly)
InMode(d) == Mode = "diag" => d.hf = "html"
VARIABLE c
Root == Dim("root", "", "", "", 0, "", FALSE)
Init == c = Root
\* Mode: "noexport" / "all" (+ theorem T4) / "diag" (HTML hosts only) = model check only; "exportonly" = write cases.ndjson only
Next == /\ Mode # "exportonly"
        /\ IF c = Root THEN c' \in {d \in Base : Ok(d) /\ InMode(d)}
           ELSE /\ Len(c.body) < MaxLenOf(c)
                /\ \E it \in ItemsOf(c) : BodyOk(Append(c.body, it)) /\ c' = [c EXCEPT !.body = Append(@, it)]

(* ---- design-level results ---- *)
\* Each model is evaluated once per state (R, F, W, O = outputs of the reference, of the mechanism with both
\* fixes, as written, with the render fix only; indexed like Variants(c)).
IdxOf(vs, nm) == CHOOSE i \in 1..Len(vs) : vs[i].name = nm
All(vs, Pred(_)) == \A i \in 1..Len(vs) : Pred(i)
\* (T1) the reference semantics satisfies the property's relations: the expansions are sound
ThRefRelations(vs, R) == HoldsOn(c, LAMBDA nm : R[IdxOf(vs, nm)])
\* (T2) with the format test in the render fast path and the macro context kept after a tag, the
\*      mechanism computes the reference output for every variant of every case
ThFixedMeetsRef(vs, R, F) == All(vs, LAMBDA i : F[i] = R[i])
\* (T3) the mechanism as written leaves the reference only for the named cause (a mismatched {{ render }})
ThAsWrittenDeviatesOnlyIf(vs, R, W) == All(vs, LAMBDA i : W[i] # R[i] => MismatchedRender(vs[i].fs))
\* (T4) without the tag-context fix (the tree before caecd73) but with the render fix, only the tag cause is left
ThRenderFixLeavesOnlyTag(vs, R, O) == All(vs, LAMBDA i : O[i] # R[i] => ForeignTagMacro(vs[i].fs))
\* (T5) every byte the reference produces is covered by the escaper transcription
ThRefDefined(vs, R) == All(vs, LAMBDA i : Defined(R[i]))
\* (diagnostic, expected to FAIL: the counterexample is the model-level exhibit of the divergence)
ThAsWrittenRelations(vs, W) == HoldsOn(c, LAMBDA nm : W[IdxOf(vs, nm)])

Outs(vs, V) == [i \in 1..Len(vs) |-> ImplOut(vs[i], V)]
Refs(vs) == [i \in 1..Len(vs) |-> RefOut(vs[i])]
Theorems ==
  (c # Root /\ ModelDefined(c)) =>
    LET vs == Variants(c) R == Refs(vs) IN
    /\ ThRefRelations(vs, R)
    /\ ThFixedMeetsRef(vs, R, Outs(vs, Fixed))
    /\ ThAsWrittenDeviatesOnlyIf(vs, R, Outs(vs, AsWritten))
    /\ ThRefDefined(vs, R)
    /\ (Mode = "all" /\ Len(c.body) <= 1) => ThRenderFixLeavesOnlyTag(vs, R, Outs(vs, OnlyRenderFixed))
RefRelations == (c # Root /\ ModelDefined(c)) => LET vs == Variants(c) IN ThRefRelations(vs, Refs(vs))
FixedMeetsRef == (c # Root /\ ModelDefined(c)) => LET vs == Variants(c) IN ThFixedMeetsRef(vs, Refs(vs), Outs(vs, Fixed))
AsWrittenDeviatesOnlyIf == (c # Root /\ ModelDefined(c)) => LET vs == Variants(c) IN ThAsWrittenDeviatesOnlyIf(vs, Refs(vs), Outs(vs, AsWritten))
RenderFixLeavesOnlyTag == (c # Root /\ ModelDefined(c)) => LET vs == Variants(c) IN ThRenderFixLeavesOnlyTag(vs, Refs(vs), Outs(vs, OnlyRenderFixed))
RefDefined == (c # Root /\ ModelDefined(c)) => LET vs == Variants(c) IN ThRefDefined(vs, Refs(vs))
AsWrittenRelations == (c # Root /\ ModelDefined(c)) => LET vs == Variants(c) IN ThAsWrittenRelations(vs, Outs(vs, AsWritten))
AsWrittenRenderRelations == c.kind = "render" => AsWrittenRelations
AsWrittenOtherRelations == c.kind # "render" => AsWrittenRelations

(* ---- case export ---- *)
Bodies(d) == {s \in SeqsUpTo(ItemsOf(d), MaxLenOf(d)) : BodyOk(s)}
Space(x) == {e \in UNION {{[d EXCEPT !.body = s] : s \in Bodies(d)} : d \in {d \in Base : Ok(d)}} : Exportable(e)}
Calib == {Dim("calib", "txt", "text", a, 0, "", FALSE) : a \in TextAtoms}
\* seeded sample of longer bodies: a multiplicative walk over (base case, item tuple) indexes
RBase == SetToSeq({d \in Base : Ok(d) /\ d.kind = "render" /\ d.lay = 0})
ItemSeq == SetToSeq(ItemsAll)
Pick(seq, n) == seq[(n % Len(seq)) + 1]
SampleCase(j) ==
  LET x == (Seed * 7919 + j * 104729) % 1000003
      d == Pick(RBase, x)
      b == [k \in 1..(MaxLen + 1) |-> Pick(ItemSeq, (x \div (17 * k)) + 31 * k * j)]
  IN [d EXCEPT !.body = b]
Sample == {SampleCase(j) : j \in 1..NSample}

Export(d, id) ==
  LET vs == Variants(d) IN
  [id |-> id, d |-> d,
   variants |-> [i \in 1..Len(vs) |->
                   [name |-> vs[i].name, main |-> PathStr(vs[i].main),
                    files |-> [k \in 1..Len(vs[i].fs) |-> SrcFile(vs[i].fs[k])]]]]
Cases(x) == LET S == SetToSeq(Space(x) \cup Calib \cup Sample) IN [i \in 1..Len(S) |-> Export(S[i], i)]
ASSUME Mode \in {"noexport", "all", "diag"} \/ ndJsonSerialize("cases.ndjson", Cases(0))
=============================================================================

---------------------------- MODULE Trace_Compose ----------------------------
(* Judges observations of the real BuildTemplate/Run on the variants of every case: one record
   {id, d, variants:[{name, main, files, outcome, out, err}]} per line of obs.ndjson.

   The judgement is RELATIONAL and uses real outputs only (Compose!Relations):
     render : out(direct) = out(viaVar);  out(direct) = out(hand-expanded macro form);
              formats match => out(direct) = text before \o out(partial on its own) \o text after
     call   : out({{ M() }}) = out({% var v = M() %}{{ v }})
     import : out(imported macro) = out(the macro declared in the importing file)
     extends: out(extending file) = out(layout with the child's macros)
   and both sides of a relation must agree on whether they build and run at all.

   Readings chosen (DESIGN Appendix C.5):
   - "the same output" is byte equality of what Run wrote.
   - "when the formats match" = the render expression is shown in the content context of the
     partial's own format (HTML content / <script> for .js / Markdown content / text); an attribute
     value matches no format.
   - `{{ M() }}` against its via-variable form is judged like render's, because the documented
     expansion of render IS a macro call (ast.Render.IR) and the statement's "ordinary show rules"
     apply to any expression of a format type.
   - hand-expanded forms declare the macro with the explicit result type of the file it came
     from (an imported .txt macro is `macro K string`); nothing else is assumed about it.
   - only outcome CLASSES are compared (ok / not ok), never error texts.
   The reference RefOut and the implementation-shaped ImplOut are compared with the real outputs
   as diagnostics only (drift.ndjson). *)
EXTENDS Compose, Json
CONSTANT DriftEvery        \* the drift diagnostics look at the records whose id is a multiple of it

VOf(r, nm) == r.variants[CHOOSE i \in 1..Len(r.variants) : r.variants[i].name = nm]
IsOk(v) == v.outcome = "ok"
RelHolds(r, rel) ==
  LET a == VOf(r, rel.a) b == VOf(r, rel.b) IN
  IF IsOk(a) /\ IsOk(b) THEN a.out = rel.pre \o b.out \o rel.post
  ELSE ~IsOk(a) /\ ~IsOk(b)                                   \* both fail to build/run: they agree
Judged(r) == r.d.kind # "calib"
Failing(r) == {rel \in Relations(r.d) : ~RelHolds(r, rel)}
RecOk(r) == Judged(r) => Failing(r) = {}

(* ---- signature: the relation(s) that fail + the root-cause-identifying circumstances ---- *)
RelOrder == <<"direct=viaVar", "direct=expanded", "direct=alone", "call=viaVar", "import=local", "extends=expanded">>
HasG(body) == \E i \in 1..Len(body) : body[i].k = "G"
\* does the direct form contain the partial's own output verbatim (= no show rule was applied)?
DirectIsRaw(r) ==
  LET a == VOf(r, "direct") b == VOf(r, "alone") IN
  IsOk(a) /\ IsOk(b) /\ a.out = Atom.lb.b \o Atom[PreOf(r.d.pl)].b \o b.out \o Atom[PostOf(r.d.pl)].b \o Atom.rb.b
Sig(r) ==
  LET F == Failing(r) names == {rel.rel : rel \in F}
      build == \E rel \in F : IsOk(VOf(r, rel.a)) # IsOk(VOf(r, rel.b)) IN
  [fam |-> "compose", kind |-> r.d.kind, rels |-> SelectSeq(RelOrder, LAMBDA x : x \in names),
   outer |-> r.d.hf, inner |-> r.d.pf, ctx |-> r.d.pl,
   how |-> IF build THEN "buildability" ELSE "output",
   direct |-> IF r.d.kind # "render" THEN "n/a" ELSE IF DirectIsRaw(r) THEN "raw-inclusion" ELSE "other",
   tag |-> HasG(r.d.body)]

(* ---- record-walk skeleton (as in every record-per-line Trace spec; each record is judged once: OkVec) ---- *)
VARIABLES l, nbad
Obs == ndJsonDeserialize("obs.ndjson")
Force(f) == SelectSeq(f, LAMBDA x : TRUE)             \* a concrete tuple (evaluates every element exactly once)
OkVec == Force([i \in 1..Len(Obs) |-> RecOk(Obs[i])])
Init == l = 1 /\ nbad = 0
Next == l <= Len(Obs) /\ l' = l + 1 /\ nbad' = nbad + (IF OkVec[l] THEN 0 ELSE 1)
BadIdx == SelectSeq([i \in 1..Len(Obs) |-> i], LAMBDA i : ~OkVec[i])

(* ---- diagnostics only: do the models predict the observation? ---- *)
AllOk(r) == \A i \in 1..Len(r.variants) : IsOk(r.variants[i])
DriftIdx == SelectSeq([i \in 1..Len(Obs) |-> i],
                      LAMBDA i : Obs[i].id % DriftEvery = 0 /\ ModelDefined(Obs[i].d) /\ AllOk(Obs[i]))
\* for one record: which models mispredict some variant's real output (each model evaluated once)
DriftRec(r) ==
  LET vs == Variants(r.d)
      real == [i \in 1..Len(vs) |-> VOf(r, vs[i].name).out]
      ref == [i \in 1..Len(vs) |-> RefOut(vs[i])]
      miss(M(_)) == \E i \in 1..Len(vs) : real[i] # M(vs[i]) IN
  [aw |-> miss(LAMBDA v : ImplOut(v, AsWritten)),
   fx |-> miss(LAMBDA v : ImplOut(v, Fixed)), ref |-> \E i \in 1..Len(vs) : real[i] # ref[i],
   undef |-> \E i \in 1..Len(vs) : ~Defined(ref[i])]
DriftVec == Force([j \in 1..Len(DriftIdx) |-> DriftRec(Obs[DriftIdx[j]])])
Count(Pred(_)) == Len(SelectSeq(DriftVec, Pred))
DriftAsWritten == SelectSeq([j \in 1..Len(DriftIdx) |-> j], LAMBDA j : DriftVec[j].aw)
\* the atom table of Compose.tla against the real code (machinery check, not a verdict)
CalibBad == SelectSeq([i \in 1..Len(Obs) |-> i],
                      LAMBDA i : Obs[i].d.kind = "calib" /\ ~(IsOk(Obs[i].variants[1]) /\ Obs[i].variants[1].out = Atom[Obs[i].d.pf].b))
NotBuilt == Len(SelectSeq([i \in 1..Len(Obs) |-> i], LAMBDA i : ~Obs[i].d.clash /\ ~AllOk(Obs[i])))

Done == l = Len(Obs) + 1 =>
          /\ ndJsonSerialize("bad.ndjson",
               IF nbad = 0 THEN <<>>
               ELSE [j \in 1..Len(BadIdx) |->
                       [k |-> BadIdx[j], id |-> Obs[BadIdx[j]].id, sig |-> Sig(Obs[BadIdx[j]]), nbad |-> nbad]])
          /\ ndJsonSerialize("drift.ndjson",
               <<[records |-> Len(DriftIdx), aswritten |-> Count(LAMBDA x : x.aw),
                  fixed |-> Count(LAMBDA x : x.fx), ref |-> Count(LAMBDA x : x.ref), ref_undefined |-> Count(LAMBDA x : x.undef),
                  aswritten_ids |-> [j \in 1..(IF Len(DriftAsWritten) < 20 THEN Len(DriftAsWritten) ELSE 20) |-> Obs[DriftIdx[DriftAsWritten[j]]].id],
                  calib_bad |-> Len(CalibBad), not_built |-> NotBuilt]>>)
Consumed == TLCGet("stats").diameter - 1 = Len(Obs)
=============================================================================

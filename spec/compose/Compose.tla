------------------------------- MODULE Compose -------------------------------
(* C16.  Render, import and extends compose like their documented expansions.

   A CASE is a small record of dimensions (kind, formats, placement, directory layout, a body of
   items).  From it this module derives
     - VARIANTS: complete template file sets in an abstract syntax (direct `{{ render }}`, the same
       through a variable, the partial on its own, the hand-expanded forms of render / import /
       extends), and their concrete source text (SrcFile), which is what the driver builds;
     - REFERENCE (RefOut): the documented expansion semantics by structural recursion: the value of
       `render "p"` / of a macro call has the format type of p / of the macro and is shown through
       the ordinary show rules of the surrounding context; an extending file is the layout with
       the child's macros; an imported macro is a local one;
     - IMPLEMENTATION-SHAPED model (ImplOut): the emitter's decisions for a show statement
       (emitter_statements.go `case *ast.Show`: canOptimizeShowMacro / the `{{ render }}` fast path /
       the generic emitShow path) and the VM's renderer handling in OpCallMacro / OpReturn
       (run.go), as a stack of renderers.

   The verdict (Trace_Compose) is RELATIONAL and uses real outputs only; RefOut / ImplOut are
   compared with real outputs as diagnostics (drift).
   The escapers (Esc) transcribe what internal/runtime/escapers.go does today on the bytes that
   can occur here; they are shared by the reference and the model because escape spellings are not
   this family's business (C07/C09/C24 judge them). *)
EXTENDS Integers, Sequences, Text, TLC, SequencesExt

Fmts == {"txt", "html", "md", "js"}
Ty(f) == CASE f = "txt" -> "string" [] f = "html" -> "html" [] f = "md" -> "markdown" [] f = "js" -> "js"
FmtOfTy(t) == CASE t = "string" -> "txt" [] t = "html" -> "html" [] t = "markdown" -> "md" [] t = "js" -> "js"
Types == {"string", "html", "markdown", "js"}

(* ---------- atoms: every literal that can reach the output, as source text and as bytes ---------- *)
\* (Trace_Compose checks s against b on the real code with "calib" cases.)
Atom == [
  T     |-> [s |-> "a<&*",         b |-> <<97, 60, 38, 42>>],                    \* text
  G     |-> [s |-> "g<i>&*",       b |-> <<103, 60, 105, 62, 38, 42>>],          \* text with an HTML tag
  Q     |-> [s |-> "q<&",          b |-> <<113, 60, 38>>],                       \* text of the file q
  H     |-> [s |-> "h<&",          b |-> <<104, 60, 38>>],                       \* text of helper macros
  Rr    |-> [s |-> "r<&",          b |-> <<114, 60, 38>>],                       \* text of the innermost file r
  Sh    |-> [s |-> "s<&",          b |-> <<115, 60, 38>>],                       \* text of the shared partial s
  D     |-> [s |-> "WRONG",        b |-> <<87, 82, 79, 78, 71>>],                \* decoys
  C     |-> [s |-> "\"<&\\\"'*\"", b |-> <<60, 38, 34, 39, 42>>],                \* string constant  "<&\"'*"
  lb    |-> [s |-> "[",            b |-> <<91>>],
  rb    |-> [s |-> "]",            b |-> <<93>>],
  apre  |-> [s |-> "<a title=\"",  b |-> <<60, 97, 32, 116, 105, 116, 108, 101, 61, 34>>],
  apost |-> [s |-> "\">",          b |-> <<34, 62>>],
  spre  |-> [s |-> "<script>",     b |-> <<60, 115, 99, 114, 105, 112, 116, 62>>],
  spost |-> [s |-> "</script>",    b |-> <<60, 47, 115, 99, 114, 105, 112, 116, 62>>],
  none  |-> [s |-> "",             b |-> <<>>]
]
TextAtoms == {"T", "G", "Q", "H", "Rr", "Sh", "D", "lb", "rb", "apre", "apost", "spre", "spost"}
\* the Markdown converter fixture of the driver brackets its input
ConvPre == <<91, 109, 100, 58>>      \* [md:
ConvPost == <<58, 109, 100, 93>>     \* :md]
Conv(v) == ConvPre \o v \o ConvPost

(* ---------- placements and contexts ---------- *)
\* A show-like node is placed as plain content ("text"), inside a quoted attribute value or inside <script>.
Placements(f) == IF f \in {"html", "md"} THEN {"text", "attr", "script"} ELSE {"text"}
PreOf(pl) == CASE pl = "text" -> "none" [] pl = "attr" -> "apre" [] pl = "script" -> "spre"
PostOf(pl) == CASE pl = "text" -> "none" [] pl = "attr" -> "apost" [] pl = "script" -> "spost"
\* context of a show-like node: the surrounding content context, or the one the placement opens
CtxAt(ctx, pl) == CASE pl = "text" -> ctx [] pl = "attr" -> "attr" [] pl = "script" -> "js"
Wrap(pl, v) == Atom[PreOf(pl)].b \o v \o Atom[PostOf(pl)].b

(* ---------- escapers on bytes (as escapers.go behaves today, on the bytes that occur here) ---------- *)
UNDEF == <<-1>>                            \* a byte this transcription does not cover (Trace: ref_undefined)
HtmlCh(c) == CASE c = 34 -> <<38, 35, 51, 52, 59>> [] c = 39 -> <<38, 35, 51, 57, 59>> [] c = 38 -> <<38, 97, 109, 112, 59>>
               [] c = 60 -> <<38, 108, 116, 59>> [] c = 62 -> <<38, 103, 116, 59>> [] OTHER -> <<c>>
NoEntCh(c) == IF c = 38 THEN <<c>> ELSE HtmlCh(c)
U00(a, b) == <<92, 117, 48, 48, a, b>>
JsCh(c) == CASE c = 34 -> <<92, 34>> [] c = 92 -> <<92, 92>> [] c = 38 -> U00(50, 54) [] c = 39 -> U00(50, 55)
             [] c = 60 -> U00(51, 99) [] c = 62 -> U00(51, 101) [] c < 32 -> UNDEF [] OTHER -> <<c>>
MdSpecial == {92, 96, 42, 95, 123, 125, 91, 93, 40, 41, 35, 43, 45, 61, 46, 33, 124, 62, 126}
MdCh(c) == IF c \in MdSpecial \cup {60, 38} THEN <<92, c>> ELSE IF c \in {32, 9} THEN UNDEF ELSE <<c>>
\* markdownEscape(s, allowHTML = true): tags are copied, `&` is not escaped - but the code keeps the
\* escape bytes of the previous escaped character in `esc` and writes them before `&` (stale = TRUE).
RECURSIVE MdHtmlFrom(_, _, _, _, _)
MdHtmlFrom(s, i, intag, quote, stale) ==
  IF i > Len(s) THEN <<>>
  ELSE LET c == s[i] IN
    IF intag THEN
      IF quote = 0 /\ c = 62 THEN <<c>> \o MdHtmlFrom(s, i + 1, FALSE, 0, stale)
      ELSE IF quote = 0 /\ c \in {34, 39} THEN <<c>> \o MdHtmlFrom(s, i + 1, TRUE, c, stale)
      ELSE IF quote # 0 /\ c = quote THEN <<c>> \o MdHtmlFrom(s, i + 1, TRUE, 0, stale)
      ELSE <<c>> \o MdHtmlFrom(s, i + 1, TRUE, quote, stale)
    ELSE IF c = 60 THEN (IF i < Len(s) /\ s[i + 1] = 33 THEN UNDEF ELSE <<c>> \o MdHtmlFrom(s, i + 1, TRUE, 0, stale))
    ELSE IF c \in MdSpecial THEN <<92, c>> \o MdHtmlFrom(s, i + 1, FALSE, 0, TRUE)
    ELSE IF c = 38 THEN (IF stale THEN <<92, c>> ELSE <<c>>) \o MdHtmlFrom(s, i + 1, FALSE, 0, stale)
    ELSE IF c \in {32, 9} THEN UNDEF
    ELSE <<c>> \o MdHtmlFrom(s, i + 1, FALSE, 0, stale)

\* the character-wise escapers
Ch(e, c) == CASE e = "html" -> HtmlCh(c) [] e = "noent" -> NoEntCh(c) [] e = "jsstr" -> JsCh(c) [] e = "md" -> MdCh(c)
RECURSIVE MapCh(_, _, _)
MapCh(e, s, i) == IF i > Len(s) THEN <<>> ELSE Ch(e, s[i]) \o MapCh(e, s, i + 1)
Esc(e, v) ==
  CASE e = "raw"    -> v
    [] e = "html"   -> MapCh(e, v, 1)
    [] e = "noent"  -> MapCh(e, v, 1)
    [] e = "jsstr"  -> <<34>> \o MapCh(e, v, 1) \o <<34>>
    [] e = "md"     -> MapCh(e, v, 1)
    [] e = "mdhtml" -> MdHtmlFrom(v, 1, FALSE, 0, FALSE)
    [] e = "conv"   -> Conv(v)
Defined(v) == \A k \in 1..Len(v) : v[k] >= 0

(* ---------- the ordinary show rules: a value of a (format) type shown in a context ---------- *)
\* contexts: the four content contexts (named like the formats) and "attr" (quoted attribute value)
ShowRule(ty, ctx) ==
  CASE ctx = "txt"  -> "raw"
    [] ctx = "html" -> (CASE ty = "html" -> "raw" [] ty = "markdown" -> "conv" [] OTHER -> "html")
    [] ctx = "attr" -> (CASE ty = "html" -> "noent" [] OTHER -> "html")
    [] ctx = "js"   -> (CASE ty = "js" -> "raw" [] OTHER -> "jsstr")
    [] ctx = "md"   -> (CASE ty = "markdown" -> "raw" [] ty = "html" -> "mdhtml" [] OTHER -> "md")
\* "the formats match": the context is the content context of the file's own format
Matches(f, ctx) == ctx = f

(* ---------- paths ---------- *)
\* Path = [dir : Seq(STRING), name : STRING];  Ref = [abs, up, dir, name] as written in the source
RECURSIVE DirStr(_)
DirStr(d) == IF d = <<>> THEN "" ELSE d[1] \o "/" \o DirStr(Tail(d))
PathStr(p) == DirStr(p.dir) \o p.name
Resolve(dir, r) == [dir |-> (IF r.abs THEN <<>> ELSE SubSeq(dir, 1, Len(dir) - r.up)) \o r.dir, name |-> r.name]
P(dir, base, f) == [dir |-> dir, name |-> base \o "." \o f]
AbsRef(p) == [abs |-> TRUE, up |-> 0, dir |-> p.dir, name |-> p.name]

(* ---------- abstract syntax of a template file and its source text ---------- *)
\* nodes: text | show | render | vrender | macro | call | vcall | import | extends   (field n)
TextN(a) == [n |-> "text", a |-> a]
ShowN(a, pl) == [n |-> "show", a |-> a, pl |-> pl]
RenderN(ref, pl) == [n |-> "render", ref |-> ref, pl |-> pl]
VRenderN(ref, var, pl) == [n |-> "vrender", ref |-> ref, var |-> var, pl |-> pl]
MacroN(name, exp, ty, body) == [n |-> "macro", name |-> name, exp |-> exp, ty |-> ty, body |-> body]
CallN(ns, name, pl) == [n |-> "call", ns |-> ns, name |-> name, pl |-> pl]
VCallN(name, var, pl) == [n |-> "vcall", ns |-> "", name |-> name, var |-> var, pl |-> pl]
ImportN(ref, ns, only) == [n |-> "import", ref |-> ref, ns |-> ns, only |-> only]
ExtendsN(ref) == [n |-> "extends", ref |-> ref]
PreN(ref) == [n |-> "pre", ref |-> ref]          \* {% _ = render "ref" %}: the file is parsed and run, nothing is shown
File(path, f, body) == [path |-> path, fmt |-> f, body |-> body]
ShowLike == {"show", "render", "vrender", "call", "vcall"}

\* Source text is produced as a sequence of fragments (the driver concatenates them).
Pre(pl) == Atom[PreOf(pl)].s
Post(pl) == Atom[PostOf(pl)].s
Qual(n) == IF n.ns = "" THEN <<n.name>> ELSE <<n.ns, ".", n.name>>
DirFrags(d) == IF Len(d) = 0 THEN <<>> ELSE IF Len(d) = 1 THEN <<d[1], "/">> ELSE <<d[1], "/", d[2], "/">>     \* directories are <= 2 deep
RefFrags(r) == (IF r.abs THEN <<"/">> ELSE <<>>) \o (IF r.up = 0 THEN <<>> ELSE <<"../">>) \o DirFrags(r.dir) \o <<r.name>>
RECURSIVE SrcNode(_), SrcBody(_, _)
SrcNode(n) ==
  CASE n.n = "text"    -> <<Atom[n.a].s>>
    [] n.n = "show"    -> <<Pre(n.pl), "{{ ", Atom[n.a].s, " }}", Post(n.pl)>>
    [] n.n = "render"  -> <<Pre(n.pl), "{{ render \"">> \o RefFrags(n.ref) \o <<"\" }}", Post(n.pl)>>
    [] n.n = "vrender" -> <<Pre(n.pl), "{% var ", n.var, " = render \"">> \o RefFrags(n.ref) \o <<"\" %}{{ ", n.var, " }}", Post(n.pl)>>
    [] n.n = "macro"   -> <<"{% macro ", n.name>> \o (IF n.ty = "" THEN <<>> ELSE <<" ", n.ty>>) \o <<" %}">> \o SrcBody(n.body, 1) \o <<"{% end %}">>
    [] n.n = "call"    -> <<Pre(n.pl), "{{ ">> \o Qual(n) \o <<"() }}", Post(n.pl)>>
    [] n.n = "vcall"   -> <<Pre(n.pl), "{% var ", n.var, " = ">> \o Qual(n) \o <<"() %}{{ ", n.var, " }}", Post(n.pl)>>
    [] n.n = "import"  -> <<"{% import ">> \o (IF n.ns = "" THEN <<>> ELSE <<n.ns, " ">>) \o <<"\"">> \o RefFrags(n.ref) \o <<"\"">>
                            \o (IF n.only = "" THEN <<>> ELSE <<" for ", n.only>>) \o <<" %}">>
    [] n.n = "extends" -> <<"{% extends \"">> \o RefFrags(n.ref) \o <<"\" %}">>
    [] n.n = "pre"     -> <<"{% _ = render \"">> \o RefFrags(n.ref) \o <<"\" %}">>
SrcBody(body, i) == IF i > Len(body) THEN <<>> ELSE SrcNode(body[i]) \o SrcBody(body, i + 1)
SrcFile(f) == [path |-> PathStr(f.path), src |-> SrcBody(f.body, 1)]

(* ---------- file sets, macro environments ---------- *)
\* a file set is a sequence of files with distinct paths
FileAt(FS, p) == LET k == CHOOSE k \in 1..Len(FS) : FS[k].path = p IN FS[k]
NodesOf(f, kind) == {f.body[k] : k \in {k \in 1..Len(f.body) : f.body[k].n = kind}}
IsExtending(f) == Len(f.body) > 0 /\ f.body[1].n = "extends"
\* an environment entry: the macro `name` (qualified by ns) is visible in the scope of file vis;
\* its body runs in the scope of its home file
HomeOf(f) == [path |-> f.path, fmt |-> f.fmt]       \* what a body needs to know of the file it is written in
Entry(vis, ns, m, home) == [vis |-> PathStr(vis.path), ns |-> ns, name |-> m.name, ty |-> m.ty, body |-> m.body, home |-> HomeOf(home)]
\* (environments are sequences: no set of large records has to be normalised)
Map(sq, F(_)) == [k \in 1..Len(sq) |-> F(sq[k])]
MacrosOf(f) == SelectSeq(f.body, LAMBDA n : n.n = "macro")
ImportsOf(f) == SelectSeq(f.body, LAMBDA n : n.n = "import")
Own(f) == LET ms == MacrosOf(f) IN [k \in 1..Len(ms) |-> Entry(f, "", ms[k], f)]
Exported(f) == SelectSeq(MacrosOf(f), LAMBDA m : m.exp)
RECURSIVE Env(_, _), EnvImports(_, _, _, _)
EnvImports(FS, f, ims, i) ==
  IF i > Len(ims) THEN <<>>
  ELSE LET im == ims[i]
           t == FileAt(FS, Resolve(f.path.dir, im.ref))
           ex == SelectSeq(Exported(t), LAMBDA m : im.only = "" \/ im.only = m.name)
       IN [k \in 1..Len(ex) |-> Entry(f, im.ns, ex[k], t)] \o Env(FS, t) \o EnvImports(FS, f, ims, i + 1)
Env(FS, f) == Own(f) \o EnvImports(FS, f, ImportsOf(f), 1)
\* running an extending file = running its layout with the child's exported macros in the layout's scope
RunFile(FS, f) == IF IsExtending(f) THEN FileAt(FS, Resolve(f.path.dir, f.body[1].ref)) ELSE f
RunEnv(FS, f) == IF IsExtending(f)
                 THEN LET lay == RunFile(FS, f) ex == Exported(f) IN
                      Env(FS, lay) \o [k \in 1..Len(ex) |-> Entry(lay, "", ex[k], f)] \o Env(FS, f)
                 ELSE Env(FS, f)
Lookup(env, home, n) == LET vis == PathStr(home.path) IN
                        env[CHOOSE k \in 1..Len(env) : env[k].vis = vis /\ env[k].ns = n.ns /\ env[k].name = n.name]
MacroFmt(e) == IF e.ty = "" THEN e.home.fmt ELSE FmtOfTy(e.ty)

(* ==================================================================================================
   REFERENCE: the documented expansion semantics, by structural recursion
   ================================================================================================== *)
RECURSIVE RefFile(_, _), RefBody(_, _, _, _, _, _)
\* the bytes written by body[i..] of a file/macro whose source is in `home`, in content context ctx
RefBody(FS, home, env, ctx, body, i) ==
  IF i > Len(body) THEN <<>>
  ELSE LET n == body[i] rest == RefBody(FS, home, env, ctx, body, i + 1) IN
    CASE n.n = "text" -> Atom[n.a].b \o rest
      [] n.n = "show" -> Wrap(n.pl, Esc(ShowRule("string", CtxAt(ctx, n.pl)), Atom[n.a].b)) \o rest
      \* the value of `render "p"` has the format type of p; showing it directly or through a variable
      \* is showing that value by the ordinary rules
      [] n.n \in {"render", "vrender"} ->
           LET t == FileAt(FS, Resolve(home.path.dir, n.ref)) IN
           Wrap(n.pl, Esc(ShowRule(Ty(RunFile(FS, t).fmt), CtxAt(ctx, n.pl)), RefFile(FS, t))) \o rest
      \* a macro call is a value of the macro's result type, wherever the macro was declared
      [] n.n \in {"call", "vcall"} ->
           LET e == Lookup(env, home, n) mf == MacroFmt(e) IN
           Wrap(n.pl, Esc(ShowRule(Ty(mf), CtxAt(ctx, n.pl)), RefBody(FS, e.home, env, mf, e.body, 1))) \o rest
      [] OTHER -> rest
RefFile(FS, f) == LET r == RunFile(FS, f) IN RefBody(FS, HomeOf(r), RunEnv(FS, f), r.fmt, r.body, 1)
RefOut(v) == RefFile(v.fs, FileAt(v.fs, v.main))

(* ==================================================================================================
   IMPLEMENTATION-SHAPED: emitter decisions for {{ expr }} + the VM's renderer stack
   ================================================================================================== *)
\* V = [renderTest, macroTagCtx]:
\*   renderTest  : the `{{ render }}` fast path first tests format/context like canOptimizeShowMacro
\*                 (FALSE = the code as written: no test)
\*   macroTagCtx : inside a macro with an explicit result type the lexer stays in the macro's
\*                 context after an HTML tag (FALSE = as written: `l.ctx = l.tag.ctx` falls back to the
\*                 FILE's tag context: Markdown in a Markdown file, HTML elsewhere)
\* (the tag-context fix is in the tree since caecd73: the code as written has macroTagCtx = TRUE)
AsWritten == [renderTest |-> FALSE, macroTagCtx |-> TRUE]
Fixed == [renderTest |-> TRUE, macroTagCtx |-> TRUE]
BeforeTagFix == [renderTest |-> FALSE, macroTagCtx |-> FALSE]
OnlyRenderFixed == [renderTest |-> TRUE, macroTagCtx |-> FALSE]

\* ast.Format(ctx): the content contexts are formats; ctx > ContextMarkdown (attribute, ...) is none
FormatOfCtx(ctx) == IF ctx = "attr" THEN "other" ELSE ctx
\* canOptimizeShowMacro (format part): `from == to || from == Markdown && to == HTML`, never above ContextMarkdown
CanOptimize(from, ctx) == ctx # "attr" /\ (from = FormatOfCtx(ctx) \/ (from = "md" /\ FormatOfCtx(ctx) = "html"))
\* what the end of an HTML tag resets the lexer context to (lexer.go: `l.ctx = l.tag.ctx; l.tag.ctx = fileContext`,
\* and tag.ctx starts as Markdown in a Markdown file, HTML in every other file: so the first tag of a .txt/.js file
\* resets to HTML and the later ones to the file's own context); tags are seen in HTML and Markdown contexts only
TagCtx(f) == IF f = "md" THEN "md" ELSE "html"
SeesTags(ctx) == ctx \in {"html", "md"}

Top(rs) == rs[Len(rs)]
Put(rs, b) == [rs EXCEPT ![Len(rs)] = @ \o b]
Pop(rs) == SubSeq(rs, 1, Len(rs) - 1)

RECURSIVE ImplBody(_, _, _, _, _, _, _, _, _), ImplCall(_, _, _, _, _, _)
\* OpCallMacro b / body / OpReturn.  callee = [home, fmt, body]; b = "ReturnString" or the format the
\* show statement wants (ast.Format(ctx)).  Returns the renderer stack after OpReturn; for
\* ReturnString the returned string is left as an extra top element for the caller to consume.
ImplCall(FS, callee, env, b, rs, V) ==
  LET run(rs0) == ImplBody(FS, callee.home, env, callee.fmt, TagCtx(callee.home.fmt), callee.body, 1, rs0, V) IN
  IF b = "ReturnString" THEN run(Append(rs, <<>>))                  \* vm.renderer = newRenderer(&strings.Builder{})
  ELSE IF b # callee.fmt THEN
    IF callee.fmt = "md" /\ b = "html"
    THEN LET r1 == run(Append(rs, <<>>)) IN                         \* newRenderer(&bytes.Buffer{}); OpReturn: conv(buffer, caller's out)
         Put(Pop(r1), Conv(Top(r1)))
    ELSE run(rs)                                                    \* newRenderer(vm.renderer.out): same out, nothing on return
  ELSE run(rs)                                                      \* same renderer
\* one show-like node whose expression is a macro call / a render expression (callee), shown in context c
ImplShowCallee(FS, callee, env, c, fast, rs, V) ==
  IF fast
  THEN ImplCall(FS, callee, env, FormatOfCtx(c), rs, V)                      \* emitCallNode(..., ast.Format(ctx))
  ELSE LET r1 == ImplCall(FS, callee, env, "ReturnString", rs, V) IN         \* emitExpr; emitShow(type, ctx)
       Put(Pop(r1), Esc(ShowRule(Ty(callee.fmt), c), Top(r1)))
ImplBody(FS, home, env, ctx, tagctx, body, i, rs, V) ==
  IF i > Len(body) THEN rs
  ELSE LET n == body[i] IN
    IF n.n = "text" THEN
      \* after an HTML tag the lexer context becomes tag.ctx
      LET tag == n.a = "G" /\ SeesTags(ctx)
          ctx2 == IF tag /\ ~V.macroTagCtx THEN tagctx ELSE ctx
          tagctx2 == IF tag THEN home.fmt ELSE tagctx IN
      ImplBody(FS, home, env, ctx2, tagctx2, body, i + 1, Put(rs, Atom[n.a].b), V)
    ELSE IF n.n = "show" THEN
      ImplBody(FS, home, env, ctx, tagctx, body, i + 1,
               Put(rs, Wrap(n.pl, Esc(ShowRule("string", CtxAt(ctx, n.pl)), Atom[n.a].b))), V)
    ELSE IF n.n \in {"render", "vrender", "call", "vcall"} THEN
      LET c == CtxAt(ctx, n.pl)
          isRender == n.n \in {"render", "vrender"}
          t == FileAt(FS, Resolve(home.path.dir, n.ref))
          e == Lookup(env, home, n)
          callee == IF isRender
                    THEN LET r == RunFile(FS, t) IN [home |-> HomeOf(r), fmt |-> r.fmt, body |-> r.body]
                    ELSE [home |-> e.home, fmt |-> MacroFmt(e), body |-> e.body]
          cenv == IF isRender THEN RunEnv(FS, t) ELSE env
          fast == CASE n.n = "call"   -> CanOptimize(callee.fmt, c)                                   \* canOptimizeShowMacro
                    [] n.n = "render" -> IF V.renderTest THEN CanOptimize(callee.fmt, c) ELSE TRUE    \* "Optimize {{ render "path" }}"
                    [] OTHER          -> FALSE                                                        \* a variable is shown by emitShow
          r1 == ImplShowCallee(FS, callee, cenv, c, fast, Put(rs, Atom[PreOf(n.pl)].b), V)
      IN ImplBody(FS, home, env, ctx, tagctx, body, i + 1, Put(r1, Atom[PostOf(n.pl)].b), V)
    ELSE ImplBody(FS, home, env, ctx, tagctx, body, i + 1, rs, V)
ImplFile(FS, f, V) == LET r == RunFile(FS, f) IN
                      ImplBody(FS, HomeOf(r), RunEnv(FS, f), r.fmt, TagCtx(r.fmt), r.body, 1, << <<>> >>, V)[1]
ImplOut(v, V) == ImplFile(v.fs, FileAt(v.fs, v.main), V)

(* ==================================================================================================
   CASES -> VARIANTS
   ================================================================================================== *)
\* body item = [k, f, g]:  T text | G text with a tag | S show constant | R render q.f | V the same through a
\* variable | K macro declaration (result type f, "" = none) followed by its call
\* | N render n<g>.f, a file of format f that itself renders r.g (nesting depth 3 below the main file)
\* | Y render the shared partial /e/s.f (a directory no body is written in), then render q.f by its relative path;
\*     the main file has rendered /e/s.f before (the partial is shared by two files)
\* | Z render /e/s.f twice, then q.f by its relative path (the partial is referenced twice from one file)
MTypes == {""} \cup Types
It(k, f, g) == [k |-> k, f |-> f, g |-> g]
ItemsNoK == {It(x, "", "") : x \in {"T", "G", "S"}} \cup {It(x, f, "") : x \in {"R", "V"}, f \in Fmts}
ItemsAll == ItemsNoK \cup {It("K", t, "") : t \in MTypes}
ItemsRV == {It(x, f, "") : x \in {"R", "V"}, f \in Fmts}
ItemsPlain == {It("T", "", ""), It("S", "", "")}
ItemsN(F, G) == {It("N", f, g) : f \in F, g \in G}
ItemsYZ(F) == {It(x, f, "") : x \in {"Y", "Z"}, f \in F}
Special(it) == it.k \in {"N", "Y", "Z"}
HasK(body) == \E i \in 1..Len(body) : body[i].k = "K"
HasY(body) == \E i \in 1..Len(body) : body[i].k = "Y"
Of(body, ks) == {body[i] : i \in {i \in 1..Len(body) : body[i].k \in ks}}
QFmts(body) == {it.f : it \in Of(body, {"R", "V", "Y", "Z"})}
SharedDir == <<"e">>
SRef(f) == AbsRef(P(SharedDir, "s", f))
NName(it) == "n" \o it.g \o "." \o it.f

\* nodes of a body; fref(name) is how the file `name` of q's directory is referred to from where the body is written
ItemNodes(it, i, fref(_)) ==
  LET k == ToString(i) IN
  CASE it.k = "T" -> <<TextN("T")>>
    [] it.k = "G" -> <<TextN("G")>>
    [] it.k = "S" -> <<ShowN("C", "text")>>
    [] it.k = "R" -> <<RenderN(fref("q." \o it.f), "text")>>
    [] it.k = "V" -> <<VRenderN(fref("q." \o it.f), "w" \o k, "text")>>
    [] it.k = "K" -> <<MacroN("M" \o k, TRUE, it.f, <<TextN("H"), ShowN("C", "text")>>), CallN("", "M" \o k, "text")>>
    [] it.k = "N" -> <<RenderN(fref(NName(it)), "text")>>
    [] it.k = "Y" -> <<RenderN(SRef(it.f), "text"), RenderN(fref("q." \o it.f), "text")>>
    [] it.k = "Z" -> <<RenderN(SRef(it.f), "text"), RenderN(SRef(it.f), "text"), RenderN(fref("q." \o it.f), "text")>>
BodyNodes(body, fref(_)) ==      \* bodies have at most 3 items
  (IF Len(body) >= 1 THEN ItemNodes(body[1], 1, fref) ELSE <<>>) \o (IF Len(body) >= 2 THEN ItemNodes(body[2], 2, fref) ELSE <<>>)
  \o (IF Len(body) >= 3 THEN ItemNodes(body[3], 3, fref) ELSE <<>>)
\* what the main file does first when the body has a Y item: it renders the shared partial(s) itself
PreNodes(body) == SetToSeq({PreN(SRef(it.f)) : it \in Of(body, {"Y"})})

QBody == <<TextN("Q"), ShowN("C", "text")>>
DecoyBody == <<TextN("D")>>
RelName(name) == [abs |-> FALSE, up |-> 0, dir |-> <<>>, name |-> name]
QFiles(body, qdir) ==
  SetToSeq({File(P(qdir, "q", f), f, QBody) : f \in QFmts(body)}
           \cup {File([dir |-> qdir, name |-> NName(it)], it.f, <<TextN("Q"), RenderN(RelName("r." \o it.g), "text"), ShowN("C", "text")>>)
                   : it \in Of(body, {"N"})}
           \cup {File(P(qdir, "r", it.g), it.g, <<TextN("Rr"), ShowN("C", "text")>>) : it \in Of(body, {"N"})}
           \cup {File(P(SharedDir, "s", it.f), it.f, <<TextN("Sh"), ShowN("C", "text")>>) : it \in Of(body, {"Y", "Z"})})
\* decoys: a q file wherever a wrongly resolved relative path could land (for Y also next to the shared partial)
Decoys(body, dirs) == SetToSeq({File(P(dd, "q", f), f, DecoyBody) : f \in QFmts(body), dd \in dirs}
                               \cup {File(P(SharedDir, "q", it.f), it.f, DecoyBody) : it \in Of(body, {"Y"})})
Var(name, main, fs) == [name |-> name, main |-> main, fs |-> fs]
Host(x) == <<TextN("lb"), x, TextN("rb")>>

\* -- directory layouts: where the main file (hd), the partial/imported file/layout (pd) and q (qd) live, how
\*    they are referred to (pref from hd, qref from where the body is written), and where decoy q files are
R0(up, dir) == [abs |-> FALSE, up |-> up, dir |-> dir]
RA(dir) == [abs |-> TRUE, up |-> 0, dir |-> dir]
LayRec(hd, pd, pref, qd, qref, decoy) == [hd |-> hd, pd |-> pd, pref |-> pref, qd |-> qd, qref |-> qref, decoy |-> decoy]
Flat == LayRec(<<>>, <<>>, R0(0, <<>>), <<>>, R0(0, <<>>), {})
Lay(kind, lay) ==
  IF lay = 0 THEN Flat
  ELSE IF kind = "render" THEN
    CASE lay = 1 -> LayRec(<<>>,    <<"d">>,      R0(0, <<"d">>), <<"d">>,      R0(0, <<>>),         {<<>>})
      [] lay = 2 -> LayRec(<<"d">>, <<>>,         RA(<<>>),       <<"d", "e">>, R0(0, <<"d", "e">>), {})
      [] lay = 3 -> LayRec(<<"d">>, <<"d", "e">>, R0(0, <<"e">>), <<"d">>,      R0(1, <<>>),         {<<>>, <<"d", "e">>})
  ELSE IF kind = "import" THEN
                    LayRec(<<>>,    <<"d">>,      R0(0, <<"d">>), <<"d">>,      R0(0, <<>>),         {<<>>})
  ELSE \* "extends": hd = directory of the extending (main) file, pd = of the layout; q is relative to hd
    CASE lay = 1 -> LayRec(<<"d">>, <<>>,         R0(1, <<>>),    <<"d">>,      R0(0, <<>>),         {<<>>})
      [] lay = 2 -> LayRec(<<"d">>, <<>>,         RA(<<>>),       <<"d">>,      R0(0, <<>>),         {<<>>})
MkRef(r, name) == [abs |-> r.abs, up |-> r.up, dir |-> r.dir, name |-> name]

\* d = [kind, hf, pl, pf, lay, body, imp, clash]
Variants(d) ==
  LET L == Lay(d.kind, d.lay)
      qrel(nm) == MkRef(L.qref, nm)                                 \* a file of q's directory as written in the partial/imported/extending file
      qabs(nm) == AbsRef([dir |-> L.qd, name |-> nm])               \* ... as written in a hand-expanded form
      pre == PreNodes(d.body)
      rel == BodyNodes(d.body, qrel)
      abs == BodyNodes(d.body, qabs)
      qs == QFiles(d.body, L.qd) \o Decoys(d.body, L.decoy)
  IN
  IF d.kind = "render" THEN
    LET host == P(L.hd, "index", d.hf)
        part == P(L.pd, "p", d.pf)
        pref == MkRef(L.pref, part.name)
        pfile == File(part, d.pf, rel)
        direct == <<File(host, d.hf, pre \o Host(RenderN(pref, d.pl))), pfile>> \o qs
    IN <<Var("direct", host, direct),
         Var("viaVar", host, <<File(host, d.hf, pre \o Host(VRenderN(pref, "v", d.pl))), pfile>> \o qs),
         Var("alone", part, direct)>>
       \o (IF HasK(d.body) THEN <<>>     \* a macro cannot be declared inside a macro: no single-macro expansion
           ELSE <<Var("expanded", host,
                      <<File(host, d.hf, pre \o <<MacroN("R", TRUE, Ty(d.pf), abs)>> \o Host(CallN("", "R", d.pl)))>> \o qs)>>)
  ELSE IF d.kind = "call" THEN           \* pf = the macro's explicit result type ("" = none)
    LET host == P(<<>>, "index", d.hf) decl == MacroN("M", TRUE, d.pf, rel) IN
    <<Var("direct", host, <<File(host, d.hf, pre \o <<decl>> \o Host(CallN("", "M", d.pl)))>> \o qs),
      Var("viaVar", host, <<File(host, d.hf, pre \o <<decl>> \o Host(VCallN("M", "v", d.pl)))>> \o qs)>>
  ELSE IF d.kind = "import" THEN
    LET host == P(L.hd, "index", d.hf)
        imp == P(L.pd, "m", d.pf)
        ns == IF d.imp = "ns" THEN "x" ELSE ""
        ifile == File(imp, d.pf, <<MacroN("h", FALSE, "", <<TextN("H")>>),
                                   MacroN("K", TRUE, "", rel \o <<CallN("", "h", "text")>>),
                                   MacroN("J", TRUE, "", <<TextN("D")>>)>>)
        decoy == MacroN("h", FALSE, "", <<TextN("D")>>)             \* the importing file's own h
    IN <<Var("imported", host,
             \* (an import must come first: here the shared partial is first met in the imported file)
             <<File(host, d.hf, <<ImportN(MkRef(L.pref, imp.name), ns, IF d.imp = "for" THEN "K" ELSE ""), decoy>> \o pre
                                \o Host(CallN(ns, "K", d.pl))), ifile>> \o qs),
         Var("local", host,
             <<File(host, d.hf, <<MacroN("hX", FALSE, Ty(d.pf), <<TextN("H")>>),
                                  MacroN("K", TRUE, Ty(d.pf), abs \o <<CallN("", "hX", "text")>>), decoy>> \o pre
                                \o Host(CallN("", "K", d.pl)))>> \o qs)>>
  ELSE IF d.kind = "extends" THEN        \* hf = format of the extending file, pf = of the layout
    LET child == P(L.hd, "index", d.hf)
        lay == P(L.pd, "layout", d.pf)
        clash == IF d.clash THEN <<MacroN("Body", TRUE, "", <<TextN("D")>>)>> ELSE <<>>
        decoy == MacroN("h", FALSE, "", <<TextN("D")>>)             \* the layout's own h
        use == Host(CallN("", "Body", d.pl))
        cfile == File(child, d.hf, <<ExtendsN(MkRef(L.pref, lay.name)), MacroN("h", FALSE, "", <<TextN("H")>>),
                                     MacroN("Body", TRUE, "", rel \o <<CallN("", "h", "text")>>)>>)
    IN <<Var("extends", child, <<cfile, File(lay, d.pf, pre \o clash \o <<decoy>> \o use)>> \o qs),
         Var("expanded", lay,
             <<File(lay, d.pf, pre \o clash \o <<MacroN("hX", FALSE, Ty(d.hf), <<TextN("H")>>),
                                          MacroN("Body", TRUE, Ty(d.hf), abs \o <<CallN("", "hX", "text")>>), decoy>> \o use)>> \o qs)>>
  ELSE \* "calib": one text file per text atom (pf = atom name)
    <<Var("atom", P(<<>>, "index", "txt"), <<File(P(<<>>, "index", "txt"), "txt", <<TextN(d.pf)>>)>>)>>

\* the model is defined for variants that build: here, all but a layout that redeclares the child's macro
ModelDefined(d) == d.kind # "calib" /\ ~d.clash
VariantOf(d, name) == LET vs == Variants(d) IN vs[CHOOSE i \in 1..Len(vs) : vs[i].name = name]

(* ---------- the relations the property states, on whatever assigns outputs to variants ---------- *)
\* A relation = [rel, a, b, pre, post]: out(a) = pre \o out(b) \o post.
\* "formats match": the context in which the render expression is shown is the partial's own format.
Relations(d) ==
  LET eq(r, a, b) == [rel |-> r, a |-> a, b |-> b, pre |-> <<>>, post |-> <<>>] IN
  IF d.kind = "render" THEN
    {eq("direct=viaVar", "direct", "viaVar")}
    \cup (IF HasK(d.body) THEN {} ELSE {eq("direct=expanded", "direct", "expanded")})
    \cup (IF Matches(d.pf, CtxAt(d.hf, d.pl))
          THEN {[rel |-> "direct=alone", a |-> "direct", b |-> "alone",
                 pre |-> Atom.lb.b \o Atom[PreOf(d.pl)].b, post |-> Atom[PostOf(d.pl)].b \o Atom.rb.b]}
          ELSE {})
  ELSE IF d.kind = "call" THEN {eq("call=viaVar", "direct", "viaVar")}
  ELSE IF d.kind = "import" THEN {eq("import=local", "imported", "local")}
  ELSE IF d.kind = "extends" THEN {eq("extends=expanded", "extends", "expanded")}
  ELSE {}
HoldsOn(d, out(_)) == \A r \in Relations(d) : out(r.a) = r.pre \o out(r.b) \o r.post

\* where the code as written can leave the reference (named causes):
\*  (1) a `{{ render }}` of a file whose format is not written as-is in the context of the show statement
ShowNodes(body) == {body[j] : j \in {j \in 1..Len(body) : body[j].n \in ShowLike}}
ShowSites(FS) ==   \* [ctx, node, dir] of every show-like node, in file bodies and in macro bodies
  UNION {{[ctx |-> CtxAt(FS[k].fmt, b.pl), node |-> b, dir |-> FS[k].path.dir] : b \in ShowNodes(FS[k].body)}
         \cup UNION {{[ctx |-> CtxAt(IF m.ty = "" THEN FS[k].fmt ELSE FmtOfTy(m.ty), b.pl), node |-> b, dir |-> FS[k].path.dir] :
                        b \in ShowNodes(m.body)} : m \in NodesOf(FS[k], "macro")}
         : k \in 1..Len(FS)}
MismatchedRender(FS) ==
  \E st \in ShowSites(FS) : st.node.n = "render" /\ ~CanOptimize(RunFile(FS, FileAt(FS, Resolve(st.dir, st.node.ref))).fmt, st.ctx)
\*  (2) a tag in the body of a macro whose explicit type is html/markdown and not the file's format
ForeignTagMacro(FS) ==
  \E k \in 1..Len(FS) :
     \E m \in NodesOf(FS[k], "macro") : /\ m.ty # "" /\ SeesTags(FmtOfTy(m.ty)) /\ FmtOfTy(m.ty) # FS[k].fmt
                                        /\ \E j \in 1..Len(m.body) : m.body[j] = TextN("G")
=============================================================================

---------------------------- MODULE Trace_URLState ----------------------------
(* Judges observations of templates `<a href="...">` / `<img src|srcset="...">` run through the real code:
   {id, kind:"url", attr, items, outcome, msg, out, pre, post, src}. *)
EXTENDS URLState, TLC, Json

Known(r) == r.attr \in Attrs /\ \A i \in 1..Len(r.items) : r.items[i] \in ItemSet
\* the property-level predicate: Run did not panic (an empty string is a valid variable value)
RecOk(r) == r.outcome # "hostpanic"
Model(r) == FinalState(r.attr, r.items)
\* root cause according to the model: which out-of-range read, if any
Sig(r) == [fam |-> "urlstate",
           cause |-> IF ~Known(r) THEN "unknown-case" ELSE IF Model(r).fault # "" THEN Model(r).fault ELSE "not-in-model"]
\* diagnostic: the real outcome / attribute value differs from the implementation-shaped model
AttrValue(r) == Sub(r.out, Len(r.pre) + 1, Len(r.out) - Len(r.post))
Drift(r) == Known(r) /\ LET m == Model(r) IN
            IF m.fault # "" THEN r.outcome # "hostpanic"
            ELSE r.outcome # "nil" \/ r.out # r.pre \o m.out \o r.post

(* ---- record-walk skeleton (same in every record-per-line Trace spec; see spec/README) ---- *)
VARIABLES l, nbad
Obs == ndJsonDeserialize("obs.ndjson")
Init == l = 1 /\ nbad = 0
Next == l <= Len(Obs) /\ l' = l + 1 /\ nbad' = nbad + (IF RecOk(Obs[l]) THEN 0 ELSE 1)
BadIdx == SelectSeq([i \in 1..Len(Obs) |-> i], LAMBDA i : ~RecOk(Obs[i]))
DriftIdx == SelectSeq([i \in 1..Len(Obs) |-> i], LAMBDA i : Drift(Obs[i]))
UndefIdx == SelectSeq([i \in 1..Len(Obs) |-> i], LAMBDA i : ~Known(Obs[i]))
Done == l = Len(Obs) + 1 =>
          /\ ndJsonSerialize("bad.ndjson",
               IF nbad = 0 THEN <<>>
               ELSE [j \in 1..(IF Len(BadIdx) < 4000 THEN Len(BadIdx) ELSE 4000) |->
                       [k |-> BadIdx[j], id |-> Obs[BadIdx[j]].id, sig |-> Sig(Obs[BadIdx[j]]), nbad |-> nbad]])
          /\ ndJsonSerialize("diag.ndjson",
               <<[drift |-> [j \in 1..(IF Len(DriftIdx) < 200 THEN Len(DriftIdx) ELSE 200) |-> Obs[DriftIdx[j]].id],
                  ndrift |-> Len(DriftIdx), ref_undefined |-> Len(UndefIdx)]>>)
Consumed == TLCGet("stats").diameter - 1 = Len(Obs)
=============================================================================

----------------------------- MODULE MC_URLState -----------------------------
(* All sequences of <= MaxLen items (text piece | shown value, over the 8 pieces) in href / src / srcset:
   the renderer machine of URLState.tla against the reference invariants; export of the sequences of
   length <= GenLen as cases. *)
EXTENDS URLState, TLC, Json, FiniteSets, SequencesExt
CONSTANTS MaxLen, GenLen
VARIABLES attr, items,      \* the attribute and the items written so far (the case)
          rprev, pending,   \* renderer state before the trailing run of text pieces, and that run merged (one Text instruction)
          r                 \* renderer state after `items`
IsSet == attr = "srcset"
Init == attr \in Attrs /\ items = <<>> /\ rprev = R0 /\ pending = <<>> /\ r = R0
\* the template continues with a text piece: it extends the current Text instruction
AddText(p) == /\ Len(items) < MaxLen /\ items' = Append(items, <<0, p>>)
              /\ pending' = pending \o p
              /\ r' = IF pending' = <<>> THEN rprev ELSE Step(rprev, <<0, pending'>>, IsSet)
              /\ UNCHANGED <<attr, rprev>>
\* the template continues with {{ v }}
AddShow(v) == /\ Len(items) < MaxLen /\ items' = Append(items, <<1, v>>)
              /\ r' = Step(r, <<1, v>>, IsSet) /\ rprev' = r' /\ pending' = <<>>
              /\ UNCHANGED attr
Next == \E p \in Pieces : AddText(p) \/ AddShow(p)

InvFieldComments == FieldComments(r) /\ (r.fault = "" => FieldComments(EndURL(r)))
InvNoActionFault == NoActionFault(r)
InvValuesDecodeBack == ValuesDecodeBack(r)
InvQueryValuesConfined == QueryValuesConfined(r)                           \* fails in srcset (text ",?")
InvEndResets == LET e == EndURL(r) IN ~e.inURL /\ ~e.query /\ ~e.addAmp /\ ~e.removeQM
\* the action-wise machine and the functional form used by Trace_URLState agree
InvFunctionalAgrees == r = InURLState(attr, items)

\* (LET-bound values are evaluated once; a top-level definition would be re-evaluated at every use)
ASSUME LET A == SetToSeq(Attrs)  S == SetToSeq(SeqsUpTo(ItemSet, GenLen)) IN
       ndJsonSerialize("cases.ndjson",
          [i \in 1..(Len(S) * 3) |-> [id |-> i, kind |-> "url", attr |-> A[((i - 1) % 3) + 1], items |-> S[((i - 1) \div 3) + 1]]])
\* the holes of the implementation-shaped model among the exported sequences: an out-of-range read, or a value in
\* a query-value position written with a raw '&' / '#'  (diagnostic: model_counterexample)
HoleKind(a, its) == LET s == InURLState(a, its) IN
                    IF s.fault # "" THEN s.fault
                    ELSE IF ~QueryValuesConfined(s) THEN "query value not confined" ELSE ""
ASSUME LET S == SetToSeq(SeqsUpTo(ItemSet, IF GenLen < 3 THEN GenLen ELSE 3))
           K == [i \in 1..Len(S) |-> [a \in {"href", "srcset"} |-> HoleKind(a, S[i])]]      \* src behaves as href (not a set)
           H == SelectSeq([i \in 1..Len(S) |-> i], LAMBDA i : \E a \in {"href", "srcset"} : K[i][a] # "") IN
       ndJsonSerialize("url_model_holes.ndjson", [j \in 1..Len(H) |-> [items |-> S[H[j]], kinds |-> K[H[j]]]])
=============================================================================

----------------------------- MODULE Trace_Faults -----------------------------
(* Judges observations of the real code, one record per line of obs.ndjson:
   {id, kind:"fault", fault, situation, form, opt, outcome, msg, printed, recovered, src}
   {id, kind:"show", value, ctx, box, outcome, msg, out, src}
   outcome is the class the driver saw under its host recover(): nil | panicerror | stoperr | ctxerr | othererror |
   hostpanic | processdeath (the child process that ran the case died). *)
EXTENDS Faults, TLC, Json

IsFault(r) == r.kind = "fault"
Known(r) == IF IsFault(r) THEN r.fault \in FaultNames /\ r.situation \in Situations /\ r.form \in Forms /\ r.opt \in Opts
            ELSE r.value \in ShowValues /\ r.ctx \in ShowContexts /\ r.box \in Boxes
CaseOf(r) == [fault |-> r.fault, situation |-> r.situation, form |-> r.form, opt |-> r.opt]
\* a record the reference has no row for is skipped and counted (ref_undefined), never failed
RecOk(r) == ~Known(r) \/ (IF IsFault(r) THEN OutcomeOk(CaseOf(r), r.outcome) ELSE ShowOk(r.outcome))
\* root cause (signature only): the instruction class at which the fault surfaces / the callback machine when the
\* implementation-shaped model says that the fault by itself reaches the host; otherwise the situation class
\* (the fault is converted, something in the situation - the sequence, the run options - breaks the run)
Cause(r) == LET f == FaultByName(r.fault)
                own == IF f.nested = "panics" THEN "callback-vm" ELSE f.op IN
            IF ModelOutcome(CaseOf(r)) = "hostpanic" THEN own
            ELSE <<"situation", SituationClass(r.situation), r.form, r.opt>>
Sig(r) == IF ~Known(r) THEN [fam |-> "faults", fault |-> "unknown-case", cause |-> "unknown-case"]
          ELSE IF IsFault(r) THEN
               [fam |-> "faults", cause |-> Cause(r),
                \* the fault class when the fault's own conversion is the cause, else only how the fault ends per the reference
                fault |-> IF ModelOutcome(CaseOf(r)) = "hostpanic" THEN FaultByName(r.fault).class ELSE RefClass(r.fault)]
          ELSE [fam |-> "show", value |-> ValueClass(r.value), ctxclass |-> CtxClass(r.ctx), ctx |-> r.ctx]

(* ---- record-walk skeleton (same in every record-per-line Trace spec; see spec/README) ---- *)
VARIABLES l, nbad
Obs == ndJsonDeserialize("obs.ndjson")
\* (the variables of the run machine of Faults.tla are not used by the walk: pinned)
Pinned == cs = "-" /\ pc = 0 /\ acc = "-" /\ raised = "-" /\ phase = "-" /\ closes = 0 /\ result = "-"
Init == l = 1 /\ nbad = 0 /\ Pinned
Next == l <= Len(Obs) /\ l' = l + 1 /\ nbad' = nbad + (IF RecOk(Obs[l]) THEN 0 ELSE 1) /\ UNCHANGED vars
BadIdx == SelectSeq([i \in 1..Len(Obs) |-> i], LAMBDA i : ~RecOk(Obs[i]))
\* diagnostics (never a verdict): records whose outcome differs from the implementation-shaped model
\* (model_drift) or from the outcome class the reference expects (e.g. a fault that returns nil)
DriftIdx == SelectSeq([i \in 1..Len(Obs) |-> i], LAMBDA i : Known(Obs[i]) /\ IsFault(Obs[i]) /\ Obs[i].outcome # ModelOutcome(CaseOf(Obs[i])))
RefMissIdx == SelectSeq([i \in 1..Len(Obs) |-> i], LAMBDA i : Known(Obs[i]) /\ IsFault(Obs[i]) /\ RecOk(Obs[i]) /\ Obs[i].outcome \notin RefOutcomes(CaseOf(Obs[i])))
UndefIdx == SelectSeq([i \in 1..Len(Obs) |-> i], LAMBDA i : ~Known(Obs[i]))
Done == l = Len(Obs) + 1 =>
          /\ ndJsonSerialize("bad.ndjson",
               IF nbad = 0 THEN <<>>
               ELSE [j \in 1..(IF Len(BadIdx) < 4000 THEN Len(BadIdx) ELSE 4000) |->
                       [k |-> BadIdx[j], id |-> Obs[BadIdx[j]].id, sig |-> Sig(Obs[BadIdx[j]]), nbad |-> nbad]])
          /\ ndJsonSerialize("diag.ndjson",
               <<[drift |-> [j \in 1..Len(DriftIdx) |-> Obs[DriftIdx[j]].id],
                  refmiss |-> [j \in 1..Len(RefMissIdx) |-> Obs[RefMissIdx[j]].id],
                  ref_undefined |-> Len(UndefIdx)]>>)
Consumed == TLCGet("stats").diameter - 1 = Len(Obs)
=============================================================================

----------------------------- MODULE Trace_Faults -----------------------------
(* Judges observations of the real code: one record per line of obs.ndjson,
   {id, kind:"fault", fault, situation, form, outcome, msg, printed, recovered, src}.
   outcome is the class the driver saw under its host recover(): nil | panicerror | othererror | hostpanic. *)
EXTENDS Faults, TLC, Json

Known(r) == r.fault \in FaultNames /\ r.situation \in Situations /\ r.form \in Forms
CaseOf(r) == [fault |-> r.fault, situation |-> r.situation, form |-> r.form]
\* a record the reference has no row for is skipped and counted (ref_undefined), never failed
RecOk(r) == ~Known(r) \/ OutcomeOk(CaseOf(r), r.outcome)
\* root cause (signature only): the instruction class at which the fault surfaces / the callback machine; the
\* renderer lost after a defer in a function literal of a template is named only when, according to the
\* implementation-shaped model, the fault by itself would not have reached the host
Cause(r) == LET f == FaultByName(r.fault)
                own == IF f.nested = "panics" THEN "callback-vm" ELSE f.op IN
            IF RendererLost(CaseOf(r)) /\ ModelOutcomeWith(CaseOf(r), FALSE) # "hostpanic" THEN "defer-in-template-function"
            ELSE own
Sig(r) == IF Known(r) THEN [fam |-> "faults", fault |-> FaultByName(r.fault).class, cause |-> Cause(r)]
          ELSE [fam |-> "faults", fault |-> r.fault, cause |-> "unknown-case"]

(* ---- record-walk skeleton (same in every record-per-line Trace spec; see spec/README) ---- *)
VARIABLES l, nbad
Obs == ndJsonDeserialize("obs.ndjson")
\* (the variables of the run machine of Faults.tla are not used by the walk: pinned)
Pinned == cs = "-" /\ phase = "-" /\ op = "-" /\ pv = "-" /\ recovering = FALSE /\ result = "-"
Init == l = 1 /\ nbad = 0 /\ Pinned
Next == l <= Len(Obs) /\ l' = l + 1 /\ nbad' = nbad + (IF RecOk(Obs[l]) THEN 0 ELSE 1) /\ UNCHANGED vars
BadIdx == SelectSeq([i \in 1..Len(Obs) |-> i], LAMBDA i : ~RecOk(Obs[i]))
\* diagnostics (never a verdict): records whose outcome differs from the implementation-shaped model
\* (model_drift) or from the outcome class the reference expects (e.g. a fault that returns nil)
DriftIdx == SelectSeq([i \in 1..Len(Obs) |-> i], LAMBDA i : Known(Obs[i]) /\ Obs[i].outcome # ModelOutcome(CaseOf(Obs[i])))
RefMissIdx == SelectSeq([i \in 1..Len(Obs) |-> i], LAMBDA i : Known(Obs[i]) /\ RecOk(Obs[i]) /\ Obs[i].outcome \notin RefOutcomes(CaseOf(Obs[i])))
UndefIdx == SelectSeq([i \in 1..Len(Obs) |-> i], LAMBDA i : ~Known(Obs[i]))
Done == l = Len(Obs) + 1 =>
          /\ ndJsonSerialize("bad.ndjson",
               IF nbad = 0 THEN <<>>
               ELSE [j \in 1..(IF Len(BadIdx) < 4000 THEN Len(BadIdx) ELSE 4000) |->
                       [k |-> BadIdx[j], id |-> Obs[BadIdx[j]].id, sig |-> Sig(Obs[BadIdx[j]]), nbad |-> nbad]])
          /\ ndJsonSerialize("diag.ndjson",
               <<[drift |-> [j \in 1..Len(DriftIdx) |-> Obs[DriftIdx[j]].id],
                  refmiss |-> [j \in 1..Len(RefMissIdx) |-> Obs[RefMissIdx[j]].id],
                  ref_undefined |-> Len(UndefIdx)]>>)
Consumed == TLCGet("stats").diameter - 1 = Len(Obs)
=============================================================================

------------------------------ MODULE URLState ------------------------------
(* C05 - renderer state in URL attributes (internal/runtime/renderer.go).

   A URL attribute value is a sequence of items: text pieces (k = 0) and shown values (k = 1).
   IMPLEMENTATION-SHAPED: the renderer's (inURL, query, addAmpersand, removeQuestionMark) machine with the
   actions Text(piece), Show(value), EndURL, transcribed branch by branch from renderer.Text / showInURL /
   endURL, including the reads txt[0] and s[len(s)-1] (an out-of-range read marks `fault`); the compiler's
   merging of adjacent text pieces (builder emitText / flushText) and pathEscape / queryEscape restricted to
   the bytes of the piece alphabet.
   REFERENCE: the field comments ("can be true only if it is in a URL"), no action faults, every shown value
   can be decoded back from what was written for it, and a value shown after a '?' of the template's own text
   is written as ONE query value (no raw '&' or '#').  Only "Run does not panic" is a clause of C05 (judged
   on the real code by Trace_URLState); the others are checked on the model and are diagnostic. *)
EXTENDS Integers, Sequences, Text

QM == 63  AMP == 38  HASH == 35  COMMA == 44  PCT == 37  SEMI == 59
AMPENT == <<38, 97, 109, 112, 59>>                \* &amp;
Hex == <<48,49,50,51,52,53,54,55,56,57,97,98,99,100,101,102>>   \* hexchars = "0123456789abcdef"

Pieces == {<<>>, <<97>>, <<QM>>, <<97, QM, 98>>, <<AMP>>, <<97, AMP>>, <<HASH>>, <<COMMA>>}
Attrs == {"href", "src", "srcset"}
ItemSet == {<<k, p>> : k \in {0, 1}, p \in Pieces}

HasByte(s, c) == \E i \in 1..Len(s) : s[i] = c
LastByte(s) == s[Len(s)]

(* ---------- the compiler: empty text is not emitted, adjacent text pieces are one Text instruction ---------- *)
RECURSIVE CompileFrom(_, _, _)
CompileFrom(items, i, acc) ==
  IF i > Len(items) THEN acc
  ELSE LET it == items[i] IN
       IF it[1] = 0 /\ it[2] = <<>> THEN CompileFrom(items, i + 1, acc)
       ELSE IF it[1] = 0 /\ Len(acc) > 0 /\ acc[Len(acc)][1] = 0
            THEN CompileFrom(items, i + 1, [acc EXCEPT ![Len(acc)] = <<0, acc[Len(acc)][2] \o it[2]>>])
            ELSE CompileFrom(items, i + 1, Append(acc, it))
Compile(items) == CompileFrom(items, 1, <<>>)

(* ---------- escapers on the alphabet (escapers.go pathEscape / queryEscape) ---------- *)
IsAlnum(c) == IsDigit(c) \/ IsAlpha(c)
PctEnc(c) == <<PCT, Hex[(c \div 16) + 1], Hex[(c % 16) + 1]>>
PathEscByte(c) == IF IsAlnum(c) \/ c \in {33, 35, 36, 42, 44, 45, 46, 47, 58, 59, 61, 63, 64, 91, 93, 95, 126} THEN <<c>>
                  ELSE IF c = AMP THEN AMPENT ELSE IF c = 43 THEN <<38, 35, 52, 51, 59>> ELSE PctEnc(c)
QueryEscByte(c) == IF IsAlnum(c) \/ c \in {45, 46, 95} THEN <<c>> ELSE PctEnc(c)
PathEsc(s) == Flatten([i \in 1..Len(s) |-> PathEscByte(s[i])])
QueryEsc(s) == Flatten([i \in 1..Len(s) |-> QueryEscByte(s[i])])

(* ---------- the renderer machine ---------- *)
R0 == [inURL |-> FALSE, query |-> FALSE, addAmp |-> FALSE, removeQM |-> FALSE, out |-> <<>>, fault |-> "",
       refq |-> FALSE, chunks |-> <<>>]

EndURL(r) == [r EXCEPT !.inURL = FALSE, !.query = FALSE, !.addAmp = FALSE, !.removeQM = FALSE]

\* reference bookkeeping only: is the position after this text a query-value position (a '?' of the template's
\* own text since the start of the URL - in a srcset, since the last ',')
RECURSIVE LastIndexByte(_, _, _)
LastIndexByte(s, c, i) == IF i = 0 THEN 0 ELSE IF s[i] = c THEN i ELSE LastIndexByte(s, c, i - 1)
RefQueryAfter(refq, txt, isSet) ==
  IF isSet /\ HasByte(txt, COMMA) THEN HasByte(From(txt, LastIndexByte(txt, COMMA, Len(txt)) + 1), QM)
  ELSE refq \/ HasByte(txt, QM)

\* renderer.Text(txt, inURL = TRUE, isSet)
TextStep(r0, txt, isSet) ==
  LET r == [r0 EXCEPT !.inURL = TRUE, !.refq = RefQueryAfter(r0.refq, txt, isSet)] IN      \* if r.inURL != inURL { r.inURL = inURL }
  IF isSet /\ HasByte(txt, COMMA) THEN [r EXCEPT !.query = FALSE, !.out = @ \o txt]
  ELSE IF r.query THEN
       IF r.removeQM /\ txt = <<>> THEN [r EXCEPT !.fault = "Text: txt[0] with empty txt"]
       ELSE LET t2 == IF r.removeQM /\ txt[1] = QM THEN Tail(txt) ELSE txt
                amp == r.addAmp /\ Len(t2) > 0 /\ t2[1] # AMP IN
            [r EXCEPT !.removeQM = FALSE, !.addAmp = FALSE, !.out = @ \o (IF amp THEN AMPENT ELSE <<>>) \o t2]
  ELSE [r EXCEPT !.query = HasByte(txt, QM) \/ HasByte(txt, HASH), !.out = @ \o txt]

\* renderer.Show -> showInURL(v); s is the value (HTML-escaped and unescaped again: the identity on strings)
ShowStep(r0, s) ==
  LET r == [r0 EXCEPT !.inURL = TRUE]
      emit(rr, chunk) == [rr EXCEPT !.out = @ \o chunk, !.chunks = Append(@, [v |-> s, chunk |-> chunk, refq |-> r0.refq])] IN
  IF r.query THEN
       IF r.removeQM THEN
            IF s = <<>> THEN emit(r, <<>>)                                     \* if s == "" { return nil }  (guards s[len(s)-1])
            ELSE emit([r EXCEPT !.addAmp = (LastByte(s) # AMP)], PathEsc(s))
       ELSE emit(r, QueryEsc(s))
  ELSE IF HasByte(s, QM) THEN
            \* s is not empty here
            emit([r EXCEPT !.query = TRUE, !.removeQM = TRUE, !.addAmp = IF LastByte(s) \notin {AMP, QM} THEN TRUE ELSE @], PathEsc(s))
       ELSE emit(r, PathEsc(s))

Step(r, it, isSet) == IF r.fault # "" THEN r ELSE IF it[1] = 0 THEN TextStep(r, it[2], isSet) ELSE ShowStep(r, it[2])

RECURSIVE RunFrom(_, _, _, _)
RunFrom(r, citems, i, isSet) == IF i > Len(citems) THEN r ELSE RunFrom(Step(r, citems[i], isSet), citems, i + 1, isSet)
\* state when the attribute value has been written (before the closing text, which is outside the URL)
InURLState(attr, items) == RunFrom(R0, Compile(items), 1, attr = "srcset")
\* state after the closing text `">...` (Text with inURL = FALSE: endURL)
FinalState(attr, items) == LET r == InURLState(attr, items) IN IF r.fault # "" THEN r ELSE EndURL(r)

(* ---------- REFERENCE ---------- *)
\* field comments of renderer: each of query / addAmpersand / removeQuestionMark "can be true only if it is in a URL"
FieldComments(r) == (r.query \/ r.addAmp \/ r.removeQM) => r.inURL
NoActionFault(r) == r.fault = ""
\* decoding what was written for a value: HTML attribute unescape (&amp; -> &), then percent-decoding
RECURSIVE UnAmp(_, _)
UnAmp(t, i) == IF i > Len(t) THEN <<>>
               ELSE IF HasPrefixAt(t, AMPENT, i) THEN <<AMP>> \o UnAmp(t, i + 5)
               ELSE IF HasPrefixAt(t, <<38, 35, 52, 51, 59>>, i) THEN <<43>> \o UnAmp(t, i + 5)
               ELSE <<t[i]>> \o UnAmp(t, i + 1)
RECURSIVE UnPct(_, _)
UnPct(t, i) == IF i > Len(t) THEN <<>>
               ELSE IF t[i] = PCT /\ i + 2 <= Len(t) /\ IsHex(t[i + 1]) /\ IsHex(t[i + 2])
                    THEN <<HexVal(t[i + 1]) * 16 + HexVal(t[i + 2])>> \o UnPct(t, i + 3)
               ELSE <<t[i]>> \o UnPct(t, i + 1)
Decode(chunk) == UnPct(UnAmp(chunk, 1), 1)
ValuesDecodeBack(r) == \A j \in 1..Len(r.chunks) : Decode(r.chunks[j].chunk) = r.chunks[j].v
\* a value shown in a query-value position stays one query value
QueryValuesConfined(r) == \A j \in 1..Len(r.chunks) :
     r.chunks[j].refq => LET u == UnAmp(r.chunks[j].chunk, 1) IN ~HasByte(u, AMP) /\ ~HasByte(u, HASH)
=============================================================================

------------------------------- MODULE Faults -------------------------------
(* C05 - running compiled code never panics into the host.

   REFERENCE part: the table FAULT CLASS x SYNTACTIC SITUATION x FORM -> OUTCOME CLASS that the property
   demands (Run returns nil / *PanicError / ctx error / Stop error, never a host panic; a fault is a Go
   run-time panic, so a recover() in the situation recovers it and Run returns nil).

   IMPLEMENTATION-SHAPED part: (a) `Raised`: for every fault class, the VM instruction under which the
   fault surfaces and the class of Go panic value that reaches runRecoverable (transcribed from
   internal/runtime/run.go + the Go run time / reflect messages of the toolchain in use);
   (b) `Convert`: convertPanic's switch (internal/runtime/errors.go) as a table (op, panic value class)
   -> PanicError | fatal; (c) the small machine Raise -> Convert -> Unwind/Recover -> Return of
   runFunc/Run, including the nested machine of a Scriggo function called back from native code
   (callable.Value) and the renderer restored by nextCall.  TLC model-checks (c) against the reference
   over the whole grid; the holes it exhibits are diagnostic (model_counterexample), the verdict comes
   from the real code (Trace_Faults.tla). *)
EXTENDS Integers, Sequences, FiniteSets

F(n, c, op, pv, nested, st, sh, br, dc) ==
  [name |-> n, class |-> c, op |-> op, pv |-> pv, nested |-> nested, stmt |-> st, show |-> sh, braces |-> br, decl |-> dc]

(* name, fault class, instruction at which it surfaces, panic-value class, nested VM ("no" | "panics" |
   "recovers"), has a statement form, has a showable expression form, the statement has a block, needs a
   package-level declaration.  For the nested (callback) faults op/pv are those of the INNER machine. *)
FaultNames == {
  "divassign_int", "remassign_int", "divconst_int", "divconst_uint8", "nilptr_load", "nilptr_store",
  "nilptr_field_load", "nilptr_field_store", "nilptr_array_index", "nilptr_array_store", "nilptr_array_slice", "nilptr_array_range",
  "nilptr_native_field", "nilptr_native_field_store", "nilptr_native_method", "nilifc_method", "nilfunc_call", "nilfunc_call_result",
  "nilfunc_defer", "nilmap_write", "nilmap_write_const", "nilmap_write_any", "idx_slice_var", "idx_slice_const",
  "idx_slice_neg", "idx_slice_store_var", "idx_slice_store_const", "idx_slice_string_elem", "idx_array_var", "idx_array_store_var",
  "idx_string_var", "idx_string_const", "idx_addr", "idx_incr", "slice_slice_hi", "slice_slice_const",
  "slice_slice_lo_gt_hi", "slice_slice_neg", "slice_slice_cap3", "slice_array_hi", "slice_string_hi", "slice_string_lo_gt_hi",
  "slice_string_neg", "assert_fail", "assert_nil", "assert_iface_fail", "assert_iface_nil", "assert_fail_native",
  "assert_fail_error", "close_nil", "close_closed", "send_closed", "send_closed_const", "send_closed_select",
  "unhash_read", "unhash_read_ok", "unhash_read_nilmap", "unhash_read_mapkey", "unhash_read_funckey", "unhash_write",
  "unhash_delete", "unhash_literal", "unhash_write_funckey", "unhash_write_mapkey", "unhash_write_nilmap", "unhash_delete_funckey",
  "unhash_delete_mapkey", "unhash_delete_nilmap", "unhash_delete_structkey", "unhash_write_structkey", "unhash_structkey", "make_slice_neglen",
  "make_slice_negcap", "make_slice_len_gt_cap", "make_slice_huge", "make_slice_hugecap", "make_chan_neg", "make_chan_huge",
  "make_map_neg", "make_map_huge", "conv_slice_arrayptr", "cmp_eq", "cmp_neq", "cmp_if",
  "cmp_switch", "cmp_struct", "cmp_array", "cmp_map_value", "cmp_func_value", "append_overflow",
  "panic_string", "panic_int", "panic_error", "panic_nilvalue", "native_panic_error", "native_panic_string",
  "native_panic_int", "native_panic_runtime", "native_panic_custom_rterr", "native_method_panic", "native_callback_panic", "native_callback_fault",
  "native_callback_recovered", "native_variadic_panic", "nofault", "show_unshowable_chan", "show_unshowable_func", "show_unshowable_nested",
  "show_nil_any", "show_nil_error", "div_int", "rem_int", "div_int8", "rem_int8",
  "div_int16", "rem_int16", "div_int32", "rem_int32", "div_int64", "rem_int64",
  "div_uint", "rem_uint", "div_uint8", "rem_uint8", "div_uint16", "rem_uint16",
  "div_uint32", "rem_uint32", "div_uint64", "rem_uint64", "recursion_1000", "recursion_1000_result"}

\* the table, written as a CASE so that a look-up builds one record (TLC re-evaluates a big tuple on every access)
FaultByName(n) ==
  CASE n = "divassign_int" -> F("divassign_int", "div-zero", "OpDivInt", "rt:divide", "no", TRUE, FALSE, FALSE, FALSE)
    [] n = "remassign_int" -> F("remassign_int", "div-zero", "OpRemInt", "rt:divide", "no", TRUE, FALSE, FALSE, FALSE)
    [] n = "divconst_int" -> F("divconst_int", "div-zero", "OpDivInt", "rt:divide", "no", TRUE, TRUE, FALSE, FALSE)
    [] n = "divconst_uint8" -> F("divconst_uint8", "div-zero", "OpDiv", "rt:divide", "no", TRUE, TRUE, FALSE, FALSE)
    [] n = "nilptr_load" -> F("nilptr_load", "nil-deref", "OpMove", "scriggo:runtimeError", "no", TRUE, TRUE, FALSE, FALSE)
    [] n = "nilptr_store" -> F("nilptr_store", "nil-deref", "-OpTypify", "err:reflect-ValueError", "no", TRUE, FALSE, FALSE, FALSE)
    [] n = "nilptr_field_load" -> F("nilptr_field_load", "nil-deref", "OpField", "scriggo:runtimeError", "no", TRUE, TRUE, FALSE, FALSE)
    [] n = "nilptr_field_store" -> F("nilptr_field_store", "nil-deref", "-OpSetField", "scriggo:runtimeError", "no", TRUE, FALSE, FALSE, FALSE)
    [] n = "nilptr_array_index" -> F("nilptr_array_index", "nil-deref", "OpMove", "scriggo:runtimeError", "no", TRUE, TRUE, FALSE, FALSE)
    [] n = "nilptr_array_store" -> F("nilptr_array_store", "nil-deref", "OpMove", "scriggo:runtimeError", "no", TRUE, FALSE, FALSE, FALSE)
    [] n = "nilptr_array_slice" -> F("nilptr_array_slice", "nil-deref", "OpMove", "scriggo:runtimeError", "no", TRUE, TRUE, FALSE, FALSE)
    [] n = "nilptr_array_range" -> F("nilptr_array_range", "nil-deref", "OpRange", "err:reflect-ValueError", "no", TRUE, FALSE, TRUE, FALSE)
    [] n = "nilptr_native_field" -> F("nilptr_native_field", "nil-deref", "OpField", "scriggo:runtimeError", "no", TRUE, TRUE, FALSE, FALSE)
    [] n = "nilptr_native_field_store" -> F("nilptr_native_field_store", "nil-deref", "-OpSetField", "scriggo:runtimeError", "no", TRUE, FALSE, FALSE, FALSE)
    [] n = "nilptr_native_method" -> F("nilptr_native_method", "native-runtime-error", "OpCallNative", "rt:value-method-nil-ptr", "no", TRUE, TRUE, FALSE, FALSE)
    [] n = "nilifc_method" -> F("nilifc_method", "nil-deref", "OpMethodValue", "scriggo:runtimeError", "no", TRUE, TRUE, FALSE, FALSE)
    [] n = "nilfunc_call" -> F("nilfunc_call", "nil-func-call", "OpCallIndirect", "scriggo:runtimeError", "no", TRUE, FALSE, FALSE, FALSE)
    [] n = "nilfunc_call_result" -> F("nilfunc_call_result", "nil-func-call", "OpCallIndirect", "scriggo:runtimeError", "no", TRUE, TRUE, FALSE, FALSE)
    [] n = "nilfunc_defer" -> F("nilfunc_defer", "nil-func-call", "OpReturn", "scriggo:runtimeError", "no", TRUE, FALSE, TRUE, FALSE)
    [] n = "nilmap_write" -> F("nilmap_write", "nil-map-write", "-OpSetMap", "rt:nil-map", "no", TRUE, FALSE, FALSE, FALSE)
    [] n = "nilmap_write_const" -> F("nilmap_write_const", "nil-map-write", "-OpSetMap", "rt:nil-map", "no", TRUE, FALSE, FALSE, FALSE)
    [] n = "nilmap_write_any" -> F("nilmap_write_any", "nil-map-write", "OpSetMap", "rt:nil-map", "no", TRUE, FALSE, FALSE, FALSE)
    [] n = "idx_slice_var" -> F("idx_slice_var", "index-bounds", "OpIndexRef", "str:reflect-index", "no", TRUE, TRUE, FALSE, FALSE)
    [] n = "idx_slice_const" -> F("idx_slice_const", "index-bounds", "-OpIndexRef", "str:reflect-index", "no", TRUE, TRUE, FALSE, FALSE)
    [] n = "idx_slice_neg" -> F("idx_slice_neg", "index-bounds", "OpIndexRef", "str:reflect-index", "no", TRUE, TRUE, FALSE, FALSE)
    [] n = "idx_slice_store_var" -> F("idx_slice_store_var", "index-bounds", "-OpSetSlice", "rt:index", "no", TRUE, FALSE, FALSE, FALSE)
    [] n = "idx_slice_store_const" -> F("idx_slice_store_const", "index-bounds", "-OpSetSlice", "rt:index", "no", TRUE, FALSE, FALSE, FALSE)
    [] n = "idx_slice_string_elem" -> F("idx_slice_string_elem", "index-bounds", "OpIndexRef", "str:reflect-index", "no", TRUE, TRUE, FALSE, FALSE)
    [] n = "idx_array_var" -> F("idx_array_var", "index-bounds", "OpIndexRef", "str:reflect-index", "no", TRUE, TRUE, FALSE, FALSE)
    [] n = "idx_array_store_var" -> F("idx_array_store_var", "index-bounds", "-OpSetSlice", "str:reflect-index", "no", TRUE, FALSE, FALSE, FALSE)
    [] n = "idx_string_var" -> F("idx_string_var", "index-bounds", "OpIndexString", "rt:index", "no", TRUE, TRUE, FALSE, FALSE)
    [] n = "idx_string_const" -> F("idx_string_const", "index-bounds", "-OpIndexString", "rt:index", "no", TRUE, TRUE, FALSE, FALSE)
    [] n = "idx_addr" -> F("idx_addr", "index-bounds", "OpAddr", "str:reflect-index", "no", TRUE, FALSE, FALSE, FALSE)
    [] n = "idx_incr" -> F("idx_incr", "index-bounds", "OpIndex", "str:reflect-index", "no", TRUE, FALSE, FALSE, FALSE)
    [] n = "slice_slice_hi" -> F("slice_slice_hi", "slice-bounds", "OpSlice", "str:reflect-slice3", "no", TRUE, TRUE, FALSE, FALSE)
    [] n = "slice_slice_const" -> F("slice_slice_const", "slice-bounds", "OpSlice", "str:reflect-slice3", "no", TRUE, TRUE, FALSE, FALSE)
    [] n = "slice_slice_lo_gt_hi" -> F("slice_slice_lo_gt_hi", "slice-bounds", "OpSlice", "str:reflect-slice3", "no", TRUE, TRUE, FALSE, FALSE)
    [] n = "slice_slice_neg" -> F("slice_slice_neg", "slice-bounds", "OpSlice", "str:reflect-slice3", "no", TRUE, TRUE, FALSE, FALSE)
    [] n = "slice_slice_cap3" -> F("slice_slice_cap3", "slice-bounds", "OpSlice", "str:reflect-slice3", "no", TRUE, TRUE, FALSE, FALSE)
    [] n = "slice_array_hi" -> F("slice_array_hi", "slice-bounds", "OpSlice", "str:reflect-slice3", "no", TRUE, TRUE, FALSE, FALSE)
    [] n = "slice_string_hi" -> F("slice_string_hi", "slice-bounds", "OpStringSlice", "rt:slice-bounds", "no", TRUE, TRUE, FALSE, FALSE)
    [] n = "slice_string_lo_gt_hi" -> F("slice_string_lo_gt_hi", "slice-bounds", "OpStringSlice", "rt:slice-bounds", "no", TRUE, TRUE, FALSE, FALSE)
    [] n = "slice_string_neg" -> F("slice_string_neg", "slice-bounds", "OpStringSlice", "rt:slice-bounds", "no", TRUE, TRUE, FALSE, FALSE)
    [] n = "assert_fail" -> F("assert_fail", "type-assertion", "OpAssert", "scriggo:runtimeError", "no", TRUE, TRUE, FALSE, FALSE)
    [] n = "assert_nil" -> F("assert_nil", "type-assertion", "OpAssert", "scriggo:runtimeError", "no", TRUE, TRUE, FALSE, FALSE)
    [] n = "assert_iface_fail" -> F("assert_iface_fail", "type-assertion", "OpAssert", "scriggo:runtimeError", "no", TRUE, TRUE, FALSE, FALSE)
    [] n = "assert_iface_nil" -> F("assert_iface_nil", "type-assertion", "OpAssert", "scriggo:runtimeError", "no", TRUE, TRUE, FALSE, FALSE)
    [] n = "assert_fail_native" -> F("assert_fail_native", "type-assertion", "OpAssert", "scriggo:runtimeError", "no", TRUE, TRUE, FALSE, FALSE)
    [] n = "assert_fail_error" -> F("assert_fail_error", "type-assertion", "OpAssert", "scriggo:runtimeError", "no", TRUE, TRUE, FALSE, FALSE)
    [] n = "close_nil" -> F("close_nil", "chan-close", "OpClose", "rt:close-nil", "no", TRUE, FALSE, FALSE, FALSE)
    [] n = "close_closed" -> F("close_closed", "chan-close", "OpClose", "rt:close-closed", "no", TRUE, FALSE, FALSE, FALSE)
    [] n = "send_closed" -> F("send_closed", "chan-send", "OpSend", "rt:send-closed", "no", TRUE, FALSE, FALSE, FALSE)
    [] n = "send_closed_const" -> F("send_closed_const", "chan-send", "OpSend", "rt:send-closed", "no", TRUE, FALSE, FALSE, FALSE)
    [] n = "send_closed_select" -> F("send_closed_select", "chan-send-select", "OpSelect", "rt:send-closed", "no", TRUE, FALSE, TRUE, FALSE)
    [] n = "unhash_read" -> F("unhash_read", "unhashable-read", "OpMapIndex", "rt:unhashable-maps-spelling", "no", TRUE, TRUE, FALSE, FALSE)
    [] n = "unhash_read_ok" -> F("unhash_read_ok", "unhashable-read", "OpMapIndex", "rt:unhashable-maps-spelling", "no", TRUE, FALSE, FALSE, FALSE)
    [] n = "unhash_read_nilmap" -> F("unhash_read_nilmap", "unhashable-read", "OpMapIndex", "rt:unhashable-maps-spelling", "no", TRUE, TRUE, FALSE, FALSE)
    [] n = "unhash_read_mapkey" -> F("unhash_read_mapkey", "unhashable-read", "OpMapIndex", "rt:unhashable-runtime-spelling", "no", TRUE, TRUE, FALSE, FALSE)
    [] n = "unhash_read_funckey" -> F("unhash_read_funckey", "unhashable-read", "OpMapIndex", "rt:unhashable-runtime-spelling", "no", TRUE, TRUE, FALSE, FALSE)
    [] n = "unhash_write" -> F("unhash_write", "unhashable-write", "-OpSetMap", "rt:unhashable-runtime-spelling", "no", TRUE, FALSE, FALSE, FALSE)
    [] n = "unhash_delete" -> F("unhash_delete", "unhashable-delete", "OpDelete", "rt:unhashable-maps-spelling", "no", TRUE, FALSE, FALSE, FALSE)
    [] n = "unhash_literal" -> F("unhash_literal", "unhashable-write", "-OpSetMap", "rt:unhashable-runtime-spelling", "no", TRUE, TRUE, TRUE, FALSE)
    [] n = "unhash_write_funckey" -> F("unhash_write_funckey", "unhashable-write", "-OpSetMap", "rt:unhashable-runtime-spelling", "no", TRUE, FALSE, FALSE, FALSE)
    [] n = "unhash_write_mapkey" -> F("unhash_write_mapkey", "unhashable-write", "-OpSetMap", "rt:unhashable-runtime-spelling", "no", TRUE, FALSE, FALSE, FALSE)
    [] n = "unhash_write_nilmap" -> F("unhash_write_nilmap", "nil-map-write", "-OpSetMap", "rt:nil-map", "no", TRUE, FALSE, FALSE, FALSE)
    [] n = "unhash_delete_funckey" -> F("unhash_delete_funckey", "unhashable-delete", "OpDelete", "rt:unhashable-runtime-spelling", "no", TRUE, FALSE, FALSE, FALSE)
    [] n = "unhash_delete_mapkey" -> F("unhash_delete_mapkey", "unhashable-delete", "OpDelete", "rt:unhashable-runtime-spelling", "no", TRUE, FALSE, FALSE, FALSE)
    [] n = "unhash_delete_nilmap" -> F("unhash_delete_nilmap", "unhashable-delete", "OpDelete", "rt:unhashable-maps-spelling", "no", TRUE, FALSE, FALSE, FALSE)
    [] n = "unhash_delete_structkey" -> F("unhash_delete_structkey", "unhashable-delete", "OpDelete", "rt:unhashable-maps-spelling", "no", TRUE, FALSE, FALSE, FALSE)
    [] n = "unhash_write_structkey" -> F("unhash_write_structkey", "unhashable-write", "-OpSetMap", "rt:unhashable-runtime-spelling", "no", TRUE, FALSE, FALSE, FALSE)
    [] n = "unhash_structkey" -> F("unhash_structkey", "unhashable-read", "OpMapIndex", "rt:unhashable-maps-spelling", "no", TRUE, TRUE, FALSE, FALSE)
    [] n = "make_slice_neglen" -> F("make_slice_neglen", "make-slice", "OpMakeSlice", "str:makeslice-neg-len", "no", TRUE, TRUE, FALSE, FALSE)
    [] n = "make_slice_negcap" -> F("make_slice_negcap", "make-slice", "OpMakeSlice", "str:makeslice-neg-cap", "no", TRUE, TRUE, FALSE, FALSE)
    [] n = "make_slice_len_gt_cap" -> F("make_slice_len_gt_cap", "make-slice", "OpMakeSlice", "str:makeslice-len-gt-cap", "no", TRUE, TRUE, FALSE, FALSE)
    [] n = "make_slice_huge" -> F("make_slice_huge", "make-slice", "OpMakeSlice", "rt:allocation-size", "no", TRUE, TRUE, FALSE, FALSE)
    [] n = "make_slice_hugecap" -> F("make_slice_hugecap", "make-slice", "OpMakeSlice", "rt:allocation-size", "no", TRUE, TRUE, FALSE, FALSE)
    [] n = "make_chan_neg" -> F("make_chan_neg", "make-chan", "OpMakeChan", "str:makechan-neg", "no", TRUE, TRUE, FALSE, FALSE)
    [] n = "make_chan_huge" -> F("make_chan_huge", "make-chan", "OpMakeChan", "rt:makechan-size", "no", TRUE, TRUE, FALSE, FALSE)
    [] n = "make_map_neg" -> F("make_map_neg", "make-map", "none", "none", "no", TRUE, TRUE, FALSE, FALSE)
    [] n = "make_map_huge" -> F("make_map_huge", "make-map", "none", "none", "no", TRUE, TRUE, FALSE, FALSE)
    [] n = "conv_slice_arrayptr" -> F("conv_slice_arrayptr", "convert", "OpConvert", "str:convert-length", "no", TRUE, TRUE, FALSE, FALSE)
    [] n = "cmp_eq" -> F("cmp_eq", "uncomparable", "OpIf", "rt:uncomparable", "no", TRUE, TRUE, FALSE, FALSE)
    [] n = "cmp_neq" -> F("cmp_neq", "uncomparable", "OpIf", "rt:uncomparable", "no", TRUE, TRUE, FALSE, FALSE)
    [] n = "cmp_if" -> F("cmp_if", "uncomparable", "OpIf", "rt:uncomparable", "no", TRUE, FALSE, TRUE, FALSE)
    [] n = "cmp_switch" -> F("cmp_switch", "uncomparable", "OpIf", "rt:uncomparable", "no", TRUE, FALSE, TRUE, FALSE)
    [] n = "cmp_struct" -> F("cmp_struct", "uncomparable", "OpIf", "rt:uncomparable", "no", TRUE, TRUE, FALSE, FALSE)
    [] n = "cmp_array" -> F("cmp_array", "uncomparable", "OpIf", "rt:uncomparable", "no", TRUE, TRUE, FALSE, FALSE)
    [] n = "cmp_map_value" -> F("cmp_map_value", "uncomparable", "OpIf", "rt:uncomparable", "no", TRUE, TRUE, FALSE, FALSE)
    [] n = "cmp_func_value" -> F("cmp_func_value", "uncomparable", "OpIf", "rt:uncomparable", "no", TRUE, TRUE, FALSE, FALSE)
    [] n = "append_overflow" -> F("append_overflow", "append-overflow", "OpAppendSlice", "str:grow-overflow", "no", TRUE, FALSE, FALSE, FALSE)
    [] n = "panic_string" -> F("panic_string", "explicit-panic", "OpPanic", "val:string", "no", TRUE, FALSE, FALSE, FALSE)
    [] n = "panic_int" -> F("panic_int", "explicit-panic", "OpPanic", "val:int", "no", TRUE, FALSE, FALSE, FALSE)
    [] n = "panic_error" -> F("panic_error", "explicit-panic", "OpPanic", "val:error", "no", TRUE, FALSE, FALSE, FALSE)
    [] n = "panic_nilvalue" -> F("panic_nilvalue", "explicit-panic", "OpPanic", "rt:panic-nil", "no", TRUE, FALSE, FALSE, FALSE)
    [] n = "native_panic_error" -> F("native_panic_error", "native-panic", "OpCallNative", "val:error", "no", TRUE, TRUE, FALSE, FALSE)
    [] n = "native_panic_string" -> F("native_panic_string", "native-panic", "OpCallNative", "val:string", "no", TRUE, TRUE, FALSE, FALSE)
    [] n = "native_panic_int" -> F("native_panic_int", "native-panic", "OpCallNative", "val:int", "no", TRUE, FALSE, FALSE, FALSE)
    [] n = "native_panic_runtime" -> F("native_panic_runtime", "native-runtime-error", "OpCallNative", "rt:nil-map", "no", TRUE, TRUE, FALSE, FALSE)
    [] n = "native_panic_custom_rterr" -> F("native_panic_custom_rterr", "native-runtime-error", "OpCallNative", "rt:host-defined", "no", TRUE, FALSE, FALSE, FALSE)
    [] n = "native_method_panic" -> F("native_method_panic", "native-runtime-error", "OpCallNative", "rt:nil-map", "no", TRUE, TRUE, FALSE, FALSE)
    [] n = "native_callback_panic" -> F("native_callback_panic", "native-callback", "OpPanic", "val:string", "panics", TRUE, FALSE, TRUE, FALSE)
    [] n = "native_callback_fault" -> F("native_callback_fault", "native-callback", "OpDivInt", "rt:divide", "panics", TRUE, FALSE, TRUE, FALSE)
    [] n = "native_callback_recovered" -> F("native_callback_recovered", "native-callback", "OpDivInt", "rt:divide", "recovers", TRUE, FALSE, TRUE, FALSE)
    [] n = "native_variadic_panic" -> F("native_variadic_panic", "native-panic", "OpCallNative", "val:string", "no", TRUE, FALSE, FALSE, FALSE)
    [] n = "nofault" -> F("nofault", "none", "none", "none", "no", TRUE, TRUE, FALSE, FALSE)
    [] n = "show_unshowable_chan" -> F("show_unshowable_chan", "unshowable", "OpShow", "scriggo:outError", "no", FALSE, TRUE, FALSE, FALSE)
    [] n = "show_unshowable_func" -> F("show_unshowable_func", "unshowable", "OpShow", "scriggo:outError", "no", FALSE, TRUE, FALSE, FALSE)
    [] n = "show_unshowable_nested" -> F("show_unshowable_nested", "unshowable", "OpShow", "scriggo:outError", "no", FALSE, TRUE, FALSE, FALSE)
    [] n = "show_nil_any" -> F("show_nil_any", "unshowable", "none", "none", "no", FALSE, TRUE, FALSE, FALSE)
    [] n = "show_nil_error" -> F("show_nil_error", "unshowable", "none", "none", "no", FALSE, TRUE, FALSE, FALSE)
    [] n = "div_int" -> F("div_int", "div-zero", "OpDivInt", "rt:divide", "no", TRUE, TRUE, FALSE, FALSE)
    [] n = "rem_int" -> F("rem_int", "div-zero", "OpRemInt", "rt:divide", "no", TRUE, TRUE, FALSE, FALSE)
    [] n = "div_int8" -> F("div_int8", "div-zero", "OpDiv", "rt:divide", "no", TRUE, TRUE, FALSE, FALSE)
    [] n = "rem_int8" -> F("rem_int8", "div-zero", "OpRem", "rt:divide", "no", TRUE, TRUE, FALSE, FALSE)
    [] n = "div_int16" -> F("div_int16", "div-zero", "OpDiv", "rt:divide", "no", TRUE, TRUE, FALSE, FALSE)
    [] n = "rem_int16" -> F("rem_int16", "div-zero", "OpRem", "rt:divide", "no", TRUE, TRUE, FALSE, FALSE)
    [] n = "div_int32" -> F("div_int32", "div-zero", "OpDiv", "rt:divide", "no", TRUE, TRUE, FALSE, FALSE)
    [] n = "rem_int32" -> F("rem_int32", "div-zero", "OpRem", "rt:divide", "no", TRUE, TRUE, FALSE, FALSE)
    [] n = "div_int64" -> F("div_int64", "div-zero", "OpDiv", "rt:divide", "no", TRUE, TRUE, FALSE, FALSE)
    [] n = "rem_int64" -> F("rem_int64", "div-zero", "OpRem", "rt:divide", "no", TRUE, TRUE, FALSE, FALSE)
    [] n = "div_uint" -> F("div_uint", "div-zero", "OpDiv", "rt:divide", "no", TRUE, TRUE, FALSE, FALSE)
    [] n = "rem_uint" -> F("rem_uint", "div-zero", "OpRem", "rt:divide", "no", TRUE, TRUE, FALSE, FALSE)
    [] n = "div_uint8" -> F("div_uint8", "div-zero", "OpDiv", "rt:divide", "no", TRUE, TRUE, FALSE, FALSE)
    [] n = "rem_uint8" -> F("rem_uint8", "div-zero", "OpRem", "rt:divide", "no", TRUE, TRUE, FALSE, FALSE)
    [] n = "div_uint16" -> F("div_uint16", "div-zero", "OpDiv", "rt:divide", "no", TRUE, TRUE, FALSE, FALSE)
    [] n = "rem_uint16" -> F("rem_uint16", "div-zero", "OpRem", "rt:divide", "no", TRUE, TRUE, FALSE, FALSE)
    [] n = "div_uint32" -> F("div_uint32", "div-zero", "OpDiv", "rt:divide", "no", TRUE, TRUE, FALSE, FALSE)
    [] n = "rem_uint32" -> F("rem_uint32", "div-zero", "OpRem", "rt:divide", "no", TRUE, TRUE, FALSE, FALSE)
    [] n = "div_uint64" -> F("div_uint64", "div-zero", "OpDiv", "rt:divide", "no", TRUE, TRUE, FALSE, FALSE)
    [] n = "rem_uint64" -> F("rem_uint64", "div-zero", "OpRem", "rt:divide", "no", TRUE, TRUE, FALSE, FALSE)
    [] n = "recursion_1000" -> F("recursion_1000", "recursion", "-OpSubInt", "rt:index", "no", TRUE, FALSE, FALSE, TRUE)
    [] n = "recursion_1000_result" -> F("recursion_1000_result", "recursion", "none", "none", "no", TRUE, FALSE, FALSE, TRUE)

Rows == {FaultByName(n) : n \in FaultNames}

(* ------------------------------------------------------------------ situations and forms *)
ProgramSituations == {"top", "callee", "callee_args", "deferred", "deferred_named", "closure", "funcvar", "funcvar_lit"}
TemplateSituations == {"tmpl_show", "tmpl_show_attr", "tmpl_stmt", "tmpl_block", "tmpl_macro", "tmpl_macro_block"}
Situations == ProgramSituations \cup TemplateSituations
\* the six syntactic situations of the property family
SituationClass(s) ==
  CASE s = "top" -> "top-level"
    [] s \in {"callee", "callee_args"} -> "callee"
    [] s \in {"deferred", "deferred_named"} -> "deferred-call"
    [] s = "closure" -> "closure"
    [] s \in {"funcvar", "funcvar_lit"} -> "function-value"
    [] s \in TemplateSituations -> "template"
Forms == {"plain", "recover", "recover_outer"}
Recovers(form) == form \in {"recover", "recover_outer"}

\* which combinations have a concretisation (must agree with harness/cmd/c05: a disagreement is reported by
\* the driver as "noconcretisation" and stops the check as a machinery error)
Applicable(f, s, form) ==
  IF s \in ProgramSituations THEN f.stmt /\ (s = "top" => form # "recover_outer")
  ELSE /\ ~f.decl
       /\ CASE s \in {"tmpl_show", "tmpl_show_attr"} -> f.show /\ form = "plain"
            [] s = "tmpl_stmt" -> f.stmt /\ ~f.braces /\ form = "plain"
            [] s \in {"tmpl_block", "tmpl_macro_block"} -> f.stmt /\ form \in {"plain", "recover"}
            [] s = "tmpl_macro" -> form = "plain" /\ (f.show \/ (f.stmt /\ ~f.braces))

Grid == {c \in [fault : FaultNames, situation : Situations, form : Forms] :
            Applicable(FaultByName(c.fault), c.situation, c.form)}

(* ------------------------------------------------------------------ REFERENCE *)
\* Faults after which gc does not panic at all (make(map, n) ignores a negative or huge hint; finite
\* recursion; a callback that recovers its own fault; showing nil).
NoPanicFaults == {"make_map_neg", "make_map_huge", "recursion_1000", "recursion_1000_result", "nofault",
                  "native_callback_recovered", "show_nil_any", "show_nil_error"}
\* Values that cannot be shown: reported by an error (the statement does not say which class).
ErrorFaults == {"show_unshowable_chan", "show_unshowable_func", "show_unshowable_nested"}
RefClass(n) == IF n \in NoPanicFaults THEN "nopanic" ELSE IF n \in ErrorFaults THEN "error" ELSE "panic"

Outcomes == {"nil", "panicerror", "ctxerr", "stoperr", "othererror", "hostpanic"}
\* The property: what may come out of Run.  "othererror" is an error value that is neither a *PanicError nor
\* the context's / Stop's error (e.g. "cannot show value of type chan int", a writer's error): the statement
\* lists the error classes but also says faults are "reported as errors, never as host panics"; the reading
\* chosen is the one under which today's intended behaviour passes - any returned error is fine, a panic
\* leaving Run is not (none of the generated cases calls Fatal or passes an invalid variable value).
PropertyOutcomes == Outcomes \ {"hostpanic"}
\* what the reference expects for a case (used for diagnostics; the verdict predicate is OutcomeOk)
RefOutcomes(c) ==
  LET k == RefClass(c.fault) IN
  IF k = "nopanic" \/ Recovers(c.form) THEN {"nil"}
  ELSE IF k = "error" THEN {"panicerror", "othererror"}
  ELSE {"panicerror"}
\* property-level predicate on an observed outcome
OutcomeOk(c, outcome) == outcome \in PropertyOutcomes /\ (Recovers(c.form) => outcome = "nil")

(* ------------------------------------------------------------------ IMPLEMENTATION-SHAPED: convertPanic *)
\* an instruction with a constant operand has the negated opcode; convertPanic lists some of them
Neg(o) == CASE o = "OpIndex" -> {"OpIndex", "-OpIndex"} [] o = "OpIndexRef" -> {"OpIndexRef", "-OpIndexRef"}
            [] o = "OpSetSlice" -> {"OpSetSlice", "-OpSetSlice"} [] o = "OpIf" -> {"OpIf", "-OpIf"}
            [] o = "OpIndexString" -> {"OpIndexString", "-OpIndexString"} [] o = "OpMakeChan" -> {"OpMakeChan", "-OpMakeChan"}
            [] o = "OpSend" -> {"OpSend", "-OpSend"} [] o = "OpSetMap" -> {"OpSetMap", "-OpSetMap"}
ScriggoRuntimeError == "scriggo:runtimeError"        \* the VM's own runtimeError type (nil pointer, type assertion)
\* panic values that implement runtime.Error and come from the Go run time (or from host code)
GoRuntimeErrors == {"rt:divide", "rt:index", "rt:slice-bounds", "rt:close-closed", "rt:close-nil", "rt:send-closed",
   "rt:nil-map", "rt:unhashable-runtime-spelling", "rt:unhashable-maps-spelling", "rt:allocation-size", "rt:makechan-size",
   "rt:uncomparable", "rt:value-method-nil-ptr", "rt:panic-nil", "rt:host-defined", "rt:nil-deref"}
IsGoRuntimeError(pv) == pv \in GoRuntimeErrors
PanicValues == GoRuntimeErrors \cup {"none", ScriggoRuntimeError, "scriggo:fatalError", "scriggo:outError", "err:reflect-ValueError",
   "str:reflect-index", "str:reflect-slice3", "str:makeslice-neg-len", "str:makeslice-neg-cap", "str:makeslice-len-gt-cap",
   "str:makechan-neg", "str:convert-length", "str:grow-overflow", "str:append-overflow", "val:error", "val:string", "val:int"}

\* convertPanic(msg) with vm.fn.Body[vm.pc-1].Op = op: "PanicError" (vm.newPanic), "out" (a PanicError that
\* wraps an outError; Run returns the wrapped error), "fatal" (returned as / wrapped in *fatalError: Run panics).
Convert(op, pv) ==
  IF pv = "scriggo:outError" THEN "out"                                           \* case outError
  ELSE IF op \in Neg("OpIndex") \cup Neg("OpIndexRef") \cup Neg("OpSetSlice") \cup {"OpAddr"} /\ pv \in {"rt:index", "str:reflect-index"} THEN "PanicError"
  ELSE IF op = "OpAppendSlice" /\ pv = "str:append-overflow" THEN "PanicError"   \* "reflect.Append: slice overflow" only
  ELSE IF op \in {"OpCallNative", "OpCallIndirect"} /\ pv = "scriggo:fatalError" THEN "fatal"
  ELSE IF op \in {"OpCallNative", "OpCallIndirect"} /\ pv # ScriggoRuntimeError /\ ~IsGoRuntimeError(pv) THEN "PanicError"   \* default:
  ELSE IF op = "OpClose" /\ pv \in {"rt:close-closed", "rt:close-nil"} THEN "PanicError"
  ELSE IF op = "OpConvert" /\ pv = "str:convert-length" THEN "PanicError"
  ELSE IF op = "OpDelete" /\ pv = "rt:unhashable-maps-spelling" THEN "PanicError"   \* prefix "hash of unhashable type: "
  ELSE IF op \in {"OpDivInt", "OpDiv", "OpRemInt", "OpRem"} /\ pv = "rt:divide" THEN "PanicError"
  ELSE IF op \in Neg("OpIf") /\ pv = "rt:uncomparable" THEN "PanicError"
  ELSE IF op \in Neg("OpIndexString") /\ pv = "rt:index" THEN "PanicError"
  ELSE IF op \in Neg("OpMakeChan") /\ pv = "str:makechan-neg" THEN "PanicError"
  ELSE IF op = "OpMakeSlice" /\ pv \in {"str:makeslice-neg-len", "str:makeslice-neg-cap", "str:makeslice-len-gt-cap"} THEN "PanicError"
  ELSE IF op = "OpPanic" THEN "PanicError"
  ELSE IF op \in Neg("OpSend") /\ pv = "rt:send-closed" THEN "PanicError"
  ELSE IF op \in Neg("OpSetMap") /\ pv \in {"rt:nil-map", "rt:unhashable-runtime-spelling"} THEN "PanicError"
  ELSE IF op \in {"OpSlice", "OpStringSlice"} /\ pv \in {"rt:slice-bounds", "str:reflect-slice3"} THEN "PanicError"
  ELSE IF pv = ScriggoRuntimeError THEN "PanicError"                              \* if _, ok := msg.(runtimeError)
  ELSE "fatal"                                                                    \* return &fatalError{msg: msg}

(* ------------------------------------------------------------------ IMPLEMENTATION-SHAPED: the run machine *)
\* nextCall restores vm.renderer from the call frame; frames pushed by OpCallFunc / OpCallIndirect carry no
\* renderer, and nextCall is the return path of a call that had deferred calls (run.go OpCallFunc/OpCallIndirect,
\* vm.go nextCall).  In the generated templates that is exactly the recover form (a function literal with a
\* deferred recover, called in a {%% %%} block); the text after the block is then written through a nil renderer.
RendererLost(c) == c.situation \in TemplateSituations /\ c.form = "recover"

VARIABLES cs, phase, op, pv, recovering, result
vars == <<cs, phase, op, pv, recovering, result>>

FInit == /\ cs \in Grid
         /\ phase = "running" /\ op = "none" /\ pv = "none" /\ result = "none"
         /\ recovering = Recovers(cs.form)

\* the faulting instruction raises a Go panic (or there is no fault)
Raise == /\ phase = "running"
         /\ LET f == FaultByName(cs.fault) IN
            IF f.op = "none" THEN phase' = "returning" /\ UNCHANGED <<op, pv>>
            ELSE /\ op' = f.op /\ pv' = f.pv
                 /\ phase' = IF f.nested = "no" THEN "raised" ELSE "inner-raised"
         /\ UNCHANGED <<cs, recovering, result>>

\* callable.Value: the Scriggo function runs in its own VM (nvm.runFunc); a *PanicError it returns is turned
\* into a *fatalError and re-raised in the calling machine, under its OpCallNative
InnerRun == /\ phase = "inner-raised"
            /\ LET f == FaultByName(cs.fault) r == Convert(op, pv) IN
               IF r = "PanicError" /\ f.nested = "recovers"
               THEN phase' = "returning" /\ UNCHANGED <<op, pv>>
               ELSE phase' = "raised" /\ op' = "OpCallNative" /\ pv' = "scriggo:fatalError"
            /\ UNCHANGED <<cs, recovering, result>>

\* runRecoverable: recover() + convertPanic
ConvertStep == /\ phase = "raised"
               /\ LET r == Convert(op, pv) IN
                  IF r = "fatal" THEN phase' = "done" /\ result' = "hostpanic"          \* Run: panic(e.msg); no deferred call runs
                  ELSE phase' = (IF r = "out" THEN "unwinding-out" ELSE "unwinding") /\ UNCHANGED result
               /\ UNCHANGED <<cs, op, pv, recovering>>

\* runFunc loop: the PanicError is pushed, deferred calls run; one that calls recover() stops the panic
Unwind == /\ phase \in {"unwinding", "unwinding-out"}
          /\ IF recovering THEN phase' = "returning" /\ UNCHANGED result
             ELSE phase' = "done" /\ result' = (IF phase = "unwinding-out" THEN "othererror" ELSE "panicerror")
          /\ UNCHANGED <<cs, op, pv, recovering>>

\* the function returns to the code after the call
Return == /\ phase = "returning"
          /\ IF RendererLost(cs) /\ recovering
             THEN \* Text/Show through the nil renderer: a Go nil dereference under OpText, outside any recover
                  phase' = "raised" /\ op' = "OpText" /\ pv' = "rt:nil-deref" /\ recovering' = FALSE /\ UNCHANGED result
             ELSE phase' = "done" /\ result' = "nil" /\ UNCHANGED <<op, pv, recovering>>
          /\ UNCHANGED cs

Finished == phase = "done" /\ UNCHANGED vars          \* stutter, so that TLC's deadlock check means "got stuck before done"
FNext == Raise \/ InnerRun \/ ConvertStep \/ Unwind \/ Return \/ Finished

\* the same machine as a function (used by Trace_Faults for the drift diagnostic; MC_Faults checks they agree)
ModelOutcomeWith(c, rendererLost) ==
  LET f == FaultByName(c.fault)
      after == IF rendererLost THEN "hostpanic" ELSE "nil"       \* Convert("OpText", "rt:nil-deref") = "fatal"
      outer(o, p) == LET r == Convert(o, p) IN
                     IF r = "fatal" THEN "hostpanic"
                     ELSE IF Recovers(c.form) THEN after
                     ELSE IF r = "out" THEN "othererror" ELSE "panicerror"
  IN IF f.op = "none" THEN after
     ELSE IF f.nested = "no" THEN outer(f.op, f.pv)
     ELSE IF Convert(f.op, f.pv) = "PanicError" /\ f.nested = "recovers" THEN after
     ELSE outer("OpCallNative", "scriggo:fatalError")
ModelOutcome(c) == ModelOutcomeWith(c, RendererLost(c))

(* ------------------------------------------------------------------ what MC_Faults checks *)
TypeOK == /\ cs \in Grid /\ result \in Outcomes \cup {"none"} /\ recovering \in BOOLEAN
          /\ phase \in {"running", "inner-raised", "raised", "unwinding", "unwinding-out", "returning", "done"}
ModelMeetsReference == phase = "done" => result \in RefOutcomes(cs)              \* fails at every hole
ModelNeverHostPanic == result # "hostpanic"
FunctionalAgrees == phase = "done" => result = ModelOutcome(cs)
=============================================================================

------------------------------- MODULE Faults -------------------------------
(* C05 - running compiled code never panics into the host.

   REFERENCE part: the grid FAULT x SYNTACTIC SITUATION (incl. multi-step panic/recover sequences) x FORM x
   RUN OPTIONS, and for each cell the outcome class the Go specification and the documentation of Run / Stop
   give (Run returns nil / *PanicError / ctx error / Stop error, never a host panic; a fault is a Go run-time
   panic, so a recover() in the situation recovers it and Run returns nil; Stop is not recoverable).  The case
   is described by its script of panic-relevant events and evaluated with the ideal conversion.  Also: the
   grid ODD VALUE x TEMPLATE CONTEXT x STATIC TYPE of the show instruction (never a host panic).

   IMPLEMENTATION-SHAPED part: (a) the table: for every fault, the VM instruction under which it surfaces and
   the class of Go panic value that reaches runRecoverable (transcribed from internal/runtime/run.go + the
   messages of the Go toolchain in use); (b) `Convert`: convertPanic's switch (internal/runtime/errors.go) as a
   table (op, panic value class) -> stop | PanicError | out | fatal; (c) the machine NextEvent -> ConvertStep ->
   End of runFunc/Run with the close(stop) bookkeeping of a cancelable context, and the nested machine of a
   Scriggo function called back from native code (callable.Value); (d) the field filter of the struct case of
   showInJS/showInJSON.  The bookkeeping of the panic chain in nextCall is NOT transcribed here (PanicFlow.tla,
   C12): the script semantics assumes deferred calls and recover() work as in Go.  TLC model-checks (c) against
   the reference over the whole grid; the holes it exhibits are diagnostic (model_counterexample), the verdict
   comes from the real code (Trace_Faults.tla). *)
EXTENDS Integers, Sequences, FiniteSets

F(n, c, op, pv, nested, st, sh, br, dc) ==
  [name |-> n, class |-> c, op |-> op, pv |-> pv, nested |-> nested, stmt |-> st, show |-> sh, braces |-> br, decl |-> dc]

(* name, fault class, instruction at which it surfaces, panic-value class, nested VM ("no" | "panics" |
   "recovers"), has a statement form, has a showable expression form, the statement has a block, needs a
   package-level declaration.  For the nested (callback) faults op/pv are those of the INNER machine. *)
FaultNames == {
  "stop_native", "stop_in_callback", "stop_after_recovered_panic",
  "divassign_int", "remassign_int", "divconst_int", "divconst_uint8", "nilptr_load", "nilptr_store",
  "nilptr_field_load", "nilptr_field_store", "nilptr_array_index", "nilptr_array_store", "nilptr_array_slice", "nilptr_array_range",
  "nilptr_native_field", "nilptr_native_field_store", "nilptr_native_method", "nilifc_method", "nilfunc_call", "nilfunc_call_result",
  "nilfunc_defer", "nilmap_write", "nilmap_write_const", "nilmap_write_any", "idx_slice_var", "idx_slice_const",
  "idx_slice_neg", "idx_slice_store_var", "idx_slice_store_const", "idx_slice_string_elem", "idx_array_var", "idx_array_store_var",
  "idx_string_var", "idx_string_const", "idx_addr", "idx_incr", "slice_slice_hi", "slice_slice_const",
  "slice_slice_lo_gt_hi", "slice_slice_neg", "slice_slice_cap3", "slice_array_hi", "slice_string_hi", "slice_string_lo_gt_hi",
  "slice_string_neg", "assert_fail", "assert_nil", "assert_iface_fail", "assert_iface_nil", "assert_fail_native",
  "assert_fail_error", "close_nil", "close_closed", "send_closed", "send_closed_const", "send_closed_select",
  "unhash_read", "unhash_read_ok", "unhash_read_nilmap", "unhash_read_mapkey", "unhash_read_funckey", "unhash_write",
  "unhash_delete", "unhash_literal", "unhash_write_funckey", "unhash_write_mapkey", "unhash_write_nilmap", "unhash_delete_funckey",
  "unhash_delete_mapkey", "unhash_delete_nilmap", "unhash_delete_structkey", "unhash_write_structkey", "unhash_structkey", "make_slice_neglen",
  "make_slice_negcap", "make_slice_len_gt_cap", "make_slice_huge", "make_slice_hugecap", "make_chan_neg", "make_chan_huge",
  "make_map_neg", "make_map_huge", "conv_slice_arrayptr", "cmp_eq", "cmp_neq", "cmp_if",
  "cmp_switch", "cmp_struct", "cmp_array", "cmp_map_value", "cmp_func_value", "append_overflow",
  "panic_string", "panic_int", "panic_error", "panic_nilvalue", "native_panic_error", "native_panic_string",
  "native_panic_int", "native_panic_runtime", "native_panic_custom_rterr", "native_method_panic", "native_callback_panic", "native_callback_fault",
  "native_callback_recovered", "native_variadic_panic", "nofault", "show_unshowable_chan", "show_unshowable_func", "show_unshowable_nested",
  "show_nil_any", "show_nil_error", "div_int", "rem_int", "div_int8", "rem_int8",
  "div_int16", "rem_int16", "div_int32", "rem_int32", "div_int64", "rem_int64",
  "div_uint", "rem_uint", "div_uint8", "rem_uint8", "div_uint16", "rem_uint16",
  "div_uint32", "rem_uint32", "div_uint64", "rem_uint64", "recursion_1000", "recursion_1000_result"}

\* the table, written as a CASE so that a look-up builds one record (TLC re-evaluates a big tuple on every access)
FaultByName(n) ==
  CASE n = "divassign_int" -> F("divassign_int", "div-zero", "OpDivInt", "rt:divide", "no", TRUE, FALSE, FALSE, FALSE)
    [] n = "remassign_int" -> F("remassign_int", "div-zero", "OpRemInt", "rt:divide", "no", TRUE, FALSE, FALSE, FALSE)
    [] n = "divconst_int" -> F("divconst_int", "div-zero", "OpDivInt", "rt:divide", "no", TRUE, TRUE, FALSE, FALSE)
    [] n = "divconst_uint8" -> F("divconst_uint8", "div-zero", "OpDiv", "rt:divide", "no", TRUE, TRUE, FALSE, FALSE)
    [] n = "nilptr_load" -> F("nilptr_load", "nil-deref", "OpMove", "scriggo:runtimeError", "no", TRUE, TRUE, FALSE, FALSE)
    [] n = "nilptr_store" -> F("nilptr_store", "nil-deref", "-OpTypify", "scriggo:runtimeError", "no", TRUE, FALSE, FALSE, FALSE)
    [] n = "nilptr_field_load" -> F("nilptr_field_load", "nil-deref", "OpField", "scriggo:runtimeError", "no", TRUE, TRUE, FALSE, FALSE)
    [] n = "nilptr_field_store" -> F("nilptr_field_store", "nil-deref", "-OpSetField", "scriggo:runtimeError", "no", TRUE, FALSE, FALSE, FALSE)
    [] n = "nilptr_array_index" -> F("nilptr_array_index", "nil-deref", "OpMove", "scriggo:runtimeError", "no", TRUE, TRUE, FALSE, FALSE)
    [] n = "nilptr_array_store" -> F("nilptr_array_store", "nil-deref", "OpMove", "scriggo:runtimeError", "no", TRUE, FALSE, FALSE, FALSE)
    [] n = "nilptr_array_slice" -> F("nilptr_array_slice", "nil-deref", "OpMove", "scriggo:runtimeError", "no", TRUE, TRUE, FALSE, FALSE)
    [] n = "nilptr_array_range" -> F("nilptr_array_range", "nil-deref", "OpRange", "scriggo:runtimeError", "no", TRUE, FALSE, TRUE, FALSE)
    [] n = "nilptr_native_field" -> F("nilptr_native_field", "nil-deref", "OpField", "scriggo:runtimeError", "no", TRUE, TRUE, FALSE, FALSE)
    [] n = "nilptr_native_field_store" -> F("nilptr_native_field_store", "nil-deref", "-OpSetField", "scriggo:runtimeError", "no", TRUE, FALSE, FALSE, FALSE)
    [] n = "nilptr_native_method" -> F("nilptr_native_method", "native-runtime-error", "OpCallNative", "rt:value-method-nil-ptr", "no", TRUE, TRUE, FALSE, FALSE)
    [] n = "nilifc_method" -> F("nilifc_method", "nil-deref", "OpMethodValue", "scriggo:runtimeError", "no", TRUE, TRUE, FALSE, FALSE)
    [] n = "nilfunc_call" -> F("nilfunc_call", "nil-func-call", "OpCallIndirect", "scriggo:runtimeError", "no", TRUE, FALSE, FALSE, FALSE)
    [] n = "nilfunc_call_result" -> F("nilfunc_call_result", "nil-func-call", "OpCallIndirect", "scriggo:runtimeError", "no", TRUE, TRUE, FALSE, FALSE)
    [] n = "nilfunc_defer" -> F("nilfunc_defer", "nil-func-call", "OpReturn", "scriggo:runtimeError", "no", TRUE, FALSE, TRUE, FALSE)
    [] n = "nilmap_write" -> F("nilmap_write", "nil-map-write", "-OpSetMap", "rt:nil-map", "no", TRUE, FALSE, FALSE, FALSE)
    [] n = "nilmap_write_const" -> F("nilmap_write_const", "nil-map-write", "-OpSetMap", "rt:nil-map", "no", TRUE, FALSE, FALSE, FALSE)
    [] n = "nilmap_write_any" -> F("nilmap_write_any", "nil-map-write", "OpSetMap", "rt:nil-map", "no", TRUE, FALSE, FALSE, FALSE)
    [] n = "idx_slice_var" -> F("idx_slice_var", "index-bounds", "OpIndexRef", "str:reflect-index", "no", TRUE, TRUE, FALSE, FALSE)
    [] n = "idx_slice_const" -> F("idx_slice_const", "index-bounds", "-OpIndexRef", "str:reflect-index", "no", TRUE, TRUE, FALSE, FALSE)
    [] n = "idx_slice_neg" -> F("idx_slice_neg", "index-bounds", "OpIndexRef", "str:reflect-index", "no", TRUE, TRUE, FALSE, FALSE)
    [] n = "idx_slice_store_var" -> F("idx_slice_store_var", "index-bounds", "-OpSetSlice", "rt:index", "no", TRUE, FALSE, FALSE, FALSE)
    [] n = "idx_slice_store_const" -> F("idx_slice_store_const", "index-bounds", "-OpSetSlice", "rt:index", "no", TRUE, FALSE, FALSE, FALSE)
    [] n = "idx_slice_string_elem" -> F("idx_slice_string_elem", "index-bounds", "OpIndexRef", "str:reflect-index", "no", TRUE, TRUE, FALSE, FALSE)
    [] n = "idx_array_var" -> F("idx_array_var", "index-bounds", "OpIndexRef", "str:reflect-index", "no", TRUE, TRUE, FALSE, FALSE)
    [] n = "idx_array_store_var" -> F("idx_array_store_var", "index-bounds", "-OpSetSlice", "str:reflect-index", "no", TRUE, FALSE, FALSE, FALSE)
    [] n = "idx_string_var" -> F("idx_string_var", "index-bounds", "OpIndexString", "rt:index", "no", TRUE, TRUE, FALSE, FALSE)
    [] n = "idx_string_const" -> F("idx_string_const", "index-bounds", "-OpIndexString", "rt:index", "no", TRUE, TRUE, FALSE, FALSE)
    [] n = "idx_addr" -> F("idx_addr", "index-bounds", "OpAddr", "str:reflect-index", "no", TRUE, FALSE, FALSE, FALSE)
    [] n = "idx_incr" -> F("idx_incr", "index-bounds", "OpIndex", "str:reflect-index", "no", TRUE, FALSE, FALSE, FALSE)
    [] n = "slice_slice_hi" -> F("slice_slice_hi", "slice-bounds", "OpSlice", "str:reflect-slice3", "no", TRUE, TRUE, FALSE, FALSE)
    [] n = "slice_slice_const" -> F("slice_slice_const", "slice-bounds", "OpSlice", "str:reflect-slice3", "no", TRUE, TRUE, FALSE, FALSE)
    [] n = "slice_slice_lo_gt_hi" -> F("slice_slice_lo_gt_hi", "slice-bounds", "OpSlice", "str:reflect-slice3", "no", TRUE, TRUE, FALSE, FALSE)
    [] n = "slice_slice_neg" -> F("slice_slice_neg", "slice-bounds", "OpSlice", "str:reflect-slice3", "no", TRUE, TRUE, FALSE, FALSE)
    [] n = "slice_slice_cap3" -> F("slice_slice_cap3", "slice-bounds", "OpSlice", "str:reflect-slice3", "no", TRUE, TRUE, FALSE, FALSE)
    [] n = "slice_array_hi" -> F("slice_array_hi", "slice-bounds", "OpSlice", "str:reflect-slice3", "no", TRUE, TRUE, FALSE, FALSE)
    [] n = "slice_string_hi" -> F("slice_string_hi", "slice-bounds", "OpStringSlice", "rt:slice-bounds", "no", TRUE, TRUE, FALSE, FALSE)
    [] n = "slice_string_lo_gt_hi" -> F("slice_string_lo_gt_hi", "slice-bounds", "OpStringSlice", "rt:slice-bounds", "no", TRUE, TRUE, FALSE, FALSE)
    [] n = "slice_string_neg" -> F("slice_string_neg", "slice-bounds", "OpStringSlice", "rt:slice-bounds", "no", TRUE, TRUE, FALSE, FALSE)
    [] n = "assert_fail" -> F("assert_fail", "type-assertion", "OpAssert", "scriggo:runtimeError", "no", TRUE, TRUE, FALSE, FALSE)
    [] n = "assert_nil" -> F("assert_nil", "type-assertion", "OpAssert", "scriggo:runtimeError", "no", TRUE, TRUE, FALSE, FALSE)
    [] n = "assert_iface_fail" -> F("assert_iface_fail", "type-assertion", "OpAssert", "scriggo:runtimeError", "no", TRUE, TRUE, FALSE, FALSE)
    [] n = "assert_iface_nil" -> F("assert_iface_nil", "type-assertion", "OpAssert", "scriggo:runtimeError", "no", TRUE, TRUE, FALSE, FALSE)
    [] n = "assert_fail_native" -> F("assert_fail_native", "type-assertion", "OpAssert", "scriggo:runtimeError", "no", TRUE, TRUE, FALSE, FALSE)
    [] n = "assert_fail_error" -> F("assert_fail_error", "type-assertion", "OpAssert", "scriggo:runtimeError", "no", TRUE, TRUE, FALSE, FALSE)
    [] n = "close_nil" -> F("close_nil", "chan-close", "OpClose", "rt:close-nil", "no", TRUE, FALSE, FALSE, FALSE)
    [] n = "close_closed" -> F("close_closed", "chan-close", "OpClose", "rt:close-closed", "no", TRUE, FALSE, FALSE, FALSE)
    [] n = "send_closed" -> F("send_closed", "chan-send", "OpSend", "rt:send-closed", "no", TRUE, FALSE, FALSE, FALSE)
    [] n = "send_closed_const" -> F("send_closed_const", "chan-send", "OpSend", "rt:send-closed", "no", TRUE, FALSE, FALSE, FALSE)
    [] n = "send_closed_select" -> F("send_closed_select", "chan-send-select", "OpSelect", "rt:send-closed", "no", TRUE, FALSE, TRUE, FALSE)
    [] n = "unhash_read" -> F("unhash_read", "unhashable-read", "OpMapIndex", "rt:unhashable-maps-spelling", "no", TRUE, TRUE, FALSE, FALSE)
    [] n = "unhash_read_ok" -> F("unhash_read_ok", "unhashable-read", "OpMapIndex", "rt:unhashable-maps-spelling", "no", TRUE, FALSE, FALSE, FALSE)
    [] n = "unhash_read_nilmap" -> F("unhash_read_nilmap", "unhashable-read", "OpMapIndex", "rt:unhashable-maps-spelling", "no", TRUE, TRUE, FALSE, FALSE)
    [] n = "unhash_read_mapkey" -> F("unhash_read_mapkey", "unhashable-read", "OpMapIndex", "rt:unhashable-runtime-spelling", "no", TRUE, TRUE, FALSE, FALSE)
    [] n = "unhash_read_funckey" -> F("unhash_read_funckey", "unhashable-read", "OpMapIndex", "rt:unhashable-runtime-spelling", "no", TRUE, TRUE, FALSE, FALSE)
    [] n = "unhash_write" -> F("unhash_write", "unhashable-write", "-OpSetMap", "rt:unhashable-runtime-spelling", "no", TRUE, FALSE, FALSE, FALSE)
    [] n = "unhash_delete" -> F("unhash_delete", "unhashable-delete", "OpDelete", "rt:unhashable-maps-spelling", "no", TRUE, FALSE, FALSE, FALSE)
    [] n = "unhash_literal" -> F("unhash_literal", "unhashable-write", "-OpSetMap", "rt:unhashable-runtime-spelling", "no", TRUE, TRUE, TRUE, FALSE)
    [] n = "unhash_write_funckey" -> F("unhash_write_funckey", "unhashable-write", "-OpSetMap", "rt:unhashable-runtime-spelling", "no", TRUE, FALSE, FALSE, FALSE)
    [] n = "unhash_write_mapkey" -> F("unhash_write_mapkey", "unhashable-write", "-OpSetMap", "rt:unhashable-runtime-spelling", "no", TRUE, FALSE, FALSE, FALSE)
    [] n = "unhash_write_nilmap" -> F("unhash_write_nilmap", "nil-map-write", "-OpSetMap", "rt:nil-map", "no", TRUE, FALSE, FALSE, FALSE)
    [] n = "unhash_delete_funckey" -> F("unhash_delete_funckey", "unhashable-delete", "OpDelete", "rt:unhashable-runtime-spelling", "no", TRUE, FALSE, FALSE, FALSE)
    [] n = "unhash_delete_mapkey" -> F("unhash_delete_mapkey", "unhashable-delete", "OpDelete", "rt:unhashable-runtime-spelling", "no", TRUE, FALSE, FALSE, FALSE)
    [] n = "unhash_delete_nilmap" -> F("unhash_delete_nilmap", "unhashable-delete", "OpDelete", "rt:unhashable-maps-spelling", "no", TRUE, FALSE, FALSE, FALSE)
    [] n = "unhash_delete_structkey" -> F("unhash_delete_structkey", "unhashable-delete", "OpDelete", "rt:unhashable-maps-spelling", "no", TRUE, FALSE, FALSE, FALSE)
    [] n = "unhash_write_structkey" -> F("unhash_write_structkey", "unhashable-write", "-OpSetMap", "rt:unhashable-runtime-spelling", "no", TRUE, FALSE, FALSE, FALSE)
    [] n = "unhash_structkey" -> F("unhash_structkey", "unhashable-read", "OpMapIndex", "rt:unhashable-maps-spelling", "no", TRUE, TRUE, FALSE, FALSE)
    [] n = "make_slice_neglen" -> F("make_slice_neglen", "make-slice", "OpMakeSlice", "str:makeslice-neg-len", "no", TRUE, TRUE, FALSE, FALSE)
    [] n = "make_slice_negcap" -> F("make_slice_negcap", "make-slice", "OpMakeSlice", "str:makeslice-neg-cap", "no", TRUE, TRUE, FALSE, FALSE)
    [] n = "make_slice_len_gt_cap" -> F("make_slice_len_gt_cap", "make-slice", "OpMakeSlice", "str:makeslice-len-gt-cap", "no", TRUE, TRUE, FALSE, FALSE)
    [] n = "make_slice_huge" -> F("make_slice_huge", "make-slice", "OpMakeSlice", "rt:allocation-size", "no", TRUE, TRUE, FALSE, FALSE)
    [] n = "make_slice_hugecap" -> F("make_slice_hugecap", "make-slice", "OpMakeSlice", "rt:allocation-size", "no", TRUE, TRUE, FALSE, FALSE)
    [] n = "make_chan_neg" -> F("make_chan_neg", "make-chan", "OpMakeChan", "str:makechan-neg", "no", TRUE, TRUE, FALSE, FALSE)
    [] n = "make_chan_huge" -> F("make_chan_huge", "make-chan", "OpMakeChan", "rt:makechan-size", "no", TRUE, TRUE, FALSE, FALSE)
    [] n = "make_map_neg" -> F("make_map_neg", "make-map", "none", "none", "no", TRUE, TRUE, FALSE, FALSE)
    [] n = "make_map_huge" -> F("make_map_huge", "make-map", "none", "none", "no", TRUE, TRUE, FALSE, FALSE)
    [] n = "conv_slice_arrayptr" -> F("conv_slice_arrayptr", "convert", "OpConvert", "str:convert-length", "no", TRUE, TRUE, FALSE, FALSE)
    [] n = "cmp_eq" -> F("cmp_eq", "uncomparable", "OpIf", "rt:uncomparable", "no", TRUE, TRUE, FALSE, FALSE)
    [] n = "cmp_neq" -> F("cmp_neq", "uncomparable", "OpIf", "rt:uncomparable", "no", TRUE, TRUE, FALSE, FALSE)
    [] n = "cmp_if" -> F("cmp_if", "uncomparable", "OpIf", "rt:uncomparable", "no", TRUE, FALSE, TRUE, FALSE)
    [] n = "cmp_switch" -> F("cmp_switch", "uncomparable", "OpIf", "rt:uncomparable", "no", TRUE, FALSE, TRUE, FALSE)
    [] n = "cmp_struct" -> F("cmp_struct", "uncomparable", "OpIf", "rt:uncomparable", "no", TRUE, TRUE, FALSE, FALSE)
    [] n = "cmp_array" -> F("cmp_array", "uncomparable", "OpIf", "rt:uncomparable", "no", TRUE, TRUE, FALSE, FALSE)
    [] n = "cmp_map_value" -> F("cmp_map_value", "uncomparable", "OpIf", "rt:uncomparable", "no", TRUE, TRUE, FALSE, FALSE)
    [] n = "cmp_func_value" -> F("cmp_func_value", "uncomparable", "OpIf", "rt:uncomparable", "no", TRUE, TRUE, FALSE, FALSE)
    [] n = "append_overflow" -> F("append_overflow", "append-overflow", "OpAppendSlice", "str:grow-overflow", "no", TRUE, FALSE, FALSE, FALSE)
    [] n = "panic_string" -> F("panic_string", "explicit-panic", "OpPanic", "val:string", "no", TRUE, FALSE, FALSE, FALSE)
    [] n = "panic_int" -> F("panic_int", "explicit-panic", "OpPanic", "val:int", "no", TRUE, FALSE, FALSE, FALSE)
    [] n = "panic_error" -> F("panic_error", "explicit-panic", "OpPanic", "val:error", "no", TRUE, FALSE, FALSE, FALSE)
    [] n = "panic_nilvalue" -> F("panic_nilvalue", "explicit-panic", "OpPanic", "rt:panic-nil", "no", TRUE, FALSE, FALSE, FALSE)
    [] n = "native_panic_error" -> F("native_panic_error", "native-panic", "OpCallNative", "val:error", "no", TRUE, TRUE, FALSE, FALSE)
    [] n = "native_panic_string" -> F("native_panic_string", "native-panic", "OpCallNative", "val:string", "no", TRUE, TRUE, FALSE, FALSE)
    [] n = "native_panic_int" -> F("native_panic_int", "native-panic", "OpCallNative", "val:int", "no", TRUE, FALSE, FALSE, FALSE)
    [] n = "native_panic_runtime" -> F("native_panic_runtime", "native-runtime-error", "OpCallNative", "rt:nil-map", "no", TRUE, TRUE, FALSE, FALSE)
    [] n = "native_panic_custom_rterr" -> F("native_panic_custom_rterr", "native-runtime-error", "OpCallNative", "rt:host-defined", "no", TRUE, FALSE, FALSE, FALSE)
    [] n = "native_method_panic" -> F("native_method_panic", "native-runtime-error", "OpCallNative", "rt:nil-map", "no", TRUE, TRUE, FALSE, FALSE)
    [] n = "native_callback_panic" -> F("native_callback_panic", "native-callback", "OpPanic", "val:string", "panics", TRUE, FALSE, TRUE, FALSE)
    [] n = "native_callback_fault" -> F("native_callback_fault", "native-callback", "OpDivInt", "rt:divide", "panics", TRUE, FALSE, TRUE, FALSE)
    [] n = "native_callback_recovered" -> F("native_callback_recovered", "native-callback", "OpDivInt", "rt:divide", "recovers", TRUE, FALSE, TRUE, FALSE)
    [] n = "native_variadic_panic" -> F("native_variadic_panic", "native-panic", "OpCallNative", "val:string", "no", TRUE, FALSE, FALSE, FALSE)
    [] n = "stop_native" -> F("stop_native", "stop", "OpCallNative", "scriggo:stopError", "no", TRUE, TRUE, FALSE, FALSE)
    [] n = "stop_in_callback" -> F("stop_in_callback", "stop", "OpCallNative", "scriggo:stopError", "panics", TRUE, FALSE, TRUE, FALSE)
    [] n = "stop_after_recovered_panic" -> F("stop_after_recovered_panic", "stop", "OpCallNative", "scriggo:stopError", "no", TRUE, FALSE, TRUE, FALSE)
    [] n = "nofault" -> F("nofault", "none", "none", "none", "no", TRUE, TRUE, FALSE, FALSE)
    [] n = "show_unshowable_chan" -> F("show_unshowable_chan", "unshowable", "OpShow", "scriggo:outError", "no", FALSE, TRUE, FALSE, FALSE)
    [] n = "show_unshowable_func" -> F("show_unshowable_func", "unshowable", "OpShow", "scriggo:outError", "no", FALSE, TRUE, FALSE, FALSE)
    [] n = "show_unshowable_nested" -> F("show_unshowable_nested", "unshowable", "OpShow", "scriggo:outError", "no", FALSE, TRUE, FALSE, FALSE)
    [] n = "show_nil_any" -> F("show_nil_any", "unshowable", "none", "none", "no", FALSE, TRUE, FALSE, FALSE)
    [] n = "show_nil_error" -> F("show_nil_error", "unshowable", "none", "none", "no", FALSE, TRUE, FALSE, FALSE)
    [] n = "div_int" -> F("div_int", "div-zero", "OpDivInt", "rt:divide", "no", TRUE, TRUE, FALSE, FALSE)
    [] n = "rem_int" -> F("rem_int", "div-zero", "OpRemInt", "rt:divide", "no", TRUE, TRUE, FALSE, FALSE)
    [] n = "div_int8" -> F("div_int8", "div-zero", "OpDiv", "rt:divide", "no", TRUE, TRUE, FALSE, FALSE)
    [] n = "rem_int8" -> F("rem_int8", "div-zero", "OpRem", "rt:divide", "no", TRUE, TRUE, FALSE, FALSE)
    [] n = "div_int16" -> F("div_int16", "div-zero", "OpDiv", "rt:divide", "no", TRUE, TRUE, FALSE, FALSE)
    [] n = "rem_int16" -> F("rem_int16", "div-zero", "OpRem", "rt:divide", "no", TRUE, TRUE, FALSE, FALSE)
    [] n = "div_int32" -> F("div_int32", "div-zero", "OpDiv", "rt:divide", "no", TRUE, TRUE, FALSE, FALSE)
    [] n = "rem_int32" -> F("rem_int32", "div-zero", "OpRem", "rt:divide", "no", TRUE, TRUE, FALSE, FALSE)
    [] n = "div_int64" -> F("div_int64", "div-zero", "OpDiv", "rt:divide", "no", TRUE, TRUE, FALSE, FALSE)
    [] n = "rem_int64" -> F("rem_int64", "div-zero", "OpRem", "rt:divide", "no", TRUE, TRUE, FALSE, FALSE)
    [] n = "div_uint" -> F("div_uint", "div-zero", "OpDiv", "rt:divide", "no", TRUE, TRUE, FALSE, FALSE)
    [] n = "rem_uint" -> F("rem_uint", "div-zero", "OpRem", "rt:divide", "no", TRUE, TRUE, FALSE, FALSE)
    [] n = "div_uint8" -> F("div_uint8", "div-zero", "OpDiv", "rt:divide", "no", TRUE, TRUE, FALSE, FALSE)
    [] n = "rem_uint8" -> F("rem_uint8", "div-zero", "OpRem", "rt:divide", "no", TRUE, TRUE, FALSE, FALSE)
    [] n = "div_uint16" -> F("div_uint16", "div-zero", "OpDiv", "rt:divide", "no", TRUE, TRUE, FALSE, FALSE)
    [] n = "rem_uint16" -> F("rem_uint16", "div-zero", "OpRem", "rt:divide", "no", TRUE, TRUE, FALSE, FALSE)
    [] n = "div_uint32" -> F("div_uint32", "div-zero", "OpDiv", "rt:divide", "no", TRUE, TRUE, FALSE, FALSE)
    [] n = "rem_uint32" -> F("rem_uint32", "div-zero", "OpRem", "rt:divide", "no", TRUE, TRUE, FALSE, FALSE)
    [] n = "div_uint64" -> F("div_uint64", "div-zero", "OpDiv", "rt:divide", "no", TRUE, TRUE, FALSE, FALSE)
    [] n = "rem_uint64" -> F("rem_uint64", "div-zero", "OpRem", "rt:divide", "no", TRUE, TRUE, FALSE, FALSE)
    [] n = "recursion_1000" -> F("recursion_1000", "recursion", "none", "none", "no", TRUE, FALSE, FALSE, TRUE)
    [] n = "recursion_1000_result" -> F("recursion_1000_result", "recursion", "none", "none", "no", TRUE, FALSE, FALSE, TRUE)

Rows == {FaultByName(n) : n \in FaultNames}

(* ------------------------------------------------------------------ situations, forms, run options *)
SeqSituations == {"seq_a", "seq_b", "seq_c", "seq_d"}
TmplSeqSituations == {"tmpl_seq_a", "tmpl_seq_b", "tmpl_seq_c", "tmpl_seq_d"}
ProgramSituations == {"top", "callee", "callee_args", "deferred", "deferred_named", "closure", "funcvar", "funcvar_lit"} \cup SeqSituations
TemplateSituations == {"tmpl_show", "tmpl_show_attr", "tmpl_stmt", "tmpl_block", "tmpl_macro", "tmpl_macro_block"} \cup TmplSeqSituations
Situations == ProgramSituations \cup TemplateSituations
(* The multi-step sequences (programs: functions main / inner; templates: function literals in a {%% %%} block):
   a: the fault is raised in main; while it is in flight a deferred call calls inner(), which raises and recovers an
      unrelated panic "B"; an earlier deferred call of main then recovers (form "recover").
   b: main panics with "A"; a deferred call calls inner(), in which the fault is raised and recovered; then as in a.
   c: main panics with "A"; a deferred call raises the fault itself (it replaces "A"); then as in a.
   d: main panics with "A"; a deferred call recovers "A" and then raises the fault; then as in a. *)
SeqKind(s) == CASE s \in {"seq_a", "tmpl_seq_a"} -> "a" [] s \in {"seq_b", "tmpl_seq_b"} -> "b"
                [] s \in {"seq_c", "tmpl_seq_c"} -> "c" [] s \in {"seq_d", "tmpl_seq_d"} -> "d" [] OTHER -> "-"
\* the syntactic situations of the property family (the six of DESIGN 7/C05 + the multi-step sequences)
SituationClass(s) ==
  CASE s = "top" -> "top-level"
    [] s \in {"callee", "callee_args"} -> "callee"
    [] s \in {"deferred", "deferred_named"} -> "deferred-call"
    [] s = "closure" -> "closure"
    [] s \in {"funcvar", "funcvar_lit"} -> "function-value"
    [] s \in SeqSituations \cup TmplSeqSituations -> "multi-step"
    [] s \in TemplateSituations -> "template"
Forms == {"plain", "recover", "recover_outer"}
Recovers(form) == form \in {"recover", "recover_outer"}
\* run options: no context / a cancelable context that is never canceled (runFunc then starts its watcher goroutine)
Opts == {"none", "cancelable"}

\* which combinations have a concretisation (must agree with harness/cmd/c05: a disagreement is reported by
\* the driver as "noconcretisation" and stops the check as a machinery error)
Applicable(f, s, form) ==
  IF s \in SeqSituations THEN f.stmt /\ form # "recover_outer"
  ELSE IF s \in ProgramSituations THEN f.stmt /\ (s = "top" => form # "recover_outer")
  ELSE /\ ~f.decl
       /\ CASE s \in {"tmpl_show", "tmpl_show_attr"} -> f.show /\ form = "plain"
            [] s = "tmpl_stmt" -> f.stmt /\ ~f.braces /\ form = "plain"
            [] s \in {"tmpl_block", "tmpl_macro_block"} \cup TmplSeqSituations -> f.stmt /\ form \in {"plain", "recover"}
            [] s = "tmpl_macro" -> form = "plain" /\ (f.show \/ (f.stmt /\ ~f.braces))

Grid == {c \in [fault : FaultNames, situation : Situations, form : Forms, opt : Opts] :
            Applicable(FaultByName(c.fault), c.situation, c.form)}

(* ------------------------------------------------------------------ the script of a case *)
\* What happens in a case, as the sequence of its panic-relevant events: "fault" (the case's fault is raised, if
\* it raises anything), "explicit" (panic("A") / panic("B")), "recover" (a deferred call calls recover()).
\* local = the panic is raised in a nested call that has its own deferred recover().
Ev(k, local) == [k |-> k, local |-> local]
Script(c) ==
  LET rec == IF Recovers(c.form) THEN <<Ev("recover", FALSE)>> ELSE <<>>
      k == SeqKind(c.situation) IN
  CASE k = "a" -> <<Ev("fault", FALSE), Ev("explicit", TRUE)>> \o rec
    [] k = "b" -> <<Ev("explicit", FALSE), Ev("fault", TRUE)>> \o rec
    [] k = "c" -> <<Ev("explicit", FALSE), Ev("fault", FALSE)>> \o rec
    [] k = "d" -> <<Ev("explicit", FALSE), Ev("recover", FALSE), Ev("fault", FALSE)>> \o rec
    [] OTHER -> <<Ev("fault", FALSE)>> \o rec

(* ------------------------------------------------------------------ REFERENCE *)
\* Faults after which gc does not panic at all (make(map, n) ignores a negative or huge hint; finite
\* recursion; a callback that recovers its own fault; showing nil).
NoPanicFaults == {"make_map_neg", "make_map_huge", "recursion_1000", "recursion_1000_result", "nofault",
                  "native_callback_recovered", "show_nil_any", "show_nil_error"}
\* Values that cannot be shown: reported by an error (the statement does not say which class).
ErrorFaults == {"show_unshowable_chan", "show_unshowable_func", "show_unshowable_nested"}
\* The run is ended by env.Stop(err): Run returns err, deferred calls do not run (native.Env documentation).
StopFaults == {"stop_native", "stop_in_callback", "stop_after_recovered_panic"}
RefClass(n) == IF n \in NoPanicFaults THEN "nopanic" ELSE IF n \in ErrorFaults THEN "error"
               ELSE IF n \in StopFaults THEN "stop" ELSE "panic"

Outcomes == {"nil", "panicerror", "ctxerr", "stoperr", "othererror", "hostpanic", "processdeath", "buildpanic"}
\* The property: what may come out of Run.  "othererror" is an error value that is neither a *PanicError nor
\* the context's / Stop's error (e.g. "cannot show value of type chan int", a writer's error): the statement
\* lists the error classes but also says faults are "reported as errors, never as host panics"; the reading
\* chosen is the one under which today's intended behaviour passes - any returned error is fine, a panic
\* leaving Run (or the death of the process) is not (no generated case calls Fatal or passes an invalid variable value).
\* ("buildpanic": Build / BuildTemplate panicked for the generated case - strictly a clause of C04, reported here
\* because these cases exist only in this family's space; a build ERROR is not an observation at all: "that builds")
PropertyOutcomes == Outcomes \ {"hostpanic", "processdeath", "buildpanic"}

(* ------------------------------------------------------------------ IMPLEMENTATION-SHAPED: convertPanic *)
\* an instruction with a constant operand has the negated opcode; convertPanic lists some of them
Neg(o) == CASE o = "OpIndex" -> {"OpIndex", "-OpIndex"} [] o = "OpIndexRef" -> {"OpIndexRef", "-OpIndexRef"}
            [] o = "OpSetSlice" -> {"OpSetSlice", "-OpSetSlice"} [] o = "OpIf" -> {"OpIf", "-OpIf"}
            [] o = "OpIndexString" -> {"OpIndexString", "-OpIndexString"} [] o = "OpMakeChan" -> {"OpMakeChan", "-OpMakeChan"}
            [] o = "OpSend" -> {"OpSend", "-OpSend"} [] o = "OpSetMap" -> {"OpSetMap", "-OpSetMap"}
            [] o = "OpMapIndex" -> {"OpMapIndex", "-OpMapIndex"} [] o = "OpMapIndexAny" -> {"OpMapIndexAny", "-OpMapIndexAny"}
ScriggoRuntimeError == "scriggo:runtimeError"        \* the VM's own runtimeError type (nil pointer, type assertion)
\* panic values that implement runtime.Error and come from the Go run time (or from host code)
GoRuntimeErrors == {"rt:divide", "rt:index", "rt:slice-bounds", "rt:close-closed", "rt:close-nil", "rt:send-closed",
   "rt:nil-map", "rt:unhashable-runtime-spelling", "rt:unhashable-maps-spelling", "rt:allocation-size", "rt:makechan-size",
   "rt:uncomparable", "rt:value-method-nil-ptr", "rt:panic-nil", "rt:host-defined", "rt:nil-deref"}
IsGoRuntimeError(pv) == pv \in GoRuntimeErrors
Unhashable == {"rt:unhashable-runtime-spelling", "rt:unhashable-maps-spelling"}      \* errUnhashable accepts both spellings
PanicValues == GoRuntimeErrors \cup {"none", ScriggoRuntimeError, "scriggo:fatalError", "scriggo:outError", "scriggo:stopError",
   "err:reflect-ValueError", "str:reflect-index", "str:reflect-slice3", "str:makeslice-neg-len", "str:makeslice-neg-cap",
   "str:makeslice-len-gt-cap", "str:makechan-neg", "str:convert-length", "str:grow-overflow", "str:append-overflow",
   "val:error", "val:string", "val:int"}

\* convertPanic(msg) with vm.fn.Body[vm.pc-1].Op = op: "stop" (the stopError is returned as it is), "PanicError"
\* (vm.newPanic), "out" (a PanicError that wraps an outError; Run returns the wrapped error), "fatal" (returned as /
\* wrapped in *fatalError: Run panics).
Convert(op, pv) ==
  IF pv = "scriggo:stopError" THEN "stop"                                         \* case stopError
  ELSE IF pv = "scriggo:outError" THEN "out"                                      \* case outError
  ELSE IF op \in Neg("OpIndex") \cup Neg("OpIndexRef") \cup Neg("OpSetSlice") \cup {"OpAddr"} /\ pv \in {"rt:index", "str:reflect-index"} THEN "PanicError"
  ELSE IF op = "OpAppendSlice" /\ pv \in {"str:append-overflow", "str:grow-overflow"} THEN "PanicError"
  ELSE IF op \in {"OpCallNative", "OpCallIndirect", "OpReturn"} /\ pv = "scriggo:fatalError" THEN "fatal"
  ELSE IF op \in {"OpCallNative", "OpCallIndirect", "OpReturn"} /\ pv # ScriggoRuntimeError /\ ~IsGoRuntimeError(pv) THEN "PanicError"   \* default:
  ELSE IF op = "OpClose" /\ pv \in {"rt:close-closed", "rt:close-nil"} THEN "PanicError"
  ELSE IF op = "OpConvert" /\ pv = "str:convert-length" THEN "PanicError"
  ELSE IF op \in {"OpDelete"} \cup Neg("OpMapIndex") \cup Neg("OpMapIndexAny") /\ pv \in Unhashable THEN "PanicError"
  ELSE IF op \in {"OpDivInt", "OpDiv", "OpRemInt", "OpRem"} /\ pv = "rt:divide" THEN "PanicError"
  ELSE IF op \in Neg("OpIf") /\ pv = "rt:uncomparable" THEN "PanicError"
  ELSE IF op \in Neg("OpIndexString") /\ pv = "rt:index" THEN "PanicError"
  ELSE IF op \in Neg("OpMakeChan") /\ pv \in {"str:makechan-neg", "rt:makechan-size"} THEN "PanicError"
  ELSE IF op = "OpMakeSlice" /\ pv \in {"str:makeslice-neg-len", "str:makeslice-neg-cap", "str:makeslice-len-gt-cap", "rt:allocation-size"} THEN "PanicError"
  ELSE IF op = "OpPanic" THEN "PanicError"
  ELSE IF op \in Neg("OpSend") \cup {"OpSelect"} /\ pv = "rt:send-closed" THEN "PanicError"
  ELSE IF op \in Neg("OpSetMap") /\ pv \in {"rt:nil-map"} \cup Unhashable THEN "PanicError"
  ELSE IF op \in {"OpSlice", "OpStringSlice"} /\ pv \in {"rt:slice-bounds", "str:reflect-slice3"} THEN "PanicError"
  ELSE IF pv = ScriggoRuntimeError THEN "PanicError"                              \* if _, ok := msg.(runtimeError)
  ELSE "fatal"                                                                    \* return &fatalError{msg: msg}

\* what the Go specification demands of the same values: every panic of the interpreted code (also one that crosses
\* native code, also one raised by host code) is an ordinary panic; Stop and writer/show errors as documented
IdealConvert(op, pv) == IF pv = "scriggo:stopError" THEN "stop" ELSE IF pv = "scriggo:outError" THEN "out" ELSE "PanicError"
Conv(ideal, op, pv) == IF ideal THEN IdealConvert(op, pv) ELSE Convert(op, pv)

\* The Go panic that reaches the machine running the case for its fault: <<op, pv>>, or <<"none", "none">>.
\* callable.Value: a Scriggo function called back from native code runs in its own VM (nvm.runFunc); a *PanicError it
\* returns is turned into a *fatalError, any other error is re-raised as it is, under the caller's OpCallNative.
FaultRaise(f, ideal) ==
  IF f.op = "none" THEN <<"none", "none">>
  ELSE IF f.nested = "no" THEN <<f.op, f.pv>>
  ELSE LET r == Conv(ideal, f.op, f.pv) IN
       IF r = "stop" THEN <<"OpCallNative", "scriggo:stopError">>
       ELSE IF r = "PanicError" /\ f.nested = "recovers" THEN <<"none", "none">>
       ELSE IF ideal THEN <<"OpCallNative", "val:string">>                       \* the panic of the callback, propagated
       ELSE <<"OpCallNative", "scriggo:fatalError">>
EventRaise(c, ev, ideal) ==
  IF ev.k = "fault" THEN FaultRaise(FaultByName(c.fault), ideal)
  ELSE IF ev.k = "explicit" THEN <<"OpPanic", "val:string">> ELSE <<"none", "none">>

(* ------------------------------------------------------------------ the semantics of a script *)
\* The first "fatal" ends the run with a host panic, the first "stop" with the Stop error; otherwise panics that are
\* not recovered locally are pending until a deferred call calls recover(); at the end a pending panic is returned
\* as *PanicError (or as the writer/show error it wraps).  acc = [pending, out, res].
Acc0 == [pending |-> 0, out |-> FALSE, res |-> ""]
StepAcc(c, ev, acc, ideal) ==
  IF acc.res # "" THEN acc
  ELSE IF ev.k = "recover" THEN [acc EXCEPT !.pending = 0, !.out = FALSE]
  ELSE LET r == EventRaise(c, ev, ideal) IN
       IF r[1] = "none" THEN acc
       ELSE LET k == Conv(ideal, r[1], r[2]) IN
            IF k = "fatal" THEN [acc EXCEPT !.res = "hostpanic"]
            ELSE IF k = "stop" THEN [acc EXCEPT !.res = "stoperr"]
            ELSE IF ev.local THEN acc
            ELSE [acc EXCEPT !.pending = @ + 1, !.out = (k = "out")]
Final(acc) == IF acc.res # "" THEN acc.res ELSE IF acc.pending = 0 THEN "nil" ELSE IF acc.out THEN "othererror" ELSE "panicerror"
RECURSIVE EvalFrom(_, _, _, _)
EvalFrom(c, i, acc, ideal) == IF i > Len(Script(c)) THEN Final(acc) ELSE EvalFrom(c, i + 1, StepAcc(c, Script(c)[i], acc, ideal), ideal)

\* REFERENCE: the outcome the Go specification + the documentation of Run / Stop give for the case
RefOutcome(c) == EvalFrom(c, 1, Acc0, TRUE)
RefOutcomes(c) == IF RefOutcome(c) = "othererror" THEN {"othererror", "panicerror"} ELSE {RefOutcome(c)}
\* property-level predicate on an observed outcome: Run did not panic; and where the Go specification says the
\* panic is recovered (reference outcome nil), it was
OutcomeOk(c, outcome) == outcome \in PropertyOutcomes /\ (Recovers(c.form) /\ RefOutcome(c) = "nil" => outcome = "nil")
\* IMPLEMENTATION-SHAPED: the same script through convertPanic as it is written
ModelOutcome(c) == EvalFrom(c, 1, Acc0, FALSE)

(* ------------------------------------------------------------------ IMPLEMENTATION-SHAPED: the run machine *)
\* runFunc / runRecoverable / Run, one action per step: the next event of the script raises (or not), convertPanic
\* classifies, runFunc either returns at once (stopError, fatalError: `if !ok { close(stop); return err }`) or pushes the
\* PanicError and lets the deferred calls run; at the end `close(stop)` and the pending panic.  `closes` counts the
\* close(stop) calls (stop exists only with a cancelable context): closing twice is a Go panic that leaves Run.
VARIABLES cs, pc, acc, raised, phase, closes, result
vars == <<cs, pc, acc, raised, phase, closes, result>>

FInitIn(G) == /\ cs \in G
              /\ pc = 1 /\ acc = Acc0 /\ raised = <<"none", "none">> /\ phase = "running" /\ closes = 0 /\ result = "none"
FInit == FInitIn(Grid)

HasStop == cs.opt = "cancelable"
\* the next event: a recover(), nothing, or a Go panic reaching runRecoverable
NextEvent == /\ phase = "running" /\ pc <= Len(Script(cs))
             /\ LET ev == Script(cs)[pc] IN
                IF ev.k = "recover" THEN /\ acc' = [acc EXCEPT !.pending = 0, !.out = FALSE]
                                         /\ pc' = pc + 1 /\ UNCHANGED <<raised, phase>>
                ELSE LET r == EventRaise(cs, ev, FALSE) IN
                     IF r[1] = "none" THEN pc' = pc + 1 /\ UNCHANGED <<acc, raised, phase>>
                     ELSE raised' = r /\ phase' = "raised" /\ UNCHANGED <<acc, pc>>
             /\ UNCHANGED <<cs, closes, result>>
\* runRecoverable: recover() + convertPanic; runFunc: a non-PanicError error returns at once
ConvertStep == /\ phase = "raised"
               /\ LET k == Convert(raised[1], raised[2]) IN
                  IF k \in {"fatal", "stop"}
                  THEN /\ phase' = "done" /\ result' = (IF k = "fatal" THEN "hostpanic" ELSE "stoperr")
                       /\ closes' = closes + (IF HasStop THEN 1 ELSE 0)              \* if stop != nil { close(stop) }; return err
                       /\ UNCHANGED <<acc, pc>>
                  ELSE /\ acc' = (IF Script(cs)[pc].local THEN acc ELSE [acc EXCEPT !.pending = @ + 1, !.out = (k = "out")])
                       /\ pc' = pc + 1 /\ phase' = "running" /\ UNCHANGED <<closes, result>>
               /\ UNCHANGED <<cs, raised>>
\* the function returned (or all deferred calls of a panicking main have run)
End == /\ phase = "running" /\ pc > Len(Script(cs))
       /\ phase' = "done" /\ result' = Final(acc)
       /\ closes' = closes + (IF HasStop THEN 1 ELSE 0)                             \* if stop != nil { close(stop) ... }
       /\ UNCHANGED <<cs, pc, acc, raised>>
Finished == phase = "done" /\ UNCHANGED vars          \* stutter, so that TLC's deadlock check means "got stuck before done"
FNext == NextEvent \/ ConvertStep \/ End \/ Finished

(* ------------------------------------------------------------------ what MC_Faults checks *)
TypeOK == /\ cs \in Grid /\ result \in Outcomes \cup {"none"} /\ closes \in 0..2 /\ acc.pending \in 0..3
          /\ phase \in {"running", "raised", "done"}
ModelMeetsReference == phase = "done" => result \in RefOutcomes(cs)              \* fails at every hole of convertPanic
FunctionalAgrees == phase = "done" => result = ModelOutcome(cs)
StopClosedOnce == phase = "done" => closes = (IF HasStop THEN 1 ELSE 0)
\* the reference never asks for a host panic, and asks for nil exactly when nothing is left pending
ReferenceSane == RefOutcome(cs) \in PropertyOutcomes

(* ------------------------------------------------------------------ odd shown values (kind "show") *)
\* REFERENCE: showing any value in any template context either renders it or returns an error; Run never panics and
\* the process does not die.  (These are values an embedder can pass for a declared global: none is an "invalid
\* template variable value" in the sense of the documentation, which is about values not assignable to the variable.)
ShowValues == {"nil_ptr_value_error", "nil_ptr_value_html", "nil_ptr_value_css", "nil_ptr_value_js", "nil_ptr_value_json",
   "nil_ptr_value_markdown", "nil_ptr_value_envstringer", "unsafe_pointer", "unsafe_pointer_nil", "struct_unsafe_pointer_field",
   "nil_interface", "embed_unexported", "embed_unexported_ptr", "embed_unexported_nilptr", "ptr_embed_unexported",
   "slice_embed_unexported", "map_embed_unexported", "unexported_fields_only", "struct_chan_field", "struct_func_field",
   "nil_ptr_time", "nil_ptr_value_stringer", "nil_ptr_ptr_stringer", "nil_ptr_struct", "ptr_ptr_nil", "chan", "nil_chan",
   "func", "nil_func", "complex", "nil_map", "nil_slice", "map_int_key", "map_any_key", "map_struct_key", "slice_any_chan",
   "slice_nil_ptr_stringer", "map_value_nil_ptr_time", "array_of_struct", "list_node", "error_nil_ptr", "zero_time",
   "duration", "cyclic_ptr", "cyclic_map", "cyclic_slice"}
\* a naive traversal of these does not terminate: the driver shows them in a child process (the Go run time kills a
\* process whose stack overflows; that cannot be recovered)
CyclicValues == {"cyclic_ptr", "cyclic_map", "cyclic_slice"}
ScriptContexts == {"js", "json", "html.script", "html.ldjson", "js.macro", "json.for"}
StringContexts == {"text", "html", "tag", "qattr", "uattr", "css", "cssstr", "jsstr", "jsonstr", "md", "tabcode",
   "spacescode", "urlq", "urlquery", "urlset", "html.jsstr", "html.style"}
ShowContexts == ScriptContexts \cup StringContexts
Boxes == {"static", "any"}
ShowGrid == [value : ShowValues, ctx : ShowContexts, box : Boxes]
ShowOk(outcome) == outcome \in PropertyOutcomes
ValueClass(v) == CASE v \in {"nil_ptr_time", "nil_ptr_value_stringer", "nil_ptr_value_error", "nil_ptr_value_html", "nil_ptr_value_css",
                            "nil_ptr_value_js", "nil_ptr_value_json", "nil_ptr_value_markdown", "nil_ptr_value_envstringer"} ->
                         "nil-pointer-to-type-with-value-receiver-show-method"
                   [] v \in {"unsafe_pointer", "unsafe_pointer_nil", "struct_unsafe_pointer_field"} -> "unsafe-pointer"
                   [] v \in CyclicValues -> "cyclic"
                   [] v \in {"embed_unexported", "embed_unexported_ptr", "embed_unexported_nilptr", "ptr_embed_unexported",
                             "slice_embed_unexported", "map_embed_unexported"} -> "embedded-unexported-struct"
                   [] OTHER -> v
CtxClass(x) == IF x \in ScriptContexts THEN "script" ELSE "string-like"

\* IMPLEMENTATION-SHAPED: the struct case of showInJS / showInJSON visits the fields with PkgPath == "" and calls
\* Interface() on them; reflect panics on a value obtained through a non-exported field (also an embedded one).
Fld(name, exported, embedded) == [name |-> name, exported |-> exported, embedded |-> embedded]
StructFields(v) == CASE v \in {"embed_unexported", "ptr_embed_unexported", "slice_embed_unexported", "map_embed_unexported"} ->
                           {Fld("base", FALSE, TRUE), Fld("Name", TRUE, FALSE)}
                     [] v \in {"embed_unexported_ptr", "embed_unexported_nilptr"} -> {Fld("base", FALSE, TRUE), Fld("Name", TRUE, FALSE)}
                     [] v = "unexported_fields_only" -> {Fld("a", FALSE, FALSE), Fld("b", FALSE, FALSE)}
                     [] v = "struct_chan_field" -> {Fld("A", TRUE, FALSE), Fld("C", TRUE, FALSE)}
                     [] v = "struct_func_field" -> {Fld("F", TRUE, FALSE)}
                     [] v = "array_of_struct" -> {Fld("A", TRUE, FALSE)}
                     [] v = "list_node" -> {Fld("V", TRUE, FALSE), Fld("Next", TRUE, FALSE)}
                     [] OTHER -> {}
VisitedFields(v) == {f \in StructFields(v) : f.exported}                      \* if field := t.Field(i); field.PkgPath == ""
StructWalkSafe == \A v \in ShowValues : \A f \in VisitedFields(v) : f.exported  \* Interface() is legal on every visited field
=============================================================================

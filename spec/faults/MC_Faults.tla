------------------------------ MODULE MC_Faults ------------------------------
(* Model check of the run machine of Faults.tla over the whole grid fault x situation x form x run options, and
   export of the grid and of the show grid (cases.ndjson) and of the holes of the implementation-shaped model
   (model_holes.ndjson). *)
EXTENDS Faults, TLC, Json, SequencesExt
\* Quick = TRUE: the cancelable-context half of the grid only for the situations in which the way the run ends
\* differs (top level, deferred calls, the multi-step sequences, a template block); FALSE: the whole product.
CONSTANT Quick
GridUsed == IF Quick THEN {c \in Grid : c.opt = "none" \/ SituationClass(c.situation) \in {"top-level", "deferred-call", "multi-step"}
                                          \/ c.situation = "tmpl_block"}
            ELSE Grid
MCInit == FInitIn(GridUsed)

\* sanity of the tables (constant level: evaluated before the model check starts)
ASSUME \A n \in FaultNames : FaultByName(n).name = n
ASSUME \A f \in Rows : f.pv \in PanicValues /\ f.nested \in {"no", "panics", "recovers"}
ASSUME NoPanicFaults \cup ErrorFaults \cup StopFaults \subseteq FaultNames
ASSUME \A f \in Rows : \E s \in Situations, fm \in Forms : Applicable(f, s, fm)
\* every situation class is populated for every fault that has a statement form
ASSUME \A f \in Rows : f.stmt /\ ~f.decl =>
          \A k \in {"top-level", "callee", "deferred-call", "closure", "function-value", "template", "multi-step"} :
             \E s \in Situations, fm \in Forms : SituationClass(s) = k /\ Applicable(f, s, fm)
ASSUME StructWalkSafe

\* (LET-bound values are evaluated once; a top-level definition would be re-evaluated at every use)
ASSUME LET G == SetToSeq(GridUsed)  S == SetToSeq(ShowGrid) IN
       ndJsonSerialize("cases.ndjson",
          [i \in 1..(Len(G) + Len(S)) |->
             IF i <= Len(G)
             THEN [id |-> i, kind |-> "fault", fault |-> G[i].fault, situation |-> G[i].situation, form |-> G[i].form, opt |-> G[i].opt]
             ELSE [id |-> i, kind |-> "show", value |-> S[i - Len(G)].value, ctx |-> S[i - Len(G)].ctx, box |-> S[i - Len(G)].box,
                   isolate |-> (S[i - Len(G)].value \in CyclicValues)]])
HoleRec(c) == LET f == FaultByName(c.fault) IN
              [fault |-> c.fault, situation |-> c.situation, form |-> c.form, opt |-> c.opt, class |-> f.class, op |-> f.op, pv |-> f.pv,
               model |-> ModelOutcome(c)]
ASSUME LET H == SelectSeq(SetToSeq(GridUsed), LAMBDA c : ModelOutcome(c) \notin RefOutcomes(c)) IN
       ndJsonSerialize("model_holes.ndjson", [i \in 1..Len(H) |-> HoleRec(H[i])])
=============================================================================

------------------------------ MODULE MC_AEBlock ------------------------------
(* C06, fourth case space: THE CONTEXT AROUND BLOCK STATEMENTS THAT SAVE AND RESTORE IT.

   "Any value ... shown anywhere in it, directly or through macros ..." (properties.jsonl C06): a show may
   stand in the body of a macro declaration or of a using statement, and after such a body.  The body of a
   macro with a result type R (`{% macro N() js %}`) and of a using statement with a type
   (`{% show itea; using js %}`) is a template of the format R, whatever the format of the file; behind the
   statement that ends the body the file (or the enclosing body) goes on in ITS format.  The real lexer
   keeps a STACK of contexts for this (lexer.go, lexCode: pushed by `macro` and `using`, and by
   if / for / switch / select when the stack is not empty, popped by every `end`), so every spelling of the
   opening and of the end statement, and every nesting, is a way to leave the stack unbalanced.

   This module enumerates the documents

       document ::= [<script>] block probe(after) use [</script>]
       block    ::= open `1 ` [ open `1 ` probe(body2) close use ] probe(body1) close
       open     ::= {% macro N() R %} | {% macro N R %} | {% show itea; using R %} | {% var v = itea; using R %}
                  | {% show itea(); using macro() R %}                                  R: nothing or a format type
                  | {% if true %} | {% for ... %} | {% switch %}{% case true %} | {% select %}{% default %}
                  | {% raw %} | {% L: for ... %}
       close    ::= {% end %} | {% end macro %} / {% end using %} / {% end if %} ... (the keyword of the opening;
                    these are all the spellings the parser accepts: there is no `end show` or `end var`)
       use      ::= what makes the body appear in the output: {{ N() }} after a macro declaration, {{ v }} after
                    `var v = itea; using`; behind the outer block it stands in an element of the format R
                    (<script>, <style>, <script type="application/ld+json">) so that the call does not escape
                    the body a second time

   over BOuter x BOuterTypes x both closes, nothing or BInner x BInnerTypes x both closes inside, placed in
   the file's content (F) or inside a script element (S).  ONE position of a document is probed: behind the
   block (after), in the outer body behind the inner block (body1), in the inner body (body2).

   Reference part: RefCtx - the format of the place where the template puts the probe: the type of the
   innermost enclosing body that has one, else the format of the place of the document.  It names the slot.
   Implementation-shaped part: ModelCtx - lexCode's context stack, one step per statement.  The two are
   compared here for every case (diagnostic: the number of differences is printed and every case carries
   both); checks/c06.py compares the context the REAL lexer gives to the probe with both.

   Nothing is judged here.  The cases are rendered by the real code with the values of the dictionary and
   judged by Trace_AEConfine with the property's predicate: Signature(output with value) =
   Signature(output with the benign value). *)
EXTENDS Integers, Sequences, TLC, Json, FiniteSets, SequencesExt

CONSTANTS BFmt,          \* format of the template file: "HTML", "MD", "JS", "CSS", "JSON"
          BPlaces,       \* subset of {"F", "S"}: the block stands in the file's content / inside <script> ... </script>
          BOuter, BOuterTypes,   \* kinds of the outer block, result types of the typed kinds ("none": no type written)
          BInner, BInnerTypes    \* kinds of the inner block (a document without inner block is always generated)

\* ---- the words of the statements (bytes)
StO == <<123,37,32>>   \* `{% `
StC == <<32,37,125>>   \* ` %}`
ShO == <<123,123,32>>   \* `{{ `
ShC == <<32,125,125>>   \* ` }}`
WMacroN == <<109,97,99,114,111,32,78>>   \* `macro N`
WParens == <<40,41>>   \* `()`
WSp == <<32>>   \* ` `
WShowItea == <<115,104,111,119,32,105,116,101,97>>   \* `show itea`
WShowIteaCall == <<115,104,111,119,32,105,116,101,97,40,41>>   \* `show itea()`
WVarV == <<118,97,114,32,118>>   \* `var v`
WEqItea == <<32,61,32,105,116,101,97>>   \* ` = itea`
WUsing == <<59,32,117,115,105,110,103>>   \* `; using`
WMacroLit == <<32,109,97,99,114,111,40,41>>   \* ` macro()`
WIf == <<105,102,32,116,114,117,101>>   \* `if true`
WFor == <<102,111,114,32,105,32,58,61,32,48,59,32,105,32,60,32,49,59,32,105,43,43>>   \* `for i := 0; i < 1; i++`
WSwitch == <<115,119,105,116,99,104>>   \* `switch`
WCase == <<99,97,115,101,32,116,114,117,101>>   \* `case true`
WSelect == <<115,101,108,101,99,116>>   \* `select`
WDefault == <<100,101,102,97,117,108,116>>   \* `default`
WRaw == <<114,97,119>>   \* `raw`
WLabel == <<76>>   \* `L`
WColon == <<58,32>>   \* `: `
WEnd == <<101,110,100>>   \* `end`
KwMacro == <<32,109,97,99,114,111>>   \* ` macro`
KwUsing == <<32,117,115,105,110,103>>   \* ` using`
KwIf == <<32,105,102>>   \* ` if`
KwFor == <<32,102,111,114>>   \* ` for`
KwSwitch == <<32,115,119,105,116,99,104>>   \* ` switch`
KwSelect == <<32,115,101,108,101,99,116>>   \* ` select`
KwRaw == <<32,114,97,119>>   \* ` raw`
WN == <<78>>   \* `N`
Wv == <<118>>   \* `v`
BodyText == <<49,32>>   \* `1 `: a number and a space in every format
ScriptO == <<60,115,99,114,105,112,116,62>>   \* `<script>`
ScriptC == <<60,47,115,99,114,105,112,116,62>>   \* `</script>`
StyleO == <<60,115,116,121,108,101,62>>   \* `<style>`
StyleC == <<60,47,115,116,121,108,101,62>>   \* `</style>`
LdO == <<60,115,99,114,105,112,116,32,116,121,112,101,61,34,97,112,112,108,105,99,97,116,105,111,110,47,108,100,43,106,115,111,110,34,62>>   \* `<script type="application/ld+json">`
D1 == <<49>>   \* `1`
D2 == <<50>>   \* `2`
TypeBytes(t) == CASE t = "string" -> <<115,116,114,105,110,103>> [] t = "html" -> <<104,116,109,108>> [] t = "css" -> <<99,115,115>>
                  [] t = "js" -> <<106,115>> [] t = "json" -> <<106,115,111,110>> [] t = "markdown" -> <<109,97,114,107,100,111,119,110>>

\* ---- blocks: [k: kind, t: written result type or "none", e: 0 `{% end %}`, 1 `{% end <keyword> %}`]
MacroKinds == {"macro", "macrob"}
UsingKinds == {"show", "var", "showm"}
TypedKinds == MacroKinds \cup UsingKinds
PlainKinds == {"if", "for", "switch", "select", "raw", "lfor"}
NoBlock == [k |-> "none", t |-> "none", e |-> 0]
Blocks(kinds, types) == {[k |-> k, t |-> t, e |-> e] : k \in kinds \cap TypedKinds, t \in types, e \in {0, 1}}
                        \cup {[k |-> k, t |-> "none", e |-> e] : k \in kinds \cap PlainKinds, e \in {0, 1}}

St(s) == (StO \o s) \o StC
Sh(s) == (ShO \o s) \o ShC
TypeSfx(t) == IF t = "none" THEN <<>> ELSE WSp \o TypeBytes(t)
\* d: the digit that makes the names of the two levels different
Open(b, d) ==
  CASE b.k = "macro"  -> St(((WMacroN \o d) \o WParens) \o TypeSfx(b.t))
    [] b.k = "macrob" -> St((WMacroN \o d) \o TypeSfx(b.t))
    [] b.k = "show"   -> St((WShowItea \o WUsing) \o TypeSfx(b.t))
    [] b.k = "var"    -> St((((WVarV \o d) \o WEqItea) \o WUsing) \o TypeSfx(b.t))
    [] b.k = "showm"  -> St(((WShowIteaCall \o WUsing) \o WMacroLit) \o TypeSfx(b.t))
    [] b.k = "if"     -> St(WIf)
    [] b.k = "for"    -> St(WFor)
    [] b.k = "switch" -> St(WSwitch) \o St(WCase)
    [] b.k = "select" -> St(WSelect) \o St(WDefault)
    [] b.k = "raw"    -> St(WRaw)
    [] b.k = "lfor"   -> St(((WLabel \o d) \o WColon) \o WFor)
EndKw(k) == CASE k \in MacroKinds -> KwMacro [] k \in UsingKinds -> KwUsing [] k = "if" -> KwIf [] k \in {"for", "lfor"} -> KwFor
              [] k = "switch" -> KwSwitch [] k = "select" -> KwSelect [] k = "raw" -> KwRaw
Close(b) == St(WEnd \o (IF b.e = 0 THEN <<>> ELSE EndKw(b.k)))
\* the element in which the outer block's use stands (HTML files, place F): the body's own format, so that nothing is escaped twice
WrapO(t) == CASE t = "js" -> ScriptO [] t = "css" -> StyleO [] t = "json" -> LdO [] OTHER -> <<>>
WrapC(t) == CASE t = "js" -> ScriptC [] t = "css" -> StyleC [] t = "json" -> ScriptC [] OTHER -> <<>>
Use(b, d, wrap) ==
  LET call == CASE b.k \in MacroKinds -> Sh((WN \o d) \o WParens) [] b.k = "var" -> Sh(Wv \o d) [] OTHER -> <<>>
  IN IF call = <<>> \/ ~wrap THEN call ELSE (WrapO(b.t) \o call) \o WrapC(b.t)

\* ---- documents
HasInner(x) == x.i.k # "none"
FileCtx == CASE BFmt = "HTML" -> "HTML" [] BFmt = "MD" -> "Markdown" [] BFmt = "JS" -> "JS" [] BFmt = "CSS" -> "CSS" [] BFmt = "JSON" -> "JSON"
PlaceCtx(pl) == IF pl = "S" THEN "JS" ELSE FileCtx
TypeCtx(t) == CASE t = "string" -> "Text" [] t = "html" -> "HTML" [] t = "css" -> "CSS" [] t = "js" -> "JS" [] t = "json" -> "JSON" [] t = "markdown" -> "Markdown"
\* REFERENCE: the format of a body is its written type, else the format of what encloses it
BodyRef(b, enclosing) == IF b.t # "none" THEN TypeCtx(b.t) ELSE enclosing
RefCtx(x, p) == CASE p = 1 -> PlaceCtx(x.place)
                  [] p = 2 -> BodyRef(x.o, PlaceCtx(x.place))
                  [] p = 3 -> BodyRef(x.i, BodyRef(x.o, PlaceCtx(x.place)))
SlotOf(c) == CASE c = "HTML" -> "text" [] c = "JS" -> "js-code" [] c = "CSS" -> "css-code" [] c = "JSON" -> "json-value"
               [] c = "Text" -> "string-body" [] c = "Markdown" -> "md-body"

\* a macro is declared in the content of the file only (the parser refuses it elsewhere); the body of raw is not a template
Valid(x) == /\ (x.o.k = "raw" => ~HasInner(x))
            /\ (x.place = "S" => x.o.k \notin MacroKinds /\ BFmt = "HTML")
            /\ (x.i.k \in MacroKinds => x.place = "F" /\ BodyRef(x.o, FileCtx) = FileCtx)
Docs == {x \in [place : BPlaces, o : Blocks(BOuter, BOuterTypes), i : {NoBlock} \cup Blocks(BInner, BInnerTypes)] : Valid(x)}
\* probes: 1 after, 2 body1, 3 body2 (no template inside raw)
Probes(x) == {1} \cup (IF x.o.k = "raw" THEN {} ELSE {2}) \cup (IF HasInner(x) /\ x.i.k # "raw" THEN {3} ELSE {})
ProbeName(p) == CASE p = 1 -> "after" [] p = 2 -> "body1" [] p = 3 -> "body2"

\* the text before / after the probe p
InnerText(x, p) == IF ~HasInner(x) THEN <<>>
                   ELSE <<Open(x.i, D2) \o BodyText, Close(x.i) \o Use(x.i, D2, FALSE)>>
Pre(x, p) == LET a == (IF x.place = "S" THEN ScriptO ELSE <<>>) \o (Open(x.o, D1) \o BodyText)
                 it == InnerText(x, p)
             IN CASE p = 3 -> a \o it[1]
                  [] p = 2 -> IF HasInner(x) THEN (a \o it[1]) \o it[2] ELSE a
                  [] p = 1 -> (IF HasInner(x) THEN (a \o it[1]) \o it[2] ELSE a) \o Close(x.o)
Suf(x, p) == LET z == Use(x.o, D1, x.place = "F" /\ BFmt = "HTML") \o (IF x.place = "S" THEN ScriptC ELSE <<>>)
                 it == InnerText(x, p)
             IN CASE p = 3 -> (it[2] \o Close(x.o)) \o z
                  [] p = 2 -> Close(x.o) \o z
                  [] p = 1 -> z

\* ---- IMPLEMENTATION-SHAPED: lexCode's context stack (lexer.go, "If it has lexed the first token after '{%' ...")
MOpen(s, b) == CASE b.k \in TypedKinds -> [ctx |-> IF b.t = "none" THEN s.ctx ELSE TypeCtx(b.t), st |-> Append(s.st, s.ctx)]   \* macro / using: push; a type sets the context at `%}`
                 [] b.k \in {"if", "for", "switch", "select"} -> IF s.st = <<>> THEN s ELSE [s EXCEPT !.st = Append(s.st, s.ctx)]
                 [] OTHER -> s                                        \* raw, and a statement that starts with a label: the first token is not a keyword
MEnd(s) == IF s.st = <<>> THEN s ELSE [ctx |-> s.st[Len(s.st)], st |-> SubSeq(s.st, 1, Len(s.st) - 1)]
ModelCtx(x, p) == LET s0 == [ctx |-> PlaceCtx(x.place), st |-> <<>>]
                      s1 == MOpen(s0, x.o)
                      s2 == MOpen(s1, x.i)
                      s3 == IF HasInner(x) THEN MEnd(s2) ELSE s1
                  IN CASE p = 3 -> s2.ctx [] p = 2 -> s3.ctx [] p = 1 -> MEnd(s3).ctx

EndName(b) == IF b.e = 0 THEN "end" ELSE "end-keyword"
CaseOf(x, p) == [fmt |-> BFmt, frags |-> <<Pre(x, p), Suf(x, p)>>, hole |-> 1,
                 ectx |-> RefCtx(x, p), mctx |-> ModelCtx(x, p), slot |-> SlotOf(RefCtx(x, p)),
                 block |-> [place |-> x.place, okind |-> x.o.k, otype |-> x.o.t, oend |-> EndName(x.o),
                            ikind |-> x.i.k, itype |-> x.i.t, iend |-> IF HasInner(x) THEN EndName(x.i) ELSE "none", probe |-> ProbeName(p)]]

\* (a value bound by a quantifier over a singleton set is evaluated once; a LET definition at every use)
ASSUME \A D \in {Docs} :
         \A C \in {SetToSeq(UNION {{CaseOf(x, p) : p \in Probes(x)} : x \in D})} :
              /\ PrintT(<<"BLOCK", Cardinality(D), Cardinality({k \in 1..Len(C) : C[k].ectx # C[k].mctx}), Len(C)>>)
              /\ ndJsonSerialize("block_cases.ndjson", [k \in 1..Len(C) |-> [id |-> k] @@ C[k]])

VARIABLE z
Init == z = 0
Next == z < 0 /\ z' = z
=============================================================================

------------------------------- MODULE AELexer -------------------------------
(* C06 IMPLEMENTATION-SHAPED model: the context machine of lexer.scan
   (/repo/internal/compiler/lexer.go, the templateSyntax branch; file formats HTML, JS, CSS, JSON) transcribed
   branch by branch.  lexer.scan decides with look-ahead (isEndScript, the CDATA prefix, src[p+1]
   after `\`, `/`, `*`) and scans tag and attribute names in inner loops (scanTag, scanAttribute);
   here the same decisions are taken one byte at a time with explicit scanning sub-states `sub`, so
   that the machine can be stepped over FRAGMENTS and has finitely many states:

     sub = ""        at the top of the LOOP of scan
           "lt"      HTML: `<` seen (CDATA prefix test / scanTag pending)
           "cd"      HTML: k bytes of `<![CDATA[` matched
           "cdata" "cdata1" "cdata2"   HTML: inside the skipped CDATA section, 0/1/2 bytes of `]]>` matched
           "tn"      scanTag: reading the tag name
           "an" "aeq" "aq"   scanAttribute: reading the name / looking for `=` / looking for the value
           "et"      CSS, JS, JSON (and their strings): k bytes of `</style` / `</script` matched
           "esc"     in a string: `\` seen (look-ahead for the quote or a second `\`)
           "jsl"     JS: `/` seen (look-ahead for `/` or `*`);  "bcs"  JS block comment: `*` seen

   It decides nothing about the real code (DESIGN 2.3): MC_AEProduct explores it against the
   reference tokenizer, and the contexts it predicts are compared with the contexts the real lexer
   assigns only to report model drift.  Not transcribed: Markdown contexts, the {% macro %} context
   stack (documents here contain no statements), `data-` and foreign-namespace attribute rules of
   containsURL other than xmlns:. *)
EXTENDS Integers, Sequences

LIsAlpha(c) == (c >= 97 /\ c <= 122) \/ (c >= 65 /\ c <= 90)
LLower(c) == IF c >= 65 /\ c <= 90 THEN c + 32 ELSE c
LIsPrefix(p, s) == Len(p) <= Len(s) /\ \A i \in 1..Len(p) : p[i] = s[i]
LASCIISpace(c) == c \in {32, 9, 10, 13, 12}     \* isASCIISpace
LSpace(c) == c \in {32, 9, 10, 13}              \* isSpace

LScript == <<115,99,114,105,112,116>>
LStyle == <<115,116,121,108,101>>
LTags == { LScript, LStyle, <<102,111,114,109>>, <<98,108,111,99,107,113,117,111,116,101>>, <<100,101,108>>, <<105,110,115>>, <<113>>,
           <<111,98,106,101,99,116>>, <<98,117,116,116,111,110>>, <<105,110,112,117,116>>, <<97>>, <<97,114,101,97>>, <<108,105,110,107>>,
           <<98,97,115,101>>, <<105,109,103>>, <<104,116,109,108>>, <<118,105,100,101,111>>, <<97,117,100,105,111>>, <<101,109,98,101,100>>,
           <<105,102,114,97,109,101>>, <<115,111,117,114,99,101>>, <<116,114,97,99,107>> }
LType == <<116,121,112,101>>
LXmlnsColon == <<120,109,108,110,115,58>>
LAttrs == { LType, <<97,99,116,105,111,110>>, <<99,105,116,101>>, <<100,97,116,97>>, <<102,111,114,109,97,99,116,105,111,110>>, <<104,114,101,102>>,
            <<108,111,110,103,100,101,115,99>>, <<109,97,110,105,102,101,115,116>>, <<112,111,115,116,101,114>>, <<115,114,99>>,
            <<115,114,99,115,101,116>>, <<120,109,108,110,115>>, LXmlnsColon }
\* names are kept while they can still become a name the lexer distinguishes; <<0>> = another name
LNorm(b, S) == IF b = <<0>> THEN b ELSE IF \E n \in S : LIsPrefix(b, n) THEN b ELSE <<0>>
LTagAdd(b, c) == LNorm(IF b = <<0>> THEN b ELSE Append(b, LLower(c)), LTags)
LAttrAdd(b, c) == IF b = LXmlnsColon THEN b      \* xmlns:anything
                  ELSE LNorm(IF b = <<0>> THEN b ELSE Append(b, LLower(c)), LAttrs)

\* containsURL(tag, attr): 0 no, 1 URL, 2 srcset
LContainsURL(tn, an) ==
  CASE an = <<97,99,116,105,111,110>> -> IF tn = <<102,111,114,109>> THEN 1 ELSE 0                                      \* action: form
    [] an = <<99,105,116,101>> -> IF tn \in {<<98,108,111,99,107,113,117,111,116,101>>, <<100,101,108>>, <<105,110,115>>, <<113>>} THEN 1 ELSE 0
    [] an = <<100,97,116,97>> -> IF tn = <<111,98,106,101,99,116>> THEN 1 ELSE 0                                         \* data: object
    [] an = <<102,111,114,109,97,99,116,105,111,110>> -> IF tn \in {<<98,117,116,116,111,110>>, <<105,110,112,117,116>>} THEN 1 ELSE 0
    [] an = <<104,114,101,102>> -> IF tn \in {<<97>>, <<97,114,101,97>>, <<108,105,110,107>>, <<98,97,115,101>>} THEN 1 ELSE 0   \* href: a area link base
    [] an = <<108,111,110,103,100,101,115,99>> -> IF tn = <<105,109,103>> THEN 1 ELSE 0
    [] an = <<109,97,110,105,102,101,115,116>> -> IF tn = <<104,116,109,108>> THEN 1 ELSE 0
    [] an = <<112,111,115,116,101,114>> -> IF tn = <<118,105,100,101,111>> THEN 1 ELSE 0
    [] an = <<115,114,99>> -> IF tn \in {<<97,117,100,105,111>>, <<101,109,98,101,100>>, <<105,102,114,97,109,101>>, <<105,109,103>>, <<105,110,112,117,116>>,
                                        LScript, <<115,111,117,114,99,101>>, <<116,114,97,99,107>>, <<118,105,100,101,111>>} THEN 1 ELSE 0
    [] an = <<115,114,99,115,101,116>> -> IF tn \in {<<105,109,103>>, <<115,111,117,114,99,101>>} THEN 2 ELSE 0          \* srcset: img source
    [] an = <<120,109,108,110,115>> \/ an = LXmlnsColon -> 1
    [] OTHER -> 0

CDataStart == <<60,33,91,67,68,65,84,65,91>>       \* <![CDATA[
EndScript == <<60,47,115,99,114,105,112,116>>      \* </script   (letters compared case-insensitively)
EndStyle == <<60,47,115,116,121,108,101>>          \* </style
ModuleType == <<109,111,100,117,108,101>>
JSONLDType == <<97,112,112,108,105,99,97,116,105,111,110,47,108,100,43,106,115,111,110>>
JSMimeType == <<116,101,120,116,47,106,97,118,97,115,99,114,105,112,116>>
CSSMimeType == <<116,101,120,116,47,99,115,115>>

RECURSIVE LTrimL(_, _)
LTrimL(s, i) == IF i <= Len(s) /\ s[i] \in {32, 9, 10, 11, 12, 13} THEN LTrimL(s, i + 1) ELSE i
RECURSIVE LTrimR(_, _)
LTrimR(s, j) == IF j >= 1 /\ s[j] \in {32, 9, 10, 11, 12, 13} THEN LTrimR(s, j - 1) ELSE j
LTrimFold(s) == LET i == LTrimL(s, 1) j == LTrimR(s, Len(s)) IN
                IF i > j THEN <<>> ELSE [k \in 1..(j - i + 1) |-> LLower(s[i + k - 1])]

\* html = isHTML (the file is an HTML file: </script> and </style> are looked for); the file context is
\* "HTML" then, else the context of the file format (scanTemplate: ctx = ast.Context(format))
L0 == [ctx |-> "HTML", q |-> 0, url |-> 0, jsc |-> 0, tn |-> <<>>, tctx |-> "HTML", an |-> <<>>, tv |-> <<>>, sub |-> "", k |-> 0, html |-> TRUE]
L0F(fmt) == IF fmt = "HTML" THEN L0 ELSE [L0 EXCEPT !.ctx = fmt, !.html = FALSE]

\* end of an attribute value (case ContextQuotedAttr, ContextUnquotedAttr of scan)
LEndAttr(l) ==
  LET tc == IF l.url # 0 \/ l.an # LType THEN l.tctx
            ELSE CASE l.tn = LScript ->
                        IF l.tv = ModuleType THEN l.tctx
                        ELSE LET t == LTrimFold(l.tv) IN
                             CASE t = <<>> -> l.tctx
                               [] t = JSONLDType -> "JSON"
                               [] t # JSMimeType -> "HTML"
                               [] OTHER -> l.tctx
                   [] l.tn = LStyle -> LET t == LTrimFold(l.tv) IN IF t # <<>> /\ t # CSSMimeType THEN "HTML" ELSE l.tctx
                   [] OTHER -> l.tctx
  IN [l EXCEPT !.ctx = "Tag", !.q = 0, !.url = 0, !.tctx = tc, !.an = <<>>, !.tv = <<>>]
LAccValue(l, c) == IF l.an = LType /\ l.url = 0 /\ l.tn \in {LScript, LStyle}
                   THEN [l EXCEPT !.tv = IF @ = <<0>> \/ Len(@) >= 24 THEN <<0>> ELSE Append(@, c)] ELSE l

RECURSIVE LDo(_, _)
LDo(l, c) ==
  CASE l.sub = "et" ->      \* isEndStyle / isEndScript, one byte at a time
         LET tgt == IF l.ctx \in {"CSS", "CSSString"} THEN EndStyle ELSE EndScript IN
         IF l.k < Len(tgt) THEN
              IF LLower(c) = tgt[l.k + 1] THEN [l EXCEPT !.k = @ + 1]
              ELSE \* no end tag: the bytes after `<` are ordinary; only `/` of `</` can matter (JS code: `//`, `/*`)
                   IF l.k = 2 /\ l.ctx = "JS" /\ l.jsc = 0 THEN LDo([l EXCEPT !.sub = "jsl", !.k = 0], c)
                   ELSE LDo([l EXCEPT !.sub = "", !.k = 0], c)
         ELSE IF c = 62 \/ LSpace(c) THEN [l EXCEPT !.ctx = "HTML", !.q = 0, !.jsc = 0, !.sub = "", !.k = 0]
              ELSE LDo([l EXCEPT !.sub = "", !.k = 0], c)
    [] l.sub = "esc" -> IF c = l.q \/ c = 92 THEN [l EXCEPT !.sub = ""] ELSE LDo([l EXCEPT !.sub = ""], c)   \* `\` + quote, `\` + `\`
    [] l.sub = "jsl" -> CASE c = 47 -> [l EXCEPT !.jsc = 1, !.sub = ""]
                          [] c = 42 -> [l EXCEPT !.jsc = 2, !.sub = ""]
                          [] OTHER -> LDo([l EXCEPT !.sub = ""], c)
    [] l.sub = "bcs" -> IF c = 47 THEN [l EXCEPT !.jsc = 0, !.sub = ""] ELSE LDo([l EXCEPT !.sub = ""], c)
    [] l.sub = "lt" -> CASE c = 33 -> [l EXCEPT !.sub = "cd", !.k = 2]
                         [] LIsAlpha(c) -> [l EXCEPT !.sub = "tn", !.tn = LTagAdd(<<>>, c)]
                         [] OTHER -> LDo([l EXCEPT !.sub = ""], c)
    [] l.sub = "cd" -> IF c = CDataStart[l.k + 1]
                       THEN IF l.k + 1 = Len(CDataStart) THEN [l EXCEPT !.sub = "cdata", !.k = 0] ELSE [l EXCEPT !.k = @ + 1]
                       ELSE LDo([l EXCEPT !.sub = "", !.k = 0], c)
    [] l.sub = "cdata" -> IF c = 93 THEN [l EXCEPT !.sub = "cdata1"] ELSE l
    [] l.sub = "cdata1" -> IF c = 93 THEN [l EXCEPT !.sub = "cdata2"] ELSE [l EXCEPT !.sub = "cdata"]
    [] l.sub = "cdata2" -> CASE c = 62 -> [l EXCEPT !.sub = ""]
                             [] c = 93 -> l
                             [] OTHER -> [l EXCEPT !.sub = "cdata"]
    [] l.sub = "tn" ->       \* scanTag
         IF c \in {62, 47, 123} \/ LASCIISpace(c)
         THEN LDo([l EXCEPT !.ctx = "Tag", !.sub = "",
                            !.tctx = CASE l.tn = LScript -> "JS" [] l.tn = LStyle -> "CSS" [] OTHER -> @], c)
         ELSE [l EXCEPT !.tn = LTagAdd(@, c)]
    [] l.sub = "an" ->       \* scanAttribute: the name
         CASE c = 61 -> [l EXCEPT !.sub = "aq"]
           [] LASCIISpace(c) -> [l EXCEPT !.sub = "aeq"]
           [] c <= 31 \/ c \in {34, 39, 62, 47, 127} -> LDo([l EXCEPT !.sub = "", !.an = <<>>], c)
           [] OTHER -> [l EXCEPT !.an = LAttrAdd(@, c)]
    [] l.sub = "aeq" ->      \* scanAttribute: reads '='
         CASE c = 61 -> [l EXCEPT !.sub = "aq"]
           [] LASCIISpace(c) -> l
           [] OTHER -> LDo([l EXCEPT !.sub = "", !.an = <<>>], c)
    [] l.sub = "aq" ->       \* scanAttribute: reads the quote; then "Start attribute value"
         CASE c = 62 -> LDo([l EXCEPT !.sub = "", !.an = <<>>], c)
           [] LASCIISpace(c) -> l
           [] c = 34 \/ c = 39 -> [l EXCEPT !.ctx = "QuotedAttr", !.q = c, !.url = LContainsURL(l.tn, l.an), !.sub = "", !.tv = <<>>]
           [] OTHER -> LDo([l EXCEPT !.ctx = "UnquotedAttr", !.q = 0, !.url = LContainsURL(l.tn, l.an), !.sub = "", !.tv = <<>>], c)
    [] l.ctx = "HTML" -> IF c = 60 THEN [l EXCEPT !.sub = "lt"] ELSE l
    [] l.ctx = "Tag" ->
         CASE c = 62 -> [l EXCEPT !.ctx = l.tctx, !.tn = <<>>, !.tctx = "HTML"]
           [] LASCIISpace(c) -> l
           [] c <= 31 \/ c \in {34, 39, 47, 127, 61} -> l        \* scanAttribute returns ("", p): the byte is skipped
           [] OTHER -> [l EXCEPT !.sub = "an", !.an = LAttrAdd(<<>>, c)]
    [] l.ctx = "QuotedAttr" -> IF c = l.q THEN LEndAttr(l) ELSE LAccValue(l, c)
    [] l.ctx = "UnquotedAttr" ->
         CASE c = 62 -> LDo(LEndAttr(l), c)
           [] LASCIISpace(c) -> LEndAttr(l)
           [] OTHER -> LAccValue(l, c)
    [] l.ctx = "CSS" ->
         CASE c = 60 /\ l.html -> [l EXCEPT !.sub = "et", !.k = 1]
           [] c = 34 \/ c = 39 -> [l EXCEPT !.ctx = "CSSString", !.q = c]
           [] OTHER -> l
    [] l.ctx \in {"CSSString", "JSString", "JSONString"} ->
         CASE c = 92 -> [l EXCEPT !.sub = "esc"]
           [] c = l.q -> [l EXCEPT !.ctx = CASE l.ctx = "CSSString" -> "CSS" [] l.ctx = "JSString" -> "JS" [] OTHER -> "JSON", !.q = 0]
           [] c = 60 /\ l.html -> [l EXCEPT !.sub = "et", !.k = 1]
           [] OTHER -> l
    [] l.ctx = "JS" ->
         CASE c = 60 /\ l.html -> [l EXCEPT !.sub = "et", !.k = 1]
           [] l.jsc = 1 -> IF c = 10 \/ c = 13 THEN [l EXCEPT !.jsc = 0] ELSE l
           [] l.jsc = 2 -> IF c = 42 THEN [l EXCEPT !.sub = "bcs"] ELSE l
           [] c = 47 -> [l EXCEPT !.sub = "jsl"]
           [] c = 34 \/ c = 39 -> [l EXCEPT !.ctx = "JSString", !.q = c]
           [] OTHER -> l
    [] l.ctx = "JSON" ->
         CASE c = 60 /\ l.html -> [l EXCEPT !.sub = "et", !.k = 1]
           [] c = 34 -> [l EXCEPT !.ctx = "JSONString", !.q = 34]
           [] OTHER -> l
    [] OTHER -> l

RECURSIVE LRunFrom(_, _, _)
LRunFrom(l, s, i) == IF i > Len(s) THEN l ELSE LRunFrom(LDo(l, s[i]), s, i + 1)
LRun(l, s) == LRunFrom(l, s, 1)

\* the context a `{{` at this point gets ("inert": inside the skipped CDATA section `{{` is not lexed)
LCtxAtHole(l) == CASE l.sub \in {"cdata", "cdata1", "cdata2"} -> "inert"
                   [] l.sub = "tn" -> "Tag"
                   [] l.sub = "aq" -> "UnquotedAttr"
                   [] OTHER -> l.ctx
LURLAtHole(l) == IF l.sub = "aq" THEN LContainsURL(l.tn, l.an) ELSE l.url
=============================================================================

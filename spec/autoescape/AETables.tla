------------------------------- MODULE AETables -------------------------------
(* C06: the fragment alphabet, and the two relations between a lexer context and a reference slot.

   Agree(ctx, url, slot, kind)       STRICT: ctx is the context scriggo means for this slot.  Used only to
                                     name the ROOT CAUSE of a desynchronisation (the breaking edge: last
                                     agreeing product-state class + fragment); never for a verdict.
   Compatible(ctx, url, slot, kind)  CONFINEMENT: the escaper scriggo applies in (ctx, url) confines every
                                     value of an untrusted type to `slot`.  Used to select CANDIDATES
                                     (and to prune the product exploration); never for a verdict either:
                                     a verdict needs a rendered output whose structure changes
                                     (Trace_AEConfine).

   Escaper classes (internal/runtime/renderer.go Show + escapers.go), by what they leave unescaped:
     html    htmlEscape: " ' & < > escaped; keeps space = / ` \ newline - * ( ) [ ] $ { }
     tag     showInTag: controls " ' > / = -> U+FFFD; keeps space < & ` \
     unq     attributeEscape unquoted: < > & tab nl cr ff space " ' = ` escaped; keeps / \ - * ( ) $ { } ] and U+2028
     urlq    pathEscape/queryEscape in a quoted attribute: everything but alnum !#$*,-./:;=?@[]_~ (and space, &amp; &#43;) is %XX
     urlu    the same in an unquoted attribute: space -> &#32;
     jsstr   jsStringEscape: controls " ' & < > \ U+2028/9 escaped; keeps ` $ { / * - space = ] ( [
     js      showInJS / showInJSON: strings as "jsstr", numbers, booleans, null, [..] and {..} of them
     cssstr  cssStringEscape: controls " & ' ( ) + / : ; < > \ { } escaped; keeps * - = space ` ] [ ! $ ,
     css     showInCSS: strings as "cssstr", numbers *)
EXTENDS Integers, Sequences

Frags == <<
  <<60,115,99,114,105,112,116,62>>,   \* 1 <script>
  <<60,47,115,99,114,105,112,116,62>>,   \* 2 </script>
  <<60,97,32,104,114,101,102,61,34>>,   \* 3 <a href="
  <<60,100,105,118,32,116,105,116,108,101,61,39>>,   \* 4 <div title='
  <<60,33,45,45>>,   \* 5 <!--
  <<45,45,62>>,   \* 6 -->
  <<34>>,   \* 7 "
  <<39>>,   \* 8 '
  <<47>>,   \* 9 /
  <<92>>,   \* 10 \
  <<62>>,   \* 11 >
  <<32>>,   \* 12 space
  <<120>>,   \* 13 x
  <<10>>,   \* 14 \n
  <<61>>,   \* 15 =
  <<60>>,   \* 16 <
  <<60,115,116,121,108,101,62>>,   \* 17 <style>
  <<60,47,115,116,121,108,101,62>>,   \* 18 </style>
  <<60,116,105,116,108,101,62>>,   \* 19 <title>
  <<60,47,116,105,116,108,101,62>>,   \* 20 </title>
  <<60,116,101,120,116,97,114,101,97,62>>,   \* 21 <textarea>
  <<60,47,116,101,120,116,97,114,101,97,62>>,   \* 22 </textarea>
  <<60,105,109,103,32,115,114,99,115,101,116,61>>,   \* 23 <img srcset=
  <<60,112,32,111,110,99,108,105,99,107,61,34>>,   \* 24 <p onclick="
  <<60,112,32,115,116,121,108,101,61,34>>,   \* 25 <p style="
  <<60,33,91,67,68,65,84,65,91>>,   \* 26 <![CDATA[
  <<93,93,62>>,   \* 27 ]]>
  <<96>>,   \* 28 `
  <<36,123>>,   \* 29 ${
  <<125>>,   \* 30 }
  <<47,47>>,   \* 31 //
  <<47,42>>,   \* 32 /*
  <<42,47>>,   \* 33 */
  <<40>>,   \* 34 (
  <<91>>,   \* 35 [
  <<93>>,   \* 36 ]
  <<117,114,108,40>>,   \* 37 url(
  <<41>>,   \* 38 )
  <<60,115,99,114,105,112,116,32,116,121,112,101,61,34,97,112,112,108,105,99,97,116,105,111,110,47,108,100,43,106,115,111,110,34,62>>,   \* 39 <script type="application/ld+json">
  <<60,115,99,114,105,112,116,32,116,121,112,101,61,34,116,101,120,116,47,112,108,97,105,110,34,62>>,   \* 40 <script type="text/plain">
  <<60,115,99,114,105,112,116,32,116,121,112,101,61,34,109,111,100,117,108,101,34,62>>,   \* 41 <script type="module">
  <<60,120,109,112,62>>,   \* 42 <xmp>
  <<60,47,120,109,112,62>>,   \* 43 </xmp>
  <<60,47,115,99,114,105,112,116,32>>,   \* 44 </script+space
  <<60,115,99,114,105,112,116,32,116,121,112,101,61,34,97,112,112,108,105,99,97,116,105,111,110,47,106,97,118,97,115,99,114,105,112,116,34,62>>,   \* 45 <script type="application/javascript">
  <<60,115,116,121,108,101,32,116,121,112,101,61,34,116,101,120,116,47,120,34,62>>,   \* 46 <style type="text/x">
  <<58>>,   \* 47 :
  <<44>>,   \* 48 ,
  <<63>>,   \* 49 ?
  <<38>>,   \* 50 &
  <<35>>,   \* 51 #
  <<45>>,   \* 52 -
  <<42>>,   \* 53 *
  <<33>>,   \* 54 !
  <<60,112,108,97,105,110,116,101,120,116,62>>,   \* 55 <plaintext>
  <<60,105,102,114,97,109,101,62>>,   \* 56 <iframe>
  <<60,47,105,102,114,97,109,101,62>>,   \* 57 </iframe>
  <<60,97,32,104,114,101,102,61>>,   \* 58 <a href=
  <<60,102,111,114,109,32,97,99,116,105,111,110,61,34>>,   \* 59 <form action="
  <<59>>,   \* 60 ;
  <<60,112,32,116,105,116,108,101,61>>,   \* 61 <p title=
  <<60,115,99,114,105,112,116,32,115,114,99,61,34>>,   \* 62 <script src="
  <<60,97,32,104,114,101,102,61,39>>,   \* 63 <a href='
  \* ---- fragments of Markdown files (MC_AEMd); MC_AEProduct never uses them
  <<35,32>>,   \* 64 `# `
  <<10,10>>,   \* 65 blank line
  <<32,32,32,32>>,   \* 66 four spaces
  <<9>>,   \* 67 tab
  <<62,32>>,   \* 68 `> `
  <<45,32>>,   \* 69 `- `
  <<96,96,96,10>>,   \* 70 a fence line ``` + newline
  <<93,40>>,   \* 71 ](
  <<104,116,116,112,58,47,47,101,47>>,   \* 72 http://e/
  <<95>>    \* 73 _
>>

\* ast.Context values (ast/ast.go) -> names used by the specifications
CtxName(n) == CASE n = 0 -> "Text" [] n = 1 -> "HTML" [] n = 2 -> "CSS" [] n = 3 -> "JS" [] n = 4 -> "JSON" [] n = 5 -> "Markdown"
                [] n = 6 -> "Tag" [] n = 7 -> "QuotedAttr" [] n = 8 -> "UnquotedAttr" [] n = 9 -> "CSSString" [] n = 10 -> "JSString"
                [] n = 11 -> "JSONString" [] n = 12 -> "TabCodeBlock" [] n = 13 -> "SpacesCodeBlock"
                [] n = -2 -> "inert" [] OTHER -> "none"

Esc(ctx, url) ==
  CASE url # 0 /\ ctx = "QuotedAttr" -> "urlq"
    [] url # 0 /\ ctx = "UnquotedAttr" -> "urlu"
    [] ctx = "HTML" \/ ctx = "QuotedAttr" -> "html"
    [] ctx = "Tag" -> "tag"
    [] ctx = "UnquotedAttr" -> "unq"
    [] ctx = "JS" \/ ctx = "JSON" -> "js"
    [] ctx = "JSString" \/ ctx = "JSONString" -> "jsstr"
    [] ctx = "CSS" -> "css"
    [] ctx = "CSSString" -> "cssstr"
    [] OTHER -> "none"
AllEsc == {"html", "tag", "unq", "urlq", "urlu", "jsstr", "js", "cssstr", "css"}

\* escaper classes that confine every untrusted value in a slot (see the module comment; each line is
\* justified by "which bytes end or split this slot" against "which bytes the escaper lets through")
Confiners(slot, kind) ==
  CASE kind \in {"event", "style"} -> {}                       \* the value is decoded and parsed again as JS / CSS
    [] slot = "text" -> AllEsc \ {"tag"}                        \* `<`
    [] slot \in {"rcdata", "rawtext", "script-data", "style-data", "plaintext"} -> AllEsc   \* `</name` needs `<` and `/`
    [] slot \in {"comment", "bogus-comment", "doctype"} -> AllEsc                          \* needs `>`
    [] slot = "end-tag" -> AllEsc \ {"js", "css"}               \* `>`; a raw quote after `=` swallows what follows
    [] slot \in {"tag-open", "tag-name", "attr-name"} -> {}     \* space, `/`: no escaper removes both
    [] slot \in {"attr-dq", "end-tag-dq"} -> {"html", "tag", "unq", "urlq", "urlu", "cssstr"}
    [] slot \in {"attr-sq", "end-tag-sq"} -> {"html", "tag", "unq", "urlq", "urlu", "cssstr", "jsstr", "js", "css"}
    [] slot = "attr-unq" -> {"unq", "urlu"}
    [] slot \in {"js-code", "json-value"} -> {"js"}
    [] slot \in {"js-string-dq", "js-string-sq", "json-string"} -> {"jsstr", "urlq", "urlu", "cssstr"}
    [] slot = "js-template" -> {"urlq", "urlu"}
    [] slot \in {"js-regex", "js-regex-class"} -> {}
    [] slot = "js-comment-line" -> {"js", "jsstr", "urlq", "urlu"}
    [] slot \in {"js-comment-block", "css-comment"} -> {"cssstr", "tag"}
    [] slot = "css-code" -> {"css", "js"}
    [] slot \in {"css-string-dq", "css-string-sq"} -> {"cssstr", "jsstr", "urlq", "urlu"}
    [] slot = "css-url" -> {"urlu"}
    [] slot = "css-badurl" -> {"cssstr", "urlq", "urlu"}
    [] OTHER -> {}
\* no value is shown at an inert hole; the reference makes no claim about an "undefined" slot
Compatible(ctx, url, slot, kind) == ctx = "inert" \/ slot = "undefined" \/ Esc(ctx, url) \in Confiners(slot, kind)

Agree(ctx, url, slot, kind) ==
  CASE ctx = "HTML" -> slot \in {"text", "tag-open", "end-tag", "script-data", "style-data"}   \* `<`, `</x ...`: text for the lexer, in step with the tokenizer
    [] ctx = "Tag" -> slot \in {"tag-name", "attr-name"}
    [] ctx \in {"QuotedAttr", "UnquotedAttr"} ->
         /\ slot \in (IF ctx = "QuotedAttr" THEN {"attr-dq", "attr-sq"} ELSE {"attr-unq"})
         /\ CASE url = 0 -> kind \in {"plain", "type"} [] url = 1 -> kind = "url" [] OTHER -> kind = "srcset"
    [] ctx = "JS" -> slot \in {"js-code", "js-comment-line", "js-comment-block"}
    [] ctx = "JSString" -> slot \in {"js-string-dq", "js-string-sq"}
    [] ctx = "JSON" -> slot = "json-value"
    [] ctx = "JSONString" -> slot = "json-string"
    [] ctx = "CSS" -> slot = "css-code"
    [] ctx = "CSSString" -> slot \in {"css-string-dq", "css-string-sq"}
    [] OTHER -> FALSE
=============================================================================

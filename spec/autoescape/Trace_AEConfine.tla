---------------------------- MODULE Trace_AEConfine ----------------------------
(* C06, confinement level: THE JUDGE.  One record per (document, hole, via):
     {id, fmt, frags, hole, via, pt: {ctx, url, slot, kind, root}, outs: [{v, c, t, b, oc, out}, ...]}
   (fmt = format of the template file: "HTML", "JS", "CSS", "JSON")
   outs[j].out is the document as REALLY rendered with dictionary value v (class c) shown at the hole,
   outs[outs[j].b].out the same document rendered with the benign value of the same Go type and shape
   ("x" for strings / Stringers / errors and for the leaves of slices, maps and structs; 1, -1, 1.5,
   false for numbers and booleans).

   Property-level predicate (properties.jsonl C06): "the rendered document has the same syntactic
   structure as when a benign value is shown".  The structure signature of an output is computed
   by the REFERENCE tokenizers (AEHTMLTok / AEJSLex / AECSSLex) alone: the sequence of tags (name
   class, attribute name classes), comments and doctypes, and inside script / style elements the
   sequence of JavaScript / JSON / CSS token kinds (word, string, template parts, regex, each
   punctuator) - never text - plus the class of the state the tokenizers are left in at the end
   of the output (what is still open).  Text nodes are not part of the signature (an empty value
   may remove one; that is not a change of structure).
       RecOk:  Signature(output with value) = Signature(output with the benign value)
   Reading choices (Appendix C.5): "a benign value" is read as a benign value of the same type and
   shape, because a slice of two strings legitimately renders more tokens than one string; names
   are compared by class (the element names that switch the tokenizer, the attribute names that
   change how a value is interpreted, "other"), and the dictionary contains no such name.
   Skipped and counted, never failed (Appendix C.2): a value the real code refuses to build or show
   in this context (oc # "ok"); outputs whose benign rendering is already outside the reference
   (JavaScript with a raw newline inside a string literal, template nesting beyond the bound).
   The trusted types (t = 1) are the negative control: they may change the structure; the number
   of times they do is reported as evidence that the signature is sensitive. *)
EXTENDS AEHTMLTok, TLC, Json, FiniteSets

Obs == ndJsonDeserialize("obs.ndjson")

Undefined(sg) == sg.fin[1] = "undefined" \/ \E k \in 1..Len(sg.toks) : sg.toks[k] = TBAD
\* All outputs of a record start with the rendering of the same template text: the tokenizer is a
\* fold, so it is run once over their longest common prefix and resumed from there for each output.
RECURSIVE Lcp2(_, _, _, _)
Lcp2(a, b, i, m) == IF i > m \/ i > Len(a) \/ i > Len(b) \/ a[i] # b[i] THEN i - 1 ELSE Lcp2(a, b, i + 1, m)
RECURSIVE LcpAll(_, _, _, _)
LcpAll(outs, a, j, m) == IF j > Len(outs) \/ m = 0 THEN m
                         ELSE IF outs[j].oc # "ok" THEN LcpAll(outs, a, j + 1, m)
                         ELSE LcpAll(outs, a, j + 1, Lcp2(a, outs[j].out, 1, m))

\* per record, in one pass over its benign entries (each signature is computed once):
\*   ch = indices j whose output has another structure than their benign partner's,
\*   un = number of benign entries whose own rendering is outside the reference
Base(r) == LET oks == SelectSeq(r.outs, LAMBDA o : o.oc = "ok") IN
           IF oks = <<>> THEN [p |-> 0, h |-> HInit(r.fmt)]
           ELSE LET a == oks[1].out p == LcpAll(r.outs, a, 1, Len(a)) IN [p |-> p, h |-> HRunRange(HInit(r.fmt), a, 1, p)]
BenignSeq(r) == SelectSeq([j \in 1..Len(r.outs) |-> j], LAMBDA j : r.outs[j].b = j /\ r.outs[j].oc = "ok")
RECURSIVE Judge(_, _, _, _, _)
Judge(r, base, bs, i, acc) ==
  IF i > Len(bs) THEN acc
  ELSE LET b == bs[i]
           sb == SignatureFrom(base.h, base.p, r.outs[b].out)
       IN IF Undefined(sb) THEN Judge(r, base, bs, i + 1, [acc EXCEPT !.un = @ + 1])
          ELSE Judge(r, base, bs, i + 1,
                     [acc EXCEPT !.ch = @ \cup {j \in 1..Len(r.outs) : r.outs[j].b = b /\ j # b /\ r.outs[j].oc = "ok"
                                                                        /\ SignatureFrom(base.h, base.p, r.outs[j].out) # sb},
                                 !.cmp = @ + Cardinality({j \in 1..Len(r.outs) : r.outs[j].b = b /\ j # b /\ r.outs[j].oc = "ok" /\ r.outs[j].t = 0})])
Judged(r) == Judge(r, Base(r), BenignSeq(r), 1, [ch |-> {}, un |-> 0, cmp |-> 0])
RecOk(r) == \A j \in Judged(r).ch : r.outs[j].t = 1

Sig(r, j) == [fam |-> "autoescape", fmt |-> r.fmt, via |-> r.via, ctx |-> r.pt.ctx, url |-> r.pt.url, slot |-> r.pt.slot, kind |-> r.pt.kind,
              root |-> r.pt.root, vclass |-> r.outs[j].c]

RECURSIVE SetSeq(_)
SetSeq(S) == IF S = {} THEN <<>> ELSE LET x == CHOOSE y \in S : \A z \in S : y <= z IN <<x>> \o SetSeq(S \ {x})
\* one output line per record: its bad (value, signature) pairs and its counters
LineOf(k) == LET r == Obs[k]
                 g == Judged(r)
                 bs == SetSeq({j \in g.ch : r.outs[j].t = 0})
             IN [k |-> k, id |-> r.id,
                 bad |-> [i \in 1..Len(bs) |-> [j |-> bs[i], v |-> r.outs[bs[i]].v, sig |-> Sig(r, bs[i])]],
                 compared |-> g.cmp,
                 notshown |-> Cardinality({j \in 1..Len(r.outs) : r.outs[j].oc # "ok"}),
                 refundef |-> g.un,
                 trustedchanged |-> Cardinality({j \in g.ch : r.outs[j].t = 1})]

VARIABLES l
Init == l = 1
Next == l <= Len(Obs) /\ l' = l + 1
Done == l = Len(Obs) + 1 => ndJsonSerialize("judged.ndjson", [k \in 1..Len(Obs) |-> LineOf(k)])
Consumed == TLCGet("stats").diameter - 1 = Len(Obs)
=============================================================================

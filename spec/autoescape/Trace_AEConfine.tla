---------------------------- MODULE Trace_AEConfine ----------------------------
(* C06, confinement level: THE JUDGE.  One record per (document, hole, via):
     {id, fmt, frags, hole, via, pt: {ctx, url, slot, kind, root}, outs: [{v, c, t, b, oc, out}, ...]}
   (fmt = format of the template file: "HTML", "JS", "CSS", "JSON", "MD"; records of documents with several
   shows also carry holes: the boundaries of the other shows, whose value is always benign, and pt.prior:
   what the renderer did before the judged show; records of the documents of MC_AEBlock carry pt.block: the
   block statements around the judged show)
   outs[j].out is the document as REALLY rendered with dictionary value v (class c) shown at the hole,
   outs[outs[j].b].out the same document rendered with the benign value of the same Go type and shape
   ("x" for strings / Stringers / errors and for the leaves of slices, maps and structs; 1, -1, 1.5,
   false for numbers and booleans).

   Property-level predicate (properties.jsonl C06): "the rendered document has the same syntactic
   structure as when a benign value is shown".  The structure signature of an output is computed
   by the REFERENCE tokenizers (AEHTMLTok / AEJSLex / AECSSLex) alone: the sequence of tags (name
   class, attribute name classes), comments and doctypes, and inside script / style elements the
   sequence of JavaScript / JSON / CSS token kinds (word, string, template parts, regex, each
   punctuator) - never text - plus the class of the state the tokenizers are left in at the end
   of the output (what is still open).  Text nodes are not part of the signature (an empty value
   may remove one; that is not a change of structure).
       RecOk:  Signature(output with value) = Signature(output with the benign value)
   Reading choices (Appendix C.5): "a benign value" is read as a benign value of the same type and
   shape, because a slice of two strings legitimately renders more tokens than one string; names
   are compared by class (the element names that switch the tokenizer, the attribute names that
   change how a value is interpreted, "other"), and the dictionary contains no such name.
   Markdown files (fmt = "MD").  The property names the oracle: "the oracle tokenises the output with
   standard HTML, JS, CSS, JSON and CommonMark parsers".  For a Markdown output the driver logs, next
   to the rendered bytes, outs[j].html: the conversion of the output by a CommonMark converter
   (goldmark without extensions, raw HTML kept), an observation like the output itself.  The
   structure of a Markdown document is read off its conversion: Signature is computed, by the same
   reference HTML tokenizer, on the conversion (emphasis, links, images, code spans, headings,
   lists, block quotes, code blocks, thematic breaks, raw HTML are elements there).  Reading choice,
   the same as C26's "with whitespace normalised as Markdown normalises it": how a TEXT is laid out
   in lines and paragraphs is not structure, so the tags <p>, </p> and <br> of the conversion are
   skipped (a value with a blank line makes two paragraphs of text; that is what a multi-line
   value means in Markdown).  Every other element a value adds, removes or moves is a change.
   Skipped and counted, never failed (Appendix C.2): a value the real code refuses to build or show
   in this context (oc # "ok"); outputs whose benign rendering is already outside the reference
   (JavaScript with a raw newline inside a string literal, template nesting beyond the bound).
   The trusted types (t = 1) are the negative control: they may change the structure; the number
   of times they do is reported as evidence that the signature is sensitive. *)
EXTENDS AEHTMLTok, TLC, Json, FiniteSets

Obs == ndJsonDeserialize("obs.ndjson")

Undefined(sg) == sg.fin[1] = "undefined" \/ \E k \in 1..Len(sg.toks) : sg.toks[k] = TBAD
\* All outputs of a record start with the rendering of the same template text: the tokenizer is a
\* fold, so it is run once over their longest common prefix and resumed from there for each output.
RECURSIVE Lcp2(_, _, _, _)
Lcp2(a, b, i, m) == IF i > m \/ i > Len(a) \/ i > Len(b) \/ a[i] # b[i] THEN i - 1 ELSE Lcp2(a, b, i + 1, m)
RECURSIVE LcpAll(_, _, _, _)
LcpAll(outs, a, j, m) == IF j > Len(outs) \/ m = 0 THEN m
                         ELSE IF outs[j].oc # "ok" THEN LcpAll(outs, a, j + 1, m)
                         ELSE LcpAll(outs, a, j + 1, Lcp2(a, outs[j].out, 1, m))

\* per record, in one pass over its benign entries (each signature is computed once):
\*   ch = indices j whose output has another structure than their benign partner's,
\*   un = number of benign entries whose own rendering is outside the reference
\* ---- Markdown: the bytes that are tokenised are the CommonMark conversion without its p and br tags
MdSkips == << <<60,112,62>>, <<60,47,112,62>>, <<60,98,114,62>>, <<60,98,114,32,47,62>>, <<60,98,114,47,62>> >>   \* <p> </p> <br> <br /> <br/>
MdSkipAt(s, i) == LET S == {k \in 1..Len(MdSkips) : i + Len(MdSkips[k]) - 1 <= Len(s) /\ \A m \in 1..Len(MdSkips[k]) : s[i + m - 1] = MdSkips[k][m]}
                  IN IF S = {} THEN 0 ELSE Len(MdSkips[CHOOSE k \in S : TRUE])
\* CommonMark "does not mandate any particular treatment of the info string" of a fenced code block: the
\* class="language-..." attribute a converter derives from it is not structure
MdLang == <<32,99,108,97,115,115,61,34,108,97,110,103,117,97,103,101,45>>      \* ` class="language-`
RECURSIVE MdQuoteEnd(_, _)
MdQuoteEnd(s, i) == IF i > Len(s) \/ s[i] = 34 THEN i ELSE MdQuoteEnd(s, i + 1)
MdLangAt(s, i) == i + Len(MdLang) - 1 <= Len(s) /\ \A m \in 1..Len(MdLang) : s[i + m - 1] = MdLang[m]
RECURSIVE MdRun(_, _, _)
MdRun(h, s, i) == IF i > Len(s) THEN h
                  ELSE IF h.st = "data" /\ s[i] = 60 /\ MdSkipAt(s, i) > 0 THEN MdRun(h, s, i + MdSkipAt(s, i))
                  ELSE IF h.st = "tagname" /\ s[i] = 32 /\ MdLangAt(s, i) THEN MdRun(h, s, MdQuoteEnd(s, i + Len(MdLang)) + 1)
                  ELSE MdRun(HDo(h, s[i]), s, i + 1)
MdSignature(s) == SigOfState(MdRun(H0, s, 1))

\* a Markdown macro shown in a file of another format is converted (BuildOptions.MarkdownConverter) where it is
\* shown: the same reading applies to the paragraphs the converter makes of its text
MdVia(r) == r.via \in {"macro:markdown", "import:md"}
Base(r) == LET oks == SelectSeq(r.outs, LAMBDA o : o.oc = "ok") IN
           IF oks = <<>> \/ r.fmt = "MD" \/ MdVia(r) THEN [p |-> 0, h |-> HInit(r.fmt)]
           ELSE LET a == oks[1].out p == LcpAll(r.outs, a, 1, Len(a)) IN [p |-> p, h |-> HRunRange(HInit(r.fmt), a, 1, p)]
\* the structure signature of one output of a record
SigOut(r, base, o) == IF r.fmt = "MD" THEN MdSignature(o.html)
                      ELSE IF MdVia(r) THEN SigOfState(MdRun(base.h, o.out, base.p + 1))
                      ELSE SignatureFrom(base.h, base.p, o.out)
BenignSeq(r) == SelectSeq([j \in 1..Len(r.outs) |-> j], LAMBDA j : r.outs[j].b = j /\ r.outs[j].oc = "ok")
\* (TLC evaluates LET definitions and operator arguments again at every use; a value bound by a set
\* constructor {e(x) : x \in {v}} is evaluated once: Bind1 picks the single element of such a set)
Bind1(S) == CHOOSE x \in S : TRUE
JudgeOne(r, base, b, sb, acc) ==
  IF Undefined(sb) THEN [acc EXCEPT !.un = @ + 1]
  ELSE [acc EXCEPT !.ch = @ \cup {j \in 1..Len(r.outs) : r.outs[j].b = b /\ j # b /\ r.outs[j].oc = "ok" /\ SigOut(r, base, r.outs[j]) # sb},
                   !.cmp = @ + Cardinality({j \in 1..Len(r.outs) : r.outs[j].b = b /\ j # b /\ r.outs[j].oc = "ok" /\ r.outs[j].t = 0})]
RECURSIVE Judge(_, _, _, _, _)
Judge(r, base, bs, i, acc) ==
  IF i > Len(bs) THEN acc
  ELSE Judge(r, base, bs, i + 1, Bind1({JudgeOne(r, base, bs[i], sb, acc) : sb \in {SigOut(r, base, r.outs[bs[i]])}}))
Judged(r) == Bind1({Judge(r, base, BenignSeq(r), 1, [ch |-> {}, un |-> 0, cmp |-> 0]) : base \in {Base(r)}})
RecOk(r) == \A j \in Judged(r).ch : r.outs[j].t = 1

\* Markdown files have no product exploration that names a root cause; the one desynchronisation that is named
\* is the real lexer being inside an HTML tag where the label of the position (MC_AEMd) is not, or the reverse
MdRoot(pt) == IF (pt.ctx \in {"Tag", "QuotedAttr", "UnquotedAttr"}) = (pt.kind \in {"tag-open", "tag-name", "attr-name", "attr-dq", "attr-sq", "attr-unq", "end-tag"})
              THEN "none" ELSE "md-tag"
Sig(r, j) == LET g == [fam |-> "autoescape", fmt |-> r.fmt, via |-> r.via, ctx |-> r.pt.ctx, url |-> r.pt.url, slot |-> r.pt.slot, kind |-> r.pt.kind,
                       root |-> IF r.fmt = "MD" THEN MdRoot(r.pt) ELSE r.pt.root, vclass |-> r.outs[j].c]
             \* documents of MC_AEBlock: the block statements around the judged show (the root cause is in their spelling and nesting)
             IN IF "prior" \in DOMAIN r.pt THEN g @@ [prior |-> r.pt.prior]
                ELSE IF "block" \in DOMAIN r.pt THEN g @@ [block |-> r.pt.block] ELSE g

RECURSIVE SetSeq(_)
SetSeq(S) == IF S = {} THEN <<>> ELSE LET x == CHOOSE y \in S : \A z \in S : y <= z IN <<x>> \o SetSeq(S \ {x})
\* one output line per record: its bad (value, signature) pairs and its counters
LineFrom(k, r, g, bs) == [k |-> k, id |-> r.id,
                          bad |-> [i \in 1..Len(bs) |-> [j |-> bs[i], v |-> r.outs[bs[i]].v, sig |-> Sig(r, bs[i])]],
                          compared |-> g.cmp,
                          notshown |-> Cardinality({j \in 1..Len(r.outs) : r.outs[j].oc # "ok"}),
                          refundef |-> g.un,
                          trustedchanged |-> Cardinality({j \in g.ch : r.outs[j].t = 1})]
LineOf(k) == Bind1({LineFrom(k, Obs[k], g, SetSeq({j \in g.ch : Obs[k].outs[j].t = 0})) : g \in {Judged(Obs[k])}})

VARIABLES l
Init == l = 1
Next == l <= Len(Obs) /\ l' = l + 1
Done == l = Len(Obs) + 1 => ndJsonSerialize("judged.ndjson", [k \in 1..Len(Obs) |-> LineOf(k)])
Consumed == TLCGet("stats").diameter - 1 = Len(Obs)
=============================================================================

------------------------------ MODULE MC_AEHist ------------------------------
(* C06, second case space: HISTORIES OF SHOWS ON ONE RENDERER.

   The product exploration (MC_AEProduct) yields, for every product state, the SHORTEST document
   reaching it, and the confinement level puts ONE show into it.  The renderer of a template run,
   however, carries state from one show to the next (properties.jsonl C06, anchors: "renderer URL
   state: inURL / query / addAmpersand / removeQuestionMark"), and that state is entered and left
   both by Show and by Text instructions.  "Any value ... shown anywhere in it" quantifies over
   templates with several shows; a show must be confined whatever was shown before it.

   This module enumerates documents with SEVERAL holes over a small grammar of attribute segments

       document ::= segment | segment middle segment
       segment  ::= open value close         open  : a fragment of AETables!Frags that ends in `=`, `="` or `='`
       value    ::= piece+                   piece : 0 (a hole) or a fragment (text: x ? & # ...); at least one hole, at most two
       close    ::= the quote the reference tokenizer is waiting for (if any) and `>`

   (every first segment of HOpen1 x values up to HLen1 pieces, every last segment of HOpen2 x values up to
   HLen2 pieces, every middle of HMiddle), so that every ordered pair of

       (URL / srcset / plain attribute, double / single / un-quoted, value entered by a show or by text,
        text, `?`, `&`, `#` before / after / between the shows)

   occurs as (what the renderer did before, what it does now).  One hole of a document is the PROBE:
   it receives the values of the dictionary; all other holes show a variable whose value is benign.
   HProbeAll = FALSE: the probes are the holes of the last segment; TRUE: every hole in turn.

   The reference tokenizer is used here to close the segments and to check that every document,
   with benign values, is well formed (ends in the data state; every hole is in an attribute value
   or in text).  Nothing is judged here: the cases are rendered by the real code and judged by
   Trace_AEConfine (Signature(output with value) = Signature(output with the benign value)). *)
EXTENDS AEHTMLTok, AETables, TLC, Json, FiniteSets, SequencesExt

CONSTANTS HOpen1, HLen1,     \* first segment: set of opening fragments, maximal number of pieces of its value
          HOpen2, HLen2,     \* last segment
          HPieces,           \* set of text fragments a value may contain besides holes
          HMiddle,           \* what may stand between two segments: subset of {0: nothing, 1: a show in HTML text, 2: the text x}
          HProbeAll

NHoles(v) == Cardinality({i \in DOMAIN v : v[i] = 0})
Values(n) == {v \in UNION {[1..k -> HPieces \cup {0}] : k \in 1..n} : NHoles(v) \in 1..2}
\* the state of the reference tokenizer decides how a segment is closed
Closer(f) == LET sl == Slot(HRun(H0, Frags[f])) IN
             CASE sl = "attr-dq" -> <<7, 11>> [] sl = "attr-sq" -> <<8, 11>> [] OTHER -> <<11>>
Seg(f, v) == (<<f>> \o v) \o Closer(f)
Mid(k) == CASE k = 0 -> <<>> [] k = 1 -> <<0>> [] OTHER -> <<13>>

\* a document with its segment structure: o1 = 0 for a document of one segment
Doc(f1, v1, m, f2, v2) == [doc |-> IF f1 = 0 THEN Seg(f2, v2) ELSE (Seg(f1, v1) \o m) \o Seg(f2, v2),
                           o1 |-> f1, e1 |-> IF f1 = 0 THEN "none" ELSE IF v1[1] = 0 THEN "show" ELSE "text",
                           o2 |-> f2, last |-> IF f1 = 0 THEN 1 ELSE Len(Seg(f1, v1)) + Len(m) + 1]   \* index of the last segment's open
Docs == {Doc(0, <<>>, <<>>, f2, v2) : f2 \in HOpen2, v2 \in Values(HLen2)}
        \cup {Doc(f1, v1, Mid(m), f2, v2) : f1 \in HOpen1, v1 \in Values(HLen1), m \in HMiddle, f2 \in HOpen2, v2 \in Values(HLen2)}

RECURSIVE BytesFrom(_, _)
BytesFrom(d, i) == IF i > Len(d) THEN <<>> ELSE (IF d[i] = 0 THEN <<120>> ELSE Frags[d[i]]) \o BytesFrom(d, i + 1)
HoleIdx(d) == {i \in DOMAIN d : d[i] = 0}
\* well formed with benign values: the tokenizer is back in the data state, and every hole is a value or text position
RECURSIVE PrefixSlots(_, _, _, _)
PrefixSlots(d, i, h, acc) == IF i > Len(d) THEN acc
                             ELSE IF d[i] = 0 THEN PrefixSlots(d, i + 1, HDo(h, 120), acc \cup {Slot(h)})
                             ELSE PrefixSlots(d, i + 1, HRun(h, Frags[d[i]]), acc)
WellFormed(d) == /\ HRun(H0, BytesFrom(d, 1)).st = "data"
                 /\ PrefixSlots(d, 1, H0, {}) \subseteq {"attr-dq", "attr-sq", "attr-unq", "text"}

\* one case per (document, probe)
CasesOf(x) == {[doc |-> x.doc, probe |-> p, o1 |-> x.o1, e1 |-> x.e1, o2 |-> x.o2,
                \* how the probe's value was entered: by this show (the hole is the first piece of its value) or by text
                e2 |-> IF p < x.last THEN "earlier" ELSE IF p = x.last + 1 THEN "show" ELSE IF x.doc[x.last + 1] = 0 THEN "show-show" ELSE "text"]
               : p \in {q \in HoleIdx(x.doc) : HProbeAll \/ q >= x.last}}

\* (a value bound by a quantifier over a singleton set is evaluated once; a LET definition at every use)
ASSUME \A D \in {Docs} :
         /\ \A x \in D : WellFormed(x.doc)
         /\ \A C \in {SetToSeq(UNION {CasesOf(x) : x \in D})} :
              /\ PrintT(<<"HIST", Cardinality(D), Len(C)>>)
              /\ ndJsonSerialize("hist_cases.ndjson", [i \in 1..Len(C) |-> [id |-> i] @@ C[i]])

VARIABLE z
Init == z = 0
Next == z < 0 /\ z' = z
=============================================================================

------------------------------- MODULE MC_AEMd -------------------------------
(* C06, Markdown template files: the document space and the class of every hole.

   Documents: EVERY sequence of at most MdLen fragments of MdUse (indices into AETables!Frags: text,
   line ending, blank line, ATX heading / block quote / list markers, four spaces and tab (indented
   code), a fence line, emphasis and code-span delimiters, link brackets, a URL, an HTML tag with a
   URL attribute).  The set is prefix closed, so a hole at the end of every document is a hole at
   every fragment boundary of every document.

   For every document the CLASS of the position at its end is computed (MdSlot): the block the
   position is in (paragraph, heading, block quote, list item, indented code, fenced code, a
   continuation line) and the inline construct it is in (inside an HTML tag: the slot of the
   reference HTML tokenizer run over the current line; on the current line: code span,
   link destination, link text, URL, emphasis, text).  Documents that end inside a tag are completed
   by `close` (the quote and `>` the tokenizer is waiting for), which follows the document in every
   case built from it.  The class is a LABEL: checks/c06.py picks holes for every (real context, label) pair and the label
   names the place in a signature.  It is never used for a verdict, so it may be coarse (it looks
   at the current and the previous line only).

   The verdict on a Markdown file is Trace_AEConfine's: the CommonMark conversion of the output
   with a value has the same element structure as the conversion of the output with the benign
   value. *)
EXTENDS AEHTMLTok, AETables, TLC, Json, FiniteSets, SequencesExt

CONSTANTS MdUse, MdLen

RECURSIVE MdBytes(_, _)
MdBytes(d, i) == IF i > Len(d) THEN <<>> ELSE Frags[d[i]] \o MdBytes(d, i + 1)

\* index of the last LF at or before i (0: none)
RECURSIVE LastLF(_, _)
LastLF(s, i) == IF i < 1 THEN 0 ELSE IF s[i] = 10 THEN i ELSE LastLF(s, i - 1)
Starts(s, a, b, w) == a + Len(w) - 1 <= b /\ \A k \in 1..Len(w) : s[a + k - 1] = w[k]
Count(s, a, b, c) == Cardinality({k \in a..b : s[k] = c})
BlankLine(s, a, b) == \A k \in a..b : s[k] \in {32, 9}
Indented(s, a, b) == Starts(s, a, b, <<9>>) \/ Starts(s, a, b, <<32,32,32,32>>)
Fence3 == <<96,96,96>>
\* number of complete lines before position cs that start with a fence
FenceLines(s, cs) == Cardinality({k \in 1..(cs - 1) : (k = 1 \/ s[k - 1] = 10) /\ Starts(s, k, cs - 1, Fence3)})
\* position after the last occurrence of w in s[a..b] (0: none)
LastOcc(s, a, b, w) == LET S == {k \in a..b : Starts(s, k, b, w)} IN IF S = {} THEN 0 ELSE (CHOOSE k \in S : \A j \in S : j <= k) + Len(w)

\* the reference HTML tokenizer is run over the current line (tags that span lines are not generated, see below)
MdTagState(s) == HRunRange(H0, s, LastLF(s, Len(s)) + 1, Len(s))
\* what completes the document when it ends inside a tag (CommonMark knows complete tags only)
MdClose(s) == LET st == MdTagState(s).st IN
              CASE st = "data" -> <<>> [] st = "vdq" -> <<34, 62>> [] st = "vsq" -> <<39, 62>> [] OTHER -> <<62>>

MdSlot(s) ==
  LET n == Len(s)
      cs == LastLF(s, n) + 1                       \* the current line is s[cs..n]
      pe == cs - 2                                  \* the previous line is s[ps..pe]
      ps == LastLF(s, pe) + 1
      noprev == cs = 1
      prevblank == noprev \/ BlankLine(s, ps, pe)
      base == CASE FenceLines(s, cs) % 2 = 1 -> "md-fence"
                [] Starts(s, cs, n, Fence3) -> "md-fence-line"
                [] Indented(s, cs, n) /\ (prevblank \/ Indented(s, ps, pe)) -> "md-code"
                [] Indented(s, cs, n) -> "md-lazy"
                [] Starts(s, cs, n, <<35, 32>>) -> "md-heading"
                [] Starts(s, cs, n, <<62, 32>>) -> "md-quote"
                [] Starts(s, cs, n, <<45, 32>>) -> "md-list"
                [] cs > n /\ prevblank -> "md-start"           \* at the start of a line after a blank line (or of the file)
                [] cs > n -> "md-cont"                         \* at the start of a line inside a paragraph
                [] OTHER -> "md-para"
      h == MdTagState(s)
      ld == LastOcc(s, cs, n, <<93, 40>>)
      ur == LastOcc(s, cs, n, <<104,116,116,112,58,47,47>>)
      inl == CASE h.st # "data" -> Slot(h)
               [] Count(s, cs, n, 96) % 2 = 1 -> "codespan"
               [] ld > 0 /\ Count(s, ld, n, 41) = 0 -> "linkdest"
               [] Count(s, cs, n, 91) > Count(s, cs, n, 93) -> "linktext"
               [] ur > 0 /\ Count(s, ur, n, 32) = 0 -> "url"
               [] (Count(s, cs, n, 42) + Count(s, cs, n, 95)) % 2 = 1 -> "emph"
               [] OTHER -> "text"
  IN [slot |-> base, kind |-> IF base \in {"md-fence", "md-code"} /\ h.st = "data" THEN "" ELSE inl]

MdRecord(i, d, s) == [id |-> i, doc |-> d, close |-> MdClose(s)] @@ MdSlot(s)
\* Not generated: documents in which an HTML tag is open across a line ending (a tag may span lines in
\* CommonMark, but then the block structure of the lines inside it decides whether it is a tag at all)
RECURSIVE TagOnOneLine(_, _, _)
TagOnOneLine(h, s, i) == IF i > Len(s) THEN TRUE
                         ELSE IF s[i] = 10 /\ h.st # "data" THEN FALSE
                         ELSE TagOnOneLine(HDo(h, s[i]), s, i + 1)
\* (a value bound by a quantifier over a singleton set is evaluated once; a LET definition at every use)
ASSUME \A D \in {SetToSeq({d \in UNION {[1..k -> MdUse] : k \in 0..MdLen} : TagOnOneLine(H0, MdBytes(d, 1), 1)})} :
         /\ PrintT(<<"MD", Len(D)>>)
         /\ ndJsonSerialize("md_docs.ndjson", [i \in 1..Len(D) |-> MdRecord(i, D[i], MdBytes(D[i], 1))])

VARIABLE z
Init == z = 0
Next == z < 0 /\ z' = z
=============================================================================

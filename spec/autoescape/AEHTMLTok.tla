------------------------------- MODULE AEHTMLTok -------------------------------
(* C06 REFERENCE, part 3: the WHATWG HTML tokenizer (https://html.spec.whatwg.org/#tokenization)
   with the tree builder's tokenizer switches on start tags, as a pure byte-at-a-time state machine.
   This is what a browser sees; it states the property side of C06 and knows nothing about
   scriggo's lexer.

   States (WHATWG name -> st): Data "data", TagOpen "tagopen", EndTagOpen "endtagopen", TagName
   "tagname", BeforeAttributeName "battr", AttributeName "attrname", AfterAttributeName "aattr",
   BeforeAttributeValue "bval", AttributeValue(double/single/unquoted) "vdq" "vsq" "vunq",
   AfterAttributeValueQuoted "avalq", SelfClosingStartTag "selfclose", BogusComment "bogus",
   MarkupDeclarationOpen "mdo" (`<![CDATA[` in HTML content is a bogus comment), CommentStart
   "cstart", CommentStartDash "cstartdash", Comment "comment", CommentEndDash "cenddash",
   CommentEnd "cend", CommentEndBang "cendbang" (the CommentLessThanSign* states only add parse
   errors: they are equivalent to Comment/CommentEndDash/CommentEnd and are folded into them),
   DOCTYPE* "doctype" (everything up to `>`), RCDATA / RAWTEXT / ScriptData "raw" with their
   LessThanSign / EndTagOpen / EndTagName states "rawlt" "rawendopen" "rawendname" (one family,
   parameterised by the element `elem` whose "appropriate end tag" closes it), the ScriptData
   escaped and double-escaped states "sces*" / "scdb*", PLAINTEXT "plaintext".
   Character references do not change token boundaries and are not decoded here (limit: DESIGN C06).
   The content of script elements is lexed by AEJSLex (JavaScript or JSON by the type attribute;
   any other type is a data block), the content of style elements by AECSSLex.

   The state is finite over any fragment alphabet: names are kept only while they can still
   become one of the names that matter (otherwise <<0>>), see NormName. *)
EXTENDS AECSSLex

\* ---- HTML token codes (continue AEJSLex's) -----------------------------------------------------
TSTART == 20    \* start tag: TSTART, tag class, then TATTR, attribute class for every attribute
TEND == 21      \* end tag: TEND, tag class (attributes of end tags are dropped by the tokenizer)
TCOMMENT == 22
TDOCTYPE == 23
TATTR == 24
TSELF == 25     \* self-closing flag
TAVB == 26      \* the (character-reference-decoded) value of an event-handler / style attribute, lexed as JS / CSS, begins
TAVE == 27      \* ... ends

NScript == <<115,99,114,105,112,116>>
NStyle == <<115,116,121,108,101>>
NTitle == <<116,105,116,108,101>>
NTextarea == <<116,101,120,116,97,114,101,97>>
NPlaintext == <<112,108,97,105,110,116,101,120,116>>
\* elements whose start tag switches the tokenizer (noscript needs the scripting flag: not modelled)
SpecialTags == << NScript, NStyle, NTitle, NTextarea,
                  <<120,109,112>>, <<105,102,114,97,109,101>>, <<110,111,101,109,98,101,100>>, <<110,111,102,114,97,109,101,115>>,   \* xmp iframe noembed noframes
                  NPlaintext >>
RawTags == {SpecialTags[k] : k \in 1..8}
AType == <<116,121,112,101>>
AStyle == <<115,116,121,108,101>>
ASrcset == <<115,114,99,115,101,116>>
URLAttrs == { <<104,114,101,102>>, <<115,114,99>>, <<97,99,116,105,111,110>>, <<99,105,116,101>>, <<100,97,116,97>>,
              <<102,111,114,109,97,99,116,105,111,110>>, <<108,111,110,103,100,101,115,99>>, <<109,97,110,105,102,101,115,116>>,
              <<112,111,115,116,101,114>>, <<120,109,108,110,115>> }   \* href src action cite data formaction longdesc manifest poster xmlns
\* elements that have URL-valued attributes (HTML attributes table); their names are kept for IsURLAttr
URLTags == { <<102,111,114,109>>, <<98,108,111,99,107,113,117,111,116,101>>, <<100,101,108>>, <<105,110,115>>, <<113>>,
             <<111,98,106,101,99,116>>, <<98,117,116,116,111,110>>, <<105,110,112,117,116>>, <<97>>, <<97,114,101,97>>, <<108,105,110,107>>,
             <<98,97,115,101>>, <<105,109,103>>, <<104,116,109,108>>, <<118,105,100,101,111>>, <<97,117,100,105,111>>, <<101,109,98,101,100>>,
             <<105,102,114,97,109,101>>, <<115,111,117,114,99,101>>, <<116,114,97,99,107>>, <<115,99,114,105,112,116>> }
\* the HTML attributes table: which (element, attribute) pairs hold a URL (1) or a list of URLs (2)
IsURLAttr(t, a) ==
  CASE a = <<97,99,116,105,111,110>> -> IF t = <<102,111,114,109>> THEN 1 ELSE 0                                         \* action: form
    [] a = <<99,105,116,101>> -> IF t \in {<<98,108,111,99,107,113,117,111,116,101>>, <<100,101,108>>, <<105,110,115>>, <<113>>} THEN 1 ELSE 0   \* cite: blockquote del ins q
    [] a = <<100,97,116,97>> -> IF t = <<111,98,106,101,99,116>> THEN 1 ELSE 0                                            \* data: object
    [] a = <<102,111,114,109,97,99,116,105,111,110>> -> IF t \in {<<98,117,116,116,111,110>>, <<105,110,112,117,116>>} THEN 1 ELSE 0   \* formaction: button input
    [] a = <<104,114,101,102>> -> IF t \in {<<97>>, <<97,114,101,97>>, <<108,105,110,107>>, <<98,97,115,101>>} THEN 1 ELSE 0      \* href: a area link base
    [] a = <<108,111,110,103,100,101,115,99>> -> IF t = <<105,109,103>> THEN 1 ELSE 0                                     \* longdesc: img
    [] a = <<109,97,110,105,102,101,115,116>> -> IF t = <<104,116,109,108>> THEN 1 ELSE 0                                 \* manifest: html
    [] a = <<112,111,115,116,101,114>> -> IF t = <<118,105,100,101,111>> THEN 1 ELSE 0                                    \* poster: video
    [] a = <<115,114,99>> -> IF t \in {<<97,117,100,105,111>>, <<101,109,98,101,100>>, <<105,102,114,97,109,101>>, <<105,109,103>>, <<105,110,112,117,116>>,
                                       <<115,99,114,105,112,116>>, <<115,111,117,114,99,101>>, <<116,114,97,99,107>>, <<118,105,100,101,111>>} THEN 1 ELSE 0
    [] a = <<115,114,99,115,101,116>> -> IF t \in {<<105,109,103>>, <<115,111,117,114,99,101>>} THEN 2 ELSE 0           \* srcset: img source
    [] a = <<120,109,108,110,115>> -> 1                                                                                  \* xmlns (XML namespace name)
    [] OTHER -> 0
AOnStar == <<111,110,42>>       \* "on*": any event handler content attribute
SpecialAttrs == URLAttrs \cup {AType, AStyle, ASrcset}
JSTypes == { <<116,101,120,116,47,106,97,118,97,115,99,114,105,112,116>>, <<97,112,112,108,105,99,97,116,105,111,110,47,106,97,118,97,115,99,114,105,112,116>>,
             <<116,101,120,116,47,101,99,109,97,115,99,114,105,112,116>>, <<97,112,112,108,105,99,97,116,105,111,110,47,101,99,109,97,115,99,114,105,112,116>>,
             <<109,111,100,117,108,101>> }   \* text/javascript application/javascript text/ecmascript application/ecmascript module
JSONTypes == { <<97,112,112,108,105,99,97,116,105,111,110,47,108,100,43,106,115,111,110>>, <<97,112,112,108,105,99,97,116,105,111,110,47,106,115,111,110>>,
               <<105,109,112,111,114,116,109,97,112>> }   \* application/ld+json application/json importmap
CSSTypes == { <<116,101,120,116,47,99,115,115>> }           \* text/css
MdoWords == { <<45,45>>, <<100,111,99,116,121,112,101>>, <<91,99,100,97,116,97,91>> }   \* -- doctype [cdata[

HSpace(c) == c \in {9, 10, 12, 13, 32}    \* CR is normalised to LF by the input stream preprocessor

\* keep a name only while it is a prefix of a name in S; <<0>> = "some other name"
NormName(b, S) == IF b = <<0>> THEN b ELSE IF \E n \in S : AEIsPrefix(b, n) THEN b ELSE <<0>>
TagNames == {SpecialTags[k] : k \in 1..Len(SpecialTags)} \cup URLTags
TagAdd(b, c) == NormName(IF b = <<0>> THEN b ELSE Append(b, AELower(c)), TagNames)
\* attribute names: on + anything -> "on*"
AttrAdd(b, c) == IF b = <<0>> \/ b = AOnStar THEN b
                 ELSE LET x == Append(b, AELower(c)) IN
                      IF Len(x) = 3 /\ x[1] = 111 /\ x[2] = 110 THEN AOnStar
                      ELSE IF x = <<111>> \/ x = <<111, 110>> THEN x
                      ELSE NormName(x, SpecialAttrs)
TypeAdd(b, c) == IF HSpace(c) THEN b ELSE NormName(IF b = <<0>> THEN b ELSE Append(b, AELower(c)), JSTypes \cup JSONTypes \cup CSSTypes)
TagClass(t) == IF \E k \in 1..Len(SpecialTags) : SpecialTags[k] = t THEN CHOOSE k \in 1..Len(SpecialTags) : SpecialTags[k] = t ELSE 0
AttrClass(a) == CASE a = AOnStar -> 99 [] a = AType -> 1 [] a = AStyle -> 2 [] a = ASrcset -> 3 [] a \in URLAttrs -> 4 [] OTHER -> 0
AttrKind(t, a) == CASE a = AOnStar -> "event" [] a = AType -> "type" [] a = AStyle -> "style"
                    [] IsURLAttr(t, a) = 2 -> "srcset" [] IsURLAttr(t, a) = 1 -> "url" [] OTHER -> "plain"
\* language of a script / style element from its (first) type attribute; "" = no type attribute
ScriptLang(ty) == CASE ty = "" \/ ty = "js" -> "js" [] ty = "json" -> "json" [] OTHER -> "data"
StyleLang(ty) == IF ty = "" \/ ty = "css" THEN "css" ELSE "data"
TypeClass(tv) == CASE tv = <<>> -> ""          \* type="" is the default type
                   [] tv \in JSTypes -> "js" [] tv \in JSONTypes -> "json" [] tv \in CSSTypes -> "css" [] OTHER -> "other"

\* ---- sub-language dispatch -----------------------------------------------------------------------
NoSub == [o |-> <<>>]
Sub0(lang) == CASE lang = "js" -> JS0 [] lang = "css" -> CSS0 [] lang = "json" -> JSON0 [] OTHER -> NoSub
SubStep(lang, s, c) == CASE lang = "js" -> JSStep(s, c) [] lang = "css" -> CSSStep(s, c) [] lang = "json" -> JSONStep(s, c) [] OTHER -> s
SubFlush(lang, s) == CASE lang = "js" -> JSFlush(s) [] lang = "css" -> CSSFlush(s) [] lang = "json" -> JSONFlush(s) [] OTHER -> <<>>
SubNorm(lang, s) == CASE lang = "js" -> JSNorm(s) [] lang = "css" -> CSSNorm(s) [] lang = "json" -> JSONNorm(s) [] OTHER -> NoSub

(* state: st; tag / end / attrs / an / kind / tv / ty describe the tag token being built (ty = class
   of its first type attribute, tv the type value being read); elem = element whose content model
   is active ("" = none), lang / sub = its sub-language and sub-lexer; tmp = small match buffer;
   ret = state to fall back to from an end-tag-name match; sig = tokens emitted so far;
   alang / asub = language and sub-lexer of the event-handler ("js") or style ("css") attribute value
   being read, ent = the character reference being read in it, avs = tokens of such values of this tag *)
H0 == [st |-> "data", tag |-> <<>>, end |-> FALSE, attrs |-> <<>>, an |-> <<>>, kind |-> "", tv |-> <<>>, ty |-> "",
       self |-> FALSE, elem |-> <<>>, lang |-> "", sub |-> NoSub, tmp |-> <<>>, ret |-> "", sig |-> <<>>,
       alang |-> "", asub |-> NoSub, ent |-> <<>>, avs |-> <<>>]

\* initial state for a file of the given format: a .js / .css / .json file is one stretch of JavaScript /
\* CSS / JSON (modelled as raw content of an element whose end tag never comes)
HInit(fmt) == CASE fmt = "JS" -> [H0 EXCEPT !.st = "raw", !.elem = <<1>>, !.lang = "js", !.sub = JS0]
                [] fmt = "CSS" -> [H0 EXCEPT !.st = "raw", !.elem = <<1>>, !.lang = "css", !.sub = CSS0]
                [] fmt = "JSON" -> [H0 EXCEPT !.st = "raw", !.elem = <<1>>, !.lang = "json", !.sub = JSON0]
                [] OTHER -> H0

Feed1(h, c) == IF h.lang \in {"", "data"} THEN h
               ELSE LET s2 == SubStep(h.lang, h.sub, c) IN
                    IF s2.o = <<>> THEN (IF s2 = h.sub THEN h ELSE [h EXCEPT !.sub = s2]) ELSE [h EXCEPT !.sub = s2, !.sig = @ \o s2.o]
RECURSIVE FeedFrom(_, _, _)
FeedFrom(h, cs, i) == IF i > Len(cs) THEN h ELSE FeedFrom(Feed1(h, cs[i]), cs, i + 1)
FeedSeq(h, cs) == IF h.lang \in {"", "data"} THEN h ELSE FeedFrom(h, cs, 1)
\* a held name buffer as the characters it stood for (an unknown name was letters: any letter will do)
Held(b) == IF b = <<0>> THEN <<120>> ELSE b

NewTag(h, isEnd) == [h EXCEPT !.st = "tagname", !.tag = <<>>, !.end = isEnd, !.attrs = <<>>, !.an = <<>>, !.kind = "",
                              !.tv = <<>>, !.ty = "", !.self = FALSE, !.alang = "", !.asub = NoSub, !.ent = <<>>, !.avs = <<>>]
FinishName(h) == [h EXCEPT !.attrs = IF Len(@) < 24 THEN Append(@, AttrClass(h.an)) ELSE @, !.kind = AttrKind(h.tag, h.an)]
(* Event-handler ("on..." names) and style attribute values are, after character-reference decoding, JavaScript
   and CSS: they are lexed by the sub-lexers and their tokens are part of the tag's signature.
   Decoded here: &#DDD; &#xHH; &amp; &lt; &gt; &quot; &apos; (terminated by `;`); anything else is literal. *)
AttrLang(h) == IF h.end THEN "" ELSE IF h.kind = "event" THEN "js" ELSE IF h.kind = "style" THEN "css" ELSE ""
StartValue(h, st) == LET al == AttrLang(h) IN
                     [h EXCEPT !.st = st, !.tv = <<>>, !.alang = al, !.asub = Sub0(al), !.ent = <<>>,
                               !.avs = IF al = "" THEN @ ELSE Append(@, TAVB)]
AF1(h, c) == LET s2 == SubStep(h.alang, h.asub, c) IN [h EXCEPT !.asub = s2, !.avs = @ \o s2.o]
RECURSIVE AFSeq(_, _, _)
AFSeq(h, cs, i) == IF i > Len(cs) THEN h ELSE AFSeq(AF1(h, cs[i]), cs, i + 1)
RECURSIVE EntNum(_, _, _, _)
EntNum(e, i, base, acc) ==
  IF i > Len(e) THEN acc
  ELSE LET c == AELower(e[i])
           d == IF AEIsDigit(c) THEN c - 48 ELSE IF base = 16 /\ c >= 97 /\ c <= 102 THEN c - 87 ELSE -1
       IN IF d < 0 \/ acc < 0 \/ acc > 100000 THEN -1 ELSE EntNum(e, i + 1, base, acc * base + d)
\* the character a complete reference e (`&...`, without the `;`) stands for; -1 = not a reference known here
EntChar(e) ==
  CASE Len(e) >= 4 /\ e[2] = 35 /\ AELower(e[3]) = 120 -> EntNum(e, 4, 16, 0)
    [] Len(e) >= 3 /\ e[2] = 35 /\ AELower(e[3]) # 120 -> EntNum(e, 3, 10, 0)
    [] e = <<38,97,109,112>> -> 38 [] e = <<38,108,116>> -> 60 [] e = <<38,103,116>> -> 62
    [] e = <<38,113,117,111,116>> -> 34 [] e = <<38,97,112,111,115>> -> 39
    [] OTHER -> -1
RECURSIVE AFeed(_, _)
AFeed(h, c) ==
  IF h.ent = <<>> THEN (IF c = 38 THEN [h EXCEPT !.ent = <<38>>] ELSE AF1(h, c))
  ELSE IF c = 59 THEN LET d == EntChar(h.ent) IN
                      IF d >= 0 /\ d < 128 THEN AF1([h EXCEPT !.ent = <<>>], d)
                      ELSE IF d >= 128 THEN AF1([h EXCEPT !.ent = <<>>], 128)      \* some non-ASCII character
                      ELSE AFSeq([h EXCEPT !.ent = <<>>], Append(h.ent, c), 1)
  ELSE IF Len(h.ent) < 9 /\ (AEIsAlpha(c) \/ AEIsDigit(c) \/ (c = 35 /\ Len(h.ent) = 1)) THEN [h EXCEPT !.ent = Append(@, c)]
  ELSE AFeed(AFSeq([h EXCEPT !.ent = <<>>], h.ent, 1), c)
AccValue(h, c) == LET g == IF h.kind = "type" /\ h.ty = "" /\ ~h.end /\ h.tag \in {NScript, NStyle}
                           THEN [h EXCEPT !.tv = TypeAdd(@, c)] ELSE h
                  IN IF g.alang = "" THEN g ELSE AFeed(g, c)
FinishValue(h) == LET g == IF h.kind = "type" /\ h.ty = "" /\ ~h.end /\ h.tag \in {NScript, NStyle}
                           THEN [h EXCEPT !.ty = IF TypeClass(h.tv) = "" THEN "dflt" ELSE TypeClass(h.tv), !.tv = <<>>] ELSE h
                  IN IF g.alang = "" THEN g
                     ELSE LET f == AFSeq([g EXCEPT !.ent = <<>>], g.ent, 1) IN
                          [f EXCEPT !.avs = (@ \o SubFlush(f.alang, f.asub)) \o <<TAVE>>, !.alang = "", !.asub = NoSub]
TyOf(h) == IF h.ty = "dflt" THEN "" ELSE h.ty

RECURSIVE AttrToks(_, _)
AttrToks(as, i) == IF i > Len(as) THEN <<>> ELSE <<TATTR, as[i]>> \o AttrToks(as, i + 1)
Cleared(h) == [h EXCEPT !.tag = <<>>, !.end = FALSE, !.attrs = <<>>, !.an = <<>>, !.kind = "", !.tv = <<>>, !.ty = "", !.self = FALSE,
                         !.alang = "", !.asub = NoSub, !.ent = <<>>, !.avs = <<>>]
\* `>` of a tag: emit the token and let the tree builder switch the tokenizer
EmitTag(h) ==
  IF h.end THEN [Cleared(h) EXCEPT !.st = "data", !.sig = h.sig \o <<TEND, TagClass(h.tag)>>]
  ELSE LET tok == <<TSTART, TagClass(h.tag)>> \o AttrToks(h.attrs, 1) \o h.avs \o (IF h.self THEN <<TSELF>> ELSE <<>>)
           g == [Cleared(h) EXCEPT !.sig = h.sig \o tok]
       IN CASE h.tag = NScript -> LET l == ScriptLang(TyOf(h)) IN [g EXCEPT !.st = "raw", !.elem = h.tag, !.lang = l, !.sub = Sub0(l)]
            [] h.tag = NStyle -> LET l == StyleLang(TyOf(h)) IN [g EXCEPT !.st = "raw", !.elem = h.tag, !.lang = l, !.sub = Sub0(l)]
            [] h.tag \in RawTags -> [g EXCEPT !.st = "raw", !.elem = h.tag, !.lang = "", !.sub = NoSub]
            [] h.tag = NPlaintext -> [g EXCEPT !.st = "plaintext"]
            [] OTHER -> [g EXCEPT !.st = "data"]
EmitSimple(h, t) == [h EXCEPT !.st = "data", !.sig = Append(@, t), !.tmp = <<>>]
\* an appropriate end tag was recognised inside raw content: the element's content ends here
EndRaw(h) == [NewTag(h, TRUE) EXCEPT !.tag = h.elem, !.sig = h.sig \o SubFlush(h.lang, h.sub), !.elem = <<>>, !.lang = "",
                                     !.sub = NoSub, !.tmp = <<>>, !.ret = ""]

RECURSIVE HDo(_, _)
HDo(h, c) ==
  CASE h.st = "data" -> IF c = 60 THEN [h EXCEPT !.st = "tagopen"] ELSE h
    [] h.st = "tagopen" ->
         CASE c = 33 -> [h EXCEPT !.st = "mdo", !.tmp = <<>>]
           [] c = 47 -> [h EXCEPT !.st = "endtagopen"]
           [] AEIsAlpha(c) -> HDo(NewTag(h, FALSE), c)
           [] c = 63 -> [h EXCEPT !.st = "bogus"]
           [] OTHER -> HDo([h EXCEPT !.st = "data"], c)
    [] h.st = "endtagopen" ->
         CASE AEIsAlpha(c) -> HDo(NewTag(h, TRUE), c)
           [] c = 62 -> [h EXCEPT !.st = "data"]
           [] OTHER -> HDo([h EXCEPT !.st = "bogus"], c)
    [] h.st = "tagname" ->
         CASE HSpace(c) -> [h EXCEPT !.st = "battr"]
           [] c = 47 -> [h EXCEPT !.st = "selfclose"]
           [] c = 62 -> EmitTag(h)
           [] OTHER -> [h EXCEPT !.tag = TagAdd(@, c)]
    [] h.st = "battr" ->
         CASE HSpace(c) -> h
           [] c = 47 \/ c = 62 -> HDo([h EXCEPT !.st = "aattr"], c)
           [] c = 61 -> [h EXCEPT !.st = "attrname", !.an = <<0>>]
           [] OTHER -> HDo([h EXCEPT !.st = "attrname", !.an = <<>>], c)
    [] h.st = "attrname" ->
         CASE HSpace(c) \/ c = 47 \/ c = 62 -> HDo([FinishName(h) EXCEPT !.st = "aattr"], c)
           [] c = 61 -> [FinishName(h) EXCEPT !.st = "bval"]
           [] OTHER -> [h EXCEPT !.an = AttrAdd(@, c)]
    [] h.st = "aattr" ->
         CASE HSpace(c) -> h
           [] c = 47 -> [h EXCEPT !.st = "selfclose"]
           [] c = 61 -> [h EXCEPT !.st = "bval"]
           [] c = 62 -> EmitTag(h)
           [] OTHER -> HDo([h EXCEPT !.st = "attrname", !.an = <<>>], c)
    [] h.st = "bval" ->
         CASE HSpace(c) -> h
           [] c = 34 -> StartValue(h, "vdq")
           [] c = 39 -> StartValue(h, "vsq")
           [] c = 62 -> EmitTag(h)
           [] OTHER -> HDo(StartValue(h, "vunq"), c)
    [] h.st = "vdq" -> IF c = 34 THEN [FinishValue(h) EXCEPT !.st = "avalq"] ELSE AccValue(h, c)
    [] h.st = "vsq" -> IF c = 39 THEN [FinishValue(h) EXCEPT !.st = "avalq"] ELSE AccValue(h, c)
    [] h.st = "vunq" ->
         CASE HSpace(c) -> [FinishValue(h) EXCEPT !.st = "battr"]
           [] c = 62 -> EmitTag(FinishValue(h))
           [] OTHER -> AccValue(h, c)
    [] h.st = "avalq" ->
         CASE HSpace(c) -> [h EXCEPT !.st = "battr"]
           [] c = 47 -> [h EXCEPT !.st = "selfclose"]
           [] c = 62 -> EmitTag(h)
           [] OTHER -> HDo([h EXCEPT !.st = "battr"], c)
    [] h.st = "selfclose" ->
         IF c = 62 THEN EmitTag([h EXCEPT !.self = TRUE]) ELSE HDo([h EXCEPT !.st = "battr"], c)
    [] h.st = "bogus" -> IF c = 62 THEN EmitSimple(h, TCOMMENT) ELSE h
    [] h.st = "mdo" ->
         LET b == Append(h.tmp, AELower(c)) IN
         CASE b = <<45,45>> -> [h EXCEPT !.st = "cstart", !.tmp = <<>>]
           [] b = <<100,111,99,116,121,112,101>> -> [h EXCEPT !.st = "doctype", !.tmp = <<>>]
           [] b = <<91,99,100,97,116,97,91>> -> [h EXCEPT !.st = "bogus", !.tmp = <<>>]     \* <![CDATA[ in HTML content: bogus comment
           [] \E w \in MdoWords : AEIsPrefix(b, w) -> [h EXCEPT !.tmp = b]
           [] OTHER -> HDo([h EXCEPT !.st = "bogus", !.tmp = <<>>], c)
    [] h.st = "cstart" ->
         CASE c = 45 -> [h EXCEPT !.st = "cstartdash"]
           [] c = 62 -> EmitSimple(h, TCOMMENT)
           [] OTHER -> HDo([h EXCEPT !.st = "comment"], c)
    [] h.st = "cstartdash" ->
         CASE c = 45 -> [h EXCEPT !.st = "cend"]
           [] c = 62 -> EmitSimple(h, TCOMMENT)
           [] OTHER -> HDo([h EXCEPT !.st = "comment"], c)
    [] h.st = "comment" -> IF c = 45 THEN [h EXCEPT !.st = "cenddash"] ELSE h
    [] h.st = "cenddash" -> IF c = 45 THEN [h EXCEPT !.st = "cend"] ELSE HDo([h EXCEPT !.st = "comment"], c)
    [] h.st = "cend" ->
         CASE c = 62 -> EmitSimple(h, TCOMMENT)
           [] c = 33 -> [h EXCEPT !.st = "cendbang"]
           [] c = 45 -> h
           [] OTHER -> HDo([h EXCEPT !.st = "comment"], c)
    [] h.st = "cendbang" ->
         CASE c = 45 -> [h EXCEPT !.st = "cenddash"]
           [] c = 62 -> EmitSimple(h, TCOMMENT)
           [] OTHER -> HDo([h EXCEPT !.st = "comment"], c)
    [] h.st = "doctype" -> IF c = 62 THEN EmitSimple(h, TDOCTYPE) ELSE h
    [] h.st = "plaintext" -> h
    \* ---- RCDATA / RAWTEXT / script data -------------------------------------------------------
    [] h.st = "raw" -> IF c = 60 THEN [h EXCEPT !.st = "rawlt"] ELSE Feed1(h, c)
    [] h.st = "rawlt" ->
         CASE c = 47 -> [h EXCEPT !.st = "rawendopen", !.ret = "raw"]
           [] c = 33 /\ h.elem = NScript -> FeedSeq([h EXCEPT !.st = "scesstart"], <<60, 33>>)
           [] OTHER -> HDo(Feed1([h EXCEPT !.st = "raw"], 60), c)
    [] h.st = "rawendopen" ->
         IF AEIsAlpha(c) THEN HDo([h EXCEPT !.st = "rawendname", !.tmp = <<>>], c)
         ELSE HDo(FeedSeq([h EXCEPT !.st = h.ret], <<60, 47>>), c)
    [] h.st = "rawendname" ->
         CASE AEIsAlpha(c) ->
                LET b == NormName(Append(h.tmp, AELower(c)), {h.elem}) IN
                IF b = <<0>> THEN FeedSeq([h EXCEPT !.st = h.ret, !.tmp = <<>>], <<60, 47>> \o Held(h.tmp) \o <<c>>)
                ELSE [h EXCEPT !.tmp = b]
           [] h.tmp = h.elem /\ HSpace(c) -> [EndRaw(h) EXCEPT !.st = "battr"]
           [] h.tmp = h.elem /\ c = 47 -> [EndRaw(h) EXCEPT !.st = "selfclose"]
           [] h.tmp = h.elem /\ c = 62 -> EmitTag(EndRaw(h))
           [] OTHER -> HDo(FeedSeq([h EXCEPT !.st = h.ret, !.tmp = <<>>], <<60, 47>> \o h.tmp), c)
    \* script data escape start: after "<!"
    [] h.st = "scesstart" -> IF c = 45 THEN Feed1([h EXCEPT !.st = "scesstartdash"], c) ELSE HDo([h EXCEPT !.st = "raw"], c)
    [] h.st = "scesstartdash" -> IF c = 45 THEN Feed1([h EXCEPT !.st = "scesdashdash"], c) ELSE HDo([h EXCEPT !.st = "raw"], c)
    [] h.st = "sces" ->
         CASE c = 45 -> Feed1([h EXCEPT !.st = "scesdash"], c)
           [] c = 60 -> [h EXCEPT !.st = "sceslt"]
           [] OTHER -> Feed1(h, c)
    [] h.st = "scesdash" ->
         CASE c = 45 -> Feed1([h EXCEPT !.st = "scesdashdash"], c)
           [] c = 60 -> [h EXCEPT !.st = "sceslt"]
           [] OTHER -> Feed1([h EXCEPT !.st = "sces"], c)
    [] h.st = "scesdashdash" ->
         CASE c = 45 -> Feed1(h, c)
           [] c = 60 -> [h EXCEPT !.st = "sceslt"]
           [] c = 62 -> Feed1([h EXCEPT !.st = "raw"], c)
           [] OTHER -> Feed1([h EXCEPT !.st = "sces"], c)
    [] h.st = "sceslt" ->
         CASE c = 47 -> [h EXCEPT !.st = "rawendopen", !.ret = "sces"]
           [] AEIsAlpha(c) -> HDo(Feed1([h EXCEPT !.st = "scdbstart", !.tmp = <<>>], 60), c)
           [] OTHER -> HDo(Feed1([h EXCEPT !.st = "sces"], 60), c)
    [] h.st = "scdbstart" ->
         CASE HSpace(c) \/ c = 47 \/ c = 62 -> Feed1([h EXCEPT !.st = IF h.tmp = NScript THEN "scdb" ELSE "sces", !.tmp = <<>>], c)
           [] AEIsAlpha(c) -> Feed1([h EXCEPT !.tmp = NormName(IF @ = <<0>> THEN @ ELSE Append(@, AELower(c)), {NScript})], c)
           [] OTHER -> HDo([h EXCEPT !.st = "sces", !.tmp = <<>>], c)
    [] h.st = "scdb" ->
         CASE c = 45 -> Feed1([h EXCEPT !.st = "scdbdash"], c)
           [] c = 60 -> Feed1([h EXCEPT !.st = "scdblt"], c)
           [] OTHER -> Feed1(h, c)
    [] h.st = "scdbdash" ->
         CASE c = 45 -> Feed1([h EXCEPT !.st = "scdbdashdash"], c)
           [] c = 60 -> Feed1([h EXCEPT !.st = "scdblt"], c)
           [] OTHER -> Feed1([h EXCEPT !.st = "scdb"], c)
    [] h.st = "scdbdashdash" ->
         CASE c = 45 -> Feed1(h, c)
           [] c = 60 -> Feed1([h EXCEPT !.st = "scdblt"], c)
           [] c = 62 -> Feed1([h EXCEPT !.st = "raw"], c)
           [] OTHER -> Feed1([h EXCEPT !.st = "scdb"], c)
    [] h.st = "scdblt" ->
         IF c = 47 THEN Feed1([h EXCEPT !.st = "scdbend", !.tmp = <<>>], c) ELSE HDo([h EXCEPT !.st = "scdb"], c)
    [] h.st = "scdbend" ->
         CASE HSpace(c) \/ c = 47 \/ c = 62 -> Feed1([h EXCEPT !.st = IF h.tmp = NScript THEN "sces" ELSE "scdb", !.tmp = <<>>], c)
           [] AEIsAlpha(c) -> Feed1([h EXCEPT !.tmp = NormName(IF @ = <<0>> THEN @ ELSE Append(@, AELower(c)), {NScript})], c)
           [] OTHER -> HDo([h EXCEPT !.st = "scdb", !.tmp = <<>>], c)
    [] OTHER -> h

HStep(h, c) == HDo(h, c)
RECURSIVE HRunFrom(_, _, _)
HRunFrom(h, s, i) == IF i > Len(s) THEN h ELSE HRunFrom(HDo(h, s[i]), s, i + 1)
HRun(h, s) == HRunFrom(h, s, 1)

\* the characters a raw-content state is holding back while it matches an end tag
HeldChars(h) == CASE h.st \in {"rawlt", "sceslt"} -> <<60>>
                  [] h.st = "rawendopen" -> <<60, 47>>
                  [] h.st = "rawendname" -> <<60, 47>> \o Held(h.tmp)
                  [] OTHER -> <<>>

\* ---- the SLOT of a position: where would a value written here end up? ---------------------------
RawStates == {"raw", "rawlt", "rawendopen", "rawendname", "scesstart", "scesstartdash", "sces", "scesdash", "scesdashdash",
              "sceslt", "scdbstart", "scdb", "scdbdash", "scdbdashdash", "scdblt", "scdbend"}
Slot(h) ==
  CASE h.st = "data" -> "text"
    [] h.st \in {"tagopen", "endtagopen"} -> "tag-open"
    [] h.st = "vdq" /\ h.end -> "end-tag-dq"
    [] h.st = "vsq" /\ h.end -> "end-tag-sq"
    [] h.st \in {"tagname", "battr", "attrname", "aattr", "bval", "vunq", "avalq", "selfclose"} /\ h.end -> "end-tag"
    [] h.st = "tagname" -> "tag-name"
    [] h.st \in {"battr", "attrname", "aattr", "avalq", "selfclose"} -> "attr-name"
    [] h.st \in {"bval", "vunq"} -> "attr-unq"
    [] h.st = "vdq" -> "attr-dq"
    [] h.st = "vsq" -> "attr-sq"
    [] h.st \in {"bogus", "mdo"} -> "bogus-comment"
    [] h.st \in {"cstart", "cstartdash", "comment", "cenddash", "cend", "cendbang"} -> "comment"
    [] h.st = "doctype" -> "doctype"
    [] h.st = "plaintext" -> "plaintext"
    [] h.st \in RawStates ->      \* a value written here comes after the held `<`, `</`, `</nam`: they are content then
         CASE h.lang = "js" -> JSSlot(FeedSeq(h, HeldChars(h)).sub)
           [] h.lang = "css" -> CSSSlot(FeedSeq(h, HeldChars(h)).sub)
           [] h.lang = "json" -> JSONSlot(FeedSeq(h, HeldChars(h)).sub)
           [] h.elem \in {NTitle, NTextarea} -> "rcdata"
           [] h.elem = NScript -> "script-data"
           [] h.elem = NStyle -> "style-data"
           [] OTHER -> "rawtext"
    [] OTHER -> "undefined"
\* kind of the attribute whose value is being written: plain / url / srcset / event / style / type
SlotKind(h) == IF h.st \in {"bval", "vdq", "vsq", "vunq"} /\ ~h.end THEN h.kind ELSE ""

\* class of the final state, part of a structure signature (what is still open at the end)
HClass(h) == <<Slot(h), SlotKind(h), IF h.lang = "js" THEN Len(h.sub.ts) ELSE 0,
               IF h.st \in {"tagname", "battr", "attrname", "aattr", "bval", "vdq", "vsq", "vunq", "avalq", "selfclose"} /\ ~h.end
               THEN <<TagClass(h.tag)>> \o h.attrs \o h.avs ELSE <<>>,
               IF h.alang = "js" THEN <<JSSlot(h.asub), Len(h.asub.ts)>> ELSE IF h.alang = "css" THEN <<CSSSlot(h.asub)>> ELSE <<>> >>
\* tokens still pending at the end of input (a word being read in a script, ...)
HPending(h) == IF h.st \in RawStates THEN SubFlush(h.lang, h.sub) ELSE <<>>

\* finite-state normal form for the product exploration: no signature, no attribute list
HNorm(h) == [h EXCEPT !.sig = <<>>, !.attrs = <<>>, !.avs = <<>>, !.sub = SubNorm(h.lang, h.sub), !.asub = SubNorm(h.alang, h.asub)]

\* structure signature of a whole document
SigOfState(h) == [toks |-> h.sig \o HPending(h), fin |-> HClass(h)]
Signature(s) == SigOfState(HRun(H0, s))
SignatureF(fmt, s) == SigOfState(HRun(HInit(fmt), s))
\* the same, resuming from the state h reached after the first p bytes of s
RECURSIVE HRunRange(_, _, _, _)
HRunRange(h, s, i, j) == IF i > j THEN h ELSE HRunRange(HDo(h, s[i]), s, i + 1, j)
SignatureFrom(h, p, s) == SigOfState(HRunRange(h, s, p + 1, Len(s)))
=============================================================================

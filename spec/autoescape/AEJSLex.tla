------------------------------- MODULE AEJSLex -------------------------------
(* C06 REFERENCE, part 1: lexical states of JavaScript (ECMAScript InputElement level) and of JSON,
   written as pure byte-at-a-time state machines (no lookahead, bounded memory), so that the same
   step function is (a) folded over FRAGMENTS by the product exploration (MC_AEProduct), (b) folded
   over the bytes of a document to find the SLOT of a hole (Trace_AEContext) and (c) folded over
   RENDERED OUTPUT to compute its structure signature (Trace_AEConfine).

   What is modelled: code, '...' / "..." strings with escapes and line continuations (a raw line
   terminator inside a string literal is an error token), template literals with ${ } nesting,
   regular-expression literals with the usual "a regex may start here iff the previous token is
   not a value" rule and [...] classes, // and /* */ comments, and the HTML-like comments <!-- and
   (at the start of a line) -->.  Not modelled (DESIGN C06 limits): numeric separators, Unicode
   escapes in identifiers, automatic semicolon insertion, the `)`/`}` regex ambiguity (resolved
   the usual way: division after `)`, `]`, `}`).

   Tokens are integers; a structure signature is a sequence of them. *)
EXTENDS Integers, Sequences

\* ---- token codes -------------------------------------------------------------------------------
TW   == 1     \* word: identifier / keyword / number
TS   == 2     \* complete string literal
TTB  == 3     \* template literal begins `
TTE  == 4     \* template literal ends `
TTO  == 5     \* ${ opens a substitution
TTC  == 6     \* } closes a substitution
TR   == 7     \* regular expression literal
TBAD == 8     \* raw line terminator inside a string / regex literal (syntax error)
TBS  == 9     \* CSS bad-string
TU   == 10    \* CSS unquoted url( ) token
TBU  == 11    \* CSS bad-url
P(c) == 1000 + c   \* punctuator byte c

AEIsAlpha(c) == (c >= 97 /\ c <= 122) \/ (c >= 65 /\ c <= 90)
AEIsDigit(c) == c >= 48 /\ c <= 57
AELower(c) == IF c >= 65 /\ c <= 90 THEN c + 32 ELSE c
AEIsPrefix(p, s) == Len(p) <= Len(s) /\ \A k \in 1..Len(p) : p[k] = s[k]
AEPopped(s) == SubSeq(s, 1, Len(s) - 1)

\* keywords after which a `/` starts a regular expression
ReKw == { <<114,101,116,117,114,110>>,            \* return
          <<116,121,112,101,111,102>>,            \* typeof
          <<105,110,115,116,97,110,99,101,111,102>>, \* instanceof
          <<105,110>>, <<111,102>>,               \* in of
          <<110,101,119>>,                        \* new
          <<100,101,108,101,116,101>>,            \* delete
          <<118,111,105,100>>,                    \* void
          <<116,104,114,111,119>>,                \* throw
          <<99,97,115,101>>,                      \* case
          <<100,111>>,                            \* do
          <<101,108,115,101>>,                    \* else
          <<121,105,101,108,100>>,                \* yield
          <<97,119,97,105,116>> }                 \* await
\* the word being read, kept only while it can still become one of ReKw; <<0>> = some other word
KwAdd(kw, c) == IF kw = <<0>> THEN kw
                ELSE LET b == Append(kw, c) IN IF \E k \in ReKw : AEIsPrefix(b, k) THEN b ELSE <<0>>

JSWordChar(c) == AEIsAlpha(c) \/ AEIsDigit(c) \/ c \in {95, 36, 46, 92, 35, 64} \/ c >= 128   \* _ $ . \ # @
JSNewline(c) == c \in {10, 13}
JSBlank(c) == c \in {32, 9, 11, 12}
JSMaxNest == 3    \* template-literal substitutions nested deeper than this: state "ovf" (reference undefined)

(* state: m mode, q quote of the string being read, re "a regex may start here", kw word buffer
   (<<>> = no word in progress), ts stack of open-brace counts (one entry per open ${ ),
   ls "only blanks and comments since the last line terminator" (for -->), u UTF-8 progress
   towards U+2028/2029 in a line comment, o tokens emitted by the last step. *)
JS0 == [m |-> "code", q |-> 0, re |-> TRUE, kw |-> <<>>, ts |-> <<>>, ls |-> TRUE, u |-> 0, o |-> <<>>]

JSEndWord(j) == IF j.kw = <<>> THEN j
                ELSE [j EXCEPT !.kw = <<>>, !.re = (j.kw \in ReKw), !.o = Append(@, TW), !.ls = FALSE]
JSPunct(j, ps, re) == [j EXCEPT !.m = "code", !.o = @ \o ps, !.re = re, !.ls = FALSE]
\* a raw line terminator inside a string / regex literal: not JavaScript any more.  The reference is
\* undefined from here on ("err" is absorbing, its slot is "undefined"); TBAD stays in the signature.
JSBadNL(j) == [j EXCEPT !.m = "err", !.o = Append(@, TBAD), !.re = TRUE, !.ls = TRUE, !.kw = <<>>, !.ts = <<>>, !.q = 0]

\* add d to the open-brace count of the innermost substitution (saturating at 0 and 3: finite state)
JSTopAdd(ts, d) == IF ts = <<>> THEN ts
                   ELSE LET n == Len(ts) v == ts[n] + d IN
                        [ts EXCEPT ![n] = IF v < 0 THEN 0 ELSE IF v > 3 THEN 3 ELSE v]

RECURSIVE JSDo(_, _)
JSDo(j, c) ==
  CASE j.m = "code" ->
         IF JSWordChar(c) THEN [j EXCEPT !.kw = KwAdd(@, c), !.ls = FALSE]
         ELSE LET e == JSEndWord(j) IN
           CASE JSBlank(c) -> e
             [] JSNewline(c) -> [e EXCEPT !.ls = TRUE]
             [] c = 34 \/ c = 39 -> [e EXCEPT !.m = "str", !.q = c, !.ls = FALSE]
             [] c = 96 -> IF Len(e.ts) > JSMaxNest THEN [e EXCEPT !.m = "ovf"]
                          ELSE [e EXCEPT !.m = "tm", !.o = Append(@, TTB), !.ls = FALSE]
             [] c = 47 -> [e EXCEPT !.m = "sl"]
             [] c = 60 -> [e EXCEPT !.m = "lt1"]
             [] c = 45 -> [e EXCEPT !.m = "d1"]
             [] c = 123 -> [e EXCEPT !.ts = JSTopAdd(e.ts, 1), !.o = Append(@, P(c)), !.re = TRUE, !.ls = FALSE]
             [] c = 125 -> IF e.ts # <<>> /\ e.ts[Len(e.ts)] = 0
                           THEN [e EXCEPT !.ts = AEPopped(@), !.m = "tm", !.o = Append(@, TTC), !.ls = FALSE]
                           ELSE [e EXCEPT !.ts = JSTopAdd(e.ts, -1), !.o = Append(@, P(c)), !.re = FALSE, !.ls = FALSE]
             [] OTHER -> [e EXCEPT !.o = Append(@, P(c)), !.re = (c \notin {41, 93}), !.ls = FALSE]
    [] j.m = "str" -> CASE c = 92 -> [j EXCEPT !.m = "stre"]
                        [] c = j.q -> [j EXCEPT !.m = "code", !.o = Append(@, TS), !.re = FALSE, !.ls = FALSE]
                        [] JSNewline(c) -> JSBadNL(j)
                        [] OTHER -> j
    [] j.m = "stre" -> IF c = 13 THEN [j EXCEPT !.m = "strr"] ELSE [j EXCEPT !.m = "str"]
    [] j.m = "strr" -> IF c = 10 THEN [j EXCEPT !.m = "str"] ELSE JSDo([j EXCEPT !.m = "str"], c)
    [] j.m = "tm" -> CASE c = 96 -> [j EXCEPT !.m = "code", !.o = Append(@, TTE), !.re = FALSE, !.ls = FALSE]
                       [] c = 92 -> [j EXCEPT !.m = "tme"]
                       [] c = 36 -> [j EXCEPT !.m = "tmd"]
                       [] OTHER -> j
    [] j.m = "tme" -> [j EXCEPT !.m = "tm"]
    [] j.m = "tmd" -> CASE c = 123 -> [j EXCEPT !.m = "code", !.ts = Append(@, 0), !.o = Append(@, TTO), !.re = TRUE, !.ls = FALSE]
                        [] c = 36 -> j
                        [] OTHER -> JSDo([j EXCEPT !.m = "tm"], c)
    [] j.m = "sl" -> CASE c = 47 -> [j EXCEPT !.m = "lc", !.u = 0]
                       [] c = 42 -> [j EXCEPT !.m = "bc"]
                       [] OTHER -> IF j.re THEN JSDo([j EXCEPT !.m = "re", !.ls = FALSE], c)
                                   ELSE JSDo(JSPunct(j, <<P(47)>>, TRUE), c)
    [] j.m = "re" -> CASE c = 92 -> [j EXCEPT !.m = "ree"]
                       [] c = 91 -> [j EXCEPT !.m = "rc"]
                       [] c = 47 -> [j EXCEPT !.m = "code", !.o = Append(@, TR), !.re = FALSE, !.ls = FALSE]
                       [] JSNewline(c) -> JSBadNL(j)
                       [] OTHER -> j
    [] j.m = "ree" -> IF JSNewline(c) THEN JSBadNL(j) ELSE [j EXCEPT !.m = "re"]
    [] j.m = "rc" -> CASE c = 93 -> [j EXCEPT !.m = "re"]
                       [] c = 92 -> [j EXCEPT !.m = "rce"]
                       [] JSNewline(c) -> JSBadNL(j)
                       [] OTHER -> j
    [] j.m = "rce" -> IF JSNewline(c) THEN JSBadNL(j) ELSE [j EXCEPT !.m = "rc"]
    [] j.m = "lc" -> CASE JSNewline(c) -> [j EXCEPT !.m = "code", !.ls = TRUE, !.u = 0]
                       [] c = 226 -> [j EXCEPT !.u = 1]
                       [] j.u = 1 /\ c = 128 -> [j EXCEPT !.u = 2]
                       [] j.u = 2 /\ c \in {168, 169} -> [j EXCEPT !.m = "code", !.ls = TRUE, !.u = 0]   \* U+2028 / U+2029
                       [] OTHER -> [j EXCEPT !.u = 0]
    [] j.m = "bc" -> IF c = 42 THEN [j EXCEPT !.m = "bcs"] ELSE j
    [] j.m = "bcs" -> CASE c = 47 -> [j EXCEPT !.m = "code"]
                        [] c = 42 -> j
                        [] OTHER -> [j EXCEPT !.m = "bc"]
    [] j.m = "lt1" -> IF c = 33 THEN [j EXCEPT !.m = "lt2"] ELSE JSDo(JSPunct(j, <<P(60)>>, TRUE), c)
    [] j.m = "lt2" -> IF c = 45 THEN [j EXCEPT !.m = "lt3"] ELSE JSDo(JSPunct(j, <<P(60), P(33)>>, TRUE), c)
    [] j.m = "lt3" -> IF c = 45 THEN [j EXCEPT !.m = "lc", !.u = 0] ELSE JSDo(JSPunct(j, <<P(60), P(33), P(45)>>, TRUE), c)
    [] j.m = "d1" -> IF c = 45 THEN [j EXCEPT !.m = "d2"] ELSE JSDo(JSPunct(j, <<P(45)>>, TRUE), c)
    [] j.m = "d2" -> IF c = 62 /\ j.ls THEN [j EXCEPT !.m = "lc", !.u = 0] ELSE JSDo(JSPunct(j, <<P(45), P(45)>>, TRUE), c)
    [] OTHER -> j      \* "ovf", "err": absorbing

JSStep(j, c) == JSDo(IF j.o = <<>> THEN j ELSE [j EXCEPT !.o = <<>>], c)

JSSlot(j) ==
  CASE j.m \in {"code", "lt1", "lt2", "lt3", "d1", "d2"} -> "js-code"
    [] j.m = "sl" -> IF j.re THEN "js-regex" ELSE "js-code"
    [] j.m \in {"str", "stre", "strr"} -> IF j.q = 34 THEN "js-string-dq" ELSE "js-string-sq"
    [] j.m \in {"tm", "tme", "tmd"} -> "js-template"
    [] j.m \in {"re", "ree"} -> "js-regex"
    [] j.m \in {"rc", "rce"} -> "js-regex-class"
    [] j.m = "lc" -> "js-comment-line"
    [] j.m \in {"bc", "bcs"} -> "js-comment-block"
    [] OTHER -> "undefined"
\* what is pending when the script ends here (a blank flushes a pending word / punctuator) + the mode class
JSFlush(j) == JSStep(j, 32).o
JSClass(j) == <<JSSlot(j), Len(j.ts)>>
\* finite-state normal form (drops the output of the last step)
JSNorm(j) == [j EXCEPT !.o = <<>>]

\* ---- JSON -----------------------------------------------------------------------------------------
JSON0 == [m |-> "v", w |-> FALSE, o |-> <<>>]
JSONEndWord(n) == IF n.w THEN [n EXCEPT !.w = FALSE, !.o = Append(@, TW)] ELSE n
JSONDo(n, c) ==
  CASE n.m = "v" -> CASE c \in {32, 9, 10, 13} -> JSONEndWord(n)
                      [] c = 34 -> [JSONEndWord(n) EXCEPT !.m = "str"]
                      [] AEIsAlpha(c) \/ AEIsDigit(c) \/ c \in {46, 43, 45} \/ c >= 128 -> [n EXCEPT !.w = TRUE]
                      [] OTHER -> [JSONEndWord(n) EXCEPT !.o = Append(@, P(c))]
    [] n.m = "str" -> CASE c = 92 -> [n EXCEPT !.m = "stre"]
                        [] c = 34 -> [n EXCEPT !.m = "v", !.o = Append(@, TS)]
                        [] c < 32 -> [n EXCEPT !.m = "v", !.o = Append(@, TBAD)]
                        [] OTHER -> n
    [] OTHER -> [n EXCEPT !.m = "str"]      \* "stre"
JSONStep(n, c) == JSONDo(IF n.o = <<>> THEN n ELSE [n EXCEPT !.o = <<>>], c)
JSONSlot(n) == IF n.m = "v" THEN "json-value" ELSE "json-string"
JSONFlush(n) == JSONStep(n, 32).o
JSONNorm(n) == [n EXCEPT !.o = <<>>]
=============================================================================

------------------------------ MODULE MC_AEProduct ------------------------------
(* C06: TLC explores the PRODUCT of the implementation-shaped lexer model (AELexer) and the reference
   tokenizer (AEHTMLTok + AEJSLex + AECSSLex) over the fragment alphabet `Use` (indices into
   AETables!Frags), to a FIX-POINT of the reachable product states: documents of unbounded length.

   Invariant of interest:  Sync == Compatible(lexer context, inURL, reference slot)  (a CONFINEMENT
   table, AETables) or the two machines strictly Agree (then an incompatible pair is a weakness of
   the escaper of a synchronised context, e.g. spaces kept in the tag context: a hole there is a
   candidate, but the machines are in step and exploration goes on).  A desynchronisation
   cascades, so exploration is pruned behind the first state that neither agrees nor is compatible
   (history flag `broken`; such states are terminal), and the finding is named
   by its BREAKING EDGE `edge` = <<context, url, slot, kind of the last compatible product state,
   fragment>>.  `root` names the edge at which STRICT agreement was FIRST lost on the way (the root
   cause of the desynchronisation that later becomes incompatible), `div` counts the fragments
   since then.  The region where the two machines are in step (div = 0) is explored to its
   fix-point; behind a root cause exploration continues for MaxDiv fragments (the cascade is not
   followed further: every product state behind it is a consequence of the same root cause).
   TLC is run without an INVARIANT so that it does not stop at the first breaking edge: all of them
   are wanted.  `doc` is the fragment sequence that reached the state first (breadth-first: a
   shortest one); the VIEW excludes it.  With -dump, every distinct product state is written with
   its document; checks/c06.py turns them into cases (a hole `{{ x }}` at every fragment boundary).
   The model's findings are diagnostic (DESIGN 2.3): every document is replayed into the real
   lexer and renderer and judged there (Trace_AEContext, Trace_AEConfine). *)
EXTENDS AELexer, AEHTMLTok, AETables, TLC, Json

CONSTANTS Use,        \* set of fragment indices
          MaxDoc,     \* safety bound on the document length (the fix-point must be reached below it)
          Fmt,        \* file format: "HTML", "JS", "CSS" or "JSON"
          RootInView, \* TRUE: product states behind different (classes of) root causes are kept apart
          MaxDiv      \* how many fragments exploration continues after the FIRST loss of strict agreement (0: no bound)

VARIABLES lex, ref, doc, broken, edge, root, div, rc
vars == <<lex, ref, doc, broken, edge, root, div, rc>>

Class(l, h) == <<LCtxAtHole(l), LURLAtHole(l), Slot(h), SlotKind(h)>>
CompatibleAt(l, h) == Compatible(LCtxAtHole(l), LURLAtHole(l), Slot(h), SlotKind(h))
AgreeAt(l, h) == Agree(LCtxAtHole(l), LURLAtHole(l), Slot(h), SlotKind(h))
Sync == ~broken

\* For every state of the synchronised region: the context AELexer predicts after every fragment (one test
\* per transition: checks/c06.py compares it with the context the real lexer assigns, to report model
\* drift and to explore what follows a drifted transition).  Printed from an "invariant" because TLC
\* evaluates invariants once per distinct state; a prediction is 10 * context number + URL kind, -1 = unused.
LCtxNum(c) == CASE c = "HTML" -> 1 [] c = "CSS" -> 2 [] c = "JS" -> 3 [] c = "JSON" -> 4 [] c = "Tag" -> 6 [] c = "QuotedAttr" -> 7
                [] c = "UnquotedAttr" -> 8 [] c = "CSSString" -> 9 [] c = "JSString" -> 10 [] c = "JSONString" -> 11 [] OTHER -> 99   \* "inert"
Succ(l) == [f \in 1..Len(Frags) |-> IF f \in Use THEN LET l2 == LRun(l, Frags[f]) IN 10 * LCtxNum(LCtxAtHole(l2)) + LURLAtHole(l2) ELSE -1]
PrintSucc == (div = 0 /\ ~broken) => PrintT(<<"SUCC", doc, Succ(lex)>>)

\* class of a root cause: the reference slot the machines are in after the breaking edge, for the
\* design-level causes; without it in the VIEW a product state behind one root cause hides the same
\* product state behind another one (and the second cause would get no witness of its consequences)
RootClass(slot) == IF ~RootInView THEN ""
                   ELSE IF slot \in {"comment", "bogus-comment", "rcdata", "rawtext", "plaintext", "js-template", "js-regex", "css-comment", "css-url"}
                   THEN slot ELSE "other"

Init == lex = L0F(Fmt) /\ ref = HNorm(HInit(Fmt)) /\ doc = <<>> /\ broken = FALSE /\ edge = <<>> /\ root = <<>> /\ div = 0 /\ rc = ""

Step(f) ==
  LET l2 == LRun(lex, Frags[f])
      h2 == HNorm(HRun(ref, Frags[f]))
      ok == CompatibleAt(l2, h2)
  IN /\ lex' = l2
     /\ ref' = h2
     /\ doc' = Append(doc, f)
     /\ broken' = (~ok /\ ~AgreeAt(l2, h2))
     /\ edge' = IF ok \/ AgreeAt(l2, h2) THEN <<>> ELSE Class(lex, ref) \o <<f>>
     /\ root' = IF root # <<>> THEN root ELSE IF AgreeAt(l2, h2) THEN <<>> ELSE Class(lex, ref) \o <<f>>
     /\ rc' = IF div > 0 THEN rc ELSE IF AgreeAt(l2, h2) THEN "" ELSE RootClass(Slot(h2))
     /\ div' = IF div > 0 THEN (IF MaxDiv = 0 THEN 1 ELSE div + 1) ELSE IF AgreeAt(l2, h2) THEN 0 ELSE 1

Next == ~broken /\ (MaxDiv = 0 \/ div < MaxDiv) /\ Len(doc) < MaxDoc /\ Slot(ref) # "undefined" /\ \E f \in Use : Step(f)

View == <<lex, ref, broken, edge, div, rc>>
\* the fix-point was reached strictly below the bound (checked as an invariant: no state sits at the bound)
BelowBound == Len(doc) < MaxDoc

\* the fragment table for the concretiser (checks/c06.py expands documents into bytes with it)
ASSUME ndJsonSerialize("frags.ndjson", [i \in 1..Len(Frags) |-> [id |-> i, b |-> Frags[i]]])
=============================================================================

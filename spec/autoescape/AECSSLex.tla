------------------------------- MODULE AECSSLex -------------------------------
(* C06 REFERENCE, part 2: lexical states of CSS (css-syntax-3 tokenizer, the part that decides
   token boundaries): code, "..." / '...' strings (a raw newline ends the string as a bad-string),
   comments, and the unquoted url( ... ) token with its bad-url recovery.  Pure byte-at-a-time
   state machine like AEJSLex.  Whitespace is not a token; runs of name characters are one word. *)
EXTENDS AEJSLex

CSSWordChar(c) == AEIsAlpha(c) \/ AEIsDigit(c) \/ c \in {95, 45, 46, 35, 64, 37, 33} \/ c >= 128   \* _ - . # @ % !
CSSBlank(c) == c \in {32, 9, 10, 12, 13}
CSSNewline(c) == c \in {10, 12, 13}

(* m mode; q quote; id progress of the current word towards "url" (0 no word, 1 u, 2 ur, 3 url,
   9 another word); o tokens emitted by the last step *)
CSS0 == [m |-> "code", q |-> 0, id |-> 0, o |-> <<>>]
CSSEndWord(s) == IF s.id = 0 THEN s ELSE [s EXCEPT !.id = 0, !.o = Append(@, TW)]

RECURSIVE CSSDo(_, _)
CSSDo(s, c) ==
  CASE s.m = "code" ->
         CASE CSSWordChar(c) ->
                [s EXCEPT !.id = CASE @ = 0 /\ AELower(c) = 117 -> 1
                                   [] @ = 1 /\ AELower(c) = 114 -> 2
                                   [] @ = 2 /\ AELower(c) = 108 -> 3
                                   [] OTHER -> 9]
           [] c = 92 -> [s EXCEPT !.m = "esc", !.id = 9]
           [] CSSBlank(c) -> CSSEndWord(s)
           [] c = 34 \/ c = 39 -> [CSSEndWord(s) EXCEPT !.m = "str", !.q = c]
           [] c = 47 -> [CSSEndWord(s) EXCEPT !.m = "sl"]
           [] c = 40 -> IF s.id = 3 THEN [s EXCEPT !.m = "uw", !.id = 0]
                        ELSE [CSSEndWord(s) EXCEPT !.o = Append(@, P(c))]
           [] OTHER -> [CSSEndWord(s) EXCEPT !.o = Append(@, P(c))]
    [] s.m = "esc" -> [s EXCEPT !.m = "code"]
    [] s.m = "sl" -> IF c = 42 THEN [s EXCEPT !.m = "bc"]
                     ELSE CSSDo([s EXCEPT !.m = "code", !.o = Append(@, P(47))], c)
    [] s.m = "bc" -> IF c = 42 THEN [s EXCEPT !.m = "bcs"] ELSE s
    [] s.m = "bcs" -> CASE c = 47 -> [s EXCEPT !.m = "code"]
                        [] c = 42 -> s
                        [] OTHER -> [s EXCEPT !.m = "bc"]
    [] s.m = "str" -> CASE c = 92 -> [s EXCEPT !.m = "stre"]
                        [] c = s.q -> [s EXCEPT !.m = "code", !.o = Append(@, TS)]
                        [] CSSNewline(c) -> [s EXCEPT !.m = "code", !.o = Append(@, TBS)]
                        [] OTHER -> s
    [] s.m = "stre" -> [s EXCEPT !.m = "str"]
    \* after "url(": blanks, then a quote makes it the function url( with a string argument
    [] s.m = "uw" -> CASE CSSBlank(c) -> s
                       [] c = 34 \/ c = 39 -> [s EXCEPT !.m = "str", !.q = c, !.o = @ \o <<TW, P(40)>>]
                       [] c = 41 -> [s EXCEPT !.m = "code", !.o = Append(@, TU)]
                       [] OTHER -> CSSDo([s EXCEPT !.m = "url"], c)
    [] s.m = "url" -> CASE c = 41 -> [s EXCEPT !.m = "code", !.o = Append(@, TU)]
                        [] CSSBlank(c) -> [s EXCEPT !.m = "ue"]
                        [] c \in {34, 39, 40} \/ c < 32 \/ c = 127 -> [s EXCEPT !.m = "bu"]
                        [] c = 92 -> [s EXCEPT !.m = "urle"]
                        [] OTHER -> s
    [] s.m = "urle" -> IF CSSNewline(c) THEN [s EXCEPT !.m = "bu"] ELSE [s EXCEPT !.m = "url"]
    [] s.m = "ue" -> CASE CSSBlank(c) -> s
                       [] c = 41 -> [s EXCEPT !.m = "code", !.o = Append(@, TU)]
                       [] OTHER -> CSSDo([s EXCEPT !.m = "bu"], c)
    [] s.m = "bu" -> CASE c = 41 -> [s EXCEPT !.m = "code", !.o = Append(@, TBU)]
                       [] c = 92 -> [s EXCEPT !.m = "bue"]
                       [] OTHER -> s
    [] OTHER -> [s EXCEPT !.m = "bu"]     \* "bue"

CSSStep(s, c) == CSSDo(IF s.o = <<>> THEN s ELSE [s EXCEPT !.o = <<>>], c)
CSSSlot(s) ==
  CASE s.m \in {"code", "sl", "esc"} -> "css-code"
    [] s.m \in {"str", "stre"} -> IF s.q = 34 THEN "css-string-dq" ELSE "css-string-sq"
    [] s.m \in {"bc", "bcs"} -> "css-comment"
    [] s.m \in {"uw", "url", "urle", "ue"} -> "css-url"
    [] OTHER -> "css-badurl"
CSSFlush(s) == CSSStep(s, 32).o
CSSNorm(s) == [s EXCEPT !.o = <<>>]
=============================================================================

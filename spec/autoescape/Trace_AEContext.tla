---------------------------- MODULE Trace_AEContext ----------------------------
(* C06, context level (DESIGN C06 "Replay / Judge" 1).  One record per document:
     {id, frags: [[byte]...], ctx: [c_0..c_n], url: [u_0..u_n]}
   where c_i / u_i are the Context and URL kind that the REAL lexer gave to a `{{ x }}` inserted at
   fragment boundary i (read off the ast.Show node by BuildOptions.ExpandedTransformer; -1 the
   document does not build, -2 no Show node: the hole was not lexed, -3 host panic).
   The REFERENCE tokenizer (AEHTMLTok) is run over the document bytes and gives the slot of every
   boundary.  For every boundary this module computes Agree (strict) and Compatible (confinement)
   between the real context and the reference slot, and the ROOT of a disagreement (the breaking
   edge: class of the last boundary in step + the fragment that separated the two machines).
   An incompatible pair is only a CANDIDATE: it is sent to the confinement level, which decides.
   The implementation-shaped AELexer is run as well, only to report model drift (its predicted
   context differs from the real one).  Output: ctxout.ndjson, one line per record. *)
EXTENDS AELexer, AEHTMLTok, AETables, TLC, Json

Obs == ndJsonDeserialize("obs.ndjson")

RECURSIVE RefAt(_, _, _, _)
RefAt(frags, i, h, acc) ==      \* <<slot, kind>> of every boundary
  IF i > Len(frags) THEN acc
  ELSE LET h2 == HRun(h, frags[i]) IN RefAt(frags, i + 1, h2, Append(acc, <<Slot(h2), SlotKind(h2)>>))
RefSlots(frags) == RefAt(frags, 1, H0, << <<Slot(H0), SlotKind(H0)>> >>)

RECURSIVE ModelAt(_, _, _, _)
ModelAt(frags, i, l, acc) ==
  IF i > Len(frags) THEN acc
  ELSE LET l2 == LRun(l, frags[i]) IN ModelAt(frags, i + 1, l2, Append(acc, <<LCtxAtHole(l2), LURLAtHole(l2)>>))
ModelCtxs(frags) == ModelAt(frags, 1, L0, << <<LCtxAtHole(L0), LURLAtHole(L0)>> >>)

Observed(c) == c >= 0 \/ c = -2
\* agreement per boundary; a boundary without observation inherits its predecessor's
RECURSIVE AgreeSeq(_, _, _, _)
AgreeSeq(r, S, i, acc) ==
  IF i > Len(r.ctx) THEN acc
  ELSE LET a == IF Observed(r.ctx[i]) THEN Agree(CtxName(r.ctx[i]), r.url[i], S[i][1], S[i][2])
                ELSE IF i = 1 THEN TRUE ELSE acc[i - 1]
       IN AgreeSeq(r, S, i + 1, Append(acc, a))

(* ROOT CAUSE of what is observed at boundary i: the FIRST boundary j <= i at which strict agreement is
   lost, named by the class of the boundary before it (the last product-state class in step) and the
   fragment in between: the breaking edge.  Documents are shortest paths to product states, so an
   earlier desynchronisation that had been fully repaired would not be on them; a later accidental
   agreement of the context NAMES (e.g. lexer in a JS line comment, reference in JS code) does not
   mean that the two machines are in step again. *)
RECURSIVE FirstBad(_, _, _)
FirstBad(A, j, i) == IF j > i THEN 0 ELSE IF ~A[j] THEN j ELSE FirstBad(A, j + 1, i)
RootOf(r, S, A, i) ==
  LET j == FirstBad(A, 1, i) IN
  IF j = 0 THEN [none |-> 1]
  ELSE IF j = 1 THEN [ctx |-> "start", url |-> 0, slot |-> "start", kind |-> "", frag |-> <<>>]
  ELSE [ctx |-> CtxName(r.ctx[j - 1]), url |-> r.url[j - 1], slot |-> S[j - 1][1], kind |-> S[j - 1][2], frag |-> r.frags[j - 1]]

Cls(r) ==
  LET S == RefSlots(r.frags)
      M == ModelCtxs(r.frags)
      A == AgreeSeq(r, S, 1, <<>>)
      n == Len(r.ctx)
  IN [id |-> r.id,
      slot |-> [i \in 1..n |-> S[i][1]],
      kind |-> [i \in 1..n |-> S[i][2]],
      agree |-> [i \in 1..n |-> IF A[i] THEN 1 ELSE 0],
      compat |-> [i \in 1..n |-> IF ~Observed(r.ctx[i]) \/ Compatible(CtxName(r.ctx[i]), r.url[i], S[i][1], S[i][2]) THEN 1 ELSE 0],
      root |-> [i \in 1..n |-> RootOf(r, S, A, i)],
      mctx |-> [i \in 1..n |-> M[i][1]],
      drift |-> [i \in 1..n |-> IF Observed(r.ctx[i]) /\ (CtxName(r.ctx[i]) # M[i][1] \/ r.url[i] # M[i][2]) THEN 1 ELSE 0]]

VARIABLES l
Init == l = 1
Next == l <= Len(Obs) /\ l' = l + 1
Done == l = Len(Obs) + 1 => ndJsonSerialize("ctxout.ndjson", [k \in 1..Len(Obs) |-> Cls(Obs[k])])
Consumed == TLCGet("stats").diameter - 1 = Len(Obs)
=============================================================================

---------------------------- MODULE Trace_AEContext ----------------------------
(* C06, context level (DESIGN C06 "Replay / Judge" 1).  The documents exported by MC_AEProduct form a
   prefix tree; there is one record per NODE (= document prefix), parents before children:
     {id, p: index of the parent record in this file (0 = the empty document), frag: [byte...],
      ctx, url}
   ctx / url are the Context and the URL kind (0 no, 1 URL, 2 srcset) that the REAL lexer gave to a
   `{{ x }}` placed at the end of this prefix (read off the ast.Show node by
   BuildOptions.ExpandedTransformer; -1 the document does not build, -2 no Show node: the hole was
   not lexed, -3 host panic).  The context of a hole depends only on the text before it, so this
   is also the context of a hole at this boundary inside every longer document.
   The REFERENCE tokenizer (AEHTMLTok) is stepped over the fragment from the parent's state and
   gives the slot of the node.  For every node this module computes Agree (strict) and Compatible
   (confinement) between the real context and the reference slot, and the ROOT CAUSE of a
   disagreement (the breaking edge).  An incompatible pair is only a CANDIDATE: it is sent to the
   confinement level, which decides.  The implementation-shaped AELexer is stepped as well, only
   to report model drift (its predicted context differs from the real one).
   Output: ctxout.ndjson, one line per record. *)
EXTENDS AELexer, AEHTMLTok, AETables, TLC, Json

CONSTANT Fmt        \* file format of the documents of this run: "HTML", "JS", "CSS" or "JSON"
Obs == ndJsonDeserialize("obs.ndjson")

Observed(c) == c >= 0 \/ c = -2
NoRoot == [none |-> 1]

(* ROOT CAUSE of what is observed at a node: the FIRST node on its path at which strict agreement is
   lost, named by the class of its parent (the last product-state class in step), the fragment
   in between and the class the two machines are in after it: the breaking edge.  Documents are shortest paths to product states, so an earlier
   desynchronisation that had been fully repaired would not be on them; a later accidental
   agreement of the context NAMES (e.g. lexer in a JS line comment, reference in JS code) does not
   mean that the two machines are in step again. *)
Base == [h |-> HNorm(HInit(Fmt)), l |-> L0F(Fmt), ctx |-> Fmt, url |-> 0, slot |-> Slot(HInit(Fmt)), kind |-> "", agree |-> TRUE, root |-> NoRoot]

NodeOf(n, par) ==
  LET h2 == HNorm(HRun(par.h, n.frag))
      l2 == LRun(par.l, n.frag)
      sl == Slot(h2)
      kd == SlotKind(h2)
      cn == CtxName(n.ctx)
      ag == IF Observed(n.ctx) THEN Agree(cn, n.url, sl, kd) ELSE par.agree
      rt == IF par.root # NoRoot THEN par.root
            ELSE IF ag THEN NoRoot
            ELSE [ctx |-> par.ctx, url |-> par.url, slot |-> par.slot, kind |-> par.kind, frag |-> n.frag,
                  toctx |-> cn, tourl |-> n.url, to |-> sl, tokind |-> kd]
  IN [h |-> h2, l |-> l2, ctx |-> IF Observed(n.ctx) THEN cn ELSE par.ctx, url |-> IF Observed(n.ctx) THEN n.url ELSE par.url,
      slot |-> sl, kind |-> kd, agree |-> ag, root |-> rt,
      compat |-> ~Observed(n.ctx) \/ Compatible(cn, n.url, sl, kd),
      mctx |-> LCtxAtHole(l2), murl |-> LURLAtHole(l2)]

RECURSIVE Walk(_, _)
Walk(i, acc) == IF i > Len(Obs) THEN acc
                ELSE LET n == Obs[i] IN Walk(i + 1, Append(acc, NodeOf(n, IF n.p = 0 THEN Base ELSE acc[n.p])))

Line(n, x) == [id |-> n.id, slot |-> x.slot, kind |-> x.kind, agree |-> IF x.agree THEN 1 ELSE 0, compat |-> IF x.compat THEN 1 ELSE 0,
               root |-> x.root, mctx |-> x.mctx, murl |-> x.murl,
               drift |-> IF Observed(n.ctx) /\ (CtxName(n.ctx) # x.mctx \/ n.url # x.murl) THEN 1 ELSE 0]

VARIABLES l
Init == l = 1
Next == l <= Len(Obs) /\ l' = l + 1
Done == l = Len(Obs) + 1 => LET W == Walk(1, <<>>) IN ndJsonSerialize("ctxout.ndjson", [k \in 1..Len(Obs) |-> Line(Obs[k], W[k])])
Consumed == TLCGet("stats").diameter - 1 = Len(Obs)
=============================================================================

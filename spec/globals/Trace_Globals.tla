---------------------------- MODULE Trace_Globals ----------------------------
(* Judges observations of the real scriggo.BuildTemplate / Template.Run / Template.UsedVars:
   one record per line of obs.ndjson
     {id, typ, sup, ext, init, refs,               the case, echoed
      outcome,                                     "ok" | "builderror" | "hostpanic-build" | "runerror" | "hostpanic-run"
      out1, out2,                                  bytes rendered by the first and the second Run
      caller1, caller2,                            the caller's variables <<X, Y>> after each Run
      used}                                        Template.UsedVars()
   against the register semantics RefRun of Globals.tla. *)
EXTENDS Globals, TLC, Json, SequencesExt
CONSTANT DriftEvery        \* the model_drift diagnostic looks at the records whose id is a multiple of it

CaseOf(r) == [typ |-> r.typ, sup |-> r.sup, ext |-> r.ext, init |-> r.init, refs |-> r.refs]
UsedSet(r) == {r.used[i] : i \in 1..Len(r.used)}
UsesGlobal(r) == \E i \in 1..Len(r.refs) : IsGlobalRef(r.refs[i])
\* A template that cannot be built is outside this property (C03/C04 territory): such a record is not
\* judged here; the check counts these records and refuses to pass (exit 2) if there are any.
\* Also not judged: a sequence the reference part is not defined for (not WellFormed: counted as ref_undefined by the
\* check), and a value supplied for a global of type any (a value of static type any cannot be put in Run's map; whether
\* Run accepts a value of another type for it is not a clause of this property).
RefUndefined(r) == ~WellFormed(r.ext, r.refs) \/ r.typ \notin {"int", "any"} \/ r.sup \notin {"value", "pointer"}
NotJudged(r) == RefUndefined(r) \/ r.outcome \in {"builderror", "hostpanic-build"} \/ ~UsesGlobal(r)
                \/ (r.typ = "any" /\ r.sup = "value")

(* ---- the clauses of the property, on one observation ---- *)
\* "the value supplied ... is the value observed by every reference": Run completes and every read printed
\* the register's value (first Run)
RunsOk(r) == r.outcome = "ok"
ReadsOk(r, e) == r.out1 = Render(e.reads1)
\* "a pointer value is shared with the caller, and a non-pointer value is copied": the caller's variable
\* holds the last write iff a pointer was supplied, and is untouched otherwise ...
CallerOk(r, e) == r.caller1 = e.caller1
\* ... and a second Run with the same variables starts from the caller's variable (pointer) / from a fresh
\* copy of the supplied value (value)
Reads2Ok(r, e) == r.out2 = Render(e.reads2)
Caller2Ok(r, e) == r.caller2 = e.caller2
\* "it is reported by UsedVars": the name is present (how many times, and which other names, is not a clause)
UsedOk(r, e) == e.used \subseteq UsedSet(r)

RecOk(r) == NotJudged(r) \/
            LET e == RefRun(CaseOf(r)) IN
            RunsOk(r) /\ ReadsOk(r, e) /\ CallerOk(r, e) /\ Reads2Ok(r, e) /\ Caller2Ok(r, e) /\ UsedOk(r, e)

(* ---- signature of a rejected record: which clause, and the root-cause-identifying circumstances ---- *)
\* the numbers printed after ':' in the output
RECURSIVE DigitsEnd(_, _)
DigitsEnd(t, i) == IF i <= Len(t) /\ IsDigit(t[i]) THEN DigitsEnd(t, i + 1) ELSE i
RECURSIVE NumAt(_, _, _, _)
NumAt(t, i, j, acc) == IF i >= j THEN acc ELSE NumAt(t, i + 1, j, IF acc > 100000 THEN acc ELSE acc * 10 + (t[i] - 48))
RECURSIVE ParseVals(_, _, _)
ParseVals(t, i, acc) ==
  IF i > Len(t) THEN acc
  ELSE IF t[i] = 58 /\ DigitsEnd(t, i + 1) > i + 1
       THEN ParseVals(t, DigitsEnd(t, i + 1), Append(acc, NumAt(t, i + 1, DigitsEnd(t, i + 1), 0)))
       ELSE ParseVals(t, i + 1, acc)
\* positions (in refs) of the printing reads, in execution order
ReadPos(refs) == SelectSeq(Idx(refs), LAMBDA i : IsGlobalRef(refs[i]) /\ IsRead(refs[i]))
WritesBefore(refs, i, var) == {refs[j].v : j \in {k \in 1..(i - 1) : IsGlobalRef(refs[k]) /\ refs[k].op = "w" /\ refs[k].var = var}}
AllWrites(refs, var) == WritesBefore(refs, Len(refs) + 1, var)
Other(var) == IF var = "X" THEN "Y" ELSE "X"
\* what kind of value was seen instead of the register's value
Kind(r, val, var, i) ==
  IF val = 0 THEN "zero"                                            \* never supplied, never written
  ELSE IF val = r.init[VarIdx(var)] THEN "supplied"                 \* the supplied value, although overwritten
  ELSE IF val \in AllWrites(r.refs, var) THEN "stale-write"         \* some write to it, not the latest
  ELSE IF val = r.init[VarIdx(Other(var))] \/ val \in AllWrites(r.refs, Other(var)) THEN "other-variable"
  ELSE "other"
\* is the latest write to var before position i in another compiled function than the reference at i?
LastWrite(refs, i, var) == LET W == {k \in 1..(i - 1) : IsGlobalRef(refs[k]) /\ refs[k].op = "w" /\ refs[k].var = var}
                           IN IF W = {} THEN 0 ELSE CHOOSE k \in W : \A m \in W : m <= k
Cross(refs, i) == LET w == LastWrite(refs, i, refs[i].var) IN w # 0 /\ UnitOf(refs, w) # UnitOf(refs, i)
FirstDiff(a, b) == LET n == IF Len(a) < Len(b) THEN Len(a) ELSE Len(b)
                       D == {k \in 1..n : a[k] # b[k]}
                   IN IF D = {} THEN n + 1 ELSE CHOOSE k \in D : \A m \in D : k <= m
ReadSig(r, clause, out, reads) ==
  LET vals == ParseVals(out, 1, <<>>)
      exp == [k \in 1..Len(reads) |-> reads[k].val]
      k == FirstDiff(vals, exp)
      pos == ReadPos(r.refs)
  IN IF k > Len(exp) THEN [fam |-> "globals", clause |-> clause, got |-> "extra-output", sup |-> r.sup, typ |-> r.typ,
                           firstref |-> "-", at |-> "-", cross |-> FALSE, op |-> "-", lit |-> FALSE]
     ELSE LET i == pos[k] var == r.refs[i].var IN
          [fam |-> "globals", clause |-> clause, sup |-> r.sup, typ |-> r.typ,
           got |-> IF k > Len(vals) THEN "missing" ELSE Kind(r, vals[k], var, i),
           firstref |-> FirstBodyScope(r.refs, var), at |-> r.refs[i].sc, cross |-> Cross(r.refs, i),
           op |-> r.refs[i].op, lit |-> ViaLit(r.refs[i])]     \* how the failing read is written; is it inside a function literal
CallerSig(r, clause, got, exp) ==
  LET k == FirstDiff(got, exp) var == IF k = 1 THEN "X" ELSE "Y" IN
  [fam |-> "globals", clause |-> clause, sup |-> r.sup, typ |-> r.typ,
   got |-> IF k > Len(got) THEN "missing" ELSE Kind(r, got[k], var, Len(r.refs) + 1),
   firstref |-> FirstBodyScope(r.refs, var), at |-> "caller", cross |-> FALSE, op |-> "-", lit |-> FALSE]
DefaultInLit(refs) == \E i \in 1..Len(refs) : refs[i].op = "d" /\ ViaLit(refs[i])
Sig(r) ==
  LET e == RefRun(CaseOf(r)) IN
  IF ~RunsOk(r) THEN [fam |-> "globals", clause |-> "run-failed", sup |-> r.sup, typ |-> r.typ, got |-> r.outcome,
                      firstref |-> FirstBodyScope(r.refs, "X"), at |-> "-", cross |-> FALSE,
                      \* is there a default expression inside a function literal (the only reference form with its own checker path)
                      op |-> IF DefaultInLit(r.refs) THEN "d" ELSE "-", lit |-> DefaultInLit(r.refs)]
  ELSE IF ~ReadsOk(r, e) THEN ReadSig(r, "read", r.out1, e.reads1)
  ELSE IF ~CallerOk(r, e) THEN CallerSig(r, "caller", r.caller1, e.caller1)
  ELSE IF ~Reads2Ok(r, e) THEN ReadSig(r, "read-run2", r.out2, e.reads2)
  ELSE IF ~Caller2Ok(r, e) THEN CallerSig(r, "caller-run2", r.caller2, e.caller2)
  ELSE [fam |-> "globals", clause |-> "usedvars", sup |-> r.sup, typ |-> r.typ, got |-> "missing",
        firstref |-> "-", at |-> "-", cross |-> FALSE, op |-> "-", lit |-> FALSE]

(* ---- diagnostic only (model_drift): does the implementation-shaped model predict the observation? ---- *)
Predicts(r, V) == NotJudged(r) \/
  LET m == ImplRun(CaseOf(r), V) IN
  /\ r.outcome = "ok" /\ r.out1 = Render(m.reads1) /\ r.out2 = Render(m.reads2)
  /\ r.caller1 = m.caller1 /\ r.caller2 = m.caller2 /\ UsedSet(r) = m.used /\ Len(r.used) = m.nglobals

(* ---- record walk (skeleton of spec/lib2/Trace_HTMLEscape.tla; every predicate is evaluated once per
        record at constant level, the walk only counts, and grouping by signature is left to the check) ---- *)
VARIABLES l, nbad
Obs == ndJsonDeserialize("obs.ndjson")
ObsIdx == [i \in 1..Len(Obs) |-> i]
BadIdx == SelectSeq(ObsIdx, LAMBDA i : ~RecOk(Obs[i]))
BadSet == {BadIdx[j] : j \in 1..Len(BadIdx)}
DriftIdx == SelectSeq(ObsIdx, LAMBDA i : Obs[i].id % DriftEvery = 0)
NDriftAsWritten == Len(SelectSeq(DriftIdx, LAMBDA i : ~Predicts(Obs[i], AsWritten)))
NDriftFixed == Len(SelectSeq(DriftIdx, LAMBDA i : ~Predicts(Obs[i], Fixed)))
Init == l = 1 /\ nbad = 0
Next == l <= Len(Obs) /\ l' = l + 1 /\ nbad' = nbad + (IF l \in BadSet THEN 1 ELSE 0)
Done == l = Len(Obs) + 1 =>
          /\ nbad = Len(BadIdx)
          /\ ndJsonSerialize("drift.ndjson", <<[aswritten |-> NDriftAsWritten, fixed |-> NDriftFixed, records |-> Len(DriftIdx),
                                                  refundef |-> Len(SelectSeq(ObsIdx, LAMBDA i : RefUndefined(Obs[i])))]>>)
          /\ ndJsonSerialize("bad.ndjson",
                [j \in 1..Len(BadIdx) |-> [k |-> BadIdx[j], id |-> Obs[BadIdx[j]].id, sig |-> Sig(Obs[BadIdx[j]]), nbad |-> nbad]])
Consumed == TLCGet("stats").diameter - 1 = Len(Obs)
=============================================================================

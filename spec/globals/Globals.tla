------------------------------- MODULE Globals -------------------------------
(* C17.  "For every global variable declared without a value and used by a template, the value
   supplied for it in Run's variables is the value observed by every reference to it, whether the
   reference is at top level, inside a macro, or in an imported, rendered or extended file; it is
   reported by UsedVars, a pointer value is shared with the caller, and a non-pointer value is
   copied."

   A CASE is   [typ, sup, ext, init, refs]
     typ   "int" | "any"         the declared type of the two globals X and Y (with "any" they hold ints)
     sup   "value" | "pointer"   how the two globals X and Y are supplied to Run
     ext   BOOLEAN               FALSE: index.html is the body; TRUE: index.html extends layout.html
     init  <<vX, vY>>            the supplied values
     refs  sequence, in EXECUTION order, of [sc, op, var, hoist, v, nest, join]
             sc    where the reference is written:
                     top        body of index.html                      (ext = FALSE)
                     layout     body of layout.html, the extended file  (ext = TRUE)
                     macro      macro declared in the body file
                     closure    function literal declared in the body file
                     imported   macro of an imported file
                     rendered   a file rendered with {{ render }}
                     extending  macro declared by the file that extends the layout
                     pkgvar     NOT a reference to a global: a silent reference to variable X of the
                                native package p (same name, other package, declared with a value)
             op    "r" (prints [sc:value]) | "d" (prints [sc:value] through `X default 7`; X is declared,
                   so the default expression IS a reference to X) | "w" (assigns v)
             var   "X" | "Y"
             hoist 1: (macro/closure) the declaration is the first thing of the body file, so it is
                   the first reference the compiler meets (EMISSION order # execution order)
             nest  0: written directly in the function of its scope; 1: inside a function literal nested
                   in it (for sc = closure: a literal in the literal); 2: inside a macro nested in it
             join  1: in the SAME macro / file as the previous reference (same sc, same hoist), which is
                   then called / rendered once for both: "the enclosing macro, or a sibling nested
                   function, already referred to the variable"
   The first part is the REFERENCE (what the property demands: a register).  The second part is an
   IMPLEMENTATION-SHAPED model of how the compiler records globals per function and how Run binds
   them; it decides nothing about the code (DESIGN 2.3). *)
EXTENDS Integers, Sequences, FiniteSets, Text

VarIdx(v) == IF v = "X" THEN 1 ELSE 2
IsGlobalRef(r) == r.sc # "pkgvar"
IsRead(r) == r.op \in {"r", "d"}
Containers == {"macro", "imported", "rendered", "extending"}     \* scopes that are a macro or a file of their own
\* which sequences are templates the driver can write (MC generates only these; Trace skips any other)
WellFormedRef(refs, i) ==
  LET r == refs[i] IN
  /\ r.op \in {"r", "d", "w"} /\ r.var \in {"X", "Y"} /\ r.hoist \in {0, 1} /\ r.nest \in {0, 1, 2} /\ r.join \in {0, 1}
  /\ r.sc \in {"top", "layout", "pkgvar"} => (r.nest = 0 /\ r.join = 0 /\ r.hoist = 0)
  /\ r.sc = "pkgvar" => (r.op = "r" /\ r.var = "X")
  /\ r.sc = "closure" => (r.nest \in {0, 1} /\ r.join = 0 /\ r.op # "d")
  /\ r.sc \in {"imported", "rendered", "extending"} => r.hoist = 0
  /\ r.op = "d" => r.nest # 1                    \* a default expression cannot be written in Go code
  /\ r.join = 1 => (r.sc \in Containers /\ i > 1 /\ refs[i - 1].sc = r.sc /\ refs[i - 1].hoist = r.hoist)
WellFormed(ext, refs) == \A i \in 1..Len(refs) :
  /\ refs[i].sc \in (IF ext THEN {"layout", "extending"} ELSE {"top"}) \cup {"macro", "closure", "imported", "rendered", "pkgvar"}
  /\ WellFormedRef(refs, i)
Idx(refs) == [i \in 1..Len(refs) |-> i]
NeededVars(refs) == {refs[i].var : i \in {j \in 1..Len(refs) : IsGlobalRef(refs[j])}}

(* ====================== REFERENCE: sequential register semantics ====================== *)
\* One execution of the template: every read returns the latest write, initially reg0.
RECURSIVE RefExec(_, _, _, _)
RefExec(refs, i, reg, reads) ==
  IF i > Len(refs) THEN [reg |-> reg, reads |-> reads]
  ELSE LET r == refs[i] IN
       IF ~IsGlobalRef(r) THEN RefExec(refs, i + 1, reg, reads)
       ELSE IF r.op = "w" THEN RefExec(refs, i + 1, [reg EXCEPT ![VarIdx(r.var)] = r.v], reads)
       ELSE RefExec(refs, i + 1, reg, Append(reads, [sc |-> r.sc, nest |-> r.nest, var |-> r.var, val |-> reg[VarIdx(r.var)]]))

\* Two consecutive Runs of the same template with the same variables.
\*  - value supplied: each Run starts from a COPY of the supplied value; the caller's variable never changes
\*  - pointer supplied: the register IS the caller's variable: after Run it holds the last write, and the
\*    second Run starts from it
\*  - UsedVars contains (at least) every referenced global (duplicates / extra names are not a clause)
RefRun(c) ==
  LET a == RefExec(c.refs, 1, c.init, <<>>)
      caller1 == IF c.sup = "pointer" THEN a.reg ELSE c.init
      b == RefExec(c.refs, 1, caller1, <<>>)
      caller2 == IF c.sup = "pointer" THEN b.reg ELSE c.init
  IN [reads1 |-> a.reads, caller1 |-> caller1, reads2 |-> b.reads, caller2 |-> caller2,
      used |-> NeededVars(c.refs)]

\* rendering of the reads, as the synthesised templates print them:  [scope:decimal]
Tag(sc) == CASE sc = "top" -> <<116,111,112>>
             [] sc = "macro" -> <<109,97,99,114,111>>
             [] sc = "closure" -> <<99,108,111,115,117,114,101>>
             [] sc = "imported" -> <<105,109,112,111,114,116,101,100>>
             [] sc = "rendered" -> <<114,101,110,100,101,114,101,100>>
             [] sc = "layout" -> <<108,97,121,111,117,116>>
             [] sc = "extending" -> <<101,120,116,101,110,100,105,110,103>>
RECURSIVE Dec(_)
Dec(n) == IF n < 10 THEN <<48 + n>> ELSE Dec(n \div 10) \o <<48 + (n % 10)>>
NestTag(n) == CASE n = 0 -> <<>> [] n = 1 -> <<45, 99>> [] n = 2 -> <<45, 109>>          \* "", "-c", "-m"
Render(reads) == Flatten([k \in 1..Len(reads) |->
                   <<91>> \o Tag(reads[k].sc) \o NestTag(reads[k].nest) \o <<58>> \o Dec(reads[k].val) \o <<93>>])

(* ====================== IMPLEMENTATION-SHAPED MODEL ======================
   Transcribed from
     internal/compiler/checker_expressions.go  (checkIdentifier: ast.Upvar{NativeName, NativePkg, NativeValue})
     internal/compiler/emitter_util.go         (setFunctionVarRefs)
     internal/compiler/emitter_var_store.go    (predefVarIndex, predefVarRef per *runtime.Function)
     internal/compiler/emitter.go              (emitPackage: every package-level function has its own builder)
     templates.go                              (initGlobalVariables, UsedVars)
   V is a record of the two code variants the model can transcribe:
     V.upvarpkg  "ident" : the checker records an upvar of a function literal with NativePkg: ident.Name  (as written)
                 "decl"  : ... with the package the variable was declared in                            (proposed fix)
     V.dedup     FALSE   : predefVarIndex appends a new Global for every function that has not seen v  (as written)
                 TRUE    : ... reuses the Global already created for v by another function             (proposed fix) *)
AsWritten == [upvarpkg |-> "ident", dedup |-> FALSE]
Fixed     == [upvarpkg |-> "decl",  dedup |-> TRUE]
OnlyPkgFixed   == [upvarpkg |-> "decl",  dedup |-> FALSE]
OnlyDedupFixed == [upvarpkg |-> "ident", dedup |-> TRUE]

\* Compiled functions ("units").  The body file is one function (0); macros and function literals
\* declared in it are closures of it; every imported macro, rendered file (dummy macro M"path") and
\* macro of the extending file is a package-level function of its own.
\* A nested literal/macro (nest # 0) is a closure of the function it is nested in; the checker records the
\* variable as upvar of EVERY enclosing literal, and setFunctionVarRefs resolves each level in its parent, so a
\* nested reference denotes the Global of its package-level function, recorded the first time anything in
\* that function (at any depth) refers to it.
RECURSIVE ContainerOf(_, _)
ContainerOf(refs, i) == IF refs[i].join = 1 THEN ContainerOf(refs, i - 1) ELSE i     \* first reference of the same macro / file
UnitOf(refs, i) == IF refs[i].sc \in {"imported", "rendered", "extending"} THEN ContainerOf(refs, i) ELSE 0
ViaLit(r) == r.sc \in {"macro", "closure"} \/ r.nest # 0
\* identity of the predefined variable (the *reflect.Value in the type info), its name and declaring package
Key(r) == IF r.sc = "pkgvar" THEN "p.X" ELSE r.var
NameOf(key) == IF key = "p.X" THEN "X" ELSE key
DeclPkg(key) == IF key = "p.X" THEN "p" ELSE "main"          \* typeInfo.NativePackageName

\* EMISSION order = source order per function.  emitPackage emits imports first, then the declarations
\* of the package, the body last; bodyFirst = TRUE is the opposite order (the outcome must not depend on it).
EmOrder(refs, bodyFirst) ==
  LET imp == SelectSeq(Idx(refs), LAMBDA i : refs[i].sc = "imported")
      ren == SelectSeq(Idx(refs), LAMBDA i : refs[i].sc = "rendered")
      ext == SelectSeq(Idx(refs), LAMBDA i : refs[i].sc = "extending")
      hoisted == SelectSeq(Idx(refs), LAMBDA i : UnitOf(refs, i) = 0 /\ refs[i].hoist = 1)
      inplace == SelectSeq(Idx(refs), LAMBDA i : UnitOf(refs, i) = 0 /\ refs[i].hoist = 0)
  IN IF bodyFirst THEN hoisted \o inplace \o ext \o ren \o imp ELSE imp \o ren \o ext \o hoisted \o inplace

\* varStore.predefVarIndex(v, typ, pkg, name) with currFn = u.
\* st = [globals : sequence of Global{pkg,name} (+key), tab : predefVarRef as a set of [u, key, idx]]
PredefVarIndex(st, u, key, pkg, V) ==
  LET mine == {e \in st.tab : e.u = u /\ e.key = key}
      any == {e \in st.tab : e.key = key}
  IN IF mine # {} THEN st                                                    \* if index, ok := vs.predefVarRef[currFn][v]; ok
     ELSE IF V.dedup /\ any # {}
          THEN [st EXCEPT !.tab = @ \cup {[u |-> u, key |-> key, idx |-> (CHOOSE e \in any : TRUE).idx]}]
          ELSE [globals |-> Append(st.globals, [pkg |-> pkg, name |-> NameOf(key), key |-> key]),   \* vs.globals = append(vs.globals, g)
                tab |-> st.tab \cup {[u |-> u, key |-> key, idx |-> Len(st.globals) + 1]}]

\* One reference met by the emitter.
\*  - direct reference in function u: nonLocalVarIndex -> predefVarIndex(v, ti.NativePackageName, name)
\*  - reference inside a function literal L declared in u: when L is emitted, setFunctionVarRefs resolves
\*    L.Upvars in the PARENT u with predefVarIndex(v.NativeValue, v.NativePkg, v.NativeName); inside L the
\*    variable is the closure variable bound to that index, so it denotes the parent's Global.
\*  (package-level macros also get Upvars from the checker, but setFunctionVarRefs is only called for literals)
EmitRef(st, refs, i, V) ==
  LET r == refs[i] key == Key(r)
      pkg == IF ViaLit(r) /\ V.upvarpkg = "ident" THEN NameOf(key) ELSE DeclPkg(key)
  IN PredefVarIndex(st, UnitOf(refs, i), key, pkg, V)
RECURSIVE Emit(_, _, _, _, _)
Emit(refs, order, k, st, V) == IF k > Len(order) THEN st ELSE Emit(refs, order, k + 1, EmitRef(st, refs, order[k], V), V)
GlobalIdx(st, refs, i) == (CHOOSE e \in st.tab : e.u = UnitOf(refs, i) /\ e.key = Key(refs[i])).idx

\* initGlobalVariables(t.globals, vars): which storage cell each Global denotes during one Run.
\* vars always has both names.  <<"caller",k>>: the caller's variable (values[i] = reflect.ValueOf(ptr).Elem());
\* <<"own",i>>: a variable made for this Run (reflect.New), initialised with a copy of the value when bound,
\* zero otherwise; <<"px",0>>: the variable the native package p declared (Global.Value is valid).
\* (the panic "variable already initialized" needs a Global with Pkg "main", a name in vars and a valid Value:
\*  neither variant of the model produces one, p.X is always recorded under package "p")
Bind(globals, sup) ==
  [i \in 1..Len(globals) |->
     LET g == globals[i] IN
     IF g.key = "p.X" THEN <<"px", 0>>                     \* pkg "p": not bound; Global.Value is valid
     ELSE IF g.pkg = "main" /\ sup = "pointer" THEN <<"caller", VarIdx(g.name)>>
     ELSE <<"own", i>>]
InitMem(globals, sup, caller, px) ==
  [caller |-> caller, px |-> px,
   own |-> [i \in 1..Len(globals) |-> IF globals[i].pkg = "main" /\ sup = "value" THEN caller[VarIdx(globals[i].name)] ELSE 0]]
Load(mem, cell) == CASE cell[1] = "caller" -> mem.caller[cell[2]] [] cell[1] = "own" -> mem.own[cell[2]] [] cell[1] = "px" -> mem.px
Store(mem, cell, v) == CASE cell[1] = "caller" -> [mem EXCEPT !.caller[cell[2]] = v]
                         [] cell[1] = "own" -> [mem EXCEPT !.own[cell[2]] = v]
                         [] cell[1] = "px" -> [mem EXCEPT !.px = v]
RECURSIVE ImplExec(_, _, _, _, _, _)
ImplExec(refs, i, st, cells, mem, reads) ==
  IF i > Len(refs) THEN [mem |-> mem, reads |-> reads]
  ELSE LET r == refs[i] cell == cells[GlobalIdx(st, refs, i)] IN
       IF r.op = "w" THEN ImplExec(refs, i + 1, st, cells, Store(mem, cell, r.v), reads)
       ELSE IF ~IsGlobalRef(r) THEN ImplExec(refs, i + 1, st, cells, mem, reads)
       ELSE ImplExec(refs, i + 1, st, cells, mem, Append(reads, [sc |-> r.sc, nest |-> r.nest, var |-> r.var, val |-> Load(mem, cell)]))

ImplRunO(c, V, bodyFirst) ==
  LET st == Emit(c.refs, EmOrder(c.refs, bodyFirst), 1, [globals |-> <<>>, tab |-> {}], V)
      cells == Bind(st.globals, c.sup)
      a == ImplExec(c.refs, 1, st, cells, InitMem(st.globals, c.sup, c.init, 77), <<>>)
      b == ImplExec(c.refs, 1, st, cells, InitMem(st.globals, c.sup, a.mem.caller, a.mem.px), <<>>)
  IN [reads1 |-> a.reads, caller1 |-> a.mem.caller, reads2 |-> b.reads, caller2 |-> b.mem.caller,
      used |-> {st.globals[i].name : i \in 1..Len(st.globals)},          \* UsedVars: the Name of every Global
      nglobals |-> Len(st.globals)]
ImplRun(c, V) == ImplRunO(c, V, FALSE)

\* what the property compares
Agree(m, ref) == /\ m.reads1 = ref.reads1 /\ m.caller1 = ref.caller1
                 /\ m.reads2 = ref.reads2 /\ m.caller2 = ref.caller2
                 /\ ref.used \subseteq m.used

(* ---------- the two situations in which the as-written mechanism can leave the register semantics ---------- *)
\* scope of the first reference to key that the emitter meets in the body function ("none": the body has none)
FirstBodyScope(refs, key) ==
  LET o == SelectSeq(EmOrder(refs, TRUE), LAMBDA i : UnitOf(refs, i) = 0 /\ Key(refs[i]) = key)
  IN IF Len(o) = 0 THEN "none" ELSE refs[o[1]].sc
\* (1) the first reference of a package-level function (the body, an imported macro, ...) to a global is inside
\*     a function literal (a macro or closure declared in it, at any depth)
FirstInUnit(refs, i) == LET o == SelectSeq(EmOrder(refs, TRUE), LAMBDA j : UnitOf(refs, j) = UnitOf(refs, i) /\ Key(refs[j]) = Key(refs[i]))
                        IN o[1] = i
LitFirst(refs) == \E i \in 1..Len(refs) : IsGlobalRef(refs[i]) /\ ViaLit(refs[i]) /\ FirstInUnit(refs, i)
\* (2) a value (not a pointer) was supplied and a global is written in one function and read in another
CrossWrite(refs) == \E i, j \in 1..Len(refs) :
     /\ i < j /\ IsGlobalRef(refs[i]) /\ IsGlobalRef(refs[j]) /\ refs[i].var = refs[j].var
     /\ refs[i].op = "w" /\ IsRead(refs[j]) /\ UnitOf(refs, i) # UnitOf(refs, j)
=============================================================================

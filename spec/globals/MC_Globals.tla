----------------------------- MODULE MC_Globals -----------------------------
(* Model check of the implementation-shaped model against the register semantics over every
   reference sequence of the bounded space, and export of that space as cases.ndjson.
   The space: both ways of supplying (value, pointer) x both file shapes (plain, extends) x
     - every sequence of <= MaxLen references to ONE global (X), plus the silent pkgvar reference
     - every sequence of <= MaxLen2 references to TWO globals (X and Y), up to renaming
       (the first global referenced is X)
   over the scopes of the shape x {read, write} x {declaration hoisted or not} (macro, closure). *)
EXTENDS Globals, TLC, Json, SequencesExt
CONSTANTS MaxLen, MaxLen2, Mode

Scopes(ext) == IF ext THEN {"layout", "extending", "macro", "closure", "imported", "rendered"}
               ELSE {"top", "macro", "closure", "imported", "rendered"}
\* a reference without its written value (set from the position when the sequence is built)
RefSet(ext, vars) ==
  {[sc |-> s, op |-> o, var |-> v, hoist |-> 0] : s \in Scopes(ext), o \in {"r", "w"}, v \in vars}
  \cup {[sc |-> s, op |-> o, var |-> v, hoist |-> 1] : s \in {"macro", "closure"}, o \in {"r", "w"}, v \in vars}
  \cup {[sc |-> "pkgvar", op |-> "r", var |-> "X", hoist |-> 0]}
WithVal(r, pos) == [sc |-> r.sc, op |-> r.op, var |-> r.var, hoist |-> r.hoist, v |-> IF r.op = "w" THEN 10 + pos ELSE 0]

UsesY(refs) == \E i \in 1..Len(refs) : IsGlobalRef(refs[i]) /\ refs[i].var = "Y"
\* up to renaming: Y only after X has been referenced
Canon(refs) == \A i \in 1..Len(refs) : (IsGlobalRef(refs[i]) /\ refs[i].var = "Y")
                   => \E j \in 1..(i - 1) : IsGlobalRef(refs[j]) /\ refs[j].var = "X"
Allowed(refs) == /\ Len(refs) <= MaxLen
                 /\ UsesY(refs) => (Len(refs) <= MaxLen2 /\ Canon(refs))

VARIABLE c
Init == c \in {[sup |-> s, ext |-> e, init |-> <<5, 6>>, refs |-> <<>>] : s \in {"value", "pointer"}, e \in BOOLEAN}
Next == \E r \in RefSet(c.ext, {"X", "Y"}) :
           LET refs2 == Append(c.refs, WithVal(r, Len(c.refs) + 1)) IN
           /\ Allowed(refs2)
           /\ c' = [c EXCEPT !.refs = refs2]

(* ---- design-level results (Mode = "theorems": all must hold) ---- *)
\* with both proposed fixes the mechanism IS a register for every case of the space
FixedMeetsRef == Agree(ImplRun(c, Fixed), RefRun(c))
\* the mechanism as written leaves the register semantics only in the two situations named in Globals.tla
AsWrittenDeviatesOnlyIf == ~Agree(ImplRun(c, AsWritten), RefRun(c)) => (LitFirst(c.refs) \/ (c.sup = "value" /\ CrossWrite(c.refs)))
\* each fix removes its own cause
PkgFixLeavesOnlyCross == ~Agree(ImplRun(c, OnlyPkgFixed), RefRun(c)) => (c.sup = "value" /\ CrossWrite(c.refs))
DedupFixLeavesOnlyLitFirst == ~Agree(ImplRun(c, OnlyDedupFixed), RefRun(c)) => LitFirst(c.refs)
\* the order in which the functions are emitted changes indexes but not what is observed
UnitOrderIrrelevant == \A V \in {AsWritten, Fixed} :
     LET a == ImplRunO(c, V, FALSE) b == ImplRunO(c, V, TRUE) IN
     /\ a.reads1 = b.reads1 /\ a.caller1 = b.caller1 /\ a.reads2 = b.reads2 /\ a.caller2 = b.caller2 /\ a.used = b.used
\* UsedVars of the model always reports every referenced global (also in the as-written variant)
UsedVarsReported == RefRun(c).used \subseteq ImplRun(c, AsWritten).used

(* ---- diagnostic (Mode = "aswritten"): expected to be VIOLATED; TLC's counterexample is the minimal witness ---- *)
AsWrittenMeetsRef == Agree(ImplRun(c, AsWritten), RefRun(c))
OnlyPkgFixedMeetsRef == Agree(ImplRun(c, OnlyPkgFixed), RefRun(c))

(* ---- case export (constant level; the same set the state space enumerates) ---- *)
SeqsOf(S, n) == UNION {[1..k -> S] : k \in 0..n}
RefSeqs(ext) == {s \in SeqsOf(RefSet(ext, {"X"}), MaxLen) \cup SeqsOf(RefSet(ext, {"X", "Y"}), MaxLen2) : Allowed(s)}
CaseSet == UNION {{[sup |-> sp, ext |-> e, refs |-> [i \in 1..Len(s) |-> WithVal(s[i], i)]] : s \in RefSeqs(e)} :
                    sp \in {"value", "pointer"}, e \in BOOLEAN}
Cases == LET S == SetToSeq(CaseSet) IN
         [i \in 1..Len(S) |-> [id |-> i, sup |-> S[i].sup, ext |-> S[i].ext, init |-> <<5, 6>>, refs |-> S[i].refs]]
ASSUME Mode = "theorems" => ndJsonSerialize("cases.ndjson", Cases)
=============================================================================

----------------------------- MODULE MC_Globals -----------------------------
(* Model check of the implementation-shaped model against the register semantics over every
   reference sequence of the bounded space, and export of that space as cases.ndjson.
   The space: both ways of supplying (value, pointer) x both file shapes (plain, extends) x
     - every sequence of <= MaxLen references to ONE global (X), plus the silent pkgvar reference
     - every sequence of <= MaxLenLite references to ONE global over the "lite" alphabet (no pkgvar,
       no hoisted closure: the hoisted macro already is "a function literal met first")
     - every sequence of <= MaxLen2 references to TWO globals (X and Y), up to renaming
       (the first global referenced is X); the longest length over the lite alphabet only
   over the scopes of the shape x {read, write} x {declaration hoisted or not} (macro, closure). *)
EXTENDS Globals, TLC, Json, SequencesExt
CONSTANTS MaxLen, MaxLenLite, MaxLen2, Mode

Scopes(ext) == IF ext THEN {"layout", "extending", "macro", "closure", "imported", "rendered"}
               ELSE {"top", "macro", "closure", "imported", "rendered"}
\* a reference without its written value (set from the position when the sequence is built)
RefSet(ext, vars) ==
  {[sc |-> s, op |-> o, var |-> v, hoist |-> 0] : s \in Scopes(ext), o \in {"r", "w"}, v \in vars}
  \cup {[sc |-> s, op |-> o, var |-> v, hoist |-> 1] : s \in {"macro", "closure"}, o \in {"r", "w"}, v \in vars}
  \cup {[sc |-> "pkgvar", op |-> "r", var |-> "X", hoist |-> 0]}
WithVal(r, pos) == [sc |-> r.sc, op |-> r.op, var |-> r.var, hoist |-> r.hoist, v |-> IF r.op = "w" THEN 10 + pos ELSE 0]

UsesY(refs) == \E i \in 1..Len(refs) : IsGlobalRef(refs[i]) /\ refs[i].var = "Y"
\* up to renaming: Y only after X has been referenced
Canon(refs) == \A i \in 1..Len(refs) : (IsGlobalRef(refs[i]) /\ refs[i].var = "Y")
                   => \E j \in 1..(i - 1) : IsGlobalRef(refs[j]) /\ refs[j].var = "X"
IsLiteRef(r) == r.sc # "pkgvar" /\ ~(r.sc = "closure" /\ r.hoist = 1)
IsLite(refs) == \A i \in 1..Len(refs) : IsLiteRef(refs[i])
\* (IF, not \/ : TLC would split an action on a disjunction and generate the same successor twice)
Allowed(refs) == /\ IF Len(refs) <= MaxLen THEN TRUE ELSE (Len(refs) <= MaxLenLite /\ IsLite(refs))
                 /\ IF UsesY(refs) THEN (Len(refs) <= MaxLen2 /\ Canon(refs) /\ (IF Len(refs) < MaxLen2 THEN TRUE ELSE IsLite(refs))) ELSE TRUE

VARIABLE c
Init == c \in {[sup |-> s, ext |-> e, init |-> <<5, 6>>, refs |-> <<>>] : s \in {"value", "pointer"}, e \in BOOLEAN}
Next == \E r \in RefSet(c.ext, {"X", "Y"}) :
           LET refs2 == Append(c.refs, WithVal(r, Len(c.refs) + 1)) IN
           /\ Allowed(refs2)
           /\ c' = [c EXCEPT !.refs = refs2]

(* ---- design-level results (Mode = "theorems": all must hold) ---- *)
\* with both proposed fixes the mechanism IS a register for every case of the space
ThFixedMeetsRef(f, ref) == Agree(f, ref)
\* the mechanism as written leaves the register semantics only in the two situations named in Globals.tla
ThAsWrittenDeviatesOnlyIf(w, ref) == ~Agree(w, ref) => (LitFirst(c.refs) \/ (c.sup = "value" /\ CrossWrite(c.refs)))
\* each fix removes its own cause
ThPkgFixLeavesOnlyCross(pk, ref) == ~Agree(pk, ref) => (c.sup = "value" /\ CrossWrite(c.refs))
ThDedupFixLeavesOnlyLitFirst(dd, ref) == ~Agree(dd, ref) => LitFirst(c.refs)
\* the order in which the functions are emitted changes indexes but not what is observed
SameObs(a, b) == /\ a.reads1 = b.reads1 /\ a.caller1 = b.caller1 /\ a.reads2 = b.reads2 /\ a.caller2 = b.caller2 /\ a.used = b.used
\* UsedVars of the model always reports every referenced global (also in the as-written variant)
ThUsedVarsReported(w, ref) == ref.used \subseteq w.used

FixedMeetsRef == ThFixedMeetsRef(ImplRun(c, Fixed), RefRun(c))
AsWrittenDeviatesOnlyIf == ThAsWrittenDeviatesOnlyIf(ImplRun(c, AsWritten), RefRun(c))
PkgFixLeavesOnlyCross == ThPkgFixLeavesOnlyCross(ImplRun(c, OnlyPkgFixed), RefRun(c))
DedupFixLeavesOnlyLitFirst == ThDedupFixLeavesOnlyLitFirst(ImplRun(c, OnlyDedupFixed), RefRun(c))
UnitOrderIrrelevant == \A V \in {AsWritten, Fixed} : SameObs(ImplRunO(c, V, FALSE), ImplRunO(c, V, TRUE))
UsedVarsReported == ThUsedVarsReported(ImplRun(c, AsWritten), RefRun(c))
\* The main run (whole space) checks CoreTheorems; a second run on a smaller space checks AllTheorems; each
\* model is evaluated once per state.  On a violation the check re-runs the six separately to name the one that fails.
CoreTheorems ==
  LET ref == RefRun(c) w == ImplRun(c, AsWritten) f == ImplRun(c, Fixed) IN
  ThFixedMeetsRef(f, ref) /\ ThAsWrittenDeviatesOnlyIf(w, ref) /\ ThUsedVarsReported(w, ref)
AllTheorems ==
  LET ref == RefRun(c) w == ImplRun(c, AsWritten) f == ImplRun(c, Fixed) IN
  /\ ThFixedMeetsRef(f, ref) /\ ThAsWrittenDeviatesOnlyIf(w, ref)
  /\ ThPkgFixLeavesOnlyCross(ImplRun(c, OnlyPkgFixed), ref) /\ ThDedupFixLeavesOnlyLitFirst(ImplRun(c, OnlyDedupFixed), ref)
  /\ SameObs(w, ImplRunO(c, AsWritten, TRUE)) /\ SameObs(f, ImplRunO(c, Fixed, TRUE))
  /\ ThUsedVarsReported(w, ref)

(* ---- diagnostic (Mode = "aswritten"): expected to be VIOLATED while the defects are in the tree;
        TLC's counterexample is the minimal witness ---- *)
AsWrittenMeetsRef == Agree(ImplRun(c, AsWritten), RefRun(c))
OnlyPkgFixedMeetsRef == Agree(ImplRun(c, OnlyPkgFixed), RefRun(c))

(* ---- case export: the same set the state space enumerates, built as a sequence by index decoding
        (no large sets: 10^5 cases in seconds) ---- *)
RECURSIVE Pow(_, _)
Pow(n, k) == IF k = 0 THEN 1 ELSE n * Pow(n, k - 1)
\* the j-th (0-based) sequence of length k over the alphabet A (a sequence of references)
DecodeSeq(A, k, j) == [i \in 1..k |-> WithVal(A[((j \div Pow(Len(A), i - 1)) % Len(A)) + 1], i)]
AllSeqs(A, k) == [j \in 1..Pow(Len(A), k) |-> DecodeSeq(A, k, j - 1)]
RECURSIVE SeqsBetween(_, _, _)
SeqsBetween(A, lo, hi) == IF lo > hi THEN <<>> ELSE AllSeqs(A, lo) \o SeqsBetween(A, lo + 1, hi)   \* lengths lo..hi
\* (operators with a dummy parameter: TLC evaluates zero-argument constant definitions at start-up, in every Mode)
RefSeqs(ext) == SeqsBetween(SetToSeq(RefSet(ext, {"X"})), 0, MaxLen)
                \o SeqsBetween(SetToSeq({r \in RefSet(ext, {"X"}) : IsLiteRef(r)}), MaxLen + 1, MaxLenLite)
                \o SelectSeq(SeqsBetween(SetToSeq(RefSet(ext, {"X", "Y"})), 0, MaxLen2), LAMBDA s : UsesY(s) /\ Allowed(s))
CasesOf(sp, e) == LET R == RefSeqs(e) IN [i \in 1..Len(R) |-> [sup |-> sp, ext |-> e, refs |-> R[i]]]
Flat(dummy) == CasesOf("value", FALSE) \o CasesOf("pointer", FALSE) \o CasesOf("value", TRUE) \o CasesOf("pointer", TRUE)
Cases(dummy) == LET F == Flat(dummy) IN
                [i \in 1..Len(F) |-> [id |-> i, sup |-> F[i].sup, ext |-> F[i].ext, init |-> <<5, 6>>, refs |-> F[i].refs]]
ASSUME Mode = "theorems" => ndJsonSerialize("cases.ndjson", Cases(0))
=============================================================================

----------------------------- MODULE MC_Globals -----------------------------
(* Model check of the implementation-shaped model against the register semantics over every
   reference sequence of the bounded space, and export of that space as cases.ndjson.
   The space: {int by value, int by pointer, any by pointer} x both file shapes (plain, extends) x sequences of
   references, where the longer a sequence the smaller its alphabet ("level"):
     F     everything Globals.WellFormed allows: {r, d, w} x nesting {none, literal, macro} x joined
           references x hoisting x the silent pkgvar reference                        length <= MaxLenF
     Old   {r, w}, no nesting, no joining (with pkgvar and hoisted closures)           length <= MaxLenOld
     E     {r, w}, nesting in a literal, joining (no pkgvar, no hoisted closure)       length <= MaxLenE
     Lite  {r, w}, no nesting, no joining, no pkgvar, no hoisted closure               length <= MaxLenLite
   References to TWO globals (X and Y, up to renaming: the first global referenced is X): level E up to
   length 2, level Lite above, up to MaxLen2.  Type any (pointer only: a value of static type any cannot be put in
   Run's map) only at level F, one global.  The check adds seeded random longer sequences (driver, -extra). *)
EXTENDS Globals, TLC, Json, SequencesExt
CONSTANTS MaxLenF, MaxLenOld, MaxLenE, MaxLenLite, MaxLen2, Mode

Scopes(ext) == IF ext THEN {"layout", "extending", "macro", "closure", "imported", "rendered"}
               ELSE {"top", "macro", "closure", "imported", "rendered"}
\* every reference (without its written value, set from the position) that can occur at some position
RefSet(ext, vars) ==
  {r \in [sc : Scopes(ext), op : {"r", "d", "w"}, var : vars, hoist : {0, 1}, nest : {0, 1, 2}, join : {0, 1}] :
      /\ r.sc \in {"top", "layout"} => (r.nest = 0 /\ r.join = 0 /\ r.hoist = 0)
      /\ r.sc = "closure" => (r.nest \in {0, 1} /\ r.join = 0 /\ r.op # "d")
      /\ r.sc \in {"imported", "rendered", "extending"} => r.hoist = 0
      /\ r.op = "d" => r.nest # 1}
  \cup {[sc |-> "pkgvar", op |-> "r", var |-> "X", hoist |-> 0, nest |-> 0, join |-> 0]}
WithVal(r, pos) == [sc |-> r.sc, op |-> r.op, var |-> r.var, hoist |-> r.hoist, nest |-> r.nest, join |-> r.join,
                    v |-> IF r.op = "w" THEN 10 + pos ELSE 0]

IsOldRef(r) == r.op # "d" /\ r.nest = 0 /\ r.join = 0
IsERef(r) == r.op # "d" /\ r.nest \in {0, 1} /\ ~(r.sc = "closure" /\ (r.nest = 1 \/ r.hoist = 1)) /\ r.sc # "pkgvar"
IsLiteRef(r) == IsOldRef(r) /\ r.sc # "pkgvar" /\ ~(r.sc = "closure" /\ r.hoist = 1)
All(refs, P(_)) == \A i \in 1..Len(refs) : P(refs[i])
UsesY(refs) == \E i \in 1..Len(refs) : IsGlobalRef(refs[i]) /\ refs[i].var = "Y"
\* up to renaming: Y only after X has been referenced
Canon(refs) == \A i \in 1..Len(refs) : (IsGlobalRef(refs[i]) /\ refs[i].var = "Y")
                   => \E j \in 1..(i - 1) : IsGlobalRef(refs[j]) /\ refs[j].var = "X"
\* (IF, not \/ : TLC would split an action on a disjunction and generate the same successor twice)
Allowed(typ, refs) ==
  LET n == Len(refs) IN
  IF typ = "any" THEN n <= MaxLenF /\ ~UsesY(refs)
  ELSE IF UsesY(refs) THEN Canon(refs) /\ n <= MaxLen2 /\ (IF n <= 2 THEN All(refs, IsERef) ELSE All(refs, IsLiteRef))
  ELSE IF n <= MaxLenF THEN TRUE
  ELSE IF n <= MaxLenOld /\ All(refs, IsOldRef) THEN TRUE
  ELSE IF n <= MaxLenE /\ All(refs, IsERef) THEN TRUE
  ELSE n <= MaxLenLite /\ All(refs, IsLiteRef)
\* a reference that some allowed sequence can have at position k (prunes the enumeration below)
RefAllowedAt(r, k, two) == IF two THEN (IF k <= 2 THEN IsERef(r) ELSE IsLiteRef(r))
                           ELSE k <= MaxLenF \/ (k <= MaxLenOld /\ IsOldRef(r)) \/ (k <= MaxLenE /\ IsERef(r)) \/ (k <= MaxLenLite /\ IsLiteRef(r))
MaxOf(a, b) == IF a > b THEN a ELSE b
MaxAny == MaxLenF
TypSup == {<<"int", "value">>, <<"int", "pointer">>, <<"any", "pointer">>}

VARIABLE c
Init == c \in {[typ |-> ts[1], sup |-> ts[2], ext |-> e, init |-> <<5, 6>>, refs |-> <<>>] : ts \in TypSup, e \in BOOLEAN}
\* the references that can stand at position k (a constant function: evaluated once, not at every state)
MaxK == MaxOf(MaxOf(MaxLenF, MaxLenOld), MaxOf(MaxOf(MaxLenE, MaxLenLite), MaxLen2))
NextRefs == [e \in BOOLEAN, k \in 1..(MaxK + 1) |->
               {r \in RefSet(e, {"X", "Y"}) : RefAllowedAt(r, k, FALSE) \/ (k <= MaxLen2 /\ RefAllowedAt(r, k, TRUE))}]
Next == \E r \in NextRefs[c.ext, Len(c.refs) + 1] :
           LET refs2 == Append(c.refs, WithVal(r, Len(c.refs) + 1)) IN
           /\ WellFormedRef(refs2, Len(refs2))
           /\ Allowed(c.typ, refs2)
           /\ c' = [c EXCEPT !.refs = refs2]

(* ---- design-level results (Mode = "theorems": all must hold) ---- *)
\* with both proposed fixes the mechanism IS a register for every case of the space
ThFixedMeetsRef(f, ref) == Agree(f, ref)
\* the mechanism as written leaves the register semantics only in the two situations named in Globals.tla
ThAsWrittenDeviatesOnlyIf(w, ref) == ~Agree(w, ref) => (LitFirst(c.refs) \/ (c.sup = "value" /\ CrossWrite(c.refs)))
\* each fix removes its own cause
ThPkgFixLeavesOnlyCross(pk, ref) == ~Agree(pk, ref) => (c.sup = "value" /\ CrossWrite(c.refs))
ThDedupFixLeavesOnlyLitFirst(dd, ref) == ~Agree(dd, ref) => LitFirst(c.refs)
\* the order in which the functions are emitted changes indexes but not what is observed
SameObs(a, b) == /\ a.reads1 = b.reads1 /\ a.caller1 = b.caller1 /\ a.reads2 = b.reads2 /\ a.caller2 = b.caller2 /\ a.used = b.used
\* UsedVars of the model always reports every referenced global (also in the as-written variant)
ThUsedVarsReported(w, ref) == ref.used \subseteq w.used

FixedMeetsRef == ThFixedMeetsRef(ImplRun(c, Fixed), RefRun(c))
UsedVarsReportedFixed == ThUsedVarsReported(ImplRun(c, Fixed), RefRun(c))
AsWrittenDeviatesOnlyIf == ThAsWrittenDeviatesOnlyIf(ImplRun(c, AsWritten), RefRun(c))
PkgFixLeavesOnlyCross == ThPkgFixLeavesOnlyCross(ImplRun(c, OnlyPkgFixed), RefRun(c))
DedupFixLeavesOnlyLitFirst == ThDedupFixLeavesOnlyLitFirst(ImplRun(c, OnlyDedupFixed), RefRun(c))
UnitOrderIrrelevant == \A V \in {AsWritten, Fixed} : SameObs(ImplRunO(c, V, FALSE), ImplRunO(c, V, TRUE))
UsedVarsReported == ThUsedVarsReported(ImplRun(c, AsWritten), RefRun(c))
\* The main run (whole space) checks CoreTheorems; a second run on a smaller space checks AllTheorems; each
\* model is evaluated once per state.  On a violation the check re-runs the six separately to name the one that fails.
CoreTheorems ==
  LET ref == RefRun(c) f == ImplRun(c, Fixed) IN
  ThFixedMeetsRef(f, ref) /\ ThUsedVarsReported(f, ref)
AllTheorems ==
  LET ref == RefRun(c) w == ImplRun(c, AsWritten) f == ImplRun(c, Fixed) IN
  /\ ThFixedMeetsRef(f, ref) /\ ThAsWrittenDeviatesOnlyIf(w, ref)
  /\ ThPkgFixLeavesOnlyCross(ImplRun(c, OnlyPkgFixed), ref) /\ ThDedupFixLeavesOnlyLitFirst(ImplRun(c, OnlyDedupFixed), ref)
  /\ SameObs(w, ImplRunO(c, AsWritten, TRUE)) /\ SameObs(f, ImplRunO(c, Fixed, TRUE))
  /\ ThUsedVarsReported(w, ref)

(* ---- diagnostic (Mode = "aswritten"): expected to be VIOLATED while the defects are in the tree;
        TLC's counterexample is the minimal witness ---- *)
AsWrittenMeetsRef == Agree(ImplRun(c, AsWritten), RefRun(c))
OnlyPkgFixedMeetsRef == Agree(ImplRun(c, OnlyPkgFixed), RefRun(c))

(* ---- case export: the same set the state space enumerates, built as a sequence by index decoding
        (no large sets: 10^5 cases in seconds) ---- *)
RECURSIVE Pow(_, _)
Pow(n, k) == IF k = 0 THEN 1 ELSE n * Pow(n, k - 1)
\* the j-th (0-based) sequence of length k over the alphabet A (a sequence of references)
DecodeSeq(A, k, j) == [i \in 1..k |-> WithVal(A[((j \div Pow(Len(A), i - 1)) % Len(A)) + 1], i)]
AllSeqs(A, k) == [j \in 1..Pow(Len(A), k) |-> DecodeSeq(A, k, j - 1)]
\* all well-formed allowed sequences of length k over the references usable at length k (enumerated by index
\* decoding over a sequence alphabet, then filtered)
SeqsOfLen(typ, ext, vars, k) ==
  LET A == SetToSeq({r \in RefSet(ext, vars) : RefAllowedAt(r, k, vars # {"X"})}) IN
  SelectSeq(AllSeqs(A, k), LAMBDA s : WellFormed(ext, s) /\ Allowed(typ, s) /\ (vars = {"X"} \/ UsesY(s)))
RECURSIVE SeqsUpTo2(_, _, _, _, _)
SeqsUpTo2(typ, ext, vars, k, hi) == IF k > hi THEN <<>> ELSE SeqsOfLen(typ, ext, vars, k) \o SeqsUpTo2(typ, ext, vars, k + 1, hi)
MaxOne == MaxOf(MaxOf(MaxLenF, MaxLenOld), MaxOf(MaxLenE, MaxLenLite))
RefSeqs(typ, ext) == IF typ = "any" THEN SeqsUpTo2(typ, ext, {"X"}, 0, MaxAny)
                     ELSE SeqsUpTo2(typ, ext, {"X"}, 0, MaxOne) \o SeqsUpTo2(typ, ext, {"X", "Y"}, 2, MaxLen2)
Mk(typ, sp, e, R) == [i \in 1..Len(R) |-> [typ |-> typ, sup |-> sp, ext |-> e, refs |-> R[i]]]
CasesOfShape(e) == LET R == RefSeqs("int", e) IN
                   Mk("int", "value", e, R) \o Mk("int", "pointer", e, R) \o Mk("any", "pointer", e, RefSeqs("any", e))
\* (operators with a dummy parameter: TLC evaluates zero-argument constant definitions at start-up, in every Mode)
Flat(dummy) == CasesOfShape(FALSE) \o CasesOfShape(TRUE)
Cases(dummy) == LET F == Flat(dummy) IN
                [i \in 1..Len(F) |-> [id |-> i, typ |-> F[i].typ, sup |-> F[i].sup, ext |-> F[i].ext, init |-> <<5, 6>>, refs |-> F[i].refs]]
ASSUME Mode = "theorems" => ndJsonSerialize("cases.ndjson", Cases(0))
=============================================================================

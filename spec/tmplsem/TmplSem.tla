------------------------------- MODULE TmplSem -------------------------------
(* X01 (beyond the listed properties).  "MiniTmpl": a reference semantics of the CONTROL CONSTRUCTS of the
   Scriggo template language, as a deterministic big-step interpreter (pure recursive operators, one per
   syntactic category - the style of gosem/MiniGo.tla), plus the printer that writes a tree as template source.

   PART 1  abstract syntax (records tagged by  e  for expressions and  k  for template nodes)
   PART 2  values, heap, environments
   PART 3  the interpreter:  TmRun(tree, globals, mode) = [outcome, out]
   PART 4  the printer:      TmSrc(tree) = source bytes

   What is the truth.  Constructs that the template language shares with Go (if / for / range / switch with
   fallthrough / break / continue / var, := and assignments / closures capturing variables by reference /
   operand evaluation and short circuit / run-time faults of index and division) follow the Go specification
   (go >= 1.22: every iteration of a loop has its own copy of the loop variables).  Template-only constructs
   follow Scriggo's documentation comments and its own tests (test/misc/multi_file_template_test.go,
   test/compare/testdata/templates):
     {{ e }} / {% show e1, e2 %}  the values are rendered one after the other (.txt: decimal ints, true / false,
                                  strings as they are);
     {% if e %}                   e may have any type; the zero value ("" / 0 / false / an empty or nil slice) is false;
     a and b / a or b / not a     operate on the truth of operands of any type, yield a bool, and / or evaluate
                                  the right operand only when the left one does not decide;
     {% for v in s %} / range     with {% else %}: the else body is rendered iff the collection has no element
                                  (a break in the first iteration does not render it); for v in <map> iterates over the KEYS;
     {# ... #} / {% raw %}t{% end %} a comment renders nothing, a raw statement renders its content as it is;
     import / extends / render     are given by translation to one file (TmEquiv below);
     {% macro M(p T) %}B{% end %} declares in the current block a function M whose call renders B into a value of
                                  the file's format type (.txt: string); B sees the variables of the enclosing
                                  blocks by reference; {{ M(a) }} / {% show M(a) %} render that value, {% M(a) %}
                                  evaluates the call and discards the value (an expression statement);
     x default e                  x an identifier that is not declared in the template: the value of the global x if
                                  the host declared one, otherwise e (then e is evaluated); only as the whole operand of
                                  show, or the whole right side of var / assignment;
     {% S; using %}B{% end %}     B is rendered ONCE, before S, into a value of the format type (or the type written
                                  after `using`); `itea` in S denotes that value; declarations of S belong to the
                                  enclosing block; when `itea` occurs in S only where S never evaluates it (the right
                                  side of a default whose left side is defined) B is not rendered at all;
     {% S; using macro(p T) %}    `itea` in S denotes a macro with body B (and parameters p): B is rendered at each
                                  call, with the variables as they are at that moment.
   Text is ASCII letters only and nothing is emitted between the tags, so neither the white-space cut rules (C15)
   nor the context-dependent escaping (C06/C07) take part; the trees are valid in .txt and (those marked) in .html. *)
EXTENDS Integers, Sequences, FiniteSets, TmplText, Utf8

(* =====================================================================================
   PART 1 - abstract syntax
   ===================================================================================== *)
\* expressions
XI(n) == [e |-> "int", n |-> n]
XS(s) == [e |-> "str", s |-> s]                                  \* s: bytes (letters)
XB(b) == [e |-> "bool", b |-> b]
XSl(et, xs) == [e |-> "slice", et |-> et, xs |-> xs]             \* []int{...} / []string{...}: et = "int" / "string"
XV(v) == [e |-> "var", v |-> v]                                  \* a variable, a macro name, or itea
XBin(op, a, b) == [e |-> "bin", op |-> op, a |-> a, b |-> b]     \* + - * / % on ints, + on strings
XCmp(op, a, b) == [e |-> "cmp", op |-> op, a |-> a, b |-> b]     \* == != < <= > >= on ints and strings
XAnd(a, b) == [e |-> "and", a |-> a, b |-> b, go |-> FALSE]      \* go: written && / || / ! (bool operands only)
XOr(a, b) == [e |-> "or", a |-> a, b |-> b, go |-> FALSE]
XNot(a) == [e |-> "not", a |-> a, go |-> FALSE]
XLen(a) == [e |-> "len", a |-> a]
XIdx(a, i) == [e |-> "idx", a |-> a, i |-> i]
XCall(f, args) == [e |-> "call", f |-> f, args |-> args]         \* f: name of a macro / macro-valued variable / itea
XCallSp(f, args) == [e |-> "call", f |-> f, args |-> args, sp |-> TRUE]   \* f(a, s...): the last argument is spread over a variadic parameter
XDef(v, d) == [e |-> "default", v |-> v, d |-> d]
XMap(ps) == [e |-> "map", ps |-> ps]                             \* map[string]int{"k": v, ...}: ps = <<[k |-> bytes, v |-> int]>>
\* template nodes.  ek: the end tag is written with its keyword ({% end if %}); bodies are sequences of nodes
NText(s) == [k |-> "text", s |-> s]
NShow(xs, br) == [k |-> "show", xs |-> xs, br |-> br]            \* br: {{ x }} (one operand) instead of {% show x %}
NVar(v, x, short) == [k |-> "var", v |-> v, x |-> x, short |-> short]          \* {% var v = x %} / {% v := x %}
NAssign(v, op, x) == [k |-> "assign", v |-> v, op |-> op, x |-> x]           \* op: = += -= ++ --
NExpr(x) == [k |-> "expr", x |-> x]                              \* {% M(a) %}
NComment(s) == [k |-> "comment", s |-> s]                       \* {# s #}: renders nothing
NRaw(s, ek) == [k |-> "raw", s |-> s, ek |-> ek]                 \* {% raw %}s{% end raw %}: renders s as it is
NBlock(ss) == [k |-> "block", ss |-> ss]                         \* {%% s1; s2 %%}: simple statements (show, var, assignment, call) in one tag
NBreak == [k |-> "break"]
NContinue == [k |-> "continue"]
\* init: <<>> or <<simple statement>>; els: <<>> = no else; elif: els is <<an if node>> written {% else if ... %}
NIf(init, c, a, els, elif, ek) == [k |-> "if", init |-> init, c |-> c, a |-> a, els |-> els, elif |-> elif, ek |-> ek]
NFor3(v, from, c, post, body, ek) == [k |-> "for3", v |-> v, from |-> from, c |-> c, post |-> post, body |-> body, ek |-> ek]
NWhile(c, body, ek) == [k |-> "while", c |-> c, body |-> body, ek |-> ek]       \* {% for c %}body{% end %}
NForever(body, ek) == [k |-> "forever", body |-> body, ek |-> ek]               \* {% for %}body{% end %}: left by a break
NSelect(body, ek) == [k |-> "select", body |-> body, ek |-> ek]                 \* {% select %}{% default %}body{% end %}
\* iv / vv: "" = absent, "_" = blank:  for range x | for i := range x | for i, v := range x | for _, v := range x
NRange(iv, vv, x, body, els, ek) == [k |-> "range", iv |-> iv, vv |-> vv, x |-> x, body |-> body, els |-> els, ek |-> ek]
NForIn(v, x, body, els, ek) == [k |-> "forin", v |-> v, x |-> x, body |-> body, els |-> els, ek |-> ek]
\* tag: <<>> = no tag (the clauses' values are conditions); clause = [def, vals, body, ft]
NSwitch(init, tag, cls, ek) == [k |-> "switch", init |-> init, tag |-> tag, cls |-> cls, ek |-> ek]
NClause(def, vals, body, ft) == [def |-> def, vals |-> vals, body |-> body, ft |-> ft]
\* ps: <<[n |-> name, t |-> "string" / "int"]>>; paren: () written when there is no parameter; rt: "" or a result type
NMacro(name, ps, paren, rt, body, ek) == [k |-> "macro", name |-> name, ps |-> ps, paren |-> paren, rt |-> rt, body |-> body, ek |-> ek]
\* stmt: the show / var / assign / expr node that mentions itea; mac: using macro; typ: "" or the type written after using
NUsing(stmt, mac, ps, paren, typ, body, ek) ==
  [k |-> "using", stmt |-> stmt, mac |-> mac, ps |-> ps, paren |-> paren, typ |-> typ, body |-> body, ek |-> ek]
TmParam(n, t) == [n |-> n, t |-> t]
\* the prelude that precedes every generated tree: variables of every type and three macros -
\* M reads n (by reference), P has a parameter, K changes n (a side effect that shows whether a call was evaluated);
\* W is variadic;
\* c is the counter that bounds the generated {% for cond %} / {% for %} loops (they increment it first thing in their body)
TmPrelude(id) ==
  IF id = "P1"
  THEN <<NVar("n", XI(1), FALSE), NVar("s", XS(<<107>>), FALSE), NVar("b", XB(TRUE), FALSE), NVar("c", XI(0), FALSE),
         NVar("l", XSl("int", <<XI(3), XI(4)>>), FALSE), NVar("q", XSl("string", <<XS(<<120>>), XS(<<121>>)>>), FALSE),
         NMacro("M", <<>>, FALSE, "", <<NText(<<109>>), NShow(<<XV("n")>>, TRUE)>>, FALSE),
         NMacro("P", <<TmParam("p", "string")>>, FALSE, "", <<NText(<<112>>), NShow(<<XV("p")>>, TRUE), NText(<<113>>)>>, FALSE),
         NMacro("K", <<>>, FALSE, "", <<NAssign("n", "=", XBin("+", XV("n"), XI(1))), NText(<<107>>)>>, TRUE),
         NMacro("W", <<TmParam("xs", "...int")>>, FALSE, "", <<NText(<<119>>), NShow(<<XLen(XV("xs"))>>, TRUE),
                                                                  NForIn("v", XV("xs"), <<NShow(<<XV("v")>>, TRUE)>>, <<>>, FALSE)>>, FALSE)>>
  ELSE <<>>
\* ... and the epilogue that follows it: the variables that the tree may have changed are shown
TmEpilogue(id) == IF id = "P1" THEN <<NShow(<<XV("n"), XV("s"), XV("b")>>, FALSE)>> ELSE <<>>
TmWhole(id, tree) == TmPrelude(id) \o tree \o TmEpilogue(id)

(* Layouts: how a case is spread over files, and the ONE-FILE tree it is equivalent to (the reference semantics of import,
   extends and render, after Scriggo's documentation comments and tests: an imported file contributes its exported declarations;
   an extending file contributes its declarations to the extended file, which is what is rendered, and `M() default e` there is
   M() if the extending file declares M, else e; {{ render "p" }} renders p on its own - a call of a macro without parameters whose
   body is the file - and `render "q" default e` is e when q does not exist).  W = prelude tree epilogue, D = the prelude:
     single       index:  W
     import       index:  {% import "f" %}x{{ Main() }}{{ V }}         f:  D {% var V = 7 %}{% macro Main %}tree epilogue{% end %}
     importas     index:  {% import m "f" %}x{{ m.Main() }}{{ m.V }}   f:  the same
     extends      index:  {% extends "l" %} D {% macro Body %}tree epilogue{% end %}
                  l:      x{{ Body() }}y{{ Side() default "d" }}{{ Und(1, "a") default "e" }}
     extendsside  the same with {% macro Side %}s{% end %} at the end of index
     render       index:  a{{ render "p" }}b{{ render "p" }}{{ render "q" default "d" }}      p:  W        (q does not exist)
     import3      index:  {% import "a" %}x{{ Top() }}     a:  {% import "f" %}{% macro Top %}t{{ Main() }}{{ V }}{% end %}     f as above
     extimport    index:  {% extends "l2" %}{% import "f" %}{% macro Body %}b{{ Main() }}{% end %}     l2:  x{{ Body() }}y     f as above
     extparam     index:  {% extends "l3" %} D {% macro Body(k int, p string) %}tree epilogue{{ k }}{{ p }}{% end %}
                  l3:     x{{ Body(4, "z") }}y{{ Body(5, "w") default "d" }}
     renderin     index:  {% for i := 0; i < 2; i++ %}{{ render "p" }}{% end %}{% macro M %}m{{ render "p" }}{% end %}{{ M() }}
                          {% show itea; using %}u{{ render "p" }}{% end %}{% switch 1 %}{% case 1 %}{{ render "p" }}{% end %}      p:  W *)
TmLayouts == {"single", "import", "importas", "extends", "extendsside", "render", "import3", "extimport", "extparam", "renderin"}
TmCallShow(f) == NShow(<<XCall(f, <<>>)>>, TRUE)
TmEquiv(lay, id, tree) ==
  LET D == TmPrelude(id)  body == tree \o TmEpilogue(id) IN
  CASE lay = "single" -> D \o body
    [] lay \in {"import", "importas"} ->
         D \o <<NVar("V", XI(7), FALSE), NMacro("Main", <<>>, FALSE, "", body, FALSE), NText(<<120>>), TmCallShow("Main"), NShow(<<XV("V")>>, TRUE)>>
    [] lay \in {"extends", "extendsside"} ->
         D \o <<NMacro("Body", <<>>, FALSE, "", body, FALSE)>>
           \o (IF lay = "extendsside" THEN <<NMacro("Side", <<>>, FALSE, "", <<NText(<<115>>)>>, FALSE)>> ELSE <<>>)
           \o <<NText(<<120>>), TmCallShow("Body"), NText(<<121>>), IF lay = "extendsside" THEN TmCallShow("Side") ELSE NText(<<100>>), NText(<<101>>)>>
    [] lay = "render" ->
         <<NMacro("R", <<>>, FALSE, "", D \o body, FALSE), NText(<<97>>), TmCallShow("R"), NText(<<98>>), TmCallShow("R"), NText(<<100>>)>>
    [] lay = "import3" ->
         D \o <<NVar("V", XI(7), FALSE), NMacro("Main", <<>>, FALSE, "", body, FALSE),
                NMacro("Top", <<>>, FALSE, "", <<NText(<<116>>), TmCallShow("Main"), NShow(<<XV("V")>>, TRUE)>>, FALSE), NText(<<120>>), TmCallShow("Top")>>
    [] lay = "extimport" ->
         D \o <<NVar("V", XI(7), FALSE), NMacro("Main", <<>>, FALSE, "", body, FALSE),
                NMacro("Body", <<>>, FALSE, "", <<NText(<<98>>), TmCallShow("Main")>>, FALSE), NText(<<120>>), TmCallShow("Body"), NText(<<121>>)>>
    [] lay = "extparam" ->
         D \o <<NMacro("Body", <<TmParam("k", "int"), TmParam("p", "string")>>, FALSE, "", body \o <<NShow(<<XV("k")>>, TRUE), NShow(<<XV("p")>>, TRUE)>>, FALSE),
                NText(<<120>>), NShow(<<XCall("Body", <<XI(4), XS(<<122>>)>>)>>, TRUE), NText(<<121>>), NShow(<<XCall("Body", <<XI(5), XS(<<119>>)>>)>>, TRUE)>>
    [] lay = "renderin" ->
         <<NMacro("R", <<>>, FALSE, "", D \o body, FALSE),
           NFor3("i", XI(0), XCmp("<", XV("i"), XI(2)), NAssign("i", "++", XI(0)), <<TmCallShow("R")>>, FALSE),
           NMacro("M", <<>>, FALSE, "", <<NText(<<109>>), TmCallShow("R")>>, FALSE), TmCallShow("M"),
           NUsing(NShow(<<XV("itea")>>, FALSE), FALSE, <<>>, FALSE, "", <<NText(<<117>>), TmCallShow("R")>>, FALSE),
           NSwitch(<<>>, <<XI(1)>>, <<NClause(FALSE, <<XI(1)>>, <<TmCallShow("R")>>, FALSE)>>, FALSE)>>

(* =====================================================================================
   PART 2 - values, heap, environments
   ===================================================================================== *)
VInt(n) == [t |-> "int", n |-> n]
VStr(s) == [t |-> "str", s |-> s]
VBool(b) == [t |-> "bool", b |-> b]
VSlice(a) == [t |-> "slice", a |-> a]                             \* a: sequence of values
VMap(ps) == [t |-> "map", ps |-> ps]                              \* ps: sequence of <<key value, value>>
VMacro(ps, body, env) == [t |-> "macro", ps |-> ps, body |-> body, env |-> env]
\* Scriggo's truth of a value in a condition
TmTruthy(v) == CASE v.t = "int" -> v.n # 0 [] v.t = "str" -> v.s # <<>> [] v.t = "bool" -> v.b
                 [] v.t = "slice" -> v.a # <<>> [] v.t = "map" -> v.ps # <<>> [] OTHER -> TRUE     \* a macro value is never nil here

RECURSIVE TmDigits(_)
TmDigits(n) == IF n < 10 THEN <<48 + n>> ELSE TmDigits(n \div 10) \o <<48 + (n % 10)>>
TmDec(n) == IF n < 0 THEN <<45>> \o TmDigits(0 - n) ELSE TmDigits(n)
TmShowable(v) == v.t \in {"int", "str", "bool"}
TmRender(v) == CASE v.t = "int" -> TmDec(v.n) [] v.t = "str" -> v.s [] v.t = "bool" -> (IF v.b THEN TtS("true") ELSE TtS("false"))

\* Go's integer operators (the generated values stay far from overflow)
TmQuo(a, b) == IF (a >= 0) = (b > 0) THEN (IF a >= 0 THEN a ELSE 0 - a) \div (IF b > 0 THEN b ELSE 0 - b)
               ELSE 0 - ((IF a >= 0 THEN a ELSE 0 - a) \div (IF b > 0 THEN b ELSE 0 - b))           \* truncated towards zero
TmArith(op, a, b) == CASE op = "+" -> a + b [] op = "-" -> a - b [] op = "*" -> a * b
                       [] op = "/" -> TmQuo(a, b) [] op = "%" -> a - (b * TmQuo(a, b))
RECURSIVE TmStrLess(_, _, _)
TmStrLess(a, b, i) == IF i > Len(b) THEN FALSE ELSE IF i > Len(a) THEN TRUE
                      ELSE IF a[i] # b[i] THEN a[i] < b[i] ELSE TmStrLess(a, b, i + 1)
TmLess(x, y) == IF x.t = "int" THEN x.n < y.n ELSE TmStrLess(x.s, y.s, 1)
TmCompare(op, x, y) == CASE op = "==" -> x = y [] op = "!=" -> x # y [] op = "<" -> TmLess(x, y) [] op = ">" -> TmLess(y, x)
                         [] op = "<=" -> ~TmLess(y, x) [] op = ">=" -> ~TmLess(x, y)

\* environments map every name of the (fixed) universe to a heap cell, 0 = not declared
TmNames == TtNames
TmEnv0 == [x \in TmNames |-> 0]
\* globals declared by the host: a sequence of [n |-> name, t |-> "str" / "int", s |-> bytes, i |-> int]
TmGlobalIdx(glob, name) == LET hits == {j \in 1..Len(glob) : glob[j].n = name} IN IF hits = {} THEN 0 ELSE CHOOSE j \in hits : TRUE
TmGlobalVal(g) == IF g.t = "str" THEN VStr(g.s) ELSE VInt(g.i)

TmMaxStr == 400
TmMaxOut == 4000
\* results.  err: "" | "run" (a run-time error of the template) | "fuel" / "undef" (outside the reference's domain)
ER(v, st) == [v |-> v, st |-> st, err |-> ""]
EE(kind, st) == [v |-> VBool(FALSE), st |-> st, err |-> kind]
SR(sig, env, st) == [sig |-> sig, env |-> env, st |-> st]        \* sig: next | break | continue | run | fuel | undef
TmIsErr(sig) == sig \in {"run", "fuel", "undef"}
TmAlloc(st, v) == [st EXCEPT !.heap = Append(@, v)]              \* the new cell is Len(heap)
TmBurn(st) == [st EXCEPT !.fuel = @ - 1]

\* does `itea` occur in x where the statement may evaluate it?  (not in the right side of a default whose left side
\* is a declared global: that side is type checked only)
RECURSIVE TmIteaLive(_, _), TmIteaLiveAny(_, _, _)
TmIteaLive(x, glob) ==
  CASE x.e = "var" -> x.v = "itea"
    [] x.e = "call" -> x.f = "itea" \/ TmIteaLiveAny(x.args, 1, glob)
    [] x.e \in {"bin", "cmp", "and", "or"} -> TmIteaLive(x.a, glob) \/ TmIteaLive(x.b, glob)
    [] x.e \in {"not", "len"} -> TmIteaLive(x.a, glob)
    [] x.e = "idx" -> TmIteaLive(x.a, glob) \/ TmIteaLive(x.i, glob)
    [] x.e = "default" -> TmGlobalIdx(glob, x.v) = 0 /\ TmIteaLive(x.d, glob)
    [] x.e = "slice" -> TmIteaLiveAny(x.xs, 1, glob)
    [] OTHER -> FALSE
TmIteaLiveAny(xs, i, glob) == i <= Len(xs) /\ (TmIteaLive(xs[i], glob) \/ TmIteaLiveAny(xs, i + 1, glob))
TmStmtIteaLive(s, glob) == CASE s.k = "show" -> TmIteaLiveAny(s.xs, 1, glob)
                             [] s.k \in {"var", "assign", "expr"} -> TmIteaLive(s.x, glob)
                             [] OTHER -> FALSE

(* =====================================================================================
   PART 3 - the interpreter
   st = [heap, out, glob, fuel, mode]: out is the buffer that the code being run renders into (the document, or the
   value of the macro / using body being evaluated); mode = "periter" (Go >= 1.22) or "shared" (one loop variable for
   all iterations: the pre-1.22 reading, computed only to NAME that root cause in a mismatch).
   ===================================================================================== *)
\* what a range statement iterates over: <<first value, second value>> per iteration.  slice: index, element; string: byte
\* index of the rune, rune (UTF-8 decoding, lib/Utf8.tla); map: key, value (the generated maps have at most one key: no order)
RECURSIVE TmStrItems(_, _)
TmStrItems(str, i) == IF i > Len(str) THEN <<>> ELSE LET d == DecodeRune(str, i) IN <<<<VInt(i - 1), VInt(d[1])>>>> \o TmStrItems(str, i + d[2])
TmItems(v) == CASE v.t = "slice" -> [j \in 1..Len(v.a) |-> <<VInt(j - 1), v.a[j]>>] [] v.t = "str" -> TmStrItems(v.s, 1) [] v.t = "map" -> v.ps
\* {% for v in x %}: v is the element / the rune / the KEY of a map (Scriggo: checker_statements.go case *ast.ForIn)
TmForInItems(v) == LET it == TmItems(v) IN [j \in 1..Len(it) |-> <<it[j][1], IF v.t = "map" THEN it[j][1] ELSE it[j][2]>>]
RECURSIVE TmEval(_, _, _), TmEvalList(_, _, _, _, _), TmCallClo(_, _, _), TmExecBody(_, _, _, _), TmExec(_, _, _),
          TmFor3Iter(_, _, _), TmWhileIter(_, _, _), TmRangeIter(_, _, _, _, _, _), TmMatch(_, _, _, _, _, _), TmSwitchRun(_, _, _, _), TmShowAll(_, _, _, _)

RECURSIVE TmBind(_, _, _, _)
TmBind(env, ps, j, n0) == IF j > Len(ps) THEN env ELSE TmBind([env EXCEPT ![ps[j].n] = n0 + j], ps, j + 1, n0)
\* call the closure clo with the argument values args: the body renders into a fresh buffer whose content is the result
TmCallClo(clo, args, st) ==
  IF clo.t # "macro" \/ Len(args) # Len(clo.ps) THEN EE("undef", st)
  ELSE IF st.fuel <= 0 THEN EE("fuel", st)
  ELSE LET st1 == [st EXCEPT !.heap = @ \o args, !.out = <<>>, !.fuel = @ - 1]
           env1 == TmBind(clo.env, clo.ps, 1, Len(st.heap))             \* parameter j lives in the new cell Len(heap) + j
           rb == TmExecBody(clo.body, 1, env1, st1) IN
       IF TmIsErr(rb.sig) THEN EE(rb.sig, rb.st)
       ELSE IF rb.sig # "next" THEN EE("undef", rb.st)             \* a break / continue cannot leave a macro body
       ELSE ER(VStr(rb.st.out), [rb.st EXCEPT !.out = st.out])

TmEval(x, env, st) ==
  CASE x.e = "int" -> ER(VInt(x.n), st)
    [] x.e = "str" -> ER(VStr(x.s), st)
    [] x.e = "bool" -> ER(VBool(x.b), st)
    [] x.e = "slice" -> LET r == TmEvalList(x.xs, 1, env, st, <<>>) IN IF r.err # "" THEN r ELSE ER(VSlice(r.v), r.st)
    [] x.e = "map" -> ER(VMap([j \in 1..Len(x.ps) |-> <<VStr(x.ps[j].k), VInt(x.ps[j].v)>>]), st)
    [] x.e = "var" -> IF x.v \notin TmNames \/ env[x.v] = 0 THEN EE("undef", st) ELSE ER(st.heap[env[x.v]], st)
    [] x.e = "bin" ->
         LET ra == TmEval(x.a, env, st) IN IF ra.err # "" THEN ra ELSE
         LET rb == TmEval(x.b, env, ra.st) IN IF rb.err # "" THEN rb ELSE
         IF ra.v.t = "str" /\ rb.v.t = "str" /\ x.op = "+"
         THEN (IF Len(ra.v.s) + Len(rb.v.s) > TmMaxStr THEN EE("fuel", rb.st) ELSE ER(VStr(ra.v.s \o rb.v.s), rb.st))
         ELSE IF ra.v.t # "int" \/ rb.v.t # "int" THEN EE("undef", rb.st)
         ELSE IF x.op \in {"/", "%"} /\ rb.v.n = 0 THEN EE("run", rb.st)              \* integer divide by zero
         ELSE ER(VInt(TmArith(x.op, ra.v.n, rb.v.n)), rb.st)
    [] x.e = "cmp" ->
         LET ra == TmEval(x.a, env, st) IN IF ra.err # "" THEN ra ELSE
         LET rb == TmEval(x.b, env, ra.st) IN IF rb.err # "" THEN rb ELSE
         IF ra.v.t # rb.v.t \/ ra.v.t \notin {"int", "str", "bool"} \/ (ra.v.t = "bool" /\ x.op \notin {"==", "!="}) THEN EE("undef", rb.st)
         ELSE ER(VBool(TmCompare(x.op, ra.v, rb.v)), rb.st)
    [] x.e = "and" -> LET ra == TmEval(x.a, env, st) IN IF ra.err # "" THEN ra
                      ELSE IF ~TmTruthy(ra.v) THEN ER(VBool(FALSE), ra.st)
                      ELSE LET rb == TmEval(x.b, env, ra.st) IN IF rb.err # "" THEN rb ELSE ER(VBool(TmTruthy(rb.v)), rb.st)
    [] x.e = "or" -> LET ra == TmEval(x.a, env, st) IN IF ra.err # "" THEN ra
                     ELSE IF TmTruthy(ra.v) THEN ER(VBool(TRUE), ra.st)
                     ELSE LET rb == TmEval(x.b, env, ra.st) IN IF rb.err # "" THEN rb ELSE ER(VBool(TmTruthy(rb.v)), rb.st)
    [] x.e = "not" -> LET ra == TmEval(x.a, env, st) IN IF ra.err # "" THEN ra ELSE ER(VBool(~TmTruthy(ra.v)), ra.st)
    [] x.e = "len" -> LET ra == TmEval(x.a, env, st) IN IF ra.err # "" THEN ra
                      ELSE IF ra.v.t = "str" THEN ER(VInt(Len(ra.v.s)), ra.st)
                      ELSE IF ra.v.t = "slice" THEN ER(VInt(Len(ra.v.a)), ra.st)
                      ELSE IF ra.v.t = "map" THEN ER(VInt(Len(ra.v.ps)), ra.st) ELSE EE("undef", ra.st)
    [] x.e = "idx" ->
         LET ra == TmEval(x.a, env, st) IN IF ra.err # "" THEN ra ELSE
         LET ri == TmEval(x.i, env, ra.st) IN IF ri.err # "" THEN ri ELSE
         IF ra.v.t # "slice" \/ ri.v.t # "int" THEN EE("undef", ri.st)
         ELSE IF ri.v.n < 0 \/ ri.v.n >= Len(ra.v.a) THEN EE("run", ri.st)            \* index out of range
         ELSE ER(ra.v.a[ri.v.n + 1], ri.st)
    [] x.e = "call" ->                                  \* the function value, then the arguments left to right, then the call
         IF x.f \notin TmNames \/ env[x.f] = 0 THEN EE("undef", st) ELSE
         LET clo == st.heap[env[x.f]]
             rl == TmEvalList(x.args, 1, env, st, <<>>) IN
         IF rl.err # "" THEN rl
         ELSE IF clo.t = "macro" /\ clo.ps # <<>> /\ clo.ps[Len(clo.ps)].t = "...int" /\ ~("sp" \in DOMAIN x)
              THEN LET np == Len(clo.ps) IN                          \* the arguments from the variadic parameter on become its slice
                   IF Len(rl.v) < np - 1 THEN EE("undef", rl.st)
                   ELSE TmCallClo(clo, SubSeq(rl.v, 1, np - 1) \o <<VSlice(SubSeq(rl.v, np, Len(rl.v)))>>, rl.st)
         ELSE TmCallClo(clo, rl.v, rl.st)
    [] x.e = "default" ->
         LET g == TmGlobalIdx(st.glob, x.v) IN
         IF x.v \in TmNames /\ env[x.v] # 0 THEN EE("undef", st)                      \* a declared local on the left side is not valid
         ELSE IF g # 0 THEN ER(TmGlobalVal(st.glob[g]), st) ELSE TmEval(x.d, env, st)
    [] OTHER -> EE("undef", st)

TmEvalList(xs, i, env, st, acc) ==
  IF i > Len(xs) THEN ER(acc, st)
  ELSE LET r == TmEval(xs[i], env, st) IN IF r.err # "" THEN r ELSE TmEvalList(xs, i + 1, env, r.st, Append(acc, r.v))

\* {% show x1, x2 %}: each operand is evaluated and rendered in turn
TmShowAll(xs, i, env, st) ==
  IF i > Len(xs) THEN SR("next", env, st)
  ELSE LET r == TmEval(xs[i], env, st) IN
       IF r.err # "" THEN SR(r.err, env, r.st)
       ELSE IF ~TmShowable(r.v) THEN SR("undef", env, r.st)
       ELSE IF Len(r.st.out) > TmMaxOut THEN SR("fuel", env, r.st)
       ELSE TmShowAll(xs, i + 1, env, [r.st EXCEPT !.out = @ \o TmRender(r.v)])

TmExecBody(b, i, env, st) ==
  IF i > Len(b) THEN SR("next", env, st)
  ELSE LET r == TmExec(b[i], env, st) IN IF r.sig = "next" THEN TmExecBody(b, i + 1, r.env, r.st) ELSE r

TmScoped(r, env) == [r EXCEPT !.env = env]                  \* leaving a block drops its declarations
\* an optional simple statement (init of if / switch): <<>> or <<node>>
TmInit(init, env, st) == IF init = <<>> THEN SR("next", env, st) ELSE TmExec(init[1], env, st)

TmExec(nd, env, st) ==
  CASE nd.k = "text" -> SR("next", env, [st EXCEPT !.out = @ \o nd.s])
    [] nd.k = "block" -> TmExecBody(nd.ss, 1, env, st)              \* the statements are in the enclosing scope
    [] nd.k = "comment" -> SR("next", env, st)
    [] nd.k = "raw" -> SR("next", env, [st EXCEPT !.out = @ \o nd.s])
    [] nd.k = "show" -> TmShowAll(nd.xs, 1, env, st)
    [] nd.k = "var" ->
         LET r == TmEval(nd.x, env, st) IN IF r.err # "" THEN SR(r.err, env, r.st)
         ELSE IF nd.v \notin TmNames THEN SR("undef", env, r.st)
         ELSE LET s2 == TmAlloc(r.st, r.v) IN SR("next", [env EXCEPT ![nd.v] = Len(s2.heap)], s2)
    [] nd.k = "assign" ->
         IF nd.v \notin TmNames \/ env[nd.v] = 0 THEN SR("undef", env, st)
         ELSE IF nd.op \in {"++", "--"} THEN
              LET cur == st.heap[env[nd.v]] IN
              IF cur.t # "int" THEN SR("undef", env, st)
              ELSE SR("next", env, [st EXCEPT !.heap[env[nd.v]] = VInt(IF nd.op = "++" THEN cur.n + 1 ELSE cur.n - 1)])
         ELSE LET r == TmEval(nd.x, env, st) IN IF r.err # "" THEN SR(r.err, env, r.st) ELSE
              LET cur == r.st.heap[env[nd.v]] IN                 \* v op= x: Go does not specify whether v is read before or after x is
              IF nd.op = "=" THEN                                  \* evaluated; no generated x changes the variable it is added to
                 (IF cur.t # r.v.t THEN SR("undef", env, r.st) ELSE SR("next", env, [r.st EXCEPT !.heap[env[nd.v]] = r.v]))
              ELSE IF nd.op = "+=" /\ cur.t = "str" /\ r.v.t = "str"
                   THEN (IF Len(cur.s) + Len(r.v.s) > TmMaxStr THEN SR("fuel", env, r.st) ELSE SR("next", env, [r.st EXCEPT !.heap[env[nd.v]] = VStr(cur.s \o r.v.s)]))
              ELSE IF nd.op \in {"+=", "-="} /\ cur.t = "int" /\ r.v.t = "int"
                   THEN SR("next", env, [r.st EXCEPT !.heap[env[nd.v]] = VInt(IF nd.op = "+=" THEN cur.n + r.v.n ELSE cur.n - r.v.n)])
              ELSE SR("undef", env, r.st)
    [] nd.k = "expr" -> LET r == TmEval(nd.x, env, st) IN SR(IF r.err # "" THEN r.err ELSE "next", env, r.st)
    [] nd.k \in {"break", "continue"} -> SR(nd.k, env, st)
    [] nd.k = "if" ->
         LET ri == TmInit(nd.init, env, st) IN IF ri.sig # "next" THEN TmScoped(ri, env) ELSE
         LET rc == TmEval(nd.c, ri.env, ri.st) IN IF rc.err # "" THEN SR(rc.err, env, rc.st) ELSE
         TmScoped(TmExecBody(IF TmTruthy(rc.v) THEN nd.a ELSE nd.els, 1, ri.env, rc.st), env)
    [] nd.k = "for3" ->
         LET ri == TmEval(nd.from, env, st) IN IF ri.err # "" THEN SR(ri.err, env, ri.st)
         ELSE IF nd.v \notin TmNames THEN SR("undef", env, ri.st)
         ELSE LET s2 == TmAlloc(ri.st, ri.v) IN TmScoped(TmFor3Iter(nd, [env EXCEPT ![nd.v] = Len(s2.heap)], s2), env)
    [] nd.k \in {"while", "forever"} -> TmScoped(TmWhileIter(nd, env, st), env)
    [] nd.k = "select" ->                                 \* only a default clause: it is chosen; a break leaves the select
         LET r == TmExecBody(nd.body, 1, env, st) IN TmScoped(IF r.sig = "break" THEN SR("next", env, r.st) ELSE r, env)
    [] nd.k \in {"range", "forin"} ->
         LET rx == TmEval(nd.x, env, st) IN IF rx.err # "" THEN SR(rx.err, env, rx.st)
         ELSE IF rx.v.t \notin {"slice", "str", "map"} THEN SR("undef", env, rx.st)
         ELSE IF ~TmTruthy(rx.v) THEN TmScoped(TmExecBody(nd.els, 1, env, rx.st), env)         \* no element: the else body
         ELSE LET items == IF nd.k = "forin" THEN TmForInItems(rx.v) ELSE TmItems(rx.v)
                  iv == IF nd.k = "range" /\ nd.iv \notin {"", "_"} THEN nd.iv ELSE ""
                  vv == IF nd.k = "forin" THEN nd.v ELSE IF nd.vv \notin {"", "_"} THEN nd.vv ELSE ""
                  \* "shared": one cell per loop variable, allocated here and overwritten by every iteration
                  s1 == IF st.mode = "shared" /\ iv # "" THEN TmAlloc(rx.st, VInt(0)) ELSE rx.st
                  e1 == IF st.mode = "shared" /\ iv # "" THEN [env EXCEPT ![iv] = Len(s1.heap)] ELSE env
                  s2 == IF st.mode = "shared" /\ vv # "" THEN TmAlloc(s1, VInt(0)) ELSE s1
                  e2 == IF st.mode = "shared" /\ vv # "" THEN [e1 EXCEPT ![vv] = Len(s2.heap)] ELSE e1 IN
              TmScoped(TmRangeIter(nd.body, iv, vv, items, 1, [env |-> e2, st |-> s2]), env)
    [] nd.k = "switch" ->
         LET ri == TmInit(nd.init, env, st) IN IF ri.sig # "next" THEN TmScoped(ri, env) ELSE
         LET rt == IF nd.tag = <<>> THEN ER(VBool(TRUE), ri.st) ELSE TmEval(nd.tag[1], ri.env, ri.st) IN
         IF rt.err # "" THEN SR(rt.err, env, rt.st) ELSE
         LET m == TmMatch(nd.cls, 1, 1, rt.v, ri.env, rt.st) IN
         IF m.err # "" THEN SR(m.err, env, m.st) ELSE
         LET defs == {j \in 1..Len(nd.cls) : nd.cls[j].def}
             j0 == IF m.j # 0 THEN m.j ELSE IF defs # {} THEN CHOOSE j \in defs : TRUE ELSE 0 IN
         IF j0 = 0 THEN SR("next", env, m.st) ELSE TmScoped(TmSwitchRun(nd.cls, j0, ri.env, m.st), env)
    [] nd.k = "macro" ->                                  \* the macro's own name is in scope in its body
         IF nd.name \notin TmNames THEN SR("undef", env, st) ELSE
         LET c == Len(st.heap) + 1
             env2 == [env EXCEPT ![nd.name] = c] IN
         SR("next", env2, TmAlloc(st, VMacro(nd.ps, nd.body, env2)))
    [] nd.k = "using" ->
         IF nd.mac THEN                                   \* itea = a macro with the body: rendered at each call
            LET s2 == TmAlloc(st, VMacro(nd.ps, nd.body, env))
                r == TmExec(nd.stmt, [env EXCEPT !["itea"] = Len(s2.heap)], s2) IN
            [r EXCEPT !.env = [r.env EXCEPT !["itea"] = env["itea"]]]
         ELSE IF ~TmStmtIteaLive(nd.stmt, st.glob) THEN TmExec(nd.stmt, env, st)     \* itea is never evaluated: nor is the body
         ELSE LET rv == TmCallClo(VMacro(<<>>, nd.body, env), <<>>, st) IN           \* rendered once, before the statement
              IF rv.err # "" THEN SR(rv.err, env, rv.st) ELSE
              LET s2 == TmAlloc(rv.st, rv.v)
                  r == TmExec(nd.stmt, [env EXCEPT !["itea"] = Len(s2.heap)], s2) IN
              [r EXCEPT !.env = [r.env EXCEPT !["itea"] = env["itea"]]]
    [] OTHER -> SR("undef", env, st)

\* one test-and-iteration of {% for c %} / {% for %}
TmWhileIter(nd, env, st) ==
  IF st.fuel <= 0 THEN SR("fuel", env, st) ELSE
  LET rc == IF nd.k = "forever" THEN ER(VBool(TRUE), TmBurn(st)) ELSE TmEval(nd.c, env, TmBurn(st)) IN
  IF rc.err # "" THEN SR(rc.err, env, rc.st)
  ELSE IF rc.v.t # "bool" THEN SR("undef", env, rc.st)
  ELSE IF ~rc.v.b THEN SR("next", env, rc.st)
  ELSE LET rb == TmExecBody(nd.body, 1, env, rc.st) IN
       IF rb.sig \in {"next", "continue"} THEN TmWhileIter(nd, env, rb.st)
       ELSE IF rb.sig = "break" THEN SR("next", env, rb.st) ELSE rb

\* one test-and-iteration of {% for v := from; c; post %}; env holds this iteration's copy of the loop variable
TmFor3Iter(nd, env, st) ==
  IF st.fuel <= 0 THEN SR("fuel", env, st) ELSE
  LET rc == TmEval(nd.c, env, TmBurn(st)) IN
  IF rc.err # "" THEN SR(rc.err, env, rc.st)
  ELSE IF ~TmTruthy(rc.v) THEN SR("next", env, rc.st)
  ELSE LET rb == TmExecBody(nd.body, 1, env, rc.st) IN
       IF rb.sig \in {"next", "continue"} THEN
          \* Go 1.22: the next iteration has a fresh variable initialised with the value of this one; post runs on the fresh one
          LET s2 == IF st.mode = "shared" THEN rb.st ELSE TmAlloc(rb.st, rb.st.heap[env[nd.v]])
              env2 == IF st.mode = "shared" THEN env ELSE [env EXCEPT ![nd.v] = Len(s2.heap)]
              rp == TmExec(nd.post, env2, s2) IN
          IF rp.sig # "next" THEN rp ELSE TmFor3Iter(nd, env2, rp.st)
       ELSE IF rb.sig = "break" THEN SR("next", env, rb.st)
       ELSE rb

\* iteration j over the items a (pairs); es = [env, st]
TmRangeIter(body, iv, vv, a, j, es) ==
  IF j > Len(a) THEN SR("next", es.env, es.st)
  ELSE IF es.st.fuel <= 0 THEN SR("fuel", es.env, es.st)
  ELSE LET shared == es.st.mode = "shared"
           s0 == TmBurn(es.st)
           s1 == IF iv = "" THEN s0 ELSE IF shared THEN [s0 EXCEPT !.heap[es.env[iv]] = a[j][1]] ELSE TmAlloc(s0, a[j][1])
           e1 == IF iv = "" \/ shared THEN es.env ELSE [es.env EXCEPT ![iv] = Len(s1.heap)]
           s2 == IF vv = "" THEN s1 ELSE IF shared THEN [s1 EXCEPT !.heap[e1[vv]] = a[j][2]] ELSE TmAlloc(s1, a[j][2])
           e2 == IF vv = "" \/ shared THEN e1 ELSE [e1 EXCEPT ![vv] = Len(s2.heap)]
           rb == TmExecBody(body, 1, e2, s2) IN
       IF rb.sig \in {"next", "continue"} THEN TmRangeIter(body, iv, vv, a, j + 1, [env |-> es.env, st |-> rb.st])
       ELSE IF rb.sig = "break" THEN SR("next", es.env, rb.st)
       ELSE rb

\* the first clause (in source order) one of whose values equals the tag; values are evaluated in order until one matches
TmMatch(cls, j, q, tagv, env, st) ==
  IF j > Len(cls) THEN [j |-> 0, st |-> st, err |-> ""]
  ELSE IF cls[j].def \/ q > Len(cls[j].vals) THEN TmMatch(cls, j + 1, 1, tagv, env, st)
  ELSE LET r == TmEval(cls[j].vals[q], env, st) IN
       IF r.err # "" THEN [j |-> 0, st |-> r.st, err |-> r.err]
       ELSE IF r.v.t # tagv.t THEN [j |-> 0, st |-> r.st, err |-> "undef"]
       ELSE IF r.v = tagv THEN [j |-> j, st |-> r.st, err |-> ""]
       ELSE TmMatch(cls, j, q + 1, tagv, env, r.st)
\* run clause j; fallthrough continues with the body of the next clause in source order; break ends the switch
TmSwitchRun(cls, j, env, st) ==
  LET r == TmExecBody(cls[j].body, 1, env, st) IN
  IF r.sig = "next" /\ cls[j].ft /\ j < Len(cls) THEN TmSwitchRun(cls, j + 1, env, r.st)
  ELSE IF r.sig = "break" THEN SR("next", env, r.st)
  ELSE r

TmFuel == 300
\* (strings and outputs beyond these lengths are outside the reference's domain: a generated template that doubles a string in
\*  nested loops is dropped by the generator instead of being rendered)
\* a whole template.  outcome: "ok" (out = the rendered bytes) | "runerror" | "undef" (no opinion)
TmRun(tree, glob, mode) ==
  LET r == TmExecBody(tree, 1, TmEnv0, [heap |-> <<>>, out |-> <<>>, glob |-> glob, fuel |-> TmFuel, mode |-> mode]) IN
  [outcome |-> IF r.sig = "next" THEN "ok" ELSE IF r.sig = "run" THEN "runerror" ELSE "undef",
   out |-> IF r.sig = "next" THEN r.st.out ELSE <<>>]

(* =====================================================================================
   PART 4 - the printer: a tree as template source (no white space between tags; text is letters)
   ===================================================================================== *)
RECURSIVE TmPPairs(_, _)
RECURSIVE TmPStmts(_, _)
RECURSIVE TmPx(_), TmPxList(_, _), TmPBody(_, _), TmPNode(_), TmPIf(_, _), TmPStmt(_), TmPClauses(_, _), TmPParams(_, _), TmPOp(_)
TmAtomic(x) == x.e \in {"int", "str", "bool", "var", "call", "len", "idx", "slice", "map"}
TmPOp(x) == IF TmAtomic(x) THEN TmPx(x) ELSE <<40>> \o TmPx(x) \o <<41>>
TmPx(x) ==
  CASE x.e = "int" -> TmDec(x.n)
    [] x.e = "str" -> <<34>> \o x.s \o <<34>>
    [] x.e = "bool" -> IF x.b THEN TtS("true") ELSE TtS("false")
    [] x.e = "slice" -> TtS("[]") \o TtS(x.et) \o <<123>> \o TmPxList(x.xs, 1) \o <<125>>
    [] x.e = "map" -> TtS("map[string]int{") \o TmPPairs(x.ps, 1) \o <<125>>
    [] x.e = "var" -> TtS(x.v)
    [] x.e \in {"bin", "cmp"} -> TmPOp(x.a) \o <<32>> \o TtS(x.op) \o <<32>> \o TmPOp(x.b)
    [] x.e = "and" -> TmPOp(x.a) \o (IF x.go THEN TtS(" && ") ELSE TtS(" and ")) \o TmPOp(x.b)
    [] x.e = "or" -> TmPOp(x.a) \o (IF x.go THEN TtS(" || ") ELSE TtS(" or ")) \o TmPOp(x.b)
    [] x.e = "not" -> (IF x.go THEN TtS("!") ELSE TtS("not ")) \o TmPOp(x.a)
    [] x.e = "len" -> TtS("len(") \o TmPx(x.a) \o <<41>>
    [] x.e = "idx" -> TmPOp(x.a) \o <<91>> \o TmPx(x.i) \o <<93>>
    [] x.e = "call" -> TtS(x.f) \o <<40>> \o TmPxList(x.args, 1) \o (IF "sp" \in DOMAIN x THEN TtS("...") ELSE <<>>) \o <<41>>
    [] x.e = "default" -> TtS(x.v) \o TtS(" default ") \o TmPOp(x.d)
TmPPairs(ps, i) == IF i > Len(ps) THEN <<>> ELSE (IF i > 1 THEN TtS(", ") ELSE <<>>) \o <<34>> \o ps[i].k \o <<34>> \o TtS(": ") \o TmDec(ps[i].v) \o TmPPairs(ps, i + 1)
TmPxList(xs, i) == IF i > Len(xs) THEN <<>> ELSE (IF i > 1 THEN TtS(", ") ELSE <<>>) \o TmPx(xs[i]) \o TmPxList(xs, i + 1)
TmPParams(ps, i) == IF i > Len(ps) THEN <<>>
                    ELSE (IF i > 1 THEN TtS(", ") ELSE <<>>) \o TtS(ps[i].n) \o <<32>> \o TtS(ps[i].t) \o TmPParams(ps, i + 1)
TmPSig(ps, paren) == IF ps # <<>> THEN <<40>> \o TmPParams(ps, 1) \o <<41>> ELSE IF paren THEN TtS("()") ELSE <<>>
TmTag(inner) == TtS("{% ") \o inner \o TtS(" %}")
TmPEnd(ek, kw) == IF ek THEN TmTag(TtS("end ") \o TtS(kw)) ELSE TtS("{% end %}")
\* a statement without its delimiters
TmPStmt(nd) ==
  CASE nd.k = "show" -> TtS("show ") \o TmPxList(nd.xs, 1)
    [] nd.k = "var" -> IF nd.short THEN TtS(nd.v) \o TtS(" := ") \o TmPx(nd.x) ELSE TtS("var ") \o TtS(nd.v) \o TtS(" = ") \o TmPx(nd.x)
    [] nd.k = "assign" -> IF nd.op \in {"++", "--"} THEN TtS(nd.v) \o TtS(nd.op) ELSE TtS(nd.v) \o <<32>> \o TtS(nd.op) \o <<32>> \o TmPx(nd.x)
    [] nd.k = "expr" -> TmPx(nd.x)
    [] nd.k \in {"break", "continue"} -> TtS(nd.k)
TmPStmts(ss, i) == IF i > Len(ss) THEN <<>> ELSE (IF i > 1 THEN TtS("; ") ELSE <<>>) \o TmPStmt(ss[i]) \o TmPStmts(ss, i + 1)
TmPInit(init) == IF init = <<>> THEN <<>> ELSE TmPStmt(init[1]) \o TtS("; ")
TmPBody(b, i) == IF i > Len(b) THEN <<>> ELSE TmPNode(b[i]) \o TmPBody(b, i + 1)
TmPElse(els) == IF els = <<>> THEN <<>> ELSE TtS("{% else %}") \o TmPBody(els, 1)
TmPIf(nd, first) ==
  TmTag((IF first THEN TtS("if ") ELSE TtS("else if ")) \o TmPInit(nd.init) \o TmPx(nd.c)) \o TmPBody(nd.a, 1)
  \o (IF nd.els = <<>> THEN <<>> ELSE IF nd.elif THEN TmPIf(nd.els[1], FALSE) ELSE TmPElse(nd.els))
TmPClauses(cls, j) ==
  IF j > Len(cls) THEN <<>>
  ELSE (IF cls[j].def THEN TtS("{% default %}") ELSE TmTag(TtS("case ") \o TmPxList(cls[j].vals, 1)))
       \o TmPBody(cls[j].body, 1) \o (IF cls[j].ft THEN TtS("{% fallthrough %}") ELSE <<>>) \o TmPClauses(cls, j + 1)
TmPNode(nd) ==
  CASE nd.k = "text" -> nd.s
    [] nd.k = "block" -> TtS("{%% ") \o TmPStmts(nd.ss, 1) \o TtS(" %%}")
    [] nd.k = "comment" -> TtS("{# ") \o nd.s \o TtS(" #}")
    [] nd.k = "raw" -> TtS("{% raw %}") \o nd.s \o TmPEnd(nd.ek, "raw")
    [] nd.k = "while" -> TmTag(TtS("for ") \o TmPx(nd.c)) \o TmPBody(nd.body, 1) \o TmPEnd(nd.ek, "for")
    [] nd.k = "forever" -> TtS("{% for %}") \o TmPBody(nd.body, 1) \o TmPEnd(nd.ek, "for")
    [] nd.k = "select" -> TtS("{% select %}{% default %}") \o TmPBody(nd.body, 1) \o TmPEnd(nd.ek, "select")
    [] nd.k = "show" -> IF nd.br THEN TtS("{{ ") \o TmPx(nd.xs[1]) \o TtS(" }}") ELSE TmTag(TmPStmt(nd))
    [] nd.k \in {"var", "assign", "expr", "break", "continue"} -> TmTag(TmPStmt(nd))
    [] nd.k = "if" -> TmPIf(nd, TRUE) \o TmPEnd(nd.ek, "if")
    [] nd.k = "for3" -> TmTag(TtS("for ") \o TtS(nd.v) \o TtS(" := ") \o TmPx(nd.from) \o TtS("; ") \o TmPx(nd.c) \o TtS("; ") \o TmPStmt(nd.post))
                        \o TmPBody(nd.body, 1) \o TmPEnd(nd.ek, "for")
    [] nd.k = "range" ->
         TmTag(TtS("for ") \o (IF nd.iv = "" /\ nd.vv = "" THEN <<>>
                               ELSE TtS(nd.iv) \o (IF nd.vv = "" THEN <<>> ELSE TtS(", ") \o TtS(nd.vv)) \o TtS(" := "))
               \o TtS("range ") \o TmPx(nd.x))
         \o TmPBody(nd.body, 1) \o TmPElse(nd.els) \o TmPEnd(nd.ek, "for")
    [] nd.k = "forin" -> TmTag(TtS("for ") \o TtS(nd.v) \o TtS(" in ") \o TmPx(nd.x)) \o TmPBody(nd.body, 1) \o TmPElse(nd.els) \o TmPEnd(nd.ek, "for")
    [] nd.k = "switch" ->
         (IF nd.init = <<>> /\ nd.tag = <<>> THEN TtS("{% switch %}")
          ELSE TmTag(TtS("switch ") \o TmPInit(nd.init) \o (IF nd.tag = <<>> THEN <<>> ELSE TmPx(nd.tag[1]))))
         \o TmPClauses(nd.cls, 1) \o TmPEnd(nd.ek, "switch")
    [] nd.k = "macro" -> TmTag(TtS("macro ") \o TtS(nd.name) \o TmPSig(nd.ps, nd.paren) \o (IF nd.rt = "" THEN <<>> ELSE <<32>> \o TtS(nd.rt)))
                         \o TmPBody(nd.body, 1) \o TmPEnd(nd.ek, "macro")
    [] nd.k = "using" ->
         TmTag(TmPStmt(nd.stmt) \o TtS("; using") \o (IF nd.mac THEN TtS(" macro") \o TmPSig(nd.ps, nd.paren) ELSE <<>>)
               \o (IF nd.typ = "" THEN <<>> ELSE <<32>> \o TtS(nd.typ)))
         \o TmPBody(nd.body, 1) \o TmPEnd(nd.ek, "using")
TmSrc(tree) == TmPBody(tree, 1)
\* the files of a layout: <<[name, head, tail, hole]>>; the file with hole = TRUE is head ++ source of the tree ++ tail, the others
\* are head; the first one is the entry; ext = "txt" / "html" is appended to every name
TmQ(name, ext) == <<34>> \o TtS(name) \o <<46>> \o TtS(ext) \o <<34>>
TmFile(name, head, tail, hole) == [name |-> name, head |-> head, tail |-> tail, hole |-> hole]
TmFrame(lay, id, ext) ==
  LET D == TmSrc(TmPrelude(id))  E == TmSrc(TmEpilogue(id)) IN
  CASE lay = "single" -> <<TmFile("index", D, E, TRUE)>>
    [] lay \in {"import", "importas"} ->
         <<TmFile("index", IF lay = "import" THEN TtS("{% import ") \o TmQ("f", ext) \o TtS(" %}x{{ Main() }}{{ V }}")
                           ELSE TtS("{% import m ") \o TmQ("f", ext) \o TtS(" %}x{{ m.Main() }}{{ m.V }}"), <<>>, FALSE),
           TmFile("f", D \o TtS("{% var V = 7 %}{% macro Main %}"), E \o TtS("{% end %}"), TRUE)>>
    [] lay \in {"extends", "extendsside"} ->
         <<TmFile("index", TtS("{% extends ") \o TmQ("l", ext) \o TtS(" %}") \o D \o TtS("{% macro Body %}"),
                  E \o TtS("{% end %}") \o (IF lay = "extendsside" THEN TtS("{% macro Side %}s{% end %}") ELSE <<>>), TRUE),
           TmFile("l", TtS("x{{ Body() }}y{{ Side() default ") \o <<34, 100, 34>> \o TtS(" }}{{ Und(1, ") \o <<34, 97, 34>> \o TtS(") default ") \o <<34, 101, 34>> \o TtS(" }}"), <<>>, FALSE)>>
    [] lay = "render" ->
         <<TmFile("index", TtS("a{{ render ") \o TmQ("p", ext) \o TtS(" }}b{{ render ") \o TmQ("p", ext) \o TtS(" }}{{ render ") \o TmQ("q", ext)
                           \o TtS(" default ") \o <<34, 100, 34>> \o TtS(" }}"), <<>>, FALSE),
           TmFile("p", D, E, TRUE)>>
    [] lay = "import3" ->
         <<TmFile("index", TtS("{% import ") \o TmQ("a", ext) \o TtS(" %}x{{ Top() }}"), <<>>, FALSE),
           TmFile("a", TtS("{% import ") \o TmQ("f", ext) \o TtS(" %}{% macro Top %}t{{ Main() }}{{ V }}{% end %}"), <<>>, FALSE),
           TmFile("f", D \o TtS("{% var V = 7 %}{% macro Main %}"), E \o TtS("{% end %}"), TRUE)>>
    [] lay = "extimport" ->
         <<TmFile("index", TtS("{% extends ") \o TmQ("l", ext) \o TtS(" %}{% import ") \o TmQ("f", ext) \o TtS(" %}{% macro Body %}b{{ Main() }}{% end %}"), <<>>, FALSE),
           TmFile("l", TtS("x{{ Body() }}y"), <<>>, FALSE),
           TmFile("f", D \o TtS("{% var V = 7 %}{% macro Main %}"), E \o TtS("{% end %}"), TRUE)>>
    [] lay = "extparam" ->
         <<TmFile("index", TtS("{% extends ") \o TmQ("l", ext) \o TtS(" %}") \o D \o TtS("{% macro Body(k int, p string) %}"), E \o TtS("{{ k }}{{ p }}{% end %}"), TRUE),
           TmFile("l", TtS("x{{ Body(4, ") \o <<34, 122, 34>> \o TtS(") }}y{{ Body(5, ") \o <<34, 119, 34>> \o TtS(") default ") \o <<34, 100, 34>> \o TtS(" }}"), <<>>, FALSE)>>
    [] lay = "renderin" ->
         <<TmFile("index", TtS("{% for i := 0; i < 2; i++ %}{{ render ") \o TmQ("p", ext) \o TtS(" }}{% end %}{% macro M %}m{{ render ") \o TmQ("p", ext)
                           \o TtS(" }}{% end %}{{ M() }}{% show itea; using %}u{{ render ") \o TmQ("p", ext) \o TtS(" }}{% end %}{% switch 1 %}{% case 1 %}{{ render ")
                           \o TmQ("p", ext) \o TtS(" }}{% end %}"), <<>>, FALSE),
           TmFile("p", D, E, TRUE)>>

\* ---- measures used by the generator and the judge
RECURSIVE TmSize(_, _), TmNodeSize(_), TmKindsOf(_, _), TmNodeKinds(_)
TmBodiesOf(nd) == CASE nd.k = "if" -> <<nd.a, nd.els>> [] nd.k = "for3" -> <<nd.body>> [] nd.k \in {"range", "forin"} -> <<nd.body, nd.els>>
                    [] nd.k = "switch" -> [j \in 1..Len(nd.cls) |-> nd.cls[j].body] [] nd.k \in {"macro", "using", "while", "forever", "select"} -> <<nd.body>>
                    [] OTHER -> <<>>
TmNodeSize(nd) == LET bs == TmBodiesOf(nd) IN 1 + TmSize(bs, 1)
TmSize(bs, i) == IF i > Len(bs) THEN 0 ELSE LET b == bs[i] IN
                 (IF b = <<>> THEN 0 ELSE LET F[j \in 0..Len(b)] == IF j = 0 THEN 0 ELSE F[j - 1] + TmNodeSize(b[j]) IN F[Len(b)]) + TmSize(bs, i + 1)
TmTreeSize(tree) == TmSize(<<tree>>, 1)
\* the construct kinds of a tree, using told apart by its form: for signatures
TmKindName(nd) == IF nd.k = "using" THEN (IF nd.mac THEN "using-macro" ELSE "using") ELSE IF nd.k = "if" /\ nd.elif THEN "if-elif" ELSE nd.k
TmNodeKinds(nd) == {TmKindName(nd)} \cup TmKindsOf(TmBodiesOf(nd), 1)
TmKindsOf(bs, i) == IF i > Len(bs) THEN {} ELSE (UNION {TmNodeKinds(bs[i][j]) : j \in 1..Len(bs[i])}) \cup TmKindsOf(bs, i + 1)
TmTreeKinds(tree) == TmKindsOf(<<tree>>, 1)

\* ---- syntactic patterns that NAME a root cause in a mismatch (never a verdict).  Lexically (macro and using bodies included):
\*   "break-in-range"   a break whose innermost enclosing loop / switch is a range (or for in) statement that itself is
\*                      nested in a three-clause for or a switch
\*   "continue-in-for"  a continue whose innermost enclosing loop is a three-clause for that itself is nested in a range (or for in)
\*   "end-using-in-typed-body"  {% end using %}, written with its keyword, inside a macro / using body whose type is written
\*   "for-without-condition"    a {% for %} statement;  "map-range-key"  a range over a map that declares the key variable;
\*   "fallthrough-after-macro-or-using"  a clause that ends with fallthrough and has a macro declaration or a using statement
\* brk: innermost statement a break refers to ("" / "range" / "for3" / "switch"); loop: innermost loop; outer: a for3 or switch
\* encloses; inrange: a range encloses
RECURSIVE TmPatBody(_, _, _), TmPatNode(_, _)
TmPatNode(nd, c) ==
  CASE nd.k = "break" -> IF c.brk = "" THEN {"misplaced-break"} ELSE IF c.brk = "range" /\ c.outer THEN {"break-in-range"} ELSE {}
    [] nd.k = "continue" -> IF c.loop = "" THEN {"misplaced-continue"} ELSE IF c.loop = "for3" /\ c.inrange THEN {"continue-in-for"} ELSE {}
    [] nd.k = "if" -> TmPatBody(nd.a, 1, c) \cup TmPatBody(nd.els, 1, c)
    [] nd.k \in {"for3", "while", "forever"} -> (IF nd.k = "forever" THEN {"for-without-condition"} ELSE {})
                                                 \cup TmPatBody(nd.body, 1, [c EXCEPT !.brk = "for3", !.loop = "for3", !.outer = TRUE])
    [] nd.k = "select" -> TmPatBody(nd.body, 1, [c EXCEPT !.brk = "switch", !.outer = TRUE])
    [] nd.k \in {"range", "forin"} -> (IF nd.x.e = "map" /\ (nd.k = "forin" \/ nd.iv \notin {"", "_"}) THEN {"map-range-key"} ELSE {})
                                      \cup TmPatBody(nd.body, 1, [c EXCEPT !.brk = "range", !.loop = "range", !.inrange = TRUE]) \cup TmPatBody(nd.els, 1, c)
    [] nd.k = "switch" -> (IF \E j \in 1..Len(nd.cls) : nd.cls[j].ft /\ \E q \in 1..Len(nd.cls[j].body) : nd.cls[j].body[q].k \in {"macro", "using"}
                           THEN {"fallthrough-after-macro-or-using"} ELSE {})
                          \cup UNION {TmPatBody(nd.cls[j].body, 1, [c EXCEPT !.brk = "switch", !.outer = TRUE]) : j \in 1..Len(nd.cls)}
    [] nd.k = "macro" -> TmPatBody(nd.body, 1, [c EXCEPT !.brk = "", !.loop = "", !.typed = @ \/ nd.rt # ""])
    [] nd.k = "using" -> (IF nd.ek /\ c.typed THEN {"end-using-in-typed-body"} ELSE {})
                         \cup TmPatBody(nd.body, 1, [c EXCEPT !.brk = "", !.loop = "", !.typed = @ \/ nd.typ # ""])
    [] OTHER -> {}
TmPatBody(b, i, c) == IF i > Len(b) THEN {} ELSE TmPatNode(b[i], c) \cup TmPatBody(b, i + 1, c)
\* a break outside every loop / switch / select of its function, or a continue outside every loop of its function (the body of a
\* macro or of a using is a function of its own): the template must be refused at build time
TmMisplacedJump(tree) == {"misplaced-break", "misplaced-continue"} \cap TmPatBody(tree, 1, [brk |-> "", loop |-> "", outer |-> FALSE, inrange |-> FALSE, typed |-> FALSE]) # {}
TmNestedLoopPatterns(tree) == TmPatBody(tree, 1, [brk |-> "", loop |-> "", outer |-> FALSE, inrange |-> FALSE, typed |-> FALSE])
=============================================================================

----------------------------- MODULE MC_TmplSem -----------------------------
(* X01.  TLC enumerates MiniTmpl templates from the grammar, checks sanity theorems of the reference
   interpreter on every one of them and exports them (tree + source text written by TmplSem!TmSrc) as cases.

   Family "ctl": every SHAPE (a tree of construct kinds: text, show, var, assignment, macro-call statement, break,
   continue, if [else | else if ...], three-clause for, for with a condition only, for without condition, for range [else],
   for in [else], switch of 2..3 clauses, select with only a default clause, macro declaration, using) of at most TmplMaxNodes nodes - every construct nested in every construct, bodies
   of every size, break / continue only where they are valid.  The optional and lexical parts of a shape
   (a text leaf is a text, a comment or a raw statement; what is ranged over: slices, strings incl. a two-byte rune, maps with at most
   one key; which macro: N(), O(p string), Q(k int, b bool) with a bounded recursion; the LAYOUT: one file, import, import with a
   name, extends with and without the macro that `Side() default` asks for, render - the tree goes into the imported / extending /
   rendered file; expressions, names, which using form, clause values / default position / fallthrough of a switch, range
   variables, init statements, macro parameters and result types, {{ }} vs {% show %}, var vs :=, end vs end if,
   and vs &&) are FILLED from context-dependent alternative lists (only declared names, only well-typed
   expressions) by a deterministic rotation over (shape number, slot number, TmplSeed): TmplVariants fills per
   shape.  The shape space is exhaustive up to the bound; the fills sample the product of the alternatives.
   Family "expr": every expression of depth <= 1 (and a band of depth 2) over atoms of every type, operands of
   and / or / not of every type, as a condition and (when it can be shown) as a show operand, followed by {{ n }}
   so that the side effects of evaluated macro calls are visible.
   Family "deep": TmplDeep pseudo-random shapes of TmplDeepMin..TmplDeepMax nodes (nesting beyond the exhaustive bound), filled alike.
   Family "probe": hand-written trees for behaviours that need more nodes than the bound.
   Every tree is preceded by the prelude TmPrelude (variables n s b l q, macros M P K).

   Theorems checked on every case (invariants over the states, the body B being the generated part):
     ThInDomain    the reference has an outcome for B: ok or runerror (never undefined, never out of fuel)
     ThIfTrue      {% if true %}B{% else %}Z{% end %}                      renders like B
     ThForZeroElse {% for v in []int{} %}Z{% else %}B{% end %}              renders like B
     ThUsingShow   {% show itea; using %}B{% end %}                         renders like B
     ThMacroCall   {% macro ZZ %}B{% end %}{{ ZZ() }}                        renders like B
     ThOnceVsMacro {% var zz = 0 %}{% var yy = itea; using %}B{{ zz }}{% end %}{% zz = 7 %}{{ yy }}   renders B's output + "0",
                   the same with  using macro  and {{ yy() }}  renders B's output + "7": rendering once and rendering
                   at the call differ exactly by the variable that changed in between
     ThLayout      the one-file tree that the case's layout (import / extends / render) is equivalent to renders B's output framed by
                   the layout's own text (for render: twice)
     ThSize        the printed source is not empty and the tree has at most 4 x the bound's nodes (the fills add the statements that
                   bound the while loops and the recursion)
   (B containing a run-time error makes every variant a runerror as well.) *)
EXTENDS TmplSem, TmplSemCfg, TLC, Json, SequencesExt

L(c) == <<c>>                                   \* a one-letter byte string
Top == [loop |-> FALSE, sw |-> FALSE]
InLoop == [loop |-> TRUE, sw |-> FALSE]
InFunc == [loop |-> FALSE, sw |-> FALSE]

(* ------------------------------------------------------------------------------------------------
   shapes: sequences of nodes of EXACTLY m nodes, in a context cx = [loop, sw] (what break / continue may do)
   ------------------------------------------------------------------------------------------------ *)
Cup5(F(_), n) == (IF n >= 1 THEN F(1) ELSE {}) \cup (IF n >= 2 THEN F(2) ELSE {}) \cup (IF n >= 3 THEN F(3) ELSE {})
                 \cup (IF n >= 4 THEN F(4) ELSE {}) \cup (IF n >= 5 THEN F(5) ELSE {})
SkLeaves(cx) == {[k |-> "text"], [k |-> "show"], [k |-> "var"], [k |-> "assign"], [k |-> "expr"]}
                \cup (IF cx.loop \/ cx.sw THEN {[k |-> "break"]} ELSE {}) \cup (IF cx.loop THEN {[k |-> "continue"]} ELSE {})
RECURSIVE SkBodies(_, _), SkNodes(_, _), SkIfs(_, _)
SkBodies(cx, m) ==
  IF m = 0 THEN {<<>>}
  ELSE Cup5(LAMBDA k : {<<nd>> \o rest : nd \in SkNodes(cx, k), rest \in SkBodies(cx, m - k)}, m)
\* if [else] and if ... else if ... of exactly k nodes
SkIfs(cx, k) ==
  IF k < 2 THEN {}
  ELSE {[k |-> "if", a |-> a, els |-> <<>>, elif |-> FALSE] : a \in SkBodies(cx, k - 1)}
       \cup Cup5(LAMBDA i : {[k |-> "if", a |-> a, els |-> b, elif |-> FALSE] : a \in SkBodies(cx, i), b \in SkBodies(cx, k - 1 - i)}, k - 2)
       \cup Cup5(LAMBDA i : {[k |-> "if", a |-> a, els |-> <<inner>>, elif |-> TRUE] : a \in SkBodies(cx, i), inner \in SkIfs(cx, k - 1 - i)}, k - 3)
SkNodes(cx, k) ==
  IF k = 1 THEN SkLeaves(cx)
  ELSE LET sc == [loop |-> cx.loop, sw |-> TRUE] IN
       SkIfs(cx, k)
       \cup {[k |-> kk, body |-> b] : kk \in {"for3", "while", "forever"}, b \in SkBodies(InLoop, k - 1)}
       \cup {[k |-> "select", body |-> b] : b \in SkBodies(sc, k - 1)}
       \cup {[k |-> kk, body |-> b, els |-> <<>>] : kk \in {"range", "forin"}, b \in SkBodies(InLoop, k - 1)}
       \* a break in the else body of a loop would belong to an enclosing loop: not generated
       \cup Cup5(LAMBDA i : {[k |-> kk, body |-> b, els |-> e] : kk \in {"range", "forin"}, b \in SkBodies(InLoop, i), e \in SkBodies(InFunc, k - 1 - i)}, k - 2)
       \cup {[k |-> kk, body |-> b] : kk \in {"macro", "using"}, b \in SkBodies(InFunc, k - 1)}
       \* switch: 2 or 3 clauses whose bodies may be empty (but not all)
       \cup Cup5(LAMBDA i1 : {[k |-> "switch", cls |-> <<a, b>>] : a \in SkBodies(sc, i1 - 1), b \in SkBodies(sc, k - i1)}, k)
       \cup Cup5(LAMBDA i1 : Cup5(LAMBDA i2 : {[k |-> "switch", cls |-> <<a, b, c>>] :
                                   a \in SkBodies(sc, i1 - 1), b \in SkBodies(sc, i2 - 1), c \in SkBodies(sc, k + 1 - i1 - i2)}, k + 1 - i1), k)
SkAll(n) == Cup5(LAMBDA m : SkBodies(Top, m), n)

(* ------------------------------------------------------------------------------------------------
   deep shapes: pseudo-random shapes of exactly m nodes (beyond the bound of the exhaustive enumeration), drawn by the
   same rotation as the fills
   ------------------------------------------------------------------------------------------------ *)
DMix(r, c) == ((r % 65521) * 131) + (c * 7919) + (((r \div 13) % 4099) * ((2 * c) + 1))
DPk(alts, r, c) == alts[(DMix(r, c) % Len(alts)) + 1]
RECURSIVE RBody(_, _, _, _), RNode(_, _, _, _)
RBody(cx, m, r, c) ==
  IF m = 0 THEN [b |-> <<>>, c |-> c]
  ELSE LET k == IF m = 1 THEN 1 ELSE DPk(<<m, m, m - 1, 1, 1, (m + 1) \div 2, m>>, r, c)        \* size of the first node: biased to nesting
           rn == RNode(cx, k, r, c + 1)
           rest == RBody(cx, m - k, r, rn.c) IN
       [b |-> <<rn.n>> \o rest.b, c |-> rest.c]
RNode(cx, k, r, c) ==
  IF k = 1 THEN [n |-> DPk(SetToSeq(SkLeaves(cx)), r, c), c |-> c + 1]
  ELSE LET sc == [loop |-> cx.loop, sw |-> TRUE]
           kind0 == DPk(<<"if", "for3", "range", "forin", "macro", "using", "switch2", "ifelse", "ifelif", "rangeelse", "forinelse", "switch3", "using", "while",
                          "forever", "select", "range", "macro">>, r, c)
           kind == IF k = 2 /\ kind0 \in {"ifelse", "ifelif", "rangeelse", "forinelse"} THEN "if" ELSE IF k = 3 /\ kind0 = "ifelif" THEN "ifelse" ELSE kind0
           i == IF kind = "ifelif" THEN 1 + (DMix(r, c + 1) % (k - 3)) ELSE IF k > 2 THEN 1 + (DMix(r, c + 1) % (k - 2)) ELSE 1      \* size of the first body
           s1 == DMix(r, c + 1) % k                                     \* sizes of the clauses of a switch
           s2 == DMix(r, c + 2) % (k - s1) IN
       CASE kind = "if" -> LET a == RBody(cx, k - 1, r, c + 2) IN [n |-> [k |-> "if", a |-> a.b, els |-> <<>>, elif |-> FALSE], c |-> a.c]
         [] kind = "ifelse" -> LET a == RBody(cx, i, r, c + 2)  b == RBody(cx, k - 1 - i, r, a.c) IN
                               [n |-> [k |-> "if", a |-> a.b, els |-> b.b, elif |-> FALSE], c |-> b.c]
         [] kind = "ifelif" -> LET a == RBody(cx, i, r, c + 2)  b == RBody(cx, k - 2 - i, r, a.c) IN
                               [n |-> [k |-> "if", a |-> a.b, els |-> <<[k |-> "if", a |-> b.b, els |-> <<>>, elif |-> FALSE]>>, elif |-> TRUE], c |-> b.c]
         [] kind \in {"for3", "while", "forever"} -> LET a == RBody(InLoop, k - 1, r, c + 2) IN [n |-> [k |-> kind, body |-> a.b], c |-> a.c]
         [] kind = "select" -> LET a == RBody(sc, k - 1, r, c + 2) IN [n |-> [k |-> "select", body |-> a.b], c |-> a.c]
         [] kind \in {"range", "forin"} -> LET a == RBody(InLoop, k - 1, r, c + 2) IN [n |-> [k |-> kind, body |-> a.b, els |-> <<>>], c |-> a.c]
         [] kind \in {"rangeelse", "forinelse"} -> LET a == RBody(InLoop, i, r, c + 2)  b == RBody(InFunc, k - 1 - i, r, a.c) IN
                               [n |-> [k |-> IF kind = "rangeelse" THEN "range" ELSE "forin", body |-> a.b, els |-> b.b], c |-> b.c]
         [] kind \in {"macro", "using"} -> LET a == RBody(InFunc, k - 1, r, c + 2) IN [n |-> [k |-> kind, body |-> a.b], c |-> a.c]
         [] kind = "switch2" -> LET a == RBody(sc, s1, r, c + 3)  b == RBody(sc, k - 1 - s1, r, a.c) IN [n |-> [k |-> "switch", cls |-> <<a.b, b.b>>], c |-> b.c]
         [] kind = "switch3" -> LET a == RBody(sc, s1, r, c + 3)  b == RBody(sc, s2, r, a.c)  d == RBody(sc, k - 1 - s1 - s2, r, b.c) IN
                               [n |-> [k |-> "switch", cls |-> <<a.b, b.b, d.b>>], c |-> d.c]

(* ------------------------------------------------------------------------------------------------
   fill: a shape becomes a tree.  cx = [vis: names in scope, here: names declared in the current block,
   t: tag of the block (chooses the letters of its text), pos: position in the block]; r = rotation of the
   case, c = number of the next slot.  Every F* operator returns the next c.
   ------------------------------------------------------------------------------------------------ *)
TmMix(r, c) == ((r % 65521) * 131) + (c * 7919) + (((r \div 13) % 4099) * ((2 * c) + 1))
Pk(alts, r, c) == alts[(TmMix(r, c) % Len(alts)) + 1]
RECURSIVE TmFree(_), TmFreeAll(_, _)
TmFree(x) == CASE x.e = "var" -> {x.v}
               [] x.e = "call" -> {x.f} \cup TmFreeAll(x.args, 1)
               [] x.e \in {"bin", "cmp", "and", "or"} -> TmFree(x.a) \cup TmFree(x.b)
               [] x.e \in {"not", "len"} -> TmFree(x.a)
               [] x.e = "idx" -> TmFree(x.a) \cup TmFree(x.i)
               [] x.e = "default" -> TmFree(x.d)
               [] x.e = "slice" -> TmFreeAll(x.xs, 1)
               [] OTHER -> {}
TmFreeAll(xs, i) == IF i > Len(xs) THEN {} ELSE TmFree(xs[i]) \cup TmFreeAll(xs, i + 1)
Visible(alts, cx) == SelectSeq(alts, LAMBDA x : TmFree(x) \subseteq cx.vis)
N0 == <<>>
Call0(f) == XCall(f, <<>>)
\* the alternative lists.  Each alternative is annotated ONCE with the names it mentions (Tables, carried in cx.T); the lists
\* of the alternatives whose names are in scope are recomputed only when the scope changes (SetVis) and carried in cx.xs
RawInt == <<XI(0), XI(1), XI(2), XV("n"), XBin("+", XV("n"), XI(1)), XLen(XV("s")), XLen(XV("l")), XIdx(XV("l"), XI(0)),
                      XBin("*", XV("n"), XI(2)), XBin("-", XV("n"), XI(1)), XV("i"), XV("i"), XBin("+", XV("i"), XV("n")), XV("v"), XV("m"), XV("k"),
                      XBin("/", XI(6), XV("n")), XBin("%", XV("n"), XI(2)), XIdx(XV("l"), XV("n")), XIdx(XV("l"), XV("i"))>>
\* shown only (a rune is an int32: it is not assignable to the int variables)
RawRune == <<XV("u"), XBin("+", XV("u"), XI(1))>>
\* K() changes n: it stands alone (the order of a variable read and a call within one expression is not specified by Go)
RawStr == <<XS(L(97)), XS(<<>>), XV("s"), XBin("+", XV("s"), XS(L(99))), Call0("M"), XCall("P", <<XV("s")>>), XCall("P", <<XS(L(122))>>),
                      Call0("K"), XV("w"), XV("y"), XV("t"), XV("p"), Call0("f"), Call0("N"), XCall("O", <<XS(L(122))>>), XCall("O", <<XV("s")>>),
                      XBin("+", Call0("M"), XS(L(99))), XBin("+", XV("t"), XV("s")), XV("y"), Call0("N"),
                      XCall("Q", <<XI(1), XV("b")>>), XCall("Q", <<XI(2), XB(FALSE)>>),
                      XCall("W", <<>>), XCall("W", <<XI(1)>>), XCall("W", <<XV("n"), XI(2)>>), XCallSp("W", <<XV("l")>>), XCallSp("W", <<XSl("int", <<>>)>>)>>
\* boolean typed, not constant (usable as the clauses of a switch without tag)
RawNCBool == <<XV("b"), XCmp("==", XV("n"), XI(1)), XCmp("<", XV("n"), XI(2)), XNot(XV("b")), XNot(XV("s")),
                         XAnd(XV("b"), XCmp("==", XV("n"), XI(1))), XOr(XV("s"), XV("n")), XCmp("==", XV("s"), XS(L(107))),
                         XAnd(XV("b"), Call0("K")), XOr(XV("b"), Call0("K")), XAnd(XNot(XV("b")), Call0("K")),
                         XCmp("==", XV("i"), XI(1)), XCmp("<", XV("i"), XI(1)), XCmp("==", XV("i"), XI(1)), XCmp("==", XV("v"), XI(3)),
                         XCmp("==", XV("w"), XS(L(120))), XCmp(">", XV("m"), XI(1)), XCmp("!=", XLen(XV("s")), XI(1)), XCmp(">=", XV("n"), XI(2)),
                         [XAnd(XV("b"), XV("b")) EXCEPT !.go = TRUE], [XOr(XV("b"), XCmp("==", XV("n"), XI(1))) EXCEPT !.go = TRUE], [XNot(XV("b")) EXCEPT !.go = TRUE],
                         XCmp("==", XV("k"), XI(1)), XAnd(XV("l"), XV("q")), XNot(XV("l")), XCmp("==", XV("u"), XI(97)), XCmp(">", XV("u"), XI(200))>>
\* more conditions: any type
RawCond == <<XV("s"), XV("n"), XV("l"), XV("i"), Call0("K"), Call0("M"), XLen(XV("s")), XV("v"), XV("w"), XV("t"), XV("m"),
                                    XSl("int", <<>>), XS(<<>>), XI(0), XV("y"), XV("p"), Call0("N")>>
RawDef == <<XDef("gs", XS(L(100))), XDef("gn", XI(7)), XDef("gu", XV("s")), XDef("gs", XV("s"))>>
Annot(xs) == [j \in 1..Len(xs) |-> <<TmFree(xs[j]), xs[j]>>] \o <<>>
Tables == [rune |-> Annot(RawRune), int |-> Annot(RawInt), str |-> Annot(RawStr), ncb |-> Annot(RawNCBool), cond |-> Annot(RawCond), def |-> Annot(RawDef)]
InScope(tab, vis) == LET sel == SelectSeq(tab, LAMBDA a : a[1] \subseteq vis) IN [j \in 1..Len(sel) |-> sel[j][2]] \o <<>>
Lists(T, vis) == LET int == InScope(T.int, vis)  str == InScope(T.str, vis)  ncb == InScope(T.ncb, vis) IN
                 [int |-> int, str |-> str, ncb |-> ncb, cond |-> <<XB(TRUE), XB(FALSE)>> \o ncb \o InScope(T.cond, vis),
                  show |-> int \o str \o ncb \o InScope(T.def, vis) \o InScope(T.rune, vis)]
SetVis(cx, vis) == IF vis = cx.vis THEN cx ELSE [cx EXCEPT !.vis = vis, !.xs = Lists(cx.T, vis)]
IntX(cx) == cx.xs.int
StrX(cx) == cx.xs.str
NCBoolX(cx) == cx.xs.ncb
BoolX(cx) == <<XB(TRUE), XB(FALSE)>> \o cx.xs.ncb
CondX(cx) == cx.xs.cond
ShowX(cx) == cx.xs.show

Inner(cx, tag) == [cx EXCEPT !.here = {}, !.t = (cx.t * 3) + tag, !.pos = 1]
Declare(cx, names) == [SetVis(cx, cx.vis \cup names) EXCEPT !.here = @ \cup names]
TextOf(cx, r, c) == LET a == 97 + (((cx.t * 5) + cx.pos) % 26) IN
                    IF TmMix(r, c) % 4 = 0 THEN <<a - 32, a>> ELSE <<a>>

RECURSIVE FBody(_, _, _, _, _), FNode(_, _, _, _)
FBody(sk, j, cx, r, c) ==
  IF j > Len(sk) THEN [b |-> <<>>, c |-> c]
  ELSE LET fn == FNode(sk[j], [cx EXCEPT !.pos = j], r, c)
           rest == FBody(sk, j + 1, fn.cx, r, fn.c) IN
       [b |-> <<fn.n>> \o rest.b, c |-> rest.c]
FR(n, cx, c) == [n |-> n, cx |-> cx, c |-> c]

\* an assignment to a visible variable that is not a loop variable (always possible: at least the prelude's, else a text)
FAssign(cx, r, c) ==
  LET targets == SelectSeq(<<"n", "s", "b", "m", "t", "n", "s">>, LAMBDA v : v \in cx.vis) IN
  IF targets = <<>> THEN FR(NText(TextOf(cx, r, c)), cx, c + 1) ELSE
  LET v == Pk(targets, r, c) IN
  IF v \in {"n", "m"} THEN
     LET op == Pk(<<"=", "+=", "++", "--", "-=", "=">>, r, c + 1) IN
     FR(NAssign(v, op, IF op = "=" THEN Pk(IntX(cx), r, c + 2) ELSE IF op \in {"+=", "-="} THEN Pk(<<XI(1), XI(2)>>, r, c + 2) ELSE XI(0)), cx, c + 3)
  ELSE IF v \in {"s", "t"} THEN
     LET op == Pk(<<"=", "+=", "=">>, r, c + 1)
         \* v += x reads v and evaluates x in an order that Go does not specify: x calls no generated macro (their bodies may assign to v)
         xs == IF op = "=" THEN StrX(cx) \o Visible(<<XDef("gs", XS(L(100))), XDef("gu", XV("s"))>>, cx)
               ELSE SelectSeq(StrX(cx), LAMBDA x : TmFree(x) \cap {"N", "O", "Q", "f"} = {}) IN
     FR(NAssign(v, op, Pk(xs, r, c + 2)), cx, c + 3)
  ELSE FR(NAssign(v, "=", Pk(BoolX(cx), r, c + 1)), cx, c + 3)

FVar(cx, r, c) ==
  LET cands == SelectSeq(<<"m", "t", "n", "s", "b", "m", "t">>, LAMBDA v : v \notin cx.here) IN
  IF cands = <<>> THEN FAssign(cx, r, c) ELSE
  LET v == Pk(cands, r, c)
      x == IF v \in {"n", "m"} THEN Pk(IntX(cx) \o <<XDef("gn", XI(7))>>, r, c + 1)
           ELSE IF v \in {"s", "t"} THEN Pk(StrX(cx) \o Visible(<<XDef("gs", XS(L(100))), XDef("gu", XV("s"))>>, cx), r, c + 1)
           ELSE Pk(BoolX(cx), r, c + 1) IN
  FR(NVar(v, x, TmMix(r, c + 2) % 2 = 0), Declare(cx, {v}), c + 3)

FShow(cx, r, c) ==
  LET xs == ShowX(cx) IN
  IF xs = <<>> THEN FR(NText(TextOf(cx, r, c)), cx, c + 1)
  ELSE IF TmMix(r, c) % 5 = 0                                   \* two operands
       THEN FR(NShow(<<Pk(xs, r, c + 1), Pk(xs, r, c + 2)>>, FALSE), cx, c + 3)
       ELSE FR(NShow(<<Pk(xs, r, c + 1)>>, TmMix(r, c + 2) % 2 = 0), cx, c + 3)

FExpr(cx, r, c) ==
  LET xs == Visible(<<Call0("K"), Call0("M"), XCall("P", <<XS(L(122))>>), Call0("N"), XCall("O", <<XV("s")>>), Call0("f"), Call0("K"),
                          XCall("Q", <<XI(2), XB(TRUE)>>)>>, cx) IN
  IF xs = <<>> THEN FR(NText(TextOf(cx, r, c)), cx, c + 1) ELSE FR(NExpr(Pk(xs, r, c)), cx, c + 1)

\* the shapes of a switch by number of clauses: <<default?, fallthrough?>> per clause
SwShapes(n) == IF n = 2 THEN << <<<<FALSE, FALSE>>, <<FALSE, FALSE>>>>, <<<<FALSE, TRUE>>, <<FALSE, FALSE>>>>, <<<<FALSE, FALSE>>, <<TRUE, FALSE>>>>,
                                <<<<FALSE, TRUE>>, <<TRUE, FALSE>>>>, <<<<TRUE, FALSE>>, <<FALSE, FALSE>>>>, <<<<TRUE, TRUE>>, <<FALSE, FALSE>>>> >>
               ELSE << <<<<FALSE, FALSE>>, <<FALSE, FALSE>>, <<FALSE, FALSE>>>>, <<<<FALSE, TRUE>>, <<FALSE, FALSE>>, <<TRUE, FALSE>>>>,
                       <<<<FALSE, FALSE>>, <<TRUE, TRUE>>, <<FALSE, FALSE>>>>, <<<<TRUE, FALSE>>, <<FALSE, TRUE>>, <<FALSE, FALSE>>>>,
                       <<<<FALSE, TRUE>>, <<FALSE, TRUE>>, <<TRUE, FALSE>>>>, <<<<FALSE, FALSE>>, <<FALSE, TRUE>>, <<TRUE, FALSE>>>>,
                       <<<<FALSE, TRUE>>, <<TRUE, TRUE>>, <<FALSE, FALSE>>>> >>
StrVals == <<L(107), L(97), L(98), L(122)>>
RECURSIVE FClauses(_, _, _, _, _, _, _)
\* tk: "int" / "str" / "cond"; off: rotation of the clause values
FClauses(bodies, shape, j, tk, off, cx, rc) ==
  IF j > Len(bodies) THEN [cls |-> <<>>, c |-> rc[2]]
  ELSE LET r == rc[1]  c == rc[2]
           fb == FBody(bodies[j], 1, Inner(cx, j), r, c + 1)
           two == TmMix(r, c) % 4 = 0
           vals == IF shape[j][1] THEN <<>>
                   ELSE IF tk = "int" THEN (IF two THEN <<XI((2 * j) + off - 2), XI((2 * j) + off + 5)>> ELSE <<XI((2 * j) + off - 2)>>)
                   ELSE IF tk = "str" THEN <<XS(StrVals[((j + off) % 4) + 1])>>
                   ELSE <<Pk(NCBoolX(cx), r, c)>>
           rest == FClauses(bodies, shape, j + 1, tk, off, cx, <<r, fb.c>>) IN
       [cls |-> <<NClause(shape[j][1], vals, fb.b, shape[j][2])>> \o rest.cls, c |-> rest.c]

FNode(sk, cx, r, c) ==
  CASE sk.k = "text" -> LET w == TmMix(r, c + 1) % 6 IN
                        FR(IF w = 0 THEN NComment(TextOf(cx, r, c)) ELSE IF w = 1 THEN NRaw(TextOf(cx, r, c), TmMix(r, c) % 2 = 1) ELSE NText(TextOf(cx, r, c)), cx, c + 2)
    [] sk.k = "show" -> FShow(cx, r, c)
    [] sk.k \in {"var", "assign", "expr"} ->
         LET f1 == IF sk.k = "var" THEN FVar(cx, r, c) ELSE IF sk.k = "assign" THEN FAssign(cx, r, c) ELSE FExpr(cx, r, c)
             w == TmMix(r, f1.c) % 8 IN
         IF w > 1 \/ f1.n.k = "text" THEN f1
         ELSE IF w = 0 THEN FR(NBlock(<<f1.n>>), f1.cx, f1.c + 1)                       \* {%% s %%}
         ELSE LET f2 == FAssign(f1.cx, r, f1.c + 1)  sh == FShow(f2.cx, r, f2.c) IN      \* {%% s1; s2; show x %%}
              IF f2.n.k = "text" \/ sh.n.k = "text" THEN f1 ELSE FR(NBlock(<<f1.n, f2.n, [sh.n EXCEPT !.br = FALSE]>>), f2.cx, sh.c)
    [] sk.k = "break" -> FR(NBreak, cx, c)
    [] sk.k = "continue" -> FR(NContinue, cx, c)
    [] sk.k = "if" ->
         LET withInit == TmMix(r, c) % 5 = 0
             cx1 == IF withInit THEN SetVis(cx, cx.vis \cup {"k"}) ELSE cx           \* {% if k := 1; ... %}
             cond == IF withInit THEN Pk(<<XCmp("==", XV("k"), XI(1)), XV("k"), XCmp("<", XV("k"), XV("n"))>> \o CondX(cx), r, c + 1)
                     ELSE Pk(CondX(cx), r, c + 1)
             fa == FBody(sk.a, 1, Inner(cx1, 1), r, c + 3)
             fe == IF sk.els = <<>> THEN [b |-> <<>>, c |-> fa.c]
                   ELSE IF sk.elif THEN LET fi == FNode(sk.els[1], [cx1 EXCEPT !.t = (cx.t * 3) + 2], r, fa.c) IN [b |-> <<fi.n>>, c |-> fi.c]
                   ELSE FBody(sk.els, 1, Inner(cx1, 2), r, fa.c) IN
         FR(NIf(IF withInit THEN <<NVar("k", Pk(<<XI(1), XI(0), XV("n")>>, r, c + 2), TRUE)>> ELSE <<>>, cond, fa.b, fe.b, sk.elif, TmMix(r, c + 2) % 2 = 1), cx, fe.c)
    [] sk.k = "for3" ->
         LET cxb == Declare(Inner(cx, 1), {"i"})
             fb == FBody(sk.body, 1, cxb, r, c + 4)
             post == Pk(<<NAssign("i", "++", XI(0)), NAssign("i", "+=", XI(1)), NAssign("i", "=", XBin("+", XV("i"), XI(1))), NAssign("i", "+=", XI(2)), NAssign("i", "++", XI(0))>>, r, c + 2) IN
         FR(NFor3("i", Pk(<<XI(0), XI(0), XI(1)>>, r, c), XCmp(Pk(<<"<", "<", "<=">>, r, c + 3), XV("i"), Pk(<<XI(2), XI(3), XI(1), XI(0), XI(2)>>, r, c + 1)),
                  post, fb.b, TmMix(r, c + 3) % 2 = 1), cx, fb.c)
    \* {% for c < lim %} / {% for %}: the body first increments the counter c of the prelude (nothing else assigns it), so the loops end
    [] sk.k \in {"while", "forever"} ->
         LET fb == FBody(sk.body, 1, Inner(cx, 1), r, c + 2)
             lim == Pk(<<XI(2), XI(3), XI(4), XI(6), XI(1)>>, r, c)
             inc == NAssign("c", Pk(<<"++", "+=">>, r, c + 1), XI(1)) IN
         FR(IF sk.k = "while" THEN NWhile(XCmp(Pk(<<"<", "<", "<=">>, r, c + 1), XV("c"), lim), <<inc>> \o fb.b, TmMix(r, c) % 2 = 1)
            ELSE NForever(<<inc, NIf(<<>>, XCmp(">", XV("c"), lim), <<NBreak>>, <<>>, FALSE, FALSE)>> \o fb.b, TmMix(r, c) % 2 = 1), cx, fb.c)
    [] sk.k = "select" -> LET fb == FBody(sk.body, 1, Inner(cx, 1), r, c + 1) IN FR(NSelect(fb.b, TmMix(r, c) % 2 = 1), cx, fb.c)
    [] sk.k \in {"range", "forin"} ->
         LET x == Pk(Visible(<<XV("l"), XV("q"), XSl("int", <<>>), XSl("string", <<>>), XSl("int", <<XI(5), XI(6), XI(7)>>), XSl("string", <<XS(L(117))>>),
                               XV("l"), XV("q"), XSl("int", <<XV("n"), XI(3)>>), XS(<<97, 98>>), XS(<<97, 195, 168, 98>>), XS(<<>>), XV("s"),
                               XMap(<<[k |-> L(97), v |-> 7]>>), XMap(<<>>), XMap(<<[k |-> L(107), v |-> 0]>>)>>, cx), r, c)
             \* what is ranged over: ints / strs (slices), str (a string: byte index, rune), map (string key, int value)
             kd == IF x.e = "slice" THEN (IF x.et = "int" THEN "ints" ELSE "strs") ELSE IF x.e = "str" THEN "str" ELSE IF x.e = "map" THEN "map"
                   ELSE IF x.v = "l" THEN "ints" ELSE IF x.v = "q" THEN "strs" ELSE "str"
             ik == IF kd = "map" THEN "w" ELSE "i"                      \* the names carry the types: i v int, w string
             ev == IF kd = "strs" THEN "w" ELSE IF kd = "str" THEN "u" ELSE "v"    \* u: a rune (int32): shown or compared with a constant only
             form == IF sk.k = "forin" THEN <<"", IF kd = "map" THEN "w" ELSE ev>>
                     ELSE Pk(<< <<"", "">>, <<ik, "">>, <<ik, ev>>, <<"_", ev>>, <<ik, ev>> >>, r, c + 1)
             cxb == Declare(Inner(cx, 1), {form[1], form[2]} \ {"", "_"})
             fb == FBody(sk.body, 1, cxb, r, c + 3)
             fe == FBody(sk.els, 1, Inner(cx, 2), r, fb.c) IN
         FR(IF sk.k = "forin" THEN NForIn(form[2], x, fb.b, fe.b, TmMix(r, c + 2) % 2 = 1) ELSE NRange(form[1], form[2], x, fb.b, fe.b, TmMix(r, c + 2) % 2 = 1), cx, fe.c)
    [] sk.k = "switch" ->
         LET tags == Visible(<<XV("n"), XLen(XV("s")), XV("s"), XB(TRUE), XV("i"), XV("v"), XBin("+", XV("n"), XI(1)), XV("m"), XV("w"), XV("k")>>, cx)
             tag0 == Pk(tags \o <<XB(TRUE)>>, r, c)
             withInit == TmMix(r, c + 1) % 5 = 0 /\ tag0.e # "bool"
             cx1 == IF withInit THEN SetVis(cx, cx.vis \cup {"k"}) ELSE cx
             tag == IF withInit THEN XV("k") ELSE tag0
             tk == IF tag0.e = "bool" THEN "cond" ELSE IF tag0.e = "var" /\ tag0.v \in {"s", "w"} THEN "str" ELSE "int"
             shape == Pk(SwShapes(Len(sk.cls)), r, c + 2)
             fc == FClauses(sk.cls, shape, 1, IF withInit THEN "int" ELSE tk, TmMix(r, c + 3) % 4, cx1, <<r, c + 4>>) IN
         FR(NSwitch(IF withInit THEN <<NVar("k", Pk(<<XI(1), XV("n"), XI(2)>>, r, c + 3), TRUE)>> ELSE <<>>,
                    IF tk = "cond" /\ ~withInit THEN <<>> ELSE <<tag>>, fc.cls, TmMix(r, c + 2) % 2 = 1), cx, fc.c)
    [] sk.k = "macro" ->
         \* N(), O(p string), Q(k int, b bool).  The generated part of a body does not see the macro's own name; the body of Q starts with
         \* {% if k > 0 %}{{ Q(k - 1, not b) }}{% end %}: a recursion bounded by its first argument (no generated statement assigns k)
         LET free == SelectSeq(<<"N", "O", "Q">>, LAMBDA nm : nm \notin cx.here)
             name == IF free = <<>> THEN "" ELSE Pk(free, r, c)
             ps == IF name = "O" THEN <<TmParam("p", "string")>> ELSE IF name = "Q" THEN <<TmParam("k", "int"), TmParam("b", "bool")>> ELSE <<>>
             pn == {ps[j].n : j \in 1..Len(ps)}
             cxb0 == Inner(cx, 1)
             cxb == [SetVis(cxb0, (cxb0.vis \ {name}) \cup pn) EXCEPT !.here = pn]
             fb == FBody(sk.body, 1, IF name = "" THEN cxb0 ELSE cxb, r, c + 2)
             guard == IF name = "Q" THEN <<NIf(<<>>, XCmp(">", XV("k"), XI(0)), <<NShow(<<XCall("Q", <<XBin("-", XV("k"), XI(1)), XNot(XV("b"))>>)>>, TRUE)>>, <<>>, FALSE, FALSE)>>
                      ELSE <<>> IN
         IF name = "" THEN FR(NIf(<<>>, XB(TRUE), fb.b, <<>>, FALSE, FALSE), cx, fb.c)
         ELSE FR(NMacro(name, ps, TmMix(r, c) % 2 = 0, Pk(<<"", "", "string">>, r, c + 1), guard \o fb.b, TmMix(r, c + 1) % 2 = 1), Declare(cx, {name}), fb.c)
    [] sk.k = "using" ->
         LET forms == <<"show", "var", "assign", "call", "showcall", "mshow", "mparam", "mvar", "default", "show2", "mshow2", "mvar", "var", "show">>
             form0 == Pk(forms, r, c)
             form == IF form0 \in {"call", "showcall"} /\ "P" \notin cx.vis THEN "show"
                     ELSE IF form0 = "assign" /\ "s" \notin cx.vis THEN "show" ELSE form0
             mac == form \in {"mshow", "mparam", "mvar", "mshow2"}
             ps == IF form = "mparam" THEN <<TmParam("p", "string")>> ELSE <<>>
             cxb0 == Inner(cx, 1)
             \* a macro that is stored in f may be called from bodies of N / O: its body calls no generated macro (no cycles)
             cxb == [SetVis(cxb0, IF form = "mvar" THEN cxb0.vis \ {"f", "N", "O", "Q"} ELSE IF form = "mparam" THEN cxb0.vis \cup {"p"} ELSE cxb0.vis)
                     EXCEPT !.here = IF form = "mparam" THEN {"p"} ELSE {}]
             fb == FBody(sk.body, 1, cxb, r, c + 3)
             itea == XV("itea")
             arg == Pk(Visible(<<XS(L(122)), XV("s"), XS(L(122))>>, cx), r, c + 1)
             newy == "y" \notin cx.here
             newf == "f" \notin cx.here
             stmt == CASE form = "show" -> NShow(<<itea>>, FALSE)
                       [] form = "show2" -> NShow(<<itea, itea>>, FALSE)
                       [] form = "var" -> IF newy THEN NVar("y", itea, TmMix(r, c + 1) % 2 = 0) ELSE NAssign("y", "=", itea)
                       [] form = "assign" -> NAssign("s", Pk(<<"=", "+=">>, r, c + 1), itea)
                       [] form = "call" -> NExpr(XCall("P", <<itea>>))
                       [] form = "showcall" -> NShow(<<XCall("P", <<itea>>)>>, FALSE)
                       [] form = "mshow" -> NShow(<<XCall("itea", <<>>)>>, FALSE)
                       [] form = "mshow2" -> NShow(<<XBin("+", XCall("itea", <<>>), XCall("itea", <<>>))>>, FALSE)
                       [] form = "mparam" -> NShow(<<XCall("itea", <<arg>>)>>, FALSE)
                       [] form = "mvar" -> IF newf THEN NVar("f", itea, TmMix(r, c + 1) % 2 = 0) ELSE NAssign("f", "=", itea)
                       [] form = "default" -> NShow(<<XDef("gs", itea)>>, FALSE)
             \* the type written after using: where a string is needed the type is written (in .html the implicit type is html)
             typ == IF form \in {"assign", "call", "showcall"} THEN "string"
                    ELSE IF form \in {"show", "show2", "default", "mshow", "mparam", "var"} THEN Pk(<<"", "", "string">>, r, c + 2)
                    ELSE ""
             cx2 == IF form = "var" /\ newy THEN Declare(cx, {"y"}) ELSE IF form = "mvar" /\ newf THEN Declare(cx, {"f"}) ELSE cx IN
         \* a result type is written after a parameter list only
         FR(NUsing(stmt, mac, ps, mac /\ (typ # "" \/ TmMix(r, c + 2) % 2 = 0), typ, fb.b, TmMix(r, c + 2) % 3 = 1), cx2, fb.c)

(* ------------------------------------------------------------------------------------------------
   cases
   ------------------------------------------------------------------------------------------------ *)
PreNames == {"n", "s", "b", "c", "l", "q", "M", "P", "K", "W"}
Cx0 == LET T == Tables IN [vis |-> PreNames, here |-> PreNames, t |-> 0, pos |-> 1, T |-> T, xs |-> Lists(T, PreNames)]
Globs == << <<>>, <<[n |-> "gs", t |-> "str", s |-> L(71), i |-> 0]>>,
            <<[n |-> "gs", t |-> "str", s |-> <<>>, i |-> 0], [n |-> "gn", t |-> "int", s |-> <<>>, i |-> 5]>> >>
\* .html: the tree is valid there too when no macro result / using value is used where a string is required
RECURSIVE HxOk(_, _), HxAll(_, _, _), HnOk(_, _), HbOk(_, _, _)
\* top: the expression is an operand of show / a condition / an operand of and, or, not (any type goes)
HxOk(x, top) == CASE x.e = "call" -> top /\ HxAll(x.args, 1, FALSE)
                  [] x.e \in {"and", "or"} -> HxOk(x.a, TRUE) /\ HxOk(x.b, TRUE)
                  [] x.e = "not" -> HxOk(x.a, TRUE)
                  [] x.e \in {"bin", "cmp"} -> HxOk(x.a, FALSE) /\ HxOk(x.b, FALSE)
                  [] x.e = "len" -> HxOk(x.a, FALSE)
                  [] x.e = "idx" -> HxOk(x.a, FALSE) /\ HxOk(x.i, FALSE)
                  [] x.e = "default" -> HxOk(x.d, FALSE)
                  [] OTHER -> TRUE
HxAll(xs, i, top) == i > Len(xs) \/ (HxOk(xs[i], top) /\ HxAll(xs, i + 1, top))
HsOk(s) == CASE s.k = "show" -> HxAll(s.xs, 1, TRUE) [] s.k \in {"var", "assign"} -> HxOk(s.x, FALSE) [] s.k = "expr" -> HxOk(s.x, TRUE) [] OTHER -> TRUE
\* txt: the body is text content (the type after using / the macro's result type is written as string): in an .html file
\* a macro cannot be declared there ("macro not in HTML content")
HnOk(nd, txt) == CASE nd.k \in {"show", "var", "assign", "expr"} -> HsOk(nd)
              [] nd.k = "block" -> \A j \in 1..Len(nd.ss) : HsOk(nd.ss[j])
              [] nd.k = "if" -> (nd.init = <<>> \/ HsOk(nd.init[1])) /\ HxOk(nd.c, TRUE) /\ HbOk(nd.a, 1, txt) /\ HbOk(nd.els, 1, txt)
              [] nd.k = "for3" -> HxOk(nd.from, FALSE) /\ HxOk(nd.c, FALSE) /\ HbOk(nd.body, 1, txt)
              [] nd.k \in {"while", "forever", "select"} -> HbOk(nd.body, 1, txt)
              [] nd.k \in {"range", "forin"} -> HbOk(nd.body, 1, txt) /\ HbOk(nd.els, 1, txt)
              [] nd.k = "switch" -> (nd.init = <<>> \/ HsOk(nd.init[1])) /\ (nd.tag = <<>> \/ HxOk(nd.tag[1], FALSE))
                                    /\ \A j \in 1..Len(nd.cls) : HxAll(nd.cls[j].vals, 1, FALSE) /\ HbOk(nd.cls[j].body, 1, txt)
              [] nd.k = "macro" -> ~txt /\ HbOk(nd.body, 1, nd.rt = "string")
              [] nd.k = "using" -> HbOk(nd.body, 1, txt \/ nd.typ = "string") /\ HsOk(nd.stmt)
                                   /\ (nd.mac \/ nd.typ = "string" \/ (nd.stmt.k = "show" /\ \A j \in 1..Len(nd.stmt.xs) : nd.stmt.xs[j].e \in {"var", "default"}))
              [] OTHER -> TRUE
HbOk(b, i, txt) == i > Len(b) \/ (HnOk(b[i], txt) /\ HbOk(b, i + 1, txt))

\* the layout of a case: one file for most, the others by rotation
LayoutOf(id) == <<"single", "import", "single", "extends", "single", "render", "single", "importas", "single", "extendsside", "single",
                  "import3", "single", "extimport", "single", "extparam", "single", "renderin", "single">>[(id % 19) + 1]
MkCase(id, fam, tree, g, shape) ==
  [id |-> id, fam |-> fam, fmt |-> IF HbOk(tree, 1, FALSE) /\ id % 3 = 0 THEN "html" ELSE "txt", lay |-> LayoutOf(id), pre |-> "P1", glob |-> g, tree |-> tree,
   src |-> TmSrc(tree), shape |-> shape]

\* ---- family ctl
\* (S, the sequence of all shapes, is passed as an argument: TLC evaluates an argument once, but a definition that
\*  uses RECURSIVE operators at every reference)
CtlCase(S, X, j) == LET sh == ((j - 1) \div TmplVariants) + 1
                  r == (j * 7) + (TmplSeed * 1009) + (((j - 1) % TmplVariants) * 523)
                  fb == FBody(S[sh], 1, X, r, 0) IN
              MkCase(j, "ctl", fb.b, Globs[(r % 3) + 1], sh)
\* only every TmplStride-th shape is filled and exported when the bound is large (thorough tier)
CtlIdx(n) == {j \in 1..(n * TmplVariants) : (((j - 1) \div TmplVariants) + TmplSeed) % TmplStride = 0}

\* ---- family expr
AtomsInt == {XI(0), XI(1), XV("n"), XLen(XV("s")), XIdx(XV("l"), XI(0)), XIdx(XV("l"), XI(5)), XBin("/", XI(7), XBin("-", XV("n"), XI(1)))}
AtomsStr == {XS(<<>>), XS(L(97)), XV("s"), Call0("K"), Call0("M")}
AtomsBool == {XB(TRUE), XB(FALSE), XV("b")}
AtomsSl == {XV("l"), XSl("int", <<>>), XV("q")}
AtomsAny == AtomsInt \cup AtomsStr \cup AtomsBool \cup AtomsSl
PureInt == AtomsInt
PureStr == {XS(<<>>), XS(L(97)), XV("s"), Call0("M")}              \* no K() next to a variable read
Depth1 == {XNot(a) : a \in AtomsAny} \cup {XAnd(a, b) : a, b \in AtomsAny} \cup {XOr(a, b) : a, b \in AtomsAny}
          \cup {XCmp(op, a, b) : op \in {"==", "<"}, a, b \in PureInt} \cup {XCmp(op, a, b) : op \in {"==", "!=", "<", ">="}, a, b \in PureStr}
          \cup {XBin(op, a, b) : op \in {"+", "-"}, a, b \in PureInt} \cup {XBin("+", a, b) : a, b \in PureStr}
          \cup {XBin(op, XV("n"), b) : op \in {"/", "%"}, b \in {XI(2), XV("n"), XBin("-", XV("n"), XI(1))}}
Small == {XV("s"), XI(0), XV("b"), Call0("K"), XIdx(XV("l"), XI(5)), XSl("int", <<>>), XB(TRUE), XCmp("==", XV("n"), XI(2))}
Depth2 == {XAnd(a, XOr(b, c)) : a, b, c \in Small} \cup {XOr(a, XAnd(b, c)) : a, b, c \in Small}
          \cup {XNot(XAnd(a, b)) : a, b \in Small} \cup {XAnd(XNot(a), b) : a, b \in Small} \cup {XOr(XAnd(a, b), c) : a, b, c \in Small}
ExprShowable(x) == x.e \in {"int", "str", "bool", "and", "or", "not", "cmp", "bin", "len", "idx", "call"} \/ (x.e = "var" /\ x.v \in {"n", "s", "b"})
ShowN == <<NShow(<<XV("n")>>, TRUE)>>
ExprTrees == {<<NIf(<<>>, x, <<NText(L(84))>>, <<NText(L(70))>>, FALSE, FALSE)>> \o ShowN : x \in AtomsAny \cup Depth1 \cup Depth2}
             \cup {<<NShow(<<x>>, TRUE)>> \o ShowN : x \in {y \in AtomsAny \cup Depth1 : ExprShowable(y)}}
             \cup {<<NShow(<<x>>, FALSE)>> : x \in {XDef("gs", XS(L(100))), XDef("gn", XI(7)), XDef("gu", XV("s")), XDef("gs", Call0("K"))}}
             \cup {<<NVar("t", XDef("gs", Call0("K")), FALSE), NShow(<<XV("t"), XV("n")>>, FALSE)>>, <<NAssign("s", "=", XDef("gs", Call0("K"))), NShow(<<XV("s"), XV("n")>>, FALSE)>>,
                   <<NVar("m", XDef("gn", XBin("/", XI(1), XBin("-", XV("n"), XI(1)))), TRUE), NShow(<<XV("m")>>, TRUE)>>}
ExprSeq == SetToSeq(ExprTrees)

\* ---- family probe: behaviours that need more nodes than the bound (see the comments)
Itea == XV("itea")
UsingVarF(body) == NUsing(NVar("f", Itea, FALSE), TRUE, <<>>, FALSE, "", body, FALSE)
UsingSetF(body) == NUsing(NAssign("f", "=", Itea), TRUE, <<>>, TRUE, "", body, TRUE)
ShowV(v) == NShow(<<XV(v)>>, TRUE)
Probes == <<
  \* a macro stored in f inside a loop reads the loop variable of ITS iteration (three-clause, range, for in)
  <<UsingVarF(<<NText(L(122))>>), NFor3("i", XI(0), XCmp("<", XV("i"), XI(3)), NAssign("i", "++", XI(0)),
       <<NIf(<<>>, XCmp("==", XV("i"), XI(1)), <<UsingSetF(<<ShowV("i")>>)>>, <<>>, FALSE, FALSE)>>, FALSE), NShow(<<Call0("f")>>, TRUE)>>,
  <<UsingVarF(<<NText(L(122))>>), NForIn("v", XSl("int", <<XI(5), XI(6), XI(7)>>),
       <<NIf(<<>>, XCmp("==", XV("v"), XI(6)), <<UsingSetF(<<ShowV("v")>>)>>, <<>>, FALSE, FALSE)>>, <<>>, FALSE), NShow(<<Call0("f")>>, TRUE)>>,
  <<UsingVarF(<<NText(L(122))>>), NRange("i", "w", XV("q"),
       <<NIf(<<>>, XCmp("==", XV("i"), XI(0)), <<UsingSetF(<<ShowV("i"), ShowV("w")>>)>>, <<>>, FALSE, FALSE)>>, <<>>, FALSE), NShow(<<Call0("f")>>, TRUE)>>,
  \* a recursive macro
  <<NMacro("O", <<TmParam("k", "int")>>, FALSE, "", <<NIf(<<>>, XCmp(">", XV("k"), XI(0)), <<ShowV("k"), NShow(<<XCall("O", <<XBin("-", XV("k"), XI(1))>>)>>, TRUE)>>, <<>>, FALSE, FALSE)>>, FALSE),
    NShow(<<XCall("O", <<XI(3)>>)>>, TRUE)>>,
  \* nested using: the inner value is computed while the outer body is rendered
  <<NUsing(NShow(<<Itea>>, FALSE), FALSE, <<>>, FALSE, "", <<NText(L(97)), NUsing(NShow(<<Itea>>, FALSE), FALSE, <<>>, FALSE, "", <<NText(L(98)), ShowV("n")>>, FALSE), NText(L(99))>>, TRUE)>>,
  \* using once inside a loop: rendered at every execution of the statement
  <<NFor3("i", XI(0), XCmp("<", XV("i"), XI(3)), NAssign("i", "++", XI(0)), <<NUsing(NVar("y", Itea, FALSE), FALSE, <<>>, FALSE, "string", <<ShowV("i")>>, FALSE), NShow(<<XV("y"), XV("y")>>, FALSE)>>, FALSE)>>,
  \* the body of using changes a variable that the statement reads: the body runs first
  <<NUsing(NShow(<<XV("n"), Itea, XV("n")>>, FALSE), FALSE, <<>>, FALSE, "", <<NAssign("n", "=", XI(8)), NText(L(97))>>, FALSE)>>,
  \* using macro: called twice, the body counts
  <<NUsing(NShow(<<XCall("itea", <<>>), XV("n"), XCall("itea", <<>>)>>, FALSE), TRUE, <<>>, TRUE, "", <<NAssign("n", "++", XI(0)), ShowV("n")>>, FALSE)>>,
  \* break and continue inside a switch inside a loop, with fallthrough
  <<NFor3("i", XI(0), XCmp("<", XV("i"), XI(4)), NAssign("i", "++", XI(0)),
      <<NSwitch(<<>>, <<XV("i")>>, <<NClause(FALSE, <<XI(0)>>, <<NText(L(97))>>, TRUE), NClause(FALSE, <<XI(1)>>, <<NText(L(98)), NBreak, NText(L(120))>>, FALSE),
                                    NClause(FALSE, <<XI(2)>>, <<NContinue>>, FALSE), NClause(TRUE, <<>>, <<NText(L(100))>>, FALSE)>>, FALSE), ShowV("i")>>, FALSE)>>,
  \* for else with a break in the first iteration, with continue in every iteration, over an empty slice
  <<NForIn("v", XV("l"), <<NBreak>>, <<NText(L(101))>>, FALSE), NForIn("v", XV("l"), <<NContinue, NText(L(120))>>, <<NText(L(101))>>, FALSE),
    NRange("", "", XSl("string", <<>>), <<NText(L(120))>>, <<NText(L(101))>>, TRUE)>>,
  \* shadowing: a macro keeps seeing the variable of its declaration
  <<NIf(<<>>, XB(TRUE), <<NVar("n", XI(9), FALSE), NShow(<<Call0("M"), XV("n")>>, FALSE), NExpr(Call0("K")), ShowV("n")>>, <<>>, FALSE, FALSE), ShowV("n")>>,
  \* a break in a range loop inside a three-clause for / inside a switch ends the range loop only; a continue in a three-clause
  \* for inside a range loop continues that for
  <<NFor3("i", XI(0), XCmp("<", XV("i"), XI(2)), NAssign("i", "++", XI(0)), <<NText(L(97)), NForIn("v", XV("l"), <<NText(L(118)), NBreak>>, <<>>, FALSE), NText(L(98))>>, FALSE)>>,
  <<NSwitch(<<>>, <<XV("n")>>, <<NClause(FALSE, <<XI(1)>>, <<NRange("", "", XV("q"), <<NText(L(118)), NBreak>>, <<>>, FALSE), NText(L(98))>>, FALSE), NClause(TRUE, <<>>, <<NText(L(100))>>, FALSE)>>, FALSE)>>,
  <<NForIn("w", XV("q"), <<NText(L(97)), NFor3("i", XI(0), XCmp("<", XV("i"), XI(2)), NAssign("i", "++", XI(0)), <<NText(L(118)), NContinue, NText(L(120))>>, FALSE), NText(L(98))>>, <<>>, FALSE)>>,
  \* {% end using %} written with its keyword inside a macro whose result type is written; another macro follows (.html)
  <<NMacro("N", <<>>, TRUE, "string", <<NText(L(118)), NUsing(NShow(<<Itea>>, FALSE), FALSE, <<>>, FALSE, "", <<NText(L(111))>>, TRUE), NText(L(120))>>, TRUE),
    NMacro("O", <<>>, FALSE, "", <<NText(L(107))>>, FALSE), NShow(<<Call0("N"), Call0("O")>>, FALSE)>>,
  \* a fallthrough after a macro declaration / a using statement; a continue after a for without condition; a map key next to
  \* another string variable; a run-time error in a macro called from a macro (the reference: the run fails with a run error)
  <<NSwitch(<<>>, <<XV("n")>>, <<NClause(FALSE, <<XI(1)>>, <<NUsing(NShow(<<Itea>>, FALSE), FALSE, <<>>, FALSE, "", <<NText(L(117))>>, FALSE)>>, TRUE),
                                NClause(FALSE, <<XI(2)>>, <<NText(L(98))>>, FALSE)>>, FALSE)>>,
  <<NForIn("v", XV("l"), <<NText(L(97)), NForever(<<NText(L(120)), NBreak>>, FALSE), NIf(<<>>, XCmp("==", XV("v"), XI(3)), <<NContinue>>, <<>>, FALSE, FALSE), NText(L(98))>>, <<>>, FALSE)>>,
  <<NRange("w", "", XMap(<<[k |-> L(97), v |-> 7]>>), <<NAssign("s", "+=", XV("w"))>>, <<>>, FALSE)>>,
  <<NMacro("N", <<>>, FALSE, "", <<NShow(<<XIdx(XV("l"), XI(5))>>, TRUE)>>, FALSE), NMacro("O", <<>>, FALSE, "", <<NText(L(97)), NShow(<<Call0("N")>>, TRUE)>>, FALSE), NShow(<<Call0("O")>>, TRUE)>>,
  \* the body of a using is not rendered when itea is never evaluated (gs declared) - and is when gs is not declared
  <<NUsing(NShow(<<XDef("gs", Itea)>>, FALSE), FALSE, <<>>, FALSE, "", <<NAssign("n", "=", XI(8)), NShow(<<XIdx(XV("l"), XI(9))>>, TRUE)>>, FALSE), ShowV("n")>>
>>

DeepCase(X, j) == LET r == (j * 31) + (TmplSeed * 7717)
                   sh == RBody(Top, TmplDeepMin + (j % (TmplDeepMax + 1 - TmplDeepMin)), r, 0).b
                   fb == FBody(sh, 1, X, r + 3, 0) IN
               MkCase(3000000 + j, "deep", fb.b, Globs[(r % 3) + 1], 0)
\* ---- family reject: a break / continue that crosses the boundary of a using or macro body must be refused at build time
Rejects == <<
  <<NFor3("i", XI(0), XCmp("<", XV("i"), XI(2)), NAssign("i", "++", XI(0)), <<NUsing(NShow(<<Itea>>, FALSE), FALSE, <<>>, FALSE, "", <<NText(L(97)), NBreak>>, FALSE)>>, FALSE)>>,
  <<NForIn("v", XV("l"), <<NUsing(NShow(<<Itea>>, FALSE), FALSE, <<>>, FALSE, "", <<NText(L(97)), NContinue>>, TRUE)>>, <<>>, FALSE)>>,
  <<NSwitch(<<>>, <<XV("n")>>, <<NClause(FALSE, <<XI(1)>>, <<NUsing(NVar("y", Itea, FALSE), FALSE, <<>>, FALSE, "", <<NBreak>>, FALSE)>>, FALSE), NClause(TRUE, <<>>, <<>>, FALSE)>>, FALSE)>>,
  <<NFor3("i", XI(0), XCmp("<", XV("i"), XI(2)), NAssign("i", "++", XI(0)), <<NUsing(NShow(<<XCall("itea", <<>>)>>, FALSE), TRUE, <<>>, TRUE, "", <<NIf(<<>>, XB(TRUE), <<NBreak>>, <<>>, FALSE, FALSE)>>, FALSE)>>, FALSE)>>,
  <<NWhile(XCmp("<", XV("c"), XI(2)), <<NAssign("c", "++", XI(0)), NMacro("N", <<>>, FALSE, "", <<NContinue>>, FALSE)>>, FALSE)>>,
  <<NSelect(<<NMacro("N", <<>>, TRUE, "string", <<NBreak>>, TRUE)>>, FALSE)>>,
  <<NForever(<<NBreak, NUsing(NShow(<<Itea>>, FALSE), FALSE, <<>>, FALSE, "", <<NFor3("i", XI(0), XCmp("<", XV("i"), XI(1)), NAssign("i", "++", XI(0)), <<NBreak>>, FALSE), NContinue>>, FALSE)>>, FALSE)>>
>>
\* the run is split over TmplParts TLC processes: process TmplPart takes every TmplParts-th case of each family
Mine(n) == SetToSeq({j \in 1..n : j % TmplParts = TmplPart})
CasesOf(S, E, P, X) ==
  LET ci == SetToSeq(CtlIdx(Len(S)))
      mc == Mine(Len(ci))  me == Mine(Len(E))  mp == Mine(3 * Len(P))  md == Mine(TmplDeep)
      ctl == [j \in 1..Len(mc) |-> CtlCase(S, X, ci[mc[j]])]
      ex == [j \in 1..Len(me) |-> MkCase(1000000 + me[j], "expr", E[me[j]], Globs[(me[j] % 3) + 1], 0)]
      pr == [j \in 1..Len(mp) |-> MkCase(2000000 + mp[j], "probe", P[((mp[j] - 1) \div 3) + 1], Globs[((mp[j] - 1) % 3) + 1], 0)]
      dp == [j \in 1..Len(md) |-> DeepCase(X, md[j])]
      rj == IF TmplPart = 0 THEN [j \in 1..Len(Rejects) |-> [MkCase(4000000 + (19 * j), "reject", Rejects[j], <<>>, 0) EXCEPT !.fmt = IF j % 2 = 0 THEN "html" ELSE "txt"]] ELSE <<>> IN
  \* a filled tree that is outside the reference's domain (out of fuel, a string doubled in nested loops) is dropped here
  SelectSeq((IF TmplFamilies \in {"all", "ctl"} THEN ctl ELSE <<>>) \o (IF TmplFamilies \in {"all", "expr"} THEN ex ELSE <<>>)
            \o (IF TmplFamilies \in {"all", "expr", "probe"} THEN pr ELSE <<>>) \o (IF TmplFamilies \in {"all", "deep"} THEN dp ELSE <<>>),
            LAMBDA cs : TmRun(TmEquiv(cs.lay, "P1", cs.tree), cs.glob, "periter").outcome \in {"ok", "runerror"})
  \o (IF TmplFamilies = "all" THEN rj ELSE <<>>)
\* (the shapes are bound to a VALUE by a comprehension over a singleton before the cases are built from them)
Cases == CHOOSE C \in {CasesOf(S, E, P, X) : S \in {SetToSeq(SkAll(TmplMaxNodes))}, E \in {ExprSeq}, P \in {Probes}, X \in {Cx0}} : TRUE

(* ------------------------------------------------------------------------------------------------
   theorems, checked by TLC on every case
   ------------------------------------------------------------------------------------------------ *)
Ref(body, g) == TmRun(TmWhole("P1", body), g, "periter")
Same(a, b) == a.outcome = b.outcome /\ a.out = b.out
Without(sq, j) == SubSeq(sq, 1, j - 1) \o SubSeq(sq, j + 1, Len(sq))
Theorems(cs) ==
  LET B == cs.tree  g == cs.glob
      base == Ref(B, g)
      zz == XV("zz")
      once == Ref(<<NVar("zz", XI(0), FALSE), NUsing(NVar("yy", Itea, FALSE), FALSE, <<>>, FALSE, "", B \o <<NShow(<<zz>>, TRUE)>>, FALSE),
                    NAssign("zz", "=", XI(7)), NShow(<<XV("yy")>>, TRUE)>>, g)
      atcall == Ref(<<NVar("zz", XI(0), FALSE), NUsing(NVar("yy", Itea, FALSE), TRUE, <<>>, FALSE, "", B \o <<NShow(<<zz>>, TRUE)>>, FALSE),
                      NAssign("zz", "=", XI(7)), NShow(<<XCall("yy", <<>>)>>, TRUE)>>, g) IN
  [id |-> cs.id,
   indomain |-> cs.fam = "reject" \/ base.outcome \in {"ok", "runerror"},      \* (family reject: templates that must be refused)
   iftrue |-> Same(Ref(<<NIf(<<>>, XB(TRUE), B, <<NText(L(90))>>, FALSE, FALSE)>>, g), base),
   forzero |-> Same(Ref(<<NForIn("v", XSl("int", <<>>), <<NText(L(90))>>, B, FALSE)>>, g), base),
   usingshow |-> Same(Ref(<<NUsing(NShow(<<Itea>>, FALSE), FALSE, <<>>, FALSE, "", B, FALSE)>>, g), base),
   macrocall |-> Same(Ref(<<NMacro("ZZ", <<>>, FALSE, "", B, FALSE), NShow(<<XCall("ZZ", <<>>)>>, TRUE)>>, g), base),
   oncevsmacro |-> /\ once.outcome = base.outcome /\ atcall.outcome = base.outcome
                   /\ (base.outcome = "ok" => \E j \in 1..Len(once.out) :           \* (the epilogue follows the shown value)
                          /\ once.out[j] = 48 /\ Without(once.out, j) = base.out
                          /\ Len(atcall.out) = Len(once.out) /\ atcall.out[j] = 55 /\ Without(atcall.out, j) = base.out),
   layout |-> LET eq == TmRun(TmEquiv(cs.lay, "P1", B), g, "periter")  o == base.out IN
              /\ (cs.lay \notin {"extparam", "renderin"} => eq.outcome = base.outcome)
              /\ (base.outcome = "ok" => eq.out = CASE cs.lay = "single" -> o
                                                   [] cs.lay \in {"import", "importas"} -> <<120>> \o o \o <<55>>
                                                   [] cs.lay = "extends" -> <<120>> \o o \o <<121, 100, 101>>
                                                   [] cs.lay = "extendsside" -> <<120>> \o o \o <<121, 115, 101>>
                                                   [] cs.lay = "render" -> <<97>> \o o \o <<98>> \o o \o <<100>>
                                                   [] cs.lay = "import3" -> <<120, 116>> \o o \o <<55>>
                                                   [] cs.lay = "extimport" -> <<120, 98>> \o o \o <<121>>
                                                   [] OTHER -> eq.out),          \* extparam / renderin: the body runs several times
   size |-> cs.src # <<>> /\ (cs.fam = "ctl" => TmTreeSize(cs.tree) <= 4 * TmplMaxNodes) /\ (cs.fam = "deep" => TmTreeSize(cs.tree) <= 4 * TmplDeepMax)]

\* Two phases, two TLC runs (measured: with several workers TLC evaluates the single-threaded generation 6 times slower):
\*   TmplPhase = "gen"    one worker: the case sequence is computed ONCE (bound by \E over a singleton: TLC re-evaluates a
\*                        definition that uses RECURSIVE operators at every reference) and exported; no behaviour to explore
\*   TmplPhase = "check"  many workers: the exported cases are read back (a constant that TLC evaluates once), every case NUMBER is
\*                        an initial state, the step runs the theorems on that case
VARIABLES cs, res
CasesIn == IF TmplPhase = "check" THEN ndJsonDeserialize("cases.ndjson") ELSE <<>>
Init == IF TmplPhase = "gen"
        THEN \E C \in {Cases} : /\ PrintT(<<"cases generated", Len(C), JavaTime>>)
                                /\ ndJsonSerialize("cases.ndjson", C)
                                /\ ndJsonSerialize("frame.ndjson", SetToSeq({[lay |-> la, fmt |-> ex, pre |-> "P1", files |-> TmFrame(la, "P1", ex)] :
                                                                               la \in TmLayouts, ex \in {"txt", "html"}}))
                                /\ cs = 0 /\ res = [id |-> -1]
        ELSE cs \in 1..Len(CasesIn) /\ res = [id |-> 0]
Next == res.id = 0 /\ res' = Theorems(CasesIn[cs]) /\ UNCHANGED cs
ThInDomain == res.id > 0 => res.indomain
ThIfTrue == res.id > 0 => res.iftrue
ThForZeroElse == res.id > 0 => res.forzero
ThUsingShow == res.id > 0 => res.usingshow
ThMacroCall == res.id > 0 => res.macrocall
ThOnceVsMacro == res.id > 0 => res.oncevsmacro
ThSize == res.id > 0 => res.size
ThLayout == res.id > 0 => res.layout
=============================================================================

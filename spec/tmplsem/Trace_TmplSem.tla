---------------------------- MODULE Trace_TmplSem ----------------------------
(* X01 judge.  One record per line of obs.ndjson (harness/cmd/x01):
     {id, fam, fmt, lay, pre, glob, tree, src, outcome, out, msg}
   tree / lay / pre / glob are the case as exported by MC_TmplSem (echoed by the driver), src the source text of the tree (the
   driver builds the files of the layout lay from the texts that TLC exported in frame.ndjson: TmplSem!TmFrame; the reference
   interprets the one-file tree that the layout is equivalent to: TmplSem!TmEquiv), outcome = "ok" (out = the bytes that Run wrote) | "builderror" | "runerror" | "hostpanic" | "timeout",
   msg the error text (never judged: it only goes into the diagnostics).

   The judge has an opinion when the printer, applied again to the echoed tree, gives exactly the source that ran
   (so the judged tree IS what ran) and the reference interpreter has an outcome for it.  Then:
     reference "ok"        the template must have been built and run, and its output must equal the reference output;
     reference "runerror"  the run must have failed with a run-time error of the template (the bytes written before
                           it and the wording of the error are not compared).
   A build error on a tree of the grammar is a mismatch: the grammar generates valid templates only.
   This family decides no listed property: a mismatch is a DIAGNOSTIC, classified by hand as "the reference is
   wrong" or "Scriggo departs from its documentation / from Go". *)
EXTENDS TmplSem, TLC, Json, SequencesExt

Full(r) == TmEquiv(r.lay, r.pre, r.tree)
\* <<has opinion, ok, reference outcome, reference output>>
Verdict(r) ==
  LET full == Full(r)
      \* a misplaced break / continue (family "reject"): the template must be refused at build time (only the class is judged)
      ref == IF TmSrc(r.tree) # r.src THEN [outcome |-> "undef", out |-> <<>>]
             ELSE IF TmMisplacedJump(r.tree) THEN [outcome |-> "builderror", out |-> <<>>]
             ELSE TmRun(full, r.glob, "periter")
      op == ref.outcome \in {"ok", "runerror", "builderror"} IN
  <<op,
    ~op \/ (IF ref.outcome = "ok" THEN r.outcome = "ok" /\ r.out = ref.out ELSE r.outcome = ref.outcome),
    ref.outcome, ref.out>>
\* the root cause as far as the reference can name it
Cause(r, v) ==
  LET pats == TmNestedLoopPatterns(r.tree) IN
  IF r.outcome = "builderror" /\ r.fmt = "html" /\ "end-using-in-typed-body" \in pats THEN "context-not-restored-after-end-using"
  ELSE IF r.outcome = "builderror" /\ "fallthrough-after-macro-or-using" \in pats THEN "fallthrough-after-macro-or-using-refused"
  ELSE IF r.outcome = "hostpanic" /\ v[3] = "runerror" THEN "run-error-in-nested-macro-call-panics-into-host"
  ELSE IF v[3] = "builderror" THEN "misplaced-break-or-continue-accepted"
  ELSE IF r.outcome \in {"builderror", "hostpanic"} THEN r.outcome
  ELSE IF v[3] = "ok" /\ r.outcome = "runerror" THEN "unexpected-run-error"
  ELSE IF v[3] = "runerror" /\ r.outcome = "ok" THEN "missing-run-error"
  ELSE IF r.outcome = "ok" /\ r.out = TmRun(Full(r), r.glob, "shared").out THEN "one-loop-variable-for-all-iterations"
  ELSE IF "break-in-range" \in pats THEN "break-in-range-nested-in-for-or-switch"
  ELSE IF "continue-in-for" \in pats THEN "continue-in-for-nested-in-range"
  ELSE IF "for-without-condition" \in pats THEN "continue-after-or-in-for-without-condition"
  ELSE IF "map-range-key" \in pats THEN "map-range-key-in-wrong-register"
  ELSE IF r.outcome = "ok" THEN "output-differs" ELSE r.outcome
\* a named root cause is the signature; an unnamed one is told apart by the construct kinds of the tree
Named == {"fallthrough-after-macro-or-using-refused", "run-error-in-nested-macro-call-panics-into-host", "continue-after-or-in-for-without-condition",
          "map-range-key-in-wrong-register", "context-not-restored-after-end-using", "one-loop-variable-for-all-iterations", "break-in-range-nested-in-for-or-switch", "continue-in-for-nested-in-range"}
Sig(r, v) == LET c == Cause(r, v) IN
             [fam |-> "tmplsem", cause |-> c, fmt |-> r.fmt, kinds |-> IF c \in Named THEN <<>> ELSE SetToSeq(TmTreeKinds(r.tree))]

(* ---- record walk: one state per record; the indexes of the first bad records are carried in the state (bounded),
   so that a run with many mismatches does not judge every record twice ---- *)
VARIABLES l, acc
Obs == ndJsonDeserialize("obs.ndjson")
MaxBad == 800
Init == l = 1 /\ acc = [nbad |-> 0, nundef |-> 0, nrunerr |-> 0, bad |-> <<>>]
\* one pure expression per step (an operator applied at action level would evaluate its argument at every use)
Upd(a, k, v) == [nbad |-> a.nbad + (IF v[2] THEN 0 ELSE 1), nundef |-> a.nundef + (IF v[1] THEN 0 ELSE 1),
                 nrunerr |-> a.nrunerr + (IF v[3] = "runerror" THEN 1 ELSE 0),
                 bad |-> IF v[2] \/ Len(a.bad) >= MaxBad THEN a.bad ELSE Append(a.bad, k)]
Next == l <= Len(Obs) /\ l' = l + 1 /\ acc' = Upd(acc, l, Verdict(Obs[l]))
BadRec(k, v) == [k |-> k, id |-> Obs[k].id, sig |-> Sig(Obs[k], v), refoutcome |-> v[3], refout |-> v[4], nbad |-> acc.nbad]
Done == l = Len(Obs) + 1 =>
          /\ ndJsonSerialize("bad.ndjson", [j \in 1..Len(acc.bad) |-> BadRec(acc.bad[j], Verdict(Obs[acc.bad[j]]))])
          /\ ndJsonSerialize("stats.ndjson", <<[records |-> Len(Obs), bad |-> acc.nbad, ref_undefined |-> acc.nundef, ref_runerror |-> acc.nrunerr]>>)
Consumed == TLCGet("stats").diameter - 1 = Len(Obs)
=============================================================================

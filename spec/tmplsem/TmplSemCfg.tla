----------------------------- MODULE TmplSemCfg -----------------------------
(* Run parameters of MC_TmplSem, in a module without CONSTANTS so that TLC evaluates the generated case
   sequence once (a module that declares CONSTANTS has its definitions re-evaluated at every reference).
   THIS FILE IS A SAMPLE: checks/x01.py writes its own copy into the staging directory of every run. *)
TmplMaxNodes == 3          \* bound on the number of nodes of a shape
TmplVariants == 1          \* fills per shape
TmplSeed == 1              \* rotates the fills (VERIF_SEED)
TmplStride == 1            \* only every TmplStride-th shape is filled (large bounds)
TmplDeep == 50             \* number of pseudo-random deep shapes
TmplDeepMin == 5           \* their smallest ...
TmplDeepMax == 8           \* ... and largest number of nodes
TmplParts == 1             \* the run is split over TmplParts processes ...
TmplPart == 0              \* ... this is process TmplPart (0 .. TmplParts - 1)
TmplPhase == "gen"         \* "gen": generate and export the cases | "check": read them back and check the theorems
TmplFamilies == "all"      \* "all" | "ctl" | "expr" | "probe" | "deep"
=============================================================================

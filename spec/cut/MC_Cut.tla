------------------------------- MODULE MC_Cut -------------------------------
(* Model check of the implementation-shaped cut machine against the envelope, over EVERY piece
   sequence of length <= MaxLen over the class representatives MCAlpha (a shebang only first).
   One action per branch of ParseTemplateSource's loop body.  Both readings of the end-of-file
   trigger (`tok.pos.End == lastIndex`: any token, as written / text tokens only) are explored;
   which one IS the code is decided by trace validation (Trace_Cut, drift counters).
   Also exports the replay cases: every balanced sequence over GenAlpha up to GenLen. *)
EXTENDS Cut, TLC, Json, SequencesExt
CONSTANTS MaxLen, MCAlpha, GenLen, GenAlpha

VARIABLES names,    \* the template: sequence of catalogue names
          phase,    \* "gen" -> "parse" -> "done"
          eofAny,   \* reading of the end-of-file trigger explored in this run of the parser
          toks,     \* lexer output
          ti,       \* index of the token the parser is looking at
          st        \* the parser's cut state (Cut!PS0)
vars == <<names, phase, eofAny, toks, ti, st>>

MCFmt == "txt"
Init == names = <<>> /\ phase = "gen" /\ eofAny = FALSE /\ toks = <<>> /\ ti = 0 /\ st = PS0(0)

Gen == /\ phase = "gen" /\ Len(names) < MaxLen
       /\ \E n \in MCAlpha : (n = "shebang" => names = <<>>) /\ names' = Append(names, n)
       /\ UNCHANGED <<phase, eofAny, toks, ti, st>>
Start == /\ phase = "gen" /\ LET ps == Pieces(names, MCFmt) IN Defined(ps, MCFmt)
         /\ \E b \in BOOLEAN : eofAny' = b
         /\ LET tk == Lex(Pieces(names, MCFmt)) IN toks' = tk /\ st' = PS0(Len(tk))
         /\ ti' = 1 /\ phase' = "parse"
         /\ UNCHANGED names

Parsing == phase = "parse" /\ ti <= Len(toks)
Advance(s2) == st' = Count(s2, toks[ti]) /\ ti' = ti + 1 /\ UNCHANGED <<names, phase, eofAny, toks>>
\* line < tok.lin, the finished line had exactly one cuttable token: cutSpaces(firstText, text)
NewLineCut     == Parsing /\ st.line < toks[ti].lin /\ WillCut(st) /\ Advance(LineBlock(st, toks, ti, TRUE))
NewLineKeep    == Parsing /\ st.line < toks[ti].lin /\ ~WillCut(st) /\ Advance(LineBlock(st, toks, ti, FALSE))
\* same line, but the token ends the file
EofCut         == Parsing /\ ~(st.line < toks[ti].lin) /\ EndsFile(toks, ti, eofAny) /\ WillCut(st)
                  /\ Advance(LineBlock(st, toks, ti, TRUE))
EofKeep        == Parsing /\ ~(st.line < toks[ti].lin) /\ EndsFile(toks, ti, eofAny) /\ ~WillCut(st)
                  /\ Advance(LineBlock(st, toks, ti, FALSE))
SameLine       == Parsing /\ ~NewLine(st, toks, ti, eofAny) /\ Advance(st)
Finish == phase = "parse" /\ ti > Len(toks) /\ phase' = "done" /\ UNCHANGED <<names, eofAny, toks, ti, st>>
Next == Gen \/ Start \/ NewLineCut \/ NewLineKeep \/ EofCut \/ EofKeep \/ SameLine \/ Finish

Out == EmitFrom(toks, st.cuts, 1)
\* design-level result, one invariant per reading of the trigger
InEnv == LET ps == Pieces(names, MCFmt) o == Out IN InEnvelope(ps, o)
EnvelopeAsWritten == (phase = "done" /\ eofAny)  => InEnv
EnvelopeTextOnly  == (phase = "done" /\ ~eofAny) => InEnv
\* the emitter slices Text[Left : len-Right]: the cuts never overlap
SliceInRange == phase = "done" => CutsInRange(toks, st.cuts)
\* the action-wise machine and the functional form used by Trace_Cut are the same machine
SameAsFunctional == phase = "done" => LET ps == Pieces(names, MCFmt) IN Out = ModelOut(ps, eofAny)

(* ---- case export ---- *)
\* (names only, filtered by the cheap structural conditions - a shebang only first, if/end balanced;
\* checks/c15.py looks the source bytes of each piece up in the exported catalogue, and Trace_Cut
\* re-decides Defined on every observation and counts what it skips)
ShebangFirst(ns) == \A i \in DOMAIN ns : ns[i] = "shebang" => i = 1
RECURSIVE BalNames(_, _, _)
BalNames(ns, i, dp) == IF i > Len(ns) THEN dp = 0
                       ELSE IF ns[i] = "if" THEN BalNames(ns, i + 1, dp + 1)
                       ELSE IF ns[i] = "end" THEN dp > 0 /\ BalNames(ns, i + 1, dp - 1)
                       ELSE BalNames(ns, i + 1, dp)
Cases == LET GP == SetToSeq({ns \in SeqsUpTo(GenAlpha, GenLen) : ShebangFirst(ns) /\ BalNames(ns, 1, 0)})
         IN [c \in 1..Len(GP) |-> [id |-> c, names |-> GP[c]]]
\* the whole catalogue at every position and format, for the seeded longer sequences assembled by checks/c15.py
CatEntry(CN, NF, c) == LET ai == ((c - 1) \div (9 * NF)) + 1
                           pi == (((c - 1) \div NF) % 9) + 1
                           fi == ((c - 1) % NF) + 1
                       IN [name |-> CN[ai], pos |-> pi, fmt |-> AllFmts[fi], s |-> Piece(CN[ai], pi, AllFmts[fi]).s]
Catalogue == LET CN == SetToSeq(AllNames) NF == Len(AllFmts) IN [c \in 1..(Len(CN) * 9 * NF) |-> CatEntry(CN, NF, c)]
ASSUME ndJsonSerialize("cases.ndjson", Cases)
ASSUME ndJsonSerialize("catalogue.ndjson", Catalogue)
=============================================================================

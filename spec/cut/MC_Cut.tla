------------------------------- MODULE MC_Cut -------------------------------
(* Model check of the implementation-shaped cut machine against the envelope, over EVERY piece
   sequence of length <= MaxLen over the class representatives MCAlpha (a shebang only first).
   One action per branch of ParseTemplateSource's loop body.  Two transcriptions of the line
   block are explored (Cut!Variants: "head" as written, "fix" the proposed repair); which one IS
   the code under test is decided by trace validation (Trace_Cut, drift counters).
   Also exports the replay cases: every balanced sequence over GenAlpha up to GenLen. *)
EXTENDS Cut, TLC, Json, SequencesExt
CONSTANTS MaxLen, MCAlpha, GenLen, GenAlpha, WideLen

VARIABLES names,    \* the template: sequence of catalogue names
          phase,    \* "gen" -> "parse" -> "done"
          variant,  \* which transcription of the line block this run of the parser follows (Cut!Variants)
          toks,     \* lexer output
          ti,       \* index of the token the parser is looking at
          st        \* the parser's cut state (Cut!PS0)
vars == <<names, phase, variant, toks, ti, st>>

MCFmt == "txt"
Init == names = <<>> /\ phase = "gen" /\ variant = "head" /\ toks = <<>> /\ ti = 0 /\ st = PS0(0)

Gen == /\ phase = "gen" /\ Len(names) < MaxLen
       /\ \E n \in MCAlpha : (n = "shebang" => names = <<>>) /\ names' = Append(names, n)
       /\ UNCHANGED <<phase, variant, toks, ti, st>>
Start == /\ phase = "gen" /\ LET ps == Pieces(names, MCFmt) IN Defined(ps, MCFmt)
         /\ \E v \in Variants : variant' = v
         /\ LET tk == Lex(Pieces(names, MCFmt)) IN toks' = tk /\ st' = PS0(Len(tk))
         /\ ti' = 1 /\ phase' = "parse"
         /\ UNCHANGED names

Parsing == phase = "parse" /\ ti <= Len(toks)
Advance(s2) == st' = Count(s2, toks[ti]) /\ ti' = ti + 1 /\ UNCHANGED <<names, phase, variant, toks>>
Cutting == WillCut(st, toks[ti], variant)
\* line < tok.lin: the token closes the line; cutSpaces(firstText, text) when the line had one cuttable token
NewLineCut     == Parsing /\ st.line < toks[ti].lin /\ Cutting /\ Advance(LineBlock(st, toks, ti, TRUE, variant))
NewLineKeep    == Parsing /\ st.line < toks[ti].lin /\ ~Cutting /\ Advance(LineBlock(st, toks, ti, FALSE, variant))
\* same line, but the token ends the file
EofCut         == Parsing /\ ~(st.line < toks[ti].lin) /\ EndsFile(toks, ti) /\ Cutting
                  /\ Advance(LineBlock(st, toks, ti, TRUE, variant))
EofKeep        == Parsing /\ ~(st.line < toks[ti].lin) /\ EndsFile(toks, ti) /\ ~Cutting
                  /\ Advance(LineBlock(st, toks, ti, FALSE, variant))
SameLine       == Parsing /\ ~NewLine(st, toks, ti) /\ Advance(st)
Finish == phase = "parse" /\ ti > Len(toks) /\ phase' = "done" /\ UNCHANGED <<names, variant, toks, ti, st>>
Next == Gen \/ Start \/ NewLineCut \/ NewLineKeep \/ EofCut \/ EofKeep \/ SameLine \/ Finish

Out == EmitFrom(toks, st.cuts, 1)
\* design-level result, one pair of invariants per transcription
InEnv == LET ps == Pieces(names, MCFmt) o == Out IN InEnvelope(ps, o)
InLen == LET ps == Pieces(names, MCFmt) o == Out IN InLenient(ps, o)
\* the full envelope (one-token content-free lines MUST vanish) ...
EnvelopeHead == (phase = "done" /\ variant = "head") => InEnv
EnvelopeFix  == (phase = "done" /\ variant = "fix")  => InEnv
\* ... and its weaker half (nothing but the white space of content-free lines is ever removed)
NoOvercutHead == (phase = "done" /\ variant = "head") => InLen
NoOvercutFix  == (phase = "done" /\ variant = "fix")  => InLen
\* the emitter slices Text[Left : len-Right]: the cuts must never overlap (else the build panics)
SliceHead == (phase = "done" /\ variant = "head") => CutsInRange(toks, st.cuts)
SliceFix  == (phase = "done" /\ variant = "fix")  => CutsInRange(toks, st.cuts)
\* the action-wise machine and the functional form used by Trace_Cut are the same machine
SameAsFunctional == phase = "done" => LET ps == Pieces(names, MCFmt) IN
                                      CutsInRange(toks, st.cuts) => Out = ModelOut(ps, variant)

(* ---- case export ---- *)
\* (names only, filtered by the cheap structural conditions - a shebang only first, if/end balanced;
\* checks/c15.py looks the source bytes of each piece up in the exported catalogue, and Trace_Cut
\* re-decides Defined on every observation and counts what it skips)
ShebangFirst(ns) == \A i \in DOMAIN ns : ns[i] = "shebang" => i = 1
RECURSIVE BalNames(_, _, _)
BalNames(ns, i, dp) == IF i > Len(ns) THEN dp = 0
                       ELSE IF ns[i] \in {"if", "ifml"} THEN BalNames(ns, i + 1, dp + 1)
                       ELSE IF ns[i] = "end" THEN dp > 0 /\ BalNames(ns, i + 1, dp - 1)
                       ELSE BalNames(ns, i + 1, dp)
\* ... plus every balanced sequence of length <= WideLen over the WHOLE catalogue, so that every piece meets
\* every possible neighbour
Cases == LET GP == SetToSeq({ns \in SeqsUpTo(GenAlpha, GenLen) \cup SeqsUpTo(AllNames, WideLen) : ShebangFirst(ns) /\ BalNames(ns, 1, 0)})
         IN [c \in 1..Len(GP) |-> [id |-> c, names |-> GP[c]]]
\* the whole catalogue at every position and format, for the seeded longer sequences assembled by checks/c15.py
CatEntry(CN, NF, c) == LET ai == ((c - 1) \div (9 * NF)) + 1
                           pi == (((c - 1) \div NF) % 9) + 1
                           fi == ((c - 1) % NF) + 1
                       IN [name |-> CN[ai], pos |-> pi, fmt |-> AllFmts[fi], s |-> Piece(CN[ai], pi, AllFmts[fi]).s]
Catalogue == LET CN == SetToSeq(AllNames) NF == Len(AllFmts) IN [c \in 1..(Len(CN) * 9 * NF) |-> CatEntry(CN, NF, c)]
ASSUME ndJsonSerialize("cases.ndjson", Cases)
ASSUME ndJsonSerialize("catalogue.ndjson", Catalogue)
=============================================================================

------------------------------- MODULE MC_Cut -------------------------------
(* Model check of the implementation-shaped cut machine against the envelope, over EVERY piece
   sequence of length <= MaxLen over the class representatives MCAlpha (a shebang only first).
   One action per branch of ParseTemplateSource's loop body.  Both readings of the end-of-file
   trigger (`tok.pos.End == lastIndex`: any token, as written / text tokens only) are explored;
   which one IS the code is decided by trace validation (Trace_Cut, drift counters).
   Also exports the replay cases: every judgeable sequence over GenAlpha up to GenLen x Fmts. *)
EXTENDS Cut, TLC, Json, SequencesExt
CONSTANTS MaxLen, MCAlpha, GenLen, GenAlpha, Fmts

VARIABLES names,    \* the template: sequence of catalogue names
          phase,    \* "gen" -> "parse" -> "done"
          eofAny,   \* reading of the end-of-file trigger explored in this run of the parser
          toks,     \* lexer output
          ti,       \* index of the token the parser is looking at
          st        \* the parser's cut state (Cut!PS0)
vars == <<names, phase, eofAny, toks, ti, st>>

MCFmt == "txt"
Init == names = <<>> /\ phase = "gen" /\ eofAny = FALSE /\ toks = <<>> /\ ti = 0 /\ st = PS0(0)

Gen == /\ phase = "gen" /\ Len(names) < MaxLen
       /\ \E n \in MCAlpha : (n = "shebang" => names = <<>>) /\ names' = Append(names, n)
       /\ UNCHANGED <<phase, eofAny, toks, ti, st>>
Start == /\ phase = "gen" /\ Defined(Pieces(names, MCFmt), MCFmt)
         /\ \E b \in BOOLEAN : eofAny' = b
         /\ toks' = Lex(Pieces(names, MCFmt)) /\ ti' = 1 /\ st' = PS0(Len(toks')) /\ phase' = "parse"
         /\ UNCHANGED names

Parsing == phase = "parse" /\ ti <= Len(toks)
Advance(s2) == st' = Count(s2, toks[ti]) /\ ti' = ti + 1 /\ UNCHANGED <<names, phase, eofAny, toks>>
\* line < tok.lin, the finished line had exactly one cuttable token: cutSpaces(firstText, text)
NewLineCut     == Parsing /\ st.line < toks[ti].lin /\ WillCut(st) /\ Advance(LineBlock(st, toks, ti, TRUE))
NewLineKeep    == Parsing /\ st.line < toks[ti].lin /\ ~WillCut(st) /\ Advance(LineBlock(st, toks, ti, FALSE))
\* same line, but the token ends the file
EofCut         == Parsing /\ ~(st.line < toks[ti].lin) /\ EndsFile(toks, ti, eofAny) /\ WillCut(st)
                  /\ Advance(LineBlock(st, toks, ti, TRUE))
EofKeep        == Parsing /\ ~(st.line < toks[ti].lin) /\ EndsFile(toks, ti, eofAny) /\ ~WillCut(st)
                  /\ Advance(LineBlock(st, toks, ti, FALSE))
SameLine       == Parsing /\ ~NewLine(st, toks, ti, eofAny) /\ Advance(st)
Finish == phase = "parse" /\ ti > Len(toks) /\ phase' = "done" /\ UNCHANGED <<names, eofAny, toks, ti, st>>
Next == Gen \/ Start \/ NewLineCut \/ NewLineKeep \/ EofCut \/ EofKeep \/ SameLine \/ Finish

Out == EmitFrom(toks, st.cuts, 1)
\* design-level result, one invariant per reading of the trigger
EnvelopeAsWritten == (phase = "done" /\ eofAny)  => InEnvelope(Pieces(names, MCFmt), Out)
EnvelopeTextOnly  == (phase = "done" /\ ~eofAny) => InEnvelope(Pieces(names, MCFmt), Out)
\* the emitter slices Text[Left : len-Right]: the cuts never overlap
SliceInRange == phase = "done" => CutsInRange(toks, st.cuts)
\* the action-wise machine and the functional form used by Trace_Cut are the same machine
SameAsFunctional == phase = "done" => Out = ModelOut(Pieces(names, MCFmt), eofAny)

(* ---- case export ---- *)
ShebangFirst(ns) == \A i \in DOMAIN ns : ns[i] = "shebang" => i = 1
StructSeqs == {ns \in SeqsUpTo(GenAlpha, GenLen) : ShebangFirst(ns) /\ StructDefined(Pieces(ns, "txt"))}
GenPairs == SetToSeq({pr \in StructSeqs \X Fmts : ShowOk(Pieces(pr[1], pr[2]), pr[2])})
Cases == [c \in 1..Len(GenPairs) |-> [id |-> c, fmt |-> GenPairs[c][2], pieces |-> Pieces(GenPairs[c][1], GenPairs[c][2])]]
\* the whole catalogue at every position and format, for the seeded longer sequences assembled by checks/c15.py
CatNames == SetToSeq(AllNames)
NF == Len(AllFmts)
CatEntry(c) == LET ai == ((c - 1) \div (9 * NF)) + 1
                   pi == (((c - 1) \div NF) % 9) + 1
                   fi == ((c - 1) % NF) + 1
               IN [name |-> CatNames[ai], pos |-> pi, fmt |-> AllFmts[fi], piece |-> Piece(CatNames[ai], pi, AllFmts[fi])]
Catalogue == [c \in 1..(Len(CatNames) * 9 * NF) |-> CatEntry(c)]
ASSUME ndJsonSerialize("cases.ndjson", Cases)
ASSUME ndJsonSerialize("catalogue.ndjson", Catalogue)
=============================================================================

-------------------------------- MODULE Cut --------------------------------
(* C15.  "Template text is emitted verbatim except for the documented removals."

   A template is a sequence of PIECES.  A piece is a record
       [n |-> catalogue name, k |-> kind, s |-> source bytes, v |-> bytes, w |-> int, d |-> int]
     k = "text"     s is literal text
         "show"     {{ constant }}  whose rendering is v            (value-producing)
         "render"   {{ render "p.<ext>" }} of a partial whose content is v
         "stmt"     {% ... %} / {%% ... %%}; d = 1 opens a block, d = 2 closes one, else 0
         "decl"     a statement that is a declaration ({% var ... %})
         "comment"  {# ... #}
         "raw"      {% raw [m] %} v {% end [raw m] %}; the content v starts w bytes into s
         "shebang"  #!...\n  (first piece only)

   PART 1 (reference) states the property as a two-sided ENVELOPE over the rendered bytes.
   PART 2 (implementation-shaped) transcribes the lexer's tokenisation at piece granularity and
   the parser's  line / firstText / numTokenInLine / cutSpacesToken  machine with cutSpaces
   (internal/compiler/parser.go, ParseTemplateSource) and the emitter's use of Text.Cut. *)
EXTENDS Integers, Sequences, FiniteSets, Text

NLc == 10
WS == {32, 9, 13, 10}          \* "spaces" of the property: space, tab, CR and the line terminator

(* =====================================================================================
   PART 1 - reference: what the property statement demands
   ===================================================================================== *)
\* classes of source bytes
cT == 1   \* literal text                      -> emitted
cS == 2   \* statement / comment syntax        -> never emitted
cH == 3   \* syntax of a value-producing show  -> never emitted, its value is
cX == 4   \* shebang line                      -> never emitted
cR == 5   \* content of a raw block            -> emitted exactly as written

Rep(c, n) == [x \in 1..n |-> c]
ClassOf(p) ==
  CASE p.k = "text"    -> Rep(cT, Len(p.s))
    [] p.k = "show"    -> Rep(cH, Len(p.s))
    \* READING (DESIGN 7/C15, Appendix C item 5): a {{ render }} that is alone on its line is classed
    \* with the statements - the parser sets cutSpacesToken for it on purpose and the statement of
    \* the property does not clearly exclude it.  Its output v is still demanded.
    [] p.k = "render"  -> Rep(cS, Len(p.s))
    [] p.k = "stmt"    -> Rep(cS, Len(p.s))
    [] p.k = "decl"    -> Rep(cS, Len(p.s))
    [] p.k = "comment" -> Rep(cS, Len(p.s))
    [] p.k = "shebang" -> Rep(cX, Len(p.s))
    [] p.k = "raw"     -> Rep(cS, p.w) \o Rep(cR, Len(p.v)) \o Rep(cS, Len(p.s) - p.w - Len(p.v))
    [] OTHER           -> Rep(cS, Len(p.s))

RECURSIVE SrcFrom(_, _)
SrcFrom(ps, i) == IF i > Len(ps) THEN <<>> ELSE ps[i].s \o SrcFrom(ps, i + 1)
Src(ps) == SrcFrom(ps, 1)
RECURSIVE ClsFrom(_, _)
ClsFrom(ps, i) == IF i > Len(ps) THEN <<>> ELSE ClassOf(ps[i]) \o ClsFrom(ps, i + 1)
Cls(ps) == ClsFrom(ps, 1)
\* token identity of every source byte (0 = not part of a statement/comment/show token): piece i is token
\* 2i, the {% end %} that closes raw block i is token 2i+1
TidOf(p, i) == IF p.k = "text" \/ p.k = "shebang" THEN Rep(0, Len(p.s))
               ELSE IF p.k = "raw" THEN Rep(2 * i, p.w) \o Rep(0, Len(p.v)) \o Rep(2 * i + 1, Len(p.s) - p.w - Len(p.v))
               ELSE Rep(2 * i, Len(p.s))
RECURSIVE TidFrom(_, _)
TidFrom(ps, i) == IF i > Len(ps) THEN <<>> ELSE TidOf(ps[i], i) \o TidFrom(ps, i + 1)
Tid(ps) == TidFrom(ps, 1)

\* READING: lines are the PHYSICAL lines of the source (every LF counts, also one inside a comment
\* or a statement; a line feed belongs to the line it terminates); a comment spanning two lines is
\* "a comment" on both.  This is the reading under which `x {# a<LF>b #} <LF>y` -> `x y` (the second
\* line holds only the end of a comment and spaces) is a documented removal.
\*
\* READING: "the content of a raw block is emitted exactly as written" is read as "never interpreted as
\* template syntax"; its white space takes part in the line rule like any other text: the repository's
\* own test (test/misc "Raw statement") demands  a<LF>{% raw %}<LF>b<LF>{% end %}<LF>c  ->  a<LF>b<LF>c,
\* i.e. the LF that follows {% raw %} - lexically raw content - vanishes with the statement-only line.
\*
\* A CONTENT-FREE line: a line with at least (part of) one statement/comment, no value-producing show,
\* and whose every byte of literal text or raw content is white space.
\*
\* READING (the two sides of the envelope).  The statement says such lines ARE removed.  The must-remove
\* side is stated only where no reading of the statement and no established behaviour speaks against it:
\*   a content-free line MUST vanish (none of its text bytes may appear: set `gone`) when
\*     - it holds exactly ONE statement/comment token (the parser deliberately leaves a line with several
\*       alone: `numTokenInLine == 1`; the repository's tests pin `  {% if T %}{# c<LF>d #}` -> spaces kept),
\*     - that token STARTS on the line (the line holding only the tail of a token that began earlier shares
\*       the fate of that earlier line: `x{%% ..<LF>%%}<LF>` keeps its line feed today),
\*     - the token does not end the file (nothing follows that could close the line: `<LF> {% end %}` at the
\*       end of a file keeps its space today),
\*     - the token is not a declaration ({% var %} / const lines are left in place today; whether that is
\*       intended is not documented);
\*   every other content-free line MAY vanish, wholly or in part (set `may`).
\* One pass; start = first index of the current line, hasS = statement/comment syntax seen on it,
\* bad = show syntax or non-space text seen on it, tk = the tokens seen on it.  Result <<may, gone>>.
TextIn(cls, a, b) == {j \in a..b : cls[j] \in {cT, cR}}
MustVanish(src, tid, decl, start, tk) ==
  /\ Cardinality(tk) = 1
  /\ LET t == CHOOSE t \in tk : TRUE IN
     /\ t \notin decl
     /\ \A j \in 1..(start - 1) : tid[j] # t
     /\ tid[Len(src)] # t
RECURSIVE MayScan(_, _, _, _, _, _, _, _, _, _)
MayScan(src, cls, tid, decl, k, start, hasS, bad, tk, acc) ==
  IF k > Len(src)
  THEN (IF hasS /\ ~bad THEN (IF MustVanish(src, tid, decl, start, tk) THEN <<acc[1], acc[2] \cup TextIn(cls, start, Len(src))>>
                               ELSE <<acc[1] \cup TextIn(cls, start, Len(src)), acc[2]>>)
        ELSE acc)
  ELSE LET c == cls[k]
           hasS2 == hasS \/ c = cS
           bad2 == bad \/ c = cH \/ (c \in {cT, cR} /\ src[k] \notin WS)
           tk2 == IF tid[k] # 0 THEN tk \cup {tid[k]} ELSE tk
       IN IF src[k] = NLc
          THEN LET acc2 == IF hasS2 /\ ~bad2
                           THEN (IF MustVanish(src, tid, decl, start, tk2) THEN <<acc[1], acc[2] \cup TextIn(cls, start, k)>>
                                 ELSE <<acc[1] \cup TextIn(cls, start, k), acc[2]>>)
                           ELSE acc
               IN MayScan(src, cls, tid, decl, k + 1, k + 1, FALSE, FALSE, {}, acc2)
          ELSE MayScan(src, cls, tid, decl, k + 1, start, hasS2, bad2, tk2, acc)
DeclTids(ps) == {2 * i : i \in {j \in DOMAIN ps : ps[j].k = "decl"}}
MayGoneP(ps, src, cls) == LET tid == Tid(ps) decl == DeclTids(ps) IN MayScan(src, cls, tid, decl, 1, 1, FALSE, FALSE, {}, <<{}, {}>>)

(* The envelope is a sequence of <<byte, flag>>: flag 0 = MUST appear, 1 = MAY be missing.
     must-keep   every text / raw-content byte outside the content-free lines, every show value
     may-remove  text / raw-content bytes (all white space, incl. the LF) of a content-free line with several tokens
     must-remove the text bytes of a content-free line with one token; syntax, comments, shebang: no entry at all *)
RECURSIVE EnvFrom(_, _, _, _, _, _, _)
EnvFrom(ps, i, off, src, cls, mayIdx, goneIdx) ==   \* off = number of source bytes before piece i
  IF i > Len(ps) THEN <<>>
  ELSE LET p == ps[i]
           idx == IF p.k = "text" THEN [x \in 1..Len(p.s) |-> off + x]
                  ELSE IF p.k = "raw" THEN [x \in 1..Len(p.v) |-> off + p.w + x]
                  ELSE <<>>
           kept == SelectSeq(idx, LAMBDA k : k \notin goneIdx)
           own == IF p.k \in {"show", "render"} THEN [x \in 1..Len(p.v) |-> <<p.v[x], 0>>]
                  ELSE [x \in 1..Len(kept) |-> <<src[kept[x]], IF kept[x] \in mayIdx THEN 1 ELSE 0>>]
       IN own \o EnvFrom(ps, i + 1, off + Len(p.s), src, cls, mayIdx, goneIdx)
EnvWith(ps, src, cls, may) == EnvFrom(ps, 1, 0, src, cls, may, {})          \* nothing must vanish
\* the property's envelope
EnvelopeX(ps, src, cls) == LET mg == MayGoneP(ps, src, cls) IN EnvFrom(ps, 1, 0, src, cls, mg[1], mg[2])
Envelope(ps) == LET src == Src(ps) cls == Cls(ps) IN EnvelopeX(ps, src, cls)
\* the same with every content-free line merely allowed to vanish (used to name the cause of a violation,
\* and as the weaker design-level invariant of MC_Cut)
LenientX(ps, src, cls) == LET mg == MayGoneP(ps, src, cls) may == mg[1] \cup mg[2] IN EnvWith(ps, src, cls, may)

\* membership: out is obtained from the envelope by deleting some MAY bytes and nothing else.
\* R = set of positions j such that out[1..j-1] can be produced by env[1..i-1]   (polynomial DP)
RECURSIVE Reach(_, _, _, _)
Reach(env, out, i, R) ==
  IF i > Len(env) \/ R = {} THEN R
  ELSE LET e == env[i]
           adv == {j + 1 : j \in {x \in R : x <= Len(out) /\ out[x] = e[1]}}
           R2 == IF e[2] = 1 THEN adv \cup R ELSE adv
       IN Reach(env, out, i + 1, R2)
Member(env, out) == (Len(out) + 1) \in Reach(env, out, 1, {1})
InEnvelopeX(ps, src, cls, out) == LET env == EnvelopeX(ps, src, cls) IN Member(env, out)
InEnvelope(ps, out) == LET src == Src(ps) cls == Cls(ps) IN InEnvelopeX(ps, src, cls, out)
InLenient(ps, out) == LET src == Src(ps) cls == Cls(ps) env == LenientX(ps, src, cls) IN Member(env, out)

(* ---- which (pieces, format) the reference has an opinion about; anything else is ref_undefined ---- *)
Kinds == {"text", "show", "render", "stmt", "decl", "comment", "raw", "shebang"}
RECURSIVE DepthOk(_, _, _)
DepthOk(ps, i, dp) == IF i > Len(ps) THEN dp = 0
                      ELSE LET d2 == dp + (IF ps[i].k = "stmt" /\ ps[i].d = 1 THEN 1 ELSE IF ps[i].k = "stmt" /\ ps[i].d = 2 THEN -1 ELSE 0)
                           IN d2 >= 0 /\ DepthOk(ps, i + 1, d2)
Balanced(ps) == DepthOk(ps, 1, 0)
\* literal text must not form template syntax with whatever follows it
NoAccidentalSyntax(src, cls) ==
  /\ \A k \in 1..(Len(src) - 1) :
        cls[k] = cT => /\ ~(src[k] = 123 /\ src[k + 1] \in {123, 37, 35})      \* {{  {%  {#
                       /\ ~(src[k] = 35 /\ src[k + 1] = 125)                   \* #}
  /\ (Len(src) >= 2 /\ src[1] = 35 /\ src[2] = 33) => cls[1] = cX               \* #! only as the shebang piece
WellFormedPieces(ps) ==
  \A i \in DOMAIN ps :
     /\ ps[i].k \in Kinds
     /\ ps[i].k = "shebang" => (i = 1 /\ Len(ps[i].s) >= 3 /\ ps[i].s[1] = 35 /\ ps[i].s[2] = 33
                                /\ ps[i].s[Len(ps[i].s)] = NLc
                                /\ \A x \in 1..(Len(ps[i].s) - 1) : ps[i].s[x] # NLc)
     /\ ps[i].k = "raw" => (ps[i].w >= 0 /\ ps[i].w + Len(ps[i].v) <= Len(ps[i].s)
                            /\ Sub(ps[i].s, ps[i].w + 1, ps[i].w + Len(ps[i].v)) = ps[i].v)
\* a constant string is shown as itself only where the format has no quoting of its own
PlainFmts == {"txt", "html", "md"}
ShowOk(ps, fmt) == \A i \in DOMAIN ps : (ps[i].k = "show" /\ \E x \in DOMAIN ps[i].v : ~IsDigit(ps[i].v[x])) => fmt \in PlainFmts
StructDefinedX(ps, src, cls) == WellFormedPieces(ps) /\ Balanced(ps) /\ NoAccidentalSyntax(src, cls)
StructDefined(ps) == LET src == Src(ps) cls == Cls(ps) IN StructDefinedX(ps, src, cls)
DefinedX(ps, src, cls, fmt) == StructDefinedX(ps, src, cls) /\ ShowOk(ps, fmt)
Defined(ps, fmt) == StructDefined(ps) /\ ShowOk(ps, fmt)

(* root-cause signature of a record outside the envelope (computed from reference quantities only) *)
LineStartSet(src) == IF Len(src) = 0 THEN {} ELSE {1} \cup {k + 1 : k \in {x \in 1..(Len(src) - 1) : src[x] = NLc}}
RECURSIVE LeadRun(_, _, _)    \* the white-space text bytes at the start of the line beginning at index k
LeadRun(src, cls, k) == IF k > Len(src) \/ cls[k] \notin {cT, cR} \/ src[k] \notin {32, 9, 13} THEN {}
                        ELSE {k} \cup LeadRun(src, cls, k + 1)
RECURSIVE LineEnd(_, _)       \* index of the last byte of the line containing k, its LF excluded
LineEnd(src, k) == IF k > Len(src) THEN Len(src) ELSE IF src[k] = NLc THEN k - 1 ELSE LineEnd(src, k + 1)
RECURSIVE PieceAt(_, _, _, _) \* index of the piece holding source byte e
PieceAt(ps, i, off, e) == IF i > Len(ps) THEN 0 ELSE IF e <= off + Len(ps[i].s) THEN i ELSE PieceAt(ps, i + 1, off + Len(ps[i].s), e)
CloserKind(ps, src, s) == LET e == LineEnd(src, s) pi == PieceAt(ps, 1, 0, e) IN IF e < s \/ pi = 0 THEN "none" ELSE ps[pi].k
LastKind(ps) == IF Len(ps) = 0 THEN "none" ELSE ps[Len(ps)].k
\* the white-space text that directly follows the end of a statement spanning lines
RECURSIVE AfterML(_, _, _, _, _)
AfterML(ps, src, cls, i, off) ==
  IF i > Len(ps) THEN {}
  ELSE (IF ps[i].k = "stmt" /\ \E x \in DOMAIN ps[i].s : ps[i].s[x] = NLc THEN LeadRun(src, cls, off + Len(ps[i].s) + 1) ELSE {})
       \cup AfterML(ps, src, cls, i + 1, off + Len(ps[i].s))
\* where, on its line, the single token of the content-free line starting at s lies; its catalogue name;
\* what follows the token's end (blanks skipped)
TokenWhere(ps, src, cls, tid, s) ==
  LET e == LineEnd(src, s)
      ks == {k \in s..e : cls[k] = cS}
      k0 == CHOOSE k \in ks : \A j \in ks : k <= j
      ext == {k \in DOMAIN src : tid[k] = tid[k0]}
      pi == PieceAt(ps, 1, 0, k0)
      g == CHOOSE k \in ext : \A j \in ext : j <= k            \* last byte of the token
      h == g + 1 + Cardinality(LeadRun(src, cls, g + 1))          \* first byte after the token and the blanks that follow it
      nxt == IF h > Len(src) THEN "end-of-file"
             ELSE IF cls[h] \notin {cT, cR} THEN "syntax"
             ELSE IF src[h] = NLc THEN "line-feed" ELSE "text"
  IN IF ks = {} THEN <<"none", "-", "-">>
     ELSE <<(IF \E k \in ext : k < s THEN "tail-of-token-spanning-lines"
             ELSE IF \E k \in ext : k > e + 1 THEN "head-of-token-spanning-lines"
             ELSE IF e = Len(src) THEN "last-line-without-line-feed"
             ELSE "whole-token"), ps[pi].n, nxt>>
\* <<cause, detail, ctx, next>>: the smallest relaxation of the envelope that explains `out`
Cause(ps, out) ==
  LET src == Src(ps) cls == Cls(ps) tid == Tid(ps) mg == MayGoneP(ps, src, cls) may == mg[1] \cup mg[2]
      text == {k \in DOMAIN src : cls[k] \in {cT, cR}}
      starts == LineStartSet(src)
      lead == UNION {LeadRun(src, cls, s) : s \in starts}
      aml == AfterML(ps, src, cls, 1, 0)
      e0 == EnvWith(ps, src, cls, may)
      e1 == EnvWith(ps, src, cls, may \cup lead)
      e2 == EnvWith(ps, src, cls, may \cup aml)
      e3 == EnvWith(ps, src, cls, may \cup lead \cup aml)
      e4 == EnvWith(ps, src, cls, may \cup {k \in text : src[k] \in WS})
      e5 == EnvWith(ps, src, cls, text)
      \* the one-token content-free lines that must have been kept (not removed) to explain out
      lineOf(s) == {k \in s..(LineEnd(src, s) + 1) : k \in mg[2]}
      keptLines == {s \in starts : lineOf(s) # {} /\
                      LET e == EnvFrom(ps, 1, 0, src, cls, may \ lineOf(s), lineOf(s)) IN ~Member(e, out)}
      tw == IF keptLines = {} THEN <<"ambiguous", "-", "-">>
            ELSE TokenWhere(ps, src, cls, tid, CHOOSE s \in keptLines : \A s2 \in keptLines : s <= s2)
      \* the lines whose leading space must have been dropped to explain out
      needed == {s \in starts : LeadRun(src, cls, s) # {} /\
                     LET e == EnvWith(ps, src, cls, may \cup (lead \ LeadRun(src, cls, s))) IN ~Member(e, out)}
      closer == IF needed = {} THEN "ambiguous"
                ELSE IF \A s \in needed : CloserKind(ps, src, s) = "comment" THEN "line-closed-by-comment" ELSE "line-closed-by-other"
  IN IF Member(e0, out) THEN <<"content-free-line-with-one-token-not-removed", tw[1], tw[2], tw[3]>>
     ELSE IF Member(e1, out) THEN <<"leading-space-of-line-with-content-removed", closer, "-", "-">>
     ELSE IF Member(e2, out) THEN <<"space-after-multi-line-statement-removed-from-line-with-content", "-", "-", "-">>
     ELSE IF Member(e3, out) THEN <<"leading-space-and-space-after-multi-line-statement-removed", "-", "-", "-">>
     ELSE IF Member(e4, out) THEN <<"white-space-outside-content-free-lines-removed", "-", "-", "-">>
     ELSE IF Member(e5, out) THEN <<"text-removed", "-", "-", "-">>
     ELSE <<"text-changed-or-added", "-", "-", "-">>

(* =====================================================================================
   PART 2 - implementation-shaped model
   ===================================================================================== *)
(* ---- lexer, at piece granularity (scanTemplate: text runs up to the next {{ {% {# ;
        token.lin is the lexer's line when the token is emitted) ---- *)
RECURSIVE CountNL(_, _)
CountNL(s, i) == IF i > Len(s) THEN 0 ELSE (IF s[i] = NLc THEN 1 ELSE 0) + CountNL(s, i + 1)
NLs(s) == CountNL(s, 1)

\* token: [t |-> "text"|"stmt"|"show"|"cmt", txt, sl (pos.Line: the line it starts on), lin (token.lin: the
\* lexer's line when it is emitted), ct (the statement sets p.cutSpacesToken), val]
Tok(t, txt, sl, lin, ct, val) == [t |-> t, txt |-> txt, sl |-> sl, lin |-> lin, ct |-> ct, val |-> val]
FlushText(buf, line) == IF buf = <<>> THEN <<>> ELSE <<Tok("text", buf, line, line + NLs(buf), FALSE, <<>>)>>

\* which pieces set p.cutSpacesToken (parser.go: if, end, assignment, raw, comment, {{ render }};
\* NOT var/const declarations, NOT a plain {{ show }})
SetsCutTok(p) == CASE p.k = "comment" -> TRUE
                   [] p.k = "render"  -> TRUE
                   [] p.k = "raw"     -> TRUE
                   [] p.k = "show"    -> FALSE
                   [] p.k = "stmt"    -> TRUE
                   [] p.k = "decl"    -> FALSE
                   [] OTHER           -> FALSE

RECURSIVE LexFrom(_, _, _, _)
LexFrom(ps, i, line, buf) ==
  IF i > Len(ps) THEN FlushText(buf, line)
  ELSE LET p == ps[i] IN
    CASE p.k = "text"    -> LET b2 == buf \o p.s IN LexFrom(ps, i + 1, line, b2)
      [] p.k = "shebang" -> LexFrom(ps, i + 1, line + 1, buf)          \* emit(tokenShebangLine); l.line++
      [] p.k = "comment" -> LET l1 == line + NLs(buf) l2 == l1 + NLs(p.s) IN     \* lexComment emits after counting its lines
                            FlushText(buf, line) \o <<Tok("cmt", <<>>, l1, l2, TRUE, <<>>)>> \o LexFrom(ps, i + 1, l2, <<>>)
      [] p.k \in {"stmt", "decl", "show", "render"} ->
                            LET l1 == line + NLs(buf) l2 == l1 + NLs(p.s) IN       \* {% / {%% / {{ is emitted before its code is lexed
                            FlushText(buf, line)
                            \o <<Tok(IF p.k \in {"stmt", "decl"} THEN "stmt" ELSE "show", <<>>, l1, l1, SetsCutTok(p), IF p.k \in {"stmt", "decl"} THEN <<>> ELSE p.v)>>
                            \o LexFrom(ps, i + 1, l2, <<>>)
      [] p.k = "raw"     -> LET l1 == line + NLs(buf)
                                l2 == l1 + NLs(p.v)                                 \* skipRawContent
                                l3 == l2 + NLs(p.s) - NLs(p.v)
                            IN FlushText(buf, line) \o <<Tok("stmt", <<>>, l1, l1, TRUE, <<>>)>>
                               \o FlushText(p.v, l1)
                               \o <<Tok("stmt", <<>>, l2, l2, TRUE, <<>>)>>         \* {% end %} sets cutSpacesToken
                               \o LexFrom(ps, i + 1, l3, <<>>)
Lex(ps) == LexFrom(ps, 1, 1, <<>>)

(* ---- parser: ParseTemplateSource's cut machine ---- *)
\* ps record: line, first (index of firstText token, 0 = nil), num, ctok, cuts (token index -> <<Left, Right>>)
PS0(n) == [line |-> 0, first |-> 0, num |-> 0, ctok |-> FALSE, cuts |-> [x \in 1..n |-> <<0, 0>>]]

RECURSIVE ScanBack(_, _)      \* cutSpaces, first loop: returns firstCut, or -1 for "return"
ScanBack(txt, i) == IF i = 0 THEN 0
                    ELSE IF txt[i] = NLc THEN i
                    ELSE IF txt[i] \notin {32, 9, 13} THEN -1
                    ELSE ScanBack(txt, i - 1)
RECURSIVE ScanFwd(_, _)       \* cutSpaces, second loop: returns lastCut, or -1 for "return"
ScanFwd(txt, i) == IF i > Len(txt) THEN Len(txt)
                   ELSE IF txt[i] = NLc THEN i
                   ELSE IF txt[i] \notin {32, 9, 13} THEN -1
                   ELSE ScanFwd(txt, i + 1)
\* cutSpaces(first, last) on token indices (0 = nil)
CutSpaces(toks, cuts, first, last) ==
  LET fc == IF first = 0 THEN 0 ELSE ScanBack(toks[first].txt, Len(toks[first].txt))
      lc == IF last = 0 THEN 0 ELSE ScanFwd(toks[last].txt, 1)
  IN IF fc = -1 \/ lc = -1 THEN cuts
     ELSE LET c1 == IF last = 0 THEN cuts ELSE [cuts EXCEPT ![last] = <<lc, @[2]>>]
          IN IF first = 0 THEN c1 ELSE [c1 EXCEPT ![first] = <<@[1], Len(toks[first].txt) - fc>>]

\* `tok.pos.End == lastIndex`: the token's last byte is the file's last byte.  Only a text token and a
\* comment token span their whole extent ({% {%% {{ are two/three-byte tokens).
EndsFile(toks, i) == i = Len(toks) /\ toks[i].t \in {"text", "cmt"}
NewLine(st, toks, i) == st.line < toks[i].lin \/ EndsFile(toks, i)
TextIdx(toks, i) == IF toks[i].t = "text" THEN i ELSE 0
(* Two transcriptions of the `if line < tok.lin || tok.pos.End == lastIndex { ... }` block:
   "head"  as written at the commit this family was developed against:
              if p.cutSpacesToken && numTokenInLine == 1 { cutSpaces(firstText, text) }
   "fix"   the proposed repair: a comment that starts on the line being closed is counted first, and a
           text without line feed that does not end the file is not the end of the line being closed:
              cut, n := p.cutSpacesToken, numTokenInLine
              if tok.typ == tokenComment && tok.pos.Line == line { cut = true; n++ }
              if cut && n == 1 { last := text; if last has no LF and tok does not end the file { last = nil }
                                 cutSpaces(firstText, last) }                                            *)
Variants == {"head", "fix"}
CloserCounts(st, tok, variant) == variant = "fix" /\ tok.t = "cmt" /\ tok.sl = st.line
WillCut(st, tok, variant) == (st.ctok \/ CloserCounts(st, tok, variant))
                             /\ st.num + (IF CloserCounts(st, tok, variant) THEN 1 ELSE 0) = 1
LastArg(toks, i, variant) ==
  IF toks[i].t # "text" THEN 0
  ELSE IF variant = "fix" /\ ~EndsFile(toks, i) /\ NLs(toks[i].txt) = 0 THEN 0
  ELSE i
LineBlock(st, toks, i, cut, variant) ==
  [line |-> toks[i].lin, first |-> TextIdx(toks, i), num |-> 0, ctok |-> FALSE,
   cuts |-> IF cut THEN CutSpaces(toks, st.cuts, st.first, LastArg(toks, i, variant)) ELSE st.cuts]
\* the `switch tok.typ` block
Count(st, tok) == IF tok.t = "text" THEN st
                  ELSE [st EXCEPT !.num = @ + 1, !.ctok = @ \/ tok.ct]
PStep(st, toks, i, variant) ==
  LET s1 == IF NewLine(st, toks, i) THEN LineBlock(st, toks, i, WillCut(st, toks[i], variant), variant) ELSE st IN Count(s1, toks[i])
RECURSIVE PRun(_, _, _, _)
PRun(st, toks, i, variant) == IF i > Len(toks) THEN st ELSE LET s2 == PStep(st, toks, i, variant) IN PRun(s2, toks, i + 1, variant)

(* ---- emitter: Text[Cut.Left : len-Cut.Right], shows write their value ---- *)
CutsInRange(toks, cuts) == \A i \in DOMAIN toks : cuts[i][1] + cuts[i][2] <= Len(toks[i].txt) \/ toks[i].t # "text"
RECURSIVE EmitFrom(_, _, _)
EmitFrom(toks, cuts, i) ==
  IF i > Len(toks) THEN <<>>
  ELSE (CASE toks[i].t = "text" -> Sub(toks[i].txt, cuts[i][1] + 1, Len(toks[i].txt) - cuts[i][2])
          [] toks[i].t = "show" -> toks[i].val
          [] OTHER -> <<>>) \o EmitFrom(toks, cuts, i + 1)
ModelOutT(toks, variant) == LET fin == PRun(PS0(Len(toks)), toks, 1, variant) IN EmitFrom(toks, fin.cuts, 1)
ModelOut(ps, variant) == LET toks == Lex(ps) IN ModelOutT(toks, variant)

(* =====================================================================================
   Piece catalogue (used by MC_Cut to generate; Trace_Cut never looks a piece up)
   ===================================================================================== *)
B_if == <<123,37,32,105,102,32,116,114,117,101,32,37,125>>                      \* {% if true %}
B_end == <<123,37,32,101,110,100,32,37,125>>                                     \* {% end %}
B_assign == <<123,37,32,95,32,61,32,49,32,37,125>>                               \* {% _ = 1 %}
B_cmt == <<123,35,32,99,32,35,125>>                                              \* {# c #}
B_cmtn == <<123,35,32,123,35,32,35,125,32,35,125>>                               \* {# {# #} #}
B_cmtml == <<123,35,32,99,10,100,32,35,125>>                                     \* {# c<LF>d #}
B_show7 == <<123,123,32,55,32,125,125>>                                          \* {{ 7 }}
B_shows == <<123,123,32,34,115,34,32,125,125>>                                   \* {{ "s" }}
B_raw == <<123,37,32,114,97,119,32,37,125,123,123,32,97,32,125,125,123,37,32,101,110,100,32,37,125>>   \* {% raw %}{{ a }}{% end %}
B_rawbody == <<123,123,32,97,32,125,125>>
B_rawm == <<123,37,32,114,97,119,32,109,32,37,125,123,37,32,101,110,100,32,37,125,123,37,32,101,110,100,32,114,97,119,32,109,32,37,125>>   \* {% raw m %}{% end %}{% end raw m %}
B_rawmbody == <<123,37,32,101,110,100,32,37,125>>
B_rawnl == <<123,37,32,114,97,119,32,37,125,10,32,123,35,32,114,32,35,125,10,123,37,32,101,110,100,32,37,125>>   \* {% raw %}<LF> {# r #}<LF>{% end %}
B_rawnlbody == <<10,32,123,35,32,114,32,35,125,10>>
B_rawe == <<123,37,32,114,97,119,32,37,125,123,37,32,101,110,100,32,37,125>>    \* {% raw %}{% end %}
\* raw content that looks like the start of template syntax right before the end of the block
B_rawp == <<123,37,32,114,97,119,32,37,125,97,123,37,123,37,32,101,110,100,32,37,125>>                     \* {% raw %}a{%{% end %}
B_rawps == <<123,37,32,114,97,119,32,37,125,97,123,37,32,123,37,32,101,110,100,32,114,97,119,32,37,125>>   \* {% raw %}a{% {% end raw %}
B_rawpn == <<123,37,32,114,97,119,32,37,125,97,123,37,10,123,37,32,101,110,100,32,37,125>>                 \* {% raw %}a{%<LF>{% end %}
B_rawbb == <<123,37,32,114,97,119,32,37,125,97,123,123,123,37,32,101,110,100,32,37,125>>                   \* {% raw %}a{{{% end %}
B_rawh == <<123,37,32,114,97,119,32,109,32,37,125,97,123,35,123,37,32,101,110,100,32,114,97,119,32,109,32,37,125>>   \* {% raw m %}a{#{% end raw m %}
B_ifml == <<123,37,32,105,102,32,116,114,117,101,32,38,38,10,32,116,114,117,101,32,37,125>>                 \* {% if true &&<LF> true %}
B_shebang == <<35,33,47,120,10>>                                                 \* #!/x<LF>
B_var_pre == <<123,37,32,118,97,114,32,97>>   B_var_post == <<32,61,32,49,32,37,125>>          \* {% var a<i> = 1 %}
B_stmts_pre == <<123,37,37,32,98>>            B_stmts_post == <<32,58,61,32,49,32,37,37,125>>  \* {%% b<i> := 1 %%}
B_stmtsml_post == <<32,58,61,32,49,10,37,37,125>>                                               \* {%% b<i> := 1<LF>%%}
B_render_pre == <<123,123,32,114,101,110,100,101,114,32,34,112,46>>  B_render_post == <<34,32,125,125>>   \* {{ render "p.<ext>" }}
ExtBytes(f) == CASE f = "txt" -> <<116,120,116>> [] f = "html" -> <<104,116,109,108>> [] f = "md" -> <<109,100>>
                 [] f = "js" -> <<106,115>> [] f = "css" -> <<99,115,115>> [] f = "json" -> <<106,115,111,110>>
AllFmts == <<"txt", "html", "md", "js", "css", "json">>

TextNames == {"x", "sp", "tab", "nl", "spnl", "nlsp", "xnl", "crnl", "cr", "lb", "rb", "hash", "pct", "bom", "b"}
TextBytes(n) == CASE n = "x" -> <<120>> [] n = "sp" -> <<32>> [] n = "tab" -> <<9>> [] n = "nl" -> <<10>>
                  [] n = "spnl" -> <<32,10>> [] n = "nlsp" -> <<10,32>> [] n = "xnl" -> <<120,10>> [] n = "crnl" -> <<13,10>>
                  [] n = "cr" -> <<13>> [] n = "lb" -> <<123>> [] n = "rb" -> <<125>> [] n = "hash" -> <<35>> [] n = "pct" -> <<37>>
                  [] n = "bom" -> <<239,187,191>> [] n = "b" -> <<60,98,62>>
SyntaxNames == {"show7", "shows", "render", "if", "ifml", "end", "assign", "var", "stmts", "stmtsml", "cmt", "cmtn", "cmtml",
                "raw", "rawm", "rawnl", "rawe", "rawp", "rawps", "rawpn", "rawbb", "rawh", "shebang"}
AllNames == TextNames \cup SyntaxNames
P(n, k, s, v, w, d) == [n |-> n, k |-> k, s |-> s, v |-> v, w |-> w, d |-> d]
Digit(i) == <<48 + (i % 10)>>
\* piece `n` at position i (variable names are made distinct by position) of a template in format f
Piece(n, i, f) ==
  IF n \in TextNames THEN P(n, "text", TextBytes(n), <<>>, 0, 0)
  ELSE CASE n = "show7"   -> P(n, "show", B_show7, <<55>>, 0, 0)
         [] n = "shows"   -> P(n, "show", B_shows, <<115>>, 0, 0)
         [] n = "render"  -> P(n, "render", B_render_pre \o ExtBytes(f) \o B_render_post, <<82>>, 0, 0)
         [] n = "if"      -> P(n, "stmt", B_if, <<>>, 0, 1)
         [] n = "end"     -> P(n, "stmt", B_end, <<>>, 0, 2)
         [] n = "assign"  -> P(n, "stmt", B_assign, <<>>, 0, 0)
         [] n = "var"     -> P(n, "decl", B_var_pre \o Digit(i) \o B_var_post, <<>>, 0, 0)
         [] n = "stmts"   -> P(n, "stmt", B_stmts_pre \o Digit(i) \o B_stmts_post, <<>>, 0, 0)
         [] n = "stmtsml" -> P(n, "stmt", B_stmts_pre \o Digit(i) \o B_stmtsml_post, <<>>, 0, 0)
         [] n = "cmt"     -> P(n, "comment", B_cmt, <<>>, 0, 0)
         [] n = "cmtn"    -> P(n, "comment", B_cmtn, <<>>, 0, 0)
         [] n = "cmtml"   -> P(n, "comment", B_cmtml, <<>>, 0, 0)
         [] n = "raw"     -> P(n, "raw", B_raw, B_rawbody, 9, 0)
         [] n = "rawm"    -> P(n, "raw", B_rawm, B_rawmbody, 11, 0)
         [] n = "rawnl"   -> P(n, "raw", B_rawnl, B_rawnlbody, 9, 0)
         [] n = "rawe"    -> P(n, "raw", B_rawe, <<>>, 9, 0)
         [] n = "rawp"    -> P(n, "raw", B_rawp, <<97,123,37>>, 9, 0)
         [] n = "rawps"   -> P(n, "raw", B_rawps, <<97,123,37,32>>, 9, 0)
         [] n = "rawpn"   -> P(n, "raw", B_rawpn, <<97,123,37,10>>, 9, 0)
         [] n = "rawbb"   -> P(n, "raw", B_rawbb, <<97,123,123>>, 9, 0)
         [] n = "rawh"    -> P(n, "raw", B_rawh, <<97,123,35>>, 11, 0)
         [] n = "ifml"    -> P(n, "stmt", B_ifml, <<>>, 0, 1)
         [] n = "shebang" -> P(n, "shebang", B_shebang, <<>>, 0, 0)
Pieces(names, f) == [i \in DOMAIN names |-> Piece(names[i], i, f)]
=============================================================================

------------------------------ MODULE Trace_Cut ------------------------------
(* Judges observations of real templates (harness/cmd/c15): one record per line of obs.ndjson
     {id, fmt, pieces:[{n,k,s,v,w,d}], src, outcome, out, errclass}
   Verdict: a record that was built and run and about which the reference has an opinion must have
   its output in Envelope(pieces) (Cut.tla PART 1).  Everything else is skipped and counted:
   build/run errors (no output to judge), pieces/format outside the reference (ref_undefined).
   Diagnostics only (never a verdict): the output of the implementation-shaped model under both
   readings of the end-of-file trigger is compared with the real output (model drift). *)
EXTENDS Cut, TLC, Json

Echoed(r) == Src(r.pieces) = r.src                    \* the driver rendered exactly the logged pieces
HasOpinion(r) == Echoed(r) /\ Defined(r.pieces, r.fmt)
Judged(r) == r.outcome = "ok" /\ HasOpinion(r)
RecOk(r) == Judged(r) => InEnvelope(r.pieces, r.out)
\* signature: the root cause as far as the reference can see it, not the input
Sig(r) == [fam |-> "cut", cause |-> Cause(r.pieces, r.out), last |-> LastKind(r.pieces)]

(* ---- record-walk skeleton (spec/lib2/Trace_HTMLEscape.tla) + skip/drift counters ---- *)
VARIABLES l, nbad, njudged, ndany, ndtext, nnotok, nundef
Obs == ndJsonDeserialize("obs.ndjson")
Init == l = 1 /\ nbad = 0 /\ njudged = 0 /\ ndany = 0 /\ ndtext = 0 /\ nnotok = 0 /\ nundef = 0
Next == /\ l <= Len(Obs) /\ l' = l + 1
        /\ LET r == Obs[l]
               op == HasOpinion(r)
               j == op /\ r.outcome = "ok"
               toks == Lex(r.pieces)
           IN
           /\ nbad' = nbad + (IF j /\ ~InEnvelope(r.pieces, r.out) THEN 1 ELSE 0)
           /\ njudged' = njudged + (IF j THEN 1 ELSE 0)
           /\ ndany' = ndany + (IF j /\ ModelOutT(toks, TRUE) # r.out THEN 1 ELSE 0)
           /\ ndtext' = ndtext + (IF j /\ ModelOutT(toks, FALSE) # r.out THEN 1 ELSE 0)
           /\ nnotok' = nnotok + (IF op /\ r.outcome # "ok" THEN 1 ELSE 0)
           /\ nundef' = nundef + (IF ~op THEN 1 ELSE 0)
BadIdx == SelectSeq([i \in 1..Len(Obs) |-> i], LAMBDA i : ~RecOk(Obs[i]))
Done == l = Len(Obs) + 1 =>
          /\ ndJsonSerialize("bad.ndjson",
               IF nbad = 0 THEN <<>>
               ELSE LET B == BadIdx IN
                    [j \in 1..(IF Len(B) < 2000 THEN Len(B) ELSE 2000) |->
                       [k |-> B[j], id |-> Obs[B[j]].id, sig |-> Sig(Obs[B[j]]), nbad |-> nbad]])
          /\ ndJsonSerialize("stats.ndjson",
               <<[records |-> Len(Obs), judged |-> njudged, bad |-> nbad, drift_eof_any_token |-> ndany,
                  drift_eof_text_only |-> ndtext, not_ok_on_defined |-> nnotok, ref_undefined |-> nundef]>>)
Consumed == TLCGet("stats").diameter - 1 = Len(Obs)
=============================================================================

------------------------------ MODULE Trace_Cut ------------------------------
(* Judges observations of real templates (harness/cmd/c15): one record per line of obs.ndjson
     {id, fmt, names:[catalogue name...], src, outcome, out, errclass}
   The pieces are those of the catalogue (Cut!Piece); a record whose logged source is not the
   concatenation of its pieces, or whose pieces/format the reference has no opinion about, is
   skipped and counted (ref_undefined), as is a template that was refused with a build error.
   Verdict (property level): a template the reference has an opinion about and that was built
   and run must have its output in Envelope(pieces) (Cut.tla PART 1); it must HAVE an output -
   a panic of the builder/renderer into the host leaves the template without one.
   Diagnostics only (never a verdict): the output of the implementation-shaped model under both
   transcriptions of the line block (Cut!Variants) is compared with the real output (model drift). *)
EXTENDS Cut, TLC, Json

Known(r) == Len(r.names) <= 9 /\ \A i \in DOMAIN r.names : r.names[i] \in AllNames
PiecesOf(r) == IF Known(r) THEN Pieces(r.names, r.fmt) ELSE <<>>
(* READING of "the content of a raw block is emitted exactly as written": whatever stands between
   {% raw [m] %} and the first matching end statement is content, never syntax - so a template that the
   reference has an opinion about (every piece well formed, blocks balanced) and that contains a raw block
   must not be REFUSED: a build error means raw content was taken for syntax (or the end was missed).
   Applied only where a raw block is allowed wherever the catalogue can put it: not in Markdown, whose
   code-block contexts refuse {% raw %} on purpose.  A build error on a template without raw block is
   still only counted. *)
HasRaw(ps) == \E i \in DOMAIN ps : ps[i].k = "raw"
RawNames(r) == LET ps == PiecesOf(r) rs == SelectSeq(r.names, LAMBDA n : n \in {"raw", "rawm", "rawnl", "rawe", "rawp", "rawps", "rawpn", "rawbb", "rawh"})
               IN IF rs = <<>> THEN "-" ELSE rs[1]
RawMustBuild(ps, fmt) == HasRaw(ps) /\ fmt \in {"txt", "html", "css", "js", "json"}
\* <<has opinion, judged, ok>>
Verdict(r) ==
  LET ps == PiecesOf(r) src == Src(ps) cls == Cls(ps)
      op == Known(r) /\ r.fmt \in {"txt", "html", "md", "js", "css", "json"} /\ src = r.src /\ DefinedX(ps, src, cls, r.fmt)
      j == op /\ r.outcome = "ok"
  IN <<op, j, IF j THEN InEnvelopeX(ps, src, cls, r.out)
              ELSE ~(op /\ (r.outcome = "hostpanic" \/ (r.outcome = "builderr" /\ RawMustBuild(ps, r.fmt))))>>
RecOk(r) == Verdict(r)[3]
\* signature: the root cause as far as the reference can see it, not the input
Sig(r) == IF r.outcome = "hostpanic"
          THEN LET ps == PiecesOf(r) src == Src(ps) cls == Cls(ps) IN
               [fam |-> "cut", cause |-> "host-panic", detail |-> r.errclass,
                ctx |-> IF AfterML(ps, src, cls, 1, 0) # {} THEN "space-after-multi-line-statement" ELSE "other", next |-> "-"]
          ELSE IF r.outcome # "ok" THEN [fam |-> "cut", cause |-> "template-with-raw-block-refused", detail |-> r.errclass, ctx |-> RawNames(r), next |-> "-"]
          ELSE LET c == Cause(PiecesOf(r), r.out) IN [fam |-> "cut", cause |-> c[1], detail |-> c[2], ctx |-> c[3], next |-> c[4]]

\* model drift (diagnostic): a model run whose cuts overlap has no output (the real build panics)
ModelDiffers(toks, variant, out) == LET fin == PRun(PS0(Len(toks)), toks, 1, variant) IN
                                    ~CutsInRange(toks, fin.cuts) \/ EmitFrom(toks, fin.cuts, 1) # out

(* ---- record-walk skeleton (spec/lib2/Trace_HTMLEscape.tla) + skip/drift counters ---- *)
VARIABLES l, nbad, njudged, ndhead, ndfix, nnotok, nundef
Obs == ndJsonDeserialize("obs.ndjson")
Init == l = 1 /\ nbad = 0 /\ njudged = 0 /\ ndhead = 0 /\ ndfix = 0 /\ nnotok = 0 /\ nundef = 0
Next == /\ l <= Len(Obs) /\ l' = l + 1
        /\ LET r == Obs[l]
               v == Verdict(r)
               toks == Lex(PiecesOf(r))
           IN
           /\ nbad' = nbad + (IF v[3] THEN 0 ELSE 1)
           /\ njudged' = njudged + (IF v[2] THEN 1 ELSE 0)
           /\ ndhead' = ndhead + (IF v[2] /\ ModelDiffers(toks, "head", r.out) THEN 1 ELSE 0)
           /\ ndfix' = ndfix + (IF v[2] /\ ModelDiffers(toks, "fix", r.out) THEN 1 ELSE 0)
           /\ nnotok' = nnotok + (IF v[1] /\ ~v[2] THEN 1 ELSE 0)
           /\ nundef' = nundef + (IF ~v[1] THEN 1 ELSE 0)
BadIdx == SelectSeq([i \in 1..Len(Obs) |-> i], LAMBDA i : ~RecOk(Obs[i]))
Done == l = Len(Obs) + 1 =>
          /\ ndJsonSerialize("bad.ndjson",
               IF nbad = 0 THEN <<>>
               ELSE LET B == BadIdx IN
                    [j \in 1..(IF Len(B) < 2000 THEN Len(B) ELSE 2000) |->
                       [k |-> B[j], id |-> Obs[B[j]].id, sig |-> Sig(Obs[B[j]]), nbad |-> nbad]])
          /\ ndJsonSerialize("stats.ndjson",
               <<[records |-> Len(Obs), judged |-> njudged, bad |-> nbad, drift_head |-> ndhead,
                  drift_fix |-> ndfix, not_ok_on_defined |-> nnotok, ref_undefined |-> nundef]>>)
Consumed == TLCGet("stats").diameter - 1 = Len(Obs)
=============================================================================

----------------------------- MODULE PanicFlow -----------------------------
(* C12 (and the defer/panic/recover part of C01).

   PART 1 - REFERENCE: Go's defer/panic/recover semantics on one goroutine (frames with LIFO defer
   lists, the panic list with recovered/aborted marks, recover() effective only when called
   directly by a deferred function that the panic itself is running, re-panics inside deferred
   calls), extended with the documented behaviour of native.Env.Stop / Fatal.  It is what the
   property demands; nothing in it is taken from the implementation.

   PART 2 - IMPLEMENTATION-SHAPED: the VM's `calls` stack with its status machine
   (internal/runtime: run.go OpCallFunc / OpDefer / OpRecover / OpReturn / runFunc, vm.go nextCall /
   callNative / VM.Run, errors.go convertPanic / newPanic) transcribed branch by branch.

   Both are written as deterministic step functions over a state record given a closed program,
   so that MC_PanicFlow can drive them as actions (one action per branch) and Trace_PanicFlow can
   run them to completion on any program (RefObs / VmObs).

   A program is a sequence of function bodies (prog[1] = main); a body is a sequence of statements
   [op, a]:
     print k | call f | defer f | panic k | recover   (r := recover(); log r)
     drecover (defer recover())  | dprint k (defer println(k)) | dpanic k (defer panic(k))
     stop e | fatal v            (a native function calls env.Stop(E_e) / env.Fatal(V_v))
     dstop e | dfatal v          (the same native functions deferred directly)
   Every function has exactly one call site.  Observable: `out` = the sequence of printed ints and
   recover() results (100 = nil, 100+v), the final outcome, and for an unrecovered panic the chain
   (newest first) of the panics still on the panic list with their recovered marks and the
   statement (fn, ix) that raised each. *)
EXTENDS Integers, Sequences, FiniteSets

S(op, a) == [op |-> op, a |-> a]
DeferOps == {"defer", "drecover", "dprint", "dpanic", "dstop", "dfatal"}
BodyOf(prog, f) == IF f >= 1 /\ f <= Len(prog) THEN prog[f] ELSE <<>>
Rev(s) == [i \in 1..Len(s) |-> s[Len(s) + 1 - i]]
Fuel == 4000

(* ======================================================================================== *)
(* PART 1 - reference                                                                        *)
(* ======================================================================================== *)
\* frame: the function, the next statement, the deferred calls (last = next to run), the phase
\* (body / ret = returning normally, running its deferred calls / pan = panicking, running its
\* deferred calls) and byPanic = "this frame is a deferred call that the panic sequence started".
RFrame(f, bp) == [fn |-> f, pc |-> 1, defers |-> <<>>, phase |-> "body", byPanic |-> bp]
\* panic: value, recovered, aborted (its deferred call was abandoned by a newer panic), run = stack
\* depth of the deferred call it is currently running, (fn, ix) = the statement that raised it
NewPanic(v, f, ix) == [v |-> v, rec |-> FALSE, ab |-> FALSE, run |-> 0, fn |-> f, ix |-> ix]
RInit == [stack |-> <<RFrame(1, FALSE)>>, panics |-> <<>>, out |-> <<>>, done |-> "no", val |-> 0]
RTop(s) == s.stack[Len(s.stack)]
RSetTop(s, fr) == [s.stack EXCEPT ![Len(s.stack)] = fr]
Newest(s) == s.panics[Len(s.panics)]
\* Go spec, "Handling panics": recover returns nil when the goroutine is not panicking or recover
\* was not called directly by a deferred function (run by that panic) - and a panic that has
\* already been recovered is no longer "panicking".
CanRecoverAt(s, fr, depth) == s.panics # <<>> /\ fr.byPanic /\ ~Newest(s).rec /\ Newest(s).run = depth
MarkRec(s) == [s.panics EXCEPT ![Len(s.panics)].rec = TRUE]
MarkAb(ps, depth) == [i \in 1..Len(ps) |-> IF ps[i].run = depth THEN [ps[i] EXCEPT !.ab = TRUE] ELSE ps[i]]

\* execute statement st = prog[top.fn][ix] in the top frame
RExec(s, st, ix) ==
  LET top == RTop(s)
      adv == [top EXCEPT !.pc = ix + 1]
  IN CASE st.op = "print" -> [s EXCEPT !.stack = RSetTop(s, adv), !.out = Append(@, st.a)]
       [] st.op = "call" -> [s EXCEPT !.stack = Append(RSetTop(s, adv), RFrame(st.a, FALSE))]
       [] st.op \in DeferOps ->
            [s EXCEPT !.stack = RSetTop(s, [adv EXCEPT !.defers = Append(@, [k |-> st.op, a |-> st.a, ix |-> ix])])]
       [] st.op = "panic" -> [s EXCEPT !.stack = RSetTop(s, [adv EXCEPT !.phase = "pan"]),
                                       !.panics = Append(@, NewPanic(st.a, top.fn, ix))]
       [] st.op = "recover" ->
            IF CanRecoverAt(s, top, Len(s.stack))
            THEN [s EXCEPT !.stack = RSetTop(s, adv), !.out = Append(@, 100 + Newest(s).v), !.panics = MarkRec(s)]
            ELSE [s EXCEPT !.stack = RSetTop(s, adv), !.out = Append(@, 100)]
       \* native.Env: "Stop stops the execution with the given error. Deferred functions are not
       \* called"; "Fatal exits the execution and then panics with value v. Deferred functions are
       \* not called": the run ends here, nothing else executes.
       [] st.op = "stop" -> [s EXCEPT !.done = "stop", !.val = st.a]
       [] st.op = "fatal" -> [s EXCEPT !.done = "fatal", !.val = st.a]

RReturn(s) == [s EXCEPT !.stack = RSetTop(s, [RTop(s) EXCEPT !.phase = "ret"])]

\* the frame is returning or panicking and has a pending deferred call: run the last one
RRunDefer(s) ==
  LET top == RTop(s)
      d == top.defers[Len(top.defers)]
      bp == top.phase = "pan"
      popped == [top EXCEPT !.defers = SubSeq(@, 1, Len(@) - 1)]
      d1 == Len(s.stack) + 1
      psRun == IF bp THEN [s.panics EXCEPT ![Len(s.panics)].run = d1] ELSE s.panics
  IN CASE d.k = "defer" -> [s EXCEPT !.stack = Append(RSetTop(s, popped), RFrame(d.a, bp)), !.panics = psRun]
       \* `defer recover()`: recover is then not called BY a deferred function.  gc: a no-op while
       \* the deferring function is itself panicking; when the deferring function returns normally
       \* it has the effect recover() would have had in that function (validated against gc on
       \* every generated program, see checks/c12.py audit).
       [] d.k = "drecover" -> IF ~bp /\ CanRecoverAt(s, top, Len(s.stack))
                               THEN [s EXCEPT !.stack = RSetTop(s, popped), !.panics = MarkRec(s)]
                               ELSE [s EXCEPT !.stack = RSetTop(s, popped)]
       [] d.k = "dprint" -> [s EXCEPT !.stack = RSetTop(s, popped), !.out = Append(@, d.a), !.panics = psRun]
       \* a deferred call that panics at once: a new panic is raised at depth d1, the call is abandoned
       [] d.k = "dpanic" -> [s EXCEPT !.stack = RSetTop(s, [popped EXCEPT !.phase = "pan"]),
                                       !.panics = Append(MarkAb(psRun, d1), NewPanic(d.a, top.fn, d.ix))]
       [] d.k = "dstop" -> [s EXCEPT !.done = "stop", !.val = d.a]
       [] d.k = "dfatal" -> [s EXCEPT !.done = "fatal", !.val = d.a]

RECURSIVE DropAborted(_)
DropAborted(ps) == IF ps # <<>> /\ ps[Len(ps)].ab THEN DropAborted(SubSeq(ps, 1, Len(ps) - 1)) ELSE ps

\* a frame with no pending deferred call finishes returning
RPopRet(s) ==
  LET top == RTop(s)
      rest == SubSeq(s.stack, 1, Len(s.stack) - 1)
  IN IF rest = <<>> THEN [s EXCEPT !.stack = rest, !.done = "ok"]
     ELSE LET par == rest[Len(rest)] IN
          IF top.byPanic /\ par.phase = "pan" /\ Newest(s).rec /\ Newest(s).run = Len(s.stack)
          THEN \* the deferred call recovered the panic: the panic (and the panics it had aborted) leave
               \* the panic list, the frame that deferred the call returns normally
               [s EXCEPT !.panics = DropAborted(SubSeq(s.panics, 1, Len(s.panics) - 1)),
                         !.stack = [rest EXCEPT ![Len(rest)].phase = "ret"]]
          ELSE [s EXCEPT !.stack = rest]
\* a panicking frame with no pending deferred call is left: the panic continues in the caller
RPopPan(s) ==
  LET rest == SubSeq(s.stack, 1, Len(s.stack) - 1)
      d == Len(s.stack)
      ps == [i \in 1..Len(s.panics) |-> IF i < Len(s.panics) /\ s.panics[i].run = d THEN [s.panics[i] EXCEPT !.ab = TRUE] ELSE s.panics[i]]
  IN IF rest = <<>> THEN [s EXCEPT !.stack = rest, !.panics = ps, !.done = "panic"]
     ELSE [s EXCEPT !.stack = [rest EXCEPT ![Len(rest)].phase = "pan"], !.panics = ps]

\* which reference step is next ("" = none: finished)
RKind(prog, s) ==
  IF s.done # "no" THEN "" ELSE
  LET top == RTop(s) IN
  IF top.phase = "body" THEN (IF top.pc <= Len(BodyOf(prog, top.fn)) THEN "exec" ELSE "return")
  ELSE IF top.defers # <<>> THEN "rundefer"
  ELSE IF top.phase = "ret" THEN "popret" ELSE "poppan"
RStep(prog, s) ==
  LET k == RKind(prog, s) top == RTop(s) IN
  CASE k = "exec" -> RExec(s, BodyOf(prog, top.fn)[top.pc], top.pc)
    [] k = "return" -> RReturn(s)
    [] k = "rundefer" -> RRunDefer(s)
    [] k = "popret" -> RPopRet(s)
    [] k = "poppan" -> RPopPan(s)
RECURSIVE RRun(_, _, _)
RRun(prog, s, fuel) == IF s.done # "no" \/ fuel = 0 THEN s ELSE RRun(prog, RStep(prog, s), fuel - 1)

\* the reference observable of a terminal state.  chain: every panic still on the panic list, newest first.
RObsOf(s) == [out |-> s.out, outcome |-> s.done, val |-> s.val,
              chain |-> IF s.done = "panic" THEN Rev([i \in 1..Len(s.panics) |-> [v |-> s.panics[i].v, rec |-> s.panics[i].rec, fn |-> s.panics[i].fn, ix |-> s.panics[i].ix]]) ELSE <<>>]
RefObs(prog) == RObsOf(RRun(prog, RInit, Fuel))          \* outcome "no" = reference undefined (fuel)

(* ======================================================================================== *)
(* PART 2 - the VM's calls-stack machine, transcribed                                        *)
(* ======================================================================================== *)
\* callFrame: fn (0 = native callable, -1 = the function the emitter synthesises for `defer recover()`),
\* pc (return address), status, nat = the deferred native call [k, a, ix]
NoNat == [k |-> "", a |-> 0, ix |-> 0]
VFrame(f, pc, st) == [fn |-> f, pc |-> pc, st |-> st, nat |-> NoNat]
VBody(prog, f) == IF f = -1 THEN <<S("recdown", 0)>> ELSE BodyOf(prog, f)
\* vm.fn (0 = nil), vm.pc, vm.calls, vm.panic (linked list, head = newest), nc = nextCall's loop index
\* (-2 = not in nextCall), why = first known-anomalous branch taken (diagnosis only)
VInit == [fn |-> 1, pc |-> 1, calls |-> <<>>, panic |-> <<>>, out |-> <<>>, done |-> "no", val |-> 0, nc |-> -2, why |-> ""]
Why(v, w) == IF v.why = "" THEN w ELSE v.why

\* runFunc after runRecoverable returned nil, or `break` when len(vm.calls) == 0: `if vm.panic != nil { return vm.panic }`
VFinish(v) == [v EXCEPT !.done = IF v.panic # <<>> THEN "panic" ELSE "ok", !.nc = -2]
\* a Go panic that convertPanic cannot attribute: *fatalError -> VM.Run panics with its msg
VHostPanic(v, val, w) == [v EXCEPT !.done = "hostpanic", !.val = val, !.nc = -2, !.why = w]

\* OpPanic -> runRecoverable's recover -> convertPanic (case OpPanic: newPanic) -> runFunc links it.
\* newPanic reads InstructionInfo[vm.pc], vm.pc being already past the instruction: no position (0, 0).
VRaise(v, k) ==
  LET p == [v |-> k, rec |-> FALSE, fn |-> 0, ix |-> 0]
      pl == <<p>> \o v.panic
  IN IF v.calls = <<>> THEN [v EXCEPT !.panic = pl, !.done = "panic"]
     ELSE [v EXCEPT !.panic = pl, !.calls = Append(@, VFrame(v.fn, 0, "panicked")), !.fn = 0, !.nc = Len(v.calls) + 1]

\* OpRecover: scan the calls stack from `from` downwards, skipping deferred entries; a panicked frame there
\* is marked recovered and the newest panic is marked recovered
RECURSIVE RecScan(_, _)
RecScan(calls, i) == IF i < 1 THEN 0 ELSE IF calls[i].st = "deferred" THEN RecScan(calls, i - 1)
                     ELSE IF calls[i].st = "panicked" THEN i ELSE 0
VRecoverFrom(v, from) ==
  LET i == RecScan(v.calls, from) IN
  IF i = 0 THEN <<v, 0>>
  ELSE <<[v EXCEPT !.calls[i].st = "recovered", !.panic[1].rec = TRUE], v.panic[1].v>>

\* execute statement st at vm.pc (vm.pc advanced first, as the interpreter loop does)
VExec(v0, st, ix) ==
  LET v == [v0 EXCEPT !.pc = ix + 1] IN
  CASE st.op = "print" -> [v EXCEPT !.out = Append(@, st.a)]
    \* OpCallFunc: push the caller (status started, return address), switch to the callee
    [] st.op = "call" -> [v EXCEPT !.calls = Append(@, VFrame(v.fn, ix + 1, "started")), !.fn = st.a, !.pc = 1]
    \* OpDefer: push the callee with status deferred
    [] st.op = "defer" -> [v EXCEPT !.calls = Append(@, VFrame(st.a, 1, "deferred"))]
    [] st.op = "drecover" -> [v EXCEPT !.calls = Append(@, VFrame(-1, 1, "deferred"))]
    [] st.op \in {"dprint", "dpanic", "dstop", "dfatal"} ->
         [v EXCEPT !.calls = Append(@, [fn |-> 0, pc |-> 0, st |-> "deferred", nat |-> [k |-> st.op, a |-> st.a, ix |-> ix]])]
    [] st.op = "panic" -> VRaise(v, st.a)
    [] st.op = "recover" -> LET r == VRecoverFrom(v, Len(v.calls)) IN [r[1] EXCEPT !.out = Append(@, 100 + r[2])]
    \* "recover down the stack" (a > 0): nothing if the top frame is panicked, else start one below
    [] st.op = "recdown" -> IF v.calls[Len(v.calls)].st = "panicked" THEN v ELSE VRecoverFrom(v, Len(v.calls) - 1)[1]
    \* env.Stop panics with stopError: convertPanic returns it, runFunc returns it, VM.Run returns its err
    [] st.op = "stop" -> [v EXCEPT !.done = "stop", !.val = st.a]
    \* env.Fatal panics with *fatalError: convertPanic (case OpCallNative) returns it, VM.Run panics with its msg
    [] st.op = "fatal" -> [v EXCEPT !.done = "fatal", !.val = st.a]

\* OpReturn
VReturn(v) ==
  LET i == Len(v.calls) IN
  IF i = 0 THEN VFinish(v)
  ELSE IF v.calls[i].st = "started"
       THEN [v EXCEPT !.calls = SubSeq(@, 1, i - 1), !.fn = v.calls[i].fn, !.pc = v.calls[i].pc]
       ELSE [v EXCEPT !.nc = i]                      \* !vm.nextCall()

\* nextCall running a deferred NATIVE callable through callNative (all of them take native.Env).
\* `after` = the loop index the for loop continues with.
VCallNative(v, n, after) ==
  IF v.fn = 0
  THEN \* callNative: env.callPath = vm.fn.InstructionInfo[...] with vm.fn == nil: nil dereference, and
       \* convertPanic dereferences vm.fn again inside runRecoverable's deferred function: host panic
       VHostPanic(v, -1, "native-defer-while-panicking")
  ELSE CASE n.k = "dprint" -> [v EXCEPT !.out = Append(@, n.a), !.nc = after]
         \* panic(k) in the native: convertPanic sees Body[pc-1].Op = OpReturn, no case: &fatalError{msg: k}
         [] n.k = "dpanic" -> VHostPanic(v, n.a, "native-defer-raises-at-return")
         [] n.k = "dstop" -> [v EXCEPT !.done = "stop", !.val = n.a, !.nc = -2]
         \* *fatalError is only unwrapped under OpCallNative/OpCallIndirect: wrapped a second time here
         [] n.k = "dfatal" -> VHostPanic(v, -1, "native-defer-raises-at-return")

NumPanicked(calls) == Cardinality({j \in 1..Len(calls) : calls[j].st = "panicked"})
RECURSIVE ScanDeferred(_, _)
ScanDeferred(calls, j) == IF j < 1 THEN 0 ELSE IF calls[j].st = "deferred" THEN j ELSE ScanDeferred(calls, j - 1)

\* which branch of nextCall's loop body runs at index i = v.nc
NcKind(v) ==
  LET i == v.nc IN
  IF i < 1 THEN "nc-exit"
  ELSE LET c == v.calls[i] IN
       CASE c.st = "started" -> "nc-started"
         [] c.st = "tailed" -> "nc-tailed"
         [] c.st = "deferred" -> IF v.fn = 0 THEN "nc-deferred-nilfn" ELSE IF c.fn # 0 THEN "nc-deferred" ELSE "nc-deferred-native"
         [] c.st \in {"returned", "recovered"} ->
              IF i > 1 /\ v.calls[i - 1].st = "deferred"
              THEN (IF v.calls[i - 1].fn # 0 THEN "nc-swap" ELSE "nc-swap-native")
              ELSE (IF c.st = "recovered" THEN "nc-finalize-recovered" ELSE "nc-finalize")
         [] c.st = "panicked" ->
              LET j == ScanDeferred(v.calls, i - 1) IN
              IF j = 0 THEN "nc-panicked-none" ELSE IF v.calls[j].fn # 0 THEN "nc-panicked-defer" ELSE "nc-panicked-native"
NcStep(v) ==
  LET i == v.nc  k == NcKind(v) IN
  CASE k = "nc-exit" -> VFinish(v)                                     \* return false
    \* a call is returned: continue with the previous call
    [] k = "nc-started" -> [v EXCEPT !.calls = SubSeq(@, 1, i - 1), !.fn = v.calls[i].fn, !.pc = v.calls[i].pc, !.nc = -2]
    [] k = "nc-tailed" -> [v EXCEPT !.nc = i - 1]
    \* a call that has deferred calls is returned: its frame replaces the deferred entry with status returned ...
    [] k = "nc-deferred-nilfn" -> VHostPanic(v, -1, "native-defer-while-panicking")   \* current.cl.fn.NumReg, fn == nil
    [] k = "nc-deferred" -> [v EXCEPT !.calls = Append(SubSeq(@, 1, i - 1), VFrame(v.fn, 0, "returned")),
                                      !.fn = v.calls[i].fn, !.pc = 1, !.nc = -2]
    [] k = "nc-deferred-native" -> VCallNative([v EXCEPT !.calls[i] = VFrame(v.fn, 0, "returned")], v.calls[i].nat, i)
    \* a deferred call is returned and another deferred call is pending: swap and run it.  The `break` leaves
    \* the switch BEFORE the block that pops the recovered panics.
    [] k = "nc-swap" -> [v EXCEPT !.calls = SubSeq([@ EXCEPT ![i - 1] = v.calls[i]], 1, i - 1),
                                  !.fn = v.calls[i - 1].fn, !.pc = 1, !.nc = -2,
                                  !.why = IF v.calls[i].st = "recovered" THEN Why(v, "stale-recovered-link") ELSE v.why]
    [] k = "nc-swap-native" -> VCallNative([v EXCEPT !.calls[i - 1] = v.calls[i],
                                                     !.why = IF v.calls[i].st = "recovered" THEN Why(v, "stale-recovered-link") ELSE v.why],
                                           v.calls[i - 1].nat, i - 1)
    \* ... otherwise the previous call is finalized; after a recover the panics in excess of the panicked frames are popped
    [] k = "nc-finalize" -> [v EXCEPT !.nc = i - 1]
    \* (the number of panics to keep is taken to be the number of panicked frames; a frame whose panic was aborted by a
    \* newer panic of one of its deferred calls holds two panics: popping more than one panic is where that shows)
    [] k = "nc-finalize-recovered" ->
         LET np == NumPanicked(v.calls)  n == Len(v.panic) IN
         [v EXCEPT !.panic = IF n > np THEN SubSeq(@, n - np + 1, n) ELSE @, !.nc = i - 1,
                   !.why = IF n - np > 1 THEN Why(v, "recovered-pop-miscount") ELSE v.why]
    \* a call is panicked: the first deferred call down the stack takes the place of the frame above it
    [] k = "nc-panicked-none" -> VFinish(v)
    [] k = "nc-panicked-defer" ->
         LET j == ScanDeferred(v.calls, i - 1) IN
         [v EXCEPT !.calls = SubSeq([@ EXCEPT ![j] = [v.calls[j + 1] EXCEPT !.st = "panicked"]], 1, j),
                   !.fn = v.calls[j].fn, !.pc = 1, !.nc = -2]
    \* ... a native one is called in place, no i++: the for loop then goes on BELOW the panicked frame (index j - 1), so the
    \* caller is resumed, or the next deferred call is run as if the panicking function had returned
    [] k = "nc-panicked-native" ->
         LET j == ScanDeferred(v.calls, i - 1) IN
         VCallNative([v EXCEPT !.calls[j] = [v.calls[j + 1] EXCEPT !.st = "panicked"], !.why = Why(v, "native-defer-while-panicking")],
                     v.calls[j].nat, j - 1)

VKind(prog, v) ==
  IF v.done # "no" THEN ""
  ELSE IF v.nc # -2 THEN NcKind(v)
  ELSE IF v.pc <= Len(VBody(prog, v.fn)) THEN VBody(prog, v.fn)[v.pc].op ELSE "return"
VStep(prog, v) ==
  IF v.nc # -2 THEN NcStep(v)
  ELSE IF v.pc <= Len(VBody(prog, v.fn)) THEN VExec(v, VBody(prog, v.fn)[v.pc], v.pc) ELSE VReturn(v)
RECURSIVE VRun(_, _, _)
VRun(prog, v, fuel) == IF v.done # "no" \/ fuel = 0 THEN v ELSE VRun(prog, VStep(prog, v), fuel - 1)
VObsOf(v) == [out |-> v.out, outcome |-> v.done, val |-> v.val,
              chain |-> IF v.done = "panic" THEN [i \in 1..Len(v.panic) |-> v.panic[i]] ELSE <<>>]
VmObs(prog) == VObsOf(VRun(prog, VInit, Fuel))
VmWhy(prog) == VRun(prog, VInit, Fuel).why

(* ======================================================================================== *)
(* comparing observables                                                                      *)
(* ======================================================================================== *)
\* control-flow part of an observable: prints + recover results, outcome (with the identity of the Stop error /
\* Fatal value), chain values and recovered flags.  A host panic's value is not compared (no reference has one).
Flow(o) == [out |-> o.out, outcome |-> o.outcome,
            val |-> IF o.outcome \in {"stop", "fatal"} THEN o.val ELSE 0,
            chain |-> [i \in 1..Len(o.chain) |-> [v |-> o.chain[i].v, rec |-> o.chain[i].rec]]]
=============================================================================

-------------------------- MODULE Trace_PanicFlow --------------------------
(* Judges observations of the real scriggo.Build/Run and BuildTemplate/Run.  One record per program:
     {id, prog, runs: [{variant, built, out, outcome, val, chain: [{v, rec, path, line}], lines, paths, after, ends}]}
   The reference observable is recomputed here from the program alone (RefObs), so nothing the
   driver says about the expected behaviour is trusted.  `lines[f][i]` / `paths[f]` only say where
   the concretiser put statement i of function f in the source text it generated. *)
EXTENDS PanicFlow, TLC, Json

(* ---- property-level predicates, one per clause of the statement of C12 (and C01's defer/recover part) ---- *)
\* "no further interpreted code, including deferred calls, runs" after Stop / Fatal: nothing was
\* printed / no recover() result was logged after the native function called Stop or Fatal.
NothingAfterEnd(run) == run.after = 0
\* C01: "the same printed output, the same sequence of recovered panic values"
SameOutput(ref, run) == run.out = ref.out
\* "Run returns err itself" (identity, val = which error) / "Run panics with v" / "returns a *PanicError" / nil
SameOutcome(ref, run) == run.outcome = ref.outcome /\ (ref.outcome \in {"stop", "fatal"} => run.val = ref.val)
\* "message, chain of earlier panics with their recovered flags": the chain lists, newest first, the panics
\* still active when the program ends, as PanicError.Error documents ("all currently active panics") and as
\* gc prints them.  A panic that was recovered and whose deferred call has returned is not active.
SameChain(ref, run) == /\ Len(run.chain) = Len(ref.chain)
                       /\ \A i \in 1..Len(ref.chain) : run.chain[i].v = ref.chain[i].v /\ run.chain[i].rec = ref.chain[i].rec
\* "path and position identify ... the source location of the panic": Path() is the file and Position().Line
\* the line of the `panic` statement that raised that panic (column not required).  Only checked for panics
\* raised by a `panic(k)` statement: for `defer panic(k)` the "location of the panic" is debatable (gc reports
\* the closing brace of the deferring function), so no position is demanded for it.
\* (variant "gc" = the same program run by the gc toolchain, used by the oracle guard / audit: it has no PanicError.)
\* Path: the file that contains the statement; for a program, whose InstructionInfo carries the package path ("main"
\* for the only file main.go of the main package), that package path is accepted as well - it identifies the same file.
LinkPosOK(prog, run, lnk, got) ==
   (prog[lnk.fn][lnk.ix].op = "panic" /\ run.variant # "gc") =>
        (got.path \in {run.paths[lnk.fn], run.pkgs[lnk.fn]} /\ got.line = run.lines[lnk.fn][lnk.ix])
SamePositions(prog, ref, run) == \A i \in 1..Len(ref.chain) : LinkPosOK(prog, run, ref.chain[i], run.chain[i])

FlowOK(ref, run) == NothingAfterEnd(run) /\ SameOutput(ref, run) /\ SameOutcome(ref, run)
                    /\ (ref.outcome = "panic" => SameChain(ref, run))
RunOK(prog, ref, run) == ~run.built \/ (FlowOK(ref, run) /\ (ref.outcome = "panic" => SamePositions(prog, ref, run)))

(* ---- root-cause signature of a failing run ---- *)
\* does the transcribed VM machine (terminal state m) predict exactly this (mis)behaviour?  (diagnosis only)
VmExplains(m, run) ==
  LET o == VObsOf(m) IN
  /\ run.out = o.out /\ run.outcome = o.outcome /\ (o.outcome \in {"stop", "fatal"} => run.val = o.val)
  /\ Len(run.chain) = Len(o.chain) /\ \A i \in 1..Len(o.chain) : run.chain[i].v = o.chain[i].v /\ run.chain[i].rec = o.chain[i].rec
Symptom(ref, run) == IF ~NothingAfterEnd(run) THEN "ran-after-end"
                     ELSE IF ~SameOutcome(ref, run) THEN "outcome"
                     ELSE IF ~SameOutput(ref, run) THEN "output" ELSE "chain"
HasNativeDefer(prog) == \E f \in 1..Len(prog) : \E i \in 1..Len(prog[f]) : prog[f][i].op \in {"dprint", "dpanic", "dstop", "dfatal"}
Cause(prog, ref, run, m) ==
  IF FlowOK(ref, run)
  THEN (IF \A i \in 1..Len(ref.chain) : LinkPosOK(prog, run, ref.chain[i], run.chain[i]) \/ (run.chain[i].path = "" /\ run.chain[i].line = 0)
        THEN "position-empty" ELSE "position-wrong")
  \* the wrapper that lets native code call a Scriggo function (callable.Value) turns an unrecovered PanicError of that
  \* function into a fatalError whose message is the panic TEXT: the host recovers a string
  ELSE IF run.variant = "callback" /\ run.outcome = "hostpanic" /\ run.dclass = "string" THEN "callback-panic-escapes"
  ELSE IF VmExplains(m, run) /\ m.why # "" THEN m.why
  \* the same native-deferred-call paths of nextCall inside the nested VM that runs a called-back function (the transcribed
  \* machine models the main VM only: there callNative crashes first, in a nested VM `case deferred` does)
  ELSE IF run.variant = "callback" /\ run.outcome = "hostpanic" /\ HasNativeDefer(prog) THEN "native-defer-while-panicking"
  ELSE Symptom(ref, run)
\* (a position-only failure is "explained" by the transcribed newPanic exactly when no position at all is reported; the VM
\* machine is not run for it)
SigOf(prog, ref, run, m) == [fam |-> "panicflow", variant |-> run.variant, cause |-> Cause(prog, ref, run, m),
                             ref |-> ref.outcome, got |-> run.outcome,
                             explained |-> IF FlowOK(ref, run) THEN Cause(prog, ref, run, m) = "position-empty" ELSE VmExplains(m, run)]

\* failing runs of one record: << [run |-> index, sig |-> ...] >> ; reference undefined (fuel) => nothing is judged
RefDefined(ref) == ref.outcome # "no"
\* (TLC re-evaluates a LET definition at every use but caches operator ARGUMENTS: expensive values - the reference run,
\* the VM machine's run - are therefore passed as arguments.)
BadRunsM(r, ref, idx, m) ==
  [j \in 1..Len(idx) |-> [run |-> idx[j], sig |-> SigOf(r.prog, ref, r.runs[idx[j]], m),
                          ref |-> [out |-> ref.out, outcome |-> ref.outcome, val |-> ref.val,
                                   chain |-> [i \in 1..Len(ref.chain) |-> [v |-> ref.chain[i].v, rec |-> ref.chain[i].rec]]]]]
BadRuns(r, ref) ==
  IF ~RefDefined(ref) THEN <<>>
  ELSE BadRunsM(r, ref, SelectSeq([i \in 1..Len(r.runs) |-> i], LAMBDA i : ~RunOK(r.prog, ref, r.runs[i])), VRun(r.prog, VInit, Fuel))

(* ---- record walk.  acc.bad keeps at most PerSig entries per distinct signature (so a frequent known cause cannot crowd
        out a rare one), acc.cnt counts all of them.  One accumulator variable, updated by ONE pure expression: TLC caches
        operator arguments only inside expression evaluation, not across the conjuncts of an action. ---- *)
CONSTANT PerSig
VARIABLES l, acc
Obs == ndJsonDeserialize("obs.ndjson")
Init == l = 1 /\ acc = [bad |-> <<>>, cnt |-> <<>>, undef |-> 0]
CountOf(c, sig) == LET hit == SelectSeq(c, LAMBDA e : e.sig = sig) IN IF hit = <<>> THEN 0 ELSE hit[1].n
Bump(c, sig) == IF CountOf(c, sig) = 0 THEN Append(c, [sig |-> sig, n |-> 1])
                ELSE [j \in 1..Len(c) |-> IF c[j].sig = sig THEN [c[j] EXCEPT !.n = @ + 1] ELSE c[j]]
AddOne(a, e, k, id) == [a EXCEPT !.bad = IF CountOf(a.cnt, e.sig) < PerSig
                                          THEN Append(@, [k |-> k, id |-> id, run |-> e.run, sig |-> e.sig, ref |-> e.ref]) ELSE @,
                                 !.cnt = Bump(@, e.sig)]
RECURSIVE AddAll(_, _, _, _, _)
AddAll(a, es, i, k, id) == IF i > Len(es) THEN a ELSE AddAll(AddOne(a, es[i], k, id), es, i + 1, k, id)
Judge2(a, es, ref, k, id) == IF ~RefDefined(ref) THEN [a EXCEPT !.undef = @ + 1] ELSE IF es = <<>> THEN a ELSE AddAll(a, es, 1, k, id)
Judge1(a, r, ref, k) == Judge2(a, BadRuns(r, ref), ref, k, r.id)
Next == l <= Len(Obs) /\ l' = l + 1 /\ acc' = Judge1(acc, Obs[l], RefObs(Obs[l].prog), l)
Done == l = Len(Obs) + 1 =>
          /\ ndJsonSerialize("bad.ndjson", acc.bad)
          /\ ndJsonSerialize("stats.ndjson", <<[ref_undefined |-> acc.undef, records |-> Len(Obs), counts |-> acc.cnt]>>)
Consumed == TLCGet("stats").diameter - 1 = Len(Obs)
=============================================================================

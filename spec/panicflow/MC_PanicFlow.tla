--------------------------- MODULE MC_PanicFlow ---------------------------
(* Model check of PanicFlow.  The environment builds a program WHILE the reference runs it: whenever
   the running function is at the end of the body built so far, the environment appends one more
   statement (every call/defer site gets a fresh function) or closes the body.  Every terminal
   state of the reference is therefore one closed program together with its reference observable.
   Then (phase "vm") the transcribed VM machine runs the same closed program, one action per
   branch of OpReturn / nextCall / callNative / convertPanic, to its own terminal state.
   Terminal states are printed as cases (the program, and - diagnostic only - whether the VM model
   agrees with the reference and the anomalous branch it took). *)
EXTENDS PanicFlow, TLC, Json
\* Up to four bounded program spaces are explored in one run (space i is unused when Stmts_i = 0):
\* statements per program, directly deferred native calls per program, statement kinds the environment may
\* use; MaxDepth = nesting of plain calls (deferred calls may go one deeper).
CONSTANTS MaxDepth, Stmts1, Native1, Forms1, Stmts2, Native2, Forms2, Stmts3, Native3, Forms3, Stmts4, Native4, Forms4
Spaces == << <<Stmts1, MaxDepth, Native1, Forms1>>, <<Stmts2, MaxDepth, Native2, Forms2>>,
             <<Stmts3, MaxDepth, Native3, Forms3>>, <<Stmts4, MaxDepth, Native4, Forms4>> >>
VARIABLES space, prog, r, left, np, nn, phase, v
vars == <<space, prog, r, left, np, nn, phase, v>>
MaxStmts == Spaces[space][1]
MaxNative == Spaces[space][3]
Forms == Spaces[space][4]

Init == /\ space \in {i \in 1..4 : Spaces[i][1] > 0} /\ prog = << <<>> >> /\ r = RInit /\ left = Spaces[space][1] /\ np = 0 /\ nn = 0
        /\ phase = "ref" /\ v = VInit

(* ---- the environment: append a statement at the frontier and execute it ---- *)
AtFrontier == phase = "ref" /\ RKind(prog, r) = "return"
Add(st) == /\ AtFrontier /\ left > 0 /\ st.op \in Forms
           /\ LET f == RTop(r).fn
                  p1 == [prog EXCEPT ![f] = Append(@, st)]
              IN /\ prog' = IF st.op \in {"call", "defer"} THEN Append(p1, <<>>) ELSE p1
                 /\ r' = RExec(r, st, Len(prog[f]) + 1)
           /\ left' = left - 1 /\ UNCHANGED <<space, phase, v>>
\* the two panic values are interchangeable: the first panic of a program is always 1
PVals == IF np = 0 THEN {1} ELSE {1, 2}
NatOK == nn < MaxNative
SPrint == Add(S("print", 7)) /\ UNCHANGED <<np, nn>>
SCall == Len(r.stack) < MaxDepth /\ Add(S("call", Len(prog) + 1)) /\ UNCHANGED <<np, nn>>
SDefer == Add(S("defer", Len(prog) + 1)) /\ UNCHANGED <<np, nn>>
SPanic == \E k \in PVals : Add(S("panic", k)) /\ np' = 1 /\ UNCHANGED nn
SRecover == Add(S("recover", 0)) /\ UNCHANGED <<np, nn>>
SDeferRecover == Add(S("drecover", 0)) /\ UNCHANGED <<np, nn>>
SStop == Add(S("stop", 1)) /\ UNCHANGED <<np, nn>>
SFatal == Add(S("fatal", 1)) /\ UNCHANGED <<np, nn>>
SDeferPrint == NatOK /\ Add(S("dprint", 8)) /\ nn' = nn + 1 /\ UNCHANGED np
SDeferPanic == NatOK /\ \E k \in PVals : Add(S("dpanic", k)) /\ np' = 1 /\ nn' = nn + 1
SDeferStop == NatOK /\ Add(S("dstop", 1)) /\ nn' = nn + 1 /\ UNCHANGED np
SDeferFatal == NatOK /\ Add(S("dfatal", 1)) /\ nn' = nn + 1 /\ UNCHANGED np
SClose == AtFrontier /\ r' = RReturn(r) /\ UNCHANGED <<space, prog, left, np, nn, phase, v>>

(* ---- the reference's run-time steps ---- *)
RefRt(kind, cond) == /\ phase = "ref" /\ RKind(prog, r) = kind /\ cond /\ r' = RStep(prog, r)
                     /\ UNCHANGED <<space, prog, left, np, nn, phase, v>>
NextDefer == RTop(r).defers[Len(RTop(r).defers)].k
RunDeferFn == RefRt("rundefer", NextDefer = "defer")
RunDeferRecover == RefRt("rundefer", NextDefer = "drecover")
RunDeferNative == RefRt("rundefer", NextDefer \in {"dprint", "dpanic", "dstop", "dfatal"})
PopRet == RefRt("popret", TRUE)
PopPan == RefRt("poppan", TRUE)

(* ---- the VM machine on the closed program ---- *)
StartVm == phase = "ref" /\ r.done # "no" /\ phase' = "vm" /\ UNCHANGED <<space, prog, r, left, np, nn, v>>
Vm(kinds) == /\ phase = "vm" /\ VKind(prog, v) \in kinds /\ v' = VStep(prog, v)
             /\ UNCHANGED <<space, prog, r, left, np, nn, phase>>
VmPrint == Vm({"print"})
VmCall == Vm({"call"})
VmDefer == Vm({"defer", "drecover"})
VmDeferNative == Vm({"dprint", "dpanic", "dstop", "dfatal"})
VmPanic == Vm({"panic"})
VmRecover == Vm({"recover"})
VmRecoverDown == Vm({"recdown"})
VmStop == Vm({"stop"})
VmFatal == Vm({"fatal"})
VmReturn == Vm({"return"})
NcExit == Vm({"nc-exit"})
NcStarted == Vm({"nc-started"})
NcTailed == Vm({"nc-tailed"})                   \* OpTailCall is never emitted by the compiler: expected never taken
NcDeferred == Vm({"nc-deferred"})
NcDeferredNative == Vm({"nc-deferred-native"})
NcDeferredNilFn == Vm({"nc-deferred-nilfn"})
NcSwap == Vm({"nc-swap"})
NcSwapNative == Vm({"nc-swap-native"})
NcFinalize == Vm({"nc-finalize"})
NcFinalizeRecovered == Vm({"nc-finalize-recovered"})
NcPanickedNone == Vm({"nc-panicked-none"})
NcPanickedDefer == Vm({"nc-panicked-defer"})
NcPanickedNative == Vm({"nc-panicked-native"})

Next == \/ SPrint \/ SCall \/ SDefer \/ SPanic \/ SRecover \/ SDeferRecover \/ SStop \/ SFatal
        \/ SDeferPrint \/ SDeferPanic \/ SDeferStop \/ SDeferFatal \/ SClose
        \/ RunDeferFn \/ RunDeferRecover \/ RunDeferNative \/ PopRet \/ PopPan
        \/ StartVm
        \/ VmPrint \/ VmCall \/ VmDefer \/ VmDeferNative \/ VmPanic \/ VmRecover \/ VmRecoverDown \/ VmStop \/ VmFatal \/ VmReturn
        \/ NcExit \/ NcStarted \/ NcTailed \/ NcDeferred \/ NcDeferredNative \/ NcDeferredNilFn \/ NcSwap \/ NcSwapNative
        \/ NcFinalize \/ NcFinalizeRecovered \/ NcPanickedNone \/ NcPanickedDefer \/ NcPanickedNative
Spec == Init /\ [][Next]_vars

(* ---- design-level properties of the reference (checked on every state) ---- *)
PanFrames(s) == Cardinality({i \in 1..Len(s.stack) : s.stack[i].phase = "pan"})
\* every panicking frame is accounted for by a panic on the list that is not recovered-and-finished
RefPanicsCoverFrames == r.done = "no" => Len(r.panics) >= PanFrames(r)
\* a panic is recovered (and not aborted by a newer one) only while the deferred call that recovered it is still on the stack
RefRecoveredIsRunning == r.done = "no" =>
    \A i \in 1..Len(r.panics) : (r.panics[i].rec /\ ~r.panics[i].ab) => (r.panics[i].run >= 1 /\ r.panics[i].run <= Len(r.stack)
                                                     /\ r.stack[r.panics[i].run].byPanic)
\* Stop / Fatal end the run at once: no reference step is possible afterwards (so no print, no deferred call)
RefEndIsFinal == r.done # "no" => RKind(prog, r) = ""
RefFrozenAfterEnd == [][r.done # "no" => r' = r]_vars
\* the program built while running IS a closed program: replaying it from scratch gives the same observable
ReplayConsistent == (phase = "ref" /\ r.done # "no") => RefObs(prog) = RObsOf(r)
\* outcome classes
RefOutcomeOK == r.done \in {"no", "ok", "panic", "stop", "fatal"}
              /\ (r.done = "ok" => r.panics = <<>>) /\ (r.done = "panic" => r.panics # <<>> /\ ~r.panics[Len(r.panics)].rec)

(* ---- invariants of the VM frame machine ---- *)
\* a frame is marked recovered only while the panic it recovered is still linked (as long as no known-anomalous
\* branch - v.why - has been taken: the stale-link branch breaks exactly this)
VmRecoveredHasPanic == (phase = "vm" /\ v.done = "no" /\ v.nc = -2 /\ v.why = "") =>
    \A i \in 1..Len(v.calls) : v.calls[i].st = "recovered" => v.panic # <<>>
\* len(panic chain) >= number of panicked frames
VmChainCoversPanicked == (phase = "vm" /\ v.done = "no" /\ v.nc = -2 /\ v.why = "") => Len(v.panic) >= NumPanicked(v.calls)
\* nextCall's index stays inside the calls stack
VmIndexOK == (phase = "vm" /\ v.done = "no") => (v.nc = -2 \/ (v.nc >= 0 /\ v.nc <= Len(v.calls)))
\* the model's Stop/Fatal end the run immediately too
VmEndIsFinal == v.done # "no" => VKind(prog, v) = ""

(* ---- terminal states = cases.  `agree` and `why` are diagnostics about the MODEL, not expected values ---- *)
Terminal == phase = "vm" /\ v.done # "no"
AgreeFlow == Flow(VObsOf(v)) = Flow(RObsOf(r))
AgreePos == AgreeFlow /\ VObsOf(v).chain = RObsOf(r).chain
Export == Terminal => PrintT(<<"CASE", ToJson([space |-> space, prog |-> prog, agree |-> AgreeFlow, agreepos |-> AgreePos, why |-> v.why,
                                                 ref |-> r.done, vm |-> v.done])>>)
=============================================================================

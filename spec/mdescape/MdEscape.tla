------------------------------ MODULE MdEscape ------------------------------
(* C26 - Markdown escaping neutralises Markdown syntax.

   Property (properties.jsonl): "A string shown in a Markdown template's paragraph context converts,
   through a CommonMark converter, to text whose content is the original string (with whitespace
   normalised as Markdown normalises it) and introduces no Markdown or HTML element; a string shown
   inside an indented code block never leaves the code block."

   REFERENCE part (what the property demands; written from the CommonMark specification 0.31, not
   from the code):
     (a) RoundTrip   - CommonMark's backslash escapes (6.1) and character references (6.2) undone
                       on the rendered slice give back the string, modulo white space (Norm).
     (b) Confined    - line structure of an indented code block (2.1 line endings, 4.4): no line
                       that the shown string starts leaves the block.
     (c) Complete    - escape completeness, a SUFFICIENT condition for "introduces no element".
                       It does not decide: a rendered slice failing it is a candidate only (the Trace
                       specification then reads the CommonMark conversion logged by the driver).
     (d) GmClean     - what "no element, same text" means on the HTML a CommonMark converter
                       produced for the whole document (used for candidates of (c) only).
   IMPLEMENTATION-SHAPED part: markdownEscape / markdownCodeBlockEscape of
   internal/runtime/escapers.go transcribed loop iteration by loop iteration, as found (fix = FALSE)
   and with the two proposed one-line repairs (fix = TRUE).

   Text is a sequence of bytes (integers). *)
EXTENDS Integers, Sequences, Text, Utf8

LF == 10  CR == 13  TAB == 9  SP == 32  BS == 92  AMP == 38  HASH == 35  SEMI == 59  LT == 60  GT == 62

IsPunct(c) == (c >= 33 /\ c <= 47) \/ (c >= 58 /\ c <= 64) \/ (c >= 91 /\ c <= 96) \/ (c >= 123 /\ c <= 126)
IsAlnum(c) == IsDigit(c) \/ IsAlpha(c)
IsEol(c) == c = LF \/ c = CR
IsBlankCh(c) == c = SP \/ c = TAB

(* =========================== REFERENCE ======================================================= *)

(* ---- character references (CommonMark 6.2): &#ddd; &#xhh; and the names this reference knows.
        A well-formed named reference whose name is not in the table cannot be decided here: the
        record is ref_undefined (skipped and counted), never failed. ---- *)
Named == {<<<<97,109,112>>, <<38>>>>, <<<<108,116>>, <<60>>>>, <<<<103,116>>, <<62>>>>,
          <<<<113,117,111,116>>, <<34>>>>, <<<<97,112,111,115>>, <<39>>>>,
          <<<<110,98,115,112>>, <<194,160>>>>, <<<<99,111,112,121>>, <<194,169>>>>}
RECURSIVE RunEnd(_, _, _)          \* first index >= i whose byte does not satisfy the class (1 digit, 2 hex, 3 alnum)
RunEnd(t, i, cls) ==
  IF i <= Len(t) /\ ((cls = 1 /\ IsDigit(t[i])) \/ (cls = 2 /\ IsHex(t[i])) \/ (cls = 3 /\ IsAlnum(t[i])))
  THEN RunEnd(t, i + 1, cls) ELSE i
RECURSIVE NumVal(_, _, _, _, _)
NumVal(t, i, j, base, acc) == IF i >= j THEN acc
                              ELSE NumVal(t, i + 1, j, base, IF acc > 1114111 THEN acc ELSE acc * base + HexVal(t[i]))
NoEnt == [k |-> "none", v |-> <<>>, n |-> 0]
\* t[i] = AMP.  k: "ok" (v = the bytes it denotes, n = index after ';'), "none", "unknown"
EntityAt(t, i) ==
  IF i + 2 <= Len(t) /\ t[i + 1] = HASH
  THEN IF t[i + 2] \in {120, 88}
       THEN LET e == RunEnd(t, i + 3, 2) IN
            IF e > i + 3 /\ e - (i + 3) <= 6 /\ e <= Len(t) /\ t[e] = SEMI
            THEN LET v == NumVal(t, i + 3, e, 16, 0) IN [k |-> "ok", v |-> EncodeRune(IF v = 0 THEN 65533 ELSE v), n |-> e + 1]
            ELSE NoEnt
       ELSE LET e == RunEnd(t, i + 2, 1) IN
            IF e > i + 2 /\ e - (i + 2) <= 7 /\ e <= Len(t) /\ t[e] = SEMI
            THEN LET v == NumVal(t, i + 2, e, 10, 0) IN [k |-> "ok", v |-> EncodeRune(IF v = 0 THEN 65533 ELSE v), n |-> e + 1]
            ELSE NoEnt
  ELSE LET e == RunEnd(t, i + 1, 3) IN
       IF e > i + 1 /\ IsAlpha(t[i + 1]) /\ e <= Len(t) /\ t[e] = SEMI      \* (every entity name starts with a letter)
       THEN LET nm == Sub(t, i + 1, e - 1) hits == {x \in Named : x[1] = nm} IN
            IF hits = {} THEN [k |-> "unknown", v |-> <<>>, n |-> e + 1]
            ELSE [k |-> "ok", v |-> (CHOOSE x \in hits : TRUE)[2], n |-> e + 1]
       ELSE NoEnt

(* ---- (a) Unescape: a backslash before an ASCII punctuation character denotes that character; a
        character reference denotes its character; everything else denotes itself. ---- *)
RECURSIVE UnescFrom(_, _)
UnescFrom(t, i) ==
  IF i > Len(t) THEN <<>>
  ELSE IF t[i] = BS /\ i < Len(t) /\ IsPunct(t[i + 1]) THEN <<t[i + 1]>> \o UnescFrom(t, i + 2)
  ELSE IF t[i] = AMP
       THEN LET e == EntityAt(t, i) IN
            IF e.k = "ok" THEN e.v \o UnescFrom(t, e.n) ELSE <<AMP>> \o UnescFrom(t, i + 1)
  ELSE <<t[i]>> \o UnescFrom(t, i + 1)
Unescape(t) == UnescFrom(t, 1)
RefUndefined(t) == \E i \in 1..Len(t) : t[i] = AMP /\ EntityAt(t, i).k = "unknown"

(* ---- white-space normalisation.  Reading chosen for "with whitespace normalised as Markdown
        normalises it" (HACKING: the reading under which intended behaviour passes): Markdown strips
        the spaces at the ends of lines, a line ending inside a paragraph is a soft break (white
        space), a blank line only separates paragraphs, and HTML collapses runs of white space; so two
        texts are the same content when they are equal after every maximal run of space, tab, LF, CR
        is one space and the ends are trimmed.  U+00A0 (C2 A0) counts as a space: it is the device by
        which an escaper keeps leading / trailing / repeated spaces visible, and it is not an
        element. ---- *)
RECURSIVE WsMap(_, _)
WsMap(t, i) ==
  IF i > Len(t) THEN <<>>
  ELSE IF t[i] = 194 /\ i < Len(t) /\ t[i + 1] = 160 THEN <<SP>> \o WsMap(t, i + 2)
  ELSE IF t[i] \in {SP, TAB, LF, CR} THEN <<SP>> \o WsMap(t, i + 1)
  ELSE <<t[i]>> \o WsMap(t, i + 1)
RECURSIVE Collapse(_, _, _)
Collapse(u, i, ps) ==
  IF i > Len(u) THEN <<>>
  ELSE IF u[i] = SP THEN (IF ps THEN <<>> ELSE <<SP>>) \o Collapse(u, i + 1, TRUE)
  ELSE <<u[i]>> \o Collapse(u, i + 1, FALSE)
Norm(t) == LET c == Collapse(WsMap(t, 1), 1, TRUE) IN
           IF Len(c) > 0 /\ c[Len(c)] = SP THEN Sub(c, 1, Len(c) - 1) ELSE c

RoundTrip(s, out) == Norm(Unescape(out)) = Norm(s)

(* ---- (b) indented code block.  CommonMark 2.1: a line ending is LF, CR LF, or a CR not followed by
        LF.  4.4: the block's lines are indented by four or more columns (tab stop 4) or blank; a
        non-blank line indented less ends the block.  t is the rendered slice followed by the rest of
        its template line; the first line of t continues a line the template already indented.  The
        string left the block iff some later line of t is neither blank nor indented.

        Two line-ending conventions are judged, and the value must stay inside under both: cr = TRUE
        is CommonMark 2.1 as written; cr = FALSE splits lines at LF only (CR LF still ends a line, a
        lone CR is an ordinary character) - which is what goldmark 1.7, the converter the property is
        quantified with and cmd/scriggo uses, does (observed: "P a\rb Q" stays one code line, while
        "P a\n\r\tb Q" ends the block before b).  Reading chosen: "a CommonMark converter" is any of
        them, so an output that is confined under one convention only is not confined. ---- *)
LineStartC(t, i, cr) == i > 1 /\ (t[i - 1] = LF \/ (cr /\ t[i - 1] = CR /\ t[i] # LF))
LineStart(t, i) == LineStartC(t, i, TRUE)
RECURSIVE IndentFrom(_, _, _)       \* <<columns of indentation, index of the first byte that is not space/tab>>
IndentFrom(t, i, col) ==
  IF i > Len(t) THEN <<col, i>>
  ELSE IF t[i] = SP THEN IndentFrom(t, i + 1, col + 1)
  ELSE IF t[i] = TAB THEN IndentFrom(t, i + 1, col + 4 - (col % 4))
  ELSE <<col, i>>
BlankAtC(t, j, cr) == j > Len(t) \/ t[j] = LF \/ (t[j] = CR /\ (cr \/ (j < Len(t) /\ t[j + 1] = LF)))
BlankAt(t, j) == BlankAtC(t, j, TRUE)
LineInBlockC(t, i, cr) == LET d == IndentFrom(t, i, 0) IN BlankAtC(t, d[2], cr) \/ d[1] >= 4
ConfinedC(t, cr) == \A i \in 2..Len(t) : LineStartC(t, i, cr) => LineInBlockC(t, i, cr)
Confined(t) == ConfinedC(t, TRUE) /\ ConfinedC(t, FALSE)
\* shapes of a leak (signatures, and the extent statements of MC_MdEscape)
LeaksOnlyAfterCR(t) == \A i \in 2..Len(t) : LineStartC(t, i, TRUE) /\ ~LineInBlockC(t, i, TRUE) => t[i - 1] = CR
LeaksOnlyAtCR(t) == \A i \in 2..Len(t) : LineStartC(t, i, FALSE) /\ ~LineInBlockC(t, i, FALSE) => t[i] = CR

(* ---- (c) escape completeness: a sufficient condition for inertness in paragraph text.
        Role of every byte: 1 an escaping backslash, 2 the punctuation it escapes (a literal),
        3 a backslash that escapes nothing (a literal backslash), 0 any other byte ("raw").
        Only raw bytes can be syntax.  The clauses, each over raw bytes:
          inline    none of ` * _ [ < ~ | #   (code span, emphasis, link/image/footnote/task box,
                    autolink/raw HTML/HTML block, strike-through/fence, table, ATX heading and the
                    closing sequence of the heading the value may be shown in) - a link, an image,
                    a reference or a footnote cannot exist without a raw [
          entity    no & followed by a letter, a digit or #  (no character reference survives)
          hardbreak no literal backslash at the end of a line or of the slice; no two spaces before a
                    line ending
          autolink  no @, no :/ and no "www."  (extended autolinks of GFM converters)
          indent    no line of the slice (the first one only if the slice starts a line) indented by
                    4 or more columns, unless an LF or CR LF follows the indentation  (indented code;
                    deliberately ignores that such a line inside a paragraph is only a continuation,
                    counts a lone CR after the indentation as content - it is for a converter that
                    splits lines at LF only - and counts the end of the slice as content, because
                    template text follows it: sufficient, not necessary)
          marker    after <= 3 columns of indentation no such line starts with a raw > - + = or
                    with digits followed by a raw . or )   (block quote, bullet/ordered
                    list, thematic break, setext underline; a table delimiter row needs a raw - or |)
        CFail names the first failing clause, "" if none. ---- *)
RECURSIVE RolesFrom(_, _)
RolesFrom(t, i) ==
  IF i > Len(t) THEN <<>>
  ELSE IF t[i] = BS THEN IF i < Len(t) /\ IsPunct(t[i + 1]) THEN <<1, 2>> \o RolesFrom(t, i + 2)
                         ELSE <<3>> \o RolesFrom(t, i + 1)
  ELSE <<0>> \o RolesFrom(t, i + 1)
InlineDanger == {96, 42, 95, 91, LT, 126, 124, HASH}
MarkerStart == {GT, 45, 43, 61}
LineHeadOk(t, R, i) ==        \* i is the first byte of a line of the slice
  LET d == IndentFrom(t, i, 0) j == d[2] IN
  IF d[1] >= 4 /\ ~(j <= Len(t) /\ BlankAtC(t, j, FALSE)) THEN "indent"
  ELSE IF BlankAt(t, j) THEN ""
  ELSE IF R[j] = 0 /\ t[j] \in MarkerStart THEN "marker"
  ELSE IF IsDigit(t[j]) THEN LET e == RunEnd(t, j, 1) IN
                             IF e <= Len(t) /\ R[e] = 0 /\ t[e] \in {46, 41} THEN "marker" ELSE ""
  ELSE ""
CFailR(t, R, ls) ==
  LET n == Len(t) IN
  IF \E i \in 1..n : R[i] = 0 /\ t[i] \in InlineDanger THEN "inline"
  ELSE IF \E i \in 1..n : R[i] = 0 /\ t[i] = AMP /\ i < n /\ (IsAlnum(t[i + 1]) \/ t[i + 1] = HASH) THEN "entity"
  ELSE IF \E i \in 1..n : R[i] = 3 /\ (i = n \/ IsEol(t[i + 1])) THEN "hardbreak"
  ELSE IF \E i \in 1..n : t[i] = SP /\ i + 2 <= n /\ t[i + 1] = SP /\ IsEol(t[i + 2]) THEN "hardbreak"
  ELSE IF \E i \in 1..n : R[i] = 0 /\ (t[i] = 64 \/ (t[i] = 58 /\ i < n /\ t[i + 1] = 47 /\ R[i + 1] = 0)
                                       \/ (t[i] = 46 /\ i > 3 /\ t[i - 1] \in {119, 87} /\ t[i - 2] \in {119, 87} /\ t[i - 3] \in {119, 87}))
       THEN "autolink"
  ELSE LET heads == (IF ls /\ n > 0 THEN {1} ELSE {}) \cup {i \in 2..n : LineStart(t, i)}
           bad == {i \in heads : LineHeadOk(t, R, i) # ""} IN
       IF bad = {} THEN ""
       ELSE LineHeadOk(t, R, CHOOSE i \in bad : \A k \in bad : i <= k)
CFail(t, ls) == CFailR(t, RolesFrom(t, 1), ls)
\* some line of the slice fails clause "indent" (whatever else fails) - used for signatures only
IndentFails(t, ls) == LET n == Len(t) R == RolesFrom(t, 1) IN
                      \E i \in (IF ls /\ n > 0 THEN {1} ELSE {}) \cup {k \in 2..n : LineStart(t, k)} : LineHeadOk(t, R, i) = "indent"
Complete(t, ls) == CFail(t, ls) = ""

(* ---- placements: what the fixed template text around the shown value is, as document structure.
        pre/post: the text (not markers) of the template that ends up in the same document; tags: the
        elements the template text itself makes, other than p; ls: the value starts a line (after the
        container marker); code: the value is inside an indented code block and rest is the remainder
        of its template line.  The driver's templates: harness/cmd/c26/main.go. ---- *)
ParaPl == {"para", "start", "cont", "list", "heading", "quote"}
CodePl == {"codetab", "codesp"}
TUl == <<117,108>>  TLi == <<108,105>>  TH1 == <<104,49>>  TBq == <<98,108,111,99,107,113,117,111,116,101>>
Close(tg) == <<47>> \o tg
Frame(pl) ==
  CASE pl = "para"    -> [ls |-> FALSE, pre |-> <<88, SP>>, post |-> <<SP, 89>>, tags |-> <<>>]
    [] pl = "start"   -> [ls |-> TRUE,  pre |-> <<88, SP>>, post |-> <<SP, 89>>, tags |-> <<>>]
    [] pl = "cont"    -> [ls |-> TRUE,  pre |-> <<88, SP>>, post |-> <<SP, 89>>, tags |-> <<>>]
    [] pl = "list"    -> [ls |-> TRUE,  pre |-> <<>>, post |-> <<>>, tags |-> <<TUl, TLi, Close(TLi), Close(TUl)>>]
    [] pl = "heading" -> [ls |-> TRUE,  pre |-> <<>>, post |-> <<>>, tags |-> <<TH1, Close(TH1)>>]
    [] pl = "quote"   -> [ls |-> TRUE,  pre |-> <<>>, post |-> <<>>, tags |-> <<TBq, Close(TBq)>>]
CodeRest == <<SP, 81>>        \* " Q": the template text after the value on its line, in both code placements

(* ---- (d) the converter's HTML: elements and text.  An HTML fragment produced by a CommonMark
        converter has < only as the start of a tag and & only as the start of a reference. ---- *)
RECURSIVE NameEnd(_, _)
NameEnd(h, i) == IF i <= Len(h) /\ (IsAlnum(h[i]) \/ h[i] = 47 \/ h[i] = 33 \/ h[i] = 45) THEN NameEnd(h, i + 1) ELSE i
RECURSIVE TagsFrom(_, _)           \* names of the tags, a closing tag as "/name"; names in lower case
TagsFrom(h, i) ==
  LET p == IndexByteFrom(h, LT, i) IN
  IF p = 0 THEN <<>>
  ELSE LET e == NameEnd(h, p + 1) IN <<[k \in 1..(e - p - 1) |-> ToLower(h[p + k])]>> \o TagsFrom(h, e)
TP == <<112>>
ForeignTags(h) == SelectSeq(TagsFrom(h, 1), LAMBDA tg : tg # TP /\ tg # Close(TP))
RECURSIVE HtmlTextFrom(_, _)       \* tags replaced by a space, references decoded
HtmlTextFrom(h, i) ==
  IF i > Len(h) THEN <<>>
  ELSE IF h[i] = LT THEN LET q == IndexByteFrom(h, GT, i) IN
                         IF q = 0 THEN <<SP>> ELSE <<SP>> \o HtmlTextFrom(h, q + 1)
  ELSE IF h[i] = AMP THEN LET e == EntityAt(h, i) IN
                          IF e.k = "ok" THEN e.v \o HtmlTextFrom(h, e.n) ELSE <<AMP>> \o HtmlTextFrom(h, i + 1)
  ELSE <<h[i]>> \o HtmlTextFrom(h, i + 1)
\* the document has exactly the template's own elements (any number of paragraphs: a blank line in
\* the string separates paragraphs - white space, see Norm) and its text is template text + string
GmClean(pl, s, html) ==
  LET f == Frame(pl) IN
  /\ ForeignTags(html) = f.tags
  /\ Norm(HtmlTextFrom(html, 1)) = Norm(f.pre \o s \o f.post)
\* code placements (audit diagnostic only): the converter kept the whole template line, up to " Q",
\* inside one <pre><code> element
TPre == <<112,114,101>>  TCode == <<99,111,100,101>>
GmCodeInside(html) == /\ ForeignTags(html) = <<TPre, TCode, Close(TCode), Close(TPre)>>
                      /\ Contains(html, CodeRest \o <<LF, LT, 47>> \o TCode)
\* the first element the template did not make (for signatures)
FirstForeign(pl, html) ==
  LET ft == ForeignTags(html) want == Frame(pl).tags
      ix == {k \in 1..Len(ft) : k > Len(want) \/ ft[k] # want[k]} IN
  IF ix = {} THEN <<>> ELSE ft[CHOOSE k \in ix : \A m \in ix : k <= m]

\* a readable name for a tag (signatures); "other" for anything not listed
TagName(tg) ==
  CASE tg = <<>> -> ""
    [] tg = <<112,114,101>> -> "pre"          [] tg = <<99,111,100,101>> -> "code"
    [] tg = <<101,109>> -> "em"               [] tg = <<115,116,114,111,110,103>> -> "strong"
    [] tg = <<97>> -> "a"                     [] tg = <<105,109,103>> -> "img"
    [] tg = <<98,114>> -> "br"                [] tg = <<104,114>> -> "hr"
    [] tg = TUl -> "ul"                       [] tg = <<111,108>> -> "ol"
    [] tg = TLi -> "li"                       [] tg = TBq -> "blockquote"
    [] tg = TH1 -> "h1"                       [] tg = <<104,50>> -> "h2"
    [] tg = <<100,101,108>> -> "del"          [] tg = <<116,97,98,108,101>> -> "table"
    [] tg = <<105,110,112,117,116>> -> "input" [] tg = <<115,117,112>> -> "sup"
    [] tg = Close(TUl) -> "/ul"               [] tg = Close(TLi) -> "/li"
    [] tg = Close(TH1) -> "/h1"               [] tg = Close(TBq) -> "/blockquote"
    [] OTHER -> "other"

(* =========================== IMPLEMENTATION-SHAPED ============================================ *)
(* markdownEscape(w, s, allowHTML = false): loop variables i, last (0-based, as in the code) and the
   bytes written so far w.  fix = TRUE adds the proposed repair: a space or tab that follows a line
   ending is a leading one (replaced by U+00A0), as the one at index 0 already is. *)
EscSet == {BS, 96, 42, 95, 123, 125, 91, 93, 40, 41, HASH, 43, 45, 61, 46, 33, 124, GT, 126, LT, AMP}
Nbsp == <<194, 160>>
Flush(s, last, i, w) == IF last # i THEN w \o Sub(s, last + 1, i) ELSE w        \* w.WriteString(s[last:i])
RECURSIVE MdLoop(_, _, _, _, _)
MdLoop(s, i, last, w, fix) ==
  IF i >= Len(s) THEN Flush(s, last, Len(s), w)
  ELSE LET c == s[i + 1] IN
       IF c \in EscSet                                                        \* esc = slash
       THEN MdLoop(s, i + 1, i, Flush(s, last, i, w) \o <<BS>>, fix)
       ELSE IF c \in {SP, TAB}
       THEN IF 0 < i /\ i < Len(s) - 1 /\ s[i + 2] \notin {SP, TAB} /\ (fix => ~IsEol(s[i]))
            THEN MdLoop(s, i + 1, last, w, fix)                               \* continue
            ELSE MdLoop(s, i + 1, i + 1, Flush(s, last, i, w) \o Nbsp, fix)   \* esc = nbsp ; last++
       ELSE MdLoop(s, i + 1, last, w, fix)                                    \* default: continue
MdEsc(s, fix) == MdLoop(s, 0, 0, <<>>, fix)

(* markdownCodeBlockEscape(w, s, spaces).  As found an indent is written after "\n" and after "\n\r";
   fix = TRUE: after every CommonMark line ending (LF, CR LF, lone CR). *)
Indent(spaces) == IF spaces THEN <<SP, SP, SP, SP>> ELSE <<TAB>>
RECURSIVE CodeLoop(_, _, _, _, _, _)
CodeLoop(s, i, last, w, spaces, fix) ==
  IF i >= Len(s) THEN Flush(s, last, Len(s), w)
  ELSE LET c == s[i + 1] IN
       IF c = LF \/ (fix /\ c = CR)
       THEN LET i2 == IF (~fix /\ i + 1 < Len(s) /\ s[i + 2] = CR) \/ (fix /\ c = CR /\ i + 1 < Len(s) /\ s[i + 2] = LF)
                      THEN i + 1 ELSE i IN
            CodeLoop(s, i2 + 1, i2 + 1, w \o Sub(s, last + 1, i2 + 1) \o Indent(spaces), spaces, fix)
       ELSE CodeLoop(s, i + 1, last, w, spaces, fix)
CodeEsc(s, spaces, fix) == CodeLoop(s, 0, 0, <<>>, spaces, fix)

\* the input shapes on which the as-found escapers are expected to fall short (used by MC_MdEscape to
\* state the extent of the two defects exactly enough that any OTHER shortfall is a counterexample)
TabAfterEol(s) == \E i \in 2..Len(s) : s[i] \in {SP, TAB} /\ IsEol(s[i - 1])
HasCR(s) == \E i \in 1..Len(s) : s[i] = CR
=============================================================================

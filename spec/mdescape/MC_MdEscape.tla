---------------------------- MODULE MC_MdEscape ----------------------------
(* Exhaustive model check of the transcribed Markdown escapers against the reference, for every
   string of length <= MaxLen over the 19-symbol Markdown alphabet, every string of length <= Len16
   over its 16-symbol sub-alphabet and every string of length <= WsLen over the white-space alphabet;
   export of the replay cases (strings only - no expected output).

   Alphabet is the list of DESIGN 7/C26 (called "16-symbol" there; the list has 19 symbols):
   * _ [ ] ( ) < > & # - 1 . space LF CR ` \ a.   Alphabet16 drops _ ] ) - each is handled by the same
   switch arm of markdownEscape as * [ ( and never starts a construct that those cannot.
   WsAlphabet adds TAB, which the main alphabet lacks: TAB space LF CR a # -.
   CoreAlphabet (replay only, one symbol longer than the whole alphabet) adds ';' so that numeric
   character references can be spelled: * [ < & # 1 ; LF. *)
EXTENDS MdEscape, TLC, Json, FiniteSets, SequencesExt
CONSTANTS MaxLen, Len16, WsLen, GenLen, GenWs, GenCore, GenWsCore
Alphabet == {42, 95, 91, 93, 40, 41, LT, GT, AMP, HASH, 45, 49, 46, SP, LF, CR, 96, BS, 97}
Alphabet16 == Alphabet \ {95, 93, 41}
WsAlphabet == {TAB, SP, LF, CR, 97, HASH, 45}
CoreAlphabet == {42, 91, LT, AMP, HASH, 49, SEMI, LF}
\* the line-structure core of WsAlphabet, enumerated two symbols longer: blank (white-space only) lines between
\* text lines and indented lines after them need 6-7 symbols (a LF SP LF TAB a)
WsCoreAlphabet == {TAB, SP, LF, 97}
Dict == <<
  <<43,32,97>>, <<97,10,61,61,61>>, <<97,10,45,45,45>>, <<126,126,126,10,97>>, <<96,96,96,10,97>>,
  <<124,97,124,10,124,45,124,10,124,98,124>>, <<33,91,97,93,40,98,41>>, <<91,97,93,40,98,41>>,
  <<60,97,64,98,46,99,99,62>>, <<60,104,116,116,112,58,47,47,97,46,98,98,62>>,
  <<104,116,116,112,58,47,47,97,46,98,98>>, <<119,119,119,46,97,46,98,98>>, <<97,64,98,46,99,99>>,
  <<38,97,109,112,59>>, <<38,35,51,53,59>>, <<38,35,120,50,51,59>>, <<97,32,32,10,98>>,
  <<97,92,10,98>>, <<91,97,93,58,32,98>>, <<49,41,32,97>>, <<42,42,42>>, <<95,95,95>>, <<9,97>>,
  <<97,10,10,9,97>>, <<60,33,45,45,32,97,32,45,45,62>>, <<60,98,62,97,60,47,98,62>>,
  <<91,94,49,93>>, <<91,32,93,32,97>>, <<123,35,97,125>>, <<97,10,58,32,98>>,
  <<126,126,97,126,126>>, <<42,42,97,42,42>>, <<95,95,97,95,95>>, <<96,97,96>>, <<35,32,97,32,35>>,
  <<97,10,10,32,32,32,32,98>>, <<32,32,32,32,97>>, <<97,13,9,98>>, <<97,13,98>>, <<92>>, <<92,42>>,
  <<33>>, <<97,32,124,32,98>>, <<60,100,105,118,62>>, <<38,99,111,112,121,59>>,
  <<97,13,10,13,10,98>>, <<49,50,46,32,97>>, <<45,32,97,10,45,32,98>>, <<62,32,97>>>>
\* s is the string; md and cd are functions of s (the outputs of the transcribed escapers, as found "f"
\* and repaired "x"; for the code block escaper with tab "t" / four-space "s" indentation), kept as
\* state so that every invariant reads them instead of recomputing them
VARIABLES s, md, cd
MdOf(u) == [f |-> MdEsc(u, FALSE), x |-> MdEsc(u, TRUE)]
CdOf(u) == [ft |-> CodeEsc(u, FALSE, FALSE) \o CodeRest, fs |-> CodeEsc(u, TRUE, FALSE) \o CodeRest,
            xt |-> CodeEsc(u, FALSE, TRUE) \o CodeRest,  xs |-> CodeEsc(u, TRUE, TRUE) \o CodeRest]
Init == s = <<>> /\ md = MdOf(<<>>) /\ cd = CdOf(<<>>)
OverWs == \A k \in 1..Len(s) : s[k] \in WsAlphabet
Over16 == \A k \in 1..Len(s) : s[k] \in Alphabet16
Grow(c) == s' = Append(s, c) /\ md' = MdOf(s') /\ cd' = CdOf(s')
Next == \/ Len(s) < MaxLen /\ \E c \in Alphabet : Grow(c)
        \/ Len(s) < Len16 /\ Over16 /\ \E c \in Alphabet16 : Grow(c)
        \/ Len(s) < WsLen /\ OverWs /\ \E c \in WsAlphabet : Grow(c)
        \/ Len(s) < GenWsCore /\ (\A k \in 1..Len(s) : s[k] \in WsCoreAlphabet) /\ \E c \in WsCoreAlphabet : Grow(c)

(* ---- paragraph context ---- *)
\* (a) holds for the escaper as found and with the repair
RoundTripFound == RoundTrip(s, md.f)
RoundTripFixed == md.x = md.f \/ RoundTrip(s, md.x)
\* (c) holds for the repaired escaper whether or not the value starts a line
\* (Complete(t, TRUE) implies Complete(t, FALSE): the same clauses over a superset of line heads) ...
CompleteFixed == Complete(md.x, TRUE)
\* ... and the escaper as found falls short of (c) only by clause "indent" and only on strings with a
\* space/tab right after a line ending (the tab kept at the start of a later line)
CompleteFoundExtent == LET f1 == CFail(md.f, TRUE) IN
                       f1 = "" \/ (TabAfterEol(s) /\ f1 = "indent" /\ CFail(md.f, FALSE) \in {"", "indent"})
(* ---- code block context ---- *)
CodeFixedConfined == Confined(cd.xt) /\ Confined(cd.xs)
\* as found: only strings with a CR leave the block: under CommonMark's line endings every leaking line
\* starts after a lone CR (no indentation written there), under LF-only line endings every leaking line
\* starts with a CR (the indentation written after "LF CR" instead of after the LF)
CodeFoundExtent == /\ LeaksOnlyAfterCR(cd.ft) /\ LeaksOnlyAfterCR(cd.fs) /\ LeaksOnlyAtCR(cd.ft) /\ LeaksOnlyAtCR(cd.fs)
                   /\ (HasCR(s) \/ (Confined(cd.ft) /\ Confined(cd.fs)))
\* the repairs change nothing else: same output wherever the as-found output already met the reference
FixConservative == /\ (~TabAfterEol(s) => md.x = md.f)
                   /\ (~HasCR(s) => cd.xt = cd.ft /\ cd.xs = cd.fs)
\* the dictionary strings (outside the two alphabets) meet the same statements for the repaired escapers
\* ("autolink": the escaper leaves @ and :/ alone - such outputs are candidates that the converter decides)
ASSUME \A k \in 1..Len(Dict) : /\ RoundTrip(Dict[k], MdEsc(Dict[k], TRUE)) /\ CFail(MdEsc(Dict[k], TRUE), TRUE) \in {"", "autolink"}
                               /\ Confined(CodeEsc(Dict[k], TRUE, TRUE) \o CodeRest)

(* ---- case export: inputs only ---- *)
DictSet == {Dict[k] : k \in 1..Len(Dict)}
Strings == SeqsUpTo(Alphabet, GenLen) \cup SeqsUpTo(WsAlphabet, GenWs) \cup SeqsUpTo(CoreAlphabet, GenCore) \cup SeqsUpTo(WsCoreAlphabet, GenWsCore) \cup DictSet
\* which slice a string belongs to (the check shows the longest strings of slices "a" and "c" in fewer placements
\* in the thorough tier): d dictionary, w white-space alphabet, a whole alphabet, c core alphabet
Kind(x) == IF x \in DictSet THEN "d"
           ELSE IF Len(x) <= GenWs /\ (\A k \in 1..Len(x) : x[k] \in WsAlphabet) THEN "w"
           ELSE IF \A k \in 1..Len(x) : x[k] \in WsCoreAlphabet THEN "w"
           ELSE IF Len(x) <= GenLen /\ (\A k \in 1..Len(x) : x[k] \in Alphabet) THEN "a" ELSE "c"
Cases == LET S == SetToSeq(Strings) IN [i \in 1..Len(S) |-> [id |-> i, s |-> S[i], k |-> Kind(S[i])]]
ASSUME ndJsonSerialize("cases.ndjson", Cases)
=============================================================================

--------------------------- MODULE Trace_MdEscape ---------------------------
(* Judges observations of real .md templates: one record {id, pl, s, st, out, html} per line of
   obs.ndjson (harness/cmd/c26): s the string passed to Run, pl the placement of {{ x }}, out the
   slice of the real rendered Markdown between the template's fixed text, html the conversion of the
   whole rendered document by the CommonMark converter (goldmark), st = "ok" when the template
   rendered and the fixed text was found around the value.

   Verdict (property level), Verdict(r) in {"ok", "bad", "cand"}; RecOk(r) == Verdict(r) # "bad":
     code placements       (b)  Confined(out . rest of the template line)            - decides directly
     paragraph placements  (a)  RoundTrip(s, out)                                     - decides directly
                           and  Complete(out, line-start?)  OR  GmClean(pl, s, html)
   Clause (c) Complete is only a SUFFICIENT condition for "introduces no element": a record that
   satisfies it passes WITHOUT html being read; a record that fails it is a CANDIDATE, and is a
   violation only if the converter's HTML for that very output has an element the template did not
   make, or text other than template text + the string (GmClean false).  This is the one family whose
   last word on a candidate is an external parser (DESIGN 7/C26, section 8): CommonMark's inline and
   block algorithms are not specified here.

   html is consulted for candidates only, and the pipeline makes that literal: in the first pass the
   check strips the html field from every record (which also spares TLC the parsing of 4/5 of the
   bytes); a candidate whose record has no html gets the verdict "cand" and its index is written to
   cand.ndjson; the check then runs this same specification over the candidates' complete records,
   where GmClean decides.  A record that carries html is decided in one pass (replays, self-test).

   Not judged (counted, never failed): records whose st # "ok"; records whose out has a well-formed
   named character reference outside the reference's table (ref_undefined); unknown placements.

   With Audit = TRUE (development aid, diagnostic only, never a verdict; needs html in every record)
   the walk also counts the records that satisfy (a) and (c) and whose html is nevertheless not clean
   ("audit_disputed": the sufficient condition would be wrong for that converter - a to-do for the
   spec), and the code-block records that satisfy (b) while goldmark ended the block early. *)
EXTENDS MdEscape, TLC, Json
CONSTANT Audit

Rendered(r) == r.st = "ok" /\ r.pl \in (ParaPl \cup CodePl)
Undef(r) == Rendered(r) /\ RefUndefined(r.out)
Judged(r) == Rendered(r) /\ ~Undef(r)
HasHtml(r) == "html" \in DOMAIN r
\* rt = RoundTrip(r.s, r.out), cf = CFail(r.out, line-start?) - passed in so that the walk computes them once
ParaVerdict(r, rt, cf) == IF ~rt THEN "bad" ELSE IF cf = "" THEN "ok"
                          ELSE IF ~HasHtml(r) THEN "cand"
                          ELSE IF GmClean(r.pl, r.s, r.html) THEN "ok" ELSE "bad"
Verdict(r) ==
  IF ~Judged(r) THEN "ok"
  ELSE IF r.pl \in CodePl THEN (IF Confined(r.out \o CodeRest) THEN "ok" ELSE "bad")
  ELSE ParaVerdict(r, RoundTrip(r.s, r.out), CFail(r.out, Frame(r.pl).ls))
RecOk(r) == Verdict(r) # "bad"

\* Signature: family, failing clause, and the root-cause-identifying fields:
\*   codeblock: "lone-cr" every leaking line (CommonMark line endings) starts after a lone CR of the value;
\*              "lf-cr" confined under CommonMark line endings, and under LF-only line endings every leaking
\*              line starts with a CR; "line" anything else
\*   roundtrip: the placement and the input itself (no cause is known on the unchanged tree)
\*   inert:     the completeness clause that made it a candidate ("indent" whenever that clause fails too
\*              and the element is an indented code block) and the first element the converter produced
\*              that the template did not make ("" when only the text differs)
Sig(r) ==
  IF r.pl \in CodePl
  THEN [fam |-> "mdescape", clause |-> "codeblock",
        cause |-> LET t == r.out \o CodeRest IN
                  IF ~ConfinedC(t, TRUE) /\ LeaksOnlyAfterCR(t) THEN "lone-cr"
                  ELSE IF ConfinedC(t, TRUE) /\ LeaksOnlyAtCR(t) THEN "lf-cr" ELSE "line",
        pl |-> r.pl, tag |-> "", s |-> <<>>]
  ELSE IF ~RoundTrip(r.s, r.out)
  THEN [fam |-> "mdescape", clause |-> "roundtrip", cause |-> "", pl |-> r.pl, tag |-> "", s |-> r.s]
  ELSE LET tg == TagName(FirstForeign(r.pl, r.html)) IN
       [fam |-> "mdescape", clause |-> "inert",
        cause |-> IF tg = "pre" /\ IndentFails(r.out, Frame(r.pl).ls) THEN "indent" ELSE CFail(r.out, Frame(r.pl).ls),
        pl |-> r.pl, tag |-> tg, s |-> <<>>]

\* da / df below are diagnostic only: does the real output equal the transcription's output (as found / repaired)?

(* ---- record walk (the variant of spec/escapers/Trace_Escapers.tla of the skeleton of
        spec/lib2/Trace_HTMLEscape.tla: each record judged once, in the step that consumes it; one
        representative index per distinct signature, at most 400; counters go to diag.ndjson) ---- *)
VARIABLES l, nbad, ncand, nundef, nskip, nda, ndf, naud, reps, seen, cands, auds
Obs == ndJsonDeserialize("obs.ndjson")
Init == l = 1 /\ nbad = 0 /\ ncand = 0 /\ nundef = 0 /\ nskip = 0 /\ nda = 0 /\ ndf = 0 /\ naud = 0 /\ reps = <<>> /\ seen = {}
        /\ cands = <<>> /\ auds = <<>>
B(x) == IF x THEN 1 ELSE 0
Zero == [v |-> "ok", cand |-> FALSE, da |-> FALSE, df |-> FALSE, aud |-> FALSE]
JudgePara(r, rt, cf) == [v |-> ParaVerdict(r, rt, cf), cand |-> rt /\ cf # "",
                         da |-> r.out # MdEsc(r.s, FALSE), df |-> r.out # MdEsc(r.s, TRUE),
                         aud |-> Audit /\ HasHtml(r) /\ rt /\ cf = "" /\ ~GmClean(r.pl, r.s, r.html)]
Judge(r) == IF ~Judged(r) THEN Zero
            ELSE IF r.pl \in CodePl
            THEN [Zero EXCEPT !.v = IF Confined(r.out \o CodeRest) THEN "ok" ELSE "bad",
                              !.aud = Audit /\ HasHtml(r) /\ Confined(r.out \o CodeRest) /\ ~GmCodeInside(r.html),
                              !.da = r.out # CodeEsc(r.s, r.pl = "codesp", FALSE),
                              !.df = r.out # CodeEsc(r.s, r.pl = "codesp", TRUE)]
            ELSE JudgePara(r, RoundTrip(r.s, r.out), CFail(r.out, Frame(r.pl).ls))
Next == /\ l <= Len(Obs) /\ l' = l + 1
        /\ \E v \in {Judge(Obs[l])} :
           \E new \in {v.v = "bad" /\ Len(reps) < 400 /\ Sig(Obs[l]) \notin seen} :
              /\ nbad' = nbad + B(v.v = "bad")
              /\ ncand' = ncand + B(v.cand)
              /\ nundef' = nundef + B(Undef(Obs[l]))
              /\ nskip' = nskip + B(~Rendered(Obs[l]))
              /\ nda' = nda + B(v.da)
              /\ ndf' = ndf + B(v.df)
              /\ naud' = naud + B(v.aud)
              /\ reps' = IF new THEN Append(reps, l) ELSE reps
              /\ seen' = IF new THEN seen \cup {Sig(Obs[l])} ELSE seen
              /\ cands' = IF v.v = "cand" THEN Append(cands, l) ELSE cands
              /\ auds' = IF v.aud /\ Len(auds) < 50 THEN Append(auds, l) ELSE auds
Done == l = Len(Obs) + 1 =>
          /\ ndJsonSerialize("diag.ndjson", <<[records |-> Len(Obs), nbad |-> nbad, candidates |-> ncand,
                                               undecided |-> Len(cands),
                                               ref_undefined |-> nundef, not_rendered |-> nskip,
                                               drift_asfound |-> nda, drift_fixed |-> ndf, audit_disputed |-> naud]>>)
          /\ ndJsonSerialize("cand.ndjson", IF Len(cands) = 0 THEN <<>> ELSE [j \in 1..Len(cands) |-> [k |-> cands[j]]])
          /\ ndJsonSerialize("aud.ndjson", IF Len(auds) = 0 THEN <<>> ELSE [j \in 1..Len(auds) |-> [k |-> auds[j]]])
          /\ ndJsonSerialize("bad.ndjson",
               IF Len(reps) = 0 THEN <<>> ELSE
               [j \in 1..Len(reps) |-> [k |-> reps[j], id |-> Obs[reps[j]].id, sig |-> Sig(Obs[reps[j]]), nbad |-> nbad]])
Consumed == TLCGet("stats").diameter - 1 = Len(Obs)
=============================================================================

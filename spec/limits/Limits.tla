------------------------------- MODULE Limits -------------------------------
(* C20.  "Exceeding an implementation limit is an error, never wrong code."

   PART 1 (reference, what the property demands) is LimitsRef.tla: refused with a limit-exceeded
   *BuildError, or built, ran and printed the checksum gc prints.

   PART 2 (implementation-shaped): the per-function counters of internal/compiler/builder.go
   (newRegister, make*Value, addType, addFunction, addNativeFunction, makeFieldIndex) with their
   "== max" tests, and the encodings of builder.go / runtime/vm.go transcribed cast by cast
   (two's complement int8/int16 casts, shifts, |, &^).  MC_Limits checks, for every index below
   every limit, that the operand written by the compiler is read back by the VM as the same
   index, and that Alloc refuses exactly at the limit. *)
EXTENDS LimitsRef

(* PART 1 (reference) is LimitsRef.tla *)

(* ====================== PART 2: implementation-shaped model ====================== *)
(* ---- Go integer casts and bit operators (two's complement) ---- *)
Uint8(x)  == x % 256
Int8(x)   == LET y == x % 256 IN IF y >= 128 THEN y - 256 ELSE y
Uint16(x) == x % 65536
Int16(x)  == LET y == x % 65536 IN IF y >= 32768 THEN y - 65536 ELSE y
Shr(x, k) == x \div (2 ^ k)                \* >> on a signed value is floor division (\div floors)
\* bitwise | and &^ on naturals, bit by bit from the least significant end
RECURSIVE NatOr(_, _)
NatOr(x, y) == IF x = 0 THEN y ELSE IF y = 0 THEN x
               ELSE 2 * NatOr(x \div 2, y \div 2) + (IF (x % 2) + (y % 2) > 0 THEN 1 ELSE 0)
RECURSIVE NatAndNot(_, _)
NatAndNot(x, y) == IF x = 0 THEN 0 ELSE IF y = 0 THEN x
                   ELSE 2 * NatAndNot(x \div 2, y \div 2) + (IF (x % 2) = 1 /\ (y % 2) = 0 THEN 1 ELSE 0)
\* ... and on two's complement numbers of `size` = 2^bits (256 for int8, 2^26 for Go int / uint32
\* values known to fit 25 bits; TLC integers are 32-bit)
Signed(u, size) == IF 2 * u >= size THEN u - size ELSE u
OrW(x, y, size)     == Signed(NatOr(x % size, y % size), size)
AndNotW(x, y, size) == Signed(NatAndNot(x % size, y % size), size)
Or(x, y)     == OrW(x, y, 67108864)
AndNot(x, y) == AndNotW(x, y, 67108864)

(* ---- builder.go: encode*,  vm.go: decode*  (argument and result types as in the code) ---- *)
\* func encodeInt16(v int16) (a, b int8) { a = int8(v >> 8); b = int8(v) }
EncodeInt16(v) == <<Int8(Shr(v, 8)), Int8(v)>>
\* func decodeInt16(a, b int8) int16 { return int16(int(a)<<8 | int(uint8(b))) }
DecodeInt16(a, b) == Int16(Or(a * 256, Uint8(b)))
\* func encodeUint16(v uint16) (a, b int8) { a = int8(uint8(v >> 8)); b = int8(uint8(v)) }
EncodeUint16(v) == <<Int8(Uint8(Shr(v, 8))), Int8(Uint8(v))>>
\* func decodeUint16(a, b int8) uint16 { return uint16(uint8(a))<<8 | uint16(uint8(b)) }
DecodeUint16(a, b) == Uint16(Or(Uint16(Uint8(a) * 256), Uint8(b)))
\* func encodeUint24(v uint32) (a, b, c int8)
EncodeUint24(v) == <<Int8(Uint8(Shr(v, 16))), Int8(Uint8(Shr(v, 8))), Int8(Uint8(v))>>
\* func decodeUint24(a, b, c int8) uint32 { return uint32(uint8(a))<<16 | uint32(uint8(b))<<8 | uint32(uint8(c)) }
DecodeUint24(a, b, c) == Or(Or(Uint8(a) * 65536, Uint8(b) * 256), Uint8(c))
\* func encodeValueIndex(t registerType, i int) (a, b int8) { a, b = encodeInt16(int16(i)); a |= int8(t << 6) }
\* (registerType is an int8: t << 6 wraps to -128 for t = 2 and to -64 for t = 3)
EncodeValueIndex(t, i) ==
  LET ab == EncodeInt16(Int16(i)) IN <<Int8(OrW(ab[1], Int8(t * 64), 256)), ab[2]>>
\* func decodeValueIndex(a, b int8) (t registerType, i int) {
\*     return registerType(uint8(a) >> 6), int(decodeUint16(a, b) &^ (3 << 14)) }
DecodeValueIndex(a, b) == <<Shr(Uint8(a), 6), AndNot(DecodeUint16(a, b), 3 * 16384)>>

(* ---- per-function resources and their Alloc actions ---- *)
CONSTANTS MaxRegisters,     \* builder.go maxRegistersCount        (127)
          MaxTable8,        \* maxTypesCount, max{Native,Scriggo}FunctionsCount, max{String,General}ValuesCount, maxFieldIndexesCount (256)
          MaxValues14,      \* max{Int,Float}ValuesCount and the index range of OpLoad (16384)
          ModelPaths        \* "callsites": the allocation paths outside builder.go (below); anything else: builder.go

RegKinds == {"int", "float", "string", "general"}
Tables8  == {"types", "nativefuncs", "scriggofuncs", "stringvalues", "generalvalues", "fieldindexes"}
\* intRegister, floatRegister, stringRegister, generalRegister (registerType iota)
RegType(k) == CASE k = "int" -> 0 [] k = "float" -> 1 [] k = "string" -> 2 [] k = "general" -> 3
\* A resource is <<class, name>>.  Classes:
\*   reg    newRegister: `if num == maxRegistersCount {panic}`; operand int8, VM: r > 0 direct, r < 0 indirect
\*   tab8   add*/make*: `if r == max {panic}`; operand int8(r), VM reads table[uint8(operand)]
\*   val    make{Int,Float}Value + OpLoad: encodeValueIndex / decodeValueIndex (2 + 14 bits)
\*   tab8nolimit  `index := int8(len(table)); append` with NO limit test - the shape emitter_func_store.go
\*                scriggoFnIndex / predefFunc had before commits a588706 / ba8b59a (they now go through
\*                addFunction / addNativeFunction, class tab8)
\*   tab8signed   the table indexed with the int8 operand itself, WITHOUT the uint8 cast - the shape
\*                emitter_assignment.go address.targetType had before commit 660ae97
\*   The last two classes are kept as negative controls: TLC must find Faithful violated on them.
BuilderResources == {<<"reg", k>> : k \in RegKinds} \cup {<<"tab8", t>> : t \in Tables8} \cup {<<"val", k>> : k \in RegKinds}
CallsiteResources == {<<"tab8nolimit", "scriggofuncs">>, <<"tab8nolimit", "nativefuncs">>, <<"tab8signed", "fieldindexes">>}
Resources == IF ModelPaths = "callsites" THEN CallsiteResources ELSE BuilderResources

NoLimit == 1000000
LimitOf(r) == CASE r[1] = "reg" -> MaxRegisters [] r[1] \in {"tab8", "tab8signed"} -> MaxTable8
            [] r[1] = "val" -> MaxValues14 [] r[1] = "tab8nolimit" -> NoLimit
\* what the operand encodings can hold, whatever the limit constants say
Capacity(r) == CASE r[1] = "reg" -> 127 [] r[1] \in {"tab8", "tab8signed", "tab8nolimit"} -> 256 [] r[1] = "val" -> 16384

VARIABLES res,      \* the resource this function exhausts
          cnt,      \* len(table) / numRegs[kind]
          refused   \* a LimitExceededError was raised
vars == <<res, cnt, refused>>

Init == res \in Resources /\ cnt = 0 /\ refused = FALSE
\* `if r == max { panic(newLimitExceededError(..)) }`
AllocRefuse == ~refused /\ cnt = LimitOf(res) /\ refused' = TRUE /\ UNCHANGED <<res, cnt>>
\* `table = append(table, x); return int8(r)`   /   `fb.allocRegister(t, num+1); return num + 1`
AllocOk == ~refused /\ cnt # LimitOf(res) /\ cnt' = cnt + 1 /\ UNCHANGED <<res, refused>>
Next == AllocOk \/ AllocRefuse
\* exploration bound for paths that never refuse
Bounded == cnt <= Capacity(res) + 4

\* what is read back for the unit allocated last
\* registers: newRegister returns int8(num+1); the VM treats r > 0 as direct, r < 0 as indirect -r
RegAsSeenByVM(num) == Int8(num)
\* 8-bit tables: the builder returns int8(r), the VM indexes with uint8(operand)
Tab8AsSeenByVM(r) == Uint8(Int8(r))
\* ... the compiler's own read in targetType indexes with the int8 itself
Tab8AsSeenSigned(r) == Int8(r)
\* OpLoad: encodeValueIndex at build time, decodeValueIndex at run time
ValAsSeenByVM(t, i) == LET ab == EncodeValueIndex(t, i) IN DecodeValueIndex(ab[1], ab[2])

FaithfulAt(r, c) ==
  c > 0 =>
    CASE r[1] = "reg"  -> RegAsSeenByVM(c) = c /\ RegAsSeenByVM(c) > 0
      [] r[1] \in {"tab8", "tab8nolimit"} -> Tab8AsSeenByVM(c - 1) = c - 1
      [] r[1] = "tab8signed" -> Tab8AsSeenSigned(c - 1) = c - 1
      [] r[1] = "val"  -> ValAsSeenByVM(RegType(r[2]), c - 1) = <<RegType(r[2]), c - 1>>
Faithful == FaithfulAt(res, cnt)
RefusesAtLimit == refused => cnt = LimitOf(res)
NeverBeyondCapacity == cnt <= Capacity(res)

(* ---- addresses: 16-bit variable indexes and 24-bit jump targets (constant-level checks) ---- *)
Int16RoundTrip(S)  == \A v \in S : LET ab == EncodeInt16(v) IN DecodeInt16(ab[1], ab[2]) = v
Uint16RoundTrip(S) == \A v \in S : LET ab == EncodeUint16(v) IN DecodeUint16(ab[1], ab[2]) = v
Uint24RoundTrip(S) == \A v \in S : LET abc == EncodeUint24(v) IN DecodeUint24(abc[1], abc[2], abc[3]) = v
\* Code-reading note (not checkable by replay): builder.go refuses a function body only above
\* math.MaxUint32 instructions while jump targets have 24 bits.
=============================================================================

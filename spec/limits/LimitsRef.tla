------------------------------ MODULE LimitsRef ------------------------------
(* C20, PART 1 - the reference: what the property demands of one observed program.  Kept in its
   own module so that Trace_Limits can use it without the model's variables and constants.

   Every generated program folds the n values it reads back through the resource under test into
   a checksum; the value gc prints is Checksum(..) below (plain integer arithmetic, no overflow by
   construction).  An observation of the real code satisfies the property iff the build was
   refused with a limit-exceeded *BuildError, or the program built, ran and printed exactly that
   checksum.  No limit VALUE occurs in the predicate. *)
EXTENDS Integers, Sequences

\* value of unit i (1-based) of a program
V(base, step, mod, i) == base + step * (i % mod)

\* kind "hash":  h_0 = 0,  h_i = (h_{i-1} * w + v_i) % m        (statements executed in order)
RECURSIVE HashFrom(_, _, _, _, _, _, _, _)
HashFrom(w, m, base, step, mod, n, i, h) ==
  IF i > n THEN h ELSE HashFrom(w, m, base, step, mod, n, i + 1, (h * w + V(base, step, mod, i)) % m)

\* kind "nest":  E_{n+1} = 0,  E_i = (v_i + w * E_{i+1}) % m    (one right-nested expression)
RECURSIVE NestFrom(_, _, _, _, _, _, _)
NestFrom(w, m, base, step, mod, i, e) ==
  IF i < 1 THEN e ELSE NestFrom(w, m, base, step, mod, i - 1, (V(base, step, mod, i) + w * e) % m)

Kinds == {"hash", "nest", "single"}
Checksum(kind, w, m, base, step, mod, n) ==
  CASE kind = "hash"   -> HashFrom(w, m, base, step, mod, n, 1, 0)
    [] kind = "nest"   -> NestFrom(w, m, base, step, mod, n, 0)
    [] kind = "single" -> V(base, step, mod, n) % m          \* only unit n is observed (select)

\* the reference is defined when nothing can leave TLC's 32-bit integers
RefDefined(r) ==
  /\ r.kind \in Kinds /\ r.n >= 1 /\ r.n < 100000
  /\ r.w >= 1 /\ r.w <= 64 /\ r.m >= 2 /\ r.m <= 2000000
  /\ r.base >= 0 /\ r.step >= 0 /\ r.mod >= 1
  /\ r.base <= 1000000 /\ r.step <= 1000 /\ r.n * r.step <= 100000000

\* ---- the two clauses of the property statement ----
\* "fails to build with a limit-exceeded *BuildError"
RefusedWithLimitError(r) == r.builds = "limiterror"
\* "builds and behaves as under gc"
BehavesAsGc(r) ==
  /\ r.builds = "ok" /\ r.run = "ok"
  /\ r.printed = Checksum(r.kind, r.w, r.m, r.base, r.step, r.mod, r.n)
\* Reading chosen (DESIGN Appendix C.5): WHICH of the two happens for a given n is the
\* implementation's business - a lowered or raised limit passes; what never passes is a third
\* outcome: wrong output, a run-time panic, a host panic, or any other error.
Ok(r) == RefusedWithLimitError(r) \/ BehavesAsGc(r)
=============================================================================

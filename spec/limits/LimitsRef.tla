------------------------------ MODULE LimitsRef ------------------------------
(* C20, PART 1 - the reference: what the property demands of one observed program.  Kept in its
   own module so that Trace_Limits can use it without the model's variables and constants.

   Every generated program folds the n values it reads back through the resource under test into
   a checksum; the value gc prints is Checksum(..) below (plain integer arithmetic, no overflow by
   construction).  An observation of the real code satisfies the property iff the build was
   refused with a limit-exceeded *BuildError, or the program built, ran and printed exactly that
   checksum.  No limit VALUE occurs in the predicate. *)
EXTENDS Integers, Sequences

\* value of unit i (1-based) of a program
V(base, step, mod, i) == base + step * (i % mod)

\* kind "hash":  h_0 = 0,  h_i = (h_{i-1} * w + v_i) % m        (statements executed in order)
\* HashRange folds units lo..hi into h.  Ranges are halved down to 64 units so that TLC's evaluation
\* stack stays shallow (a 16384-deep recursion makes every JVM collection scan a huge stack).
RECURSIVE HashRange(_, _, _, _, _, _, _, _)
HashRange(w, m, base, step, mod, lo, hi, h) ==
  IF lo > hi THEN h
  ELSE IF hi - lo < 64
       THEN HashRange(w, m, base, step, mod, lo + 1, hi, (h * w + V(base, step, mod, lo)) % m)
       ELSE LET mid == (lo + hi) \div 2 IN
            HashRange(w, m, base, step, mod, mid + 1, hi, HashRange(w, m, base, step, mod, lo, mid, h))

\* kind "nest":  E_{n+1} = 0,  E_i = (v_i + w * E_{i+1}) % m    (one right-nested expression)
\* NestRange folds units hi down to lo into e.
RECURSIVE NestRange(_, _, _, _, _, _, _, _)
NestRange(w, m, base, step, mod, lo, hi, e) ==
  IF lo > hi THEN e
  ELSE IF hi - lo < 64
       THEN NestRange(w, m, base, step, mod, lo, hi - 1, (V(base, step, mod, hi) + w * e) % m)
       ELSE LET mid == (lo + hi) \div 2 IN
            NestRange(w, m, base, step, mod, lo, mid, NestRange(w, m, base, step, mod, mid + 1, hi, e))

Kinds == {"hash", "nest", "single"}
Checksum(kind, w, m, base, step, mod, n) ==
  CASE kind = "hash"   -> HashRange(w, m, base, step, mod, 1, n, 0)
    [] kind = "nest"   -> NestRange(w, m, base, step, mod, 1, n, 0)
    [] kind = "single" -> V(base, step, mod, n) % m          \* only unit n is observed (select)

\* the reference is defined when nothing can leave TLC's 32-bit integers
RefDefined(r) ==
  /\ r.kind \in Kinds /\ r.n >= 1 /\ r.n < 100000
  /\ r.w >= 1 /\ r.w <= 64 /\ r.m >= 2 /\ r.m <= 2000000
  /\ r.base >= 0 /\ r.step >= 0 /\ r.mod >= 1
  /\ r.base <= 1000000 /\ r.step <= 1000 /\ r.n * r.step <= 100000000

\* ---- the two clauses of the property statement ----
\* "fails to build with a limit-exceeded *BuildError"
RefusedWithLimitError(r) == r.builds = "limiterror"
\* "builds and behaves as under gc"
BehavesAsGc(r) ==
  /\ r.builds = "ok" /\ r.run = "ok"
  /\ r.printed = Checksum(r.kind, r.w, r.m, r.base, r.step, r.mod, r.n)
\* Reading chosen (DESIGN Appendix C.5): WHICH of the two happens for a given n is the
\* implementation's business - a lowered or raised limit passes; what never passes is a third
\* outcome: wrong output, a run-time panic, a host panic, or any other error.
Ok(r) == RefusedWithLimitError(r) \/ BehavesAsGc(r)
=============================================================================

----------------------------- MODULE Trace_Limits -----------------------------
(* Judges observations of real builds/runs: one record per program
     {id, rid, res, n, cap, base, step, mod, kind, w, m, builds, run, printed, msg}
   builds: ok | limiterror | otherbuilderror | othererror | hostpanic
   run:    ok | panic | error | timeout | hostpanic | none
   printed: the integer printed (-1: nothing / not an integer).
   EITHER refused with a limit-exceeded *BuildError OR built, ran and printed the reference
   checksum; nothing else (LimitsRef!Ok).  Records the reference cannot handle are skipped and counted. *)
EXTENDS LimitsRef, TLC, Json, FiniteSets
RecOk(r) == ~RefDefined(r) \/ Ok(r)
Outcome(r) == CASE r.builds = "hostpanic" -> "hostpanic-build"
                [] r.builds \in {"otherbuilderror", "othererror"} -> r.builds
                [] r.builds = "ok" /\ r.run # "ok" -> "run-" \o r.run
                [] r.builds = "ok" /\ r.run = "ok" -> "wrongsum"
                [] OTHER -> "unknown"
\* root cause = resource + kind of failure + which side of the spec's capacity + the host panic text
Sig(r) == [fam |-> "limits", res |-> r.res, outcome |-> Outcome(r),
           zone |-> IF r.n <= r.cap THEN "within" ELSE "above",
           msg |-> IF r.builds = "hostpanic" \/ r.run \in {"hostpanic", "panic"} THEN r.msg ELSE ""]

(* ---- record-walk skeleton (same in every record-per-line Trace spec; see spec/README) ---- *)
VARIABLES l, nbad
Obs == ndJsonDeserialize("obs.ndjson")
Init == l = 1 /\ nbad = 0
Next == l <= Len(Obs) /\ l' = l + 1 /\ nbad' = nbad + (IF RecOk(Obs[l]) THEN 0 ELSE 1)
BadIdx == SelectSeq([i \in 1..Len(Obs) |-> i], LAMBDA i : ~RecOk(Obs[i]))
Done == l = Len(Obs) + 1 =>
          /\ PrintT(<<"ref_undefined", Cardinality({i \in 1..Len(Obs) : ~RefDefined(Obs[i])})>>)
          /\ ndJsonSerialize("bad.ndjson",
             IF nbad = 0 THEN <<>>
             ELSE [j \in 1..(IF Len(BadIdx) < 400 THEN Len(BadIdx) ELSE 400) |->
                     [k |-> BadIdx[j], id |-> Obs[BadIdx[j]].id, sig |-> Sig(Obs[BadIdx[j]]), nbad |-> nbad]])
Consumed == TLCGet("stats").diameter - 1 = Len(Obs)
=============================================================================

------------------------------ MODULE MC_Limits ------------------------------
(* Exhaustive model check of the encodings and Alloc actions of Limits.tla, the constant-level
   address round trips, and the export of the sweep plan (cases.ndjson).

   The plan uses the spec's idea of each limit (cap) ONLY to choose sweep points and the window in
   which the driver looks for the actual threshold; the judge (Trace_Limits) is not tied to them. *)
EXTENDS Limits, TLC, Json, FiniteSets, SequencesExt
CONSTANTS Span,        \* sweep radius around cap (and around the threshold the driver finds)
          Deep         \* TRUE: larger address sets and extra mid points
W == 31
M == 1000003
Huge == 1073741824     \* "mod" that never wraps: all values distinct

(* ---- address encodings (constant level) ---- *)
Edge == IF Deep THEN {0, 1, 127, 128, 255} ELSE {0, 128, 255}
Bytes == 0 .. 255
A24(SA, SB, SC) == {a * 65536 + b * 256 + c : a \in SA, b \in SB, c \in SC}
\* 24-bit space: every byte value in each position with the other two on sign/carry edges; Deep adds
\* every address below 2^17 (all low byte pairs, with the carry into the third byte)
Addr24 == A24(Bytes, Edge, Edge) \cup A24(Edge, Bytes, Edge) \cup A24(Edge, Edge, Bytes)
          \cup (IF Deep THEN 0 .. 131071 ELSE {})
Main == ModelPaths = "builder"      \* the main run; the auxiliary runs skip constant-level work
A16(SA, SB) == {a * 256 + b : a \in SA, b \in SB}
Addr16 == IF Deep THEN 0 .. 65535 ELSE A16(Bytes, Edge) \cup A16(Edge, Bytes)
SAddr16 == IF Deep THEN -32768 .. 32767 ELSE {v - 32768 : v \in Addr16}
ASSUME Main => Int16RoundTrip(SAddr16)
ASSUME Main => Uint16RoundTrip(Addr16)
ASSUME Main => Uint24RoundTrip(Addr24)
AddressesChecked == Cardinality(SAddr16) + Cardinality(Addr16) + Cardinality(Addr24)
ASSUME Main => PrintT(<<"addresses_checked", AddressesChecked>>)

\* the call-site paths: first count at which the unit allocated last is read back as another one
FirstUnfaithful(r) == LET S == {c \in 1 .. Capacity(r) + 4 : ~FaithfulAt(r, c)} IN
                      IF S = {} THEN 0 ELSE CHOOSE c \in S : \A d \in S : c <= d
ASSUME ModelPaths = "callsites" =>
         \A r \in CallsiteResources : PrintT(<<"first_unfaithful", r[1], r[2], FirstUnfaithful(r)>>)

(* ---- the sweep plan ---- *)
\* res: program-level resource (the driver knows how to write a program needing n units of it)
\* cap: the spec's idea of the number of units one function can hold (from the model constants)
R(rname, cap, base, step, mod, kind, locate, wide) ==
  [res |-> rname, cap |-> cap, base |-> base, step |-> step, mod |-> mod, kind |-> kind, locate |-> locate, wide |-> wide]
Plan == <<
  R("intlocals",        MaxRegisters, 1000, 1, Huge, "hash", TRUE, TRUE),
  R("floatlocals",      MaxRegisters, 1000, 1, Huge, "hash", TRUE, TRUE),
  R("stringlocals",     MaxRegisters, 0,    1, Huge, "hash", TRUE, TRUE),
  R("generallocals",    MaxRegisters, 1000, 1, Huge, "hash", TRUE, TRUE),
  R("indirect",         MaxRegisters, 1000, 1, Huge, "hash", TRUE, TRUE),
  R("temps",            MaxRegisters, 1000, 1, Huge, "nest", TRUE, TRUE),
  R("args",             MaxRegisters, 1000, 1, Huge, "hash", TRUE, TRUE),
  R("globals",          MaxRegisters * 4, 1, 1, Huge, "hash", TRUE, TRUE),
  R("intconsts",        MaxValues14,  1000, 1, Huge, "hash", TRUE, FALSE),
  R("floatconsts",      MaxValues14,  1000, 1, Huge, "hash", TRUE, FALSE),
  R("stringconsts",     MaxTable8,    0,    1, Huge, "hash", TRUE, TRUE),
  R("generalconsts",    MaxTable8,    1000, 1, Huge, "hash", TRUE, TRUE),
  R("types",            MaxTable8,    0,    1, Huge, "hash", TRUE, TRUE),
  R("sfuncs",           MaxTable8,    1000, 1, Huge, "hash", TRUE, TRUE),
  R("nfuncs",           MaxTable8,    1000, 1, Huge, "hash", TRUE, TRUE),
  R("fieldwrites",      MaxTable8,    1000, 1, Huge, "hash", TRUE, TRUE),
  R("fieldreads",       MaxTable8,    1000, 1, Huge, "hash", TRUE, TRUE),
  R("selectcases",      65535,        1000, 1, 9973, "single", TRUE, FALSE),
  R("jumps",            MaxValues14,  1000, 1, 50,   "hash", FALSE, FALSE),
  R("tmplstringconsts", MaxTable8,    0,    1, Huge, "hash", TRUE, TRUE),
  R("tmpltypes",        MaxTable8,    0,    1, Huge, "hash", TRUE, TRUE),
  \* variants: the entries added LAST, around the limit, come from the allocation paths the builder
  \* treats separately (nil, zero values of non-comparable types, composite zero values, function
  \* values and literals, map-key selectors)
  R("generalnil",       MaxTable8,    1000, 1, Huge, "hash", TRUE, TRUE),
  R("generalzero",      MaxTable8,    1000, 1, Huge, "hash", TRUE, TRUE),
  R("generalmix",       MaxTable8 + MaxTable8 \div 2, 1000, 1, Huge, "hash", TRUE, TRUE),
  R("typesmix",         MaxTable8,    0,    1, Huge, "hash", TRUE, TRUE),
  R("sfuncmix",         MaxTable8,    1000, 1, Huge, "hash", TRUE, TRUE),
  R("nfuncvals",        MaxTable8,    1000, 1, Huge, "hash", TRUE, TRUE),
  R("tmplstringsel",    MaxTable8,    1000, 1, Huge, "hash", TRUE, TRUE),
  \* resources consumed by package-level initialisers (the synthetic $initvars function) of the main
  \* package, of an imported package and of an imported template file
  R("pkgvars_int",      MaxRegisters, 1000, 1, Huge, "hash", TRUE, TRUE),
  R("pkgvars_float",    MaxRegisters, 1000, 1, Huge, "hash", TRUE, TRUE),
  R("pkgvars_string",   MaxRegisters, 0,    1, Huge, "hash", TRUE, TRUE),
  R("pkgvars_general",  MaxRegisters, 1000, 1, Huge, "hash", TRUE, TRUE),
  R("pkginit_strings",  MaxTable8,    0,    1, Huge, "hash", TRUE, TRUE),
  R("pkginit_general",  MaxTable8,    1000, 1, Huge, "hash", TRUE, TRUE),
  R("pkginit_types",    MaxTable8,    0,    1, Huge, "hash", TRUE, TRUE),
  R("libvars_string",   MaxRegisters, 0,    1, Huge, "hash", TRUE, TRUE),
  R("libinit_general",  MaxTable8,    1000, 1, Huge, "hash", TRUE, TRUE),
  R("tmplimpvars",      MaxRegisters, 0,    1, Huge, "hash", TRUE, TRUE) >>
  \o (IF Deep THEN << R("pkginit_ints", MaxValues14 \div 2 + 64, 100000, 1, Huge, "hash", TRUE, FALSE) >> ELSE << >>)

\* wide (small) resources: {1, cap/2} and cap-Span..cap+Span.  Large programs (not wide): cap/2 only
\* when Deep.  Resources without a reachable limit (jumps): {1, cap/2}, Deep adds {cap, cap + cap/2}.
Points(p) ==
  LET around == (p.cap - Span) .. (p.cap + Span)
      half   == p.cap \div 2
      pts    == IF ~p.locate THEN {1, half} \cup (IF Deep THEN {p.cap, p.cap + half} ELSE {})
                ELSE {1} \cup around \cup (IF p.wide \/ Deep THEN {half} ELSE {})
  IN {n \in pts : n >= 1}
Case(i) ==
  LET p == Plan[i]  pts == SetToSeq(Points(p)) IN
  [id |-> i, rid |-> i, res |-> p.res, cap |-> p.cap, locate |-> p.locate, span |-> Span,
   lo |-> IF p.wide THEN 1 ELSE p.cap - 64,
   hi |-> IF p.wide THEN p.cap + p.cap \div 4 ELSE p.cap + 64,
   base |-> p.base, step |-> p.step, mod |-> p.mod, kind |-> p.kind, w |-> W, m |-> M,
   points |-> pts,
   \* the checksum gc prints for each planned point (informative; the judge recomputes it)
   sums |-> [k \in 1 .. Len(pts) |-> Checksum(p.kind, W, M, p.base, p.step, p.mod, pts[k])]]
Cases == [i \in 1 .. Len(Plan) |-> Case(i)]
ASSUME Main => ndJsonSerialize("cases.ndjson", Cases)
=============================================================================

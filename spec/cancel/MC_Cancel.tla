------------------------------ MODULE MC_Cancel ------------------------------
(* Exhaustive check of Cancel.tla over a family of shapes, and the replay catalogue: every
   concrete program the driver knows (by name) with its abstract shape, crossed with every
   cancellation point that applies to it. *)
EXTENDS Cancel, Json, SequencesExt
Scripts == {<<"spin">>, <<"block">>, <<"end">>, <<"work", "end">>, <<"work", "block">>, <<"work", "spin">>,
            <<"work", "work", "end">>, <<"work", "work", "block">>}
Catalogue == {
  [name |-> "loop",            shape |-> <<<<"spin">>>>],
  [name |-> "loopcall",        shape |-> <<<<"spin">>>>],
  [name |-> "nestedloops",     shape |-> <<<<"spin">>>>],
  [name |-> "recursionloop",   shape |-> <<<<"spin">>>>],
  [name |-> "deferrecoverloop",shape |-> <<<<"spin">>>>],
  [name |-> "selectdefault",   shape |-> <<<<"spin">>>>],
  [name |-> "funcvarrecursion",shape |-> <<<<"spin">>>>],
  [name |-> "localfuncvarrecursion", shape |-> <<<<"spin">>>>],
  [name |-> "callbackloop",    shape |-> <<<<"spin">>>>],
  [name |-> "tmplfuncvar",     shape |-> <<<<"spin">>>>],
  [name |-> "structloop",      shape |-> <<<<"spin">>>>],
  [name |-> "closureloop",     shape |-> <<<<"spin">>>>],
  [name |-> "tmplfor",         shape |-> <<<<"spin">>>>],
  [name |-> "tmplmacroloop",   shape |-> <<<<"spin">>>>],
  [name |-> "recv",            shape |-> <<<<"block">>>>],
  [name |-> "send",            shape |-> <<<<"block">>>>],
  [name |-> "select2",         shape |-> <<<<"block">>>>],
  [name |-> "selectsend",      shape |-> <<<<"block">>>>],
  [name |-> "rangechan",       shape |-> <<<<"block">>>>],
  [name |-> "nilrecv",         shape |-> <<<<"block">>>>],
  [name |-> "nilsend",         shape |-> <<<<"block">>>>],
  [name |-> "emptyselect",     shape |-> <<<<"block">>>>],
  [name |-> "recvincall",      shape |-> <<<<"work", "block">>>>],
  [name |-> "workthenrecv",    shape |-> <<<<"work", "block">>>>],
  [name |-> "bufferedfull",    shape |-> <<<<"work", "block">>>>],
  [name |-> "tmplrecv",        shape |-> <<<<"block">>>>],
  [name |-> "mainblock_gospin",shape |-> <<<<"block">>, <<"spin">>>>],
  [name |-> "mainspin_goblock",shape |-> <<<<"spin">>, <<"block">>>>],
  [name |-> "mainblock_goblock",shape |-> <<<<"block">>, <<"block">>>>],
  [name |-> "mainend_goblock", shape |-> <<<<"work", "end">>, <<"block">>>>],
  [name |-> "mainend_gospin",  shape |-> <<<<"work", "end">>, <<"spin">>>>],
  [name |-> "pingpong_forever",shape |-> <<<<"spin">>, <<"spin">>>>],
  [name |-> "finish",          shape |-> <<<<"work", "end">>>>],
  [name |-> "finishlong",      shape |-> <<<<"work", "work", "end">>>>],
  [name |-> "tmplfinish",      shape |-> <<<<"work", "end">>>>]
}
CatShapes == {c.shape : c \in Catalogue}
MCShapes == CatShapes \cup {<<m>> : m \in Scripts} \cup {<<m, g>> : m \in Scripts, g \in Scripts}
            \cup {<<m, g, h>> : m \in {<<"spin">>, <<"block">>, <<"work", "end">>}, g \in {<<"spin">>, <<"block">>}, h \in {<<"block">>, <<"work", "end">>}}
HasPhase(sh, ph) == \E i \in DOMAIN sh : \E k \in DOMAIN sh[i] : sh[i][k] = ph
\* cancellation points (when the driver cancels): before Run; at the main VM's start event; while
\* running (after a short delay); at the first blocking event (inside the hook, and shortly after it);
\* after Run returned; never
Points(sh) == {"pre", "start", "running"}
              \cup (IF HasPhase(sh, "block") THEN {"block", "blockasync"} ELSE {})
              \cup (IF Terminating(sh) THEN {"late", "never"} ELSE {})
CaseSet == {[name |-> c.name, term |-> Terminating(c.shape), blocks |-> HasPhase(c.shape, "block"),
             nvm |-> Len(c.shape), point |-> p] : c \in Catalogue, p \in {"pre", "start", "running", "block", "blockasync", "late", "never"}}
Cases == LET S == SetToSeq({x \in CaseSet : \E c \in Catalogue : c.name = x.name /\ x.point \in Points(c.shape)})
         IN [i \in 1..Len(S) |-> [id |-> i, name |-> S[i].name, term |-> S[i].term, blocks |-> S[i].blocks, nvm |-> S[i].nvm, point |-> S[i].point]]
ASSUME ndJsonSerialize("cases.ndjson", Cases)
=============================================================================

------------------------------- MODULE Cancel -------------------------------
(* C11.  Cancellation of a running program/template (internal/runtime/run.go runFunc + run,
   vm.go stop): one main VM and the VMs of the goroutines it starts share an environment whose
   `done` flag is set by a watcher goroutine when the context is cancelled; every VM tests the
   flag at each instruction (loop head), and every blocking channel instruction adds the
   context's Done channel as an extra select case (except `select` with a default, which does
   not block).  After the main VM stops, runFunc closes the watcher's stop channel and returns
   the context's error iff `done` is set.

   A program is abstracted to its SHAPE: for each VM a cyclic or finite script of phases
     "spin"  (computes forever)      "work" (computes, then goes to the next phase)
     "block" (parks in a channel operation whose partner never arrives)
     "end"   (the function returns)
   TLC explores every interleaving of VM steps, the watcher, and Cancel arriving at any moment. *)
EXTENDS Integers, Sequences, FiniteSets, TLC
CONSTANTS Shapes,        \* set of shapes; a shape is a sequence (one per VM, main first) of phase sequences
          HasDoneCase    \* TRUE in the code: a parked channel operation also waits on ctx.Done()
VARIABLES shape,
          ctx,           \* "active" | "cancelled"
          done,          \* env.done
          watcher,       \* "waiting" | "fired" | "released"
          vm,            \* per VM: [st |-> "run"|"parked"|"stopped"|"ended", pc |-> index in its script]
          ret            \* "none" | "own" | "ctxerr"   what Run returned
vars == <<shape, ctx, done, watcher, vm, ret>>
VMs == DOMAIN shape
Phase(i) == shape[i][vm[i].pc]

Init == /\ shape \in Shapes /\ ctx = "active" /\ done = FALSE /\ watcher = "waiting" /\ ret = "none"
        /\ vm = [i \in DOMAIN shape |-> [st |-> "run", pc |-> 1]]

Cancel == ctx = "active" /\ ctx' = "cancelled" /\ UNCHANGED <<shape, done, watcher, vm, ret>>
WatcherFire == /\ watcher = "waiting" /\ ctx = "cancelled" /\ ret = "none"
               /\ watcher' = "fired" /\ done' = TRUE /\ UNCHANGED <<shape, ctx, vm, ret>>

\* one instruction of VM i: the loop-head test of env.done comes first.  (Abstraction: the test and
\* the instruction are one atomic step here; in the code the flag may be set in between, which only
\* delays the stop by one instruction.)
StepAs(i, ph) ==
  /\ vm[i].st = "run" /\ ret = "none"
  /\ IF done THEN vm' = [vm EXCEPT ![i].st = "stopped"]                         \* return vm.stop()
     ELSE CASE ph = "spin"  -> UNCHANGED vm
            [] ph = "work"  -> vm' = [vm EXCEPT ![i].pc = @ + 1]
            [] ph = "block" -> vm' = [vm EXCEPT ![i].st = "parked"]
            [] ph = "end"   -> vm' = [vm EXCEPT ![i].st = "ended"]
  /\ UNCHANGED <<shape, ctx, done, watcher, ret>>
Step(i) == StepAs(i, Phase(i))
\* the extra select case fires: vm.stop() sets done itself
DoneCase(i) == /\ vm[i].st = "parked" /\ HasDoneCase /\ ctx = "cancelled" /\ ret = "none"
               /\ vm' = [vm EXCEPT ![i].st = "stopped"] /\ done' = TRUE
               /\ UNCHANGED <<shape, ctx, watcher, ret>>
\* runFunc of the main VM: close(stop); if done { return ctx.Err() }; return own outcome
MainOver == vm[1].st \in {"stopped", "ended"}
Return == /\ ret = "none" /\ MainOver
          /\ watcher' = IF watcher = "waiting" THEN "released" ELSE watcher
          /\ ret' = IF done THEN "ctxerr" ELSE "own"
          /\ UNCHANGED <<shape, ctx, done, vm>>
Next == Cancel \/ WatcherFire \/ (\E i \in VMs : Step(i) \/ DoneCase(i)) \/ Return
        \/ (ret # "none" /\ UNCHANGED vars)
Fair == WF_vars(WatcherFire) /\ WF_vars(Return) /\ \A i \in 1..3 : WF_vars(i \in VMs /\ (Step(i) \/ DoneCase(i)))
Spec == Init /\ [][Next]_vars /\ Fair

(* ---- properties ---- *)
Terminating(sh) == \E k \in DOMAIN sh[1] : sh[1][k] = "end" /\ \A j \in 1..(k - 1) : sh[1][j] = "work"
MainTerminates == Terminating(shape)
OwnOnlyIfFinished == ret = "own" => vm[1].st = "ended"
CtxErrOnlyIfCancelled == ret = "ctxerr" => ctx = "cancelled"
DoneOnlyIfCancelled == done => ctx = "cancelled"
\* a non-terminating program can only return the context's error
NonTerminatingReturnsCtxErr == (ret # "none" /\ ~MainTerminates) => ret = "ctxerr"
\* liveness: once cancelled, Run returns - whatever the code is doing
CancelLeadsToReturn == (ctx = "cancelled") ~> (ret # "none")
WatcherNotLeaked == (ret # "none") => watcher # "waiting"
=============================================================================

----------------------------- MODULE Trace_Cancel -----------------------------
(* Validates event logs of real runs against Cancel.tla.  obs.ndjson, one event per line, in the
   order in which the tracer (one mutex) recorded them; causes are logged before they are
   triggered (the driver logs "cancel" and then calls cancel()), effects after they happened:
     reset   {t, name, term, point}
     cancel  {t}                          driver is about to cancel the context
     rt      {t, vm, ev, a}               run-time hook event of VM vm (run-start, block-*, *-done,
                                          vm-stop, run-end, watcher-fired, watcher-released, go, ...)
     return  {t, kind, delay, bound}      Run returned: kind own|ctxerr|panicerror|hostpanic|hang|other;
                                          delay = ms between cancel and return (-1: not cancelled before return)
     end     {t, leaked}                  after a grace period: goroutines still alive beyond the baseline
   VM scripts are not logged: the event says which phase a VM entered (StepAs with the phase bound
   from the event).  The loop-head test is not atomic with the instruction in the code, so a
   "block" event is accepted even if the flag was set just before (see Cancel.tla). *)
EXTENDS Cancel, Json
Trace == ndJsonDeserialize("obs.ndjson")
VARIABLES l, bad, cur, ids, rejected
tvars == <<vars, l, bad, cur, ids, rejected>>
Ev == Trace[l]
IsEvent(e) == l <= Len(Trace) /\ Ev.ev = e /\ l' = l + 1
Idx(v) == CHOOSE i \in DOMAIN ids : ids[i] = v
Known(v) == \E i \in DOMAIN ids : ids[i] = v
TInit == /\ l = 1 /\ bad = <<>> /\ cur = [t |-> 0, name |-> "", term |-> FALSE, point |-> ""] /\ ids = <<>> /\ rejected = FALSE
         /\ shape = <<>> /\ ctx = "active" /\ done = FALSE /\ watcher = "waiting" /\ vm = <<>> /\ ret = "none"
TReset == /\ IsEvent("reset")
          /\ cur' = [t |-> Ev.t, name |-> Ev.name, term |-> Ev.term, point |-> Ev.point] /\ ids' = <<>> /\ rejected' = FALSE
          /\ shape' = <<>> /\ ctx' = "active" /\ done' = FALSE /\ watcher' = "waiting" /\ vm' = <<>> /\ ret' = "none"
          /\ UNCHANGED bad
TCancel == /\ IsEvent("cancel")
           /\ ctx' = "cancelled" /\ UNCHANGED <<shape, done, watcher, vm, ret, bad, cur, ids, rejected>>
IsRT(name) == l <= Len(Trace) /\ Ev.ev = "rt" /\ Ev.rt = name /\ l' = l + 1
BlockEvs == {"block-recv", "block-send", "block-select", "block-range"}
DoneEvs == {"recv-done", "send-done", "select-recv", "select-send", "select-default", "range-done"}
TRunStart == /\ IsRT("run-start") /\ ~Known(Ev.vm)
             /\ ids' = Append(ids, Ev.vm) /\ vm' = Append(vm, [st |-> "run", pc |-> 1])
             /\ UNCHANGED <<shape, ctx, done, watcher, ret, bad, cur, rejected>>
\* a VM parks in a channel operation (select with default - a = 2 - does not park)
TBlock == /\ l <= Len(Trace) /\ Ev.ev = "rt" /\ Ev.rt \in BlockEvs /\ l' = l + 1 /\ Known(Ev.vm)
          /\ vm[Idx(Ev.vm)].st = "run"
          /\ vm' = [vm EXCEPT ![Idx(Ev.vm)].st = IF Ev.a = 2 THEN "run" ELSE "parked"]
          /\ UNCHANGED <<shape, ctx, done, watcher, ret, bad, cur, ids, rejected>>
TUnblock == /\ l <= Len(Trace) /\ Ev.ev = "rt" /\ Ev.rt \in DoneEvs /\ l' = l + 1 /\ Known(Ev.vm)
            /\ vm[Idx(Ev.vm)].st \in {"parked", "run"}
            /\ vm' = [vm EXCEPT ![Idx(Ev.vm)].st = "run"]
            /\ UNCHANGED <<shape, ctx, done, watcher, ret, bad, cur, ids, rejected>>
\* vm.stop(): only ever because the context was cancelled (loop-head test or done case)
TVMStop == /\ IsRT("vm-stop") /\ Known(Ev.vm)
           /\ ctx = "cancelled"
           /\ vm[Idx(Ev.vm)].st \in {"run", "parked"}
           /\ vm' = [vm EXCEPT ![Idx(Ev.vm)].st = "stopped"] /\ done' = TRUE
           /\ UNCHANGED <<shape, ctx, watcher, ret, bad, cur, ids, rejected>>
TWatcherFired == /\ IsRT("watcher-fired") /\ ctx = "cancelled"
                 /\ done' = TRUE /\ UNCHANGED <<shape, ctx, watcher, vm, ret, bad, cur, ids, rejected>>
TRunEnd == /\ IsRT("run-end") /\ Known(Ev.vm)
           /\ vm' = [vm EXCEPT ![Idx(Ev.vm)].st = IF @ = "stopped" THEN "stopped" ELSE "ended"]
           /\ UNCHANGED <<shape, ctx, done, watcher, ret, bad, cur, ids, rejected>>
Other == {"watcher-released", "go", "native-call", "args-get", "args-put", "setvar", "close"}
TOther == /\ l <= Len(Trace) /\ Ev.ev = "rt" /\ Ev.rt \in Other /\ l' = l + 1
          /\ UNCHANGED <<vars, bad, cur, ids, rejected>>
\* property-level judgement of what Run returned (C11):
ReturnOk(e) ==
  /\ e.kind \in {"own", "ctxerr"}                                    \* never a host panic, a hang, another error
  /\ e.kind = "ctxerr" => ctx = "cancelled"                           \* CtxErrOnlyIfCancelled
  /\ e.kind = "own" => (vm # <<>> /\ vm[1].st = "ended")              \* OwnOnlyIfFinished
  /\ (~cur.term) => e.kind = "ctxerr"                                 \* NonTerminatingReturnsCtxErr
  /\ (ctx = "cancelled" /\ e.delay >= 0) => e.delay <= e.bound         \* prompt
  /\ (cur.point = "never" \/ cur.point = "late") => e.kind = "own"    \* finished before any cancellation
TReturn == /\ IsEvent("return") /\ ReturnOk(Ev)
           /\ ret' = Ev.kind /\ UNCHANGED <<shape, ctx, done, watcher, vm, bad, cur, ids, rejected>>
TEnd == /\ IsEvent("end") /\ Ev.leaked = 0 /\ ret # "none"
        /\ UNCHANGED <<vars, bad, cur, ids, rejected>>
Explained == ENABLED TReset \/ ENABLED TCancel \/ ENABLED TRunStart \/ ENABLED TBlock \/ ENABLED TUnblock \/ ENABLED TVMStop
             \/ ENABLED TWatcherFired \/ ENABLED TRunEnd \/ ENABLED TOther \/ ENABLED TReturn \/ ENABLED TEnd
Skip == /\ l <= Len(Trace) /\ ~Explained /\ l' = l + 1
        /\ bad' = IF rejected \/ Len(bad) >= 300 THEN bad
                  ELSE Append(bad, [k |-> l, id |-> cur.t,
                                    sig |-> [fam |-> "cancel", name |-> cur.name, at |-> Ev.ev,
                                             what |-> IF Ev.ev = "return" THEN Ev.kind ELSE IF Ev.ev = "rt" THEN Ev.rt ELSE "leak"]])
        /\ rejected' = TRUE /\ UNCHANGED <<vars, cur, ids>>
TNext == TReset \/ TCancel \/ TRunStart \/ TBlock \/ TUnblock \/ TVMStop \/ TWatcherFired \/ TRunEnd \/ TOther \/ TReturn \/ TEnd \/ Skip
Done == l = Len(Trace) + 1 => ndJsonSerialize("bad.ndjson", bad)
Consumed == TLCGet("stats").diameter - 1 = Len(Trace)
TraceInv == DoneOnlyIfCancelled /\ CtxErrOnlyIfCancelled
=============================================================================

------------------------------- MODULE Types -------------------------------
(* C03.  REFERENCE typing judgment for a core of Go, written from the Go language specification
   (sections Types, Properties of types and values, Constants, Expressions, Statements, Terminating
   statements, Declarations and scope) - NOT from scriggo's checker.  Verdict(p) is "ok" when the program
   p (an AST record, see MC_Types for the generator and harness/cmd/c03 for the concrete syntax) is a
   valid Go program, otherwise the name of the violated rule; "undef" when the judgment does not decide
   (constant arithmetic outside the 31-bit window) - such records are skipped and counted.

   Types are tuples:  <<"int">> <<"int8">> <<"uint8">> <<"float64">> <<"string">> <<"bool">>
     <<"named","N",<<"int">>>>  <<"named","NS",<<"slice",<<"int">>>>>>  <<"ptr",T>> <<"slice",T>> <<"map",K,V>>
     <<"chan",T>> <<"func",<<P...>>,<<R...>>,variadic>> <<"iface","any">> <<"iface","error">> <<"array",n,T>>
     <<"untyped",kind>> (kind int float string bool nil)  <<"tuple",<<T...>>>>  <<"void">>
   Constant values: [k |-> "none"|"num"|"str"|"bool", n, d]  num = n/d (d = 0: magnitude beyond the window, sign n);
     str: n = length (all strings are "s" repeated, so the length is the value); bool: n = 0/1. *)
EXTENDS Integers, Sequences, FiniteSets

(* ------------------------------------------------------------------ constant values *)
NoCV == [k |-> "none", n |-> 0, d |-> 1]
Undef == [k |-> "undef", n |-> 0, d |-> 1]
Abs(x) == IF x < 0 THEN -x ELSE x
Sgn(x) == IF x < 0 THEN -1 ELSE IF x = 0 THEN 0 ELSE 1
RECURSIVE Gcd(_, _)
Gcd(a, b) == IF b = 0 THEN a ELSE Gcd(b, a % b)
Window == 1000000                    \* numerators/denominators stay below this; larger magnitudes become Huge
Huge(s) == [k |-> "num", n |-> s, d |-> 0]
\* normalised rational; anything whose numerator leaves the window becomes Huge
Mk(n, d) == IF n = 0 THEN [k |-> "num", n |-> 0, d |-> 1]
            ELSE LET g == Gcd(Abs(n), Abs(d)) s == Sgn(d) nn == (s * n) \div g dd == Abs(d) \div g IN
                 IF Abs(nn) >= Window THEN Huge(Sgn(nn)) ELSE [k |-> "num", n |-> nn, d |-> dd]
IntV(n) == Mk(n, 1)
Str(len) == [k |-> "str", n |-> len, d |-> 1]
Bool(b) == [k |-> "bool", n |-> IF b THEN 1 ELSE 0, d |-> 1]
IsHuge(c) == c.k = "num" /\ c.d = 0
IsIntVal(c) == c.k = "num" /\ c.d = 1
\* TLC integers are 32-bit: every product is guarded; an unguardable operation gives Undef (record skipped)
Fits(p, q) == p = 0 \/ Abs(q) <= 1000000000 \div Abs(p)
Fin(c) == c.k = "num" /\ c.d # 0

\* truncated (Go) integer division and remainder
TDiv(a, b) == Sgn(a) * Sgn(b) * (Abs(a) \div Abs(b))
TRem(a, b) == a - b * TDiv(a, b)

RECURSIVE BAnd(_, _), BOr(_, _)
BAnd(a, b) == IF a = 0 \/ b = 0 THEN 0 ELSE (a % 2) * (b % 2) + 2 * BAnd(a \div 2, b \div 2)
BOr(a, b) == IF a = 0 THEN b ELSE IF b = 0 THEN a
             ELSE ((a % 2) + (b % 2) - (a % 2) * (b % 2)) + 2 * BOr(a \div 2, b \div 2)
Not(x) == -x - 1
\* two's complement, unbounded precision (Go constants)
SAnd(a, b) == IF a >= 0 /\ b >= 0 THEN BAnd(a, b)
              ELSE IF a < 0 /\ b < 0 THEN Not(BOr(Not(a), Not(b)))
              ELSE IF a >= 0 THEN a - BAnd(a, Not(b)) ELSE b - BAnd(b, Not(a))
SOr(a, b) == Not(SAnd(Not(a), Not(b)))
SXor(a, b) == SOr(a, b) - SAnd(a, b)
SAndNot(a, b) == SAnd(a, Not(b))
RECURSIVE Pow2(_)
Pow2(c) == IF c = 0 THEN 1 ELSE 2 * Pow2(c - 1)
Floordiv(a, b) == a \div b          \* TLC: floor for b > 0
Shl(n, c) == IF n = 0 THEN IntV(0) ELSE IF c > 29 THEN Huge(Sgn(n)) ELSE IF Fits(n, Pow2(c)) THEN Mk(n * Pow2(c), 1) ELSE Huge(Sgn(n))
Shr(n, c) == IF c > 29 THEN IntV(IF n < 0 THEN -1 ELSE 0) ELSE IntV(Floordiv(n, Pow2(c)))

\* arithmetic on constant values; intdiv: "/" is integer division (both operands of integer kind/type)
Arith(op, a, b, intdiv) ==
  IF a.k = "str" /\ b.k = "str" /\ op = "+" THEN Str(a.n + b.n)
  ELSE IF a.k = "bool" /\ b.k = "bool" /\ op \in {"&&", "||"} THEN Bool(IF op = "&&" THEN a.n = 1 /\ b.n = 1 ELSE a.n = 1 \/ b.n = 1)
  ELSE IF a.k # "num" \/ b.k # "num" THEN Undef
  ELSE IF IsHuge(a) \/ IsHuge(b) THEN
        (IF op = "*" /\ ((a.n = 0 /\ a.d = 1) \/ (b.n = 0 /\ b.d = 1)) THEN IntV(0) ELSE Undef)
  ELSE LET addok == Fits(a.n, b.d) /\ Fits(b.n, a.d) /\ Fits(a.d, b.d)
           ints == a.d = 1 /\ b.d = 1 IN
       CASE op = "+" -> IF addok THEN Mk(a.n * b.d + b.n * a.d, a.d * b.d) ELSE Undef
         [] op = "-" -> IF addok THEN Mk(a.n * b.d - b.n * a.d, a.d * b.d) ELSE Undef
         [] op = "*" -> IF Fits(a.n, b.n) /\ Fits(a.d, b.d) THEN Mk(a.n * b.n, a.d * b.d) ELSE IF ints THEN Huge(Sgn(a.n) * Sgn(b.n)) ELSE Undef
         [] op = "/" -> IF b.n = 0 THEN Undef ELSE IF intdiv THEN (IF ints THEN IntV(TDiv(a.n, b.n)) ELSE Undef)
                        ELSE IF Fits(a.n, b.d) /\ Fits(a.d, b.n) THEN Mk(a.n * b.d, a.d * b.n) ELSE Undef
         [] op = "%" -> IF b.n = 0 \/ ~ints THEN Undef ELSE IntV(TRem(a.n, b.n))
         [] op = "&" -> IF ~ints THEN Undef ELSE IntV(SAnd(a.n, b.n))
         [] op = "|" -> IF ~ints THEN Undef ELSE IntV(SOr(a.n, b.n))
         [] op = "^" -> IF ~ints THEN Undef ELSE IntV(SXor(a.n, b.n))
         [] op = "&^" -> IF ~ints THEN Undef ELSE IntV(SAndNot(a.n, b.n))
         [] OTHER -> Undef
\* a ? b for constants (Huge only comparable with finite values)
CmpNum(a, b) == IF IsHuge(a) /\ IsHuge(b) THEN (IF a.n = b.n THEN 2 ELSE Sgn(a.n - b.n))      \* 2: unknown
                ELSE IF IsHuge(a) THEN a.n ELSE IF IsHuge(b) THEN -b.n
                ELSE IF ~Fits(a.n, b.d) \/ ~Fits(b.n, a.d) THEN 2 ELSE Sgn(a.n * b.d - b.n * a.d)
Compare(op, a, b) ==
  LET c == IF a.k = "num" /\ b.k = "num" THEN CmpNum(a, b)
           ELSE IF a.k = b.k THEN Sgn(a.n - b.n) ELSE 2 IN
  IF c = 2 THEN Undef
  ELSE Bool(CASE op = "==" -> c = 0 [] op = "!=" -> c # 0 [] op = "<" -> c < 0 [] op = "<=" -> c <= 0
              [] op = ">" -> c > 0 [] op = ">=" -> c >= 0)

(* ------------------------------------------------------------------ types *)
TInt == <<"int">>  TInt8 == <<"int8">>  TUint8 == <<"uint8">>  TFloat == <<"float64">>  TString == <<"string">>
TBool == <<"bool">>  TN == <<"named", "N", TInt>>  TPtr == <<"ptr", TInt>>  TSlice == <<"slice", TInt>>
TNS == <<"named", "NS", TSlice>>  TMap == <<"map", TString, TInt>>  TChan == <<"chan", TInt>>
TFunc == <<"func", <<TInt>>, <<TInt>>, FALSE>>  TAny == <<"iface", "any">>  TError == <<"iface", "error">>
TArr == <<"array", 3, TInt>>
U(kind) == <<"untyped", kind>>
TVoid == <<"void">>
TupleT(ts) == <<"tuple", ts>>

\* the type denoted by a type expression of the concrete syntax
TY(s) == CASE s = "int" -> TInt [] s = "int8" -> TInt8 [] s = "uint8" -> TUint8 [] s = "float64" -> TFloat
           [] s = "string" -> TString [] s = "bool" -> TBool [] s = "N" -> TN [] s = "NS" -> TNS [] s = "*int" -> TPtr
           [] s = "[]int" -> TSlice [] s = "map[string]int" -> TMap [] s = "chan int" -> TChan
           [] s = "func(int) int" -> TFunc [] s = "any" -> TAny [] s = "interface{}" -> TAny [] s = "error" -> TError
           [] s = "[3]int" -> TArr [] s = "*[3]int" -> <<"ptr", TArr>>
TYs(ss) == [j \in 1..Len(ss) |-> TY(ss[j])]

IsUntyped(t) == t[1] = "untyped"
Under(t) == IF t[1] = "named" THEN t[3] ELSE t
IntKinds == {"int", "int8", "uint8"}
BasicKinds == IntKinds \cup {"float64", "string", "bool"}
IsInteger(t) == Under(t)[1] \in IntKinds \/ t = U("int")
IsFloat(t) == Under(t)[1] = "float64" \/ t = U("float")
IsNumeric(t) == IsInteger(t) \/ IsFloat(t)
IsString(t) == Under(t)[1] = "string" \/ t = U("string")
IsBoolean(t) == Under(t)[1] = "bool" \/ t = U("bool")
IsNil(t) == t = U("nil")
IsIface(t) == Under(t)[1] = "iface"
IsPointer(t) == Under(t)[1] = "ptr"
IsValueT(t) == t[1] \notin {"tuple", "void"}
HasNil(t) == Under(t)[1] \in {"ptr", "slice", "map", "func", "chan", "iface"}
Comparable(t) == Under(t)[1] \notin {"slice", "map", "func", "tuple", "void"} /\ ~IsNil(t)
Ordered(t) == IsNumeric(t) \/ IsString(t)
\* "named type" in the sense of the assignability rule: predeclared and defined types
IsNamedT(t) == t[1] \in BasicKinds \cup {"named"} \/ t = TError
Implements(v, t) == t = TAny \/ (t = TError /\ v = TError)
Default(t) == IF ~IsUntyped(t) THEN t
              ELSE CASE t[2] = "int" -> TInt [] t[2] = "float" -> TFloat [] t[2] = "string" -> TString
                     [] t[2] = "bool" -> TBool [] t[2] = "nil" -> t
InRange(n, kind) == CASE kind = "int" -> TRUE [] kind = "int8" -> n >= -128 /\ n <= 127 [] kind = "uint8" -> n >= 0 /\ n <= 255
\* "x is representable by a value of type T" (Go spec, Representability); t is a typed basic-underlying type
Representable(c, t) ==
  LET u == Under(t)[1] IN
  IF u \in IntKinds THEN IsIntVal(c) /\ InRange(c.n, u)
  ELSE IF u = "float64" THEN c.k = "num"
  ELSE IF u = "string" THEN c.k = "str"
  ELSE IF u = "bool" THEN c.k = "bool" ELSE FALSE

(* ------------------------------------------------------------------ operands (results of typing an expression) *)
\* sh: the operand contains the untyped constant left operand of a non-constant shift whose type is decided
\*     by the context ("the type the constant would have if the shift were replaced by its left operand alone")
\* cok: may be used in a comma-ok (two-value) context: map index, receive, type assertion
\* shv: the value of that pending constant (it must be representable in the type the context finally gives it)
R(t, cv) == [t |-> t, cv |-> cv, addr |-> FALSE, mapidx |-> FALSE, sh |-> FALSE, shv |-> NoCV, cok |-> FALSE, err |-> ""]
ErrR(msg) == [t |-> TVoid, cv |-> NoCV, addr |-> FALSE, mapidx |-> FALSE, sh |-> FALSE, shv |-> NoCV, cok |-> FALSE, err |-> msg]
IsConst(x) == x.cv.k \notin {"none"}

\* an untyped operand takes its default type
DefaultErr(x) ==
  IF IsNil(x.t) THEN "use of untyped nil"
  ELSE IF IsConst(x) THEN (IF x.cv.k = "undef" THEN "undef" ELSE IF Representable(x.cv, Default(x.t)) THEN "" ELSE "constant overflows default type")
  ELSE IF x.sh /\ x.t # U("int") THEN "shifted operand must be integer"
  ELSE IF x.sh /\ ~Representable(x.shv, TInt) THEN "shifted constant overflows int" ELSE ""

\* implicit conversion of an untyped operand to the typed type T ("" = allowed)
ConvU(x, T) ==
  LET u == Under(T) IN
  IF u[1] \in BasicKinds THEN
       IF IsNil(x.t) THEN "cannot use nil as basic type"
       ELSE IF IsConst(x) THEN (IF x.cv.k = "undef" THEN "undef" ELSE IF Representable(x.cv, T) THEN "" ELSE "constant not representable")
       ELSE IF x.t = U("bool") THEN (IF u[1] = "bool" THEN "" ELSE "untyped bool to non-bool")
       ELSE IF x.t = U("string") THEN (IF u[1] = "string" THEN "" ELSE "untyped string to non-string")
       ELSE IF ~IsNumeric(T) THEN "untyped number to non-numeric"
       ELSE IF x.sh /\ ~IsInteger(T) THEN "shifted operand must be integer"
       ELSE IF x.sh /\ ~Representable(x.shv, T) THEN "shifted constant not representable" ELSE ""
  ELSE IF u[1] = "iface" THEN
       IF IsNil(x.t) THEN "" ELSE IF T # TAny THEN "untyped value to non-empty interface" ELSE DefaultErr(x)
  ELSE IF IsNil(x.t) THEN (IF HasNil(T) THEN "" ELSE "cannot use nil as array") ELSE "untyped value to composite type"

\* "a value x of type V is assignable to T" (Go spec, Assignability) ("" = assignable)
Assignable(x, T) ==
  IF x.err # "" THEN x.err
  ELSE IF x.t[1] = "tuple" THEN "multiple-value in single-value context"
  ELSE IF x.t[1] = "void" THEN "no value used as value"
  ELSE IF IsUntyped(x.t) THEN ConvU(x, T)
  ELSE IF x.t = T THEN ""
  ELSE IF Under(x.t) = Under(T) /\ ~IsIface(T) /\ (~IsNamedT(x.t) \/ ~IsNamedT(T)) THEN ""
  ELSE IF IsIface(T) /\ Implements(x.t, T) THEN ""
  ELSE "not assignable"

\* the operand after it has been given type T (or its default type when T is an interface)
Typed(x, T) == IF ~IsUntyped(x.t) \/ IsNil(x.t) THEN x ELSE [x EXCEPT !.t = IF IsIface(T) THEN Default(x.t) ELSE T, !.sh = FALSE]

(* ------------------------------------------------------------------ operators *)
ArithOps == {"+", "-", "*", "/", "%", "&", "|", "^", "&^"}
CmpOps == {"==", "!=", "<", "<=", ">", ">="}
LogicOps == {"&&", "||"}
ShiftOps == {"<<", ">>"}
MaxKind(a, b) == IF a = "float" \/ b = "float" THEN "float" ELSE "int"

\* may an implicit conversion be attempted between the operands (one of which is untyped)?
MayConvert(x, y) ==
  IF ~IsUntyped(x.t) /\ ~IsUntyped(y.t) THEN FALSE
  ELSE IF (IsIface(x.t) /\ ~IsUntyped(x.t)) \/ (IsIface(y.t) /\ ~IsUntyped(y.t)) THEN TRUE
  ELSE IF IsBoolean(x.t) # IsBoolean(y.t) THEN FALSE
  ELSE IF IsString(x.t) # IsString(y.t) THEN FALSE
  ELSE IF IsNil(x.t) THEN HasNil(y.t)
  ELSE IF IsNil(y.t) THEN HasNil(x.t)
  ELSE IF IsPointer(x.t) \/ IsPointer(y.t) THEN FALSE
  ELSE TRUE

\* operands after matching: <<x', y', err>>
Match(x, y) ==
  IF ~MayConvert(x, y) THEN <<x, y, "">>
  ELSE IF IsUntyped(x.t) /\ IsUntyped(y.t) THEN
       IF x.t = y.t THEN <<x, y, "">>
       ELSE IF IsNumeric(x.t) /\ IsNumeric(y.t) THEN
            LET k == U(MaxKind(x.t[2], y.t[2])) IN <<[x EXCEPT !.t = k], [y EXCEPT !.t = k], "">>
       ELSE <<x, y, "mismatched types">>
  ELSE IF IsUntyped(x.t) THEN LET e == ConvU(x, y.t) IN <<Typed(x, y.t), y, IF e = "" THEN "" ELSE IF e = "undef" THEN e ELSE "mismatched types: " \o e>>
  ELSE LET e == ConvU(y, x.t) IN <<x, Typed(y, x.t), IF e = "" THEN "" ELSE IF e = "undef" THEN e ELSE "mismatched types: " \o e>>

OpDefined(op, t) ==
  CASE op = "+" -> IsNumeric(t) \/ IsString(t)
    [] op \in {"-", "*", "/"} -> IsNumeric(t)
    [] op \in {"%", "&", "|", "^", "&^"} -> IsInteger(t)
    [] op \in LogicOps -> IsBoolean(t)

ComparisonR(op, x, y) ==
  IF Assignable(x, y.t) # "" /\ Assignable(y, x.t) # "" /\ ~(IsUntyped(x.t) /\ x.t = y.t)
    THEN ErrR("mismatched types in comparison")
  ELSE IF op \in {"==", "!="} /\ IsNil(x.t) /\ IsNil(y.t) THEN ErrR("operator not defined on nil")
  ELSE IF op \in {"==", "!="} /\ (IsNil(x.t) \/ IsNil(y.t)) THEN
       (IF HasNil(IF IsNil(x.t) THEN y.t ELSE x.t) THEN R(U("bool"), NoCV) ELSE ErrR("cannot compare to nil"))
  ELSE IF op \in {"==", "!="} /\ (~Comparable(x.t) \/ ~Comparable(y.t)) THEN ErrR("operand cannot be compared")
  ELSE IF op \notin {"==", "!="} /\ (~Ordered(x.t) \/ ~Ordered(y.t)) THEN ErrR("operand is not ordered")
  ELSE IF IsConst(x) /\ IsConst(y) THEN
       (LET c == Compare(op, x.cv, y.cv) IN IF c.k = "undef" THEN ErrR("undef") ELSE R(U("bool"), c))
  \* remaining untyped operands (both untyped, at least one not constant) take their default type
  ELSE IF IsUntyped(x.t) /\ (DefaultErr(x) # "" \/ DefaultErr(y) # "") THEN ErrR(IF DefaultErr(x) # "" THEN DefaultErr(x) ELSE DefaultErr(y))
  ELSE R(U("bool"), NoCV)

ShiftR(op, x, y) ==
  \* right operand: integer type, or untyped constant representable by a value of type uint
  LET yerr == IF IsConst(y) /\ y.cv.k = "num" /\ y.cv.n < 0 /\ (IsUntyped(y.t) \/ IsInteger(y.t)) THEN "negative shift count"
              ELSE IF IsUntyped(y.t) THEN
                   (IF IsConst(y) THEN (IF y.cv.k = "num" /\ (IsHuge(y.cv) \/ y.cv.d = 1) /\ y.cv.n >= 0 THEN
                                             (IF IsHuge(y.cv) THEN "undef" ELSE "") ELSE "shift count not representable as uint")
                    ELSE IF IsNumeric(y.t) THEN "" ELSE "shift count must be integer")
              ELSE IF IsInteger(y.t) THEN ""
              \* a typed constant of non-integer type: the Go spec rejects it, go/types (1.25) does not check it - not decided here
              ELSE IF IsConst(y) THEN "undef" ELSE "shift count must be integer"
      xint == IsInteger(x.t) /\ ~IsUntyped(x.t)
      xuc == IsUntyped(x.t) /\ IsConst(x) /\ IsIntVal(x.cv)      \* untyped constant representable as an integer
      xhuge == IsUntyped(x.t) /\ IsConst(x) /\ IsHuge(x.cv)
  IN
  IF xhuge THEN ErrR("undef")
  ELSE IF ~(xint \/ xuc \/ (IsUntyped(x.t) /\ ~IsConst(x) /\ x.t = U("int"))) THEN ErrR("shifted operand must be integer")
  ELSE IF yerr # "" THEN ErrR(yerr)
  ELSE IF IsConst(x) /\ IsConst(y) THEN
       LET v == IF y.cv.n > 1000 THEN Undef ELSE IF op = "<<" THEN Shl(x.cv.n, y.cv.n) ELSE Shr(x.cv.n, y.cv.n) IN
       IF v.k = "undef" THEN ErrR("undef")
       ELSE IF IsUntyped(x.t) THEN R(U("int"), v)
       ELSE IF Representable(v, x.t) THEN R(x.t, v) ELSE ErrR("constant shift overflows")
  ELSE IF IsUntyped(x.t) THEN (IF IsConst(x) THEN [R(x.t, NoCV) EXCEPT !.sh = TRUE, !.shv = x.cv]       \* type decided by the context
                               ELSE [R(x.t, NoCV) EXCEPT !.sh = x.sh, !.shv = x.shv])
  ELSE R(x.t, NoCV)

BinaryR(op, x0, y0) ==
  IF x0.err # "" THEN x0 ELSE IF y0.err # "" THEN y0
  ELSE IF ~IsValueT(x0.t) \/ ~IsValueT(y0.t) THEN ErrR("multiple-value or no value in single-value context")
  ELSE IF op \in ShiftOps THEN ShiftR(op, x0, y0)
  ELSE LET m == Match(x0, y0) x == m[1] y == m[2] IN
       IF m[3] # "" THEN ErrR(m[3])
       ELSE IF op \in CmpOps THEN ComparisonR(op, x, y)
       ELSE IF x.t # y.t THEN ErrR("mismatched types")
       ELSE IF ~OpDefined(op, x.t) THEN ErrR("operator not defined on type")
       ELSE IF op \in {"/", "%"} /\ (IsConst(x) \/ IsInteger(x.t)) /\ IsConst(y) /\ y.cv.k = "num" /\ y.cv.n = 0 /\ y.cv.d = 1
            THEN ErrR("division by zero")
       ELSE IF IsConst(x) /\ IsConst(y) THEN
            LET v == Arith(op, x.cv, y.cv, IsInteger(x.t)) IN
            IF v.k = "undef" THEN ErrR("undef")
            ELSE IF IsUntyped(x.t) THEN R(x.t, v)
            ELSE IF Representable(v, x.t) THEN R(x.t, v) ELSE ErrR("constant overflows type")
       ELSE IF IsUntyped(x.t) /\ x.sh /\ y.sh THEN ErrR("undef")          \* two pending shift constants: not modelled
       ELSE [R(x.t, NoCV) EXCEPT !.sh = IsUntyped(x.t) /\ (x.sh \/ y.sh), !.shv = IF x.sh THEN x.shv ELSE y.shv]

UnaryR(op, x) ==
  IF x.err # "" THEN x
  ELSE IF ~IsValueT(x.t) THEN ErrR("multiple-value or no value in single-value context")
  ELSE CASE op = "&" -> IF x.addr THEN R(<<"ptr", x.t>>, NoCV) ELSE ErrR("cannot take address")
         [] op = "*" -> IF IsNil(x.t) THEN ErrR("cannot indirect nil")
                        ELSE IF IsPointer(x.t) THEN [R(Under(x.t)[2], NoCV) EXCEPT !.addr = TRUE] ELSE ErrR("cannot indirect non-pointer")
         [] op = "<-" -> IF Under(x.t)[1] = "chan" THEN [R(Under(x.t)[2], NoCV) EXCEPT !.cok = TRUE] ELSE ErrR("cannot receive from non-channel")
         [] op = "!" -> IF ~IsBoolean(x.t) THEN ErrR("operator ! not defined")
                        ELSE IF IsConst(x) THEN R(x.t, Bool(x.cv.n = 0)) ELSE R(x.t, NoCV)
         [] op \in {"+", "-", "^"} ->
              IF (op = "^" /\ ~IsInteger(x.t)) \/ ~IsNumeric(x.t) THEN ErrR("unary operator not defined")
              ELSE IF ~IsConst(x) THEN [R(x.t, NoCV) EXCEPT !.sh = x.sh, !.shv = x.shv]
              ELSE IF x.cv.k = "undef" THEN ErrR("undef")
              ELSE LET v == IF op = "+" THEN x.cv
                            ELSE IF op = "-" THEN (IF IsHuge(x.cv) THEN Huge(-x.cv.n) ELSE Mk(-x.cv.n, x.cv.d))
                            ELSE IF IsHuge(x.cv) THEN Undef
                            ELSE IF Under(x.t)[1] = "uint8" THEN IntV(255 - x.cv.n) ELSE IntV(Not(x.cv.n)) IN
                   IF v.k = "undef" THEN ErrR("undef")
                   ELSE IF IsUntyped(x.t) THEN R(x.t, v)
                   ELSE IF Representable(v, x.t) THEN R(x.t, v) ELSE ErrR("constant overflows type")

\* an index or slice bound (Go spec, Index expressions: "must be of integer type or an untyped constant ...
\* representable by a value of type int, constant index must be non-negative")
IndexErr(i) ==
  IF i.err # "" THEN i.err
  ELSE IF ~IsValueT(i.t) THEN "multiple-value or no value as index"
  ELSE IF IsUntyped(i.t) /\ ConvU(i, TInt) # "" THEN ConvU(i, TInt)
  ELSE IF ~IsUntyped(i.t) /\ ~IsInteger(i.t) THEN "index must be integer"
  ELSE IF IsConst(i) /\ i.cv.k = "num" /\ i.cv.n < 0 THEN "index must not be negative" ELSE ""

\* the array type indexed or sliced through t (an array or a pointer to an array), <<>> when there is none
ArrOf(t) == LET u == Under(t) IN
            IF u[1] = "array" THEN u ELSE IF u[1] = "ptr" /\ Under(u[2])[1] = "array" THEN Under(u[2]) ELSE <<>>
\* "a constant index must be in range" for arrays and pointers to arrays: 0 <= i < len for an index, 0 <= i <= len for a slice bound
ConstIdxOut(i, len, isbound) == IsConst(i) /\ i.cv.k = "num" /\ (IsHuge(i.cv) \/ (IF isbound THEN i.cv.n > len ELSE i.cv.n >= len))

\* T(x)  (Go spec, Conversions)
ConvR(T, x) ==
  IF x.err # "" THEN x
  ELSE IF ~IsValueT(x.t) THEN ErrR("multiple-value or no value in conversion")
  ELSE IF IsConst(x) /\ Under(T)[1] \in BasicKinds THEN
       IF x.cv.k = "undef" THEN ErrR("undef")
       ELSE IF Representable(x.cv, T) THEN R(T, x.cv)
       ELSE IF IsInteger(x.t) /\ IsString(T) THEN R(T, Undef)           \* string(65): a constant string of unknown length
       ELSE ErrR("cannot convert constant")
  ELSE IF Assignable(x, T) = "" THEN R(T, NoCV)
  ELSE IF Assignable(x, T) = "undef" THEN ErrR("undef")
  ELSE IF IsUntyped(x.t) THEN
       \* non-constant untyped operands (comparison results, context-typed shifts)
       (IF ~IsConst(x) /\ x.t = U("int") /\ IsString(T) /\ ~x.sh THEN R(T, NoCV) ELSE ErrR("cannot convert untyped value"))
  ELSE IF Under(x.t) = Under(T) THEN R(T, NoCV)
  ELSE IF IsNumeric(x.t) /\ IsNumeric(T) THEN R(T, NoCV)
  ELSE IF IsInteger(x.t) /\ IsString(T) THEN R(T, NoCV)
  ELSE ErrR("cannot convert")

(* ------------------------------------------------------------------ environment *)
\* env: [vars: sequence of [name, t, kind ("var" "const" "func" "pkg"), used, depth, cv], depth, res (result types of the
\*       enclosing function), err]
Entry(name, t, kind, used, depth, cv) == [name |-> name, t |-> t, kind |-> kind, used |-> used, depth |-> depth, cv |-> cv]
RECURSIVE FindLast(_, _, _), MarkAll(_, _)
FindLast(vars, name, j) == IF j = 0 THEN 0 ELSE IF vars[j].name = name THEN j ELSE FindLast(vars, name, j - 1)
\* index of the innermost declaration of name (0: none)
LookupIdx(env, name) == FindLast(env.vars, name, Len(env.vars))
\* every name of the set resolves to its innermost declaration, which becomes "used"
MarkAll(env, names) ==
  IF names = {} THEN env
  ELSE LET x == CHOOSE x \in names : TRUE
           j == LookupIdx(env, x) IN
       MarkAll(IF j = 0 \/ env.vars[j].used THEN env ELSE [env EXCEPT !.vars[j].used = TRUE], names \ {x})
MarkUsed(env, names) == MarkAll(env, names)
Fail(env, msg) == IF env.err # "" THEN env ELSE [env EXCEPT !.err = msg]
Push(env) == [env EXCEPT !.depth = @ + 1]
\* leaving a block: "implementation restriction: a compiler may make it illegal to declare a variable inside a
\* function body if the variable is never used" (gc and go/types do)
Pop(env) ==
  IF env.err # "" THEN env
  ELSE LET here == {j \in 1..Len(env.vars) : env.vars[j].depth = env.depth}
           keep == SelectSeq(env.vars, LAMBDA v : v.depth < env.depth) IN
       IF \E j \in here : env.vars[j].kind = "var" /\ ~env.vars[j].used THEN Fail(env, "declared and not used")
       ELSE [env EXCEPT !.vars = keep, !.depth = @ - 1]
DeclaredHere(env, name) == \E j \in 1..Len(env.vars) : env.vars[j].name = name /\ env.vars[j].depth = env.depth
Declare(env, name, t, kind, cv) ==
  IF env.err # "" \/ name = "_" THEN env
  ELSE IF DeclaredHere(env, name) THEN Fail(env, "redeclared in this block")
  ELSE [env EXCEPT !.vars = Append(@, Entry(name, t, kind, FALSE, env.depth, cv))]

RetT(rs) == IF Len(rs) = 0 THEN TVoid ELSE IF Len(rs) = 1 THEN rs[1] ELSE TupleT(rs)

(* ------------------------------------------------------------------ expressions *)
\* argument passing (Go spec, Calls / Passing arguments to ... parameters); xs: operands
ArgsErr(xs0, ps, variadic, spread) ==
  LET xs == IF Len(xs0) = 1 /\ xs0[1].err = "" /\ xs0[1].t[1] = "tuple" /\ ~spread
            THEN [j \in 1..Len(xs0[1].t[2]) |-> R(xs0[1].t[2][j], NoCV)] ELSE xs0
      n == Len(xs) np == Len(ps)
      firstErr(es) == IF \E j \in 1..Len(es) : es[j] # "" THEN es[CHOOSE j \in 1..Len(es) : es[j] # "" /\ \A i \in 1..(j - 1) : es[i] = ""] ELSE ""
  IN
  IF \E j \in 1..Len(xs0) : xs0[j].err # "" THEN firstErr([j \in 1..Len(xs0) |-> xs0[j].err])
  ELSE IF spread /\ ~variadic THEN "cannot use ... in call to non-variadic function"
  ELSE IF spread THEN
       (IF Len(xs0) # np THEN "wrong argument count with ..." ELSE firstErr([j \in 1..n |-> Assignable(xs[j], ps[j])]))
  ELSE IF ~variadic THEN
       (IF n # np THEN "wrong argument count" ELSE firstErr([j \in 1..n |-> Assignable(xs[j], ps[j])]))
  ELSE IF n < np - 1 THEN "not enough arguments"
  ELSE firstErr([j \in 1..n |-> Assignable(xs[j], IF j < np THEN ps[j] ELSE ps[np][2])])

RECURSIVE TypeOf(_, _), IdentsOf(_)
TypeSeq(es, env) == [j \in 1..Len(es) |-> TypeOf(es[j], env)]
IdentsOfSeq(es) == UNION {IdentsOf(es[j]) : j \in 1..Len(es)}

IdentsOf(e) ==
  CASE e.k = "id" -> {e.name}
    [] e.k = "lit" -> {}
    [] e.k = "un" -> IdentsOf(e.x)
    [] e.k = "bin" -> IdentsOf(e.x) \cup IdentsOf(e.y)
    [] e.k = "call" -> IdentsOf(e.f) \cup IdentsOfSeq(e.args)
    [] e.k = "conv" -> IdentsOf(e.x)
    [] e.k = "index" -> IdentsOf(e.x) \cup IdentsOf(e.i)
    [] e.k = "slice" -> IdentsOf(e.x) \cup IdentsOf(e.lo)
    [] e.k = "builtin" -> IdentsOfSeq(e.args)
    [] e.k = "sel" -> {e.pkg}
    [] e.k = "assert" -> IdentsOf(e.x)
    [] e.k = "slicelit" -> IdentsOfSeq(e.args)
    [] e.k = "maplit" -> IdentsOf(e.key) \cup IdentsOf(e.val)
    [] e.k = "flcall" -> (IdentsOf(e.ret) \ {e.param}) \cup IdentsOf(e.arg)      \* the parameter hides an outer name in the body only

BuiltinR(name, xs) ==
  LET n == Len(xs)
      bad == \E j \in 1..n : xs[j].err # ""
      x == xs[1] IN
  IF bad THEN xs[CHOOSE j \in 1..n : xs[j].err # ""]
  ELSE IF \E j \in 1..n : ~IsValueT(xs[j].t) THEN ErrR("multiple-value or no value as builtin argument")
  ELSE CASE name \in {"len", "cap"} ->
              IF n # 1 THEN ErrR("wrong argument count for builtin")
              ELSE LET u == Under(x.t)[1] IN
                   IF name = "len" /\ IsString(x.t) THEN (IF IsConst(x) /\ x.cv.k = "str" THEN R(TInt, IntV(x.cv.n)) ELSE R(TInt, NoCV))
                   ELSE IF u \in {"slice", "chan"} \/ (name = "len" /\ u = "map") THEN R(TInt, NoCV)
                   \* "len(s) and cap(s) are constants if the type of s is an array or pointer to an array and the expression s does
                   \* not contain channel receives or (non-constant) function calls": no call or receive of the core yields an array
                   ELSE IF ArrOf(x.t) # <<>> THEN R(TInt, IntV(ArrOf(x.t)[2]))
                   ELSE ErrR("invalid argument for len/cap")
         [] name = "append" ->
              IF n < 1 THEN ErrR("not enough arguments for append")
              ELSE IF Under(x.t)[1] # "slice" THEN ErrR("first argument to append must be a slice")
              ELSE IF \E j \in 2..n : Assignable(xs[j], Under(x.t)[2]) # "" THEN ErrR(Assignable(xs[CHOOSE j \in 2..n : Assignable(xs[j], Under(x.t)[2]) # ""], Under(x.t)[2]))
              ELSE R(x.t, NoCV)
         [] name = "make" ->     \* make([]int, n)
              IF n # 1 THEN ErrR("wrong argument count for make")
              ELSE IF IndexErr(x) # "" THEN ErrR(IndexErr(x)) ELSE R(TSlice, NoCV)
         [] name = "panic" ->
              IF n # 1 THEN ErrR("wrong argument count for panic")
              ELSE IF Assignable(x, TAny) # "" THEN ErrR(Assignable(x, TAny)) ELSE R(TVoid, NoCV)
         [] name = "delete" ->
              IF n # 2 THEN ErrR("wrong argument count for delete")
              ELSE IF Under(x.t)[1] # "map" THEN ErrR("first argument to delete must be a map")
              ELSE IF Assignable(xs[2], Under(x.t)[2]) # "" THEN ErrR(Assignable(xs[2], Under(x.t)[2])) ELSE R(TVoid, NoCV)

TypeOf(e, env) ==
  CASE e.k = "lit" -> R(U(e.lk), IF e.lk = "string" THEN Str(e.n) ELSE Mk(e.n, e.d))
    [] e.k = "id" ->
         LET j == LookupIdx(env, e.name) IN
         IF e.name = "_" THEN ErrR("cannot use _ as value")
         ELSE IF j # 0 THEN
              (LET v == env.vars[j] IN
               IF v.kind = "pkg" THEN ErrR("use of package without selector")
               ELSE IF v.kind = "type" THEN ErrR("type is not an expression")
               ELSE [R(v.t, v.cv) EXCEPT !.addr = v.kind = "var"])
         ELSE IF e.name = "true" THEN R(U("bool"), Bool(TRUE))
         ELSE IF e.name = "false" THEN R(U("bool"), Bool(FALSE))
         ELSE IF e.name = "nil" THEN R(U("nil"), NoCV)
         ELSE ErrR("undefined")
    [] e.k = "un" ->
         LET x == TypeOf(e.x, env) IN
         \* "As an exception to the addressability requirement, x may also be a (possibly parenthesized) composite literal"
         IF e.op = "&" /\ e.x.k \in {"slicelit", "maplit"} /\ x.err = "" THEN R(<<"ptr", x.t>>, NoCV) ELSE UnaryR(e.op, x)
    [] e.k = "bin" -> BinaryR(e.op, TypeOf(e.x, env), TypeOf(e.y, env))
    [] e.k = "conv" -> ConvR(TY(e.t), TypeOf(e.x, env))
    [] e.k = "call" ->
         LET f == TypeOf(e.f, env) xs == TypeSeq(e.args, env) IN
         IF f.err # "" THEN f
         ELSE IF Under(f.t)[1] # "func" THEN ErrR("cannot call non-function")
         ELSE LET ft == Under(f.t) a == ArgsErr(xs, ft[2], ft[4], e.spread) IN
              IF a # "" THEN ErrR(a) ELSE R(RetT(ft[3]), NoCV)
    [] e.k = "builtin" -> BuiltinR(e.name, TypeSeq(e.args, env))
    [] e.k = "index" ->
         LET x == TypeOf(e.x, env) i == TypeOf(e.i, env) u == Under(x.t) IN
         IF x.err # "" THEN x ELSE IF i.err # "" THEN i
         ELSE IF IsString(x.t) THEN
              (IF IndexErr(i) # "" THEN ErrR(IndexErr(i))
               ELSE IF IsConst(x) /\ x.cv.k = "undef" /\ IsConst(i) THEN ErrR("undef")
               ELSE IF IsConst(x) /\ IsConst(i) /\ (IsHuge(i.cv) \/ i.cv.n >= x.cv.n) THEN ErrR("constant index out of range")
               ELSE R(TUint8, NoCV))
         ELSE IF u[1] = "slice" THEN (IF IndexErr(i) # "" THEN ErrR(IndexErr(i)) ELSE [R(u[2], NoCV) EXCEPT !.addr = TRUE])
         ELSE IF u[1] = "map" THEN
              (IF Assignable(i, u[2]) # "" THEN ErrR(Assignable(i, u[2])) ELSE [R(u[3], NoCV) EXCEPT !.mapidx = TRUE, !.cok = TRUE])
         ELSE IF ArrOf(x.t) # <<>> THEN
              (LET a == ArrOf(x.t) IN
               IF IndexErr(i) # "" THEN ErrR(IndexErr(i))
               ELSE IF ConstIdxOut(i, a[2], FALSE) THEN ErrR("constant index out of range")
               ELSE [R(a[3], NoCV) EXCEPT !.addr = x.addr \/ u[1] = "ptr"])
         ELSE ErrR("cannot index")
    [] e.k = "slice" ->
         LET x == TypeOf(e.x, env) i == TypeOf(e.lo, env) u == Under(x.t) IN
         IF x.err # "" THEN x ELSE IF i.err # "" THEN i
         ELSE IF IsString(x.t) THEN
              (IF IndexErr(i) # "" THEN ErrR(IndexErr(i))
               ELSE IF IsConst(x) /\ x.cv.k = "undef" /\ IsConst(i) THEN ErrR("undef")
               ELSE IF IsConst(x) /\ IsConst(i) /\ (IsHuge(i.cv) \/ i.cv.n > x.cv.n) THEN ErrR("constant slice bound out of range")
               ELSE R(IF IsUntyped(x.t) THEN TString ELSE x.t, NoCV))
         ELSE IF u[1] = "slice" THEN (IF IndexErr(i) # "" THEN ErrR(IndexErr(i)) ELSE R(x.t, NoCV))
         ELSE IF ArrOf(x.t) # <<>> THEN
              (LET a == ArrOf(x.t) IN
               IF u[1] = "array" /\ ~x.addr THEN ErrR("cannot slice unaddressable array")
               ELSE IF IndexErr(i) # "" THEN ErrR(IndexErr(i))
               ELSE IF ConstIdxOut(i, a[2], TRUE) THEN ErrR("constant slice bound out of range")
               ELSE R(<<"slice", a[3]>>, NoCV))
         ELSE ErrR("cannot slice")
    [] e.k = "sel" ->
         LET j == LookupIdx(env, e.pkg) IN
         IF j = 0 \/ env.vars[j].kind # "pkg" THEN ErrR("undefined package")
         ELSE IF e.name = "F" THEN R(TFunc, NoCV) ELSE ErrR("undefined: not exported by package")
    [] e.k = "assert" ->
         LET x == TypeOf(e.x, env) T == TY(e.t) IN
         IF x.err # "" THEN x
         ELSE IF IsUntyped(x.t) \/ ~IsIface(x.t) THEN ErrR("type assertion on non-interface")
         ELSE IF ~IsIface(T) /\ ~Implements(T, x.t) THEN ErrR("impossible type assertion")
         ELSE [R(T, NoCV) EXCEPT !.cok = TRUE]
    [] e.k = "slicelit" ->     \* []int{a, b}
         LET xs == TypeSeq(e.args, env) bad == {j \in 1..Len(xs) : Assignable(xs[j], TInt) # ""} IN
         IF bad # {} THEN ErrR(Assignable(xs[CHOOSE j \in bad : TRUE], TInt)) ELSE R(TSlice, NoCV)
    [] e.k = "maplit" ->       \* map[string]int{key: val}
         LET a == Assignable(TypeOf(e.key, env), TString) b == Assignable(TypeOf(e.val, env), TInt) IN
         IF a # "" THEN ErrR(a) ELSE IF b # "" THEN ErrR(b) ELSE R(TMap, NoCV)
    [] e.k = "flcall" ->       \* func(param int) int { return ret }(arg): the parameter is in scope in the body only
         LET a == Assignable(TypeOf(e.arg, env), TInt)
             inner == IF e.param = "_" THEN env ELSE [env EXCEPT !.vars = Append(@, Entry(e.param, TInt, "var", TRUE, env.depth + 1, NoCV))]
             r == Assignable(TypeOf(e.ret, inner), TInt) IN
         IF r # "" THEN ErrR(r) ELSE IF a # "" THEN ErrR(a) ELSE R(TInt, NoCV)

(* ------------------------------------------------------------------ statements *)
FirstErr(es) == IF \E j \in 1..Len(es) : es[j] # "" THEN es[CHOOSE j \in 1..Len(es) : es[j] # "" /\ \A i \in 1..(j - 1) : es[i] = ""] ELSE ""

\* the n operands on the right of an assignment / declaration / return with n targets: [ops, err]
Rhs(es, n, env, allowcok) ==
  IF Len(es) = n THEN
       LET xs == TypeSeq(es, env) IN
       [ops |-> xs, err |-> FirstErr([j \in 1..n |-> IF xs[j].err # "" THEN xs[j].err
                                                        ELSE IF xs[j].t[1] = "tuple" THEN "multiple-value in single-value context"
                                                        ELSE IF xs[j].t[1] = "void" THEN "no value used as value" ELSE ""])]
  ELSE IF Len(es) = 1 /\ n > 1 THEN
       LET x == TypeOf(es[1], env) IN
       IF x.err # "" THEN [ops |-> <<>>, err |-> x.err]
       ELSE IF x.t[1] = "tuple" /\ Len(x.t[2]) = n THEN [ops |-> [j \in 1..n |-> R(x.t[2][j], NoCV)], err |-> ""]
       ELSE IF allowcok /\ x.cok /\ n = 2 THEN [ops |-> <<[x EXCEPT !.cok = FALSE], R(U("bool"), NoCV)>>, err |-> ""]
       ELSE [ops |-> <<>>, err |-> "assignment mismatch"]
  ELSE [ops |-> <<>>, err |-> "assignment mismatch"]

RECURSIVE DeclareAll(_, _, _, _, _)
DeclareAll(env, names, ts, used, j) ==
  IF j > Len(names) \/ env.err # "" THEN env
  ELSE LET e1 == Declare(env, names[j], ts[j], "var", NoCV)
           e2 == IF used /\ e1.err = "" /\ names[j] # "_" THEN MarkUsed(e1, {names[j]}) ELSE e1 IN
       DeclareAll(e2, names, ts, used, j + 1)

CondErr(x) == IF x.err # "" THEN x.err ELSE IF ~IsValueT(x.t) \/ ~IsBoolean(x.t) THEN "non-boolean condition" ELSE ""

\* assignment of operand x to the left-hand side expression l ("_" or an addressable operand or a map index)
AssignTo(l, x, env) ==
  IF l.k = "id" /\ l.name = "_" THEN (IF x.err # "" THEN x.err ELSE IF IsUntyped(x.t) THEN DefaultErr(x) ELSE "")
  ELSE LET L == TypeOf(l, env) IN
       IF L.err # "" THEN L.err
       ELSE IF ~(L.addr \/ L.mapidx) THEN "cannot assign to operand"
       ELSE Assignable(x, L.t)
LhsUses(ls) == UNION {IF ls[j].k = "id" THEN {} ELSE IdentsOf(ls[j]) : j \in 1..Len(ls)}
Dups(names) == \E i, j \in 1..Len(names) : i < j /\ names[i] = names[j] /\ names[i] # "_"

\* const name T = e   (T = "" : untyped constant keeps its kind)
ConstDecl(env, name, t, e) ==
  LET x == TypeOf(e, env) IN
  IF x.err # "" THEN Fail(env, x.err)
  ELSE IF ~IsConst(x) THEN Fail(env, "initializer is not a constant")
  ELSE IF t # "" /\ Under(TY(t))[1] \notin BasicKinds THEN Fail(env, "invalid constant type")
  ELSE IF t # "" /\ Assignable(x, TY(t)) # "" THEN Fail(env, Assignable(x, TY(t)))
  ELSE Declare(MarkUsed(env, IdentsOf(e)), name, IF t # "" THEN TY(t) ELSE x.t, "const", x.cv)

RECURSIVE CheckStmt(_, _), CheckStmts(_, _, _), SwClauses(_, _, _, _), TsClauses(_, _, _, _, _, _), SelClauses(_, _, _)
CheckBlock(ss, env) == Pop(CheckStmts(ss, 1, Push(env)))
CheckStmts(ss, j, env) == IF j > Len(ss) \/ env.err # "" THEN env ELSE CheckStmts(ss, j + 1, CheckStmt(ss[j], env))

\* expression switch clauses; tag: the (typed, non-constant) tag operand
SwClauses(cls, j, env, tag) ==
  IF j > Len(cls) \/ env.err # "" THEN env
  ELSE LET c == cls[j]
           errs == IF c.isdef THEN <<>> ELSE [i \in 1..Len(c.es) |-> BinaryR("==", tag, TypeOf(c.es[i], env)).err]
           e1 == MarkUsed(env, IF c.isdef THEN {} ELSE IdentsOfSeq(c.es)) IN
       IF FirstErr(errs) # "" THEN Fail(env, FirstErr(errs))
       ELSE SwClauses(cls, j + 1, CheckBlock(c.body, e1), tag)

\* type switch clauses; returns <<env, anyused>>
TsClauses(cls, j, env, bind, xt, anyused) ==
  IF j > Len(cls) \/ env.err # "" THEN <<env, anyused>>
  ELSE LET c == cls[j]
           ts == IF c.isdef THEN <<>> ELSE TYs(c.ts)
           bad == \E i \in 1..Len(ts) : ~IsIface(ts[i]) /\ ~Implements(ts[i], xt)
           bt == IF Len(ts) = 1 THEN ts[1] ELSE xt
           e1 == IF bind = "" THEN Push(env) ELSE Declare(Push(env), bind, bt, "var", NoCV)
           e2 == CheckStmts(c.body, 1, e1)
           u == bind # "" /\ e2.err = "" /\ e2.vars[LookupIdx(e2, bind)].used
           e3 == Pop(IF bind = "" \/ e2.err # "" THEN e2 ELSE MarkUsed(e2, {bind})) IN
       IF bad THEN <<Fail(env, "impossible type switch case"), anyused>>
       ELSE TsClauses(cls, j + 1, e3, bind, xt, anyused \/ u)

SelClauses(cls, j, env) ==
  IF j > Len(cls) \/ env.err # "" THEN env
  ELSE LET c == cls[j]
           e0 == Push(env)
           rx == IF c.ck \in {"recv", "recvdef", "recvassign"} THEN UnaryR("<-", TypeOf(c.ch, env)) ELSE ErrR("")
           e1 == CASE c.ck = "default" -> e0
                   [] c.ck = "recv" -> IF rx.err # "" THEN Fail(e0, rx.err) ELSE MarkUsed(e0, IdentsOf(c.ch))
                   [] c.ck = "recvdef" ->
                        IF rx.err # "" THEN Fail(e0, rx.err)
                        ELSE IF Dups(c.names) THEN Fail(e0, "repeated on left side of :=")
                        ELSE IF \A i \in 1..Len(c.names) : c.names[i] = "_" THEN Fail(e0, "no new variables on left side of :=")
                        ELSE DeclareAll(MarkUsed(e0, IdentsOf(c.ch)), c.names, IF Len(c.names) = 1 THEN <<rx.t>> ELSE <<rx.t, TBool>>, FALSE, 1)
                   [] c.ck = "recvassign" ->
                        LET ops == IF Len(c.lhs) = 1 THEN <<rx>> ELSE <<rx, R(U("bool"), NoCV)>>
                            errs == [i \in 1..Len(c.lhs) |-> AssignTo(c.lhs[i], ops[i], env)] IN
                        IF rx.err # "" THEN Fail(e0, rx.err)
                        ELSE IF FirstErr(errs) # "" THEN Fail(e0, FirstErr(errs))
                        ELSE MarkUsed(e0, IdentsOf(c.ch) \cup LhsUses(c.lhs))
                   [] c.ck = "send" ->
                        LET ch == TypeOf(c.ch, env) x == TypeOf(c.e, env) IN
                        IF ch.err # "" THEN Fail(e0, ch.err)
                        ELSE IF Under(ch.t)[1] # "chan" THEN Fail(e0, "cannot send to non-channel")
                        ELSE IF Assignable(x, Under(ch.t)[2]) # "" THEN Fail(e0, Assignable(x, Under(ch.t)[2]))
                        ELSE MarkUsed(e0, IdentsOf(c.ch) \cup IdentsOf(c.e)) IN
       SelClauses(cls, j + 1, Pop(CheckStmts(c.body, 1, e1)))

CheckStmt(s, env) ==
  CASE s.k = "var" ->
         LET n == Len(s.names) e1 == MarkUsed(env, IdentsOfSeq(s.es)) IN
         IF Len(s.es) = 0 THEN DeclareAll(env, s.names, [j \in 1..n |-> TY(s.t)], FALSE, 1)
         ELSE LET r == Rhs(s.es, n, env, TRUE)
                  errs == [j \in 1..n |-> IF s.t # "" THEN Assignable(r.ops[j], TY(s.t))
                                          ELSE IF IsUntyped(r.ops[j].t) THEN DefaultErr(r.ops[j]) ELSE ""] IN
              IF r.err # "" THEN Fail(env, r.err)
              ELSE IF FirstErr(errs) # "" THEN Fail(env, FirstErr(errs))
              ELSE DeclareAll(e1, s.names, [j \in 1..n |-> IF s.t # "" THEN TY(s.t) ELSE Default(r.ops[j].t)], FALSE, 1)
    [] s.k = "const" -> ConstDecl(env, s.name, s.t, s.e)
    [] s.k = "typedecl" -> Declare(env, s.name, TVoid, "type", NoCV)      \* type name int  (a local defined type; never "unused")
    [] s.k = "define" ->
         LET n == Len(s.names) r == Rhs(s.es, n, env, TRUE) e1 == MarkUsed(env, IdentsOfSeq(s.es))
             isnew == [j \in 1..n |-> s.names[j] # "_" /\ ~DeclaredHere(env, s.names[j])]
             errs == [j \in 1..n |->
                       IF s.names[j] = "_" \/ isnew[j] THEN
                            (IF IsUntyped(r.ops[j].t) THEN DefaultErr(r.ops[j]) ELSE "")
                       ELSE LET v == env.vars[LookupIdx(env, s.names[j])] IN
                            IF v.kind # "var" THEN "cannot assign to non-variable" ELSE Assignable(r.ops[j], v.t)]
             newnames == SelectSeq([j \in 1..n |-> IF isnew[j] THEN s.names[j] ELSE "_"], LAMBDA x : x # "_")
             newtypes == [i \in 1..Len(newnames) |-> Default(r.ops[CHOOSE j \in 1..n : s.names[j] = newnames[i]].t)] IN
         IF Dups(s.names) THEN Fail(env, "repeated on left side of :=")
         ELSE IF r.err # "" THEN Fail(env, r.err)
         ELSE IF \A j \in 1..n : ~isnew[j] THEN Fail(env, "no new variables on left side of :=")
         ELSE IF FirstErr(errs) # "" THEN Fail(env, FirstErr(errs))
         ELSE DeclareAll(e1, newnames, newtypes, FALSE, 1)
    [] s.k = "assign" ->
         LET n == Len(s.lhs) r == Rhs(s.es, n, env, TRUE)
             errs == [j \in 1..n |-> AssignTo(s.lhs[j], r.ops[j], env)] IN
         IF r.err # "" THEN Fail(env, r.err)
         ELSE IF FirstErr(errs) # "" THEN Fail(env, FirstErr(errs))
         ELSE MarkUsed(env, IdentsOfSeq(s.es) \cup LhsUses(s.lhs))
    [] s.k = "opassign" ->
         LET L == TypeOf(s.x, env) y == TypeOf(s.e, env)
             r == BinaryR(s.op, [L EXCEPT !.addr = FALSE, !.mapidx = FALSE], y) IN
         IF L.err # "" THEN Fail(env, L.err)
         ELSE IF ~(L.addr \/ L.mapidx) THEN Fail(env, "cannot assign to operand")
         ELSE IF r.err # "" THEN Fail(env, r.err)
         ELSE IF Assignable(r, L.t) # "" THEN Fail(env, Assignable(r, L.t))
         ELSE MarkUsed(env, IdentsOf(s.x) \cup IdentsOf(s.e))
    [] s.k = "incdec" ->
         LET L == TypeOf(s.x, env) IN
         IF L.err # "" THEN Fail(env, L.err)
         ELSE IF ~(L.addr \/ L.mapidx) THEN Fail(env, "cannot assign to operand")
         ELSE IF ~IsNumeric(L.t) THEN Fail(env, "non-numeric operand of ++/--")
         ELSE MarkUsed(env, IdentsOf(s.x))
    [] s.k = "expr" ->
         LET x == TypeOf(s.e, env) IN
         IF x.err # "" THEN Fail(env, x.err)
         ELSE IF ~(s.e.k \in {"call", "flcall"} \/ (s.e.k = "builtin" /\ s.e.name \in {"panic", "delete"}) \/ (s.e.k = "un" /\ s.e.op = "<-"))
              THEN Fail(env, "expression is not used")
         ELSE MarkUsed(env, IdentsOf(s.e))
    [] s.k \in {"go", "defer"} ->
         LET x == TypeOf(s.e, env) IN
         IF ~(s.e.k \in {"call", "flcall"} \/ (s.e.k = "builtin" /\ s.e.name \in {"panic", "delete"})) THEN Fail(env, "expression in go/defer must be function call")
         ELSE IF x.err # "" THEN Fail(env, x.err)
         ELSE MarkUsed(env, IdentsOf(s.e))
    [] s.k = "send" ->
         LET ch == TypeOf(s.ch, env) x == TypeOf(s.e, env) IN
         IF ch.err # "" THEN Fail(env, ch.err)
         ELSE IF Under(ch.t)[1] # "chan" THEN Fail(env, "cannot send to non-channel")
         ELSE IF Assignable(x, Under(ch.t)[2]) # "" THEN Fail(env, Assignable(x, Under(ch.t)[2]))
         ELSE MarkUsed(env, IdentsOf(s.ch) \cup IdentsOf(s.e))
    [] s.k = "if" ->
         LET e1 == CheckStmts(s.init, 1, Push(env))
             c == CondErr(TypeOf(s.cond, e1))
             e2 == IF e1.err # "" THEN e1 ELSE IF c # "" THEN Fail(e1, c) ELSE CheckBlock(s.then, MarkUsed(e1, IdentsOf(s.cond)))
             e3 == IF s.haselse THEN CheckBlock(s.els, e2) ELSE e2 IN
         Pop(e3)
    [] s.k = "for" ->
         LET c == IF s.hascond THEN CondErr(TypeOf(s.cond, env)) ELSE ""
             e1 == IF s.hascond THEN MarkUsed(env, IdentsOf(s.cond)) ELSE env IN
         IF c # "" THEN Fail(env, c) ELSE CheckBlock(s.body, e1)
    [] s.k = "switch" ->
         LET t0 == IF s.hastag THEN TypeOf(s.tag, env) ELSE R(TBool, NoCV)
             terr == IF t0.err # "" THEN t0.err ELSE IF ~IsValueT(t0.t) THEN "multiple-value or no value as switch tag"
                     ELSE IF IsUntyped(t0.t) THEN DefaultErr(t0) ELSE ""
             tag == [R(Default(t0.t), NoCV) EXCEPT !.sh = FALSE]
             e1 == IF s.hastag THEN MarkUsed(env, IdentsOf(s.tag)) ELSE env IN
         IF terr # "" THEN Fail(env, terr)
         ELSE IF Cardinality({j \in 1..Len(s.clauses) : s.clauses[j].isdef}) > 1 THEN Fail(env, "multiple defaults")
         ELSE SwClauses(s.clauses, 1, e1, tag)
    [] s.k = "tswitch" ->
         LET x == TypeOf(s.x, env)
             allts == UNION {IF s.clauses[j].isdef THEN {} ELSE {<<j, i>> : i \in 1..Len(s.clauses[j].ts)} : j \in 1..Len(s.clauses)}
             r == TsClauses(s.clauses, 1, MarkUsed(env, IdentsOf(s.x)), s.bind, x.t, FALSE) IN
         IF x.err # "" THEN Fail(env, x.err)
         ELSE IF IsUntyped(x.t) \/ ~IsIface(x.t) THEN Fail(env, "type switch on non-interface")
         ELSE IF Cardinality({j \in 1..Len(s.clauses) : s.clauses[j].isdef}) > 1 THEN Fail(env, "multiple defaults")
         ELSE IF \E p, q \in allts : p # q /\ s.clauses[p[1]].ts[p[2]] = s.clauses[q[1]].ts[q[2]] THEN Fail(env, "duplicate case in type switch")
         ELSE IF r[1].err # "" THEN r[1]
         ELSE IF s.bind # "" /\ ~r[2] THEN Fail(r[1], "declared and not used")
         ELSE r[1]
    [] s.k = "select" ->
         IF Cardinality({j \in 1..Len(s.clauses) : s.clauses[j].ck = "default"}) > 1 THEN Fail(env, "multiple defaults")
         ELSE SelClauses(s.clauses, 1, env)
    [] s.k = "return" ->
         LET n == Len(env.res) IN
         IF Len(s.es) = 0 THEN (IF n = 0 THEN env ELSE Fail(env, "not enough return values"))
         ELSE IF n = 0 THEN Fail(env, "too many return values")
         ELSE LET r == Rhs(s.es, n, env, FALSE)
                  errs == [j \in 1..n |-> Assignable(r.ops[j], env.res[j])] IN
              IF r.err # "" THEN Fail(env, r.err)
              ELSE IF FirstErr(errs) # "" THEN Fail(env, FirstErr(errs))
              ELSE MarkUsed(env, IdentsOfSeq(s.es))
    [] s.k \in {"break", "continue", "fallthrough"} -> env      \* (placement: SynStmt below)
    [] s.k = "block" -> CheckBlock(s.body, env)
    [] s.k = "closure" ->      \* func() R { body }()
         LET e1 == CheckBlock(s.body, [env EXCEPT !.res = TYs(s.res)]) IN [e1 EXCEPT !.res = env.res]
    [] s.k = "use" ->          \* _ = name
         LET x == TypeOf([k |-> "id", name |-> s.name], env) IN
         IF x.err # "" THEN Fail(env, x.err)
         ELSE IF IsUntyped(x.t) /\ DefaultErr(x) # "" THEN Fail(env, DefaultErr(x))
         ELSE MarkUsed(env, {s.name})

(* ------------------------------------------------------------------ syntactic rules: terminating statements,
   break/continue/fallthrough placement, labels *)
RECURSIVE HasBreak(_, _, _), TermStmt(_), SynStmts(_, _), SynStmt(_, _), SynClause(_, _, _, _), LabelsUsed(_)
ClauseBodies(s) == [j \in 1..Len(s.clauses) |-> s.clauses[j].body]
Breakable(s) == s.k \in {"for", "switch", "tswitch", "select"}
\* is there a break referring to the statement labelled lbl ("" = none) whose body list is ss?
\* direct: unlabelled breaks count (we are not inside a nested breakable statement)
HasBreak(ss, lbl, direct) ==
  \E j \in 1..Len(ss) :
     LET s == ss[j] IN
     CASE s.k = "break" -> (s.label = "" /\ direct) \/ (s.label # "" /\ s.label = lbl)
       [] s.k = "block" -> HasBreak(s.body, lbl, direct)
       [] s.k = "if" -> HasBreak(s.then, lbl, direct) \/ (s.haselse /\ HasBreak(s.els, lbl, direct))
       [] s.k = "for" -> HasBreak(s.body, lbl, FALSE)
       [] s.k \in {"switch", "tswitch", "select"} -> \E i \in 1..Len(s.clauses) : HasBreak(s.clauses[i].body, lbl, FALSE)
       [] OTHER -> FALSE
IsTerm(ss) == Len(ss) > 0 /\ TermStmt(ss[Len(ss)])
\* a "switch" statement is terminating when "... the statement lists in each case, including the default, end in a terminating
\* statement, or a possibly labeled "fallthrough" statement" (labelled fallthrough statements are not generated)
EndsInFallthrough(ss) == Len(ss) > 0 /\ ss[Len(ss)].k = "fallthrough"
\* Go spec, "Terminating statements"
TermStmt(s) ==
  CASE s.k = "return" -> TRUE
    [] s.k = "expr" -> s.e.k = "builtin" /\ s.e.name = "panic"
    [] s.k = "block" -> IsTerm(s.body)
    [] s.k = "if" -> s.haselse /\ IsTerm(s.then) /\ IsTerm(s.els)
    [] s.k = "for" -> ~s.hascond /\ ~HasBreak(s.body, s.label, TRUE)
    [] s.k \in {"switch", "tswitch"} ->
         (\E j \in 1..Len(s.clauses) : s.clauses[j].isdef)
         /\ \A j \in 1..Len(s.clauses) : (IsTerm(s.clauses[j].body) \/ EndsInFallthrough(s.clauses[j].body)) /\ ~HasBreak(s.clauses[j].body, s.label, TRUE)
    [] s.k = "select" -> \A j \in 1..Len(s.clauses) : IsTerm(s.clauses[j].body) /\ ~HasBreak(s.clauses[j].body, s.label, TRUE)
    [] OTHER -> FALSE

LabelsUsed(ss) ==
  UNION {LET s == ss[j] IN
         CASE s.k \in {"break", "continue"} -> IF s.label = "" THEN {} ELSE {s.label}
           [] s.k = "block" -> LabelsUsed(s.body)
           [] s.k = "if" -> LabelsUsed(s.then) \cup (IF s.haselse THEN LabelsUsed(s.els) ELSE {})
           [] s.k = "for" -> LabelsUsed(s.body)
           [] s.k \in {"switch", "tswitch", "select"} -> UNION {LabelsUsed(s.clauses[i].body) : i \in 1..Len(s.clauses)}
           [] OTHER -> {}
         : j \in 1..Len(ss)}

\* c: [loop, brk: inside a for / breakable statement;  ll, bl: labels of enclosing for / breakable statements]
SynStmts(ss, c) == FirstErr([j \in 1..Len(ss) |-> SynStmt(ss[j], c)])
(* Go spec, Fallthrough statements: "A "fallthrough" statement transfers control to the first statement of the next case clause
   in an expression "switch" statement.  It may be used only as the final non-empty statement in such a clause."  Expression
   switches: "... the "fallthrough" statement ... may appear as the last statement of all but the last clause of an expression
   switch."  Type switches: "The "fallthrough" statement is not permitted in a type switch."
   So: ss is the statement list of a clause of a statement of kind sk (switch, tswitch, select), islast: it is the textually last
   clause.  Only a fallthrough that is the LAST statement OF THE LIST ITSELF is judged here; every other fallthrough - earlier in
   the list, in a block / if / for / function literal nested in the clause, in a for body, at function level - reaches
   SynStmt, where it is out of place. *)
SynClause(ss, c, sk, islast) ==
  FirstErr([j \in 1..Len(ss) |->
     IF ss[j].k = "fallthrough" /\ j = Len(ss) /\ sk \in {"switch", "tswitch"}
     THEN (IF sk = "tswitch" THEN "cannot fallthrough in type switch" ELSE IF islast THEN "cannot fallthrough final case in switch" ELSE "")
     ELSE SynStmt(ss[j], c)])
SynStmt(s, c) ==
  CASE s.k = "break" -> IF s.label = "" THEN (IF c.brk THEN "" ELSE "break is not in a loop, switch, or select")
                        ELSE IF s.label \in c.bl THEN "" ELSE "invalid break label"
    [] s.k = "continue" -> IF s.label = "" THEN (IF c.loop THEN "" ELSE "continue is not in a loop")
                           ELSE IF s.label \in c.ll THEN "" ELSE "invalid continue label"
    [] s.k = "fallthrough" -> "fallthrough statement out of place"      \* (the one valid position is decided by SynClause)
    [] s.k = "block" -> SynStmts(s.body, c)
    [] s.k = "if" -> FirstErr(<<SynStmts(s.init, c), SynStmts(s.then, c), IF s.haselse THEN SynStmts(s.els, c) ELSE "">>)
    [] s.k = "for" ->
         IF s.label # "" /\ s.label \notin LabelsUsed(s.body) THEN "label defined and not used"
         ELSE SynStmts(s.body, [loop |-> TRUE, brk |-> TRUE, ll |-> c.ll \cup (IF s.label = "" THEN {} ELSE {s.label}),
                                bl |-> c.bl \cup (IF s.label = "" THEN {} ELSE {s.label})])
    [] s.k \in {"switch", "tswitch", "select"} ->
         IF s.label # "" /\ s.label \notin UNION {LabelsUsed(s.clauses[i].body) : i \in 1..Len(s.clauses)} THEN "label defined and not used"
         ELSE FirstErr([i \in 1..Len(s.clauses) |->
                 SynClause(s.clauses[i].body, [c EXCEPT !.brk = TRUE, !.bl = @ \cup (IF s.label = "" THEN {} ELSE {s.label})],
                           s.k, i = Len(s.clauses))])
    [] s.k = "closure" ->
         LET e == SynStmts(s.body, [loop |-> FALSE, brk |-> FALSE, ll |-> {}, bl |-> {}]) IN
         IF e # "" THEN e ELSE IF Len(s.res) > 0 /\ ~IsTerm(s.body) THEN "missing return" ELSE ""
    [] OTHER -> ""
SynFunc(res, body) ==
  LET e == SynStmts(body, [loop |-> FALSE, brk |-> FALSE, ll |-> {}, bl |-> {}]) IN
  IF e # "" THEN e ELSE IF Len(res) > 0 /\ ~IsTerm(body) THEN "missing return" ELSE ""

(* ------------------------------------------------------------------ programs *)
\* the fixed prelude of every generated program (see harness/cmd/c03):
\*   type N int; type NS []int
\*   func f0() {}; func f1(a int) int; func f2() (int, string); func f3(a int, b string); func fv(a ...int); func fvs(s string, a ...int)
\*   and, when p.pre, at the top of the function under test:  var vi int; var vi8 int8; ... ; _ = vi; ...
FuncT(ps, rs, v) == <<"func", ps, rs, v>>
PreludePkg == <<
  Entry("N", TVoid, "type", TRUE, 0, NoCV), Entry("NS", TVoid, "type", TRUE, 0, NoCV),
  Entry("f0", FuncT(<<>>, <<>>, FALSE), "func", TRUE, 0, NoCV),
  Entry("f1", TFunc, "func", TRUE, 0, NoCV),
  Entry("f2", FuncT(<<>>, <<TInt, TString>>, FALSE), "func", TRUE, 0, NoCV),
  Entry("f3", FuncT(<<TInt, TString>>, <<>>, FALSE), "func", TRUE, 0, NoCV),
  Entry("fv", FuncT(<<TSlice>>, <<>>, TRUE), "func", TRUE, 0, NoCV),
  Entry("fvs", FuncT(<<TString, TSlice>>, <<>>, TRUE), "func", TRUE, 0, NoCV),
  Entry("g", TVoid, "func", TRUE, 0, NoCV), Entry("main", FuncT(<<>>, <<>>, FALSE), "func", TRUE, 0, NoCV) >>
PreludeLocals == << <<"vi", "int">>, <<"vi8", "int8">>, <<"vu8", "uint8">>, <<"vf", "float64">>, <<"vs", "string">>, <<"vb", "bool">>,
  <<"vn", "N">>, <<"vp", "*int">>, <<"vsl", "[]int">>, <<"vm", "map[string]int">>, <<"vfn", "func(int) int">>, <<"va", "any">>,
  <<"ve", "error">>, <<"vch", "chan int">>, <<"vns", "NS">> >>

PLE(nm, t) == Entry(nm, t, "var", TRUE, 1, NoCV)
PreludeLocalEntries == <<PLE("vi", TInt), PLE("vi8", TInt8), PLE("vu8", TUint8), PLE("vf", TFloat), PLE("vs", TString), PLE("vb", TBool),
  PLE("vn", TN), PLE("vp", TPtr), PLE("vsl", TSlice), PLE("vm", TMap), PLE("vfn", TFunc), PLE("va", TAny), PLE("ve", TError), PLE("vch", TChan), PLE("vns", TNS)>>
RECURSIVE DeclImports(_, _, _), DeclTops(_, _, _), CheckTopBodies(_, _, _), ReachFrom(_, _), ResolveTops(_, _, _)
DeclImports(env, imps, j) ==
  IF j > Len(imps) \/ env.err # "" THEN env
  ELSE LET nm == IF imps[j].alias = "" THEN imps[j].path ELSE imps[j].alias IN
       DeclImports(IF nm = "_" THEN env ELSE [Declare(env, nm, TVoid, "pkg", NoCV) EXCEPT !.err = IF @ = "" THEN "" ELSE "import name redeclared"], imps, j + 1)
CheckFunc(env, params, res, pre, body) ==
  LET e1 == DeclareAll([Push(env) EXCEPT !.res = TYs(res)], [j \in 1..Len(params) |-> params[j].name], [j \in 1..Len(params) |-> TY(params[j].t)], TRUE, 1)
      e2 == IF ~pre THEN e1
            ELSE IF Len(params) = 0 /\ e1.err = "" THEN [e1 EXCEPT !.vars = @ \o PreludeLocalEntries]      \* (same as DeclareAll, precomputed)
            ELSE DeclareAll(e1, [j \in 1..Len(PreludeLocals) |-> PreludeLocals[j][1]], [j \in 1..Len(PreludeLocals) |-> TY(PreludeLocals[j][2])], TRUE, 1)
      e3 == Pop(CheckStmts(body, 1, e2))
      syn == SynFunc(res, body) IN
  IF e3.err # "" THEN e3 ELSE IF syn # "" THEN Fail(e3, syn) ELSE [e3 EXCEPT !.res = <<>>]
DeclTops(env, tops, j) ==
  IF j > Len(tops) \/ env.err # "" THEN env
  ELSE LET d == tops[j]
           e1 == CASE d.k = "func" -> Declare(env, d.name, FuncT(TYs([i \in 1..Len(d.params) |-> d.params[i].t]), TYs(d.res), FALSE), "func", NoCV)
                   [] d.k = "var" -> Declare(env, d.name, TY(d.t), "var", NoCV)
                   \* var name [t] = e: the name is in scope in the whole package; its type is known once ResolveTops reaches it
                   [] d.k = "varinit" -> Declare(env, d.name, TVoid, "var", NoCV)
                   [] d.k = "type" -> Declare(env, d.name, TVoid, "type", NoCV)
                   [] d.k = "const" -> ConstDecl(env, d.name, d.t, d.e) IN
       DeclTops(e1, tops, j + 1)
(* Package initialization (Go spec): "the scope of an identifier denoting a constant, type, variable or function declared at top
   level is the package block" - an initializer may refer to a variable or function declared later.  "A reference to a variable or
   function is an identifier denoting it; x depends on y if x's initialization expression or body (for functions) refers to y or to a
   function that depends on y"; a variable that depends on itself is an initialization cycle (an error), and a variable is typed and
   initialized when the variables it depends on are.  References: free identifiers of the initializer (a parameter of a function
   literal hides the outer name inside the literal); of a function, the identifiers of its body other than its parameters (the
   generated top-level functions of this family declare no locals). *)
RECURSIVE StmtIdents(_)
StmtIdents(ss) == UNION {LET s == ss[j] IN
                         CASE s.k = "return" -> IdentsOfSeq(s.es) [] s.k = "expr" -> IdentsOf(s.e) [] s.k = "use" -> {s.name}
                           [] s.k = "assign" -> IdentsOfSeq(s.es) \cup IdentsOfSeq(s.lhs) [] OTHER -> {}
                         : j \in 1..Len(ss)}
TopRefs(d) == CASE d.k = "varinit" -> IdentsOf(d.e)
                [] d.k = "func" -> StmtIdents(d.body) \ {d.params[i].name : i \in 1..Len(d.params)}
                [] OTHER -> {}
\* the names reachable from the set S of names through the bodies of top-level functions
ReachFrom(tops, S) ==
  LET more == UNION {TopRefs(tops[j]) : j \in {j \in 1..Len(tops) : tops[j].k = "func" /\ tops[j].name \in S}} IN
  IF more \subseteq S THEN S ELSE ReachFrom(tops, S \cup more)
\* pend: indexes of the initialized variables not yet typed
ResolveTops(env, tops, pend) ==
  IF pend = {} \/ env.err # "" THEN env
  ELSE LET waits(j) == {i \in pend : tops[i].name \in ReachFrom(tops, TopRefs(tops[j]))}
           ready == {j \in pend : waits(j) = {}} IN
       IF ready = {} THEN Fail(env, "initialization cycle")
       ELSE LET j == CHOOSE j \in ready : \A i \in ready : j <= i
                d == tops[j]
                x == TypeOf(d.e, env)
                a == IF d.t # "" THEN Assignable(x, TY(d.t))
                     ELSE IF x.err # "" THEN x.err ELSE IF ~IsValueT(x.t) THEN "multiple-value or no value as initializer"
                     ELSE IF IsUntyped(x.t) THEN DefaultErr(x) ELSE ""
                k == LookupIdx(env, d.name) IN
            IF a # "" THEN Fail(env, a)
            ELSE ResolveTops([MarkUsed(env, IdentsOf(d.e)) EXCEPT !.vars[k].t = IF d.t # "" THEN TY(d.t) ELSE Default(x.t)], tops, pend \ {j})
CheckTopBodies(env, tops, j) ==
  IF j > Len(tops) \/ env.err # "" THEN env
  ELSE CheckTopBodies(IF tops[j].k = "func" THEN CheckFunc(env, tops[j].params, tops[j].res, FALSE, tops[j].body) ELSE env, tops, j + 1)

Verdict(p) ==
  LET e0 == [vars |-> PreludePkg, depth |-> 0, res |-> <<>>, err |-> ""]
      e1 == DeclImports(e0, p.imports, 1)
      e2 == DeclTops(e1, p.tops, 1)
      e2b == ResolveTops(e2, p.tops, {j \in 1..Len(p.tops) : p.tops[j].k = "varinit"})
      e3 == CheckTopBodies(e2b, p.tops, 1)
      e4 == CheckFunc(e3, p.params, p.res, p.pre, p.body) IN
  IF e4.err # "" THEN e4.err
  ELSE IF \E j \in 1..Len(e4.vars) : e4.vars[j].kind = "pkg" /\ ~e4.vars[j].used THEN "imported and not used"
  ELSE "ok"
=============================================================================

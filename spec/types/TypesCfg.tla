------------------------------ MODULE TypesCfg ------------------------------
(* Run parameters of MC_Types.  They are definitions, not CONSTANTS, on purpose: TLC pre-evaluates and caches
   zero-argument constant definitions only in modules that declare no CONSTANTS (measured: with CONSTANTS every
   reference to the 8k-element program sequence re-evaluated it, 0.3 s each).  checks/c03.py overwrites the staged
   copy of this file for each TLC process. *)
Tier == 1      \* 1 quick, 2 thorough
Part == 0      \* this TLC process handles the programs with index % Parts = Part
Parts == 1
=============================================================================

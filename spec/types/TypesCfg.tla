------------------------------ MODULE TypesCfg ------------------------------
(* Run parameters of MC_Types, and the exported case file read back for the model-checking walk.
   These are definitions in a module WITHOUT CONSTANTS on purpose: TLC pre-evaluates and caches zero-argument
   constant definitions only for modules that declare no CONSTANTS (SpecProcessor.processConstantDefns), and an
   uncached 8k-element sequence is re-evaluated on every reference (measured 0.3 s each).
   checks/c03.py overwrites the staged copy of this file for each run. *)
EXTENDS Json
Tier == 1      \* 1 quick, 2 thorough
TypesCasesIn == ndJsonDeserialize("cases.ndjson")      \* (model-checking step only; the generation step writes this file)
=============================================================================

---------------------------- MODULE Trace_Types ----------------------------
(* C03 judge.  One record per line of obs.ndjson: {id, prog (the AST record of the case, echoed), src, builds, msg}
   with builds in ok | builderror | othererror | hostpanic (the class of what scriggo.Build returned).
   Property (properties.jsonl C03): "Build never accepts a Go program that the Go type checker rejects, and accepts
   every program in the supported subset that the Go type checker accepts; a rejection is always a *BuildError,
   never another error or a panic."  The Go type checker's verdict is the judgment of Types.tla (Verdict).
     judgment accepts  =>  Build returned nil                          (clause 2; the generated core contains no
                                                                        methods, generics, range-over-int, min/max/clear)
     judgment rejects  =>  Build returned a *BuildError                 (clauses 1 and 3)
   Nothing else is judged: not the message, not the position, not which of several errors is reported.
   Verdict = "undef" (constant arithmetic outside the judgment's integer window): skipped, counted by the check. *)
EXTENDS Types, TLC, Json

RecOk(r) == LET v == Verdict(r.prog) IN
            v = "undef" \/ (IF v = "ok" THEN r.builds = "ok" ELSE r.builds = "builderror")

\* statement kinds occurring in a body, in a fixed order (root-cause key for the statement-level families)
KindOrder == <<"var", "const", "typedecl", "define", "assign", "opassign", "incdec", "expr", "go", "defer", "send", "if", "for", "forL", "switch",
               "switchL", "tswitch", "select", "selectL", "return", "break", "breakL", "continue", "continueL", "block", "closure", "use", "fallthrough">>
RECURSIVE KindsOf(_)
KindsOf(ss) ==
  UNION {LET s == ss[j]
             me == IF s.k \in {"for", "switch", "select", "break", "continue"} /\ s.label # "" THEN s.k \o "L" ELSE s.k IN
         {me} \cup (CASE s.k \in {"for", "block", "closure"} -> KindsOf(s.body)
                      [] s.k = "if" -> KindsOf(s.init) \cup KindsOf(s.then) \cup (IF s.haselse THEN KindsOf(s.els) ELSE {})
                      [] s.k \in {"switch", "tswitch", "select"} -> UNION {KindsOf(s.clauses[c].body) : c \in 1..Len(s.clauses)}
                      [] OTHER -> {})
         : j \in 1..Len(ss)}
Kinds(p) == LET K == KindsOf(p.body) IN SelectSeq(KindOrder, LAMBDA k : k \in K)

\* for a rejected "missing return": the kinds of the non-terminating statements in tail position (the statements the body's
\* statement list - or a branch of its last statement - ends with); part of the signature only, never of the verdict
TailOrder == KindOrder \o <<"call", "flcall", "recv", "panic", "delete", "empty">>
TailKind(s) == IF s.k = "expr" THEN (IF s.e.k = "builtin" THEN s.e.name ELSE IF s.e.k = "un" THEN "recv" ELSE s.e.k) ELSE s.k
RECURSIVE Culprits(_)
Culprits(ss) ==
  IF Len(ss) = 0 THEN {"empty"}
  ELSE LET s == ss[Len(ss)] IN
       IF TermStmt(s) THEN {}
       ELSE LET inner == CASE s.k = "block" -> Culprits(s.body)
                           [] s.k = "if" -> IF s.haselse THEN Culprits(s.then) \cup Culprits(s.els) ELSE {}
                           [] s.k \in {"switch", "tswitch", "select"} -> UNION {Culprits(s.clauses[c].body) : c \in 1..Len(s.clauses)}
                           [] OTHER -> {} IN
            IF inner = {} THEN {TailKind(s)} ELSE inner
CulpritSeq(p, v) == IF v # "missing return" THEN <<>> ELSE LET C == Culprits(p.body) IN SelectSeq(TailOrder, LAMBDA k : k \in C)

\* signature: family, program group, statement context, what the judgment demands (and by which rule), what Build did,
\* the expression (kind, operator / callee / target type, operand leaves) and the statement kinds of the body
Sig(r) == LET v == Verdict(r.prog) IN
          [fam |-> "types", grp |-> r.prog.grp, ctx |-> r.prog.ctx, want |-> IF v = "ok" THEN "accept" ELSE "reject", rule |-> v,
           got |-> r.builds, e |-> r.prog.desc, kinds |-> IF r.prog.grp = "exprctx" THEN <<>> ELSE Kinds(r.prog),
           tail |-> CulpritSeq(r.prog, v)]

(* ---- record walk.  As the skeleton of spec/lib2/Trace_HTMLEscape.tla, except that the indices of the (at most 400) bad
   records are carried in the state instead of being recomputed by a constant definition: TLC pre-evaluates constant
   definitions at start-up, which would evaluate the (expensive) judgment twice for every record.  The carried
   sequence is capped, so the walk stays linear. ---- *)
VARIABLES l, nbad, bad
Obs == ndJsonDeserialize("obs.ndjson")
Init == l = 1 /\ nbad = 0 /\ bad = <<>>
Next == /\ l <= Len(Obs) /\ l' = l + 1
        /\ LET ok == RecOk(Obs[l]) IN
           /\ nbad' = nbad + (IF ok THEN 0 ELSE 1)
           /\ bad' = IF ok \/ Len(bad) >= 400 THEN bad ELSE Append(bad, l)
Done == l = Len(Obs) + 1 =>
          ndJsonSerialize("bad.ndjson", [j \in 1..Len(bad) |-> [k |-> bad[j], id |-> Obs[bad[j]].id, sig |-> Sig(Obs[bad[j]]), nbad |-> nbad]])
Consumed == TLCGet("stats").diameter - 1 = Len(Obs)
=============================================================================

----------------------------- MODULE MC_Types -----------------------------
(* C03 generator + model check.  TLC enumerates ALL small programs of the core: every expression of one
   operator over the leaves (typed variables, constants 0 1 300 -1 1.5 "s" true nil) placed in every statement
   context, plus exhaustive small statement-level families (terminating statements / break-continue placement,
   := and unused variables, imports and top-level declarations, select/switch clause scoping, calls and
   multi-value forms, histories of one local name (B6), constant indexes of arrays (B7), package-level
   initializers (B8), placement of fallthrough (B9)).  Every program is exported with the judgment's verdict.  The invariants are
   theorems of Go's type system that the judgment must satisfy on the whole space (symmetry of the
   symmetric operators, ==/!= and </>= duality, representability monotonicity, var/assign/argument coherence). *)
EXTENDS Types, TypesCfg, TLC, Json, SequencesExt
CONSTANT NoPreEval      \* unused; declaring a CONSTANT stops TLC from pre-evaluating this module's (large) definitions at start-up
\* Tier (1 quick, 2 thorough) comes from TypesCfg

(* ---------------------------------------------------------------- AST constructors *)
Id(n) == [k |-> "id", name |-> n]
LitI(n) == [k |-> "lit", lk |-> "int", n |-> n, d |-> 1]
LitF == [k |-> "lit", lk |-> "float", n |-> 3, d |-> 2]            \* 1.5
LitS == [k |-> "lit", lk |-> "string", n |-> 1, d |-> 1]           \* "s"
Un(op, x) == [k |-> "un", op |-> op, x |-> x]
Bin(op, x, y) == [k |-> "bin", op |-> op, x |-> x, y |-> y]
Call(f, args) == [k |-> "call", f |-> f, args |-> args, spread |-> FALSE]
CallS(f, args) == [k |-> "call", f |-> f, args |-> args, spread |-> TRUE]
Conv(t, x) == [k |-> "conv", t |-> t, x |-> x]
Index(x, i) == [k |-> "index", x |-> x, i |-> i]
SliceE(x, lo) == [k |-> "slice", x |-> x, lo |-> lo]
Builtin(name, args) == [k |-> "builtin", name |-> name, args |-> args]
Sel(p, n) == [k |-> "sel", pkg |-> p, name |-> n]
AssertE(x, t) == [k |-> "assert", x |-> x, t |-> t]
SliceLit(args) == [k |-> "slicelit", args |-> args]
MapLit(key, val) == [k |-> "maplit", key |-> key, val |-> val]

Var(names, t, es) == [k |-> "var", names |-> names, t |-> t, es |-> es]
Const(name, t, e) == [k |-> "const", name |-> name, t |-> t, e |-> e]
Define(names, es) == [k |-> "define", names |-> names, es |-> es]
Assign(lhs, es) == [k |-> "assign", lhs |-> lhs, es |-> es]
Blank(e) == Assign(<<Id("_")>>, <<e>>)
OpAssign(op, x, e) == [k |-> "opassign", op |-> op, x |-> x, e |-> e]
IncDec(x) == [k |-> "incdec", x |-> x, op |-> "++"]
ExprS(e) == [k |-> "expr", e |-> e]
GoS(e) == [k |-> "go", e |-> e]
DeferS(e) == [k |-> "defer", e |-> e]
Send(ch, e) == [k |-> "send", ch |-> ch, e |-> e]
If(c, then) == [k |-> "if", init |-> <<>>, cond |-> c, then |-> then, els |-> <<>>, haselse |-> FALSE]
IfElse(c, then, els) == [k |-> "if", init |-> <<>>, cond |-> c, then |-> then, els |-> els, haselse |-> TRUE]
IfInit(init, c, then) == [k |-> "if", init |-> <<init>>, cond |-> c, then |-> then, els |-> <<>>, haselse |-> FALSE]
For(body) == [k |-> "for", hascond |-> FALSE, body |-> body, label |-> ""]
ForL(l, body) == [k |-> "for", hascond |-> FALSE, body |-> body, label |-> l]
ForC(c, body) == [k |-> "for", hascond |-> TRUE, cond |-> c, body |-> body, label |-> ""]
Case(es, body) == [isdef |-> FALSE, es |-> es, body |-> body]
Dflt(body) == [isdef |-> TRUE, es |-> <<>>, body |-> body]
Switch(cls) == [k |-> "switch", hastag |-> FALSE, clauses |-> cls, label |-> ""]
SwitchL(l, cls) == [k |-> "switch", hastag |-> FALSE, clauses |-> cls, label |-> l]
SwitchT(tag, cls) == [k |-> "switch", hastag |-> TRUE, tag |-> tag, clauses |-> cls, label |-> ""]
TCase(ts, body) == [isdef |-> FALSE, ts |-> ts, body |-> body]
TDflt(body) == [isdef |-> TRUE, ts |-> <<>>, body |-> body]
TSwitch(bind, x, cls) == [k |-> "tswitch", bind |-> bind, x |-> x, clauses |-> cls, label |-> ""]
Select(cls) == [k |-> "select", clauses |-> cls, label |-> ""]
SelectL(l, cls) == [k |-> "select", clauses |-> cls, label |-> l]
CRecv(ch, body) == [ck |-> "recv", ch |-> ch, body |-> body]
CRecvDef(names, ch, body) == [ck |-> "recvdef", names |-> names, ch |-> ch, body |-> body]
CRecvAsg(lhs, ch, body) == [ck |-> "recvassign", lhs |-> lhs, ch |-> ch, body |-> body]
CSend(ch, e, body) == [ck |-> "send", ch |-> ch, e |-> e, body |-> body]
CDflt(body) == [ck |-> "default", body |-> body]
Return(es) == [k |-> "return", es |-> es]
Break(l) == [k |-> "break", label |-> l]
Continue(l) == [k |-> "continue", label |-> l]
Block(body) == [k |-> "block", body |-> body]
Closure(res, body) == [k |-> "closure", res |-> res, body |-> body]
Use(n) == [k |-> "use", name |-> n]
FT == [k |-> "fallthrough"]
TypeDecl(name) == [k |-> "typedecl", name |-> name]
FL(p, ret, arg) == [k |-> "flcall", param |-> p, ret |-> ret, arg |-> arg]      \* func(p int) int { return ret }(arg)
Nop == Assign(<<Id("vi")>>, <<LitI(1)>>)
Panic == ExprS(Builtin("panic", <<LitS>>))

\* a program: function under test  func g(params) res { [prelude locals] body }
Prog(grp, ctx, d, res, body) ==
  [grp |-> grp, ctx |-> ctx, desc |-> d, imports |-> <<>>, tops |-> <<>>, pre |-> TRUE, params |-> <<>>, res |-> res, body |-> body]
NoDesc == <<"", "", "", "">>

(* ---------------------------------------------------------------- sequence helpers *)
RECURSIVE FlatFrom(_, _)
FlatFrom(ss, j) == IF j > Len(ss) THEN <<>> ELSE ss[j] \o FlatFrom(ss, j + 1)
Flat(ss) == FlatFrom(ss, 1)
Map1(s, Op(_)) == [j \in 1..Len(s) |-> Op(s[j])]
\* all pairs / triples, by index arithmetic
Pairs(a, b, Op(_, _)) == [n \in 1..(Len(a) * Len(b)) |-> Op(a[((n - 1) \div Len(b)) + 1], b[((n - 1) % Len(b)) + 1])]

(* ---------------------------------------------------------------- expressions: <<expr, kind, op, xdesc, ydesc>> *)
VarLeaves == << <<"vi", Id("vi")>>, <<"vi8", Id("vi8")>>, <<"vu8", Id("vu8")>>, <<"vf", Id("vf")>>, <<"vs", Id("vs")>>, <<"vb", Id("vb")>>,
   <<"vn", Id("vn")>>, <<"vp", Id("vp")>>, <<"vsl", Id("vsl")>>, <<"vm", Id("vm")>>, <<"vfn", Id("vfn")>>, <<"va", Id("va")>>,
   <<"ve", Id("ve")>>, <<"vch", Id("vch")>>, <<"vns", Id("vns")>> >>
ConstLeaves == << <<"0", LitI(0)>>, <<"1", LitI(1)>>, <<"300", LitI(300)>>, <<"-1", LitI(-1)>>, <<"1.5", LitF>>, <<"s", LitS>>,
   <<"true", Id("true")>>, <<"nil", Id("nil")>> >>
Leaves == VarLeaves \o ConstLeaves
Pick(names) == SelectSeq(Leaves, LAMBDA l : l[1] \in names)
LMid == Pick({"vi", "vi8", "vf", "vs", "vb", "vn", "vsl", "va", "1", "300", "-1", "1.5", "s", "nil"})
LSmall == Pick({"vi", "vf", "vs", "1", "1.5", "nil"})
LTiny == Pick({"vi", "vs", "1", "nil"})
BinOps == <<"+", "-", "*", "/", "%", "&", "|", "^", "&^", "<<", ">>", "==", "!=", "<", "<=", ">", ">=", "&&", "||">>
BinOpsSmall == <<"+", "-", "/", "%", "<<", "==", "<", "&&">>
UnOps == <<"-", "+", "!", "^", "*", "&", "<-">>
ConvTs == <<"int", "int8", "uint8", "float64", "string", "N", "any", "NS">>

LeafE(L) == Map1(L, LAMBDA l : <<l[2], "leaf", "", l[1], "">>)
UnE(ops, L) == Pairs(ops, L, LAMBDA op, l : <<Un(op, l[2]), "un", op, l[1], "">>)
BinE(ops, L) == Flat(Map1(ops, LAMBDA op : Pairs(L, L, LAMBDA a, b : <<Bin(op, a[2], b[2]), "bin", op, a[1], b[1]>>)))
ConvE(ts, L) == Pairs(ts, L, LAMBDA t, l : <<Conv(t, l[2]), "conv", t, l[1], "">>)
MiscE(L) == Flat(<<
   Map1(L, LAMBDA l : <<Call(Id("f1"), <<l[2]>>), "call", "f1", l[1], "">>),
   Map1(L, LAMBDA l : <<Call(Id("vfn"), <<l[2]>>), "call", "vfn", l[1], "">>),
   Map1(L, LAMBDA l : <<Index(Id("vsl"), l[2]), "index", "vsl", l[1], "">>),
   Map1(L, LAMBDA l : <<Index(Id("vm"), l[2]), "index", "vm", l[1], "">>),
   Map1(L, LAMBDA l : <<Index(Id("vs"), l[2]), "index", "vs", l[1], "">>),
   Map1(L, LAMBDA l : <<Index(LitS, l[2]), "index", "s", l[1], "">>),
   Map1(L, LAMBDA l : <<Index(l[2], LitI(0)), "indexof", "0", l[1], "">>),
   Map1(L, LAMBDA l : <<SliceE(Id("vsl"), l[2]), "slice", "vsl", l[1], "">>),
   Map1(L, LAMBDA l : <<SliceE(LitS, l[2]), "slice", "s", l[1], "">>),
   Map1(L, LAMBDA l : <<SliceE(l[2], LitI(1)), "sliceof", "1", l[1], "">>),
   Map1(L, LAMBDA l : <<Builtin("len", <<l[2]>>), "builtin", "len", l[1], "">>),
   Map1(L, LAMBDA l : <<Builtin("cap", <<l[2]>>), "builtin", "cap", l[1], "">>),
   Map1(L, LAMBDA l : <<Builtin("append", <<Id("vsl"), l[2]>>), "builtin", "append", l[1], "">>),
   Map1(L, LAMBDA l : <<Builtin("append", <<l[2], LitI(1)>>), "builtin", "appendto", l[1], "">>),
   Map1(L, LAMBDA l : <<Builtin("make", <<l[2]>>), "builtin", "make", l[1], "">>),
   Map1(L, LAMBDA l : <<Builtin("panic", <<l[2]>>), "builtin", "panic", l[1], "">>),
   Map1(L, LAMBDA l : <<Builtin("delete", <<Id("vm"), l[2]>>), "builtin", "delete", l[1], "">>),
   Map1(L, LAMBDA l : <<AssertE(l[2], "int"), "assert", "int", l[1], "">>),
   Map1(L, LAMBDA l : <<SliceLit(<<l[2]>>), "slicelit", "", l[1], "">>),
   Map1(L, LAMBDA l : <<MapLit(l[2], LitI(1)), "maplit", "key", l[1], "">>),
   Map1(L, LAMBDA l : <<MapLit(LitS, l[2]), "maplit", "val", l[1], "">>),
   Map1(L, LAMBDA l : <<FL("z", l[2], LitI(1)), "flcall", "ret", l[1], "">>),
   Map1(L, LAMBDA l : <<FL("vi", Id("vi"), l[2]), "flcall", "arg", l[1], "">>),
   Map1(L, LAMBDA l : <<FL("vs", l[2], Id("vs")), "flcall", "hide", l[1], "">>),
   << <<Call(Id("f0"), <<>>), "call", "f0", "", "">>, <<Call(Id("f2"), <<>>), "call", "f2", "", "">>,
      <<Call(Id("f1"), <<>>), "call", "f1", "", "">>, <<Call(Id("fv"), <<>>), "call", "fv", "", "">>,
      <<AssertE(Id("va"), "error"), "assert", "error", "va", "">>, <<AssertE(Id("ve"), "int"), "assert", "int", "ve", "">>,
      <<AssertE(Id("ve"), "any"), "assert", "any", "ve", "">>, <<AssertE(Id("va"), "[]int"), "assert", "[]int", "va", "">>,
      <<Id("f1"), "leaf", "", "f1", "">>, <<SliceLit(<<>>), "slicelit", "", "", "">> >> >>)

LQ == Pick({"vi", "vi8", "vf", "vs", "vsl", "va", "1", "300", "1.5", "nil"})
MiscTiny == << <<Call(Id("f1"), <<Id("vs")>>), "call", "f1", "vs", "">>, <<Call(Id("f1"), <<LitI(1)>>), "call", "f1", "1", "">>,
   <<Call(Id("f0"), <<>>), "call", "f0", "", "">>, <<Call(Id("f2"), <<>>), "call", "f2", "", "">>,
   <<Index(Id("vsl"), LitI(0)), "index", "vsl", "0", "">>, <<Index(Id("vm"), LitS), "index", "vm", "s", "">>, <<Index(Id("vs"), LitI(0)), "index", "vs", "0", "">>,
   <<Index(LitS, LitI(0)), "index", "s", "0", "">>, <<SliceE(Id("vsl"), LitI(1)), "slice", "vsl", "1", "">>, <<SliceE(Id("vs"), LitI(1)), "sliceof", "1", "vs", "">>,
   <<Builtin("len", <<Id("vs")>>), "builtin", "len", "vs", "">>, <<Builtin("len", <<LitS>>), "builtin", "len", "s", "">>,
   <<Builtin("append", <<Id("vsl"), LitI(1)>>), "builtin", "append", "1", "">>, <<Builtin("make", <<LitI(1)>>), "builtin", "make", "1", "">>,
   <<Builtin("panic", <<LitS>>), "builtin", "panic", "s", "">>, <<Builtin("delete", <<Id("vm"), LitS>>), "builtin", "delete", "s", "">>,
   <<AssertE(Id("va"), "int"), "assert", "int", "va", "">>, <<AssertE(Id("va"), "error"), "assert", "error", "va", "">>,
   <<SliceLit(<<LitI(1)>>), "slicelit", "", "1", "">>, <<MapLit(LitS, LitI(1)), "maplit", "val", "1", "">>, <<Id("f1"), "leaf", "", "f1", "">> >>
EAll == LeafE(Leaves) \o UnE(UnOps, Leaves) \o BinE(BinOps, Leaves) \o ConvE(ConvTs, Leaves) \o MiscE(Leaves)
EMid == LeafE(Leaves) \o UnE(UnOps, Leaves) \o BinE(BinOps, LQ) \o ConvE(ConvTs, LSmall) \o MiscE(IF Tier = 1 THEN LTiny ELSE LSmall)
ETiny == LeafE(Leaves) \o UnE(UnOps, LTiny) \o BinE(<<"+", "<<", "==", "<">>, LTiny) \o ConvE(<<"int8", "string">>, LTiny) \o MiscTiny
ESmall == ETiny \o UnE(UnOps, Pick({"vf", "vsl", "va", "1.5", "300"})) \o BinE(<<"-", "/", "%", "&&">>, LTiny)
          \o Pairs(<<"+", "==", "<<">>, Pick({"vf", "1.5", "300"}), LAMBDA op, l : <<Bin(op, Id("vi"), l[2]), "bin", op, "vi", l[1]>>)
          \o Pairs(<<"+", "==", "<<">>, Pick({"vf", "1.5", "300"}), LAMBDA op, l : <<Bin(op, l[2], LitI(1)), "bin", op, l[1], "1">>)

(* ---------------------------------------------------------------- statement contexts: name -> <<res, body>> *)
AllTs == <<"int", "int8", "uint8", "float64", "string", "bool", "N", "*int", "[]int", "map[string]int", "func(int) int", "any", "error", "chan int", "NS">>
VarOf(t) == CASE t = "int" -> "vi" [] t = "int8" -> "vi8" [] t = "uint8" -> "vu8" [] t = "float64" -> "vf" [] t = "string" -> "vs"
              [] t = "bool" -> "vb" [] t = "N" -> "vn" [] t = "*int" -> "vp" [] t = "[]int" -> "vsl" [] t = "map[string]int" -> "vm"
              [] t = "func(int) int" -> "vfn" [] t = "any" -> "va" [] t = "error" -> "ve" [] t = "chan int" -> "vch" [] t = "NS" -> "vns"
CtxNamesCore == <<"blank", "varinfer", "define", "if", "for", "ret:none", "ret2", "arg:f1", "arg:fv", "arg:fvspread",
   "index:sl", "index:map", "index:str", "slice", "shcount", "shleft", "shleftf", "swtag", "swcase", "swbool", "send", "eqnil",
   "add1", "addf", "neg", "not", "opasg:vi", "opasg:vs", "opasg:shl", "incdec", "lhs", "stmt", "go", "defer", "len", "append",
   "appendto", "make", "slicelit", "mapkey", "assert", "deref", "addr", "callit", "const", "const:int8", "tswitch", "closureret",
   "selsend", "selrecv">>
CtxNames == CtxNamesCore \o Map1(AllTs, LAMBDA t : "var:" \o t) \o Map1(AllTs, LAMBDA t : "asg:" \o t)
            \o Map1(<<"int", "uint8", "float64", "string", "any", "error", "N">>, LAMBDA t : "ret:" \o t)
            \o Map1(<<"int8", "float64", "string", "any">>, LAMBDA t : "conv:" \o t)
\* TLC has no string indexing: parametrised context names are resolved through tables
ParamCtx == Flat(<< Map1(AllTs, LAMBDA t : <<"var:" \o t, "var", t>>), Map1(AllTs, LAMBDA t : <<"asg:" \o t, "asg", t>>),
                    Map1(<<"int", "uint8", "float64", "string", "any", "error", "N">>, LAMBDA t : <<"ret:" \o t, "ret", t>>),
                    Map1(<<"int8", "float64", "string", "any">>, LAMBDA t : <<"conv:" \o t, "conv", t>>) >>)
CtxKind(name) == LET S == {j \in 1..Len(ParamCtx) : ParamCtx[j][1] = name} IN
                 IF S = {} THEN <<name, name, "">> ELSE ParamCtx[CHOOSE j \in S : TRUE]
CtxRes(name) == LET c == CtxKind(name) IN
                IF c[2] = "ret" THEN <<c[3]>> ELSE IF name = "ret2" THEN <<"int", "string">> ELSE <<>>
CtxBody(name, E) ==
  LET c == CtxKind(name) kind == c[2] t == c[3] IN
  CASE kind = "var" -> <<Var(<<"x">>, t, <<E>>), Use("x")>>
    [] kind = "asg" -> <<Assign(<<Id(VarOf(t))>>, <<E>>)>>
    [] kind = "ret" -> <<Return(<<E>>)>>
    [] kind = "conv" -> <<Blank(Conv(t, E))>>
    [] kind = "blank" -> <<Blank(E)>>
    [] kind = "varinfer" -> <<Var(<<"x">>, "", <<E>>), Use("x")>>
    [] kind = "define" -> <<Define(<<"x">>, <<E>>), Use("x")>>
    [] kind = "if" -> <<If(E, <<>>)>>
    [] kind = "for" -> <<ForC(E, <<>>)>>
    [] kind = "ret:none" -> <<Return(<<E>>)>>
    [] kind = "ret2" -> <<Return(<<E>>)>>
    [] kind = "arg:f1" -> <<ExprS(Call(Id("f1"), <<E>>))>>
    [] kind = "arg:fv" -> <<ExprS(Call(Id("fv"), <<E>>))>>
    [] kind = "arg:fvspread" -> <<ExprS(CallS(Id("fv"), <<E>>))>>
    [] kind = "index:sl" -> <<Blank(Index(Id("vsl"), E))>>
    [] kind = "index:map" -> <<Blank(Index(Id("vm"), E))>>
    [] kind = "index:str" -> <<Blank(Index(Id("vs"), E))>>
    [] kind = "slice" -> <<Blank(SliceE(Id("vsl"), E))>>
    [] kind = "shcount" -> <<Blank(Bin("<<", Id("vi"), E))>>
    [] kind = "shleft" -> <<Blank(Bin("<<", E, Id("vu8")))>>
    [] kind = "shleftf" -> <<Var(<<"x">>, "float64", <<Bin("<<", E, Id("vu8"))>>), Use("x")>>
    [] kind = "swtag" -> <<SwitchT(E, <<Case(<<LitI(1)>>, <<>>)>>)>>
    [] kind = "swcase" -> <<SwitchT(Id("vi"), <<Case(<<E>>, <<>>)>>)>>
    [] kind = "swbool" -> <<Switch(<<Case(<<E>>, <<>>)>>)>>
    [] kind = "send" -> <<Send(Id("vch"), E)>>
    [] kind = "eqnil" -> <<Blank(Bin("==", E, Id("nil")))>>
    [] kind = "add1" -> <<Blank(Bin("+", E, LitI(1)))>>
    [] kind = "addf" -> <<Blank(Bin("+", E, Id("vf")))>>
    [] kind = "neg" -> <<Blank(Un("-", E))>>
    [] kind = "not" -> <<Blank(Un("!", E))>>
    [] kind = "opasg:vi" -> <<OpAssign("+", Id("vi"), E)>>
    [] kind = "opasg:vs" -> <<OpAssign("+", Id("vs"), E)>>
    [] kind = "opasg:shl" -> <<OpAssign("<<", Id("vi"), E)>>
    [] kind = "incdec" -> <<IncDec(E)>>
    [] kind = "lhs" -> <<Assign(<<E>>, <<LitI(1)>>)>>
    [] kind = "stmt" -> <<ExprS(E)>>
    [] kind = "go" -> <<GoS(E)>>
    [] kind = "defer" -> <<DeferS(E)>>
    [] kind = "len" -> <<Blank(Builtin("len", <<E>>))>>
    [] kind = "append" -> <<Blank(Builtin("append", <<Id("vsl"), E>>))>>
    [] kind = "appendto" -> <<Blank(Builtin("append", <<E, LitI(1)>>))>>
    [] kind = "make" -> <<Blank(Builtin("make", <<E>>))>>
    [] kind = "slicelit" -> <<Blank(SliceLit(<<E>>))>>
    [] kind = "mapkey" -> <<Blank(MapLit(E, LitI(1)))>>
    [] kind = "assert" -> <<Blank(AssertE(E, "int"))>>
    [] kind = "deref" -> <<Blank(Un("*", E))>>
    [] kind = "addr" -> <<Blank(Un("&", E))>>
    [] kind = "callit" -> <<Blank(Call(E, <<LitI(1)>>))>>
    [] kind = "const" -> <<Const("c", "", E), Use("c")>>
    [] kind = "const:int8" -> <<Const("c", "int8", E), Use("c")>>
    [] kind = "tswitch" -> <<TSwitch("", E, <<TCase(<<"int">>, <<>>)>>)>>
    [] kind = "closureret" -> <<Closure(<<"int">>, <<Return(<<E>>)>>)>>
    [] kind = "selsend" -> <<Select(<<CSend(Id("vch"), E, <<>>)>>)>>
    [] kind = "selrecv" -> <<Select(<<CRecvAsg(<<Id("vi")>>, E, <<>>)>>)>>

ExprCases(names, E) == Pairs(names, E, LAMBDA c, e : Prog("exprctx", c, <<e[2], e[3], e[4], e[5]>>, CtxRes(c), CtxBody(c, e[1])))

KeyCtx == <<"var:int8", "var:float64", "var:any", "asg:N", "if", "index:sl">>
QuickCtx == <<"varinfer", "var:int", "var:int8", "var:uint8", "var:float64", "var:any", "asg:error", "if", "ret2", "index:sl", "shcount", "shleftf", "lhs", "stmt">>
ExprProgs == IF Tier = 1 THEN ExprCases(<<"blank">>, EMid) \o ExprCases(QuickCtx, ETiny)
             ELSE ExprCases(<<"blank">>, EAll) \o ExprCases(KeyCtx, EMid) \o ExprCases(CtxNames, ESmall)

(* ---------------------------------------------------------------- B1: terminating statements, break/continue, labels *)
RetFor(res) == IF res = <<>> THEN Return(<<>>) ELSE Return(<<LitI(1)>>)
T0(res) == << <<>>, <<RetFor(res)>>, <<Panic>>, <<Nop>>, <<Break("")>>, <<Continue("")>> >>
RecvVch == Un("<-", Id("vch"))
S1(res) == LET T == T0(res) IN Flat(<<
   Pairs(T, T, LAMBDA a, b : IfElse(Id("vb"), a, b)),
   Map1(T, LAMBDA a : If(Id("vb"), a)),
   Map1(T, LAMBDA a : For(a)),
   Map1(T, LAMBDA a : ForC(Id("vb"), a)),
   Pairs(T, T, LAMBDA a, b : Switch(<<Case(<<Id("vb")>>, a), Dflt(b)>>)),
   Map1(T, LAMBDA a : Switch(<<Case(<<Id("vb")>>, a)>>)),
   Map1(T, LAMBDA a : Block(a)),
   Map1(T, LAMBDA a : Select(<<CRecv(Id("vch"), a)>>)),
   Pairs(T, T, LAMBDA a, b : Select(<<CRecv(Id("vch"), a), CDflt(b)>>)),
   Map1(T, LAMBDA a : TSwitch("", Id("va"), <<TCase(<<"int">>, a), TDflt(<<RetFor(res)>>)>>)),
   <<Select(<<>>)>>,
   \* a call of a function literal is an expression statement: never terminating, whatever the literal's body ends with
   Map1(T0(<<>>), LAMBDA a : Closure(<<>>, a)),
   <<Closure(<<"int">>, <<Return(<<LitI(1)>>)>>), Closure(<<"int">>, <<Panic>>), ExprS(FL("z", Id("z"), LitI(1))),
     Send(Id("vch"), FL("z", Id("z"), LitI(1))), IncDec(Index(Id("vsl"), FL("z", Id("z"), LitI(1))))>> >>)
\* a terminating statement followed by a statement that is not: the list does not end in a terminating statement
TermHeads(res) == <<RetFor(res), Panic, For(<<>>), Block(<<RetFor(res)>>), IfElse(Id("vb"), <<RetFor(res)>>, <<Panic>>)>>
Trailers == <<ExprS(Call(Id("f0"), <<>>)), ExprS(Call(Id("f1"), <<LitI(1)>>)), Send(Id("vch"), LitI(1)), ExprS(RecvVch), TypeDecl("T"),
              IncDec(Id("vi")), OpAssign("+", Id("vi"), LitI(1)), Var(<<"_">>, "int", <<>>), Const("c", "", LitI(1)), GoS(Call(Id("f0"), <<>>)),
              DeferS(Call(Id("f0"), <<>>)), Block(<<>>), If(Id("vb"), <<>>), Closure(<<>>, <<>>), Blank(LitI(1)),
              ExprS(Builtin("delete", <<Id("vm"), LitS>>)), Select(<<CDflt(<<>>)>>), Switch(<<>>), ForC(Id("vb"), <<>>)>>
TrailBodies(res) == LET H == IF Tier = 1 THEN SubSeq(TermHeads(res), 1, 3) ELSE TermHeads(res) IN Pairs(H, Trailers, LAMBDA h, t : <<h, t>>)
S2(res) == LET S == S1(res) IN Flat(<<
   Map1(S, LAMBDA s : For(<<s>>)),
   Map1(S, LAMBDA s : IfElse(Id("vb"), <<s>>, <<RetFor(res)>>)),
   Map1(S, LAMBDA s : Switch(<<Case(<<Id("vb")>>, <<s>>), Dflt(<<RetFor(res)>>)>>)),
   Map1(S, LAMBDA s : Closure(res, <<s>>)),
   Map1(S, LAMBDA s : For(<<Closure(<<>>, <<s>>)>>)) >>)
Labeled(res) == LET inner == << <<Break("L")>>, <<Continue("L")>>, <<For(<<Break("L")>>)>>, <<For(<<Break("")>>)>>, <<For(<<Continue("L")>>)>>,
                               <<Switch(<<Case(<<Id("vb")>>, <<Break("L")>>)>>)>>, <<Switch(<<Case(<<Id("vb")>>, <<Break("")>>)>>)>>,
                               <<Select(<<CRecv(Id("vch"), <<Break("L")>>)>>)>>, <<Select(<<CRecv(Id("vch"), <<Break("")>>)>>)>>,
                               <<If(Id("vb"), <<Break("L")>>)>>, <<If(Id("vb"), <<Continue("L")>>)>>, <<Nop>>, <<>>,
                               <<Closure(<<>>, <<Break("L")>>)>>, <<Break("M")>> >> IN
   Flat(<< Map1(inner, LAMBDA b : ForL("L", b)),
           Map1(inner, LAMBDA b : SwitchL("L", <<Case(<<Id("vb")>>, b), Dflt(<<RetFor(res)>>)>>)),
           Map1(inner, LAMBDA b : SelectL("L", <<CRecv(Id("vch"), b)>>)),
           Map1(inner, LAMBDA b : For(<<ForL("L", b)>>)) >>)
TermBodies(res) == T0(res) \o Map1(S1(res), LAMBDA s : <<s>>)
                   \o (IF Tier = 1 THEN <<>> ELSE Map1(S1(res), LAMBDA s : <<s, Nop>>) \o Map1(S2(res), LAMBDA s : <<s>>)) \o Map1(Labeled(res), LAMBDA s : <<s>>)
                   \o TrailBodies(res)
TermProgs == Map1(TermBodies(<<"int">>), LAMBDA b : Prog("term", "int", NoDesc, <<"int">>, b))
             \o Map1(TermBodies(<<>>), LAMBDA b : Prog("term", "none", NoDesc, <<>>, b))

(* ---------------------------------------------------------------- B2: := , unused variables, shadowing, closures *)
DeclAlphabet == <<
   Define(<<"a">>, <<LitI(1)>>), Define(<<"a", "b">>, <<LitI(1), LitI(2)>>), Define(<<"a", "b">>, <<Call(Id("f2"), <<>>)>>),
   Assign(<<Id("a")>>, <<LitI(2)>>), Use("a"), Use("b"), Var(<<"a">>, "int", <<>>),
   Block(<<Define(<<"a">>, <<LitI(2)>>), Use("a")>>), Define(<<"a", "a">>, <<LitI(1), LitI(2)>>),
   Closure(<<>>, <<Define(<<"a">>, <<LitI(1)>>)>>), Closure(<<>>, <<Use("a")>>), Closure(<<>>, <<Assign(<<Id("a")>>, <<LitI(3)>>)>>),
   IncDec(Id("a")), Define(<<"a", "b">>, <<LitS, LitI(2)>>), Define(<<"b">>, <<Id("a")>>),
   IfInit(Define(<<"a">>, <<LitI(1)>>), Id("vb"), <<Use("a")>>), Define(<<"_", "a">>, <<LitI(1), LitI(2)>>), Define(<<"_">>, <<LitI(1)>>),
   Define(<<"a", "_">>, <<Call(Id("f2"), <<>>)>>), OpAssign("+", Id("a"), LitI(1)), Define(<<"a">>, <<Id("nil")>>),
   Define(<<"vi", "a">>, <<LitI(1), LitI(2)>>), Define(<<"vi">>, <<LitI(1)>>) >>
DeclSeqs == LET A == IF Tier = 1 THEN SubSeq(DeclAlphabet, 1, 15) ELSE DeclAlphabet IN
   Map1(A, LAMBDA s : <<s>>) \o Pairs(A, A, LAMBDA s, t : <<s, t>>)
   \o (IF Tier = 1 THEN <<>> ELSE LET B == SubSeq(A, 1, 13) IN Flat(Map1(B, LAMBDA s : Pairs(B, B, LAMBDA t, u : <<s, t, u>>))))
DeclProgs == Map1(DeclSeqs, LAMBDA b : Prog("decl", "", NoDesc, <<>>, b))

(* ---------------------------------------------------------------- B3: imports and top-level declarations *)
Imp(alias, path) == [alias |-> alias, path |-> path]
ImportSets == << <<>>, <<Imp("", "p")>>, <<Imp("q", "p")>>, <<Imp("_", "p")>>, <<Imp("", "p"), Imp("", "p")>>, <<Imp("", "p"), Imp("q", "p")>>,
                 <<Imp("f1", "p")>>, <<Imp("vi", "p")>> >>
ImportBodies == << <<>>, <<Blank(Call(Sel("p", "F"), <<LitI(1)>>))>>, <<Blank(Call(Sel("q", "F"), <<LitI(1)>>))>>,
                   <<Define(<<"p">>, <<LitI(1)>>), Use("p")>>, <<Blank(Sel("p", "G"))>>, <<Blank(Id("p"))>>,
                   <<Block(<<Define(<<"p">>, <<LitI(1)>>), Use("p")>>), Blank(Call(Sel("p", "F"), <<LitI(1)>>))>>,
                   <<Blank(Call(Sel("p", "F"), <<LitS>>))>>, <<Closure(<<>>, <<Blank(Call(Sel("p", "F"), <<LitI(1)>>))>>)>> >>
ImportProgs == Pairs(ImportSets, ImportBodies, LAMBDA i, b : [Prog("import", "", NoDesc, <<>>, b) EXCEPT !.imports = i])
TFunc_(name, params, res, body) == [k |-> "func", name |-> name, params |-> params, res |-> res, body |-> body]
Par(n, t) == [name |-> n, t |-> t]
TopSets == << <<TFunc_("h", <<>>, <<>>, <<>>)>>, <<TFunc_("h", <<>>, <<>>, <<>>), TFunc_("h", <<>>, <<>>, <<>>)>>,
   <<[k |-> "var", name |-> "h", t |-> "int"], TFunc_("h", <<>>, <<>>, <<>>)>>, <<[k |-> "type", name |-> "h"], [k |-> "var", name |-> "h", t |-> "int"]>>,
   <<TFunc_("f1", <<>>, <<>>, <<>>)>>, <<TFunc_("main", <<>>, <<>>, <<>>)>>, <<[k |-> "var", name |-> "N", t |-> "int"]>>, <<[k |-> "type", name |-> "N"]>>,
   <<TFunc_("h", <<Par("a", "int"), Par("a", "int")>>, <<>>, <<>>)>>, <<TFunc_("h", <<Par("a", "int"), Par("b", "string")>>, <<>>, <<>>)>>,
   <<TFunc_("h", <<Par("_", "int"), Par("_", "int")>>, <<>>, <<>>)>>,
   <<[k |-> "const", name |-> "c", t |-> "", e |-> LitI(1)]>>, <<[k |-> "const", name |-> "c", t |-> "int8", e |-> LitI(300)]>>,
   <<[k |-> "const", name |-> "c", t |-> "int8", e |-> LitI(1)], [k |-> "const", name |-> "c", t |-> "", e |-> LitI(2)]>>,
   <<[k |-> "var", name |-> "h", t |-> "int"], [k |-> "const", name |-> "c", t |-> "", e |-> Id("h")]>>,
   <<[k |-> "const", name |-> "c", t |-> "[]int", e |-> Id("nil")]>>,
   <<TFunc_("h", <<>>, <<"int">>, <<>>)>>, <<TFunc_("h", <<>>, <<"int">>, <<For(<<>>)>>)>>, <<TFunc_("h", <<>>, <<>>, <<Define(<<"x">>, <<LitI(1)>>)>>)>>,
   <<TFunc_("h", <<Par("a", "int")>>, <<>>, <<Define(<<"a">>, <<LitI(1)>>)>>)>>, <<TFunc_("h", <<Par("a", "int")>>, <<>>, <<Var(<<"a">>, "int", <<>>), Use("a")>>)>>,
   <<TFunc_("h", <<Par("a", "int")>>, <<>>, <<Block(<<Define(<<"a">>, <<LitI(1)>>), Use("a")>>)>>)>>,
   <<TFunc_("h", <<>>, <<>>, <<Break("")>>)>>, <<TFunc_("h", <<Par("a", "int")>>, <<"int">>, <<Return(<<Id("a")>>)>>)>>,
   <<TFunc_("h", <<Par("a", "int")>>, <<"string">>, <<Return(<<Id("a")>>)>>)>>,
   <<[k |-> "var", name |-> "vi", t |-> "string"]>>, <<[k |-> "var", name |-> "h", t |-> "int"]>> >>
TopBodies == << <<>>, <<ExprS(Call(Id("h"), <<>>))>>, <<Blank(Id("h"))>>, <<Blank(Id("c"))>>, <<Var(<<"y">>, "uint8", <<Id("c")>>), Use("y")>>,
                <<ExprS(Call(Id("h"), <<LitI(1)>>))>>, <<ExprS(Call(Id("h"), <<LitI(1), LitS>>))>>, <<Assign(<<Id("h")>>, <<LitI(1)>>)>> >>
TopProgs == Pairs(TopSets, TopBodies, LAMBDA t, b : [Prog("top", "", NoDesc, <<>>, b) EXCEPT !.tops = t])

(* ---------------------------------------------------------------- B4: clause scoping in select / switch / type switch *)
SelAlphabet == <<
   CRecvDef(<<"x">>, Id("vch"), <<Use("x")>>), CRecvDef(<<"x">>, Id("vch"), <<>>),
   CRecvDef(<<"x">>, Id("vch"), <<Use("x"), Define(<<"x">>, <<LitI(2)>>), Use("x")>>),      \* the clause body is the clause's block: no new variables CRecvDef(<<"x", "ok">>, Id("vch"), <<Use("x"), Use("ok")>>),
   CRecvDef(<<"x", "ok">>, Id("vch"), <<Use("x")>>), CRecv(Id("vch"), <<>>), CSend(Id("vch"), LitI(1), <<>>), CDflt(<<>>),
   CRecvAsg(<<Id("vi")>>, Id("vch"), <<>>), CRecvAsg(<<Id("vi"), Id("vb")>>, Id("vch"), <<>>), CRecvAsg(<<Id("vs")>>, Id("vch"), <<>>),
   CRecvDef(<<"x">>, Id("vch"), <<Define(<<"x">>, <<LitI(2)>>), Use("x")>>), CRecvDef(<<"y">>, Id("vch"), <<Use("x")>>),
   CRecvDef(<<"x">>, Id("vi"), <<Use("x")>>), CRecvDef(<<"x">>, Id("vch"), <<Use("x"), Block(<<Define(<<"x">>, <<LitS>>), Use("x")>>)>>),
   CRecvDef(<<"x">>, Id("vch"), <<Var(<<"y">>, "string", <<Id("x")>>), Use("y")>>), CRecvDef(<<"_">>, Id("vch"), <<>>),
   CRecvDef(<<"x", "x">>, Id("vch"), <<Use("x")>>), CSend(Id("vch"), LitS, <<>>), CSend(Id("vi"), LitI(1), <<>>),
   CRecv(Id("vch"), <<Define(<<"x">>, <<LitI(1)>>), Use("x")>>), CRecv(Id("vch"), <<Define(<<"x">>, <<LitI(1)>>)>>) >>
SelBodies == LET A == IF Tier = 1 THEN SubSeq(SelAlphabet, 1, 13) ELSE SelAlphabet
                 sels == Map1(A, LAMBDA c : Select(<<c>>)) \o Pairs(A, A, LAMBDA c, d : Select(<<c, d>>)) IN
   Map1(sels, LAMBDA s : <<s>>)
   \o (IF Tier = 1 THEN <<>> ELSE Map1(sels, LAMBDA s : <<s, Use("x")>>) \o Map1(sels, LAMBDA s : <<Define(<<"x">>, <<LitS>>), s, Use("x")>>))
SwScope == <<
   <<Switch(<<Case(<<Id("vb")>>, <<Define(<<"x">>, <<LitI(1)>>), Use("x")>>), Case(<<Id("true")>>, <<Define(<<"x">>, <<LitS>>), Use("x")>>)>>)>>,
   <<Switch(<<Case(<<Id("vb")>>, <<Define(<<"x">>, <<LitI(1)>>), Use("x")>>), Case(<<Id("true")>>, <<Use("x")>>)>>)>>,
   <<Switch(<<Case(<<Id("vb")>>, <<Define(<<"x">>, <<LitI(1)>>)>>), Case(<<Id("true")>>, <<Define(<<"x">>, <<LitI(1)>>), Use("x")>>)>>)>>,
   <<Switch(<<Dflt(<<>>), Dflt(<<>>)>>)>>, <<Switch(<<Dflt(<<>>), Case(<<Id("vb")>>, <<>>)>>)>>,
   <<SwitchT(Id("vi"), <<Case(<<LitI(1), LitI(2)>>, <<>>), Case(<<Id("vi8")>>, <<>>)>>)>>,
   <<SwitchT(Id("vi"), <<Case(<<LitI(1), Id("vn")>>, <<>>)>>)>>, <<SwitchT(Id("vsl"), <<Case(<<Id("nil")>>, <<>>)>>)>>,
   <<SwitchT(Id("vsl"), <<Case(<<Id("vsl")>>, <<>>)>>)>>, <<SwitchT(Id("nil"), <<>>)>>, <<SwitchT(Id("va"), <<Case(<<LitI(1), LitS, Id("nil")>>, <<>>)>>)>>,
   <<SwitchT(LitI(300), <<Case(<<Id("vi8")>>, <<>>)>>)>>, <<SwitchT(LitI(1), <<Case(<<Id("vi8")>>, <<>>)>>)>>, <<SwitchT(LitF, <<Case(<<LitI(1)>>, <<>>)>>)>>,
   <<SwitchT(Call(Id("f2"), <<>>), <<>>)>>, <<SwitchT(Call(Id("f0"), <<>>), <<>>)>>, <<SwitchT(Id("vfn"), <<Case(<<Id("nil")>>, <<>>)>>)>>,
   <<TSwitch("y", Id("va"), <<TCase(<<"int">>, <<Use("y")>>)>>)>>, <<TSwitch("y", Id("va"), <<TCase(<<"int">>, <<>>)>>)>>,
   <<TSwitch("y", Id("va"), <<TCase(<<"int">>, <<>>), TCase(<<"string">>, <<Use("y")>>)>>)>>, <<TSwitch("y", Id("va"), <<>>)>>,
   <<TSwitch("y", Id("va"), <<TCase(<<"int">>, <<Var(<<"z">>, "int", <<Id("y")>>), Use("z")>>)>>)>>,
   <<TSwitch("y", Id("va"), <<TCase(<<"int", "string">>, <<Var(<<"z">>, "int", <<Id("y")>>), Use("z")>>)>>)>>,
   <<TSwitch("y", Id("va"), <<TCase(<<"int", "string">>, <<Var(<<"z">>, "any", <<Id("y")>>), Use("z")>>)>>)>>,
   <<TSwitch("y", Id("va"), <<TDflt(<<Var(<<"z">>, "any", <<Id("y")>>), Use("z")>>)>>)>>,
   <<TSwitch("", Id("vi"), <<TCase(<<"int">>, <<>>)>>)>>, <<TSwitch("", Id("ve"), <<TCase(<<"int">>, <<>>)>>)>>, <<TSwitch("", Id("ve"), <<TCase(<<"error">>, <<>>)>>)>>,
   <<TSwitch("", Id("va"), <<TCase(<<"int">>, <<>>), TCase(<<"int">>, <<>>)>>)>>, <<TSwitch("", Id("va"), <<TDflt(<<>>), TDflt(<<>>)>>)>>,
   <<TSwitch("y", Id("va"), <<TCase(<<"int">>, <<Define(<<"y">>, <<LitI(1)>>), Use("y")>>)>>)>>,
   <<TSwitch("", Id("va"), <<TCase(<<"int">>, <<Define(<<"x">>, <<LitI(1)>>), Use("x")>>), TCase(<<"string">>, <<Define(<<"x">>, <<LitS>>), Use("x")>>)>>)>> >>
ScopeProgs == Map1(SelBodies, LAMBDA b : Prog("selscope", "", NoDesc, <<>>, b)) \o Map1(SwScope, LAMBDA b : Prog("swscope", "", NoDesc, <<>>, b))

(* ---------------------------------------------------------------- B5: calls (arity, variadic, spread) and multi-value forms *)
CallFuncs == <<"f0", "f1", "f2", "f3", "fv", "fvs", "vfn", "vi">>
ArgLeaves == IF Tier = 1 THEN <<LitI(1), LitS, Id("vsl"), Call(Id("f2"), <<>>)>>
             ELSE <<LitI(1), LitS, Id("vi"), Id("vs"), Id("vsl"), Id("nil"), Call(Id("f2"), <<>>), LitF>>
ArgLists == << <<>> >> \o Map1(ArgLeaves, LAMBDA a : <<a>>) \o Pairs(ArgLeaves, ArgLeaves, LAMBDA a, b : <<a, b>>)
            \o (IF Tier = 1 THEN <<>> ELSE Flat(Map1(<<LitI(1), LitS, Id("vsl")>>, LAMBDA a : Pairs(ArgLeaves, ArgLeaves, LAMBDA b, c : <<a, b, c>>))))
CallExprs == Pairs(CallFuncs, ArgLists, LAMBDA f, as : Call(Id(f), as))
             \o Pairs(CallFuncs, SelectSeq(ArgLists, LAMBDA as : Len(as) \in {1, 2}), LAMBDA f, as : CallS(Id(f), as))
CallDesc(c) == <<"call", c.f.name, IF c.spread THEN "..." ELSE "", "">>
CallProgs == Map1(CallExprs, LAMBDA c : Prog("call", "stmt", CallDesc(c), <<>>, <<ExprS(c)>>))
             \o (IF Tier = 1 THEN <<>> ELSE Map1(CallExprs, LAMBDA c : Prog("call", "blank", CallDesc(c), <<>>, <<Blank(c)>>)))
MvRhs == << <<Call(Id("f2"), <<>>)>>, <<Index(Id("vm"), LitS)>>, <<RecvVch>>, <<AssertE(Id("va"), "int")>>, <<Id("vi")>>, <<Call(Id("f1"), <<LitI(1)>>)>>,
            <<LitI(1), LitS>>, <<LitI(1), Id("true")>>, <<Call(Id("f0"), <<>>)>>, <<LitI(1), LitS, LitI(2)>>, <<Call(Id("f2"), <<>>), LitI(1)>>,
            <<Index(Id("vsl"), LitI(0))>>, <<Index(Id("vs"), LitI(0))>>, <<Builtin("len", <<Id("vs")>>)>> >>
RhsDesc(r) == <<"rhs", r[1].k, IF r[1].k = "index" THEN r[1].x.name ELSE IF r[1].k = "call" THEN r[1].f.name ELSE IF r[1].k = "builtin" THEN r[1].name ELSE "",
                IF Len(r) = 1 THEN "1" ELSE IF Len(r) = 2 THEN "2" ELSE "3">>
MvProgs == Flat(Map1(MvRhs, LAMBDA r : <<
      Prog("multi", "define2", RhsDesc(r), <<>>, <<Define(<<"a", "b">>, r), Use("a"), Use("b")>>),
      Prog("multi", "asg:int,string", RhsDesc(r), <<>>, <<Assign(<<Id("vi"), Id("vs")>>, r)>>),
      Prog("multi", "asg:int,bool", RhsDesc(r), <<>>, <<Assign(<<Id("vi"), Id("vb")>>, r)>>),
      Prog("multi", "asg:_,_", RhsDesc(r), <<>>, <<Assign(<<Id("_"), Id("_")>>, r)>>),
      Prog("multi", "var2", RhsDesc(r), <<>>, <<Var(<<"a", "b">>, "", r), Use("a"), Use("b")>>),
      Prog("multi", "var2:int", RhsDesc(r), <<>>, <<Var(<<"a", "b">>, "int", r), Use("a"), Use("b")>>),
      Prog("multi", "ret:int,string", RhsDesc(r), <<"int", "string">>, <<Return(r)>>),
      Prog("multi", "ret:int,bool", RhsDesc(r), <<"int", "bool">>, <<Return(r)>>),
      Prog("multi", "define3", RhsDesc(r), <<>>, <<Define(<<"a", "b", "c">>, r), Use("a"), Use("b"), Use("c")>>),
      Prog("multi", "arg:f3", RhsDesc(r), <<>>, <<ExprS(Call(Id("f3"), r))>>) >>))

(* ---------------------------------------------------------------- B6: the life of one local name `a` in one block.
   A history is a sequence of events on `a`: it is declared (:=, var, const, type), it appears again on the left of a later
   := together with a NEW name (a redeclaration when `a` is a variable of this block, a declaration of a new `a` in a nested
   scope), it is assigned (=, ++, op=, receive, inside a closure), it is read (here, in a nested block, in a closure).
   Every event that introduces a companion name reads it at once (`_ = nj`, a fresh name per position), so the ONLY question
   left open by a history is about `a` itself: is it a variable, is it in scope, does the := declare something new, has it
   been READ ("declared and not used" - an assignment or a redeclaration is not a use).  All histories up to the length
   bound are generated (B2 above lists single statements, where an unused companion masks these questions). *)
NewName(j) == CASE j = 1 -> "n1" [] j = 2 -> "n2" [] j = 3 -> "n3" [] OTHER -> "n4"
Redecl(a, nj, es) == <<Define(<<a, nj>>, es), Use(nj)>>
LifeEvents(j) == LET nj == NewName(j) IN <<
   <<Define(<<"a">>, <<LitI(1)>>)>>,                                              \* a := 1
   <<Var(<<"a">>, "int", <<>>)>>,                                                  \* var a int
   Redecl("a", nj, <<LitI(1), LitI(2)>>),                                          \* a, nj := 1, 2; _ = nj
   Redecl("a", nj, <<Call(Id("f2"), <<>>)>>),                                      \* a, nj := f2(); _ = nj
   <<Use("a")>>,                                                                   \* _ = a
   <<Assign(<<Id("a")>>, <<LitI(2)>>)>>,                                           \* a = 2
   <<Const("a", "", LitI(1))>>,                                                    \* const a = 1
   <<TypeDecl("a")>>,                                                              \* type a int
   <<Block(Redecl("a", nj, <<LitI(1), LitI(2)>>) \o <<Use("a")>>)>>,               \* { a, nj := 1, 2; _ = nj; _ = a }   reads the inner a only
   <<Closure(<<>>, <<Use("a")>>)>>,                                                \* func() { _ = a }()
   \* ---- thorough tier only from here
   <<Define(<<nj, "a">>, <<LitI(2), LitI(1)>>), Use(nj)>>,                         \* nj, a := 2, 1; _ = nj
   Redecl("a", nj, <<LitS, LitI(2)>>),                                             \* a, nj := "s", 2; _ = nj    (a string: only a NEW a can take it)
   Redecl("a", nj, <<Index(Id("vm"), LitS)>>),                                     \* a, nj := vm["s"]; _ = nj   (comma-ok)
   <<Block(<<Use("a")>>)>>,                                                        \* { _ = a }
   <<Block(Redecl("a", nj, <<LitI(1), LitI(2)>>))>>,                               \* { a, nj := 1, 2; _ = nj }   a new a, never read
   <<IncDec(Id("a"))>>,                                                            \* a++
   <<OpAssign("+", Id("a"), LitI(1))>>,                                            \* a += 1
   <<Assign(<<Id("a"), Id("vi")>>, <<LitI(1), LitI(2)>>)>>,                        \* a, vi = 1, 2
   <<Closure(<<>>, <<Assign(<<Id("a")>>, <<LitI(3)>>)>>)>>,                        \* func() { a = 3 }()
   <<Closure(<<>>, Redecl("a", nj, <<LitI(1), LitI(2)>>) \o <<Use("a")>>)>>,       \* func() { a, nj := 1, 2; _ = nj; _ = a }()
   <<IfInit(Define(<<"a", nj>>, <<LitI(1), LitI(2)>>), Id("vb"), <<Use(nj), Use("a")>>)>>,     \* if a, nj := 1, 2; vb { _ = nj; _ = a }
   <<Select(<<CRecvAsg(<<Id("a")>>, Id("vch"), <<>>)>>)>>,                         \* select { case a = <-vch: }
   <<Select(<<CRecvDef(<<"a", nj>>, Id("vch"), <<Use(nj), Use("a")>>)>>)>>,        \* select { case a, nj := <-vch: _ = nj; _ = a }
   <<Var(<<"a", nj>>, "", <<LitI(1), LitI(2)>>), Use(nj)>>,                        \* var a, nj = 1, 2; _ = nj
   <<Blank(FL("a", Id("a"), LitI(2)))>>,                                           \* _ = func(a int) int { return a }(2)   reads the parameter only
   <<Blank(FL("z", Id("a"), LitI(2)))>> >>                                         \* _ = func(z int) int { return a }(2)
NLifeQuick == 10
LifeAt(j, m) == SubSeq(LifeEvents(j), 1, m)
LifeUpTo3(m) == LifeAt(1, m) \o Pairs(LifeAt(1, m), LifeAt(2, m), LAMBDA s, t : s \o t)
                \o Flat(Map1(LifeAt(1, m), LAMBDA s : Pairs(LifeAt(2, m), LifeAt(3, m), LAMBDA t, u : s \o t \o u)))
Life4(m) == Flat(Map1(LifeAt(1, m), LAMBDA s : Flat(Map1(LifeAt(2, m), LAMBDA t : Pairs(LifeAt(3, m), LifeAt(4, m), LAMBDA u, v : s \o t \o u \o v)))))
LifeBodies == IF Tier = 1 THEN LifeUpTo3(NLifeQuick) ELSE LifeUpTo3(Len(LifeEvents(1))) \o Life4(8)
LifeProgs == Map1(LifeBodies, LAMBDA b : Prog("life", "", NoDesc, <<>>, b))

(* ---------------------------------------------------------------- B7: arrays - constant indexes and slice bounds, len/cap constants.
   vr is a [3]int, vq a pointer to it; every index / bound leaf in every indexing form ("a constant index must be in range":
   0 <= i < len for an index, 0 <= i <= len for a slice bound, of arrays and pointers to arrays; slices and strings beside them). *)
ArrPre == <<Var(<<"vr">>, "[3]int", <<>>), Var(<<"vq">>, "*[3]int", <<Un("&", Id("vr"))>>), Use("vr"), Use("vq")>>
LenVr == Builtin("len", <<Id("vr")>>)
ArrIdx == << <<"0", LitI(0)>>, <<"2", LitI(2)>>, <<"3", LitI(3)>>, <<"4", LitI(4)>>, <<"-1", LitI(-1)>>, <<"vi", Id("vi")>>, <<"len", LenVr>>,
   <<"len-1", Bin("-", LenVr, LitI(1))>>, <<"1+2", Bin("+", LitI(1), LitI(2))>>, <<"1.5", LitF>>,
   \* ---- thorough tier only from here
   <<"300", LitI(300)>>, <<"s", LitS>>, <<"vu8", Id("vu8")>>, <<"vf", Id("vf")>>, <<"nil", Id("nil")>>, <<"cap*", Builtin("cap", <<Id("vq")>>)>>,
   <<"len+1", Bin("+", LenVr, LitI(1))>>, <<"vi+3", Bin("+", Id("vi"), LitI(3))>>, <<"lensl", Builtin("len", <<Id("vsl")>>)>>, <<"1<<2", Bin("<<", LitI(1), LitI(2))>> >>
ArrForms(i) == << <<"index", Blank(Index(Id("vr"), i))>>, <<"store", Assign(<<Index(Id("vr"), i)>>, <<LitI(1)>>)>>, <<"slice", Blank(SliceE(Id("vr"), i))>>,
   <<"pindex", Blank(Index(Id("vq"), i))>>, <<"pslice", Blank(SliceE(Id("vq"), i))>>, <<"dindex", Blank(Index(Un("*", Id("vq")), i))>>,
   <<"slindex", Blank(Index(Id("vsl"), i))>>, <<"strslice", Blank(SliceE(LitS, i))>>,
   \* ---- thorough tier only from here
   <<"incdec", IncDec(Index(Id("vr"), i))>>, <<"addr", Blank(Un("&", Index(Id("vr"), i)))>>, <<"pstore", Assign(<<Index(Id("vq"), i)>>, <<LitI(1)>>)>>,
   <<"dslice", Blank(SliceE(Un("*", Id("vq")), i))>>, <<"opasg", OpAssign("+", Index(Id("vr"), i), LitI(1))>> >>
ArrMisc == << <<"constlen", <<Const("c", "", LenVr), Use("c")>> >>, <<"constlensl", <<Const("c", "", Builtin("len", <<Id("vsl")>>)), Use("c")>> >>,
   <<"constcap*", <<Const("c", "", Builtin("cap", <<Id("vq")>>)), Use("c")>> >>,
   <<"conv127", <<Blank(Conv("int8", Bin("+", LenVr, LitI(124))))>> >>, <<"conv128", <<Blank(Conv("int8", Bin("+", LenVr, LitI(125))))>> >>,
   <<"int8len", <<Var(<<"x">>, "int8", <<LenVr>>), Use("x")>> >>, <<"eq", <<Blank(Bin("==", Id("vr"), Un("*", Id("vq"))))>> >>,
   <<"less", <<Blank(Bin("<", Id("vr"), Id("vr")))>> >>, <<"eqnil", <<Blank(Bin("==", Id("vr"), Id("nil")))>> >>, <<"peqnil", <<Blank(Bin("==", Id("vq"), Id("nil")))>> >>,
   <<"asg", <<Assign(<<Id("vr")>>, <<Un("*", Id("vq"))>>)>> >>, <<"asgnil", <<Assign(<<Id("vr")>>, <<Id("nil")>>)>> >>, <<"asgsl", <<Assign(<<Id("vsl")>>, <<Id("vr")>>)>> >>,
   <<"shl", <<Var(<<"x">>, "uint8", <<Bin("<<", LitI(1), LenVr)>>), Use("x")>> >>, <<"shl300", <<Var(<<"x">>, "uint8", <<Bin("<<", LitI(300), LenVr)>>), Use("x")>> >>,
   <<"append", <<Blank(Builtin("append", <<Id("vr"), LitI(1)>>))>> >>, <<"appendsl", <<Blank(Builtin("append", <<SliceE(Id("vr"), LitI(0)), LitI(1)>>))>> >>,
   <<"any", <<Var(<<"x">>, "any", <<Id("vr")>>), Use("x")>> >>, <<"lencall", <<Blank(Index(Id("vr"), Call(Id("f1"), <<LitI(3)>>)))>> >> >>
ArrProgs == LET I == IF Tier = 1 THEN SubSeq(ArrIdx, 1, 10) ELSE ArrIdx
                nf == IF Tier = 1 THEN 8 ELSE 13 IN
   Flat(Map1(I, LAMBDA i : Map1(SubSeq(ArrForms(i[2]), 1, nf), LAMBDA f : Prog("array", f[1], <<"idx", "", i[1], "">>, <<>>, ArrPre \o <<f[2]>>))))
   \o Map1(ArrMisc, LAMBDA m : Prog("array", m[1], NoDesc, <<>>, ArrPre \o m[2]))

(* ---------------------------------------------------------------- B8: package-level variables with initializers.
   Two variables x, y (and a function h) declared at package level in either order; the initializer of one refers to the other
   directly, inside a function literal, through h - or only SEEMS to (a parameter of a function literal or of h with the same name
   hides it).  Declaration order must not matter; dependencies decide the types and the initialization cycles. *)
VarInit(name, t, e) == [k |-> "varinit", name |-> name, t |-> t, e |-> e]
\* initializers of the variable me, the other variable being o: <<name, expr>>
InitsOf(me, o) == <<
   <<"1", LitI(1)>>, <<"o", Id(o)>>, <<"fl(o)", FL(o, Id(o), LitI(1))>>, <<"fl(o)+o", Bin("+", FL(o, Id(o), LitI(1)), Id(o))>>,
   <<"o+fl(o)", Bin("+", Id(o), FL(o, Id(o), LitI(1)))>>, <<"fl(z:o)", FL("z", Id(o), LitI(1))>>, <<"fl(me)", FL(me, Id(me), LitI(1))>>,
   <<"fl(z:me)", FL("z", Id(me), LitI(1))>>, <<"h", Call(Id("h"), <<LitI(1)>>)>>, <<"fl(o)+h", Bin("+", FL(o, Id(o), LitI(1)), Call(Id("h"), <<LitI(1)>>))>>,
   \* ---- thorough tier only from here
   <<"me", Id(me)>>, <<"fl(z)(o)", FL("z", Id("z"), Id(o))>>, <<"fl(o)(o)", FL(o, Id(o), Id(o))>>, <<"s", LitS>>, <<"fl(o:z)", FL(o, Id("z"), LitI(1))>>,
   <<"fl(h)", FL("h", Id("h"), LitI(1))>>, <<"h(o)", Call(Id("h"), <<Id(o)>>)>>, <<"fl(o)+fl(z:o)", Bin("+", FL(o, Id(o), LitI(1)), FL("z", Id(o), LitI(1)))>> >>
HTops == << <<"h(y):y", <<TFunc_("h", <<Par("y", "int")>>, <<"int">>, <<Return(<<Id("y")>>)>>)>> >>,
            <<"h(a):x", <<TFunc_("h", <<Par("a", "int")>>, <<"int">>, <<Return(<<Id("x")>>)>>)>> >>,
            \* ---- thorough tier only from here
            <<"h(a):y", <<TFunc_("h", <<Par("a", "int")>>, <<"int">>, <<Return(<<Id("y")>>)>>)>> >>,
            <<"h(a):a", <<TFunc_("h", <<Par("a", "int")>>, <<"int">>, <<Return(<<Id("a")>>)>>)>> >>, <<"noh", <<>> >> >>
PkgInitProgs ==
   LET nx == IF Tier = 1 THEN 10 ELSE Len(InitsOf("x", "y"))
       X == SubSeq(InitsOf("x", "y"), 1, nx)
       Y == IF Tier = 1 THEN << <<"2", LitI(2)>>, <<"o", Id("x")>> >>
            ELSE << <<"2", LitI(2)>>, <<"o", Id("x")>>, <<"fl(o)", FL("x", Id("x"), LitI(1))>>, <<"s", LitS>>, <<"h", Call(Id("h"), <<LitI(1)>>)>>, <<"fl(z:o)", FL("z", Id("x"), LitI(1))>> >>
       H == IF Tier = 1 THEN SubSeq(HTops, 1, 2) ELSE HTops
       XT == IF Tier = 1 THEN <<"">> ELSE <<"", "int">>
       mk(x, y, h, xt, order) ==
          LET dx == VarInit("x", xt, x[2]) dy == VarInit("y", "", y[2]) IN
          [Prog("pkginit", order, <<x[1], y[1], h[1], xt>>, <<>>, <<Blank(Id("x")), Blank(Id("y"))>>)
             EXCEPT !.tops = IF order = "xyh" THEN <<dx, dy>> \o h[2] ELSE IF order = "yxh" THEN <<dy, dx>> \o h[2] ELSE h[2] \o <<dx, dy>>] IN
   Flat(Map1(X, LAMBDA x : Flat(Map1(Y, LAMBDA y : Flat(Map1(H, LAMBDA h : Flat(Map1(XT, LAMBDA xt :
        Map1(IF Tier = 1 THEN <<"xyh", "yxh">> ELSE <<"xyh", "yxh", "hxy">>, LAMBDA order : mk(x, y, h, xt, order))))))))))

(* ---------------------------------------------------------------- B9: placement of `fallthrough`.
   Every way of filling the clauses of a 2- and a 3-clause expression switch (without and with a tag, the default clause first,
   in the middle, last or absent) with statement lists in which a fallthrough stands last, not last, twice, or inside an if / else /
   block / for / function literal / nested switch / select / type switch of the clause; the same lists as clauses of a type switch
   and of a select, as a for body and as the function body.  In a function with a result the lists also end in return / panic, so that
   "a clause that ends in fallthrough" is exercised in the terminating-statement analysis. *)
FtLists(res) == <<
   <<Nop>>, <<FT>>, <<Nop, FT>>, <<FT, Nop>>, <<If(Id("vb"), <<FT>>)>>, <<Block(<<FT>>)>>, <<RetFor(res)>>,                      \* 1-7: the lists of the 3-clause switches
   <<>>, <<FT, FT>>, <<IfElse(Id("vb"), <<Nop>>, <<FT>>)>>, <<Nop, Block(<<Nop, FT>>)>>, <<ForC(Id("vb"), <<FT>>)>>, <<Closure(<<>>, <<FT>>)>>,
   <<RetFor(res), FT>>, <<If(Id("vb"), <<FT>>), FT>>,                                                                            \* 1-15: quick tier
   \* ---- thorough tier only from here
   <<IfElse(Id("vb"), <<FT>>, <<FT>>)>>, <<Block(<<FT>>), Nop>>, <<For(<<FT>>)>>, <<Panic, FT>>, <<Block(<<Block(<<FT>>)>>)>>,
   <<Switch(<<Case(<<Id("vb")>>, <<FT>>), Dflt(<<>>)>>)>>, <<Switch(<<Case(<<Id("vb")>>, <<FT>>)>>)>>, <<Switch(<<Case(<<Id("vb")>>, <<FT>>), Dflt(<<>>)>>), FT>>,
   <<Select(<<CDflt(<<FT>>)>>)>>, <<TSwitch("", Id("va"), <<TCase(<<"int">>, <<FT>>), TDflt(<<>>)>>)>>, <<IfInit(Define(<<"z">>, <<LitI(1)>>), Id("vb"), <<Use("z"), FT>>)>> >>
\* clause heads: "C" case vb / "D" default (switch without tag);  "1" "2" "3" case 1 / 2 / 3 and "d" default (switch vi)
FtClause(h, body) == CASE h = "C" -> Case(<<Id("vb")>>, body) [] h \in {"D", "d"} -> Dflt(body)
                       [] h = "1" -> Case(<<LitI(1)>>, body) [] h = "2" -> Case(<<LitI(2)>>, body) [] h = "3" -> Case(<<LitI(3)>>, body)
FtSwitch(hs, bodies) == LET cls == [j \in 1..Len(hs) |-> FtClause(hs[j], bodies[j])] IN
                        IF hs[1] \in {"C", "D"} THEN Switch(cls) ELSE SwitchT(Id("vi"), cls)
FtShapes2 == << <<"CC", <<"C", "C">> >>, <<"CD", <<"C", "D">> >>, <<"DC", <<"D", "C">> >>, <<"12", <<"1", "2">> >>, <<"d1", <<"d", "1">> >> >>
FtShapes3 == << <<"CCC", <<"C", "C", "C">> >>, <<"CDC", <<"C", "D", "C">> >>, <<"123", <<"1", "2", "3">> >>,
                <<"CCD", <<"C", "C", "D">> >>, <<"DCC", <<"D", "C", "C">> >> >>
FtBodies(res) ==
   LET L == IF Tier = 1 THEN SubSeq(FtLists(res), 1, 15) ELSE FtLists(res)
       L3 == SubSeq(L, 1, IF Tier = 1 THEN 6 ELSE 7)
       Sh3 == IF Tier = 1 THEN SubSeq(FtShapes3, 1, 3) ELSE FtShapes3
       tsw(a, b) == TSwitch("", Id("va"), <<TCase(<<"int">>, a), TDflt(b)>>)
       sel(a, b) == Select(<<CRecv(Id("vch"), a), CDflt(b)>>) IN
   Flat(Map1(FtShapes2, LAMBDA sh : Pairs(L, L, LAMBDA a, b : <<sh[1], <<FtSwitch(sh[2], <<a, b>>)>> >>)))
   \o Flat(Map1(Sh3, LAMBDA sh : Flat(Map1(L3, LAMBDA a : Pairs(L3, L3, LAMBDA b, c : <<sh[1], <<FtSwitch(sh[2], <<a, b, c>>)>> >>)))))
   \o Map1(L, LAMBDA a : <<"C", <<FtSwitch(<<"C">>, <<a>>)>> >>)
   \o Pairs(L, L, LAMBDA a, b : <<"tswitch", <<tsw(a, b)>> >>)
   \o Pairs(L, L, LAMBDA a, b : <<"select", <<sel(a, b)>> >>)
   \o Map1(L, LAMBDA a : <<"func", a>>)
   \o Map1(L, LAMBDA a : <<"for", <<ForC(Id("vb"), a)>> >>)
   \* a switch whose last clause is entered by fallthrough, followed by a statement: the switch is not the last statement
   \o Map1(L, LAMBDA a : <<"CD;", <<FtSwitch(<<"C", "D">>, <<a, <<>> >>), Nop>> >>)
FtProgs == Map1(FtBodies(<<>>), LAMBDA b : Prog("fallth", b[1], NoDesc, <<>>, b[2]))
           \o Map1(SelectSeq(FtBodies(<<"int">>), LAMBDA b : b[1] \in {"CC", "CD", "DC", "CDC", "CCD", "C", "func"}), LAMBDA b : Prog("fallth", b[1], NoDesc, <<"int">>, b[2]))

(* ---------------------------------------------------------------- the case set *)
\* (new families are appended: the ids of the older programs do not change)
Progs == ExprProgs \o TermProgs \o DeclProgs \o ImportProgs \o TopProgs \o ScopeProgs \o CallProgs \o MvProgs \o LifeProgs \o ArrProgs \o PkgInitProgs \o FtProgs
Verd3(v) == IF v = "ok" THEN "accept" ELSE IF v = "undef" THEN "undef" ELSE "reject"
\* Progs is bound ONCE by the LET (a top-level reference would re-evaluate the whole sequence each time)
Cases == LET P == Progs IN
         [j \in 1..Len(P) |-> LET v == Verdict(P[j]) IN [id |-> j, verdict |-> Verd3(v), rule |-> v, prog |-> P[j]]]

(* ---------------------------------------------------------------- step 1 (GenInit/GenNext): export the cases *)
VARIABLE n
GenInit == n = 0 /\ ndJsonSerialize("cases.ndjson", Cases)
GenNext == UNCHANGED n

(* ---------------------------------------------------------------- step 2 (Init/Next): model check, one state per
   exported program (checks/c03.py splits cases.ndjson into shards, one TLC process each).  n = 0 is the root, n = -b a block of BlockSize programs (so that TLC's workers share the
   programs), n > 0 the n-th program of cases.ndjson. *)
BlockSize == 64
NBlocks == (Len(TypesCasesIn) + BlockSize - 1) \div BlockSize
Init == n = 0
Next == \/ n = 0 /\ n' \in {-b : b \in 1..NBlocks}
        \/ n < 0 /\ n' \in {m \in 1..Len(TypesCasesIn) : (m - 1) \div BlockSize = -n - 1}
prog == TypesCasesIn[n].prog
verd == TypesCasesIn[n].rule
\* the exported verdict is the judgment's (re-evaluated here on the deserialised record)
ExportFaithful == n > 0 => Verdict(prog) = verd

Acc(p) == LET v == Verdict(p) IN IF v = "undef" THEN "undef" ELSE IF v = "ok" THEN "accept" ELSE "reject"
AccI == Verd3(verd)      \* the program of this state
SameI(q) == LET a == AccI b == Acc(q) IN a = "undef" \/ b = "undef" \/ a = b
IsBlankBin(p) == p.grp = "exprctx" /\ p.ctx = "blank" /\ p.desc[1] = "bin"
TheE(p) == p.body[1].es[1]
WithE(p, e) == [p EXCEPT !.body = <<Blank(e)>>]
\* x op y is well-typed iff y op x is, for the symmetric operators
SymmetricOps == n > 0 => LET p == prog IN
   (IsBlankBin(p) /\ p.desc[2] \in {"+", "*", "&", "|", "^", "==", "!=", "&&", "||"})
     => SameI(WithE(p, Bin(TheE(p).op, TheE(p).y, TheE(p).x)))
\* == and != are defined on the same operands; so are < <= > >=, and x < y iff y > x
ComparisonDuality == n > 0 => LET p == prog e == TheE(p) IN
   IsBlankBin(p) =>
      /\ (e.op = "==" => SameI(WithE(p, Bin("!=", e.x, e.y))))
      /\ (e.op = "<" => SameI(WithE(p, Bin(">", e.y, e.x))) /\ SameI(WithE(p, Bin("<=", e.x, e.y))) /\ SameI(WithE(p, Bin(">=", e.x, e.y))))
\* ordered operands are comparable: x < y well-typed => x == y well-typed
OrderedImpliesEq == n > 0 => LET p == prog e == TheE(p) IN
   (IsBlankBin(p) /\ e.op = "<" /\ AccI = "accept") => Acc(WithE(p, Bin("==", e.x, e.y))) # "reject"
\* what may initialise a variable of type T may be assigned to one and passed/returned as one
VarAssignCoherence == n > 0 => LET p == prog IN
   (p.grp = "exprctx" /\ CtxKind(p.ctx)[2] = "var") =>
       LET t == CtxKind(p.ctx)[3] e == p.body[1].es[1] IN
       /\ SameI([p EXCEPT !.body = <<Assign(<<Id(VarOf(t))>>, <<e>>)>>])
       /\ SameI([p EXCEPT !.body = <<Return(<<e>>)>>, !.res = <<t>>])
       /\ SameI([p EXCEPT !.body = <<Closure(<<t>>, <<Return(<<e>>)>>)>>])
\* representability is monotone: what initialises both an int8 and a uint8 variable (necessarily an untyped constant
\* or a context-typed shift) also initialises an int variable
ReprMonotone == n > 0 => LET p == prog IN
   (p.grp = "exprctx" /\ p.ctx = "var:int8" /\ AccI = "accept") =>
       LET e == p.body[1].es[1] IN
       Acc([p EXCEPT !.body = <<Var(<<"x">>, "uint8", <<e>>), Use("x")>>]) = "accept"
          => Acc([p EXCEPT !.body = <<Var(<<"x">>, "int", <<e>>), Use("x")>>]) = "accept"
\* an accepted program stays accepted when an unrelated used declaration is prepended; a rejected one stays rejected
Weakening == n > 0 => LET p == prog IN
   (p.grp \in {"decl", "life"} \/ (p.grp = "exprctx" /\ p.ctx \in {"varinfer", "if", "stmt", "lhs"}))
      => SameI([p EXCEPT !.body = <<Var(<<"zz">>, "int", <<>>), Use("zz")>> \o @])
\* an assignment neither declares nor reads: a valid program stays valid when its statements `a = 2` are deleted
IsPlainAssignA(s) == s.k = "assign" /\ Len(s.lhs) = 1 /\ s.lhs[1].k = "id" /\ s.lhs[1].name = "a"
AssignIrrelevant == n > 0 => LET p == prog IN
   (p.grp = "life" /\ AccI = "accept" /\ \E j \in 1..Len(p.body) : IsPlainAssignA(p.body[j]))
      => Acc([p EXCEPT !.body = SelectSeq(@, LAMBDA s : ~IsPlainAssignA(s))]) = "accept"
\* an assignment is not a use and repairs nothing: a rejected history stays rejected when `a = 2` is appended
AssignDoesNotRescue == n > 0 => LET p == prog IN
   (p.grp = "life" /\ AccI = "reject") => Acc([p EXCEPT !.body = @ \o <<Assign(<<Id("a")>>, <<LitI(2)>>)>>]) # "accept"
\* in the fallthrough family (functions without a result) nothing but a misplaced fallthrough is wrong: the program with every
\* fallthrough replaced by `vi = 1` is valid - so a rejection there is the fallthrough rule's, and no fallthrough is ever REQUIRED
RECURSIVE FtErase(_)
FtEraseCl(cls) == [j \in 1..Len(cls) |-> [cls[j] EXCEPT !.body = FtErase(@)]]
FtErase(ss) == [j \in 1..Len(ss) |-> LET s == ss[j] IN
   CASE s.k = "fallthrough" -> Nop
     [] s.k \in {"block", "for", "closure"} -> [s EXCEPT !.body = FtErase(@)]
     [] s.k = "if" -> [s EXCEPT !.then = FtErase(@), !.els = FtErase(@)]
     [] s.k \in {"switch", "tswitch", "select"} -> [s EXCEPT !.clauses = FtEraseCl(@)]
     [] OTHER -> s]
FtOnlyCause == n > 0 => LET p == prog IN
   (p.grp = "fallth" /\ p.res = <<>>) => Acc([p EXCEPT !.body = FtErase(@)]) = "accept"
\* a fallthrough is never valid outside an expression switch, and at most one per non-final clause can be valid
RECURSIVE FtCount(_), FtSlots(_)
FtCount(ss) == IF Len(ss) = 0 THEN 0 ELSE LET s == ss[Len(ss)] r == FtCount(SubSeq(ss, 1, Len(ss) - 1)) IN
   r + (CASE s.k = "fallthrough" -> 1
          [] s.k \in {"block", "for", "closure"} -> FtCount(s.body)
          [] s.k = "if" -> FtCount(s.then) + FtCount(s.els)
          [] s.k \in {"switch", "tswitch", "select"} -> FtCount(Flat([j \in 1..Len(s.clauses) |-> s.clauses[j].body]))
          [] OTHER -> 0)
FtSlots(ss) == IF Len(ss) = 0 THEN 0 ELSE LET s == ss[Len(ss)] r == FtSlots(SubSeq(ss, 1, Len(ss) - 1)) IN
   r + (CASE s.k \in {"block", "for", "closure"} -> FtSlots(s.body)
          [] s.k = "if" -> FtSlots(s.then) + FtSlots(s.els)
          [] s.k = "switch" -> (IF Len(s.clauses) = 0 THEN 0 ELSE Len(s.clauses) - 1) + FtSlots(Flat([j \in 1..Len(s.clauses) |-> s.clauses[j].body]))
          [] s.k \in {"tswitch", "select"} -> FtSlots(Flat([j \in 1..Len(s.clauses) |-> s.clauses[j].body]))
          [] OTHER -> 0)
FtBounded == n > 0 => LET p == prog IN
   (p.grp = "fallth" /\ AccI = "accept") => FtCount(p.body) <= FtSlots(p.body)
\* a terminating body keeps a function with results well-formed exactly when the body without results is (placement)
TermPlacement == n > 0 => LET p == prog IN
   (p.grp = "term" /\ p.res # <<>> /\ AccI = "accept") => IsTerm(p.body)
=============================================================================

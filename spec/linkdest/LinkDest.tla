------------------------------ MODULE LinkDest ------------------------------
(* C29 - rewriting Markdown link destinations changes only link destinations.

   Property (properties.jsonl): "For any Markdown document, the build command's link rewriting leaves
   every byte outside inline-link and reference-definition destinations unchanged, leaves destinations
   inside code and raw HTML untouched, makes every rewritten relative destination absolute against the
   base, and is idempotent; the escaping it applies to a destination is undone by its unescaping."

   REFERENCE part (what the property demands; written from the property statement, the doc comment of
   linkDestinationReplacer, CommonMark 0.31 and RFC 3986 - not from the code):
     * Documents are sequences of self-delimiting BLOCKS separated by blank lines.  A block kind
       (table Kinds of LinkDestKinds) is a sequence of segments; a segment is literal text or a
       destination-looking span whose GROUND TRUTH is known by construction of the block:
         rel      a real inline-link / image / reference-definition destination that is relative
         stay     a real destination that the rewriting must keep: an absolute URL, or a URL with only
                  a query and/or fragment (doc comment of linkDestinationReplacer)
         code     text that looks like a destination but lies in a code span / fenced / indented code
         html     the same inside an HTML block, a raw-text element or an HTML comment
         nonlink  the same after an escaped bracket or after "] (" - not a link
     * DocOk (the judge): the output is the source with only the spans replaced (Match); code / html /
       nonlink spans are byte-identical; stay spans are identical modulo backslash unescape; every rel
       span is rewritten and, unescaped, is an absolute URL under the base (AbsAgainstBase);
       replace(replace(x)) = replace(x).
     * RefRewrite: RFC 3986 reference resolution against base + dir for the simple path cases generated
       here, ".html"/no extension -> ".md", trailing slash kept.  It is compared with the
       implementation-shaped model by TLC (MC_LinkDest); on real observations the exact spelling is
       diagnostic only (a correct refactoring may spell the URL differently).
     * EscOk: markdownUnescape(markdownURLEscape(u)) = u.
     * Two more document spaces whose ground truth is COMPUTED by the reference (not tabulated):
         - fence documents (FDoc): fence-like lines (indentation, run of backquotes or tildes, trailer)
           alternating with link lines; CommonMark 4.5 (RefFenceOpens / RefFenceCloses: a closing fence
           has the opener's character, is at least as long, is indented < 4 and is followed by blanks
           only) decides which link lines are code;
         - query documents (QDoc): one link whose query carries an arbitrary punctuation string written
           with CommonMark backslash escapes (RefEscape); the rewriting must keep the query and fragment
           (SuffixKept, RFC 3986 5.2.2: T.query = R.query) and must write a destination that CommonMark
           reads back as one (WellFormedDest) - the document-level face of "the escaping it applies to a
           destination is undone by its unescaping".

   IMPLEMENTATION-SHAPED part: collectReplacements / scanInlineLinks / parse* / appendReplacement of
   cmd/scriggo/linkdestination.go and markdownURLEscape / markdownUnescape of mdescape.go transcribed
   branch by branch (0-based indices as in the code: At(l, i) is line[i]); the cross-line scanner state
   is [inFence, fc, fl, h = [stack, rawTag, rawCloser]], the per-line state is (i, link-stack depth,
   codeSpanLen).  LineStep is the step function over lines; MC_LinkDest drives it block by block.

   Text is a sequence of bytes (integers). *)
EXTENDS Integers, Sequences, Text, LinkDestKinds

NK == Len(Kinds)
KindIdx(name) == CHOOSE k \in 1..NK : Kinds[k].name = name
KindNames == {Kinds[k].name : k \in 1..NK}

IsPunct(c) == (c >= 33 /\ c <= 47) \/ (c >= 58 /\ c <= 64) \/ (c >= 91 /\ c <= 96) \/ (c >= 123 /\ c <= 126)
IsAlnum(c) == IsDigit(c) \/ IsAlpha(c)

(* ============================ blocks and documents (ground truth) ============================= *)

\* a configuration: base URL and directory of the file, as bytes
Cfg(base, dir) == [base |-> base, dir |-> dir]

Digit(i) == 48 + i
Concrete(b, i) == [k \in 1..Len(b) |-> IF b[k] = 0 THEN Digit(i) ELSE b[k]]

\* text of block kind k at position i of a document
RECURSIVE SegsText(_, _, _)
SegsText(segs, n, i) == IF n > Len(segs) THEN <<>> ELSE Concrete(segs[n].b, i) \o SegsText(segs, n + 1, i)
BlockText(k, i) == SegsText(Kinds[k].segs, 1, i)

\* spans of block kind k at position i whose text starts at 0-based offset off:
\* [s |-> 0-based start, e |-> exclusive end, c |-> class, b |-> block position]
RECURSIVE SegsSpans(_, _, _, _)
SegsSpans(segs, n, i, off) ==
  IF n > Len(segs) THEN <<>>
  ELSE (IF segs[n].c = "lit" THEN <<>> ELSE <<[s |-> off, e |-> off + Len(segs[n].b), c |-> segs[n].c, b |-> i]>>)
       \o SegsSpans(segs, n + 1, i, off + Len(segs[n].b))
BlockSpans(k, i, off) == SegsSpans(Kinds[k].segs, 1, i, off)

\* tables evaluated once by TLC (positions 1..4)
MaxBlocks == 4
BT == [k \in 1..NK |-> [i \in 1..MaxBlocks |-> BlockText(k, i)]]
BS0 == [k \in 1..NK |-> [i \in 1..MaxBlocks |-> BlockSpans(k, i, 0)]]
Shift(spans, off) == [n \in 1..Len(spans) |-> [spans[n] EXCEPT !.s = @ + off, !.e = @ + off]]

Sep == <<10, 10>>                     \* blocks are separated by one blank line
\* document = sequence of kind indices; its bytes and its ground-truth spans
RECURSIVE DocFrom(_, _, _, _)
DocFrom(doc, i, src, spans) ==
  IF i > Len(doc) THEN [src |-> src, spans |-> spans]
  ELSE LET pre == IF i = 1 THEN src ELSE src \o Sep IN
       DocFrom(doc, i + 1, pre \o BT[doc[i]][i], spans \o Shift(BS0[doc[i]][i], Len(pre)))
Doc(doc) == DocFrom(doc, 1, <<>>, <<>>)

(* ============================ fence documents (ground truth computed, CommonMark 4.5) ========== *)

\* A fence line f = [c, n, ind, tr]: ind spaces, a run of n characters c (backquote 96 or tilde 126), the
\* trailer tr.  A fence document is F1 L1 F2 L2 ... (one per line), Li the link line "[f](f<i>/g.html)".
\* CommonMark 4.5: a code fence is a run of >= 3 backquotes or tildes indented by <= 3 spaces; the info
\* string of a backquote fence contains no backquote; "the closing code fence must use the same character
\* as the opening fence, and have at least as many backticks or tildes as the opening fence", may be
\* indented by <= 3 spaces and "may be followed only by spaces or tabs"; an unclosed block runs to the end
\* of the document.  A fence-like line that does not open a block (indented by 4) carries no link, whether
\* it is indented code or a paragraph continuation.  A link line is code exactly when a block is open.
FLineText(f) == [k \in 1..f.ind |-> 32] \o [k \in 1..f.n |-> f.c] \o f.tr
BlankSet == {32, 9}
OnlyBlanks(t) == \A k \in 1..Len(t) : t[k] \in BlankSet
F0 == [open |-> FALSE, c |-> 0, n |-> 0]
RefFenceOpens(f) == f.ind <= 3 /\ f.n >= 3 /\ (f.c = 96 => \A k \in 1..Len(f.tr) : f.tr[k] # 96)
RefFenceCloses(f, st) == f.ind <= 3 /\ f.c = st.c /\ f.n >= st.n /\ OnlyBlanks(f.tr)
RefFenceStep(f, st) == IF st.open THEN (IF RefFenceCloses(f, st) THEN F0 ELSE st)
                       ELSE IF RefFenceOpens(f) THEN [open |-> TRUE, c |-> f.c, n |-> f.n] ELSE st
FDest(i) == <<102, Digit(i), 47, 103, 46, 104, 116, 109, 108>>          \* f<i>/g.html
FLinkOpen == <<91, 102, 93, 40>>                                          \* [f](
FLink(i) == FLinkOpen \o FDest(i) \o <<41>>
\* text appended for position i (the previous text ends without a line break)
FPiece(f, i) == (IF i = 1 THEN <<>> ELSE <<10>>) \o FLineText(f) \o <<10>> \o FLink(i)
RECURSIVE FDocFrom(_, _, _, _, _)
FDocFrom(fd, i, src, spans, st) ==
  IF i > Len(fd) THEN [src |-> src, spans |-> spans]
  ELSE LET st2 == RefFenceStep(fd[i], st)
           s2 == src \o FPiece(fd[i], i)
           e == Len(s2) - 1 IN
       FDocFrom(fd, i + 1, s2, Append(spans, [s |-> e - Len(FDest(i)), e |-> e, c |-> IF st2.open THEN "code" ELSE "rel", b |-> i]), st2)
FDoc(fd) == FDocFrom(fd, 1, <<>>, <<>>, F0)

(* ============================ query documents (ground truth computed, CommonMark 2.4) ========= *)

\* CommonMark 2.4: "Any ASCII punctuation character may be backslash-escaped"; RefEscape escapes every one,
\* so whatever s is, the destination below is a destination and denotes  p1/q?k s v .
RECURSIVE RefEscFrom(_, _)
RefEscFrom(s, i) == IF i > Len(s) THEN <<>>
                    ELSE (IF IsPunct(s[i]) THEN <<92, s[i]>> ELSE <<s[i]>>) \o RefEscFrom(s, i + 1)
RefEscape(s) == RefEscFrom(s, 1)
\* the sparing spelling: only the backslash itself and the bytes that would end or unbalance a destination
\* ( ( ) < > ) are escaped, every other punctuation character is written as it is
MinEscSet == {92, 40, 41, 60, 62}
RECURSIVE RefEscMinFrom(_, _)
RefEscMinFrom(s, i) == IF i > Len(s) THEN <<>>
                       ELSE (IF s[i] \in MinEscSet THEN <<92, s[i]>> ELSE <<s[i]>>) \o RefEscMinFrom(s, i + 1)
RefEscMin(s) == RefEscMinFrom(s, 1)
\* both spellings denote s (checked by TLC for every generated s: MC_LinkDest, SpellingsDenote)
QDoc(s, angle, sparing) ==
  LET pre == <<91, 97, 93, 40>> \o (IF angle THEN <<60>> ELSE <<>>)                 \* [a](  or  [a](<
      d == <<112, 49, 47, 113, 63, 107>> \o (IF sparing THEN RefEscMin(s) ELSE RefEscape(s)) \o <<118>> IN   \* p1/q?k ... v
  [src |-> pre \o d \o (IF angle THEN <<62>> ELSE <<>>) \o <<41>>,
   spans |-> <<[s |-> Len(pre), e |-> Len(pre) + Len(d), c |-> "rel", b |-> 1]>>]

(* ============================ REFERENCE: destinations ========================================== *)

\* CommonMark 2.4: a backslash before an ASCII punctuation character denotes that character
RECURSIVE RefUnescFrom(_, _)
RefUnescFrom(s, i) ==
  IF i > Len(s) THEN <<>>
  ELSE IF s[i] = 92 /\ i < Len(s) /\ IsPunct(s[i + 1]) THEN <<s[i + 1]>> \o RefUnescFrom(s, i + 2)
  ELSE <<s[i]>> \o RefUnescFrom(s, i + 1)
RefUnescape(s) == RefUnescFrom(s, 1)

\* percent-decoding (only used to compare URL spellings)
RECURSIVE PctDecFrom(_, _)
PctDecFrom(s, i) ==
  IF i > Len(s) THEN <<>>
  ELSE IF s[i] = 37 /\ i + 2 <= Len(s) /\ IsHex(s[i + 1]) /\ IsHex(s[i + 2])
       THEN <<HexVal(s[i + 1]) * 16 + HexVal(s[i + 2])>> \o PctDecFrom(s, i + 3)
  ELSE <<s[i]>> \o PctDecFrom(s, i + 1)
PctDecode(s) == PctDecFrom(s, 1)

\* RFC 3986 3.1: scheme = ALPHA *( ALPHA / DIGIT / "+" / "-" / "." ) followed by ":"
RECURSIVE SchemeEnd(_, _)
SchemeEnd(u, i) == IF i > Len(u) THEN 0
                   ELSE IF u[i] = 58 THEN i
                   ELSE IF IsAlnum(u[i]) \/ u[i] = 43 \/ u[i] = 45 \/ u[i] = 46 THEN SchemeEnd(u, i + 1) ELSE 0
HasScheme(u) == Len(u) >= 2 /\ IsAlpha(u[1]) /\ SchemeEnd(u, 2) # 0

\* the alphabet the reference handles in a destination (anything else: ref_undefined, never failed)
DestPunct == {47, 46, 45, 95, 35, 63, 61, 58, 64, 40, 41}      \* / . - _ # ? = : @ ( )   (sets are named constants: TLC builds them once)

\* class of an (unescaped) destination:
\*   "stay"  absolute URL, empty, or only query and/or fragment   "net"  //host/path
\*   "root"  /path                                                 "rel"  anything else
RefClass(u) ==
  IF u = <<>> \/ HasScheme(u) \/ u[1] \in {35, 63} THEN "stay"
  ELSE IF HasPrefix(u, <<47, 47>>) THEN "net"
  ELSE IF u[1] = 47 THEN "root" ELSE "rel"

\* first index of '?' or '#' (Len+1 when none)
RECURSIVE SuffixStart(_, _)
SuffixStart(u, i) == IF i > Len(u) \/ u[i] \in {35, 63} THEN i ELSE SuffixStart(u, i + 1)
PathPart(u) == Sub(u, 1, SuffixStart(u, 1) - 1)
SuffixPart(u) == From(u, SuffixStart(u, 1))

\* the reference is defined on destinations whose path is in the simple alphabet above and whose query /
\* fragment is printable ASCII without '%' (percent-encoded octets in the source are not generated)
DestByteOk(c) == IsAlnum(c) \/ c \in DestPunct
SuffixByteOk(c) == c >= 33 /\ c <= 126 /\ c # 37
DestDefined(u) == LET q == SuffixStart(u, 1) IN
                  /\ \A k \in 1..(q - 1) : DestByteOk(u[k])
                  /\ \A k \in q..Len(u) : SuffixByteOk(u[k])

\* split on '/' (empty segments kept), join with '/'
RECURSIVE SplitFrom(_, _, _)
SplitFrom(p, i, cur) == IF i > Len(p) THEN <<cur>>
                        ELSE IF p[i] = 47 THEN <<cur>> \o SplitFrom(p, i + 1, <<>>)
                        ELSE SplitFrom(p, i + 1, Append(cur, p[i]))
Split(p) == SplitFrom(p, 1, <<>>)
RECURSIVE JoinFrom(_, _)
JoinFrom(segs, i) == IF i > Len(segs) THEN <<>>
                     ELSE (IF i = 1 THEN <<>> ELSE <<47>>) \o segs[i] \o JoinFrom(segs, i + 1)
Join(segs) == JoinFrom(segs, 1)
NonEmpty(segs) == SelectSeq(segs, LAMBDA x : x # <<>>)

\* RFC 3986 5.2.4 remove_dot_segments on a list of non-empty segments of an absolute path
RECURSIVE RemoveDots(_, _, _)
RemoveDots(segs, i, acc) ==
  IF i > Len(segs) THEN acc
  ELSE IF segs[i] = <<46>> THEN RemoveDots(segs, i + 1, acc)
  ELSE IF segs[i] = <<46, 46>> THEN RemoveDots(segs, i + 1, IF acc = <<>> THEN acc ELSE SubSeq(acc, 1, Len(acc) - 1))
  ELSE RemoveDots(segs, i + 1, Append(acc, segs[i]))

\* base URL pieces: scheme "://" authority path
SchemeOf(base) == Sub(base, 1, Find(base, <<58, 47, 47>>) - 1)
AuthStart(base) == Find(base, <<58, 47, 47>>) + 3
PathStart(base) == LET p == IndexByteFrom(base, 47, AuthStart(base)) IN IF p = 0 THEN Len(base) + 1 ELSE p
Origin(base) == Sub(base, 1, PathStart(base) - 1)                 \* scheme://authority
BasePath(base) == From(base, PathStart(base))                      \* "" or /...
BasePrefix(base) == IF base # <<>> /\ base[Len(base)] = 47 THEN base ELSE Append(base, 47)

\* ".html" / no extension in the last segment -> ".md" (doc comment of linkDestinationReplacer)
RECURSIVE LastDot(_, _)
LastDot(seg, i) == IF i < 1 THEN 0 ELSE IF seg[i] = 46 THEN i ELSE LastDot(seg, i - 1)
MdExt(seg) == LET d == LastDot(seg, Len(seg)) IN
              IF d = 0 THEN seg \o <<46, 109, 100>>
              ELSE IF From(seg, d) = <<46, 104, 116, 109, 108>> THEN Sub(seg, 1, d - 1) \o <<46, 109, 100>>
              ELSE seg
WithExt(segs) == IF segs = <<>> THEN segs ELSE [segs EXCEPT ![Len(segs)] = MdExt(@)]

\* number of ".." segments in the path part of a destination
Ups(u) == Len(SelectSeq(Split(PathPart(u)), LAMBDA x : x = <<46, 46>>))

\* Rewrite(u, base, dir) for u of class "rel": resolve against base path + dir, keep a trailing slash,
\* map the extension, keep query and fragment
RefRewriteRel(u, cfg) ==
  LET p == PathPart(u)
      slash == p # <<>> /\ p[Len(p)] = 47
      segs == RemoveDots(NonEmpty(Split(BasePath(cfg.base)) \o Split(cfg.dir) \o Split(p)), 1, <<>>)
      segs2 == IF slash THEN segs ELSE WithExt(segs) IN
  Origin(cfg.base) \o <<47>> \o Join(segs2) \o (IF slash /\ segs2 # <<>> THEN <<47>> ELSE <<>>) \o SuffixPart(u)

\* the same for a "root" destination under the two readings of "against the base": RFC 3986 (the path
\* replaces the base path) and the doc comment's "base + path" (the path is appended to the base path)
RefRewriteRoot(u, cfg, keepBase) ==
  LET p == PathPart(u)
      slash == p[Len(p)] = 47
      segs == RemoveDots(NonEmpty((IF keepBase THEN Split(BasePath(cfg.base)) ELSE <<>>) \o Split(p)), 1, <<>>)
      segs2 == IF slash THEN segs ELSE WithExt(segs) IN
  Origin(cfg.base) \o <<47>> \o Join(segs2) \o (IF slash /\ segs2 # <<>> THEN <<47>> ELSE <<>>) \o SuffixPart(u)

\* RewriteOk(d, new, cfg): `new` (raw bytes placed in the document) is an acceptable exact rewriting of
\* the raw destination d.  Used by TLC against the implementation-shaped model (MC_LinkDest).
RewriteOk(d, new, cfg) ==
  LET u == RefUnescape(d)
      v == PctDecode(RefUnescape(new)) IN
  CASE RefClass(u) = "stay" -> RefUnescape(new) = u
    [] RefClass(u) = "net"  -> v = SchemeOf(cfg.base) \o <<58>> \o u
    [] RefClass(u) = "root" -> v = RefRewriteRoot(u, cfg, FALSE) \/ v = RefRewriteRoot(u, cfg, TRUE)
    [] OTHER                -> v = RefRewriteRel(u, cfg)

\* PROPERTY-LEVEL clause "makes every rewritten relative destination absolute against the base".
\* Reading chosen (Appendix C.5): the unescaped new destination starts with
\*   - the base URL (with a trailing slash) when the destination is a relative path that stays below the
\*     base (no more ".." than dir has segments) and the base ends with "/" (RFC 3986 and "base + dir +
\*     path" agree there);
\*   - scheme://authority/ of the base otherwise ("/path", ".." above the base, base without a trailing
\*     slash: RFC 3986 and the doc comment differ on the path, both are absolute against the base);
\*   - scheme: of the base followed by the destination's own //authority for "//host/path".
\* The spelling after the prefix (.md, percent-encoding) is not a clause of the property.
NetAuthority(u) == LET p == IndexByteFrom(u, 47, 3) IN IF p = 0 THEN u ELSE Sub(u, 1, p - 1)
RequiredPrefix(u, cfg) ==
  CASE RefClass(u) = "net"  -> SchemeOf(cfg.base) \o <<58>> \o NetAuthority(PathPart(u))
    [] RefClass(u) = "root" -> Origin(cfg.base) \o <<47>>
    [] OTHER -> IF cfg.base[Len(cfg.base)] = 47 /\ Ups(u) <= Len(NonEmpty(Split(cfg.dir)))
                THEN cfg.base ELSE Origin(cfg.base) \o <<47>>
AbsAgainstBase(d, new, cfg) ==
  LET u == RefUnescape(d) IN HasPrefix(RefUnescape(new), RequiredPrefix(u, cfg))

\* PROPERTY-LEVEL clause "makes every rewritten relative destination absolute against the base", second
\* half: resolving a reference against a base keeps its query and fragment (RFC 3986 5.2.2: T.query =
\* R.query, T.fragment = R.fragment).  Both sides are read as CommonMark reads them (backslash unescape)
\* and compared modulo percent-encoding (the spelling is not a clause).  This is also where "the escaping
\* it applies to a destination is undone by its unescaping" shows in a document: an escaper that does not
\* protect a backslash of the URL makes the written destination read back as another URL.
SuffixKept(d, new) == PctDecode(SuffixPart(RefUnescape(new))) = PctDecode(SuffixPart(RefUnescape(d)))

\* PROPERTY-LEVEL: what is written in place of a destination is a destination again (CommonMark 6.3), so
\* that the bytes after it are still outside a destination.  Bare: non-empty, does not start with '<', no
\* space or control character, parentheses escaped or balanced; between '<' and '>': no line ending, no
\* unescaped '<' or '>'.  A backslash that is the last byte would escape the closing delimiter.
RECURSIVE BareDestOk(_, _, _)
BareDestOk(x, i, depth) ==
  IF i > Len(x) THEN depth = 0
  ELSE IF x[i] = 92 THEN (IF i = Len(x) THEN FALSE
                          ELSE IF IsPunct(x[i + 1]) THEN BareDestOk(x, i + 2, depth) ELSE BareDestOk(x, i + 1, depth))
  ELSE IF x[i] <= 32 \/ x[i] = 127 THEN FALSE
  ELSE IF x[i] = 40 THEN BareDestOk(x, i + 1, depth + 1)
  ELSE IF x[i] = 41 THEN depth > 0 /\ BareDestOk(x, i + 1, depth - 1)
  ELSE BareDestOk(x, i + 1, depth)
RECURSIVE AngleDestOk(_, _)
AngleDestOk(x, i) ==
  IF i > Len(x) THEN TRUE
  ELSE IF x[i] = 92 THEN (IF i = Len(x) THEN FALSE
                          ELSE IF IsPunct(x[i + 1]) THEN AngleDestOk(x, i + 2) ELSE AngleDestOk(x, i + 1))
  ELSE IF x[i] \in {10, 13, 60, 62} THEN FALSE
  ELSE AngleDestOk(x, i + 1)
WellFormedDest(x, angle) == IF angle THEN AngleDestOk(x, 1) ELSE x # <<>> /\ x[1] # 60 /\ BareDestOk(x, 1, 0)

(* ============================ REFERENCE: the judge ============================================= *)

\* Match: out must be src with only the spans replaced.  gap(0) = src before the first span, gap(k) =
\* src between span k and span k+1, gap(n) = src after the last span.  X(k) = what replaced span k.
\* gap(k) for 0 < k < n is located at its first occurrence after X(k) starts (every gap starts with the
\* delimiter that ends the destination and is several bytes long); gap(n) must be the suffix.
\* Result: [ok, fail (index of the gap that could not be matched), xs (the X(k) found)].
GapAfter(src, spans, k) ==
  LET n == Len(spans) IN
  IF n = 0 THEN src
  ELSE IF k = 0 THEN Sub(src, 1, spans[1].s)
  ELSE IF k = n THEN From(src, spans[n].e + 1)
  ELSE Sub(src, spans[k].e + 1, spans[k + 1].s)
OldDest(src, sp) == Sub(src, sp.s + 1, sp.e)

RECURSIVE MatchFrom(_, _, _, _, _, _)
MatchFrom(src, spans, out, k, j, xs) ==        \* X(k) starts at out[j]
  LET n == Len(spans)
      g == GapAfter(src, spans, k) IN
  IF k = n
  THEN LET p == Len(out) - Len(g) + 1 IN
       IF p >= j /\ HasPrefixAt(out, g, p) THEN [ok |-> TRUE, fail |-> 0, xs |-> Append(xs, Sub(out, j, p - 1))]
       ELSE [ok |-> FALSE, fail |-> k, xs |-> xs]
  ELSE LET p == FindFrom(out, g, j) IN
       IF p = 0 THEN [ok |-> FALSE, fail |-> k, xs |-> xs]
       ELSE MatchFrom(src, spans, out, k + 1, p + Len(g), Append(xs, Sub(out, j, p - 1)))
Match(src, spans, out) ==
  IF Len(spans) = 0 THEN [ok |-> out = src, fail |-> 0, xs |-> <<>>]
  ELSE LET g0 == GapAfter(src, spans, 0) IN
       IF HasPrefix(out, g0) THEN MatchFrom(src, spans, out, 1, Len(g0) + 1, <<>>)
       ELSE [ok |-> FALSE, fail |-> 0, xs |-> <<>>]

\* the destination of span sp is written between '<' and '>'
InAngles(src, sp) == sp.s >= 1 /\ src[sp.s] = 60 /\ sp.e + 1 <= Len(src) /\ src[sp.e + 1] = 62
\* cause of the failure of span sp replaced by x ("" = fine)
SpanCause(src, sp, x, cfg) ==
  LET d == OldDest(src, sp) IN
  IF sp.c \in {"code", "html", "nonlink"} THEN (IF x = d THEN "" ELSE sp.c \o "-rewritten")
  ELSE IF ~DestDefined(RefUnescape(d)) THEN ""                       \* ref_undefined: never failed
  ELSE IF sp.c = "stay" THEN (IF RefUnescape(x) = RefUnescape(d) THEN "" ELSE "stay-changed")
  ELSE IF x = d THEN "missed"                                           \* sp.c = "rel"
  ELSE IF ~AbsAgainstBase(d, x, cfg) THEN "not-absolute"
  ELSE IF ~WellFormedDest(x, InAngles(src, sp)) THEN "dest-broken"
  ELSE IF ~SuffixKept(d, x) THEN "suffix-changed" ELSE ""

\* first failing span of a matched document (0 = none)
RECURSIVE FirstBadSpan(_, _, _, _, _)
FirstBadSpan(src, spans, xs, cfg, k) ==
  IF k > Len(spans) THEN 0
  ELSE IF SpanCause(src, spans[k], xs[k], cfg) # "" THEN k ELSE FirstBadSpan(src, spans, xs, cfg, k + 1)

\* verdict on one document observation: [cause |-> "" when the property holds, b |-> block position blamed]
DocVerdict(r) ==
  LET cfg == Cfg(r.base, r.dir)
      n == Len(r.spans) IN
  IF r.outcome # "ok" THEN [cause |-> r.outcome, b |-> 0, k |-> 0, x |-> <<>>]
  ELSE LET m == Match(r.src, r.spans, r.out) IN
       IF ~m.ok THEN [cause |-> "outside-changed", b |-> IF n = 0 THEN 0 ELSE r.spans[IF m.fail < n THEN m.fail + 1 ELSE n].b, k |-> 0, x |-> <<>>]
       ELSE LET k == FirstBadSpan(r.src, r.spans, m.xs, cfg, 1) IN
            IF k # 0 THEN [cause |-> SpanCause(r.src, r.spans[k], m.xs[k], cfg), b |-> r.spans[k].b, k |-> k, x |-> m.xs[k]]
            ELSE IF r.out2 # r.out THEN [cause |-> "not-idempotent", b |-> 0, k |-> 0, x |-> <<>>]
            ELSE [cause |-> "", b |-> 0, k |-> 0, x |-> <<>>]
DocOk(r) == DocVerdict(r).cause = ""

\* the escape pair
EscOk(r) == r.outcome = "ok" /\ r.unesc = r.u

\* signature parts: kind of the blamed block, nearest preceding block that leaves a construct open
KindOpen(name) == name \in KindNames /\ Kinds[KindIdx(name)].open
RECURSIVE OpenBefore(_, _)
OpenBefore(kinds, i) == IF i < 1 THEN "-" ELSE IF KindOpen(kinds[i]) THEN kinds[i] ELSE OpenBefore(kinds, i - 1)

(* ============================ IMPLEMENTATION-SHAPED: mdescape.go =============================== *)

\* isMarkdownEscapable
ImplEscapableSet == {92, 96, 42, 95, 123, 125, 91, 93, 40, 41, 35, 43, 45, 61, 46, 33, 124, 60, 62, 126, 38}
ImplEscapable(c) == c \in ImplEscapableSet

\* markdownURLEscape: every backslash that is last or precedes an escapable byte is doubled
RECURSIVE ImplEscFrom(_, _)
ImplEscFrom(s, i) ==
  IF i > Len(s) THEN <<>>
  ELSE IF s[i] = 92 /\ (i = Len(s) \/ ImplEscapable(s[i + 1])) THEN <<92, 92>> \o ImplEscFrom(s, i + 1)
  ELSE <<s[i]>> \o ImplEscFrom(s, i + 1)
ImplURLEscape(s) == ImplEscFrom(s, 1)

\* markdownUnescape: backslash + escapable -> the byte; C2 A0 -> space
RECURSIVE ImplUnescFrom(_, _)
ImplUnescFrom(s, i) ==
  IF i > Len(s) THEN <<>>
  ELSE IF s[i] = 92 /\ i < Len(s) /\ ImplEscapable(s[i + 1]) THEN <<s[i + 1]>> \o ImplUnescFrom(s, i + 2)
  ELSE IF s[i] = 194 /\ i < Len(s) /\ s[i + 1] = 160 THEN <<32>> \o ImplUnescFrom(s, i + 2)
  ELSE <<s[i]>> \o ImplUnescFrom(s, i + 1)
ImplUnescape(s) == ImplUnescFrom(s, 1)

(* ============================ IMPLEMENTATION-SHAPED: linkdestination.go ======================== *)

At(l, i) == l[i + 1]                         \* line[i], 0-based
GmSpaceSet == {32, 9, 10, 11, 12, 13}
GmSpace(c) == c \in GmSpaceSet               \* goldmark util.IsSpace

RECURSIVE CountRun(_, _, _)
CountRun(l, pos, c) == IF pos < Len(l) /\ At(l, pos) = c THEN 1 + CountRun(l, pos + 1, c) ELSE 0
RECURSIVE SkipSpaces(_, _)
SkipSpaces(l, pos) == IF pos < Len(l) /\ GmSpace(At(l, pos)) THEN SkipSpaces(l, pos + 1) ELSE pos
IsBlankFrom(l, pos) == \A k \in pos..(Len(l) - 1) : GmSpace(At(l, k))      \* util.IsBlank(line[pos:])
\* util.IndentWidth(line, 0): <<width, pos>>
RECURSIVE IndentFrom(_, _, _)
IndentFrom(l, i, w) == IF i < Len(l) /\ At(l, i) = 32 THEN IndentFrom(l, i + 1, w + 1)
                       ELSE IF i < Len(l) /\ At(l, i) = 9 THEN IndentFrom(l, i + 1, w + 4 - (w % 4))
                       ELSE <<w, i>>
IndentWidth(l) == IndentFrom(l, 0, 0)
Escaped(l, i) == At(l, i) = 92 /\ i + 1 < Len(l) /\ IsPunct(At(l, i + 1))   \* c == '\\' && i+1 < len && IsPunct

TitleOpeners == {34, 39, 40}               \* " ' (
NoDest == [ok |-> FALSE, start |-> 0, stop |-> 0, after |-> 0]
\* parseDestination
RECURSIVE AngleDest(_, _, _)
AngleDest(l, pos, i) ==
  IF i >= Len(l) THEN NoDest
  ELSE IF Escaped(l, i) THEN AngleDest(l, pos, i + 2)
  ELSE IF At(l, i) = 62 THEN [ok |-> TRUE, start |-> pos + 1, stop |-> i, after |-> i + 1]
  ELSE AngleDest(l, pos, i + 1)
RECURSIVE BareDest(_, _, _)
BareDest(l, i, opened) ==
  IF i >= Len(l) THEN i
  ELSE LET c == At(l, i) IN
       IF Escaped(l, i) THEN BareDest(l, i + 2, opened)
       ELSE IF c = 40 THEN BareDest(l, i + 1, opened + 1)
       ELSE IF c = 41 THEN (IF opened - 1 < 0 THEN i ELSE BareDest(l, i + 1, opened - 1))
       ELSE IF GmSpace(c) THEN i
       ELSE BareDest(l, i + 1, opened)
ParseDestination(l, pos0) ==
  LET pos == SkipSpaces(l, pos0) IN
  IF pos >= Len(l) THEN NoDest
  ELSE IF At(l, pos) = 60 THEN AngleDest(l, pos, pos + 1)
  ELSE LET i == BareDest(l, pos, 0) IN
       IF i = pos THEN NoDest ELSE [ok |-> TRUE, start |-> pos, stop |-> i, after |-> i]

\* parseTitle: index after the closer, -1 when there is none
RECURSIVE TitleLoop(_, _, _)
TitleLoop(l, i, closer) ==
  IF i >= Len(l) THEN -1
  ELSE IF Escaped(l, i) THEN TitleLoop(l, i + 2, closer)
  ELSE IF At(l, i) = closer THEN i + 1 ELSE TitleLoop(l, i + 1, closer)
ParseTitle(l, pos) == TitleLoop(l, pos + 1, IF At(l, pos) = 40 THEN 41 ELSE At(l, pos))

\* parseTitleAndClose: index after ')', -1 when it fails
ParseTitleAndClose(l, pos0) ==
  LET pos == SkipSpaces(l, pos0) IN
  IF pos >= Len(l) THEN -1
  ELSE IF At(l, pos) = 41 THEN pos + 1
  ELSE IF At(l, pos) \notin TitleOpeners THEN -1
  ELSE LET t == ParseTitle(l, pos) IN
       IF t = -1 THEN -1
       ELSE LET e == SkipSpaces(l, t) IN IF e < Len(l) /\ At(l, e) = 41 THEN e + 1 ELSE -1

NoInline == [ok |-> FALSE, start |-> 0, stop |-> 0, end |-> 0]
\* parseInlineDestination
ParseInlineDestination(l, pos0) ==
  LET pos == SkipSpaces(l, pos0) IN
  IF pos >= Len(l) THEN NoInline
  ELSE IF At(l, pos) = 41 THEN [ok |-> TRUE, start |-> pos, stop |-> pos, end |-> pos + 1]
  ELSE LET d == ParseDestination(l, pos) IN
       IF ~d.ok \/ d.stop <= d.start THEN NoInline
       ELSE LET e == ParseTitleAndClose(l, d.after) IN
            IF e = -1 THEN NoInline ELSE [ok |-> TRUE, start |-> d.start, stop |-> d.stop, end |-> e]

\* findLabelEnd
RECURSIVE FindLabelEnd(_, _)
FindLabelEnd(l, i) ==
  IF i >= Len(l) THEN -1
  ELSE IF Escaped(l, i) THEN FindLabelEnd(l, i + 2)
  ELSE IF At(l, i) = 91 THEN -1
  ELSE IF At(l, i) = 93 THEN i ELSE FindLabelEnd(l, i + 1)

NoRef == [ok |-> FALSE, start |-> 0, stop |-> 0]
\* parseReferenceDefinition
ParseReferenceDefinition(l) ==
  LET iw == IndentWidth(l) pos == iw[2] IN
  IF iw[1] > 3 \/ pos >= Len(l) \/ At(l, pos) # 91 THEN NoRef
  ELSE LET le == FindLabelEnd(l, pos + 1) IN
       IF le < 0 THEN NoRef
       ELSE IF \A k \in (pos + 1)..(le - 1) : GmSpace(At(l, k)) THEN NoRef            \* blank label
       ELSE IF le + 1 >= Len(l) \/ At(l, le + 1) # 58 THEN NoRef
       ELSE LET d == ParseDestination(l, SkipSpaces(l, le + 2)) IN
            IF ~d.ok THEN NoRef
            ELSE LET after == SkipSpaces(l, d.after)
                     spaces == after - d.after
                     yes == [ok |-> TRUE, start |-> d.start, stop |-> d.stop] IN
                 IF after >= Len(l) THEN yes
                 ELSE IF At(l, after) \notin TitleOpeners THEN (IF IsBlankFrom(l, after) THEN yes ELSE NoRef)
                 ELSE IF spaces = 0 THEN NoRef
                 ELSE LET e == ParseTitle(l, after) IN
                      IF e = -1 \/ ~IsBlankFrom(l, e) THEN NoRef ELSE yes

\* isIndentedCode, isFenceStart, isFenceClose
IsIndentedCode(l) == IndentWidth(l)[1] >= 4 /\ ~IsBlankFrom(l, 0)
NoFence == [ok |-> FALSE, c |-> 0, n |-> 0]
IsFenceStart(l) ==
  LET iw == IndentWidth(l) pos == iw[2] IN
  IF iw[1] > 3 \/ pos >= Len(l) THEN NoFence
  ELSE LET c == At(l, pos) IN
       IF c # 96 /\ c # 126 THEN NoFence
       ELSE LET run == CountRun(l, pos, c) IN
            IF run < 3 THEN NoFence
            ELSE IF c = 96 /\ \E k \in (pos + run)..(Len(l) - 1) : At(l, k) = 96 THEN NoFence
            ELSE [ok |-> TRUE, c |-> c, n |-> run]
IsFenceClose(l, fc, fl) ==
  LET iw == IndentWidth(l) pos == iw[2] IN
  IF iw[1] > 3 \/ pos >= Len(l) THEN FALSE
  ELSE LET run == CountRun(l, pos, fc) IN
       IF run < fl THEN FALSE ELSE IsBlankFrom(l, pos + run)

\* parseHTMLTag
IsTagNameChar(c) == IsAlpha(c) \/ IsDigit(c) \/ c = 45
RECURSIVE TagNameEnd(_, _)
TagNameEnd(l, i) == IF i < Len(l) /\ IsTagNameChar(At(l, i)) THEN TagNameEnd(l, i + 1) ELSE i
RECURSIVE QuoteEnd(_, _, _)          \* index of the closing quote at or after i, Len(l) when none
QuoteEnd(l, i, q) == IF i >= Len(l) \/ At(l, i) = q THEN i ELSE QuoteEnd(l, i + 1, q)
RECURSIVE TagScan(_, _)              \* index of the '>' ending the tag, -1 when none
TagScan(l, i) ==
  IF i >= Len(l) THEN -1
  ELSE LET c == At(l, i) IN
       IF c = 34 \/ c = 39 THEN LET j == QuoteEnd(l, i + 1, c) IN IF j >= Len(l) THEN -1 ELSE TagScan(l, j + 1)
       ELSE IF c = 62 THEN i ELSE TagScan(l, i + 1)
RECURSIVE BackOverSpaces(_, _, _)
BackOverSpaces(l, j, pos) == IF j > pos /\ GmSpace(At(l, j)) THEN BackOverSpaces(l, j - 1, pos) ELSE j
VoidElements == {<<97,114,101,97>>, <<98,97,115,101>>, <<98,114>>, <<99,111,108>>, <<101,109,98,101,100>>, <<104,114>>,
                 <<105,109,103>>, <<105,110,112,117,116>>, <<108,105,110,107>>, <<109,101,116,97>>, <<112,97,114,97,109>>,
                 <<115,111,117,114,99,101>>, <<116,114,97,99,107>>, <<119,98,114>>}
RawTextElements == {<<115,99,114,105,112,116>>, <<115,116,121,108,101>>, <<116,101,120,116,97,114,101,97>>}
NoTag == [ok |-> FALSE, tag |-> <<>>, end |-> 0, closing |-> FALSE, self |-> FALSE]
ParseHTMLTag(l, pos) ==
  IF pos >= Len(l) \/ At(l, pos) # 60 \/ pos + 1 >= Len(l) THEN NoTag
  ELSE LET closing == At(l, pos + 1) = 47
           i0 == IF closing THEN pos + 2 ELSE pos + 1 IN
       IF i0 >= Len(l) \/ ~IsAlpha(At(l, i0)) THEN NoTag
       ELSE LET ne == TagNameEnd(l, i0)
                tag == [k \in 1..(ne - i0) |-> ToLower(At(l, i0 + k - 1))]
                gt == TagScan(l, ne) IN
            IF gt = -1 THEN NoTag
            ELSE LET j == BackOverSpaces(l, gt - 1, pos)
                     self == ~closing /\ (tag \in VoidElements \/ (j > pos /\ At(l, j) = 47)) IN
                 [ok |-> TRUE, tag |-> tag, end |-> gt + 1, closing |-> closing, self |-> self]

\* htmlState
H0 == [stack |-> <<>>, rawTag |-> <<>>, rawCloser |-> <<>>]
InHTML(h) == h.rawTag # <<>> \/ h.rawCloser # <<>> \/ Len(h.stack) > 0
OpenTag(h, tag) == [h EXCEPT !.stack = Append(@, tag), !.rawTag = IF tag \in RawTextElements THEN tag ELSE @]
RECURSIVE LastIndexOf(_, _, _)
LastIndexOf(stack, tag, i) == IF i < 1 THEN 0 ELSE IF stack[i] = tag THEN i ELSE LastIndexOf(stack, tag, i - 1)
CloseTag(h, tag) ==
  LET i == LastIndexOf(h.stack, tag, Len(h.stack)) IN
  [h EXCEPT !.stack = IF i = 0 THEN @ ELSE SubSeq(@, 1, i - 1), !.rawTag = IF @ = tag THEN <<>> ELSE @]

\* appendReplacement: [ok, repl] for the raw destination d
BaseHost(base) == Sub(base, AuthStart(base), PathStart(base) - 1)
\* path.Clean of a "/"-joined path that is rooted (the base path starts with "/")
CleanRooted(p) == LET segs == RemoveDots(NonEmpty(Split(p)), 1, <<>>) IN <<47>> \o Join(segs)
\* path.Join: non-empty elements joined by "/" and cleaned
PathJoin(elems) == LET ne == NonEmpty(elems) IN IF ne = <<>> THEN <<>> ELSE CleanRooted(FlattenFrom([k \in 1..Len(ne) |-> (IF k = 1 THEN <<>> ELSE <<47>>) \o ne[k]], 1))
\* path.Ext
RECURSIVE ExtStart(_, _)
ExtStart(p, i) == IF i < 1 \/ p[i] = 47 THEN 0 ELSE IF p[i] = 46 THEN i ELSE ExtStart(p, i - 1)
\* escape(path, encodePath) of net/url for the bytes that can occur here
PathSafe == {45, 95, 46, 126, 36, 38, 43, 44, 47, 58, 59, 61, 64}     \* - _ . ~ $ & + , / : ; = @
HexDigit(v) == IF v < 10 THEN 48 + v ELSE 55 + v           \* upper case, as net/url
RECURSIVE EscPathFrom(_, _)
EscPathFrom(p, i) ==
  IF i > Len(p) THEN <<>>
  ELSE (IF IsAlnum(p[i]) \/ p[i] \in PathSafe THEN <<p[i]>>
        ELSE <<37, HexDigit(p[i] \div 16), HexDigit(p[i] % 16)>>) \o EscPathFrom(p, i + 1)
NoRepl == [ok |-> FALSE, repl |-> <<>>]
ImplRewrite(d, cfg) ==
  LET u == ImplUnescape(d)
      \* url.Parse: fragment, then scheme, then query, then authority and path
      hashAt == IndexByteFrom(u, 35, 1)
      noFrag == IF hashAt = 0 THEN u ELSE Sub(u, 1, hashAt - 1)
      frag == IF hashAt = 0 THEN <<>> ELSE From(u, hashAt)                    \* with '#'
      hasScheme == HasScheme(noFrag)
      qAt == IndexByteFrom(noFrag, 63, 1)
      noQuery == IF qAt = 0 THEN noFrag ELSE Sub(noFrag, 1, qAt - 1)
      query == IF qAt = 0 THEN <<>> ELSE From(noFrag, qAt)                   \* with '?'
      isNet == HasPrefix(noQuery, <<47, 47>>)
      hostEnd == IF isNet THEN (LET p == IndexByteFrom(noQuery, 47, 3) IN IF p = 0 THEN Len(noQuery) + 1 ELSE p) ELSE 1
      host == IF isNet THEN Sub(noQuery, 3, hostEnd - 1) ELSE <<>>
      upath == IF isNet THEN From(noQuery, hostEnd) ELSE noQuery IN
  IF d = <<>> THEN NoRepl                                                     \* stop <= start
  ELSE IF hasScheme \/ (host = <<>> /\ upath = <<>>) THEN NoRepl
  ELSE LET scheme == SchemeOf(cfg.base) IN
       IF host # <<>> THEN [ok |-> TRUE, repl |-> ImplURLEscape(scheme \o <<58, 47, 47>> \o host \o EscPathFrom(upath, 1) \o query \o frag)]
       ELSE LET endSlash == upath[Len(upath)] = 47
                joined == IF upath[1] = 47 THEN PathJoin(<<BasePath(cfg.base), upath>>)
                          ELSE PathJoin(<<BasePath(cfg.base), cfg.dir, upath>>)
                p2 == IF endSlash THEN (IF joined[Len(joined)] = 47 THEN joined ELSE Append(joined, 47))
                      ELSE LET x == ExtStart(joined, Len(joined)) IN
                           IF x = 0 THEN joined \o <<46, 109, 100>>
                           ELSE IF From(joined, x) = <<46, 104, 116, 109, 108>> THEN Sub(joined, 1, x - 1) \o <<46, 109, 100>>
                           ELSE joined IN
            [ok |-> TRUE, repl |-> ImplURLEscape(scheme \o <<58, 47, 47>> \o BaseHost(cfg.base) \o EscPathFrom(p2, 1) \o query \o frag)]

\* one replacement found on a line: [s, e (0-based, in the document), repl]; dropped when appendReplacement returns early
Reps(l, lineStart, start, stop, cfg) ==
  LET rw == ImplRewrite(Sub(l, start + 1, stop), cfg) IN
  IF start < 0 \/ stop <= start \/ ~rw.ok THEN <<>>
  ELSE <<[s |-> lineStart + start, e |-> lineStart + stop, repl |-> rw.repl]>>

\* scanInlineLinks: i index in the line, ld = len(linkStack), cs = codeSpanLen, h = htmlState
RECURSIVE Scan(_, _, _, _, _, _, _, _)
Scan(l, lineStart, cfg, i, ld, cs, h, reps) ==
  IF i >= Len(l) THEN [h |-> h, reps |-> reps]
  ELSE LET c == At(l, i) IN
  IF cs > 0 THEN
       IF c = 96 /\ CountRun(l, i, 96) = cs /\ (i + cs >= Len(l) \/ At(l, i + cs) # 96)
       THEN Scan(l, lineStart, cfg, i + cs, ld, 0, h, reps)
       ELSE Scan(l, lineStart, cfg, i + 1, ld, cs, h, reps)
  ELSE IF h.rawCloser # <<>> THEN
       LET p == FindFrom(l, h.rawCloser, i + 1) IN
       IF p = 0 THEN [h |-> h, reps |-> reps]
       ELSE Scan(l, lineStart, cfg, p - 1 + Len(h.rawCloser), ld, cs, [h EXCEPT !.rawCloser = <<>>], reps)
  ELSE IF h.rawTag # <<>> THEN
       LET t == IF c = 60 THEN ParseHTMLTag(l, i) ELSE NoTag IN
       IF t.ok /\ t.closing /\ t.tag = h.rawTag THEN Scan(l, lineStart, cfg, t.end, ld, cs, CloseTag(h, t.tag), reps)
       ELSE Scan(l, lineStart, cfg, i + 1, ld, cs, h, reps)
  ELSE LET special ==                                        \* the switch on "<!--", "<![CDATA[", "<?", "<!"
             IF ~(ld = 0 /\ c = 60) THEN <<>>
             ELSE IF i + 3 < Len(l) /\ At(l, i + 1) = 33 /\ At(l, i + 2) = 45 /\ At(l, i + 3) = 45 THEN <<4, <<45, 45, 62>>>>
             ELSE IF i + 8 < Len(l) /\ HasPrefixAt(l, <<60, 33, 91, 67, 68, 65, 84, 65, 91>>, i + 1) THEN <<9, <<93, 93, 62>>>>
             ELSE IF i + 1 < Len(l) /\ At(l, i + 1) = 63 THEN <<2, <<63, 62>>>>
             ELSE IF i + 1 < Len(l) /\ At(l, i + 1) = 33 THEN <<2, <<62>>>>
             ELSE <<>> IN
       IF special # <<>> THEN
            LET p == FindFrom(l, special[2], i + special[1] + 1) IN
            IF p = 0 THEN [h |-> [h EXCEPT !.rawCloser = special[2]], reps |-> reps]
            ELSE Scan(l, lineStart, cfg, p - 1 + Len(special[2]), ld, cs, h, reps)
       ELSE LET t == IF ld = 0 /\ c = 60 THEN ParseHTMLTag(l, i) ELSE NoTag IN
       IF t.ok THEN Scan(l, lineStart, cfg, t.end, ld, cs,
                         IF t.closing THEN CloseTag(h, t.tag) ELSE IF ~t.self THEN OpenTag(h, t.tag) ELSE h, reps)
       ELSE IF InHTML(h) THEN Scan(l, lineStart, cfg, i + 1, ld, cs, h, reps)
       ELSE IF Escaped(l, i) THEN Scan(l, lineStart, cfg, i + 2, ld, cs, h, reps)
       ELSE IF c = 96 THEN LET run == CountRun(l, i, 96) IN Scan(l, lineStart, cfg, i + run, ld, run, h, reps)
       ELSE IF c = 91 THEN Scan(l, lineStart, cfg, i + 1, ld + 1, cs, h, reps)
       ELSE IF c = 93 /\ ld > 0 /\ i + 1 < Len(l) /\ At(l, i + 1) = 40 /\ ParseInlineDestination(l, i + 2).ok THEN
            LET d == ParseInlineDestination(l, i + 2) IN
            Scan(l, lineStart, cfg, d.end, 0, cs, h, reps \o Reps(l, lineStart, d.start, d.stop, cfg))
       ELSE IF c = 93 /\ ld > 0 THEN Scan(l, lineStart, cfg, i + 1, ld - 1, cs, h, reps)
       ELSE Scan(l, lineStart, cfg, i + 1, ld, cs, h, reps)

\* collectReplacements: one iteration of the loop over lines.  S = [inFence, fc, fl, h, reps]
S0 == [inFence |-> FALSE, fc |-> 0, fl |-> 0, h |-> H0, reps |-> <<>>]
LineStep(l, lineStart, cfg, S) ==
  IF S.inFence THEN [S EXCEPT !.inFence = ~IsFenceClose(l, S.fc, S.fl)]
  ELSE LET inH == InHTML(S.h)
           fs == IF inH THEN NoFence ELSE IsFenceStart(l) IN
       IF fs.ok THEN [S EXCEPT !.inFence = TRUE, !.fc = fs.c, !.fl = fs.n]
       ELSE IF ~inH /\ IsIndentedCode(l) THEN S
       ELSE LET rd == IF inH THEN NoRef ELSE ParseReferenceDefinition(l) IN
            IF rd.ok THEN [S EXCEPT !.reps = @ \o Reps(l, lineStart, rd.start, rd.stop, cfg)]
            ELSE LET r == Scan(l, lineStart, cfg, 0, 0, 0, S.h, <<>>) IN
                 [S EXCEPT !.h = r.h, !.reps = @ \o r.reps]

\* the lines of text t whose first byte has document offset off: fold LineStep over them
RECURSIVE StepLines(_, _, _, _, _)
StepLines(t, i, off, cfg, S) ==           \* i = 1-based index in t of the start of the current line
  IF i > Len(t) + 1 THEN S
  ELSE LET nl == IndexByteFrom(t, 10, i)
           le == IF nl = 0 THEN Len(t) + 1 ELSE nl IN          \* 1-based index one past the line
       StepLines(t, le + 1, off, cfg, LineStep(Sub(t, i, le - 1), off + i - 1, cfg, S))

\* applyReplacements (the replacements are found in increasing order and never overlap)
RECURSIVE ApplyFrom(_, _, _, _)
ApplyFrom(src, reps, k, prev) ==
  IF k > Len(reps) THEN From(src, prev + 1)
  ELSE IF reps[k].s < prev THEN ApplyFrom(src, reps, k + 1, prev)
  ELSE Sub(src, prev + 1, reps[k].s) \o reps[k].repl \o ApplyFrom(src, reps, k + 1, reps[k].e)
ImplReplace(src, cfg) == ApplyFrom(src, StepLines(src, 1, 0, cfg, S0).reps, 1, 0)
=============================================================================

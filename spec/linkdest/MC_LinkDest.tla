---------------------------- MODULE MC_LinkDest ----------------------------
(* C29: model check of the implementation-shaped scanner against the ground truth, over every document
   of <= AllLen blocks over all block kinds and <= CoreLen blocks over the core kinds; export of the
   same documents (block-kind names + bytes + ground-truth spans) and of the escape-pair strings.

   State: the document built so far (kind indices) and the scanner state after its last line.  One
   transition appends a blank line and one block and folds LineStep over the new lines.

   Second and third document space (ground truth computed by the reference part of LinkDest.tla):
   fence documents - every sequence of <= FenceLen fence lines over {backquote, tilde} x FenceRuns x the
   first FenceVars variants (plain, trailing spaces, info string, indented by 4, indented by 3, space +
   info string), a link line after each - explored as states too (variable fd); query documents - one link
   whose query carries every string of <= QLen bytes over the ASCII punctuation (without '%') and a letter,
   bare and between angle brackets.  The escape pair runs, besides the strings of <= EscLen bytes over a
   9-symbol alphabet, over every string of <= EscWideLen bytes over ALL ASCII punctuation, a letter and a
   space. *)
EXTENDS LinkDest, TLC, Json, FiniteSets, SequencesExt
CONSTANTS AllLen, CoreLen,      \* bounds on the number of blocks
          Excused,              \* kind names on which the model is known to deviate from the reference (findings
                                \* demonstrated on the real code; documents containing one are not asserted here)
          EscLen,               \* escape pair: strings up to this length
          FenceRuns, FenceVars, FenceLen,   \* fence documents: run lengths, number of variants, number of fence lines
          QLen,                 \* query documents: strings up to this length
          EscWideLen,           \* escape pair over the whole punctuation: strings up to this length
          Mode                  \* "gen": constant-level checks + export of the cases (no state exploration);
                                \* "mc": state exploration only (kept apart: TLC's -coverage cannot hold the export)

\* configurations: base URL, directory
CfgMulti == Cfg(<<104,116,116,112,115,58,47,47,101,120,97,109,112,108,101,46,99,111,109,47,98,97,115,101,47>>,   \* https://example.com/base/
                <<100,111,99,115,47,115,117,98>>)                                                                   \* docs/sub
Cfgs == << Cfg(<<104,116,116,112,115,58,47,47,101,120,97,109,112,108,101,46,99,111,109,47>>, <<100,111,99,115>>),   \* https://example.com/  docs
           CfgMulti,
           Cfg(<<104,116,116,112,115,58,47,47,101,120,97,109,112,108,101,46,99,111,109,47,98,97,115,101>>, <<>>),   \* https://example.com/base  (no dir)
           Cfg(<<104,116,116,112,58,47,47,104,46,111,114,103,58,56,48,56,48,47,98,47>>, <<100>>) >>                \* http://h.org:8080/b/  d

CoreKinds == {k \in 1..NK : Kinds[k].core}
Allowed(doc, k) == \/ Len(doc) < AllLen
                   \/ Len(doc) < CoreLen /\ k \in CoreKinds /\ \A i \in 1..Len(doc) : doc[i] \in CoreKinds

\* fence lines: [c, n, v] with v an index in FenceVariants
FenceVariants == << [ind |-> 0, tr |-> <<>>, name |-> "plain"],
                    [ind |-> 0, tr |-> <<32, 32>>, name |-> "spaces"],
                    [ind |-> 0, tr |-> <<103, 111>>, name |-> "info"],            \* go
                    [ind |-> 4, tr |-> <<>>, name |-> "indent4"],
                    [ind |-> 3, tr |-> <<>>, name |-> "indent3"],
                    [ind |-> 0, tr |-> <<32, 103, 111>>, name |-> "spinfo"] >>   \* " go"
FenceChars == {96, 126}
FSyms == {[c |-> c, n |-> n, v |-> v] : c \in FenceChars, n \in FenceRuns, v \in 1..FenceVars}
FLine(x) == [c |-> x.c, n |-> x.n, ind |-> FenceVariants[x.v].ind, tr |-> FenceVariants[x.v].tr]
FName(x) == "fl_" \o (IF x.c = 96 THEN "bq" ELSE "tilde") \o ToString(x.n) \o "_" \o FenceVariants[x.v].name
FLines(f) == [i \in 1..Len(f) |-> FLine(f[i])]

VARIABLES doc, S, off, fd
vars == <<doc, S, off, fd>>
Init == doc = <<>> /\ S = S0 /\ off = 0 /\ fd = <<>>
NextBlock == \E k \in 1..NK :
          /\ fd = <<>> /\ Allowed(doc, k)
          /\ LET i == Len(doc) + 1
                 t == (IF i = 1 THEN <<>> ELSE Sep) \o BT[k][i] IN
             /\ doc' = Append(doc, k)
             /\ S' = StepLines(t, IF i = 1 THEN 1 ELSE 2, off, CfgMulti, S)
             /\ off' = off + Len(t)
          /\ fd' = fd
\* append one fence line and its link line
NextFence == \E x \in FSyms :
          /\ doc = <<>> /\ Len(fd) < FenceLen
          /\ LET i == Len(fd) + 1
                 t == FPiece(FLine(x), i) IN
             /\ fd' = Append(fd, x)
             /\ S' = StepLines(t, IF i = 1 THEN 1 ELSE 2, off, CfgMulti, S)
             /\ off' = off + Len(t)
          /\ doc' = doc
Next == Mode = "mc" /\ (NextBlock \/ NextFence)

(* ---- the model meets the reference ---- *)
HasExcused(d) == \E i \in 1..Len(d) : Kinds[d[i]].name \in Excused
\* the scanner rewrites exactly the ground-truth relative destinations, and what it writes there is the
\* reference's Rewrite; the offsets are consistent (the incremental scan sees the whole document's text)
ModelMeetsRef ==
  LET dd == IF fd # <<>> THEN FDoc(FLines(fd)) ELSE Doc(doc)
      rel == SelectSeq(dd.spans, LAMBDA sp : sp.c = "rel") IN
  /\ off = Len(dd.src)
  /\ HasExcused(doc) \/
       /\ Len(S.reps) = Len(rel)
       /\ \A n \in 1..Len(rel) :
            /\ S.reps[n].s = rel[n].s /\ S.reps[n].e = rel[n].e
            /\ RewriteOk(Sub(dd.src, rel[n].s + 1, rel[n].e), S.reps[n].repl, CfgMulti)
\* whatever the model rewrites (also in excused documents, also a span that is not a destination) becomes
\* absolute against the base
ModelOutputAbsolute ==
  LET dd == IF fd # <<>> THEN FDoc(FLines(fd)) ELSE Doc(doc) IN
  \A n \in 1..Len(S.reps) : AbsAgainstBase(Sub(dd.src, S.reps[n].s + 1, S.reps[n].e), S.reps[n].repl, CfgMulti)

(* ---- constant-level checks ---- *)
\* the table's classes agree with the reference's classification of the destination, and every
\* destination is inside the reference's alphabet (so no exported case is ref_undefined)
TableConsistent ==
  \A k \in 1..NK : \A n \in 1..Len(Kinds[k].segs) :
     LET sg == Kinds[k].segs[n] u == RefUnescape(Concrete(sg.b, 1)) IN
     sg.c \in {"rel", "stay"} => DestDefined(u) /\ ((sg.c = "stay") <=> (RefClass(u) = "stay"))
\* destination rewriting, every real destination of the table x every configuration x position 1..2
\* (operators that are only needed in mode "gen" take a dummy argument: TLC evaluates every zero-argument
\* constant definition when it starts, in every mode)
RewriteAllCfgs(g) ==
  \A k \in 1..NK : \A n \in 1..Len(Kinds[k].segs) : \A c \in 1..Len(Cfgs) : \A i \in 1..2 :
     LET sg == Kinds[k].segs[n] d == Concrete(sg.b, i) rw == ImplRewrite(d, Cfgs[c]) IN
     sg.c \in {"rel", "stay"} =>
        /\ rw.ok <=> (sg.c = "rel")
        /\ rw.ok => RewriteOk(d, rw.repl, Cfgs[c]) /\ AbsAgainstBase(d, rw.repl, Cfgs[c])
        /\ rw.ok => ImplRewrite(rw.repl, Cfgs[c]).ok = FALSE              \* a rewritten destination is kept (idempotence)
\* escape pair of mdescape.go over the punctuation alphabet
EscAlphabet == {92, 40, 41, 46, 97, 38, 34, 58, 96}          \* \ ( ) . a & " : `
\* ... and over the whole ASCII punctuation (every byte CommonMark lets a backslash escape), a letter, a space
PunctSet == {c \in 33..126 : IsPunct(c)}
EscWide == PunctSet \cup {97, 32}
EscStrings == SeqsUpTo(EscAlphabet, EscLen) \cup SeqsUpTo(EscWide, EscWideLen)
EscPairModel(g) == \A u \in EscStrings : ImplUnescape(ImplURLEscape(u)) = u

(* ---- export ---- *)
AllDocs(g) == UNION {[1..n -> 1..NK] : n \in 1..AllLen} \cup UNION {[1..n -> CoreKinds] : n \in (AllLen + 1)..CoreLen}
Names(d) == [i \in 1..Len(d) |-> Kinds[d[i]].name]
DocCase(id, d, cfg) == LET dd == Doc(d) IN
                       [id |-> id, k |-> "doc", kinds |-> Names(d), src |-> dd.src, spans |-> dd.spans,
                        base |-> cfg.base, dir |-> cfg.dir]
\* (LET: TLC evaluates a LET-bound value once; a top-level definition applied to an index is re-evaluated)
\* fence documents and query documents (the kinds field names the fence lines / the spelling)
FenceDocs(g) == UNION {[1..n -> FSyms] : n \in 1..FenceLen}
FenceCase(id, f) == LET dd == FDoc(FLines(f)) IN
                    [id |-> id, k |-> "doc", kinds |-> [i \in 1..Len(f) |-> FName(f[i])], src |-> dd.src, spans |-> dd.spans,
                     base |-> CfgMulti.base, dir |-> CfgMulti.dir]
QAlphabet == (PunctSet \ {37}) \cup {97}
QStrings(g) == SeqsUpTo(QAlphabet, QLen)
\* variant 0..3: bit 0 = between angle brackets, bit 1 = sparing spelling
QueryCase(id, s, variant) == LET dd == QDoc(s, variant % 2 = 1, variant >= 2) IN
                    [id |-> id, k |-> "doc", kinds |-> <<"query_escape">>, src |-> dd.src,
                     spans |-> dd.spans, base |-> CfgMulti.base, dir |-> CfgMulti.dir]
SpellingsDenote(g) == \A s \in QStrings(g) : RefUnescape(RefEscape(s)) = s /\ RefUnescape(RefEscMin(s)) = s
Cases(g) ==
  LET docSeq == SetToSeq(AllDocs(g))
      escSeq == SetToSeq(EscStrings)
      fenceSeq == SetToSeq(FenceDocs(g))
      qSeq == SetToSeq(QStrings(g))
      nd == Len(docSeq)
      ns == NK * Len(Cfgs)
      nf == Len(fenceSeq)
      nq == Len(qSeq)
      multi == [n \in 1..nd |-> DocCase(n, docSeq[n], CfgMulti)]
      \* single blocks under every configuration
      single == [n \in 1..ns |-> DocCase(nd + n, <<((n - 1) % NK) + 1>>, Cfgs[((n - 1) \div NK) + 1])]
      fence == [n \in 1..nf |-> FenceCase(nd + ns + n, fenceSeq[n])]
      query == [n \in 1..(4 * nq) |-> QueryCase(nd + ns + nf + n, qSeq[((n - 1) % nq) + 1], (n - 1) \div nq)]
      esc == [n \in 1..Len(escSeq) |-> [id |-> nd + ns + nf + 4 * nq + n, k |-> "esc", u |-> escSeq[n]]] IN
  multi \o single \o fence \o query \o esc
\* the export comes first: a failing model assumption below is a diagnostic, the cases are still replayed
ASSUME Mode = "gen" => ndJsonSerialize("cases.ndjson", Cases(0))
ASSUME Mode = "gen" => TableConsistent /\ Len(Kinds) = Cardinality(KindNames)
ASSUME Mode = "gen" => RewriteAllCfgs(0)
ASSUME Mode = "gen" => EscPairModel(0)
ASSUME Mode = "gen" => SpellingsDenote(0)
=============================================================================

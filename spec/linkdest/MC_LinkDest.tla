---------------------------- MODULE MC_LinkDest ----------------------------
(* C29: model check of the implementation-shaped scanner against the ground truth, over every document
   of <= AllLen blocks over all block kinds and <= CoreLen blocks over the core kinds; export of the
   same documents (block-kind names + bytes + ground-truth spans) and of the escape-pair strings.

   State: the document built so far (kind indices) and the scanner state after its last line.  One
   transition appends a blank line and one block and folds LineStep over the new lines. *)
EXTENDS LinkDest, TLC, Json, FiniteSets, SequencesExt
CONSTANTS AllLen, CoreLen,      \* bounds on the number of blocks
          Excused,              \* kind names on which the model is known to deviate from the reference (findings
                                \* demonstrated on the real code; documents containing one are not asserted here)
          EscLen                \* escape pair: strings up to this length

B(s) == s       \* (readability)
\* configurations: base URL, directory
CfgMulti == Cfg(<<104,116,116,112,115,58,47,47,101,120,97,109,112,108,101,46,99,111,109,47,98,97,115,101,47>>,   \* https://example.com/base/
                <<100,111,99,115,47,115,117,98>>)                                                                   \* docs/sub
Cfgs == << Cfg(<<104,116,116,112,115,58,47,47,101,120,97,109,112,108,101,46,99,111,109,47>>, <<100,111,99,115>>),   \* https://example.com/  docs
           CfgMulti,
           Cfg(<<104,116,116,112,115,58,47,47,101,120,97,109,112,108,101,46,99,111,109,47,98,97,115,101>>, <<>>),   \* https://example.com/base  (no dir)
           Cfg(<<104,116,116,112,58,47,47,104,46,111,114,103,58,56,48,56,48,47,98,47>>, <<100>>) >>                \* http://h.org:8080/b/  d

CoreKinds == {k \in 1..NK : Kinds[k].core}
Allowed(doc, k) == \/ Len(doc) < AllLen
                   \/ Len(doc) < CoreLen /\ k \in CoreKinds /\ \A i \in 1..Len(doc) : doc[i] \in CoreKinds

VARIABLES doc, S, off
vars == <<doc, S, off>>
Init == doc = <<>> /\ S = S0 /\ off = 0
Next == \E k \in 1..NK :
          /\ Allowed(doc, k)
          /\ LET i == Len(doc) + 1
                 t == (IF i = 1 THEN <<>> ELSE Sep) \o BT[k][i] IN
             /\ doc' = Append(doc, k)
             /\ S' = StepLines(t, IF i = 1 THEN 1 ELSE 2, off, CfgMulti, S)
             /\ off' = off + Len(t)

(* ---- the model meets the reference ---- *)
HasExcused(d) == \E i \in 1..Len(d) : Kinds[d[i]].name \in Excused
RelSpans(d) == SelectSeq(Doc(d).spans, LAMBDA sp : sp.c = "rel")
\* the scanner rewrites exactly the ground-truth relative destinations ...
ModelRewritesExactlyTruth ==
  HasExcused(doc) \/ [n \in 1..Len(S.reps) |-> <<S.reps[n].s, S.reps[n].e>>] = [n \in 1..Len(RelSpans(doc)) |-> <<RelSpans(doc)[n].s, RelSpans(doc)[n].e>>]
\* ... and whenever it does rewrite a ground-truth span, what it writes is the reference's Rewrite
ModelRewriteIsRef ==
  LET src == Doc(doc).src IN
  \A n \in 1..Len(S.reps) :
     (\E sp \in {Doc(doc).spans[m] : m \in 1..Len(Doc(doc).spans)} : sp.s = S.reps[n].s /\ sp.e = S.reps[n].e /\ sp.c = "rel")
        => RewriteOk(Sub(src, S.reps[n].s + 1, S.reps[n].e), S.reps[n].repl, CfgMulti)
\* the offsets are consistent (the incremental scan sees the same text as the whole-document scan)
OffIsLen == off = Len(Doc(doc).src)

(* ---- constant-level checks ---- *)
\* the table's classes agree with the reference's classification of the destination, and every
\* destination is inside the reference's alphabet (so no exported case is ref_undefined)
TableConsistent ==
  \A k \in 1..NK : \A n \in 1..Len(Kinds[k].segs) :
     LET sg == Kinds[k].segs[n] u == RefUnescape(Concrete(sg.b, 1)) IN
     sg.c \in {"rel", "stay"} => DestDefined(u) /\ ((sg.c = "stay") <=> (RefClass(u) = "stay"))
ASSUME TableConsistent
ASSUME Len(Kinds) = Cardinality(KindNames)
\* destination rewriting, every real destination of the table x every configuration x position 1..2
RewriteAllCfgs ==
  \A k \in 1..NK : \A n \in 1..Len(Kinds[k].segs) : \A c \in 1..Len(Cfgs) : \A i \in 1..2 :
     LET sg == Kinds[k].segs[n] d == Concrete(sg.b, i) rw == ImplRewrite(d, Cfgs[c]) IN
     sg.c \in {"rel", "stay"} =>
        /\ rw.ok <=> (sg.c = "rel")
        /\ rw.ok => RewriteOk(d, rw.repl, Cfgs[c]) /\ AbsAgainstBase(d, rw.repl, Cfgs[c])
        /\ rw.ok => ImplRewrite(rw.repl, Cfgs[c]).ok = FALSE              \* a rewritten destination is kept (idempotence)
ASSUME RewriteAllCfgs
\* escape pair of mdescape.go over the punctuation alphabet
EscAlphabet == {92, 40, 41, 46, 97, 38, 34, 58, 96}          \* \ ( ) . a & " : `
EscStrings == SeqsUpTo(EscAlphabet, EscLen)
ASSUME \A u \in EscStrings : ImplUnescape(ImplURLEscape(u)) = u

(* ---- export ---- *)
AllDocs == UNION {[1..n -> 1..NK] : n \in 1..AllLen} \cup UNION {[1..n -> CoreKinds] : n \in (AllLen + 1)..CoreLen}
DocSeq == SetToSeq(AllDocs)
Names(d) == [i \in 1..Len(d) |-> Kinds[d[i]].name]
DocCase(id, d, cfg) == [id |-> id, k |-> "doc", kinds |-> Names(d), src |-> Doc(d).src, spans |-> Doc(d).spans,
                        base |-> cfg.base, dir |-> cfg.dir]
MultiCases == [n \in 1..Len(DocSeq) |-> DocCase(n, DocSeq[n], CfgMulti)]
\* single blocks under every other configuration
SingleCases == [n \in 1..(NK * Len(Cfgs)) |->
                  DocCase(Len(DocSeq) + n, <<((n - 1) % NK) + 1>>, Cfgs[((n - 1) \div NK) + 1])]
EscSeq == SetToSeq(EscStrings)
EscCases == [n \in 1..Len(EscSeq) |-> [id |-> Len(DocSeq) + NK * Len(Cfgs) + n, k |-> "esc", u |-> EscSeq[n]]]
ASSUME ndJsonSerialize("cases.ndjson", MultiCases \o SingleCases \o EscCases)
=============================================================================

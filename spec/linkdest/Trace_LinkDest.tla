--------------------------- MODULE Trace_LinkDest ---------------------------
(* C29: judges observations of the real linkDestinationReplacer.replace / markdownURLEscape /
   markdownUnescape (cmd/scriggo), one record per line of obs.ndjson:
     {id, k: "doc", kinds, src, spans, base, dir, outcome, err, out, out2}   (out2 = replace(out))
     {id, k: "esc", u, outcome, err, esc, unesc}                            (unesc = unescape(escape(u)))
   Mode "judge": the property-level predicates DocOk / EscOk of the reference part of LinkDest.tla.
   Mode "drift": DIAGNOSTIC comparison with the implementation-shaped model (exact bytes); its result
   is recorded as model_drift and never changes the verdict. *)
EXTENDS LinkDest, TLC, Json
CONSTANT Mode

ModelAgrees(r) ==
  IF r.k = "doc" THEN r.outcome = "ok" /\ r.out = ImplReplace(r.src, Cfg(r.base, r.dir))
  ELSE r.outcome = "ok" /\ r.esc = ImplURLEscape(r.u) /\ r.unesc = ImplUnescape(r.esc)

RecOk(r) == IF Mode = "drift" THEN ModelAgrees(r)
            ELSE IF r.k = "doc" THEN DocOk(r) ELSE EscOk(r)

\* signature: cause + kind of the blamed block + nearest preceding block kind that leaves an HTML-like
\* construct open ("-" when none): specific to the root cause, not to the whole document
Sig(r) ==
  IF Mode = "drift" THEN [fam |-> "linkdest", cause |-> "drift", kind |-> r.k, after |-> "-"]
  ELSE IF r.k = "esc" THEN [fam |-> "linkdest", cause |-> "esc-roundtrip", kind |-> "esc", after |-> "-"]
  ELSE LET v == DocVerdict(r) IN
       [fam |-> "linkdest", cause |-> v.cause,
        kind |-> IF v.b = 0 THEN "-" ELSE r.kinds[v.b],
        after |-> IF v.b = 0 THEN OpenBefore(r.kinds, Len(r.kinds)) ELSE OpenBefore(r.kinds, v.b - 1)]

(* ---- record-walk skeleton (same in every record-per-line Trace spec; see spec/README) ---- *)
VARIABLES l, nbad
Obs == ndJsonDeserialize("obs.ndjson")
Init == l = 1 /\ nbad = 0
Next == l <= Len(Obs) /\ l' = l + 1 /\ nbad' = nbad + (IF RecOk(Obs[l]) THEN 0 ELSE 1)
BadIdx == SelectSeq([i \in 1..Len(Obs) |-> i], LAMBDA i : ~RecOk(Obs[i]))
Done == l = Len(Obs) + 1 =>
          ndJsonSerialize("bad.ndjson",
             IF nbad = 0 THEN <<>>
             ELSE [j \in 1..(IF Len(BadIdx) < 400 THEN Len(BadIdx) ELSE 400) |->
                     [k |-> BadIdx[j], id |-> Obs[BadIdx[j]].id, sig |-> Sig(Obs[BadIdx[j]]), nbad |-> nbad]])
Consumed == TLCGet("stats").diameter - 1 = Len(Obs)
=============================================================================

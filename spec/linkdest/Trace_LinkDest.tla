--------------------------- MODULE Trace_LinkDest ---------------------------
(* C29: judges observations of the real linkDestinationReplacer.replace / markdownURLEscape /
   markdownUnescape (cmd/scriggo), one record per line of obs.ndjson:
     {id, k: "doc", kinds, src, spans, base, dir, outcome, err, out, out2}   (out2 = replace(out))
     {id, k: "esc", u, outcome, err, esc, unesc}                            (unesc = unescape(escape(u)))
   Mode "judge": the property-level predicates DocOk / EscOk of the reference part of LinkDest.tla.
   Mode "drift": DIAGNOSTIC comparison with the implementation-shaped model (exact bytes); its result
   is recorded as model_drift and never changes the verdict. *)
EXTENDS LinkDest, TLC, Json, FiniteSets, SequencesExt
CONSTANT Mode

ModelAgrees(r) ==
  IF r.k = "doc" THEN r.outcome = "ok" /\ r.out = ImplReplace(r.src, Cfg(r.base, r.dir))
  ELSE r.outcome = "ok" /\ r.esc = ImplURLEscape(r.u) /\ r.unesc = ImplUnescape(r.esc)

RecOk(r) == IF Mode = "drift" THEN ModelAgrees(r)
            ELSE IF r.k = "doc" THEN DocOk(r) ELSE EscOk(r)

\* detail of a "suffix-changed" verdict, at the first position where the query/fragment read back from the
\* output (got) differs from the source's (want): "backslash-before-61" when a backslash of the source before
\* '=' is gone (the escaper did not protect it) or when a backslash appeared before '=' (the unescaper did not
\* take \= as an escape) - the two faces of one disagreement about what a backslash escapes -, "other-at-<byte>"
\* otherwise: the root cause, whatever the rest of the destination is
SuffixDetail(r, v) ==
  LET sp == r.spans[v.k]
      want == PctDecode(SuffixPart(RefUnescape(OldDest(r.src, sp))))
      got == PctDecode(SuffixPart(RefUnescape(v.x)))
      diff == {i \in 1..Len(want) : i > Len(got) \/ got[i] # want[i]} IN
  IF diff = {} THEN "longer"
  ELSE LET i == CHOOSE j \in diff : \A j2 \in diff : j <= j2 IN
       IF want[i] = 92 /\ i < Len(want) /\ i <= Len(got) /\ got[i] = want[i + 1] THEN "backslash-before-" \o ToString(want[i + 1])
       ELSE IF i < Len(got) /\ got[i] = 92 /\ got[i + 1] = want[i] THEN "backslash-before-" \o ToString(want[i])
       ELSE "other-at-" \o ToString(want[i])
\* detail of a "dest-broken" verdict
BrokenDetail(r, v) ==
  IF InAngles(r.src, r.spans[v.k]) THEN "angle-bracket-or-line-end"
  ELSE IF v.x = <<>> \/ v.x[1] = 60 THEN "start"
  ELSE IF \E i \in 1..Len(v.x) : v.x[i] <= 32 \/ v.x[i] = 127 THEN "blank-or-control"
  ELSE "parenthesis-or-last-backslash"

\* signature: cause + kind of the blamed block + nearest preceding block kind that leaves an HTML-like
\* construct open ("-" when none; for "suffix-changed" the detail above): specific to the root cause, not
\* to the whole document.  (Fence documents: the "block" blamed is the fence line before the link line.)
Sig(r) ==
  IF Mode = "drift" THEN [fam |-> "linkdest", cause |-> "drift", kind |-> r.k, after |-> "-"]
  ELSE IF r.k = "esc" THEN [fam |-> "linkdest", cause |-> "esc-roundtrip", kind |-> "esc", after |-> "-"]
  ELSE LET v == DocVerdict(r) IN
       [fam |-> "linkdest", cause |-> v.cause,
        kind |-> IF v.b = 0 THEN "-" ELSE r.kinds[v.b],
        after |-> IF v.cause = "suffix-changed" THEN SuffixDetail(r, v)
                  ELSE IF v.cause = "dest-broken" THEN BrokenDetail(r, v)
                  ELSE IF v.b = 0 THEN OpenBefore(r.kinds, Len(r.kinds)) ELSE OpenBefore(r.kinds, v.b - 1)]

(* ---- record-walk skeleton (spec/lib2/Trace_HTMLEscape.tla) with ONE change: bad.ndjson lists one record per
        distinct signature (the first observation having it, with the number n of observations sharing it)
        instead of the first 400 bad records - a finding shared by thousands of documents must not push a
        different violation out of the list. ---- *)
VARIABLES l, nbad
Obs == ndJsonDeserialize("obs.ndjson")
Init == l = 1 /\ nbad = 0
Next == l <= Len(Obs) /\ l' = l + 1 /\ nbad' = nbad + (IF RecOk(Obs[l]) THEN 0 ELSE 1)
BadIdx == SelectSeq([i \in 1..Len(Obs) |-> i], LAMBDA i : ~RecOk(Obs[i]))
BadList ==
  LET pairs == {<<Sig(Obs[BadIdx[j]]), BadIdx[j]>> : j \in 1..Len(BadIdx)}
      sigs == {p[1] : p \in pairs}
      First(sg) == CHOOSE i \in {p[2] : p \in {q \in pairs : q[1] = sg}} : \A q \in pairs : q[1] = sg => i <= q[2]
      Count(sg) == Cardinality({q \in pairs : q[1] = sg})
      firsts == SetToSeq({<<First(sg), Count(sg), sg>> : sg \in sigs}) IN
  [j \in 1..Len(firsts) |-> [k |-> firsts[j][1], id |-> Obs[firsts[j][1]].id, sig |-> firsts[j][3], n |-> firsts[j][2], nbad |-> nbad]]
Done == l = Len(Obs) + 1 => ndJsonSerialize("bad.ndjson", IF nbad = 0 THEN <<>> ELSE BadList)
Consumed == TLCGet("stats").diameter - 1 = Len(Obs)
=============================================================================
